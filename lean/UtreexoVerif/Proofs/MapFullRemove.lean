/-
  `MapPollard.remove` on a FULL map forest preserves `FInv`, for ANY duplicate-free list of live
  leaves (every live leaf is cached in a full forest).

  Layer 1 (`removeSingle` on the abstract state) is `Proofs/MapRemoveRep.lean`, generalised over the
  `full` flag; the specification side is `Proofs/PForestDel.lean` / `Proofs/MapDeTwin.lean`.
  Here: the full image `FA` across one `removeSingle` (`frootCase`, `flift` + `frehash`; the pruning
  walk `forgetUnneededDel` removes nothing: `fgLoopA_id`), the loop over the detwinned targets and
  `remove` itself.  While the loop runs, the cache has already lost the leaves to be deleted: they
  form the pending set `P` of `FA`.
-/
import UtreexoVerif.Proofs.MapFullAdd
import UtreexoVerif.Proofs.MapRemoveAll

namespace UtreexoVerif.Proofs.MapFullRemove
open UtreexoVerif Model Spec Spec.Forest Proofs MapAL MapInv MapPrune MapRep MapLiftGeo PForest MapAInv MapLiftCore
open PForestSpec PForestDel MapSInv MapRemoveRep MapRemoveSteps MapRemoveLoops MapDeTwin MapRemoveAll MapFull MapFullAdd
  Hasher
set_option linter.unusedSectionVars false
set_option linter.unusedVariables false

variable {H : Type} [DecidableEq H] [Hasher H]
variable {A : Pos → Option (Leaf H)} {C : H → Option Pos} {N N'' : List (Pos × H × Bool)} {P : H → Prop}
  {R : Pos → Prop}

/-! ### the pruning walk does nothing -/

theorem fgLoopA_id (n : Nat) (hfl : ∀ q l, A q = some l → l.remember = true) :
    ∀ (k : Nat) (pos : Pos), fgLoopA n k pos A = A
  | 0, _ => rfl
  | k+1, pos => by
    unfold fgLoopA
    split
    · rfl
    · rw [pruneA_id hfl]; exact fgLoopA_id n hfl k (parent pos)

/-! ### the pending set -/

/-- the pending set may be replaced by one that agrees with it on the leaves of `N` -/
theorem FA.shrinkP {P' : H → Prop} (fa : FA A C N P) (h1 : ∀ x, P' x → P x)
    (h2 : ∀ t x, (t, x, true) ∈ N → P x → P' x) : FA A C N P' where
  dom := fa.dom
  sto := fa.sto
  cdom := by
    intro x t hx
    obtain ⟨hp, t', hm⟩ := fa.cdom x t hx
    exact ⟨fun h => hp (h1 x h), t', hm⟩
  csto := by
    intro t x hm hp
    exact fa.csto t x hm (fun h => hp (h2 t x hm h))

/-! ### the root case -/

theorem frootCase (fa : FA A C N P) {d : Pos}
    (hPd : ∀ t x, (t, x, true) ∈ N → Anc d t → P x)
    (hN'' : ∀ e : Pos × H × Bool, e ∈ N'' ↔ (¬ Anc d e.1 ∧ e ∈ N) ∨ e = (d, zero, false)) :
    FA (upd (clearBelow d A) d (some ⟨zero, true⟩)) C N'' P := by
  have hval : ∀ q, ¬ Anc d q → upd (clearBelow d A) d (some ⟨zero, true⟩) q = A q := by
    intro q hq
    have hne : q ≠ d := fun e => hq (e ▸ Anc.refl _)
    rw [upd_ne _ _ hne]
    unfold clearBelow
    rw [if_neg (fun h => hq h.1)]
  have hsto : ∀ q l, upd (clearBelow d A) d (some ⟨zero, true⟩) q = some l → q = d ∨ (¬ Anc d q ∧ A q = some l) := by
    intro q l hl
    by_cases hq : q = d
    · exact Or.inl hq
    · right
      rw [upd_ne _ _ hq] at hl
      unfold clearBelow at hl
      split at hl
      · cases hl
      · rename_i hs
        refine ⟨fun ha => hs ⟨ha, ?_⟩, hl⟩
        have := ha.1
        have hr : q.1 ≠ d.1 := fun e => hq (ha.eq_of_row e.symm).symm
        omega
  refine { dom := ?_, sto := ?_, cdom := ?_, csto := ?_ }
  · intro q l hl
    rcases hsto q l hl with rfl | ⟨hq, hA⟩
    · exact ⟨zero, false, (hN'' _).2 (Or.inr rfl)⟩
    · obtain ⟨b, hb⟩ := fa.mem hA
      exact ⟨_, b, (hN'' _).2 (Or.inl ⟨hq, hb⟩)⟩
  · intro q h b hm
    rcases (hN'' _).1 hm with ⟨hq, hmN⟩ | e
    · rw [hval q hq]; exact fa.sto q h b hmN
    · simp only [Prod.mk.injEq] at e
      obtain ⟨rfl, rfl, _⟩ := e
      rw [upd_self]
  · intro x t hx
    have hm := fa.cpos hx
    refine ⟨fa.notP hx, t, (hN'' _).2 (Or.inl ⟨fun ha => fa.notP hx (hPd t x hm ha), hm⟩)⟩
  · intro t x hm hp
    rcases (hN'' _).1 hm with ⟨_, hmN⟩ | e
    · exact fa.csto t x hmN hp
    · simp only [Prod.mk.injEq] at e
      exact absurd e.2.2 (by simp)

/-! ### re-hashing the ancestors -/

/-- replacing the hashes of the inner nodes in `Z` in the node list and in the store -/
theorem frehash {N' : List (Pos × H × Bool)} {A5 : Pos → Option (Leaf H)} {Z : Pos → Prop}
    (fa : FA A C N' P)
    (hsame : ∀ e : Pos × H × Bool, ¬ Z e.1 → (e ∈ N'' ↔ e ∈ N'))
    (hZ' : ∀ z h f, Z z → (z, h, f) ∈ N' → f = false ∧ ∃ h1, (z, h1, false) ∈ N'')
    (hZ'' : ∀ z h f, Z z → (z, h, f) ∈ N'' → f = false ∧ ∃ h0, (z, h0, false) ∈ N')
    (hfunc : ∀ z h h' f f', Z z → (z, h, f) ∈ N'' → (z, h', f') ∈ N'' → h = h')
    (h1 : ∀ q, ¬ Z q → A5 q = A q)
    (h2 : ∀ z, Z z → (A5 z).isSome = (A z).isSome)
    (h3 : ∀ z l, Z z → A5 z = some l → (z, l.hash, false) ∈ N'' ∧ l.remember = true) :
    FA A5 C N'' P := by
  have leaf_same : ∀ t x, (t, x, true) ∈ N'' ↔ (t, x, true) ∈ N' := by
    intro t x
    by_cases hz : Z t
    · constructor
      · intro h; exact absurd (hZ'' t x true hz h).1 (by simp)
      · intro h; exact absurd (hZ' t x true hz h).1 (by simp)
    · exact hsame (t, x, true) hz
  refine { dom := ?_, sto := ?_, cdom := ?_, csto := ?_ }
  · intro q l hl
    by_cases hz : Z q
    · exact ⟨_, false, (h3 q l hz hl).1⟩
    · rw [h1 q hz] at hl
      obtain ⟨b, hb⟩ := fa.mem hl
      exact ⟨_, b, (hsame _ hz).2 hb⟩
  · intro q h b hm
    by_cases hz : Z q
    · obtain ⟨_, h0, hm0⟩ := hZ'' q h b hz hm
      have hs : (A5 q).isSome = true := by rw [h2 q hz, fa.sto q h0 false hm0]; rfl
      obtain ⟨l, hl⟩ := Option.isSome_iff_exists.1 hs
      obtain ⟨hm5, hr⟩ := h3 q l hz hl
      have := hfunc q _ _ _ _ hz hm5 hm
      rw [hl]
      congr 1
      cases l
      simp only at this hr
      subst this hr
      rfl
    · rw [h1 q hz]; exact fa.sto q h b ((hsame _ hz).1 hm)
  · intro x t hx
    obtain ⟨hp, t', hm⟩ := fa.cdom x t hx
    exact ⟨hp, t', (leaf_same t' x).2 hm⟩
  · intro t x hm hp
    exact fa.csto t x ((leaf_same t x).1 hm) hp

/-! ### one removal below a non-root node -/

variable {N : List (Pos × H × Bool)}

/-- **`removeSingle` below a non-root node on the abstract state of a full forest**: lift, re-hash;
the pruning walk changes nothing -/
theorem fnonroot (L : Laws N R) (L'' : Laws N'' R) (n T : Nat)
    (hR : ∀ z, R z ↔ isRootPos n z = true) (hRT : ∀ ρ, R ρ → ρ.1 ≤ T)
    (fa : FA A C N P) {d ρ : Pos} {h : H} {b : Bool}
    (hd : (d, h, b) ∈ N) (hnr : ¬ R d) (hρ : R ρ) (hρd : Anc ρ d)
    (hPd : ∀ t x, (t, x, true) ∈ N → Anc d t → P x)
    (hD1 : ∀ e : Pos × H × Bool, e ∈ N'' →
      (¬ Anc (parent d) e.1 ∧ ¬ Anc e.1 (parent d) ∧ e ∈ N) ∨
      (∃ c, Anc (sib d) c ∧ e.1 = liftP (sib d) c ∧ (c, e.2) ∈ N) ∨
      (Anc e.1 (parent d) ∧ e.1 ≠ parent d ∧ e.2.2 = false ∧ ∃ h0, (e.1, h0, false) ∈ N))
    (hD2 : ∀ e : Pos × H × Bool, ¬ Anc (parent d) e.1 → ¬ Anc e.1 (parent d) → e ∈ N → e ∈ N'')
    (hD3 : ∀ c h' b', Anc (sib d) c → (c, h', b') ∈ N → (liftP (sib d) c, h', b') ∈ N'')
    (hD4 : ∀ z h0, (z, h0, false) ∈ N → Anc z (parent d) → z ≠ parent d → ∃ h1, (z, h1, false) ∈ N'') :
    ∃ node, A (sib d) = some node ∧
      FA (fgLoopA n (T + 1 - d.1) d
          (updLoopA n T (T + 1 - (d.1 + 1)) (parent d) ⟨node.hash, true⟩ (liftAll (sib d) A)))
        (liftCAll (sib d) C) N'' P := by
  obtain ⟨hσ, bσ, hσN⟩ := L.sib_node d h b hd hnr
  obtain ⟨hP, hPN, hPnz⟩ := L.parent_node d h b hd hnr
  have hnrσ : ¬ R (sib d) := L.not_root_of_sunder hPN hσN (by
    rw [sunder_iff_parent, parent_sib]; exact Anc.refl _)
  have hσσ : sib (sib d) = d := sib_sib d
  have hPσ : parent (sib d) = parent d := parent_sib d
  have hnode : A (sib d) = some ⟨hσ, true⟩ := fa.sto _ _ _ hσN
  refine ⟨⟨hσ, true⟩, hnode, ?_⟩
  -- rows
  have hdρ : d ≠ ρ := fun e => hnr (e ▸ hρ)
  have hd_lt : d.1 < ρ.1 := by
    have := hρd.1
    have hr : d.1 ≠ ρ.1 := fun e => hdρ (hρd.eq_of_row e.symm).symm
    omega
  have hρT := hRT ρ hρ
  have hρP : Anc ρ (parent d) := by rw [anc_parentR_iff]; exact ⟨hρd, hd_lt⟩
  have hP1 : (parent d).1 = d.1 + 1 := rfl
  -- 1. the lift
  have fa1 : FA (liftAll (sib d) A) (liftCAll (sib d) C) (liftN (sib d) N) P :=
    flift L fa ⟨hσ, bσ, hσN⟩ (by rw [hσσ]; exact hPd) (fun e => mem_liftN e)
  -- 2. the re-hashing
  let Z : Pos → Prop := fun z => Anc z (parent d) ∧ z ≠ parent d
  have not_under_of_Z : ∀ z, Z z → ¬ Anc (parent d) z := by
    intro z hz ha; exact hz.2 (Anc.antisymm hz.1 ha)
  have hsame : ∀ e : Pos × H × Bool, ¬ Z e.1 → (e ∈ N'' ↔ e ∈ liftN (sib d) N) := by
    intro e hz
    rw [mem_liftN, hPσ]
    constructor
    · intro he
      rcases hD1 e he with ⟨h1, _, h3⟩ | h | ⟨h1, h2, _⟩
      · exact Or.inl ⟨h1, h3⟩
      · exact Or.inr h
      · exact absurd ⟨h1, h2⟩ hz
    · rintro (⟨h1, h2⟩ | ⟨c, h1, h2, h3⟩)
      · refine hD2 e h1 (fun ha => ?_) h2
        by_cases he : e.1 = parent d
        · exact h1 (he ▸ Anc.refl _)
        · exact hz ⟨ha, he⟩
      · have := hD3 c e.2.1 e.2.2 h1 h3
        rw [← h2] at this
        exact this
  have hZ' : ∀ z h' f, Z z → (z, h', f) ∈ liftN (sib d) N → f = false ∧ ∃ h1, (z, h1, false) ∈ N'' := by
    intro z h' f hz hm
    rw [mem_liftN, hPσ] at hm
    rcases hm with ⟨_, hm⟩ | ⟨c, hc, he, _⟩
    · have hf : f = false := by
        cases f with
        | false => rfl
        | true =>
          exfalso
          have := L.leaf_below z h' (parent d) hP false hm hPN hz.1
          exact hz.2 this.symm
      subst hf
      exact ⟨rfl, hD4 z h' hm hz.1 hz.2⟩
    · exfalso
      apply not_under_of_Z z hz
      simp only at he
      rw [he, ← hPσ]; exact anc_parent_liftP hc
  have hZ'' : ∀ z h' f, Z z → (z, h', f) ∈ N'' → f = false ∧ ∃ h0, (z, h0, false) ∈ liftN (sib d) N := by
    intro z h' f hz hm
    rcases hD1 _ hm with ⟨_, h2, _⟩ | ⟨c, hc, he, _⟩ | ⟨_, _, h3, h0, h4⟩
    · exact absurd hz.1 h2
    · exfalso
      apply not_under_of_Z z hz
      simp only at he
      rw [he, ← hPσ]; exact anc_parent_liftP hc
    · refine ⟨h3, h0, ?_⟩
      rw [mem_liftN, hPσ]
      exact Or.inl ⟨not_under_of_Z z hz, h4⟩
  -- the lifted node at `P`
  have hPN'' : (parent d, hσ, bσ) ∈ N'' := by
    have := hD3 (sib d) hσ bσ (Anc.refl _) hσN
    rwa [liftP_self, hPσ] at this
  have hlA_out : ∀ q, ¬ Anc (parent d) q → liftAll (sib d) A q = A q := by
    intro q hq; exact liftAll_out (by rw [hPσ]; exact hq)
  -- nothing is stored strictly above a root
  have above_root : ∀ r z, R r → Anc z r → z ≠ r → A z = none := by
    intro r z hr hz hne
    cases hA : A z with
    | none => rfl
    | some l =>
      exfalso
      obtain ⟨bz, hzm⟩ := fa.mem hA
      obtain ⟨r', hr', ha'⟩ := L.under_root z _ bz hzm
      have := L.root_disj r' r r hr' hr (Anc.trans ha' hz) (Anc.refl r)
      subst this
      exact hne (Anc.antisymm hz ha')
  have hk1 : T + 1 - (d.1 + 1) + (parent d).1 = T + 1 := by rw [hP1]; omega
  obtain ⟨g1, g2, g3⟩ : (∀ q, ¬ Z q → updLoopA n T (T + 1 - (d.1 + 1)) (parent d) ⟨hσ, true⟩ (liftAll (sib d) A) q
        = liftAll (sib d) A q) ∧
      (∀ z, Z z → (updLoopA n T (T + 1 - (d.1 + 1)) (parent d) ⟨hσ, true⟩ (liftAll (sib d) A) z).isSome
        = (liftAll (sib d) A z).isSome) ∧
      (∀ z l, Z z → updLoopA n T (T + 1 - (d.1 + 1)) (parent d) ⟨hσ, true⟩ (liftAll (sib d) A) z = some l →
        (z, l.hash, false) ∈ N'' ∧ l.remember = true) := by
    by_cases hPρ : parent d = ρ
    · have hnone : updLoopA n T (T + 1 - (d.1 + 1)) (parent d) ⟨hσ, true⟩ (liftAll (sib d) A) =
          liftAll (sib d) A := by
        apply updLoop_none
        · intro z hz hne
          rw [hlA_out z (fun ha => hne (Anc.antisymm hz ha))]
          exact above_root (parent d) z (hPρ ▸ hρ) hz hne
        · intro z hz hne
          cases hr : isRootPos n z with
          | false => rfl
          | true =>
            exfalso
            have := L.root_disj z (parent d) (parent d) ((hR z).2 hr) (hPρ ▸ hρ) hz (Anc.refl _)
            exact hne this
      rw [hnone]
      refine ⟨fun _ _ => rfl, fun _ _ => rfl, ?_⟩
      intro z l hz hl
      rw [hlA_out z (not_under_of_Z z hz), above_root (parent d) z (hPρ ▸ hρ) hz.1 hz.2] at hl
      cases hl
    · have hsibs : ∀ z, Anc z (parent d) → Anc ρ z → z ≠ ρ →
          ∃ l f, liftAll (sib d) A (sib z) = some l ∧ (sib z, l.hash, f) ∈ N'' := by
        intro z hz hρz hzρ
        obtain ⟨hz', bz, hzm⟩ := L.path_nodes (ρ.1 - (parent d).1)
          (L.root_node ρ hρ).choose_spec.choose_spec hPN hρP (by have := hρP.1; omega) z hρz hz
        have hnrz : ¬ R z := fun hr => hzρ (L.root_disj z ρ z hr hρ (Anc.refl z) hρz)
        obtain ⟨hs, bs, hsm⟩ := L.sib_node z hz' bz hzm hnrz
        have hout : ¬ Anc (parent d) (sib z) := by
          intro ha
          have h1 := ha.1
          have h2 := hz.1
          rw [sib_fst] at h1
          have hzP : z = parent d := (hz.eq_of_row (by omega))
          rw [hzP] at ha
          exact not_anc_sib _ ha
        have hnot : ¬ Anc (sib z) (parent d) := by
          intro ha
          have := Anc.comparable ha hz (by rw [sib_fst]; exact Nat.le_refl _)
          exact not_anc_sib z this
        exact ⟨⟨hs, true⟩, bs, by rw [hlA_out _ hout]; exact fa.sto _ _ _ hsm, hD2 _ hout hnot hsm⟩
      obtain ⟨u1, u2⟩ := updLoop_below L'' n T hR hRT (fl := true) (T + 1 - (d.1 + 1)) (parent d) ⟨hσ, true⟩
        (liftAll (sib d) A) ρ hρ hρP hPρ hk1 ⟨bσ, hPN''⟩ rfl hsibs
      refine ⟨?_, ?_, ?_⟩
      · intro q hq
        exact u1 q (fun ⟨h1, h2, _⟩ => hq ⟨h1, h2⟩)
      · intro z hz
        by_cases hρz : Anc ρ z
        · exact (u2 z hz.1 hz.2 hρz).1
        · rw [u1 z (fun ⟨_, _, h3⟩ => hρz h3)]
      · intro z l hz hl
        by_cases hρz : Anc ρ z
        · exact (u2 z hz.1 hz.2 hρz).2 l hl
        · exfalso
          rw [u1 z (fun ⟨_, _, h3⟩ => hρz h3), hlA_out z (not_under_of_Z z hz)] at hl
          have hzρ : Anc z ρ := by
            by_cases hle : ρ.1 ≤ z.1
            · exact Anc.comparable hρP hz.1 hle
            · exact absurd (Anc.comparable hz.1 hρP (by omega)) hρz
          have hne : z ≠ ρ := fun e => hρz (e ▸ Anc.refl _)
          rw [above_root ρ z hρ hzρ hne] at hl
          cases hl
  have fa2 := frehash (Z := Z) fa1 hsame hZ' hZ''
    (fun z h1 h2 f1 f2 _ hm1 hm2 => (L''.func _ _ _ _ _ hm1 hm2).1) g1 g2 g3
  -- 3. the walk
  rw [fgLoopA_id n (fun q l h => fa2.flag h)]
  exact fa2

/-! ### the invariant with a pending set -/

structure FRInv (m : MapPollard H) (F : Forest H) (P : H → Prop) : Prop where
  n_lt : F.numLeaves < 2 ^ 63
  n_eq : m.numLeaves = BitVec.ofNat 64 F.numLeaves
  rows_le : F.rows ≤ m.totalRows.toNat
  total_le : m.totalRows.toNat ≤ 63
  full : m.full = true
  hyg : Hyg F
  abs : ∃ A C, Rep m m.totalRows.toNat A C ∧ FA A C F.nodes P

theorem FRInv.congr {m : MapPollard H} {F F' : Forest H} {P P' : H → Prop} (r : FRInv m F P)
    (hF : F' = F) (hP : ∀ x, P' x ↔ P x) : FRInv m F' P' := by
  have : P' = P := funext fun x => propext (hP x)
  rw [hF, this]; exact r

/-- the cache update of `removeSingle`, pointwise -/
theorem cacheSib_eq_full (L : Laws N R) (hcp : ∀ x t, C x = some t → (t, x, true) ∈ N)
    {σ Pp : Pos} {node : Leaf H} {bn : Bool} (hσ : (σ, node.hash, bn) ∈ N) (y : H) :
    cacheSib node Pp C y = if C y = some σ then some Pp else C y := by
  unfold cacheSib
  by_cases hs : (C node.hash).isSome = true
  · rw [if_pos hs]
    obtain ⟨t, ht⟩ := Option.isSome_iff_exists.1 hs
    have hm := hcp _ t ht
    have hts : σ = t := L.leaf_hash t node.hash σ bn hm hσ
    subst hts
    rw [upd_apply]
    by_cases hy : y = node.hash
    · subst hy; rw [if_pos rfl, if_pos ht]
    · rw [if_neg hy, if_neg]
      intro h
      exact hy (L.func _ _ _ _ _ (hcp _ _ h) hσ).1
  · rw [if_neg hs, if_neg]
    intro h
    have := (L.func _ _ _ _ _ (hcp _ _ h) hσ).1
    subst this
    rw [h] at hs; exact hs rfl

/-- a leaf entry of the forest after a deletion is not one of the deleted leaves -/
theorem leaf_not_deleted {F : Forest H} (hn : F.numLeaves < 2 ^ 64) {Rl : List H} {t : Pos} {x : H}
    (hm : (t, x, true) ∈ (F.delLeaves Rl).nodes) : x ∉ Rl := by
  have h1 : x ∈ (F.delLeaves Rl).liveLeaves := by
    rw [← leaves_ofForest _ (by rw [numLeaves_delLeaves]; exact hn)]
    exact leaf_entry_mem (by rw [nodes_ofForest]; exact hm)
  rw [liveLeaves_delLeaves] at h1
  simpa using (List.mem_filter.1 h1).2

/-! ### one `removeSingle` -/

/-- **`removeSingle d` on a full forest**: `d` is a node of `F` all of whose leaves are pending
(no longer in the cache); afterwards the state tracks `F` without the leaves below `d` -/
theorem fremoveSingle_step (nz : NZ H) {m : MapPollard H} {F : Forest H} {P : H → Prop} (r : FRInv m F P)
    {d : Pos} {h : H} {b : Bool} (hd : (d, h, b) ∈ F.nodes)
    (hpend : ∀ t x, (t, x, true) ∈ F.nodes → Anc d t → P x) :
    ∃ m', MapPollard.removeSingle (encP m.totalRows.toNat d) m = (m', .ok ()) ∧
      m'.totalRows = m.totalRows ∧
      FRInv m' (F.delLeaves (leavesUnder F d)) (fun x => P x ∧ x ∉ leavesUnder F d) := by
  obtain ⟨A, C, rep, fa⟩ := r.abs
  have hn64 : F.numLeaves < 2 ^ 64 := by have := r.n_lt; omega
  have L := laws_forest nz F hn64 r.hyg
  have hy' := hyg_delLeaves r.hyg (leavesUnder F d)
  have hnl' : (F.delLeaves (leavesUnder F d)).numLeaves = F.numLeaves := numLeaves_delLeaves F _
  have L'' : Laws (F.delLeaves (leavesUnder F d)).nodes (FRoot F) := by
    have := laws_forest nz (F.delLeaves (leavesUnder F d)) (by rw [hnl']; exact hn64) hy'
    rwa [froot_del] at this
  have hdv : Valid m.totalRows.toNat d := MapFull.node_valid r.rows_le hd
  have hrowsF : forestRows F.numLeaves ≤ m.totalRows.toNat := r.rows_le
  -- the final packaging
  have pack : ∀ (m' : MapPollard H) (A' : Pos → Option (Leaf H)) (C' : H → Option Pos),
      Rep m' m.totalRows.toNat A' C' → m'.numLeaves = m.numLeaves → m'.full = m.full →
      FA A' C' (F.delLeaves (leavesUnder F d)).nodes P →
      m'.totalRows = m.totalRows ∧
      FRInv m' (F.delLeaves (leavesUnder F d)) (fun x => P x ∧ x ∉ leavesUnder F d) := by
    intro m' A' C' rep' hnl hfl fa'
    have hT' : m'.totalRows = m.totalRows := rep'.rows.trans rep.rows.symm
    refine ⟨hT', ?_⟩
    refine { n_lt := by rw [hnl']; exact r.n_lt, n_eq := by rw [hnl, hnl']; exact r.n_eq,
             rows_le := ?_, total_le := by rw [hT']; exact r.total_le, full := hfl.trans r.full,
             hyg := hy', abs := ?_ }
    · show forestRows (F.delLeaves (leavesUnder F d)).numLeaves ≤ _
      rw [hnl', hT']; exact r.rows_le
    · rw [hT']
      refine ⟨A', C', rep', FA.shrinkP fa' (fun x hx => hx.1) ?_⟩
      intro t x hm hp
      exact ⟨hp, leaf_not_deleted hn64 hm⟩
  by_cases hroot : isRootPos F.numLeaves d = true
  · obtain ⟨m', hrm, rep', hnl, hfl⟩ := removeSingle_root_rep rep r.n_eq r.n_lt hrowsF r.full hdv hroot
    have hN'' := del_root nz F hn64 r.hyg hroot (leavesUnder F d) (fun x => mem_leavesUnder)
    have fa' := frootCase fa hpend hN''
    exact ⟨m', hrm, pack m' _ _ rep' hnl hfl fa'⟩
  · have hnr : isRootPos F.numLeaves d = false := by
      cases hx : isRootPos F.numLeaves d with
      | false => rfl
      | true => exact absurd hx hroot
    have hnrR : ¬ FRoot F d := by unfold FRoot; rw [hnr]; simp
    obtain ⟨ρ, hρ, hρd⟩ := L.under_root d h b hd
    obtain ⟨D1, D2, D3, D4⟩ := del_nonroot nz F hn64 r.hyg hd hnr (leavesUnder F d) (fun x => mem_leavesUnder)
    have hRT : ∀ z, FRoot F z → z.1 ≤ m.totalRows.toNat := by
      intro z hz
      obtain ⟨hz', bz, hzm⟩ := L.root_node z hz
      exact (MapFull.node_valid r.rows_le hzm).1
    obtain ⟨node, hnode, fa'⟩ := fnonroot L L'' F.numLeaves m.totalRows.toNat (fun z => Iff.rfl) hRT fa hd hnrR hρ hρd
      hpend D1 D2 D3 D4
    obtain ⟨bn, hσN⟩ := fa.mem hnode
    have hcp : ∀ x t, C x = some t → (t, x, true) ∈ F.nodes := fun x t hx => fa.cpos hx
    have hcu := cacheSib_eq_full (Pp := parent d) L hcp hσN
    have hc : ∀ c v, SUnder (sib d) c → A c = some v →
        ∀ t, cacheSib node (parent d) C v.hash = some t → t = c := by
      intro c v hcs hAc t ht
      obtain ⟨bc, hb⟩ := fa.mem hAc
      rw [hcu] at ht
      split at ht
      · rename_i hCσ
        have hm := fa.cpos hCσ
        have := L.leaf_hash _ _ c bc hm hb
        have h2 := hcs.2; rw [this] at h2; omega
      · have hm := fa.cpos ht
        exact (L.leaf_hash _ _ c bc hm hb).symm
    have hc2 : ∀ x t, cacheSib node (parent d) C x = some t → SUnder (sib d) t →
        ∃ v, A t = some v ∧ v.hash = x := by
      intro x t ht hts
      rw [hcu] at ht
      split at ht
      · simp only [Option.some.injEq] at ht
        subst ht
        have h2 := hts.2
        have : (parent d).1 = (sib d).1 + 1 := by rw [sib_fst]; rfl
        omega
      · have hm := fa.cpos ht
        exact ⟨_, fa.sto t x true hm, rfl⟩
    obtain ⟨m', hrm, rep', hnl, hfl⟩ :=
      removeSingle_nonroot_rep rep r.n_eq r.n_lt hrowsF r.full hdv hnr hρ hρd hnode hc hc2
    have e1 : liftA (sib d) (upd (upd (upd (clearBelow d A) d none) (sib d) none) (parent d) (some node)) =
        liftAll (sib d) A := funext (liftAll_eq_remove hnode)
    have e2 : liftC (sib d) (cacheSib node (parent d) C) = liftCAll (sib d) C := by
      funext x
      have : cacheSib node (parent d) C =
          fun y => if C y = some (sib d) then some (parent (sib d)) else C y := by
        funext y; rw [hcu, parent_sib]
      rw [this, MapAddMerge.liftC_eq]
    rw [e1, e2] at rep'
    exact ⟨m', hrm, pack m' _ _ rep' hnl hfl fa'⟩

/-! ### the loop over the detwinned targets -/

theorem fremoveAll_spec (nz : NZ H) : ∀ (ds : List Pos) {m : MapPollard H} {F : Forest H} {P : H → Prop},
    FRInv m F P → (∀ d ∈ ds, ∃ h b, (d, h, b) ∈ F.nodes) →
    (∀ d ∈ ds, ∀ t x, (t, x, true) ∈ F.nodes → Anc d t → P x) →
    ds.Pairwise (fun a b => ¬ Anc (parent a) b ∧ ¬ Anc b (parent a)) →
    ∃ m', MapPollard.removeAll (ds.map (encP m.totalRows.toNat)) m = m' ∧ m'.totalRows = m.totalRows ∧
      FRInv m' (F.delLeaves (ds.flatMap (leavesUnder F))) (fun x => P x ∧ x ∉ ds.flatMap (leavesUnder F))
  | [], m, F, P, r, _, _, _ => by
    refine ⟨m, rfl, rfl, ?_⟩
    apply r.congr
    · exact delLeaves_nil F
    · intro x; simp
  | d :: ds, m, F, P, r, hnode, hpend, hsep => by
    obtain ⟨h, b, hd⟩ := hnode d List.mem_cons_self
    obtain ⟨m1, hrm, hT1, r1⟩ := fremoveSingle_step nz r hd (hpend d List.mem_cons_self)
    rw [List.pairwise_cons] at hsep
    have hn64 : F.numLeaves < 2 ^ 64 := by have := r.n_lt; omega
    have L := laws_forest nz F hn64 r.hyg
    have pers : ∀ d' ∈ ds,
        (∀ h' b', (d', h', b') ∈ F.nodes → (d', h', b') ∈ (F.delLeaves (leavesUnder F d)).nodes) ∧
        (∀ t x, Anc d' t → ((t, x, true) ∈ (F.delLeaves (leavesUnder F d)).nodes ↔ (t, x, true) ∈ F.nodes)) := by
      intro d' hd'
      have hs := hsep.1 d' hd'
      by_cases hroot : isRootPos F.numLeaves d = true
      · obtain ⟨s1, s2⟩ := sep_disj hs
        exact persist_root nz F hn64 r.hyg hroot s1 s2
      · have hnr : isRootPos F.numLeaves d = false := by
          cases hx : isRootPos F.numLeaves d with
          | false => rfl
          | true => exact absurd hx hroot
        exact persist_nonroot nz F hn64 r.hyg hd hnr hs.1 hs.2
    have hmemLU : ∀ d' ∈ ds, ∀ x, x ∈ leavesUnder (F.delLeaves (leavesUnder F d)) d' ↔ x ∈ leavesUnder F d' := by
      intro d' hd' x
      rw [mem_leavesUnder, mem_leavesUnder]
      constructor
      · rintro ⟨t, ht, ha⟩; exact ⟨t, ((pers d' hd').2 t x ha).1 ht, ha⟩
      · rintro ⟨t, ht, ha⟩; exact ⟨t, ((pers d' hd').2 t x ha).2 ht, ha⟩
    have hnode1 : ∀ d' ∈ ds, ∃ h' b', (d', h', b') ∈ (F.delLeaves (leavesUnder F d)).nodes := by
      intro d' hd'
      obtain ⟨h', b', hm⟩ := hnode d' (List.mem_cons_of_mem _ hd')
      exact ⟨h', b', (pers d' hd').1 h' b' hm⟩
    have hpend1 : ∀ d' ∈ ds, ∀ t x, (t, x, true) ∈ (F.delLeaves (leavesUnder F d)).nodes → Anc d' t →
        (P x ∧ x ∉ leavesUnder F d) := by
      intro d' hd' t x ht ha
      have htF := ((pers d' hd').2 t x ha).1 ht
      exact ⟨hpend d' (List.mem_cons_of_mem _ hd') t x htF ha, leaf_not_deleted hn64 ht⟩
    obtain ⟨m2, hrest, hT2, r2⟩ := fremoveAll_spec nz ds r1 hnode1 hpend1 hsep.2
    refine ⟨m2, ?_, hT2.trans hT1, ?_⟩
    · show MapPollard.removeAll (ds.map (encP m.totalRows.toNat)) (MapPollard.removeSingle (encP m.totalRows.toNat d) m).1 = m2
      rw [hrm]
      rw [hT1] at hrest
      exact hrest
    · have hmemAll : ∀ x, x ∈ ds.flatMap (leavesUnder (F.delLeaves (leavesUnder F d))) ↔ x ∈ ds.flatMap (leavesUnder F) := by
        intro x
        simp only [List.mem_flatMap]
        constructor
        · rintro ⟨d', hd', hx⟩; exact ⟨d', hd', (hmemLU d' hd' x).1 hx⟩
        · rintro ⟨d', hd', hx⟩; exact ⟨d', hd', (hmemLU d' hd' x).2 hx⟩
      apply r2.congr
      · rw [delLeaves_delLeaves]
        apply delLeaves_congr'
        intro x
        simp only [List.flatMap_cons, List.mem_append]
        rw [hmemAll]
      · intro x
        simp only [List.flatMap_cons, List.mem_append]
        rw [hmemAll]
        constructor
        · rintro ⟨h1, h2⟩; exact ⟨⟨h1, fun h => h2 (Or.inl h)⟩, fun h => h2 (Or.inr h)⟩
        · rintro ⟨⟨h1, h2⟩, h3⟩; exact ⟨h1, fun h => h.elim h2 h3⟩

/-! ### `remove` -/

/-- in a full forest every live leaf is cached -/
theorem FInv.hasCached_iff (nz : NZ H) {m : MapPollard H} {F : Forest H} (s : FInv m F) (x : H) :
    m.hasCached x = true ↔ x ∈ F.liveLeaves := by
  have hn64 := s.n_lt64
  rw [hasCached_eq]
  constructor
  · intro h
    obtain ⟨p, hp⟩ := Option.isSome_iff_exists.1 h
    obtain ⟨t, hm, _⟩ := (s.cached x p).1 hp
    rw [← leaves_ofForest F hn64]
    exact leaf_entry_mem (by rw [nodes_ofForest]; exact hm)
  · intro h
    rw [← leaves_ofForest F hn64] at h
    obtain ⟨t, ht⟩ := exists_leaf_entry h
    rw [nodes_ofForest] at ht
    rw [(s.cached x _).2 ⟨t, ht, rfl⟩]; rfl

/-- the leaves of a canonical proof are live -/
theorem canon_live {F : Forest H} {L : List H} {ts : List Pos} {ps : List H} (hc : F.canon L = some (ts, ps))
    {x : H} (hx : x ∈ L) : ∃ t, F.posOf x = some t := by
  obtain ⟨_, hpos, _, _⟩ := SpecPlan.canon_spec hc
  exact hpos x hx

/-- **`remove` on a full forest preserves `FInv`**: ANY duplicate-free list `L` of live leaves
(given with the targets of their canonical proof, in any `TotalRows ≥ TreeRows` allocation) is
deleted from the specification forest -/
theorem finv_remove (nz : NZ H) {m : MapPollard H} {F : Forest H} (s : FInv m F) (L : List H) (ts : List Pos)
    (ps : List H) (hnd : L.Nodup) (hc : F.canon L = some (ts, ps)) :
    ∃ m', MapPollard.remove (ts.map (encP F.rows)) L m = (m', .ok ()) ∧ FInv m' (F.delLeaves L) := by
  obtain ⟨A, C, rep, fa⟩ := s.abs
  have hn64 : F.numLeaves < 2 ^ 64 := s.n_lt64
  have Lw := laws_forest nz F hn64 s.hyg
  have hcached : ∀ x ∈ L, m.hasCached x = true := by
    intro x hx
    obtain ⟨t, ht⟩ := canon_live hc hx
    rw [rep.hasCached, fa.csto t x (posOf_mem ht) (fun h => h)]; rfl
  -- the cache loses the deleted leaves
  obtain ⟨rep1, hnl1, hfl1⟩ := uncache_rep L rep
  have hT1 : (m.uncacheLeaves L).totalRows = m.totalRows := rep1.rows.trans rep.rows.symm
  have r1 : FRInv (m.uncacheLeaves L) F (fun x => x ∈ L) := by
    refine { n_lt := s.n_lt, n_eq := hnl1.trans s.n_eq, rows_le := by rw [hT1]; exact s.rows_le,
             total_le := by rw [hT1]; exact s.total_le, full := hfl1.trans s.full, hyg := s.hyg, abs := ?_ }
    rw [hT1]
    refine ⟨A, _, rep1, ?_⟩
    refine { dom := fa.dom, sto := fa.sto, cdom := ?_, csto := ?_ }
    · intro x t hx
      split at hx
      · cases hx
      · rename_i hxl
        exact ⟨hxl, (fa.cdom x t hx).2⟩
    · intro t x hm hp
      rw [if_neg hp]; exact fa.csto t x hm (fun h => h)
  -- the detwinned targets
  obtain ⟨ds, hDT, hdt⟩ := deTwin_spec nz F s.n_lt s.hyg hnd hc s.total_le s.rows_le
  have hrowsm : m.totalRows = H8 m.totalRows.toNat := rep.rows
  have htr : TreeRows m.numLeaves = H8 F.rows := by
    rw [s.n_eq]; exact SpecView.treeRows_eq s.n_lt
  obtain ⟨m', hra, hT', r'⟩ := fremoveAll_spec nz ds r1 hDT.node
    (fun d hd t x ht ha => hDT.sub d hd t x ht ha) hDT.sep
  have hmem : ∀ x, x ∈ ds.flatMap (leavesUnder F) ↔ x ∈ L := by
    intro x
    simp only [List.mem_flatMap, mem_leavesUnder]
    constructor
    · rintro ⟨d, hd, t, ht, ha⟩; exact hDT.sub d hd t x ht ha
    · intro hx
      obtain ⟨d, hd, t, ht, ha⟩ := hDT.cover x hx
      exact ⟨d, hd, t, ht, ha⟩
  refine ⟨m', ?_, ?_⟩
  · unfold MapPollard.remove
    have hall : m.allCached L = true := allCached_iff.2 hcached
    simp only [hall, Bool.not_true, Bool.false_eq_true, if_false]
    congr 1
    rw [← hra, hT1]
    congr 1
    rw [hnl1, htr, ← hdt, ← hrowsm]
  · have r'' : FRInv m' (F.delLeaves L) (fun _ => False) := by
      apply r'.congr (delLeaves_congr' F (fun x => (hmem x).symm))
      intro x
      rw [hmem]
      constructor
      · intro h; cases h
      · rintro ⟨h1, h2⟩; exact h2 h1
    obtain ⟨A', C', rep', fa'⟩ := r''.abs
    exact FInv.of_abs rep' fa' r''.n_lt r''.n_eq r''.rows_le r''.full r''.hyg

end UtreexoVerif.Proofs.MapFullRemove

section Axioms
open UtreexoVerif.Proofs.MapFullRemove
#print axioms finv_remove
end Axioms
