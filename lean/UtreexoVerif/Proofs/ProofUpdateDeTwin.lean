/-
  What `deTwin` computes from the sorted deletion targets (property C07, helper).

  `deTwin` (utils.go) scans a sorted slice of positions; whenever an element is followed by its
  right sibling, both are replaced by their parent (`insertInOrder`).  Applied to the sorted
  encoded positions of a duplicate-free list `D` of live leaves of a specification forest `F`
  it returns exactly the positions of the MAXIMAL FULLY-DELETED SUBTREES (`Movement.IsDT`),
  strictly ascending (`deTwin_spec`).

  * list level: one step of `deTwinLoop`, `insertInOrder` on encoded positions
    (`insertInOrder_map`), the sibling test on encoded positions (`twinTest_E`);
  * `sortU64_map_E`: sorting encoded valid positions = encoding the `PLt`-sorted positions;
  * forest level: nodes sharing a leaf are nested (`laminar`), the loop invariant `Inv`
    (fully deleted nodes, covering `D`, sorted, leaf-disjoint), its preservation by a merge
    (`Inv.merge`), and the characterisation at exit (`Inv.final`).
-/
import UtreexoVerif.Proofs.Movement
import UtreexoVerif.Model.ProofUpdate
import UtreexoVerif.Proofs.ProofOps
import UtreexoVerif.Proofs.SortedLists

namespace UtreexoVerif.Proofs.ProofUpdateDeTwin
open UtreexoVerif Spec Hasher Model
open UtreexoVerif.Proofs UtreexoVerif.Proofs.SpecNodes UtreexoVerif.Proofs.SpecSubs
open UtreexoVerif.Proofs.CalcComplete UtreexoVerif.Proofs.FinalPos
open UtreexoVerif.Proofs.CalcGeo UtreexoVerif.Proofs.Sorted UtreexoVerif.Proofs.Movement
open UtreexoVerif.Proofs.LeafDistinct

/-! ### one step of `deTwinLoop` -/

theorem deTwinLoop_zero (rows : U8) (i : Nat) (d : List U64) : deTwinLoop rows 0 i d = d := rfl

theorem deTwinLoop_merge {rows : U8} {fuel i : Nat} {d : List U64} {a b : U64}
    (h1 : d[i]? = some a) (h2 : d[i+1]? = some b) (h3 : (rightSib a == b) = true) :
    deTwinLoop rows (fuel + 1) i d =
      deTwinLoop rows fuel i (insertInOrder ((d.eraseIdx i).eraseIdx i) (Parent a rows)) := by
  simp only [deTwinLoop, h1, h2, h3, if_true]

theorem deTwinLoop_skip {rows : U8} {fuel i : Nat} {d : List U64} {a b : U64}
    (h1 : d[i]? = some a) (h2 : d[i+1]? = some b) (h3 : (rightSib a == b) = false) :
    deTwinLoop rows (fuel + 1) i d = deTwinLoop rows fuel (i + 1) d := by
  simp only [deTwinLoop, h1, h2, h3, Bool.false_eq_true, if_false]

theorem deTwinLoop_last {rows : U8} {fuel i : Nat} {d : List U64} {a : U64}
    (h1 : d[i]? = some a) (h2 : d[i+1]? = none) : deTwinLoop rows (fuel + 1) i d = d := by
  simp only [deTwinLoop, h1, h2]

theorem deTwinLoop_end {rows : U8} {fuel i : Nat} {d : List U64}
    (h1 : d[i]? = none) : deTwinLoop rows (fuel + 1) i d = d := by
  simp only [deTwinLoop, h1]

/-! ### list facts -/

section lists
variable {α : Type}

theorem getElem?_at (pre : List α) (x : α) (rest : List α) :
    (pre ++ x :: rest)[pre.length]? = some x := by
  simp

theorem getElem?_at_succ (pre : List α) (x y : α) (rest : List α) :
    (pre ++ x :: y :: rest)[pre.length + 1]? = some y := by
  rw [List.getElem?_append_right (by omega)]
  simp

theorem getElem?_at_succ_none (pre : List α) (x : α) :
    (pre ++ [x])[pre.length + 1]? = none := by
  simp

theorem getElem?_at_none (pre : List α) : (pre ++ ([] : List α))[pre.length]? = none := by
  simp

theorem eraseIdx_twice (pre : List α) (x y : α) (rest : List α) :
    ((pre ++ x :: y :: rest).eraseIdx pre.length).eraseIdx pre.length = pre ++ rest := by
  rw [List.eraseIdx_append_of_length_le (Nat.le_refl _), Nat.sub_self, List.eraseIdx_cons_zero,
    List.eraseIdx_append_of_length_le (Nat.le_refl _), Nat.sub_self, List.eraseIdx_cons_zero]

end lists

/-! ### encoded positions -/

theorem row_lt_of_PLt {rows : Nat} {a b : Pos} (hb : Valid rows b) (h : PLt a b) : a.1 < rows := by
  obtain ⟨h1, h2⟩ := hb
  rcases h with h | ⟨e, h⟩
  · omega
  · rcases Nat.lt_or_ge a.1 rows with hlt | hge
    · exact hlt
    · exfalso
      have : rows - b.1 = 0 := by omega
      rw [this] at h2
      omega

/-- the sibling test of `deTwin` on two consecutive elements of a strictly sorted list of encoded
positions: it succeeds exactly when the first is a left node and the second its sibling -/
theorem twinTest_E {rows : Nat} (hr : rows ≤ 63) {a b : Pos} (ha : Valid rows a) (hb : Valid rows b)
    (hlt : PLt a b) : (rightSib (E rows a) == E rows b) = true ↔ (a.2 % 2 = 0 ∧ b = sib a) := by
  have hrow := row_lt_of_PLt hb hlt
  have hne : (E rows a != E rows b) = true := by
    rw [bne_iff_ne]
    intro e
    exact PLt.ne hlt (E_inj hr ha hb e)
  rw [← sibTest_E hr ha hb hrow, hne, Bool.true_and]

theorem E_gt_iff {rows : Nat} (hr : rows ≤ 63) {p q : Pos} (hp : Valid rows p) (hq : Valid rows q) :
    E rows q > E rows p ↔ Forest.posLt p q = true := by
  rw [posLt_iff]
  exact E_lt_iff hr hp hq

/-- `insertInOrder` on encoded positions is the specification's sorted insertion (the inserted
position is not in the list) -/
theorem insertInOrder_map {rows : Nat} (hr : rows ≤ 63) {P : Pos} (hP : Valid rows P) :
    ∀ (l : List Pos), (∀ q ∈ l, Valid rows q) → P ∉ l →
      insertInOrder (l.map (E rows)) (E rows P) = (Forest.insertSorted P l).map (E rows) := by
  intro l
  induction l with
  | nil => intro _ _; rfl
  | cons q qs ih =>
    intro hv hn
    have hq := hv q (by simp)
    simp only [List.map_cons, insertInOrder, Forest.insertSorted]
    by_cases h : Forest.posLt P q = true
    · rw [if_pos ((E_gt_iff hr hP hq).2 h), if_pos h]
      rfl
    · rw [if_neg (fun h' => h ((E_gt_iff hr hP hq).1 h')), if_neg h]
      have hne : ¬ (P == q) = true := by
        rw [beq_iff_eq]
        intro e
        exact hn (by simp [e])
      rw [if_neg hne, List.map_cons,
        ih (fun x hx => hv x (List.mem_cons_of_mem _ hx)) (fun hx => hn (List.mem_cons_of_mem _ hx))]

theorem insertSorted_append {P : Pos} : ∀ (l1 l2 : List Pos), (∀ x ∈ l1, PLt x P) →
    Forest.insertSorted P (l1 ++ l2) = l1 ++ Forest.insertSorted P l2 := by
  intro l1
  induction l1 with
  | nil => intro _ _; rfl
  | cons q qs ih =>
    intro l2 h
    have hq := h q (by simp)
    have h1 : ¬ Forest.posLt P q = true := by
      rw [posLt_iff]
      exact fun h' => PLt.asymm hq h'
    have h2 : ¬ (P == q) = true := by
      rw [beq_iff_eq]
      intro e
      subst e
      exact PLt.irrefl _ hq
    simp only [List.cons_append, Forest.insertSorted, if_neg h1, if_neg h2]
    rw [ih l2 (fun x hx => h x (List.mem_cons_of_mem _ hx))]

theorem length_insertSorted_le (P : Pos) : ∀ l : List Pos,
    (Forest.insertSorted P l).length ≤ l.length + 1 := by
  intro l
  induction l with
  | nil => simp [Forest.insertSorted]
  | cons q qs ih =>
    unfold Forest.insertSorted
    split
    · simp
    · split
      · simp
      · simp only [List.length_cons]; omega

/-- sorting the encodings of pairwise different valid positions gives the encodings of the
`PLt`-sorted positions -/
theorem sortU64_map_E {rows : Nat} (hr : rows ≤ 63) (ps : List Pos) (hv : ∀ p ∈ ps, Valid rows p)
    (hnd : ps.Nodup) :
    sortU64 (ps.map (E rows)) = (Forest.sortDedup ps).map (E rows) := by
  have hv' : ∀ p ∈ Forest.sortDedup ps, Valid rows p := fun p hp => hv p ((mem_sortDedup p ps).1 hp)
  apply eq_of_sorted_of_mem_iff (R := fun a b : U64 => a < b) (fun a => BitVec.lt_irrefl a)
    (fun _ _ _ => BitVec.lt_trans)
  · apply ProofOps.strict_sortU64
    unfold List.Nodup at hnd ⊢
    rw [List.pairwise_map]
    exact hnd.imp_of_mem (fun {a b} ha hb hne e => hne (E_inj hr (hv a ha) (hv b hb) e))
  · rw [List.pairwise_map]
    exact (sortDedup_sorted ps).imp_of_mem
      (fun {a b} ha hb h => (E_lt_iff hr (hv' a ha) (hv' b hb)).2 h)
  · intro x
    rw [ProofOps.mem_sortU64, List.mem_map, List.mem_map]
    constructor
    · rintro ⟨p, hp, rfl⟩; exact ⟨p, (mem_sortDedup p ps).2 hp, rfl⟩
    · rintro ⟨p, hp, rfl⟩; exact ⟨p, (mem_sortDedup p ps).1 hp, rfl⟩

/-! ### nodes of a forest that share a leaf are nested -/

section forest
set_option linter.unusedSectionVars false
variable {H : Type} [DecidableEq H] [Hasher H]

theorem SubAtT.depth_le {F : Forest H} {h : Nat} {p : Pos} {t : CTree H} (s : SubAtT F h p t) :
    depth t ≤ p.1 := by
  obtain ⟨t0, _, hd, hm⟩ := s.tree
  exact subs_depth t0 h _ hd _ hm

/-- the leaves of a tree of a forest with pairwise different live leaves are pairwise different -/
theorem tree_leaves_nodup {F : Forest H} (hnd : F.liveLeaves.Nodup) {h : Nat} {t0 : CTree H}
    (ht0 : collapse h ((F.slots.drop (treeStart F.numLeaves h)).take (2 ^ h)) = some t0) :
    t0.leaves.Nodup := by
  have hl := collapse_leaves_eq h (chunk F h)
  unfold chunk at hl
  rw [ht0, List.take_take, Nat.min_self] at hl
  simp only [leavesO] at hl
  rw [hl]
  exact hnd.sublist ((chunk_sublist F h).filterMap id)

/-- inside a tree with pairwise different leaves, two subtrees that share a leaf are nested -/
theorem subs_laminar : ∀ (t0 : CTree H) (r o : Nat), t0.leaves.Nodup →
    ∀ (U T : Pos) (tU tT : CTree H) (x : H), (U, tU) ∈ subs t0 r o → (T, tT) ∈ subs t0 r o →
      x ∈ tU.leaves → x ∈ tT.leaves →
      (T, tT) ∈ subs tU U.1 U.2 ∨ (U, tU) ∈ subs tT T.1 T.2 := by
  intro t0
  induction t0 with
  | leaf h =>
    intro r o _ U T tU tT x hU hT _ _
    simp only [subs, List.mem_singleton, Prod.mk.injEq] at hU hT
    rw [hU.1, hU.2, hT.1, hT.2]
    exact Or.inl (subs_head _ _ _)
  | node a b iha ihb =>
    intro r o hnd U T tU tT x hU hT hxU hxT
    simp only [CTree.leaves] at hnd
    rw [List.nodup_append] at hnd
    obtain ⟨hna, hnb, hdis⟩ := hnd
    have hU' := hU
    have hT' := hT
    simp only [subs, List.mem_cons, List.mem_append] at hU' hT'
    rcases hU' with eU | hUa | hUb
    · left
      have e1 : U = (r, o) := (Prod.mk.inj eU).1
      have e2 : tU = .node a b := (Prod.mk.inj eU).2
      rw [e1, e2]
      exact hT
    · rcases hT' with eT | hTa | hTb
      · right
        have e1 : T = (r, o) := (Prod.mk.inj eT).1
        have e2 : tT = .node a b := (Prod.mk.inj eT).2
        rw [e1, e2]
        exact hU
      · exact iha _ _ hna U T tU tT x hUa hTa hxU hxT
      · exact absurd rfl (hdis x (subs_leaves a _ _ _ hUa x hxU) x (subs_leaves b _ _ _ hTb x hxT))
    · rcases hT' with eT | hTa | hTb
      · right
        have e1 : T = (r, o) := (Prod.mk.inj eT).1
        have e2 : tT = .node a b := (Prod.mk.inj eT).2
        rw [e1, e2]
        exact hU
      · exact absurd rfl (hdis x (subs_leaves a _ _ _ hTa x hxT) x (subs_leaves b _ _ _ hUb x hxU))
      · exact ihb _ _ hnb U T tU tT x hUb hTb hxU hxT

/-- the leaf `x` below a node sits, as a leaf node, inside the node's subtree -/
theorem leaf_below {F : Forest H} {h : Nat} {p : Pos} {t : CTree H} (s : SubAtT F h p t) {x : H}
    (hx : x ∈ t.leaves) : ∃ q, (q, CTree.leaf x) ∈ subs t p.1 p.2 ∧ SubAtT F h q (.leaf x) := by
  obtain ⟨q, hq⟩ := leaf_in_subs t p.1 p.2 x hx
  exact ⟨q, hq, s.sub hq⟩

/-- two nodes with a common leaf lie in the same tree -/
theorem same_tree_of_common_leaf {F : Forest H} (hnd : F.liveLeaves.Nodup) {hU hT : Nat} {U T : Pos}
    {tU tT : CTree H} (sU : SubAtT F hU U tU) (sT : SubAtT F hT T tT) {x : H}
    (hxU : x ∈ tU.leaves) (hxT : x ∈ tT.leaves) : hU = hT := by
  obtain ⟨qU, _, sqU⟩ := leaf_below sU hxU
  obtain ⟨qT, _, sqT⟩ := leaf_below sT hxT
  have e := leafDistinct_of_nodup hnd _ _ _ _ _ sqU sqT
  subst e
  exact (sqU.unique sqT).1

/-- **two nodes of a forest (pairwise different live leaves) that share a leaf are nested** -/
theorem laminar {F : Forest H} (hnd : F.liveLeaves.Nodup) {hU hT : Nat} {U T : Pos}
    {tU tT : CTree H} (sU : SubAtT F hU U tU) (sT : SubAtT F hT T tT) {x : H}
    (hxU : x ∈ tU.leaves) (hxT : x ∈ tT.leaves) :
    (T, tT) ∈ subs tU U.1 U.2 ∨ (U, tU) ∈ subs tT T.1 T.2 := by
  have e := same_tree_of_common_leaf hnd sU sT hxU hxT
  subst e
  obtain ⟨t0, ht0, _, hmU⟩ := sU.tree
  obtain ⟨t0', ht0', _, hmT⟩ := sT.tree
  rw [ht0] at ht0'
  injection ht0' with e
  subst e
  exact subs_laminar t0 _ _ (tree_leaves_nodup hnd ht0) U T tU tT x hmU hmT hxU hxT

/-- a strict sub-node has its sibling inside the same subtree, on a lower row than the top -/
theorem strict_sub {F : Forest H} {hU : Nat} {U T : Pos} {tU tT : CTree H} (sU : SubAtT F hU U tU)
    (hm : (T, tT) ∈ subs tU U.1 U.2) (hne : U ≠ T) :
    T.1 < U.1 ∧ ∃ s' : CTree H, SubAtT F hU (sib T) s' ∧ (sib T, s') ∈ subs tU U.1 U.2 ∧
      (Spec.parent T, if T.2 % 2 = 0 then CTree.node tT s' else CTree.node s' tT) ∈ subs tU U.1 U.2 := by
  rcases subs_parent tU U.1 U.2 (SubAtT.depth_le sU) _ hm with e | ⟨hlt, s', h1, h2⟩
  · exact absurd (Prod.mk.inj e).1.symm hne
  · exact ⟨hlt, s', sU.sub h2, h2, h1⟩

/-- two sibling nodes have a parent node, whose leaves are theirs -/
theorem merge_node {F : Forest H} {hL hR : Nat} {L : Pos} {tL tR : CTree H}
    (sL : SubAtT F hL L tL) (sR : SubAtT F hR (sib L) tR) :
    L.1 < hL ∧ ∃ tP, SubAtT F hL (Spec.parent L) tP ∧
      ∀ x, x ∈ tP.leaves ↔ (x ∈ tL.leaves ∨ x ∈ tR.leaves) := by
  have hr : isRootPos F.numLeaves L = false := by
    cases h : isRootPos F.numLeaves L with
    | false => rfl
    | true => exact (sib_root_not_inF h sR.inF (sib_sib L)).elim
  obtain ⟨hlt, s', hpar, hsib⟩ := sL.parent hr
  have e : s' = tR := (hsib.unique sR).2
  subst e
  refine ⟨hlt, _, hpar, ?_⟩
  intro x
  split
  · simp [CTree.leaves]
  · simp only [CTree.leaves, List.mem_append]
    exact Or.comm

/-! ### the loop invariant -/

/-- `T` is a node of `F` all of whose leaves are in `D` -/
def FDn (F : Forest H) (D : List H) (T : Pos) : Prop :=
  ∃ h t, SubAtT F h T t ∧ delT D t = none

/-- the invariant of `deTwin`'s loop: the list consists of fully deleted nodes, covers `D`, is
strictly sorted, and no leaf lies below two of its elements -/
structure Inv (F : Forest H) (D : List H) (d : List Pos) : Prop where
  fd : ∀ T ∈ d, FDn F D T
  cov : ∀ x ∈ D, ∃ T ∈ d, ∃ h t, SubAtT F h T t ∧ x ∈ t.leaves
  sorted : d.Pairwise PLt
  disj : ∀ U ∈ d, ∀ T ∈ d, ∀ (hU hT : Nat) (tU tT : CTree H) (x : H),
    SubAtT F hU U tU → SubAtT F hT T tT → x ∈ tU.leaves → x ∈ tT.leaves → U = T

theorem Inv.valid {F : Forest H} {D : List H} {d : List Pos} (inv : Inv F D d) {T : Pos}
    (hT : T ∈ d) : Valid F.rows T := by
  obtain ⟨h, t, s, _⟩ := inv.fd T hT
  exact s.inF.valid

/-- **a merge step preserves the invariant**: two siblings of the list are replaced by their
parent -/
theorem Inv.merge {F : Forest H} {D : List H} {d d' : List Pos} (inv : Inv F D d) {L : Pos}
    (hL : L ∈ d) (hR : sib L ∈ d) (hs : d'.Pairwise PLt)
    (hm : ∀ x, x ∈ d' ↔ x = Spec.parent L ∨ (x ∈ d ∧ x ≠ L ∧ x ≠ sib L)) : Inv F D d' := by
  obtain ⟨hL', tL, sL, dL⟩ := inv.fd L hL
  obtain ⟨hR', tR, sR, dR⟩ := inv.fd _ hR
  obtain ⟨_, tP, sP, hlv⟩ := merge_node sL sR
  have dP : delT D tP = none := by
    rw [delT_eq_none_iff'] at dL dR ⊢
    intro l hl
    rcases (hlv l).1 hl with h | h
    · exact dL l h
    · exact dR l h
  -- an element of `d` that shares a leaf with the parent is one of the two siblings
  have key : ∀ V ∈ d, ∀ (hV : Nat) (tV : CTree H) (x : H), SubAtT F hV V tV → x ∈ tV.leaves →
      x ∈ tP.leaves → V = L ∨ V = sib L := by
    intro V hV hV' tV x sV hxV hxP
    rcases (hlv x).1 hxP with h | h
    · exact Or.inl (inv.disj V hV L hL _ _ _ _ x sV sL hxV h)
    · exact Or.inr (inv.disj V hV _ hR _ _ _ _ x sV sR hxV h)
  refine ⟨?_, ?_, hs, ?_⟩
  · intro T hT
    rcases (hm T).1 hT with rfl | ⟨h, _, _⟩
    · exact ⟨_, _, sP, dP⟩
    · exact inv.fd T h
  · intro x hx
    obtain ⟨T, hT, h, t, s, hxt⟩ := inv.cov x hx
    by_cases e1 : T = L
    · subst e1
      have e := (s.unique sL).2
      subst e
      exact ⟨_, (hm _).2 (Or.inl rfl), _, _, sP, (hlv x).2 (Or.inl hxt)⟩
    · by_cases e2 : T = sib L
      · subst e2
        have e := (s.unique sR).2
        subst e
        exact ⟨_, (hm _).2 (Or.inl rfl), _, _, sP, (hlv x).2 (Or.inr hxt)⟩
      · exact ⟨T, (hm T).2 (Or.inr ⟨hT, e1, e2⟩), h, t, s, hxt⟩
  · intro U hU T hT hU' hT' tU tT x sU sT hxU hxT
    rcases (hm U).1 hU with eU | ⟨hUd, nU1, nU2⟩ <;> rcases (hm T).1 hT with eT | ⟨hTd, nT1, nT2⟩
    · rw [eU, eT]
    · exfalso
      subst eU
      have e := (sU.unique sP).2
      subst e
      rcases key T hTd _ _ x sT hxT hxU with h | h
      · exact nT1 h
      · exact nT2 h
    · exfalso
      subst eT
      have e := (sT.unique sP).2
      subst e
      rcases key U hUd _ _ x sU hxU hxT with h | h
      · exact nU1 h
      · exact nU2 h
    · exact inv.disj U hUd T hTd _ _ _ _ x sU sT hxU hxT

/-- a fully deleted node with no strict ancestor in the list belongs to the list, once no two
siblings are left -/
theorem Inv.inside {F : Forest H} {D : List H} {d : List Pos} (hnd : F.liveLeaves.Nodup)
    (inv : Inv F D d) (ns : ∀ x ∈ d, sib x ∉ d) :
    ∀ (t : CTree H) (h : Nat) (p : Pos), SubAtT F h p t → delT D t = none →
      (∀ U ∈ d, ∀ (hU : Nat) (tU : CTree H), SubAtT F hU U tU → (p, t) ∈ subs tU U.1 U.2 → U = p) →
      p ∈ d := by
  intro t
  induction t with
  | leaf l =>
    intro h p s hd hyp
    have hl : l ∈ D := (delT_eq_none_iff' D _).1 hd l (by simp [CTree.leaves])
    obtain ⟨U, hU, hU', tU, sU, hlU⟩ := inv.cov l hl
    rcases laminar hnd sU s hlU (by simp [CTree.leaves]) with h1 | h1
    · rw [← hyp U hU hU' tU sU h1]
      exact hU
    · simp only [subs, List.mem_singleton, Prod.mk.injEq] at h1
      have e : U = p := h1.1
      rw [← e]
      exact hU
  | node a b iha ihb =>
    intro h p s hd hyp
    by_cases hp : p ∈ d
    · exact hp
    · exfalso
      obtain ⟨h1, ca, cb⟩ := s.children
      have hall := (delT_eq_none_iff' D _).1 hd
      have hda : delT D a = none :=
        (delT_eq_none_iff' D a).2 (fun l hl => hall l (by simp [CTree.leaves, hl]))
      have hdb : delT D b = none :=
        (delT_eq_none_iff' D b).2 (fun l hl => hall l (by simp [CTree.leaves, hl]))
      have epa : Spec.parent (p.1 - 1, 2 * p.2) = p := by
        obtain ⟨p1, p2⟩ := p
        simp only [Spec.parent, Prod.mk.injEq]
        simp only at h1
        omega
      have epb : Spec.parent (p.1 - 1, 2 * p.2 + 1) = p := by
        obtain ⟨p1, p2⟩ := p
        simp only [Spec.parent, Prod.mk.injEq]
        simp only at h1
        omega
      have hina : (p.1 - 1, 2 * p.2) ∈ d := by
        apply iha h _ ca hda
        intro U hU hU' tU sU hm
        by_cases e : U = (p.1 - 1, 2 * p.2)
        · exact e
        · exfalso
          obtain ⟨_, s', _, _, hpar⟩ := strict_sub sU hm e
          rw [epa, if_pos (by simp only; omega)] at hpar
          have e2 := ((sU.sub hpar).unique s).2
          rw [e2] at hpar
          exact hp (hyp U hU hU' tU sU hpar ▸ hU)
      have hinb : (p.1 - 1, 2 * p.2 + 1) ∈ d := by
        apply ihb h _ cb hdb
        intro U hU hU' tU sU hm
        by_cases e : U = (p.1 - 1, 2 * p.2 + 1)
        · exact e
        · exfalso
          obtain ⟨_, s', _, _, hpar⟩ := strict_sub sU hm e
          rw [epb, if_neg (by simp only; omega)] at hpar
          have e2 := ((sU.sub hpar).unique s).2
          rw [e2] at hpar
          exact hp (hyp U hU hU' tU sU hpar ▸ hU)
      have esib : sib (p.1 - 1, 2 * p.2) = (p.1 - 1, 2 * p.2 + 1) := by
        simp only [sib, Prod.mk.injEq, true_and]
        rw [if_pos (by omega)]
      exact ns _ hina (esib ▸ hinb)

/-- **at exit** (no two siblings left) the list consists exactly of the positions of the maximal
fully-deleted subtrees -/
theorem Inv.final {F : Forest H} {D : List H} {d : List Pos} (hnd : F.liveLeaves.Nodup)
    (inv : Inv F D d) (ns : ∀ x ∈ d, sib x ∉ d) : ∀ T, T ∈ d ↔ IsDT F D T := by
  intro T
  constructor
  · intro hT
    obtain ⟨h, t, s, hd⟩ := inv.fd T hT
    refine ⟨h, t, s, hd, ?_⟩
    by_cases hr : T.1 = h
    · exact Or.inl hr
    · right
      have hnr : isRootPos F.numLeaves T = false := by
        cases hq : isRootPos F.numLeaves T with
        | false => rfl
        | true => exact absurd (s.root_iff.1 hq) hr
      obtain ⟨hlt, s', hpar, hsib⟩ := s.parent hnr
      have hal := aliveAfter_of (D := D) hsib
      show aliveAfter F D (sib T).1 (sib T).2 = true
      rw [hal]
      cases hds : delT D s' with
      | some _ => rfl
      | none =>
        exfalso
        apply ns T hT
        apply inv.inside hnd ns s' h (sib T) hsib hds
        intro U hU hU' tU sU hm
        by_cases e : U = sib T
        · exact e
        · exfalso
          obtain ⟨hlt', s'', ss'', hm'', _⟩ := strict_sub sU hm e
          rw [sib_sib] at ss'' hm''
          have e2 := (ss''.unique s).2
          subst e2
          obtain ⟨x, hx⟩ := List.exists_mem_of_ne_nil _ (CTree.leaves_ne_nil s'')
          have hxU := subs_leaves tU _ _ _ hm'' x hx
          have e3 := inv.disj U hU T hT _ _ _ _ x sU s hxU hx
          subst e3
          simp [sib] at hlt'
  · rintro ⟨h, t, s, hd, hmax⟩
    apply inv.inside hnd ns t h T s hd
    intro U hU hU' tU sU hm
    by_cases e : U = T
    · exact e
    · exfalso
      obtain ⟨hlt', s', ss', hm', _⟩ := strict_sub sU hm e
      have hh : hU' = h := ((sU.sub hm).unique s).1
      subst hh
      rcases hmax with hroot | hal
      · have := sU.row_le
        omega
      · obtain ⟨_, tU', sU2, dU⟩ := inv.fd U hU
        have e2 := (sU2.unique sU).2
        subst e2
        have hds : delT D s' = none := by
          rw [delT_eq_none_iff'] at dU ⊢
          intro l hl
          exact dU l (subs_leaves tU' _ _ _ hm' l hl)
        have h2 := aliveAfter_of (D := D) ss'
        rw [hds] at h2
        have h3 : aliveAfter F D T.1 (sibIdx T.2) = false := h2
        rw [h3] at hal
        cases hal

/-! ### the initial list: the positions of the deleted leaves -/

/-- the position list handed to `deTwin` (before encoding and sorting) -/
def leafPositions (F : Forest H) (D : List H) : List Pos :=
  D.map (fun l => (F.posOf l).getD (0, 0))

theorem pos_of_live {F : Forest H} (hn : F.numLeaves ≤ 2 ^ 63) {l : H} (hl : l ∈ F.liveLeaves) :
    ∃ h, SubAtT F h ((F.posOf l).getD (0, 0)) (.leaf l) := by
  obtain ⟨p, hp⟩ := Spec.posOf_isSome_of_live (by omega) hl
  rw [hp]
  exact posOf_sub hp

theorem leafPositions_nodup {F : Forest H} (hn : F.numLeaves ≤ 2 ^ 63) {D : List H} (hD : D.Nodup)
    (hlive : ∀ x ∈ D, x ∈ F.liveLeaves) : (leafPositions F D).Nodup := by
  unfold leafPositions List.Nodup at *
  rw [List.pairwise_map]
  refine hD.imp_of_mem (fun {a b} ha hb hne e => hne ?_)
  obtain ⟨h1, s1⟩ := pos_of_live hn (hlive a ha)
  obtain ⟨h2, s2⟩ := pos_of_live hn (hlive b hb)
  rw [e] at s1
  have := (s1.unique s2).2
  injection this

theorem leafPositions_valid {F : Forest H} (hn : F.numLeaves ≤ 2 ^ 63) {D : List H}
    (hlive : ∀ x ∈ D, x ∈ F.liveLeaves) : ∀ p ∈ leafPositions F D, Valid F.rows p := by
  intro p hp
  unfold leafPositions at hp
  obtain ⟨l, hl, rfl⟩ := List.mem_map.1 hp
  obtain ⟨h, s⟩ := pos_of_live hn (hlive l hl)
  exact s.inF.valid

/-- the sorted leaf positions satisfy the invariant -/
theorem Inv.init {F : Forest H} (hn : F.numLeaves ≤ 2 ^ 63) {D : List H}
    (hlive : ∀ x ∈ D, x ∈ F.liveLeaves) : Inv F D (Forest.sortDedup (leafPositions F D)) := by
  have hmem : ∀ T, T ∈ Forest.sortDedup (leafPositions F D) ↔
      ∃ l ∈ D, (F.posOf l).getD (0, 0) = T := by
    intro T
    rw [mem_sortDedup]
    unfold leafPositions
    rw [List.mem_map]
  refine ⟨?_, ?_, sortDedup_sorted _, ?_⟩
  · intro T hT
    obtain ⟨l, hl, rfl⟩ := (hmem T).1 hT
    obtain ⟨h, s⟩ := pos_of_live hn (hlive l hl)
    exact ⟨h, _, s, by simp [delT, hl]⟩
  · intro x hx
    obtain ⟨h, s⟩ := pos_of_live hn (hlive x hx)
    exact ⟨_, (hmem _).2 ⟨x, hx, rfl⟩, h, _, s, by simp [CTree.leaves]⟩
  · intro U hU T hT hU' hT' tU tT x sU sT hxU hxT
    obtain ⟨l, hl, rfl⟩ := (hmem U).1 hU
    obtain ⟨l', hl', rfl⟩ := (hmem T).1 hT
    obtain ⟨h, s⟩ := pos_of_live hn (hlive l hl)
    obtain ⟨h', s'⟩ := pos_of_live hn (hlive l' hl')
    have e1 := (sU.unique s).2
    have e2 := (sT.unique s').2
    subst e1
    subst e2
    simp only [CTree.leaves, List.mem_singleton] at hxU hxT
    rw [← hxU, ← hxT]

/-! ### the loop -/

section loop
variable {α β : Type}

theorem map_getElem?_at (f : α → β) (pre : List α) (x : α) (rest : List α) :
    ((pre ++ x :: rest).map f)[pre.length]? = some (f x) := by
  simp

theorem map_getElem?_at_succ (f : α → β) (pre : List α) (x y : α) (rest : List α) :
    ((pre ++ x :: y :: rest).map f)[pre.length + 1]? = some (f y) := by
  rw [List.getElem?_map, getElem?_at_succ]
  rfl

theorem map_getElem?_at_succ_none (f : α → β) (pre : List α) (x : α) :
    ((pre ++ [x]).map f)[pre.length + 1]? = none := by
  simp

theorem map_getElem?_at_none (f : α → β) (pre : List α) :
    ((pre ++ ([] : List α)).map f)[pre.length]? = none := by
  simp

theorem map_eraseIdx_twice (f : α → β) (pre : List α) (x y : α) (rest : List α) :
    (((pre ++ x :: y :: rest).map f).eraseIdx pre.length).eraseIdx pre.length =
      (pre ++ rest).map f := by
  have := eraseIdx_twice (pre.map f) (f x) (f y) (rest.map f)
  rw [List.length_map] at this
  simp only [List.map_append, List.map_cons]
  exact this

end loop

/-- **the loop of `deTwin`** started on a list satisfying the invariant, whose scanned prefix
has no siblings in the list, ends with a list that satisfies the invariant and contains no two
siblings -/
theorem loop_spec {F : Forest H} {D : List H} (hr : F.rows ≤ 63) :
    ∀ (fuel : Nat) (pre rest : List Pos), Inv F D (pre ++ rest) →
      (∀ x ∈ pre, sib x ∉ pre ++ rest) → rest.length ≤ fuel →
      ∃ dtp, deTwinLoop (H8 F.rows) fuel pre.length ((pre ++ rest).map (E F.rows)) =
          dtp.map (E F.rows) ∧ Inv F D dtp ∧ ∀ x ∈ dtp, sib x ∉ dtp := by
  intro fuel
  induction fuel with
  | zero =>
    intro pre rest inv ns hf
    exact ⟨pre ++ rest, rfl, inv, by
      have : rest = [] := List.eq_nil_of_length_eq_zero (by omega)
      subst this
      intro x hx
      exact ns x (by simpa using hx)⟩
  | succ f ih =>
    intro pre rest inv ns hf
    match rest, inv, ns, hf with
    | [], inv, ns, _ =>
      refine ⟨pre ++ [], deTwinLoop_end (map_getElem?_at_none _ _), inv, ?_⟩
      intro x hx
      exact ns x (by simpa using hx)
    | [a], inv, ns, _ =>
      refine ⟨pre ++ [a], deTwinLoop_last (map_getElem?_at _ _ _ _) (map_getElem?_at_succ_none _ _ _),
        inv, ?_⟩
      intro x hx hs
      rcases List.mem_append.1 hx with hx | hx
      · exact ns x hx hs
      · simp only [List.mem_singleton] at hx
        subst hx
        rcases List.mem_append.1 hs with hs | hs
        · have := ns _ hs
          rw [sib_sib] at this
          exact this (by simp)
        · simp only [List.mem_singleton] at hs
          exact sib_ne _ hs
    | a :: b :: rest', inv, ns, hf =>
      have ha : a ∈ pre ++ a :: b :: rest' := by simp
      have hb : b ∈ pre ++ a :: b :: rest' := by simp
      have va := inv.valid ha
      have vb := inv.valid hb
      have hso := inv.sorted
      rw [List.pairwise_append, List.pairwise_cons, List.pairwise_cons] at hso
      obtain ⟨sPre, ⟨hA, hB, sRest⟩, hPR⟩ := hso
      have hlt : PLt a b := hA b (by simp)
      cases htest : (rightSib (E F.rows a) == E F.rows b) with
      | true =>
        obtain ⟨hev, hbs⟩ := (twinTest_E hr va vb hlt).1 htest
        subst hbs
        have hrow := row_lt_of_PLt vb hlt
        have vP := parent_valid va hrow
        have hrowP : ∀ x, PLt x a → (sib x).1 < (Spec.parent a).1 := by
          intro x hx
          simp only [sib, Spec.parent]
          rcases hx with h | ⟨h, _⟩ <;> omega
        -- the parent is not in the list
        have hPnot : Spec.parent a ∉ pre ++ a :: sib a :: rest' := by
          intro hP
          obtain ⟨hL', tL, sL, _⟩ := inv.fd a ha
          obtain ⟨hR', tR, sR, _⟩ := inv.fd _ hb
          obtain ⟨_, tP, sP, hlv⟩ := merge_node sL sR
          obtain ⟨x, hx⟩ := List.exists_mem_of_ne_nil _ (CTree.leaves_ne_nil tL)
          have := inv.disj _ hP a ha _ _ _ _ x sP sL ((hlv x).2 (Or.inl hx)) hx
          have := congrArg Prod.fst this
          simp [Spec.parent] at this
        have hPnot' : Spec.parent a ∉ pre ++ rest' := by
          intro h
          apply hPnot
          rcases List.mem_append.1 h with h | h
          · exact List.mem_append_left _ h
          · exact List.mem_append_right _ (List.mem_cons_of_mem _ (List.mem_cons_of_mem _ h))
        have hsort' : (pre ++ rest').Pairwise PLt := by
          rw [List.pairwise_append]
          exact ⟨sPre, sRest, fun x hx y hy => hPR x hx y (by simp [hy])⟩
        have hmem : ∀ x, x ∈ Forest.insertSorted (Spec.parent a) (pre ++ rest') ↔
            x = Spec.parent a ∨ (x ∈ pre ++ a :: sib a :: rest' ∧ x ≠ a ∧ x ≠ sib a) := by
          intro x
          rw [mem_insertSorted]
          have hna : ∀ x ∈ pre ++ rest', x ≠ a ∧ x ≠ sib a := by
            intro x hx
            rcases List.mem_append.1 hx with hx | hx
            · exact ⟨PLt.ne (hPR x hx a (by simp)), PLt.ne (hPR x hx _ (by simp))⟩
            · exact ⟨(PLt.ne (hA x (by simp [hx]))).symm, (PLt.ne (hB x hx)).symm⟩
          constructor
          · rintro (h | h)
            · exact Or.inl h
            · refine Or.inr ⟨?_, hna x h⟩
              rcases List.mem_append.1 h with h | h
              · exact List.mem_append_left _ h
              · exact List.mem_append_right _ (List.mem_cons_of_mem _ (List.mem_cons_of_mem _ h))
          · rintro (h | ⟨h, n1, n2⟩)
            · exact Or.inl h
            · right
              rcases List.mem_append.1 h with h | h
              · exact List.mem_append_left _ h
              · simp only [List.mem_cons] at h
                rcases h with h | h | h
                · exact absurd h n1
                · exact absurd h n2
                · exact List.mem_append_right _ h
        have inv' : Inv F D (Forest.insertSorted (Spec.parent a) (pre ++ rest')) :=
          inv.merge ha hb (insertSorted_sorted _ _ hsort') hmem
        have hpreP : ∀ x ∈ pre, PLt x (Spec.parent a) :=
          fun x hx => PLt.trans _ _ _ (hPR x hx a (by simp)) (lt_parent a)
        have eins := insertSorted_append pre rest' hpreP
        rw [eins] at inv'
        have ns' : ∀ x ∈ pre, sib x ∉ pre ++ Forest.insertSorted (Spec.parent a) rest' := by
          intro x hx hs
          rw [← eins] at hs
          rcases (hmem _).1 hs with h | ⟨h, _, _⟩
          · have := hrowP x (hPR x hx a (by simp))
            rw [h] at this
            omega
          · exact ns x hx h
        have hlen : (Forest.insertSorted (Spec.parent a) rest').length ≤ f := by
          have := length_insertSorted_le (Spec.parent a) rest'
          simp only [List.length_cons] at hf
          omega
        obtain ⟨dtp, h1, h2, h3⟩ := ih pre _ inv' ns' hlen
        refine ⟨dtp, ?_, h2, h3⟩
        rw [deTwinLoop_merge (map_getElem?_at _ _ _ _) (map_getElem?_at_succ _ _ _ _ _) htest,
          map_eraseIdx_twice, parent_E hr va hrow,
          insertInOrder_map hr vP _ (fun q hq => inv.valid (by
            rcases List.mem_append.1 hq with h | h
            · exact List.mem_append_left _ h
            · exact List.mem_append_right _ (List.mem_cons_of_mem _ (List.mem_cons_of_mem _ h))))
            hPnot', eins]
        exact h1
      | false =>
        have e : pre ++ a :: b :: rest' = (pre ++ [a]) ++ b :: rest' := by simp
        have elen : pre.length + 1 = (pre ++ [a]).length := by simp
        have nsa : sib a ∉ pre ++ a :: b :: rest' := by
          intro hs
          rcases List.mem_append.1 hs with hs | hs
          · have := ns _ hs
            rw [sib_sib] at this
            exact this ha
          · simp only [List.mem_cons] at hs
            rcases hs with hs | hs | hs
            · exact sib_ne _ hs
            · have hev : a.2 % 2 = 0 := (sib_gt_iff a).1 (hs ▸ hlt)
              have := (twinTest_E hr va vb hlt).2 ⟨hev, hs.symm⟩
              rw [htest] at this
              cases this
            · have h1 : PLt b (sib a) := hB _ hs
              have hev : a.2 % 2 = 0 := (sib_gt_iff a).1 (PLt.trans _ _ _ hlt h1)
              exact no_between hev hlt h1
        have ns' : ∀ x ∈ pre ++ [a], sib x ∉ (pre ++ [a]) ++ b :: rest' := by
          intro x hx
          rw [← e]
          rcases List.mem_append.1 hx with hx | hx
          · exact ns x hx
          · simp only [List.mem_singleton] at hx
            subst hx
            exact nsa
        obtain ⟨dtp, h1, h2, h3⟩ := ih (pre ++ [a]) (b :: rest') (e ▸ inv) ns'
          (by simp only [List.length_cons] at hf ⊢; omega)
        refine ⟨dtp, ?_, h2, h3⟩
        rw [deTwinLoop_skip (map_getElem?_at _ _ _ _) (map_getElem?_at_succ _ _ _ _ _) htest, elen, e]
        exact h1

/-! ### the theorem -/

/-- **`deTwin` of the sorted encoded positions of the deleted leaves is the strictly ascending
list of the positions of the maximal fully-deleted subtrees** -/
theorem deTwin_spec {F : Forest H} (hn : F.numLeaves ≤ 2 ^ 63) (hnd : F.liveLeaves.Nodup)
    {D : List H} (hD : D.Nodup) (hlive : ∀ x ∈ D, x ∈ F.liveLeaves) :
    ∃ dtp : List Pos,
      Model.deTwin (Model.sortU64 ((D.map (fun l => (F.posOf l).getD (0, 0))).map (E F.rows)))
        (H8 F.rows) = dtp.map (E F.rows) ∧
      dtp.Pairwise PLt ∧ ∀ T, T ∈ dtp ↔ IsDT F D T := by
  have hr : F.rows ≤ 63 := rows_le_63 hn
  have hsort := sortU64_map_E hr (leafPositions F D) (leafPositions_valid hn hlive)
    (leafPositions_nodup hn hD hlive)
  have inv0 := Inv.init (F := F) hn hlive
  obtain ⟨dtp, h1, h2, h3⟩ := loop_spec (F := F) (D := D) hr
    (2 * (Forest.sortDedup (leafPositions F D)).length + 1) []
    (Forest.sortDedup (leafPositions F D)) inv0 (by simp) (by omega)
  refine ⟨dtp, ?_, h2.sorted, h2.final hnd h3⟩
  show Model.deTwin (Model.sortU64 ((leafPositions F D).map (E F.rows))) (H8 F.rows) = _
  rw [hsort]
  unfold Model.deTwin
  rw [List.length_map]
  exact h1

end forest

/-! ### a concrete instance

Five slots (trees on rows 2 and 0, `F.rows = 3`), all alive.  Deleting the leaves 3, 0, 1 (in
that order): the sorted encoded targets are `[0, 1, 3]`; `deTwin` merges the sibling leaves
`0`, `1` into their parent `8 = E 3 (1, 0)` and keeps `3`, whose sibling `2` survives. -/

namespace Example

inductive T where
  | z
  | leaf (n : Nat)
  | node (l r : T)
deriving DecidableEq

instance : Hasher T := ⟨T.node, T.z⟩

def F5 : Forest T := ⟨[some (.leaf 0), some (.leaf 1), some (.leaf 2), some (.leaf 3), some (.leaf 4)]⟩

def D5 : List T := [.leaf 3, .leaf 0, .leaf 1]

theorem targets5 :
    Model.sortU64 ((D5.map (fun l => (F5.posOf l).getD (0, 0))).map (E F5.rows)) =
      [0#64, 1#64, 3#64] := by decide +kernel

theorem deTwin5 :
    Model.deTwin (Model.sortU64 ((D5.map (fun l => (F5.posOf l).getD (0, 0))).map (E F5.rows)))
      (H8 F5.rows) = [3#64, 8#64] := by decide +kernel

theorem deTwin5_pos : [3#64, 8#64] = [((0, 3) : Pos), (1, 0)].map (E F5.rows) := by decide +kernel

/-- the hypotheses of `deTwin_spec` hold for this instance, so the list it describes is
`[(0,3), (1,0)]`: these are exactly the maximal fully-deleted subtrees -/
example : ∀ T, T ∈ [((0, 3) : Pos), (1, 0)] ↔ IsDT F5 D5 T := by
  obtain ⟨dtp, h1, h2, h3⟩ := deTwin_spec (F := F5) (by decide) (by decide) (D := D5) (by decide)
    (by decide)
  rw [deTwin5, deTwin5_pos] at h1
  have hv : ∀ p ∈ dtp, Valid F5.rows p := by
    intro p hp
    obtain ⟨h, t, s, _⟩ := (h3 p).1 hp
    exact s.inF.valid
  have hr : F5.rows ≤ 63 := by decide +kernel
  have e : [((0, 3) : Pos), (1, 0)] = dtp := by
    have hlen := congrArg List.length h1
    simp only [List.length_map, List.length_cons, List.length_nil] at hlen
    match dtp, hlen, h1, hv with
    | [p, q], _, h1, hv =>
      simp only [List.map_cons, List.map_nil, List.cons.injEq, and_true] at h1
      have e1 := E_inj hr (by unfold Valid; decide +kernel) (hv p (by simp)) h1.1
      have e2 := E_inj hr (by unfold Valid; decide +kernel) (hv q (by simp)) h1.2
      rw [e1, e2]
  rw [e]
  exact h3

end Example


/-- conformance check: the theorem has exactly the requested statement -/
example {H : Type} [DecidableEq H] [Hasher H] {F : Forest H} (hn : F.numLeaves ≤ 2 ^ 63)
    (hnd : F.liveLeaves.Nodup) {D : List H} (hD : D.Nodup) (hlive : ∀ x ∈ D, x ∈ F.liveLeaves) :
    ∃ dtp : List Pos,
      Model.deTwin (Model.sortU64 ((D.map (fun l => (F.posOf l).getD (0, 0))).map (E F.rows))) (H8 F.rows)
        = dtp.map (E F.rows) ∧
      dtp.Pairwise PLt ∧ ∀ T, T ∈ dtp ↔ IsDT F D T :=
  deTwin_spec hn hnd hD hlive

end UtreexoVerif.Proofs.ProofUpdateDeTwin
