/-
  Canonical proof positions under a deletion (property C07, level 3, specification part).

  `K`: a list of leaves of `F` that survive the deletion of `D`; `tg` their positions in `F`,
  `tg'` their positions in `F' = F.delLeaves D`.

  * `pathSet_iff_leaf`: a position lies on a path from a target to its root iff it is a node
    whose subtree contains a requested leaf;
  * `pathSet_del`: the paths of `F'` are the moved paths of `F`;
  * `proofPositions_del`: the canonical proof positions of `F'` are the moved canonical proof
    positions of `F` that keep a survivor;
  * `movePos_inj_pp`: on those the movement is injective;
  * `missing_on_del_path`: a proof position needed for the remaining leaves that was not needed
    before lies on the path of a deleted cached leaf.
-/
import UtreexoVerif.Proofs.Movement
import UtreexoVerif.Proofs.SortedLists

namespace UtreexoVerif.Proofs.MovePP
open UtreexoVerif Spec Hasher
open UtreexoVerif.Proofs UtreexoVerif.Proofs.SpecNodes UtreexoVerif.Proofs.SpecSubs
open UtreexoVerif.Proofs.SpecPlan UtreexoVerif.Proofs.CalcComplete UtreexoVerif.Proofs.FinalPos
open UtreexoVerif.Proofs.CalcGeo UtreexoVerif.Proofs.Movement UtreexoVerif.Proofs.CalcPlan
open UtreexoVerif.Proofs.Sorted UtreexoVerif.Proofs.LeafDistinct

section
set_option linter.unusedSectionVars false
variable {H : Type} [DecidableEq H] [Hasher H]

/-! ### paths and leaf content -/

/-- a node is a subtree of its parent node -/
theorem mem_subs_parent {t s' : CTree H} (p : Pos) :
    (p, t) ∈ subs (if p.2 % 2 = 0 then CTree.node t s' else CTree.node s' t)
      (parent p).1 (parent p).2 := by
  have e1 : (parent p).1 - 1 = p.1 := by simp [parent]
  split
  · rename_i h0
    have e2 : 2 * (parent p).2 = p.2 := by simp only [parent]; omega
    simp only [subs, List.mem_cons, List.mem_append]
    right; left
    rw [e1, e2]
    exact subs_head t _ _
  · rename_i h0
    have e2 : 2 * (parent p).2 + 1 = p.2 := by simp only [parent]; omega
    simp only [subs, List.mem_cons, List.mem_append]
    right; right
    rw [e1, e2]
    exact subs_head t _ _

/-- every element of the path from a node is a node that contains it -/
theorem pathUp_contains {F : Forest H} {h : Nat} : ∀ (fuel : Nat) (p : Pos) (t : CTree H),
    SubAtT F h p t → ∀ q ∈ Forest.pathUp F.numLeaves fuel p,
      ∃ tq, SubAtT F h q tq ∧ (p, t) ∈ subs tq q.1 q.2 := by
  intro fuel
  induction fuel with
  | zero =>
    intro p t s q hq
    simp only [Forest.pathUp, List.mem_singleton] at hq
    subst hq
    exact ⟨t, s, subs_head _ _ _⟩
  | succ f ih =>
    intro p t s q hq
    unfold Forest.pathUp at hq
    by_cases hr : isRootPos F.numLeaves p = true
    · rw [if_pos hr] at hq
      simp only [List.mem_singleton] at hq
      subst hq
      exact ⟨t, s, subs_head _ _ _⟩
    · rw [if_neg hr] at hq
      rcases List.mem_cons.1 hq with e | hq
      · subst e
        exact ⟨t, s, subs_head _ _ _⟩
      · have hr' : isRootPos F.numLeaves p = false := by simpa using hr
        obtain ⟨_, s', hpar, _⟩ := s.parent hr'
        obtain ⟨tq, sq, hm⟩ := ih _ _ hpar q hq
        exact ⟨tq, sq, subs_sub tq _ _ _ hm _ (mem_subs_parent p)⟩

section canon
variable {F : Forest H} {K : List H} {tg : List Pos} {hs : List H}
  (hc : F.canon K = some (tg, hs)) (hd : LeafDistinct F)
include hc hd

/-- **a position is on a path iff it is a node containing a requested leaf** -/
theorem pathSet_iff_leaf (a : Pos) :
    a ∈ pathSet F tg ↔ ∃ h ta, SubAtT F h a ta ∧ ∃ l ∈ K, l ∈ ta.leaves := by
  constructor
  · intro ha
    obtain ⟨t, ht, hat⟩ := mem_pathSet.1 ha
    obtain ⟨e, _, _, _⟩ := canon_spec hc
    rw [e] at ht
    obtain ⟨l, hl, rfl⟩ := List.mem_map.1 ht
    obtain ⟨h, st⟩ := canon_target_leaf hc hl
    obtain ⟨ta, sa, hm⟩ := pathUp_contains _ _ _ st a hat
    exact ⟨h, ta, sa, l, hl, subs_leaves ta _ _ _ hm l (by simp [CTree.leaves])⟩
  · rintro ⟨h, ta, sa, l, hl, hlt⟩
    exact leaf_on_path hc hd sa hlt hl

end canon

/-! ### comparable nodes -/

/-- two subtrees of a tree with pairwise different leaves that share a leaf are nested -/
theorem subs_comparable : ∀ (t : CTree H) (r o : Nat), t.leaves.Nodup →
    ∀ x ∈ subs t r o, ∀ y ∈ subs t r o, (∃ l, l ∈ x.2.leaves ∧ l ∈ y.2.leaves) →
      y ∈ subs x.2 x.1.1 x.1.2 ∨ x ∈ subs y.2 y.1.1 y.1.2 := by
  intro t
  induction t with
  | leaf h =>
    intro r o _ x hx y hy _
    simp only [subs, List.mem_singleton] at hx hy
    subst hx hy
    exact Or.inl (subs_head _ _ _)
  | node a b iha ihb =>
    intro r o hnd x hx y hy hsh
    simp only [CTree.leaves] at hnd
    have hnda := (List.nodup_append.1 hnd).1
    have hndb := (List.nodup_append.1 hnd).2.1
    have hdis := (List.nodup_append.1 hnd).2.2
    simp only [subs, List.mem_cons, List.mem_append] at hx hy
    rcases hx with rfl | hx | hx
    · left
      simp only [subs, List.mem_cons, List.mem_append]
      exact hy
    · rcases hy with rfl | hy | hy
      · right
        simp only [subs, List.mem_cons, List.mem_append]
        exact Or.inr (Or.inl hx)
      · exact iha _ _ hnda x hx y hy hsh
      · exfalso
        obtain ⟨l, h1, h2⟩ := hsh
        exact hdis l (subs_leaves a _ _ x hx l h1) l (subs_leaves b _ _ y hy l h2) rfl
    · rcases hy with rfl | hy | hy
      · right
        simp only [subs, List.mem_cons, List.mem_append]
        exact Or.inr (Or.inr hx)
      · exfalso
        obtain ⟨l, h1, h2⟩ := hsh
        exact hdis l (subs_leaves a _ _ y hy l h2) l (subs_leaves b _ _ x hx l h1) rfl
      · exact ihb _ _ hndb x hx y hy hsh

/-- the leaves of a tree of the forest are pairwise different when the live leaves are -/
theorem tree_leaves_nodup {F : Forest H} (hnd : F.liveLeaves.Nodup) {h : Nat} {t0 : CTree H}
    (ht0 : collapse h ((F.slots.drop (treeStart F.numLeaves h)).take (2 ^ h)) = some t0) :
    t0.leaves.Nodup := by
  have e := collapse_leaves_eq h ((F.slots.drop (treeStart F.numLeaves h)).take (2 ^ h))
  rw [ht0] at e
  simp only [leavesO] at e
  rw [e]
  apply List.Nodup.sublist _ hnd
  unfold Forest.liveLeaves
  apply List.Sublist.filterMap
  exact ((List.take_sublist _ _).trans (List.take_sublist _ _)).trans (List.drop_sublist _ _)

/-- two nodes of a forest with pairwise different leaves that share a leaf are nested -/
theorem nodes_comparable {F : Forest H} (hnd : F.liveLeaves.Nodup) {h h' : Nat} {a b : Pos}
    {ta tb : CTree H} (sa : SubAtT F h a ta) (sb : SubAtT F h' b tb)
    (hsh : ∃ l, l ∈ ta.leaves ∧ l ∈ tb.leaves) :
    h = h' ∧ ((b, tb) ∈ subs ta a.1 a.2 ∨ (a, ta) ∈ subs tb b.1 b.2) := by
  obtain ⟨l, hla, hlb⟩ := hsh
  -- the leaf sits at one position, which lies in both trees
  obtain ⟨pa, hpa⟩ := leaf_in_subs ta a.1 a.2 l hla
  obtain ⟨pb, hpb⟩ := leaf_in_subs tb b.1 b.2 l hlb
  have e := leafDistinct_of_nodup hnd _ _ _ _ _ (sa.sub hpa) (sb.sub hpb)
  subst e
  have hh : h = h' := ((sa.sub hpa).unique (sb.sub hpb)).1
  subst hh
  refine ⟨rfl, ?_⟩
  obtain ⟨t0, ht0, _, hma⟩ := sa.tree
  obtain ⟨t0', ht0', _, hmb⟩ := sb.tree
  rw [ht0] at ht0'
  injection ht0' with e
  subst e
  exact subs_comparable t0 _ _ (tree_leaves_nodup hnd ht0) (a, ta) hma (b, tb) hmb ⟨l, hla, hlb⟩

/-! ### the paths and proof positions after the deletion -/

theorem pos_eq_of_parent_parity {a b : Pos} (hp : parent a = parent b) (hm : a.2 % 2 = b.2 % 2) :
    a = b := by
  have h1 : a.1 + 1 = b.1 + 1 := congrArg Prod.fst hp
  have h2 : a.2 / 2 = b.2 / 2 := congrArg Prod.snd hp
  exact Prod.ext (by omega) (by omega)

theorem sib_of_parent_parity {a b : Pos} (hp : parent a = parent b) (hm : a.2 % 2 ≠ b.2 % 2) :
    b = sib a := by
  have h1 : a.1 + 1 = b.1 + 1 := congrArg Prod.fst hp
  have h2 : a.2 / 2 = b.2 / 2 := congrArg Prod.snd hp
  apply Prod.ext
  · simp only [sib_fst]; omega
  · simp only [sib_snd]; split <;> omega

theorem sibIdx_parity (b : Nat) : sibIdx b % 2 ≠ b % 2 := by
  unfold sibIdx; split <;> omega

/-- two sibling nodes that both keep a survivor move to sibling positions, below the root row -/
theorem move_siblings {F : Forest H} {D : List H} {h : Nat} {c : Pos} {tc ts : CTree H}
    (sc : SubAtT F h c tc) (ss : SubAtT F h (sib c) ts) (hc : delT D tc ≠ none)
    (hs : delT D ts ≠ none) (hlt : c.1 < h) :
    movePos F D (sib c) = sib (movePos F D c) ∧ (movePos F D c).1 < h := by
  rw [movePos_eq_T sc, movePos_eq_T ss]
  have hals : aliveAfter F D c.1 (sibIdx c.2) = true := by
    have := aliveAfter_of (D := D) ss
    rw [sib_eq_sibIdx] at this
    simp only at this
    rw [this]
    cases hd : delT D ts with
    | none => exact absurd hd hs
    | some x => rfl
  have halc : aliveAfter F D (sib c).1 (sibIdx (sib c).2) = true := by
    rw [sib_eq_sibIdx]
    simp only [sibIdx_sibIdx]
    rw [aliveAfter_of sc]
    cases hd : delT D tc with
    | none => exact absurd hd hc
    | some x => rfl
  obtain ⟨h1, h2, h3⟩ := movePosT_alive (h := h) hlt hals
  obtain ⟨h4, h5, _⟩ := movePosT_alive (F := F) (D := D) (h := h) (p := sib c)
    (by simpa [sib_fst] using hlt) halc
  refine ⟨sib_of_parent_parity ?_ ?_, h3⟩
  · rw [h1, h4, parent_sib]
  · rw [h2, h5, sib_eq_sibIdx]
    exact (sibIdx_parity c.2).symm

section del
variable {F : Forest H} {D K : List H} {tg tg' : List Pos} {hs hs' : List H}
  (hnd : F.liveLeaves.Nodup)
  (hc : F.canon K = some (tg, hs)) (hc' : (F.delLeaves D).canon K = some (tg', hs'))
  (hKD : ∀ x ∈ K, x ∉ D)
include hnd hc hc' hKD

/-- **the paths after the deletion are the moved paths** -/
theorem pathSet_del (a' : Pos) :
    a' ∈ pathSet (F.delLeaves D) tg' ↔ ∃ a ∈ pathSet F tg, a' = movePos F D a := by
  have hd := leafDistinct_of_nodup hnd
  have hd' := leafDistinct_of_nodup (LiveLeaves.liveLeaves_delLeaves_nodup hnd D)
  rw [pathSet_iff_leaf hc' hd']
  constructor
  · rintro ⟨h, ta', sa', l, hl, hlt⟩
    obtain ⟨a, t, sa, hdel, ha, _⟩ := move_surj sa'
    refine ⟨a, (pathSet_iff_leaf hc hd a).2 ⟨h, t, sa, l, hl, ?_⟩, ha⟩
    exact ((delT_leaves_iff D t ta' hdel l).1 hlt).1
  · rintro ⟨a, ha, rfl⟩
    obtain ⟨h, t, sa, l, hl, hlt⟩ := (pathSet_iff_leaf hc hd a).1 ha
    cases hdel : delT D t with
    | none =>
      exact absurd ((delT_eq_none_iff' D t).1 hdel l hlt) (hKD l hl)
    | some t' =>
      exact ⟨h, t', move_sub sa hdel, l, hl, (delT_leaves_iff D t t' hdel l).2 ⟨hlt, hKD l hl⟩⟩

/-- a path node keeps a survivor -/
theorem path_alive {a : Pos} (ha : a ∈ pathSet F tg) :
    ∃ h t, SubAtT F h a t ∧ delT D t ≠ none := by
  have hd := leafDistinct_of_nodup hnd
  obtain ⟨h, t, sa, l, hl, hlt⟩ := (pathSet_iff_leaf hc hd a).1 ha
  refine ⟨h, t, sa, ?_⟩
  intro hdel
  exact absurd ((delT_eq_none_iff' D t).1 hdel l hlt) (hKD l hl)

/-- **the canonical proof positions after the deletion are the moved canonical proof positions
that keep a survivor** -/
theorem proofPositions_del (q' : Pos) :
    q' ∈ (F.delLeaves D).proofPositions tg' ↔
      ∃ q ∈ F.proofPositions tg, (∃ h t, SubAtT F h q t ∧ delT D t ≠ none) ∧
        q' = movePos F D q := by
  have hd := leafDistinct_of_nodup hnd
  have hd' := leafDistinct_of_nodup (LiveLeaves.liveLeaves_delLeaves_nodup hnd D)
  have hn' := delLeaves_numLeaves F D
  rw [proofPositions_eq, proofPositions_eq]
  simp only [List.mem_map, List.mem_filter, needsProof, Bool.and_eq_true, Bool.not_eq_true',
    decide_eq_false_iff_not]
  constructor
  · rintro ⟨c', ⟨hc'P, hc'r, hc's⟩, rfl⟩
    -- `c'` is a node of `F'` containing a requested leaf; take its canonical preimage
    obtain ⟨h, tc', sc', l, hl, hlt⟩ := (pathSet_iff_leaf hc' hd' c').1 hc'P
    obtain ⟨c, tc, sc, hdel, hcm, hcan⟩ := move_surj sc'
    have hcP : c ∈ pathSet F tg :=
      (pathSet_iff_leaf hc hd c).2 ⟨h, tc, sc, l, hl, ((delT_leaves_iff D tc tc' hdel l).1 hlt).1⟩
    have hcnr : c.1 < h := by
      rcases Nat.lt_or_ge c.1 h with hlt' | hge
      · exact hlt'
      · exfalso
        have e : c.1 = h := by have := sc.row_le; omega
        have hroot : isRootPos (F.delLeaves D).numLeaves c' = true := by
          rw [hcm, movePos_eq_T sc]
          have : c = rootPos F.numLeaves h := by
            have := (sc.root_iff).2 e
            have := root_eq_rootPos this
            rw [e] at this
            exact this
          rw [this, movePosT_root, hn']
          exact isRootPos_rootPos sc.bit
        rw [hroot] at hc'r
        cases hc'r
    have hcroot : isRootPos F.numLeaves c = false := by
      cases hr : isRootPos F.numLeaves c with
      | false => rfl
      | true => have := (sc.root_iff).1 hr; omega
    obtain ⟨_, ts, _, ss⟩ := sc.parent hcroot
    have hsal : delT D ts ≠ none := by
      rcases hcan with hroot | hal
      · exfalso
        rw [hroot] at hcnr
        simp [rootPos] at hcnr
      · have := aliveAfter_of (D := D) ss
        rw [sib_eq_sibIdx] at this
        simp only at this
        rw [this] at hal
        intro hn
        rw [hn] at hal
        cases hal
    obtain ⟨hmv, _⟩ := move_siblings sc ss (by rw [hdel]; simp) hsal hcnr
    refine ⟨sib c, ⟨c, ⟨hcP, hcroot, ?_⟩, rfl⟩, ⟨h, ts, ss, hsal⟩, ?_⟩
    · intro hsP
      apply hc's
      rw [hcm, ← hmv]
      exact (pathSet_del hnd hc hc' hKD _).2 ⟨sib c, hsP, rfl⟩
    · rw [hmv, hcm]
  · rintro ⟨q, ⟨c, ⟨hcP, hcr, hcs⟩, rfl⟩, ⟨h, ts, ss, hsal⟩, rfl⟩
    obtain ⟨h', tc, sc, hcal⟩ := path_alive hnd hc hc' hKD hcP
    obtain ⟨hlt, ts', _, ss'⟩ := sc.parent hcr
    obtain ⟨e1, e2⟩ := ss.unique ss'
    subst e1 e2
    obtain ⟨hmv, hrow⟩ := move_siblings sc ss hcal hsal hlt
    refine ⟨movePos F D c, ⟨(pathSet_del hnd hc hc' hKD _).2 ⟨c, hcP, rfl⟩, ?_, ?_⟩, hmv.symm⟩
    · cases hdel : delT D tc with
      | none => exact absurd hdel hcal
      | some tc' =>
        have sc' := move_sub sc hdel
        cases hr : isRootPos (F.delLeaves D).numLeaves (movePos F D c) with
        | false => rfl
        | true => have := (sc'.root_iff).1 hr; omega
    · rw [← hmv]
      intro hP'
      -- the moved sibling would contain a requested leaf, hence so would the sibling
      cases hdel : delT D ts with
      | none => exact absurd hdel hsal
      | some ts'' =>
        have ss'' := move_sub ss hdel
        obtain ⟨h2, t2, s2, l, hl, hlt2⟩ := (pathSet_iff_leaf hc' hd' _).1 hP'
        obtain ⟨_, e⟩ := s2.unique ss''
        subst e
        apply hcs
        exact (pathSet_iff_leaf hc hd _).2 ⟨h, ts, ss, l, hl,
          ((delT_leaves_iff D ts t2 hdel l).1 hlt2).1⟩

/-- **on the canonical proof positions that keep a survivor the movement is injective** -/
theorem movePos_inj_pp {q1 q2 : Pos} (h1 : q1 ∈ F.proofPositions tg) (h2 : q2 ∈ F.proofPositions tg)
    {ha ha' : Nat} {t1 t2 : CTree H} (s1 : SubAtT F ha q1 t1) (s2 : SubAtT F ha' q2 t2)
    (a1 : delT D t1 ≠ none) (a2 : delT D t2 ≠ none) (he : movePos F D q1 = movePos F D q2) :
    q1 = q2 := by
  have hd := leafDistinct_of_nodup hnd
  -- both subtrees are pruned to the same tree, so they share a surviving leaf
  cases hd1 : delT D t1 with
  | none => exact absurd hd1 a1
  | some t1' =>
    cases hd2 : delT D t2 with
    | none => exact absurd hd2 a2
    | some t2' =>
      have m1 := move_sub s1 hd1
      have m2 := move_sub s2 hd2
      rw [he] at m1
      obtain ⟨_, e⟩ := m1.unique m2
      subst e
      have hne : ∃ l, l ∈ t1'.leaves := by
        cases t1' with
        | leaf l => exact ⟨l, by simp [CTree.leaves]⟩
        | node a b =>
          cases a with
          | leaf l => exact ⟨l, by simp [CTree.leaves]⟩
          | node a1 a2 =>
            have : ∀ (t : CTree H), ∃ l, l ∈ t.leaves := by
              intro t
              induction t with
              | leaf l => exact ⟨l, by simp [CTree.leaves]⟩
              | node _ _ iha _ => obtain ⟨l, hl⟩ := iha; exact ⟨l, by simp [CTree.leaves, hl]⟩
            exact this _
      obtain ⟨l, hl⟩ := hne
      have hl1 := ((delT_leaves_iff D t1 t1' hd1 l).1 hl).1
      have hl2 := ((delT_leaves_iff D t2 t1' hd2 l).1 hl).1
      obtain ⟨ehh, hcmp⟩ := nodes_comparable hnd s1 s2 ⟨l, hl1, hl2⟩
      subst ehh
      -- a strict ancestor of a proof position contains the path node next to it
      have key : ∀ {qa qb : Pos} {ta tb : CTree H}, qa ∈ F.proofPositions tg →
          qb ∈ F.proofPositions tg → SubAtT F ha qa ta → SubAtT F ha qb tb →
          (qb, tb) ∈ subs ta qa.1 qa.2 → qa = qb := by
        intro qa qb ta tb hqa hqb sa sb hm
        apply Classical.byContradiction
        intro hneq
        rw [proofPositions_eq] at hqa hqb
        simp only [List.mem_map, List.mem_filter, needsProof, Bool.and_eq_true, Bool.not_eq_true',
          decide_eq_false_iff_not] at hqa hqb
        obtain ⟨ca, ⟨_, _, hsa⟩, rfl⟩ := hqa
        obtain ⟨cb, ⟨hcbP, hcbr, _⟩, rfl⟩ := hqb
        apply hsa
        -- `sib cb` lies strictly inside `ta`; so does `cb`
        obtain ⟨t0, ht0, hdep, hma⟩ := sa.tree
        have hdta := subs_depth t0 _ _ hdep _ hma
        simp only at hdta
        rcases subs_parent ta _ _ hdta _ hm with e | ⟨_, s', _, hsib⟩
        · exact absurd (congrArg Prod.fst e).symm hneq
        · simp only [sib_sib] at hsib
          have scb := sa.sub hsib
          obtain ⟨hb, tcb, scb', l', hl', hlt'⟩ := (pathSet_iff_leaf hc hd cb).1 hcbP
          obtain ⟨_, e⟩ := scb.unique scb'
          subst e
          exact (pathSet_iff_leaf hc hd _).2 ⟨ha, ta, sa, l', hl',
            subs_leaves ta _ _ _ hsib l' hlt'⟩
      rcases hcmp with hm | hm
      · exact key h1 h2 s1 s2 hm
      · exact (key h2 h1 s2 s1 hm).symm

end del

/-! ### newly needed proof positions -/

/-- a proof position needed for the remaining leaves `K` that was not a proof position for the
cached leaves `C ⊇ K` lies on the path of a cached leaf that is not in `K` -/
theorem missing_on_del_path {F : Forest H} (hnd : F.liveLeaves.Nodup) {C K : List H}
    {tgC tgK : List Pos} {hsC hsK : List H}
    (hcC : F.canon C = some (tgC, hsC)) (hcK : F.canon K = some (tgK, hsK))
    (hsub : ∀ x ∈ K, x ∈ C) {q : Pos} (hq : q ∈ F.proofPositions tgK)
    (hnq : q ∉ F.proofPositions tgC) :
    ∃ h t, SubAtT F h q t ∧ ∃ l ∈ C, l ∉ K ∧ l ∈ t.leaves := by
  have hd := leafDistinct_of_nodup hnd
  rw [proofPositions_eq] at hq hnq
  simp only [List.mem_map, List.mem_filter, needsProof, Bool.and_eq_true, Bool.not_eq_true',
    decide_eq_false_iff_not] at hq hnq
  obtain ⟨c, ⟨hcP, hcr, hcs⟩, rfl⟩ := hq
  -- `c` is on the old paths too
  obtain ⟨h, tc, sc, l, hl, hlt⟩ := (pathSet_iff_leaf hcK hd c).1 hcP
  have hcPC : c ∈ pathSet F tgC := (pathSet_iff_leaf hcC hd c).2 ⟨h, tc, sc, l, hsub l hl, hlt⟩
  -- so its sibling was on the old paths
  have hsPC : sib c ∈ pathSet F tgC := by
    apply Classical.byContradiction
    intro hn
    exact hnq ⟨c, ⟨hcPC, hcr, hn⟩, rfl⟩
  obtain ⟨h', ts, ss, l', hl', hlt'⟩ := (pathSet_iff_leaf hcC hd _).1 hsPC
  refine ⟨h', ts, ss, l', hl', ?_, hlt'⟩
  intro hK
  exact hcs ((pathSet_iff_leaf hcK hd _).2 ⟨h', ts, ss, l', hK, hlt'⟩)

end
end UtreexoVerif.Proofs.MovePP
