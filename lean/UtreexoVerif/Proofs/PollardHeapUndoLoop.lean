/-
  Pointer forest, heap model, `Undo`, third phase: the loop of `undoDels` and `undoDels` itself.

  The detached trees (`deTwinPolNode`) sit at the positions of the maximal fully-deleted
  sub-trees of the forest `F` before the block, ascending.  `remove` deleted them in ascending
  order, each one at its position in `F` (`DelSeq`, `DTE.step`); `undoDels` re-inserts them in
  DESCENDING order: when the `k`-th one is re-inserted the heap represents `F` without the leaves of
  the first `k` ones, and in that forest the `k`-th one sits at its position in `F`
  (`DTE_after` = `DTE.step` iterated).
-/
import UtreexoVerif.Proofs.PollardHeapUndoStep
import UtreexoVerif.Proofs.PollardHeapUndoDeTwin
import UtreexoVerif.Proofs.PollardHeapUndoRoots
set_option linter.unusedSectionVars false
set_option linter.unusedVariables false
set_option linter.unusedSimpArgs false

namespace UtreexoVerif.Proofs.PollardHeap
open UtreexoVerif UtreexoVerif.GoInt UtreexoVerif.Model UtreexoVerif.Model.PollardHeap UtreexoVerif.Spec Hasher
open UtreexoVerif.Model.PollardAbs UtreexoVerif.Proofs.SpecNodes UtreexoVerif.Proofs.SpecSubs
open UtreexoVerif.Proofs.PollardLookup UtreexoVerif.Proofs.SpecView UtreexoVerif.Proofs.CalcGeo
open UtreexoVerif.Proofs.Sorted UtreexoVerif.Proofs.Movement UtreexoVerif.Proofs.ProofUpdateDeTwin

variable {H : Type} [DecidableEq H] [Hasher H]

/-! ### a later target after ALL the earlier ones died -/

theorem DTE_after {D : List H} : ∀ (init : List (Pos × Nat × CTree H)) (G : Forest H)
    (e : Pos × Nat × CTree H), (∀ e' ∈ init, DTE G D e') → DTE G D e →
    init.Pairwise (fun x y => Sorted.PLt x.1 y.1) → (∀ e' ∈ init, Sorted.PLt e'.1 e.1) →
    init.Pairwise (fun x y => ∀ l ∈ x.2.2.leaves, l ∉ y.2.2.leaves) →
    (∀ e' ∈ init, ∀ l ∈ e'.2.2.leaves, l ∉ e.2.2.leaves) → G.liveLeaves.Nodup →
    DTE (G.delLeaves (init.flatMap (fun e => e.2.2.leaves))) D e := by
  intro init
  induction init with
  | nil =>
    intro G e _ he _ _ _ _ _
    simpa [delLeaves_nil] using he
  | cons e0 rest ih =>
    intro G e hall he hs hlt hd hde hnd
    rw [List.pairwise_cons] at hs hd
    have d0 := hall e0 (by simp)
    have hstep : ∀ e' ∈ rest, DTE (G.delLeaves e0.2.2.leaves) D e' := fun e' he' =>
      DTE.step hnd d0 (hall e' (by simp [he'])) (hs.1 e' he') (hd.1 e' he')
    have hstep_e : DTE (G.delLeaves e0.2.2.leaves) D e :=
      DTE.step hnd d0 he (hlt e0 (by simp)) (hde e0 (by simp))
    have := ih (G.delLeaves e0.2.2.leaves) e hstep hstep_e hs.2
      (fun e' he' => hlt e' (by simp [he'])) hd.2 (fun e' he' => hde e' (by simp [he']))
      (liveLeaves_delLeaves_nodup _ hnd)
    rw [delLeaves_delLeaves] at this
    simpa [List.flatMap_cons] using this

/-! ### leaves of pending items -/

theorem Pend.leaf_idx {hp : Heap H} : ∀ {its : List (PItem H)}, Pend hp its → (pendOwned its).Nodup →
    ((pendLeaves its).map (·.2)).Nodup ∧ ∀ i ∈ (pendLeaves its).map (·.2), i ∈ pendOwned its := by
  intro its
  induction its with
  | nil => intro _ _; simp [pendLeaves, pendOwned]
  | cons it rest ih =>
    intro hp' hnd
    rw [pendOwned_cons, List.nodup_append] at hnd
    obtain ⟨nd1, nd2, dd⟩ := hnd
    obtain ⟨b1, b2⟩ := ih (fun x hx => hp' x (by simp [hx])) nd2
    obtain ⟨a1, a2⟩ := (hp' it (by simp)).2.leaf_idx nd1
    rw [pendLeaves_cons, pendOwned_cons]
    refine ⟨?_, ?_⟩
    · rw [List.map_append, List.nodup_append]
      exact ⟨a1, b1, fun i hi j hj e => dd i (a2 i hi) j (b2 j hj) e⟩
    · intro i hi
      rw [List.map_append, List.mem_append] at hi
      rw [List.mem_append]
      rcases hi with hi | hi
      · exact Or.inl (a2 i hi)
      · exact Or.inr (b2 i hi)

/-! ### the loop -/

/-- **the second loop of `undoDels`** (from the highest position down) -/
theorem undoDelsLoop_absP {F : Forest H} {D : List H} (hn : F.numLeaves < 2 ^ 63)
    (hFnd : F.liveLeaves.Nodup) :
    ∀ (n : Nat) (its : List (PItem H)), its.length = n → ∀ (p : Pollard H),
      (∀ it ∈ its, ∃ R, DTE F D (it.pos, R, it.t)) → (its.map (·.pos)).Pairwise Sorted.PLt →
      its.Pairwise (fun x y => ∀ l ∈ x.t.leaves, l ∉ y.t.leaves) →
      (∀ e ∈ p.nodeMap, ∀ u v : H, e.1 ≠ ph u v) →
      AbsP p (F.delLeaves (its.flatMap (fun it => it.t.leaves))) its →
      ∃ hp' nm' rs', undoDelsLoop (its.map (PItem.np F.rows)).reverse p =
          (.ok (), ⟨hp', nm', rs', p.numLeaves, p.numDels, p.full⟩) ∧
        AbsP ⟨hp', nm', rs', p.numLeaves, p.numDels, p.full⟩ F [] ∧
        nm'.map (·.1) = p.nodeMap.map (·.1) := by
  intro n
  induction n with
  | zero =>
    intro its hlen p _ _ _ _ hA
    have : its = [] := List.length_eq_zero_iff.mp hlen
    subst this
    refine ⟨p.heap, p.nodeMap, p.roots, ?_, ?_, rfl⟩
    · simp [undoDelsLoop]
    · simpa [delLeaves_nil] using hA
  | succ n ih =>
    intro its hlen p hdte hsort hdisj hsep hA
    obtain ⟨init, last, rfl⟩ : ∃ init last, its = init ++ [last] := by
      rcases List.eq_nil_or_concat its with h | ⟨l', b, h⟩
      · subst h; simp at hlen
      · exact ⟨l', b, by rw [h, List.concat_eq_append]⟩
    have hinit : init.length = n := by simp at hlen; omega
    -- the forest in which `last` is re-inserted
    obtain ⟨G, hG⟩ : ∃ G, G = F.delLeaves (init.flatMap (fun it => it.t.leaves)) := ⟨_, rfl⟩
    have hGn : G.numLeaves = F.numLeaves := by rw [hG, numLeaves_delLeaves]
    have hGrows : G.rows = F.rows := by rw [hG, rows_delLeaves]
    have hGnd : G.liveLeaves.Nodup := by rw [hG]; exact liveLeaves_delLeaves_nodup _ hFnd
    rw [List.map_append, List.pairwise_append] at hsort
    rw [List.pairwise_append] at hdisj
    obtain ⟨Rl, dl⟩ := hdte last (by simp)
    -- one `DTE` per element of `init`, as a list of triples
    have hex : ∀ (l : List (PItem H)), (∀ it ∈ l, ∃ R, DTE F D (it.pos, R, it.t)) →
        ∃ es : List (Pos × Nat × CTree H), es.map (fun e => (e.1, e.2.2)) = l.map (fun it => (it.pos, it.t)) ∧
          ∀ e ∈ es, DTE F D e := by
      intro l
      induction l with
      | nil => intro _; exact ⟨[], rfl, by simp⟩
      | cons it l ihl =>
        intro h
        obtain ⟨es, e1, e2⟩ := ihl (fun x hx => h x (by simp [hx]))
        obtain ⟨R, d⟩ := h it (by simp)
        refine ⟨(it.pos, R, it.t) :: es, by simp [e1], ?_⟩
        intro e he
        simp only [List.mem_cons] at he
        rcases he with rfl | he
        · exact d
        · exact e2 e he
    obtain ⟨es, ees, hes⟩ := hex init (fun it hit => hdte it (by simp [hit]))
    have epos : es.map (·.1) = init.map (·.pos) := by
      have := congrArg (List.map Prod.fst) ees
      rw [List.map_map, List.map_map] at this
      exact this
    have etr : es.map (·.2.2) = init.map (·.t) := by
      have := congrArg (List.map Prod.snd) ees
      rw [List.map_map, List.map_map] at this
      exact this
    have eleaves : es.flatMap (fun e => e.2.2.leaves) = init.flatMap (fun it => it.t.leaves) := by
      have h1 : es.flatMap (fun e => e.2.2.leaves) = (es.map (·.2.2)).flatMap CTree.leaves := by
        rw [List.flatMap_map]
      have h2 : init.flatMap (fun it => it.t.leaves) = (init.map (·.t)).flatMap CTree.leaves := by
        rw [List.flatMap_map]
      rw [h1, h2, etr]
    -- pairwise facts transported along `ees`
    have hpw1 : es.Pairwise (fun x y => Sorted.PLt x.1 y.1) := by
      have := hsort.1
      rw [← epos, List.pairwise_map] at this
      exact this
    have hmem_es : ∀ e ∈ es, ∃ it ∈ init, it.pos = e.1 ∧ it.t = e.2.2 := by
      intro e he
      have : (e.1, e.2.2) ∈ init.map (fun it => (it.pos, it.t)) := by
        rw [← ees]; exact List.mem_map.2 ⟨e, he, rfl⟩
      obtain ⟨it, hit, h⟩ := List.mem_map.1 this
      exact ⟨it, hit, (Prod.mk.inj h).1, (Prod.mk.inj h).2⟩
    have hlt_last : ∀ e ∈ es, Sorted.PLt e.1 (last.pos, Rl, last.t).1 := by
      intro e he
      obtain ⟨it, hit, h1, _⟩ := hmem_es e he
      rw [← h1]
      exact hsort.2.2 it.pos (List.mem_map_of_mem hit) last.pos (by simp)
    have hdj_last : ∀ e ∈ es, ∀ l ∈ e.2.2.leaves, l ∉ (last.pos, Rl, last.t).2.2.leaves := by
      intro e he l hl
      obtain ⟨it, hit, _, h2⟩ := hmem_es e he
      rw [← h2] at hl
      exact hdisj.2.2 it hit last (by simp) l hl
    have hpw2 : es.Pairwise (fun x y => ∀ l ∈ x.2.2.leaves, l ∉ y.2.2.leaves) := by
      have h1 : (init.map (·.t)).Pairwise (fun x y => ∀ l ∈ x.leaves, l ∉ y.leaves) := by
        rw [List.pairwise_map]; exact hdisj.1
      rw [← etr, List.pairwise_map] at h1
      exact h1
    have dlast : DTE G D (last.pos, Rl, last.t) := by
      have := DTE_after es F (last.pos, Rl, last.t) hes dl hpw1 hlt_last hpw2 hdj_last hFnd
      rw [eleaves, ← hG] at this
      exact this
    -- re-insert `last`
    have hA' : AbsP p (G.delLeaves last.t.leaves) (init ++ [last]) := by
      rw [hG, delLeaves_delLeaves]
      simpa [List.flatMap_append] using hA
    obtain ⟨hp1, nm1, rs1, ex1, a1, k1⟩ := undoDelsLoop_cons_absP hA' (by omega) hGnd dlast.sub hsep
      ((init.map (PItem.np F.rows)).reverse)
    rw [hGrows] at ex1
    -- the rest
    obtain ⟨hp2, nm2, rs2, ex2, a2, k2⟩ := ih init hinit ⟨hp1, nm1, rs1, p.numLeaves, p.numDels, p.full⟩
      (fun it hit => hdte it (by simp [hit])) hsort.1 hdisj.1
      (by
        intro e he u v
        have : e.1 ∈ nm1.map (·.1) := List.mem_map_of_mem he
        rw [k1] at this
        obtain ⟨e', he', hk⟩ := List.mem_map.1 this
        rw [← hk]; exact hsep e' he' u v)
      (by rw [← hG]; exact a1)
    refine ⟨hp2, nm2, rs2, ?_, a2, by rw [k2, k1]⟩
    rw [List.map_append, List.reverse_append]
    simp only [List.map_cons, List.map_nil, List.reverse_cons, List.reverse_nil, List.nil_append,
      List.singleton_append]
    rw [ex1]
    exact ex2

/-! ### `undoDels` -/

/-- **`undoDels`**: on a heap representing `F.delLeaves D` (`D` distinct live leaves of `F`, the
targets their positions in `F`, IN THE ORDER OF `D`), `undoDels` — allocation of the deleted
leaves, `deTwinPolNode`, re-insertion from the highest position down — succeeds and the heap
represents `F`; `NumDels` decreases by the number of deleted leaves. -/
theorem undoDels_abs {p : Pollard H} {F : Forest H} {D : List H} (hA : Abs p (F.delLeaves D))
    (hok : LeavesOK F) (hn : F.numLeaves < 2 ^ 63) (hnd : F.liveLeaves.Nodup) (hD : D.Nodup)
    (hlive : ∀ d ∈ D, d ∈ F.liveLeaves) :
    ∃ hp' nm' rs', undoDels ((D.map (fun l => (F.posOf l).getD (0, 0))).map (E F.rows)) D p =
        (.ok (), ⟨hp', nm', rs', p.numLeaves, p.numDels - BitVec.ofNat 64 D.length, p.full⟩) ∧
      Abs ⟨hp', nm', rs', p.numLeaves, p.numDels - BitVec.ofNat 64 D.length, p.full⟩ F := by
  obtain ⟨hp, nm, rs, nl, ndl, full⟩ := p
  obtain ⟨hnl, owned, lv, hroots, hndo, hmk, hmm⟩ := hA
  simp only at hnl hroots hmk hmm ⊢
  have hnlF : nl.toNat = F.numLeaves := by rw [hnl, numLeaves_delLeaves]
  have hGn : (F.delLeaves D).numLeaves < 2 ^ 64 := by rw [numLeaves_delLeaves]; omega
  have hlvG : lv.map (·.1) = (F.delLeaves D).liveLeaves := hroots.liveLeaves hGn
  have hkeysF : ∀ k ∈ nm.map (·.1), k ∈ F.liveLeaves ∧ k ∉ D := by
    intro k hk
    obtain ⟨e, he, rfl⟩ := List.mem_map.1 hk
    have : e.1 ∈ (F.delLeaves D).liveLeaves := by
      rw [← hlvG]; exact List.mem_map_of_mem ((hmm e).1 he)
    exact LiveLeaves.mem_liveLeaves_delLeaves.1 this
  have hfresh : ∀ d ∈ D, d ∉ nm.map (·.1) := fun d hd hk => (hkeysF d hk).2 hd
  obtain ⟨hp1, hp', nm', pn0, its, e1, e2, hpend, hpnd, hpge, hfr, hsz, hmk', hmem, hkeys, hsorted,
    hdt, hsub, inv⟩ := undoDels_prefix_spec hn hnd hD hlive hp nm rs nl ndl full hmk hfresh
  -- the items are the maximal fully-deleted sub-trees
  have hdte : ∀ it ∈ its, ∃ R, DTE F D (it.pos, R, it.t) := by
    intro it hit
    obtain ⟨h, t, s, hd, htop⟩ := (hdt it.pos).1 (List.mem_map_of_mem hit)
    obtain ⟨R, s'⟩ := hsub it hit
    obtain ⟨_, et⟩ := s.unique s'
    subst et
    exact ⟨h, s, (delT_eq_none_iff' D _).1 hd, htop⟩
  have hL : ∀ x, x ∈ its.flatMap (fun it => it.t.leaves) ↔ x ∈ D := by
    intro x
    rw [List.mem_flatMap]
    constructor
    · rintro ⟨it, hit, hx⟩
      obtain ⟨R, d⟩ := hdte it hit
      exact d.dead x hx
    · intro hx
      obtain ⟨T, hT, h, t, s, hxt⟩ := inv.cov x hx
      obtain ⟨it, hit, rfl⟩ := List.mem_map.1 hT
      obtain ⟨R, s'⟩ := hsub it hit
      have := (s.unique s').2
      exact ⟨it, hit, by rw [← this]; exact hxt⟩
  have hdisj : its.Pairwise (fun x y => ∀ l ∈ x.t.leaves, l ∉ y.t.leaves) := by
    have hs' : its.Pairwise (fun x y => Sorted.PLt x.pos y.pos) := by
      have := hsorted; rw [List.pairwise_map] at this; exact this
    refine hs'.imp_of_mem ?_
    intro x y hx hy hlt l hl1 hl2
    obtain ⟨Rx, sx⟩ := hsub x hx
    obtain ⟨Ry, sy⟩ := hsub y hy
    have := inv.disj x.pos (List.mem_map_of_mem hx) y.pos (List.mem_map_of_mem hy) _ _ _ _ l sx sy hl1 hl2
    rw [this] at hlt
    exact PLt.irrefl _ hlt
  have hsep : ∀ e ∈ nm', ∀ u v : H, e.1 ≠ ph u v := by
    intro e he u v
    have hk : e.1 ∈ nm'.map (·.1) := List.mem_map_of_mem he
    rcases (hkeys e.1).1 hk with h | h
    · exact (hok e.1 (hlive e.1 h)).2 u v
    · exact (hok e.1 (hkeysF e.1 h).1).2 u v
  -- the abstraction relation after `deTwinPolNode`
  have hlto : ∀ i ∈ owned, i < hp.size := hroots.lt
  have hroots' : ReprRoots hp' rs ((F.delLeaves D).trees.map (·.2)) owned lv :=
    hroots.frame (fun i hi => hfr i (hlto i hi))
  have hndall : (owned ++ pendOwned its).Nodup := by
    rw [List.nodup_append]
    refine ⟨hndo, hpnd, ?_⟩
    intro i hi j hj e
    have := hlto i hi
    have := hpge j hj
    omega
  have hAP : AbsP ⟨hp', nm', rs, nl, ndl, full⟩ (F.delLeaves (its.flatMap (fun it => it.t.leaves))) its := by
    rw [delLeaves_congr F hL]
    refine ⟨hnl, owned, lv, hroots', hpend, hndall, hmk', ?_, ?_⟩
    · apply keys_nodup_of_iff hmk'
      · obtain ⟨a1, a2⟩ := hroots'.leaf_idx hndo
        obtain ⟨b1, b2⟩ := hpend.leaf_idx hpnd
        rw [List.map_append, List.nodup_append]
        refine ⟨a1, b1, ?_⟩
        intro i hi j hj e
        have := hlto i (a2 i hi)
        have := hpge j (b2 j hj)
        omega
      · intro e he
        rw [hmem e]
        rcases List.mem_append.1 he with h | h
        · exact Or.inl ((hmm e).2 h)
        · exact Or.inr h
    · intro e
      rw [hmem e, hmm e, List.mem_append]
  obtain ⟨hp2, nm2, rs2, ex, a2, k2⟩ := undoDelsLoop_absP hn hnd its.length its rfl
    ⟨hp', nm', rs, nl, ndl, full⟩ hdte hsorted hdisj hsep hAP
  simp only at ex a2
  have hN : nl = BitVec.ofNat 64 F.numLeaves := by rw [← hnlF]; simp
  have hT : TreeRows nl = H8 F.rows := by rw [hN]; exact treeRows_eq hn
  refine ⟨hp2, nm2, rs2, ?_, ?_⟩
  · unfold undoDels
    simp only [List.length_map, ne_eq, not_true_eq_false, if_false, bind_apply, e1, getNumLeaves_apply,
      hT, e2, ex, modifyS_apply]
  · have := a2.toAbs
    exact ⟨this.numLeaves, this.repr⟩

end UtreexoVerif.Proofs.PollardHeap
