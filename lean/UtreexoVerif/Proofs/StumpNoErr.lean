/-
  `Stump.add` never returns an error (Go's `add` has no error result): helper lemmas for
  the atomic-rejection part of C04.
-/
import UtreexoVerif.Model.Stump

namespace UtreexoVerif.Proofs.StumpNoErr
open UtreexoVerif Model Hasher

theorem bind_ne_err {α β} {x : Out α} {f : α → Out β} (hx : x ≠ .err) (hf : ∀ a, f a ≠ .err) :
    x.bind f ≠ .err := by
  cases x with
  | ok a => exact hf a
  | err => exact absurd rfl hx
  | panic => simp [Out.bind]
  | hang => simp [Out.bind]

theorem popLast_ne_err {α} (l : List α) : popLast l ≠ .err := by
  unfold popLast
  split <;> simp

section
variable {H : Type} [DecidableEq H] [Hasher H]

theorem rtdInner_ne_err (n : U64) (ra : U8) :
    ∀ (fuel : Nat) (h : U8) (roots : List H) (del : List U64),
      rtdInner n ra fuel h roots del ≠ .err := by
  intro fuel
  induction fuel with
  | zero => intro h roots del; simp [rtdInner]
  | succ fuel ih =>
    intro h roots del
    unfold rtdInner
    split
    · exact bind_ne_err (popLast_ne_err _) (fun a => ih _ _ _)
    · simp

theorem rtdOuter_ne_err (nz : H) (numAdds : U64) :
    ∀ (k : Nat) (i n : U64) (roots : List H) (del : List U64),
      rtdOuter nz numAdds k i n roots del ≠ .err := by
  intro k
  induction k with
  | zero => intro i n roots del; simp [rtdOuter]
  | succ k ih =>
    intro i n roots del
    unfold rtdOuter
    exact bind_ne_err (rtdInner_ne_err _ _ _ _ _ _) (fun a => ih _ _ _ _)

theorem rootsToDestroy_ne_err (nz : H) (k : Nat) (n : U64) (roots : List H) :
    rootsToDestroy nz k n roots ≠ .err := by
  unfold rootsToDestroy
  split
  · exact rtdOuter_ne_err _ _ _ _ _ _ _
  · simp

theorem addInner_ne_err (ar : U8) (n : U64) :
    ∀ (fuel : Nat) (h : U8) (roots : List H) (nr : H) (pos : U64) (upd : List (H × U64)),
      addInner ar n fuel h roots nr pos upd ≠ .err := by
  intro fuel
  induction fuel with
  | zero => intro h roots nr pos upd; simp [addInner]
  | succ fuel ih =>
    intro h roots nr pos upd
    unfold addInner
    split
    · refine bind_ne_err (popLast_ne_err _) (fun a => ?_)
      obtain ⟨root, roots'⟩ := a
      show (if root ≠ zero then _ else _) ≠ Out.err
      split
      · exact ih _ _ _ _ _
      · exact ih _ _ _ _ _
    · simp

theorem addLoop_ne_err (nz : H) (ar : U8) :
    ∀ (adds : List H) (rem : Nat) (s : Stump H) (upd : List (H × U64)),
      Stump.add.loop nz ar adds rem s upd ≠ .err := by
  intro adds
  induction adds with
  | nil => intro rem s upd; simp [Stump.add.loop]
  | cons a adds ih =>
    intro rem s upd
    unfold Stump.add.loop
    refine bind_ne_err (rootsToDestroy_ne_err _ _ _ _) (fun d => ?_)
    exact bind_ne_err (addInner_ne_err _ _ _ _ _ _ _ _) (fun r => ih _ _ _)

theorem add_ne_err (nz : H) (s : Stump H) (adds : List H) : s.add nz adds ≠ .err := by
  unfold Stump.add
  refine bind_ne_err (rootsToDestroy_ne_err _ _ _ _) (fun d => ?_)
  refine bind_ne_err (addLoop_ne_err _ _ _ _ _ _) (fun r => ?_)
  simp [pure]

end
end UtreexoVerif.Proofs.StumpNoErr
