/-
  Pointer forest, heap model: `undoSingleDel`, branch "the original parent of the deleted node
  IS a root" — the inverse of `surgeryRoot`.

  Names: `R` = the root node of the tree (it carries `b`, which moved into the root when `a`
  died), `nd` = the root of the detached tree `a` to re-insert, `P'` = the freshly allocated
  node.  The Go code swaps the CONTENTS of `R` and `P'` (`*sibling, *parent = *parent, *sibling`):
  afterwards `P'` carries `b` and `R` is the new parent of `nd` and `P'`.
-/
import UtreexoVerif.Proofs.PollardHeapUndoDefs
set_option linter.unusedSectionVars false
set_option linter.unusedVariables false
set_option linter.unusedSimpArgs false

namespace UtreexoVerif.Proofs.PollardHeap
open UtreexoVerif UtreexoVerif.GoInt UtreexoVerif.Model UtreexoVerif.Model.PollardHeap UtreexoVerif.Spec Hasher
open UtreexoVerif.Model.PollardAbs

variable {H : Type} [DecidableEq H] [Hasher H]

/-! ### one level of `updateAunt`, the recursive calls given abstractly -/

/-- both nieces of `n` point elsewhere: `updateAunt` redirects the left one, recurses into it,
redirects the right one, recurses into it -/
theorem updateAunt_step (fuel n l r : Nat) (nn ln rn : PolNode H) (s : Pollard H) (hpB hpC : Heap H)
    (h : s.heap[n]? = some nn) (hL : nn.lNiece = some l) (hR : nn.rNiece = some r)
    (el : s.heap[l]? = some ln) (al : ln.aunt ≠ some n)
    (e1 : updateAunt fuel (some l) { s with heap := setAunt s.heap l n } =
      (.ok (), { s with heap := hpB }))
    (hB : hpB[n]? = some nn) (er : hpB[r]? = some rn) (ar : rn.aunt ≠ some n)
    (e2 : updateAunt fuel (some r) { s with heap := setAunt hpB r n } =
      (.ok (), { s with heap := hpC })) :
    updateAunt (fuel + 1) (some n) s = (.ok (), { s with heap := hpC }) := by
  unfold setAunt at e1 e2
  rw [updateAunt]
  simp [h, hL, hR, el, er, al, ar, e1, e2, hB]

/-! ### `swapNieces` of two root-like nodes -/

/-- two disjoint nodes `X`, `Y` that point to their own children (as roots do): after
`swapNieces(X, Y)` each holds the children of the other, i.e. they are siblings -/
theorem swapNieces_roots {hp : Heap H} {X Y : Nat} {xn yn : PolNode H} {tX tY : CTree H}
    {fX fY : List Nat} {lX lY : List (H × Nat)}
    (hX : hp[X]? = some xn) (hY : hp[Y]? = some yn)
    (sX : Sub hp X X tX fX lX) (sY : Sub hp Y Y tY fY lY)
    (ndp : (X :: Y :: (fX ++ fY)).Nodup)
    (nm : List (H × Nat)) (rs : List Nat) (nl ndl : U64) (full : Bool) :
    ∃ h' : Heap H, swapNieces (some X) (some Y) ⟨hp, nm, rs, nl, ndl, full⟩ =
        (.ok (), ⟨h', nm, rs, nl, ndl, full⟩) ∧
      h'.size = hp.size ∧
      h'[X]? = some { xn with lNiece := yn.lNiece, rNiece := yn.rNiece } ∧
      h'[Y]? = some { yn with lNiece := xn.lNiece, rNiece := xn.rNiece } ∧
      (∀ j, j ∉ X :: Y :: (fX ++ fY) → h'[j]? = hp[j]?) ∧
      Sub h' X Y tX fX lX ∧ Sub h' Y X tY fY lY := by
  obtain ⟨kR, kN⟩ := kid_facts sX sY hX hY ndp
  have ndp' := ndp
  simp only [List.nodup_cons, List.mem_cons, List.mem_append, not_or, List.nodup_append] at ndp
  obtain ⟨⟨hne, hrR, hrN⟩, ⟨hnR, hnN⟩, ndR, ndN, hdisj⟩ := ndp
  have eA := getElem?_swapRaw hne hX hY
  have eC := getElem?_swapped hne hX hY kR kN
  have u1 : Unsettled (swapRaw hp X Y xn yn) X := by
    apply sY.unsettled ndN hrN (Ne.symm hne) (x := { xn with lNiece := yn.lNiece, rNiece := yn.rNiece })
    · rw [eA]; simp
    · intro x hx; rw [hY] at hx; cases hx; exact ⟨rfl, rfl⟩
    · intro i hi
      have h1 : i ≠ X := fun e => hrN (e ▸ hi)
      have h2 : i ≠ Y := fun e => hnN (e ▸ hi)
      rw [eA, if_neg h1, if_neg h2]
  have u2 : Unsettled (setAuntKids (swapRaw hp X Y xn yn) X) Y := by
    have kB : ∀ j, kidOf (swapRaw hp X Y xn yn) X j = decide (isKid yn j) := by
      intro j
      rw [kidOf_eq (x := { xn with lNiece := yn.lNiece, rNiece := yn.rNiece }) (by rw [eA]; simp)]
      simp [isKid]
    apply sX.unsettled ndR hnR hne (x := { yn with lNiece := xn.lNiece, rNiece := xn.rNiece })
    · rw [getElem?_setAuntKids, kB, eA]
      have : ¬ isKid yn Y := fun k => (kN Y k).2 rfl
      simp [this, Ne.symm hne]
    · intro x hx; rw [hX] at hx; cases hx; exact ⟨rfl, rfl⟩
    · intro i hi
      have : ¬ isKid yn i := fun k => hdisj i hi i (sY.kid_mem hY k) rfl
      have h1 : i ≠ X := fun e => hrR (e ▸ hi)
      have h2 : i ≠ Y := fun e => hnR (e ▸ hi)
      rw [getElem?_setAuntKids, kB, eA]
      simp [this, h1, h2]
  have eSwap := swapNieces_exec (⟨hp, nm, rs, nl, ndl, full⟩ : Pollard H) X Y xn yn hX hY u1 u2
  have e_X : (swapped hp X Y xn yn)[X]? = some { xn with lNiece := yn.lNiece, rNiece := yn.rNiece } := by
    rw [eC]; simp
  have e_Y : (swapped hp X Y xn yn)[Y]? = some { yn with lNiece := xn.lNiece, rNiece := xn.rNiece } := by
    rw [eC, if_neg (Ne.symm hne)]; simp
  refine ⟨swapped hp X Y xn yn, eSwap, size_swapped _ _ _ _ _, e_X, e_Y, ?_, ?_, ?_⟩
  · intro j hj
    simp only [List.mem_cons, List.mem_append, not_or] at hj
    obtain ⟨j1, j2, j3, j4⟩ := hj
    have k1 : ¬ isKid xn j := fun k => j3 (sX.kid_mem hX k)
    have k2 : ¬ isKid yn j := fun k => j4 (sY.kid_mem hY k)
    rw [eC, if_neg j1, if_neg j2, if_neg k1, if_neg k2]
  · apply sX.rehome ndR
    · intro x hx; rw [hX] at hx; cases hx; exact ⟨_, e_X, rfl⟩
    · intro x hx; rw [hX] at hx; cases hx; exact ⟨_, e_Y, rfl, rfl⟩
    · intro x i old hx k hi
      rw [hX] at hx; cases hx
      have k' : isKid xn i := k
      obtain ⟨h1, h2, h3⟩ := kR i k'
      rw [eC, if_neg h1, if_neg h2, if_pos k', hi]; rfl
    · intro x i hx hi k1 k2
      rw [hX] at hx; cases hx
      have k' : ¬ isKid xn i := by intro k; rcases k with k | k; exact k1 k; exact k2 k
      have h1 : i ≠ X := fun e => hrR (e ▸ hi)
      have h2 : i ≠ Y := fun e => hnR (e ▸ hi)
      have h3 : ¬ isKid yn i := fun k => hdisj i hi i (sY.kid_mem hY k) rfl
      rw [eC, if_neg h1, if_neg h2, if_neg k', if_neg h3]
  · apply sY.rehome ndN
    · intro x hx; rw [hY] at hx; cases hx; exact ⟨_, e_Y, rfl⟩
    · intro x hx; rw [hY] at hx; cases hx; exact ⟨_, e_X, rfl, rfl⟩
    · intro x i old hx k hi
      rw [hY] at hx; cases hx
      have k' : isKid yn i := k
      obtain ⟨h1, h2⟩ := kN i k'
      have h3 : ¬ isKid xn i := fun k => (kR i k).2.2 k'
      rw [eC, if_neg h1, if_neg h2, if_neg h3, if_pos k', hi]; rfl
    · intro x i hx hi k1 k2
      rw [hY] at hx; cases hx
      have k' : ¬ isKid yn i := by intro k; rcases k with k | k; exact k1 k; exact k2 k
      have h1 : i ≠ X := fun e => hrN (e ▸ hi)
      have h2 : i ≠ Y := fun e => hnN (e ▸ hi)
      have h3 : ¬ isKid xn i := fun k => hdisj i (sX.kid_mem hX k) i hi rfl
      rw [eC, if_neg h1, if_neg h2, if_neg h3, if_neg k']

/-! ### the surgery -/

/-- the heap after the allocation of the parent, the exchange of the contents of the root `R`
and the new node, and the two niece assignments of the root branch of `undoSingleDel` -/
def urHeap (hp : Heap H) (R nd : Nat) (pnode rn : PolNode H) (dl : Bool) : Heap H :=
  ((((hp.push pnode).modify R (fun _ => pnode)).modify hp.size (fun _ => rn)).modify R
    (fun x => { x with lNiece := if dl then some nd else some hp.size })).modify R
    (fun x => { x with rNiece := if dl then some hp.size else some nd })

theorem getElem?_urHeap {hp : Heap H} {R nd : Nat} {pnode rn : PolNode H} {dl : Bool}
    (hR : hp[R]? = some rn) (j : Nat) :
    (urHeap hp R nd pnode rn dl)[j]? =
      if j = R then some { pnode with lNiece := (if dl then some nd else some hp.size), rNiece := (if dl then some hp.size else some nd) }
      else if j = hp.size then some rn else hp[j]? := by
  have ltR := lt_of_get hR
  unfold urHeap
  simp only [Array.getElem?_modify, Array.getElem?_push]
  by_cases h1 : j = R
  · subst h1
    have : ¬ hp.size = j := by omega
    have h2 : ¬ j = hp.size := by omega
    simp [this, h2, hR]
  · by_cases h2 : j = hp.size
    · subst h2; simp [h1, Ne.symm h1]
    · simp [h1, h2, Ne.symm h1, Ne.symm h2]

@[simp] theorem size_urHeap (hp : Heap H) (R nd : Nat) (pnode rn : PolNode H) (dl : Bool) :
    (urHeap hp R nd pnode rn dl).size = hp.size + 1 := by
  unfold urHeap; simp

theorem unsurgeryRoot {hp : Heap H} {R nd : Nat} {rn ndn : PolNode H} {a b : CTree H}
    {fa fb : List Nat} {la lb : List (H × Nat)} (dl : Bool) (pnode : PolNode H)
    (hpl : pnode.lNiece = none) (hpr : pnode.rNiece = none) (hpa : pnode.aunt = none)
    (hpd : pnode.data = if dl then ph a.hash b.hash else ph b.hash a.hash)
    (hR : hp[R]? = some rn) (hnd : hp[nd]? = some ndn) (aR : rn.aunt = none) (aN : ndn.aunt = none)
    (subB : Sub hp R R b fb lb) (subA : Sub hp nd nd a fa la)
    (ndp : (R :: nd :: (fa ++ fb)).Nodup)
    (nm : List (H × Nat)) (rs : List Nat) (nl ndl : U64) (full : Bool) :
    ∃ h4 h5 : Heap H,
      updateAunt' (some R) ⟨urHeap hp R nd pnode rn dl, nm, rs, nl, ndl, full⟩ =
        (.ok (), ⟨h4, nm, rs, nl, ndl, full⟩) ∧
      updateAunt' (some hp.size) ⟨h4, nm, rs, nl, ndl, full⟩ = (.ok (), ⟨h4, nm, rs, nl, ndl, full⟩) ∧
      h4[R]? = some { pnode with lNiece := (if dl then some nd else some hp.size), rNiece := (if dl then some hp.size else some nd) } ∧
      swapNieces (if dl then some nd else some hp.size) (if dl then some hp.size else some nd)
        ⟨h4, nm, rs, nl, ndl, full⟩ = (.ok (), ⟨h5, nm, rs, nl, ndl, full⟩) ∧
      (∃ x, h5[hp.size]? = some x ∧ x.data = rn.data) ∧
      h5.size = hp.size + 1 ∧
      (∀ j, j ∉ R :: nd :: (fa ++ fb) → j ≠ hp.size → h5[j]? = hp[j]?) ∧
      RootRepr h5 R (if dl then .node a b else .node b a)
        (if dl then nd :: hp.size :: (fa ++ fb) else hp.size :: nd :: (fb ++ fa))
        (if dl then la ++ relabelTop b hp.size lb else relabelTop b hp.size lb ++ la) := by
  have ndx := ndp
  simp only [List.nodup_cons, List.mem_cons, List.mem_append, not_or, List.nodup_append] at ndx
  obtain ⟨⟨nRn, nRfa, nRfb⟩, ⟨nnfa, nnfb⟩, ndfa, ndfb, dab⟩ := ndx
  have ltR := lt_of_get hR
  have ltn := lt_of_get hnd
  have ltfa := subA.fp_lt
  have ltfb := subB.fp_lt
  have krn : ∀ j, isKid rn j → j ∈ fb := fun j k => subB.kid_mem hR k
  have knn : ∀ j, isKid ndn j → j ∈ fa := fun j k => subA.kid_mem hnd k
  obtain ⟨P', hP'⟩ : ∃ P', P' = hp.size := ⟨_, rfl⟩
  obtain ⟨k, hk⟩ : ∃ k, hp.size = k + 1 := ⟨hp.size - 1, by omega⟩
  obtain ⟨x3, hx3⟩ : ∃ x3 : PolNode H, x3 = { pnode with lNiece := (if dl then some nd else some hp.size), rNiece := (if dl then some hp.size else some nd) } := ⟨_, rfl⟩
  obtain ⟨h3, h3_def⟩ : ∃ h3, h3 = urHeap hp R nd pnode rn dl := ⟨_, rfl⟩
  have e3 : ∀ j, h3[j]? = if j = R then some x3 else if j = P' then some rn else hp[j]? := by
    intro j; rw [h3_def, hx3, hP']; exact getElem?_urHeap hR j
  have sz3 : h3.size = hp.size + 1 := by rw [h3_def]; simp
  rw [← h3_def, ← hx3, ← hP']
  have nP'fb : P' ∉ fb := fun h => by have := ltfb _ h; omega
  have nP'fa : P' ∉ fa := fun h => by have := ltfa _ h; omega
  have nRP : R ≠ P' := by omega
  have nnP : nd ≠ P' := by omega
  -- the target of `updateAunt(R)`
  have hU : ∃ h4 : Heap H, updateAunt' (some R) ⟨h3, nm, rs, nl, ndl, full⟩ =
      (.ok (), ⟨h4, nm, rs, nl, ndl, full⟩) ∧ h4.size = hp.size + 1 ∧
      ∀ j, h4[j]? = if j = R then some x3 else if j = nd then some { ndn with aunt := some R }
        else if j = P' then some { rn with aunt := some R }
        else if isKid rn j then (hp[j]?).map (fun x => { x with aunt := some P' }) else hp[j]? := by
    have h3R : h3[R]? = some x3 := by rw [e3, if_pos rfl]
    have h3n : h3[nd]? = some ndn := by rw [e3, if_neg (Ne.symm nRn), if_neg nnP]; exact hnd
    have h3P : h3[P']? = some rn := by rw [e3, if_neg (Ne.symm nRP), if_pos rfl]
    have h3fa : ∀ i ∈ fa, h3[i]? = hp[i]? := by
      intro i hi
      have := ltfa i hi
      rw [e3, if_neg (show ¬ i = R from fun e => nRfa (e ▸ hi)), if_neg (by omega)]
    have h3fb : ∀ i ∈ fb, h3[i]? = hp[i]? := by
      intro i hi
      have := ltfb i hi
      rw [e3, if_neg (show ¬ i = R from fun e => nRfb (e ▸ hi)), if_neg (by omega)]
    -- `updateAunt(nd)` finds its nieces settled, in every heap that agrees with `hp` on `fa`
    have settledN : ∀ (hq : Heap H), hq[nd]? = some { ndn with aunt := some R } →
        (∀ i ∈ fa, hq[i]? = hp[i]?) →
        updateAunt (hp.size + 1) (some nd) ⟨hq, nm, rs, nl, ndl, full⟩ =
          (.ok (), ⟨hq, nm, rs, nl, ndl, full⟩) := by
      intro hq hqn hqfa
      apply updateAunt_settled hp.size nd { ndn with aunt := some R } ⟨hq, nm, rs, nl, ndl, full⟩ hqn
      · intro l hl
        have kk : isKid ndn l := Or.inl hl
        obtain ⟨x, ex, ax⟩ := subA.kid_exists hnd kk
        exact ⟨x, (hqfa l (knn l kk)).trans ex, ax⟩
      · intro hnone r hr
        have := subA.both_or_none hnd hnone
        simp only at hr; rw [this] at hr; cases hr
    -- `updateAunt(P')` redirects the children of `b`
    have unsP : ∀ (hq : Heap H), hq[P']? = some { rn with aunt := some R } →
        (∀ i ∈ fb, hq[i]? = hp[i]?) → Unsettled hq P' := by
      intro hq hqP hqfb
      apply subB.unsettled ndfb nP'fb nRP (x := { rn with aunt := some R }) hqP
      · intro x hx; rw [hR] at hx; cases hx; exact ⟨rfl, rfl⟩
      · exact hqfb
    have kidP : ∀ (hq : Heap H), hq[P']? = some { rn with aunt := some R } → ∀ j,
        kidOf hq P' j = decide (isKid rn j) := by
      intro hq hqP j
      rw [kidOf_eq hqP]
      simp [isKid]
    unfold updateAunt'
    simp only [bind_apply, heapSize_apply, sz3]
    cases dl
    · -- left niece `P'`, right niece `nd`
      simp only [Bool.false_eq_true, if_false] at hx3
      have hA : (setAunt h3 P' R)[P']? = some { rn with aunt := some R } := by
        rw [getElem?_setAunt, if_pos rfl, h3P]; rfl
      have hAfb : ∀ i ∈ fb, (setAunt h3 P' R)[i]? = hp[i]? := by
        intro i hi
        rw [getElem?_setAunt, if_neg (show ¬ P' = i from fun e => nP'fb (e ▸ hi)), h3fb i hi]
      have e1 := updateAunt_unsettled k P' (⟨setAunt h3 P' R, nm, rs, nl, ndl, full⟩ : Pollard H)
        (unsP _ hA hAfb)
      rw [show k + 2 = hp.size + 1 by omega] at e1
      obtain ⟨hpB, hpB_def⟩ : ∃ hpB, hpB = setAuntKids (setAunt h3 P' R) P' := ⟨_, rfl⟩
      have eB : ∀ j, hpB[j]? = if isKid rn j then ((setAunt h3 P' R)[j]?).map (fun x => { x with aunt := some P' })
          else (setAunt h3 P' R)[j]? := by
        intro j; rw [hpB_def, getElem?_setAuntKids, kidP _ hA]; simp
      have hBR : hpB[R]? = some x3 := by
        rw [eB, if_neg (fun kk => nRfb (krn R kk)), getElem?_setAunt, if_neg (Ne.symm nRP), h3R]
      have hBn : hpB[nd]? = some ndn := by
        rw [eB, if_neg (fun kk => nnfb (krn nd kk)), getElem?_setAunt, if_neg (Ne.symm nnP), h3n]
      have hCn : (setAunt hpB nd R)[nd]? = some { ndn with aunt := some R } := by
        rw [getElem?_setAunt, if_pos rfl, hBn]; rfl
      have hCfa : ∀ i ∈ fa, (setAunt hpB nd R)[i]? = hp[i]? := by
        intro i hi
        rw [getElem?_setAunt, if_neg (show ¬ nd = i from fun e => nnfa (e ▸ hi)), eB,
          if_neg (fun kk => dab i hi i (krn i kk) rfl), getElem?_setAunt,
          if_neg (show ¬ P' = i from fun e => nP'fa (e ▸ hi)), h3fa i hi]
      have e2 := settledN _ hCn hCfa
      refine ⟨setAunt hpB nd R, ?_, ?_, ?_⟩
      · exact updateAunt_step (hp.size + 1) R P' nd x3 rn ndn ⟨h3, nm, rs, nl, ndl, full⟩ hpB
          (setAunt hpB nd R) h3R (by rw [hx3, hP']) (by rw [hx3]) h3P (by rw [aR]; simp)
          (by rw [← hpB_def] at e1; exact e1) hBR hBn (by rw [aN]; simp) e2
      · rw [size_setAunt, hpB_def, size_setAuntKids, size_setAunt, sz3]
      · intro j
        rw [getElem?_setAunt]
        by_cases j1 : j = R
        · rw [j1, if_neg (Ne.symm nRn), hBR, if_pos rfl]
        · by_cases j2 : j = nd
          · rw [j2, if_pos rfl, hBn, if_neg (Ne.symm nRn), if_pos rfl]; rfl
          · rw [if_neg (Ne.symm j2), if_neg j1, if_neg j2, eB, getElem?_setAunt]
            by_cases j3 : j = P'
            · rw [j3, if_neg (fun kk => nP'fb (krn _ kk)), if_pos rfl, if_pos rfl, h3P]; rfl
            · rw [if_neg (Ne.symm j3), if_neg j3, e3, if_neg j1, if_neg j3]
    · -- left niece `nd`, right niece `P'`
      simp only [if_true] at hx3
      have hAn : (setAunt h3 nd R)[nd]? = some { ndn with aunt := some R } := by
        rw [getElem?_setAunt, if_pos rfl, h3n]; rfl
      have hAfa : ∀ i ∈ fa, (setAunt h3 nd R)[i]? = hp[i]? := by
        intro i hi
        rw [getElem?_setAunt, if_neg (show ¬ nd = i from fun e => nnfa (e ▸ hi)), h3fa i hi]
      have e1 := settledN _ hAn hAfa
      have hBR : (setAunt h3 nd R)[R]? = some x3 := by
        rw [getElem?_setAunt, if_neg (Ne.symm nRn), h3R]
      have hBP : (setAunt h3 nd R)[P']? = some rn := by
        rw [getElem?_setAunt, if_neg nnP, h3P]
      have hC : (setAunt (setAunt h3 nd R) P' R)[P']? = some { rn with aunt := some R } := by
        rw [getElem?_setAunt, if_pos rfl, hBP]; rfl
      have hCfb : ∀ i ∈ fb, (setAunt (setAunt h3 nd R) P' R)[i]? = hp[i]? := by
        intro i hi
        rw [getElem?_setAunt, if_neg (show ¬ P' = i from fun e => nP'fb (e ▸ hi)), getElem?_setAunt,
          if_neg (show ¬ nd = i from fun e => nnfb (e ▸ hi)), h3fb i hi]
      have e2 := updateAunt_unsettled k P'
        (⟨setAunt (setAunt h3 nd R) P' R, nm, rs, nl, ndl, full⟩ : Pollard H) (unsP _ hC hCfb)
      rw [show k + 2 = hp.size + 1 by omega] at e2
      refine ⟨setAuntKids (setAunt (setAunt h3 nd R) P' R) P', ?_, ?_, ?_⟩
      · exact updateAunt_step (hp.size + 1) R nd P' x3 ndn rn ⟨h3, nm, rs, nl, ndl, full⟩
          (setAunt h3 nd R) _ h3R (by rw [hx3]) (by rw [hx3, hP']) h3n (by rw [aN]; simp)
          e1 hBR hBP (by rw [aR]; simp) e2
      · rw [size_setAuntKids, size_setAunt, size_setAunt, sz3]
      · intro j
        rw [getElem?_setAuntKids, kidP _ hC, getElem?_setAunt, getElem?_setAunt]
        by_cases j1 : j = R
        · have : ¬ isKid rn R := fun kk => nRfb (krn _ kk)
          rw [j1]
          simp [this, h3R, Ne.symm nRP, Ne.symm nRn]
        · by_cases j2 : j = nd
          · have : ¬ isKid rn nd := fun kk => nnfb (krn _ kk)
            rw [j2]
            simp [this, h3n, Ne.symm nnP, Ne.symm nRn]
          · by_cases j3 : j = P'
            · have : ¬ isKid rn P' := fun kk => nP'fb (krn _ kk)
              rw [j3]
              simp [this, h3P, nnP, Ne.symm nnP, Ne.symm nRP]
            · rw [if_neg (Ne.symm j3), if_neg (Ne.symm j2), e3, if_neg j1, if_neg j3, if_neg j1,
                if_neg j2, if_neg j3]
              by_cases j4 : isKid rn j <;> simp [j4]
  obtain ⟨h4, x4, sz4, e4⟩ := hU
  have h4R : h4[R]? = some x3 := by rw [e4, if_pos rfl]
  have h4n : h4[nd]? = some { ndn with aunt := some R } := by
    rw [e4, if_neg (Ne.symm nRn), if_pos rfl]
  have h4P : h4[P']? = some { rn with aunt := some R } := by
    rw [e4, if_neg (Ne.symm nRP), if_neg (Ne.symm nnP), if_pos rfl]
  have h4fa : ∀ i ∈ fa, h4[i]? = hp[i]? := by
    intro i hi
    have := ltfa i hi
    rw [e4, if_neg (show ¬ i = R from fun e => nRfa (e ▸ hi)),
      if_neg (show ¬ i = nd from fun e => nnfa (e ▸ hi)), if_neg (by omega),
      if_neg (fun kk => dab i hi i (krn i kk) rfl)]
  have h4kid : ∀ j, isKid rn j → h4[j]? = (hp[j]?).map (fun x => { x with aunt := some P' }) := by
    intro j kk
    have hj := krn j kk
    have := ltfb j hj
    rw [e4, if_neg (show ¬ j = R from fun e => nRfb (e ▸ hj)),
      if_neg (show ¬ j = nd from fun e => nnfb (e ▸ hj)), if_neg (by omega), if_pos kk]
  have h4fb : ∀ i ∈ fb, ¬ isKid rn i → h4[i]? = hp[i]? := by
    intro i hi kk
    have := ltfb i hi
    rw [e4, if_neg (show ¬ i = R from fun e => nRfb (e ▸ hi)),
      if_neg (show ¬ i = nd from fun e => nnfb (e ▸ hi)), if_neg (by omega), if_neg kk]
  -- `updateAunt(P')`: settled
  have set4 : Settled h4 P' := by
    refine ⟨_, h4P, ?_, ?_⟩
    · intro l hl
      have kk : isKid rn l := Or.inl hl
      obtain ⟨x, ex, _⟩ := subB.kid_exists hR kk
      exact ⟨_, by rw [h4kid l kk, ex]; rfl, rfl⟩
    · intro hnone r hr
      have := subB.both_or_none hR hnone
      simp only at hr; rw [this] at hr; cases hr
  have x5 := updateAunt'_settled P' (⟨h4, nm, rs, nl, ndl, full⟩ : Pollard H) set4
  -- the two root-like nodes
  have subA4 : Sub h4 nd nd a fa la := by
    apply subA.frame
    · intro x hx; rw [hnd] at hx; cases hx; exact ⟨_, h4n, rfl⟩
    · intro x hx; rw [hnd] at hx; cases hx; exact ⟨_, h4n, rfl, rfl⟩
    · exact h4fa
  have subB4 : Sub h4 P' P' b fb (relabelTop b P' lb) := by
    apply subB.rehome' ndfb
    · intro x hx; rw [hR] at hx; cases hx; exact ⟨_, h4P, rfl⟩
    · intro x hx; rw [hR] at hx; cases hx; exact ⟨_, h4P, rfl, rfl⟩
    · intro x i old hx kk hi
      rw [hR] at hx; cases hx
      rw [h4kid i kk, hi]; rfl
    · intro x i hx hi k1 k2
      rw [hR] at hx; cases hx
      exact h4fb i hi (by intro kk; rcases kk with kk | kk; exact k1 kk; exact k2 kk)
  have hdata_a : ndn.data = a.hash := by
    obtain ⟨z, ez, dz⟩ := subA.hash; rw [hnd] at ez; cases ez; exact dz
  have hdata_b : rn.data = b.hash := by
    obtain ⟨z, ez, dz⟩ := subB.hash; rw [hR] at ez; cases ez; exact dz
  cases dl
  · -- `P'` left, `nd` right
    simp only [Bool.false_eq_true, if_false] at hx3 hpd ⊢
    have ndq : (P' :: nd :: (fb ++ fa)).Nodup := by
      simp only [List.nodup_cons, List.mem_cons, List.mem_append, not_or, List.nodup_append]
      exact ⟨⟨Ne.symm nnP, nP'fb, nP'fa⟩, ⟨nnfb, nnfa⟩, ndfb, ndfa, fun x hx y hy e => dab y hy x hx e.symm⟩
    obtain ⟨h5, x6, sz5, h5P, h5n, fr5, sB5, sA5⟩ :=
      swapNieces_roots h4P h4n subB4 subA4 ndq nm rs nl ndl full
    have h5R : h5[R]? = some x3 := by
      rw [fr5 R (by
        simp only [List.mem_cons, List.mem_append, not_or]
        exact ⟨nRP, nRn, nRfb, nRfa⟩)]
      exact h4R
    refine ⟨h4, h5, x4, x5, h4R, x6, ⟨_, h5P, rfl⟩, by rw [sz5, sz4, hP'], ?_, ⟨⟨_, h5R, by rw [hx3]; exact hpa⟩, ?_⟩⟩
    · intro j hj hjP
      simp only [List.mem_cons, List.mem_append, not_or] at hj
      obtain ⟨j1, j2, j3, j4⟩ := hj
      rw [fr5 j (by
        simp only [List.mem_cons, List.mem_append, not_or]
        exact ⟨hjP, j2, j4, j3⟩), e4, if_neg j1, if_neg j2, if_neg hjP,
        if_neg (fun kk => j4 (krn j kk))]
    · exact Sub.node h5R (by rw [hx3]; simp only; rw [hpd]) h5R (by rw [hx3, hP']) (by rw [hx3]) h5P h5n rfl rfl sB5 sA5
  · -- `nd` left, `P'` right
    simp only [if_true] at hx3 hpd ⊢
    have ndq : (nd :: P' :: (fa ++ fb)).Nodup := by
      simp only [List.nodup_cons, List.mem_cons, List.mem_append, not_or, List.nodup_append]
      exact ⟨⟨nnP, nnfa, nnfb⟩, ⟨nP'fa, nP'fb⟩, ndfa, ndfb, dab⟩
    obtain ⟨h5, x6, sz5, h5n, h5P, fr5, sA5, sB5⟩ :=
      swapNieces_roots h4n h4P subA4 subB4 ndq nm rs nl ndl full
    have h5R : h5[R]? = some x3 := by
      rw [fr5 R (by
        simp only [List.mem_cons, List.mem_append, not_or]
        exact ⟨nRn, nRP, nRfa, nRfb⟩)]
      exact h4R
    refine ⟨h4, h5, x4, x5, h4R, x6, ⟨_, h5P, rfl⟩, by rw [sz5, sz4, hP'], ?_, ⟨⟨_, h5R, by rw [hx3]; exact hpa⟩, ?_⟩⟩
    · intro j hj hjP
      simp only [List.mem_cons, List.mem_append, not_or] at hj
      obtain ⟨j1, j2, j3, j4⟩ := hj
      rw [fr5 j (by
        simp only [List.mem_cons, List.mem_append, not_or]
        exact ⟨j2, hjP, j3, j4⟩), e4, if_neg j1, if_neg j2, if_neg hjP,
        if_neg (fun kk => j4 (krn j kk))]
    · exact Sub.node h5R (by rw [hx3]; simp only; rw [hpd]) h5R (by rw [hx3]) (by rw [hx3, hP']) h5n h5P rfl rfl sA5 sB5

/-! ### `undoSingleDel`, the parent is a root -/

/-- **`undoSingleDel`, the original parent of the deleted node is a root** (collapsed-tree
level): the root `r` carries `b` (it moved into the root when its sibling died); `nd` is the root
of a detached represented tree `a`; `getNode` of the parent position returns the root.
`undoSingleDel` — `calculateParentHash`, allocation, exchange of the contents of the root and the
new node, `updateAunt` (twice, the first one two levels deep), `swapNieces`, re-pointing of
`NodeMap` — succeeds; the root represents `node a b` (resp. `node b a`), the top node of `b` is
the freshly allocated node. -/
theorem undoSingleDel_tree_root {hp : Heap H} {nm : List (H × Nat)} {rs : List Nat} {nl ndl : U64}
    {full : Bool} {r : Nat} {b : CTree H} {fb : List Nat} {lb : List (H × Nat)}
    {nd : Nat} {a : CTree H} {fa : List Nat} {la : List (H × Nat)}
    (hR : RootRepr hp r b fb lb) (hRn : RootRepr hp nd a fa la)
    (ndp : (r :: fb ++ nd :: fa).Nodup) (pos : U64) (par : Ptr)
    (hget : getNode (Parent pos (TreeRows nl)) ⟨hp, nm, rs, nl, ndl, full⟩ =
      (.ok (some r, some r, par), ⟨hp, nm, rs, nl, ndl, full⟩)) :
    ∃ hp' : Heap H,
      undoSingleDel nd pos ⟨hp, nm, rs, nl, ndl, full⟩ =
        (.ok (), ⟨hp', mapMoveTo nm b.hash hp.size, rs, nl, ndl, full⟩) ∧
      RootRepr hp' r (if isLeftNiece pos then .node a b else .node b a)
        (if isLeftNiece pos then nd :: hp.size :: (fa ++ fb) else hp.size :: nd :: (fb ++ fa))
        (if isLeftNiece pos then la ++ relabelTop b hp.size lb else relabelTop b hp.size lb ++ la) ∧
      (∀ j, j ∉ r :: fb ++ nd :: fa → j ≠ hp.size → hp'[j]? = hp[j]?) ∧ hp'.size = hp.size + 1 := by
  obtain ⟨⟨rn, hr, aR⟩, subB⟩ := hR
  obtain ⟨⟨ndn, hnd, aN⟩, subA⟩ := hRn
  have ndq : (r :: nd :: (fa ++ fb)).Nodup := by
    refine (List.Perm.nodup_iff ?_).1 ndp
    perm_count
  have hdata_a : ndn.data = a.hash := by
    obtain ⟨z, ez, dz⟩ := subA.hash; rw [hnd] at ez; cases ez; exact dz
  have hdata_b : rn.data = b.hash := by
    obtain ⟨z, ez, dz⟩ := subB.hash; rw [hr] at ez; cases ez; exact dz
  obtain ⟨pHash, hpHash⟩ : ∃ pHash : H, pHash = if isLeftNiece pos then ph ndn.data rn.data
      else ph rn.data ndn.data := ⟨_, rfl⟩
  have ltr := lt_of_get hr
  obtain ⟨h4, h5, x4, x5, h4R, x6, ⟨xP, h5P, dP⟩, sz5, fr5, hroot5⟩ :=
    unsurgeryRoot (a := a) (b := b) (isLeftNiece pos) ({ data := pHash, remember := full } : PolNode H)
      rfl rfl rfl (by rw [hpHash, hdata_a, hdata_b])
      hr hnd aR aN subB subA ndq nm rs nl ndl full
  refine ⟨h5, ?_, hroot5, ?_, sz5⟩
  · unfold undoSingleDel calculateParentHash
    simp only [bind_apply, getNumLeaves_apply, hget, getFull_apply, alloc_apply]
    have hcalc : (if isLeftNiece pos then (do
          let n ← rd (some nd)
          let s ← rd (some r)
          pure (ph n.data s.data) : PM H H)
        else (do
          let s ← rd (some r)
          let n ← rd (some nd)
          pure (ph s.data n.data))) ⟨hp, nm, rs, nl, ndl, full⟩ =
        (.ok pHash, ⟨hp, nm, rs, nl, ndl, full⟩) := by
      rw [hpHash]
      cases isLeftNiece pos <;>
        simp [rd, hnd, hr]
    rw [hcalc]
    have hr0 : (hp.push ({ data := pHash, remember := full } : PolNode H))[r]? = some rn := by
      rw [Array.getElem?_push, if_neg (by omega)]; exact hr
    have hP0 : (hp.push ({ data := pHash, remember := full } : PolNode H))[hp.size]? =
        some ({ data := pHash, remember := full } : PolNode H) := by
      rw [Array.getElem?_push, if_pos rfl]
    simp only [deref_some, node_apply, hr0, aR, hP0, setNode_apply, bind_apply]
    cases hl : isLeftNiece pos
    · rw [hl] at x4 x6 h4R
      unfold urHeap at x4
      simp only [Bool.false_eq_true, if_false, setNode_apply, bind_apply] at x4 x6 h4R ⊢
      rw [x4]
      simp only []
      rw [x5]
      simp only [node_apply, h4R]
      rw [x6]
      simp only [node_apply, h5P, nodeMapGet_apply, nodeMapSet_apply, dP, hdata_b]
      unfold mapMoveTo
      split <;> simp_all
    · rw [hl] at x4 x6 h4R
      unfold urHeap at x4
      simp only [if_true, setNode_apply, bind_apply] at x4 x6 h4R ⊢
      rw [x4]
      simp only []
      rw [x5]
      simp only [node_apply, h4R]
      rw [x6]
      simp only [node_apply, h5P, nodeMapGet_apply, nodeMapSet_apply, dP, hdata_b]
      unfold mapMoveTo
      split <;> simp_all
  · intro j hj hjP
    apply fr5 j _ hjP
    intro hm
    apply hj
    simp only [List.mem_cons, List.mem_append] at hm ⊢
    rcases hm with h | h | h | h <;> simp [h]

end UtreexoVerif.Proofs.PollardHeap
