/-
  Helper lemmas for `proofPosition` / `ProofPositions` (C16).
-/
import UtreexoVerif.Proofs.Geometry2
import UtreexoVerif.Props.C16b

namespace UtreexoVerif.Proofs
open UtreexoVerif UtreexoVerif.GoInt UtreexoVerif.Props.C16

/-- the encoding of a (row, offset) pair in a forest allocated for `H` rows -/
def encP (H : Nat) (p : Spec.Pos) : U64 := encU H p.1 p.2

/-- `(r, o)` is, or lies below, the root of the tree on row `R` of a forest with `n` leaves -/
def BelowRoot (n r o R : Nat) : Prop :=
  r ≤ R ∧ n.testBit R = true ∧ o / 2 ^ (R - r) = (Spec.rootPos n R).2

/-- a node lies below at most one root -/
theorem belowRoot_unique {n r o R R' : Nat} (h : BelowRoot n r o R) (h' : BelowRoot n r o R') :
    R = R' := by
  obtain ⟨hr, hb, hroot⟩ := h
  obtain ⟨hr', hb', hroot'⟩ := h'
  obtain ⟨hL, habove⟩ := leftmost_leaf_bits hr hroot
  obtain ⟨hL', habove'⟩ := leftmost_leaf_bits hr' hroot'
  rcases Nat.lt_trichotomy R R' with hlt | heq | hgt
  · have := habove R' hlt
    rw [hL', hb'] at this
    exact absurd this (by decide)
  · exact heq
  · have := habove' R hgt
    rw [hL, hb] at this
    exact absurd this (by decide)

theorem belowRoot_isRootPos {n r o R : Nat} (h : BelowRoot n r o R) :
    Spec.isRootPos n (r, o) = decide (r = R) := by
  by_cases hrR : r = R
  · subst hrR
    obtain ⟨_, hb, hroot⟩ := h
    rw [Nat.sub_self, Nat.pow_zero, Nat.div_one] at hroot
    simp [Spec.isRootPos, hb, hroot, Spec.rootPos]
  · simp only [hrR, decide_false]
    cases hroot : Spec.isRootPos n (r, o)
    · rfl
    · exfalso
      simp only [Spec.isRootPos, Bool.and_eq_true, beq_iff_eq] at hroot
      have h2 : BelowRoot n r o r := ⟨Nat.le_refl _, hroot.1, by
        rw [Nat.sub_self, Nat.pow_zero, Nat.div_one]; exact hroot.2⟩
      exact hrR (belowRoot_unique h2 h)

theorem belowRoot_parent {n r o R : Nat} (h : BelowRoot n r o R) (hne : r ≠ R) :
    BelowRoot n (r + 1) (o / 2) R := by
  obtain ⟨hr, hb, hroot⟩ := h
  refine ⟨by omega, hb, ?_⟩
  rw [← hroot, Nat.div_div_eq_div_mul, ← Nat.pow_succ', show (R - (r + 1)).succ = R - r by omega]

/-- a node below a root of a forest with `n ≤ 2^h` leaves is a valid position of the
`h`-row geometry -/
theorem belowRoot_valid {n h r o R : Nat} (hn : n ≤ 2 ^ h) (hb : BelowRoot n r o R) :
    R ≤ h ∧ r ≤ h ∧ o < 2 ^ (h - r) := by
  have h1 : (o + 1) * 2 ^ r ≤ n := below_root_iff.2 ⟨R, hb⟩
  obtain ⟨hRh, _⟩ := rootPos_valid hn hb.2.1
  have hr : r ≤ h := Nat.le_trans hb.1 hRh
  refine ⟨hRh, hr, ?_⟩
  have e : 2 ^ h = 2 ^ (h - r) * 2 ^ r := two_pow_split hr
  have : (o + 1) * 2 ^ r ≤ 2 ^ (h - r) * 2 ^ r := by rw [← e]; omega
  have := Nat.le_of_mul_le_mul_right this (Nat.two_pow_pos r)
  omega


/-! ### `ProofPositions`, step 1: the index loop `ppInner` is a left-to-right scan -/

/-- the three `continue` tests of the inner loop of `ProofPositions` -/
def skipT (n : U64) (H row : U8) (t : U64) : Bool :=
  decide (t > Model.maxPossiblePosAtRow row H) || (row != Model.DetectRow t H) ||
    Model.isRootPositionOnRowTotalRows t n row H

/-- one row of `ProofPositions` as a scan over the (sorted) target list:
(new target list, appended computable positions, appended proof positions) -/
def rowScan (n : U64) (H row : U8) : List U64 → List U64 × List U64 × List U64
  | [] => ([], [], [])
  | [t] =>
    if skipT n H row t then ([t], [], [])
    else ([Model.Parent t H], [Model.Parent t H], [Model.sibling t])
  | t :: nxt :: rest =>
    if skipT n H row t then
      (t :: (rowScan n H row (nxt :: rest)).1, (rowScan n H row (nxt :: rest)).2.1,
        (rowScan n H row (nxt :: rest)).2.2)
    else if Model.rightSib t == nxt then
      (Model.Parent t H :: nxt :: (rowScan n H row rest).1,
        Model.Parent t H :: (rowScan n H row rest).2.1, (rowScan n H row rest).2.2)
    else
      (Model.Parent t H :: (rowScan n H row (nxt :: rest)).1,
        Model.Parent t H :: (rowScan n H row (nxt :: rest)).2.1,
        Model.sibling t :: (rowScan n H row (nxt :: rest)).2.2)

theorem rowScan_cons_skip {n : U64} {H row : U8} {t : U64} (rest : List U64)
    (h : skipT n H row t = true) :
    rowScan n H row (t :: rest) =
      (t :: (rowScan n H row rest).1, (rowScan n H row rest).2.1, (rowScan n H row rest).2.2) := by
  cases rest with
  | nil => simp [rowScan, h]
  | cons nxt rest => simp [rowScan, h]

theorem ite_skipT {α : Type} (n : U64) (H row : U8) (t : U64) (A X : α) :
    (if t > Model.maxPossiblePosAtRow row H then A
     else if (row != Model.DetectRow t H) = true then A
     else if Model.isRootPositionOnRowTotalRows t n row H = true then A
     else X) = if skipT n H row t = true then A else X := by
  unfold skipT
  by_cases h1 : t > Model.maxPossiblePosAtRow row H
  · simp [h1]
  · by_cases h2 : (row != Model.DetectRow t H) = true
    · simp [h1, h2]
    · by_cases h3 : Model.isRootPositionOnRowTotalRows t n row H = true
      · simp [h1, h2, h3]
      · simp [h1, h2, h3]

theorem ppInner_eq_rowScan (n : U64) (H row : U8) :
    ∀ (fuel : Nat) (suf pre : List U64) (s : Model.PPSt), s.targets = pre ++ suf →
      suf.length < fuel →
      Model.ppInner n H row fuel pre.length s =
        { targets := pre ++ (rowScan n H row suf).1,
          next := s.next ++ (rowScan n H row suf).2.1,
          proofs := s.proofs ++ (rowScan n H row suf).2.2 } := by
  intro fuel
  induction fuel with
  | zero => intro suf pre s _ hf; omega
  | succ fuel ih =>
    intro suf pre s hs hf
    cases suf with
    | nil =>
      have hnone : s.targets[pre.length]? = none := by rw [hs]; simp
      unfold Model.ppInner
      rw [hnone]
      cases s
      simp_all [rowScan]
    | cons t rest =>
      have hsome : s.targets[pre.length]? = some t := by rw [hs]; simp
      have hs' : s.targets = (pre ++ [t]) ++ rest := by rw [hs]; simp
      have hlen : (pre ++ [t]).length = pre.length + 1 := by simp
      have hset : ∀ x, s.targets.set pre.length x = (pre ++ [x]) ++ rest := by
        intro x; rw [hs]; simp
      unfold Model.ppInner
      rw [hsome]
      simp only
      rw [ite_skipT]
      by_cases hskip : skipT n H row t = true
      · rw [if_pos hskip, rowScan_cons_skip rest hskip, ← hlen, ih rest (pre ++ [t]) s hs' (by simpa using hf)]
        simp
      · rw [if_neg hskip]
        cases rest with
        | nil =>
          have hnone : s.targets[pre.length + 1]? = none := by rw [hs]; simp
          rw [hnone]
          simp only
          have := ih [] (pre ++ [Model.Parent t H])
            { targets := s.targets.set pre.length (Model.Parent t H),
              next := s.next ++ [Model.Parent t H], proofs := s.proofs ++ [Model.sibling t] }
            (by simp [hset]) (by simp at hf ⊢; omega)
          rw [List.length_append, List.length_singleton] at this
          rw [this]
          simp [rowScan, hskip]
        | cons nxt rest =>
          have hsome2 : s.targets[pre.length + 1]? = some nxt := by
            rw [hs, List.getElem?_append_right (by omega)]; simp
          rw [hsome2]
          simp only
          by_cases hsib : (Model.rightSib t == nxt) = true
          · rw [if_pos hsib]
            have := ih rest (pre ++ [Model.Parent t H, nxt])
              { targets := s.targets.set pre.length (Model.Parent t H),
                next := s.next ++ [Model.Parent t H], proofs := s.proofs }
              (by simp [hset]) (by simp at hf ⊢; omega)
            rw [List.length_append] at this
            simp only [List.length_cons, List.length_nil] at this
            rw [this]
            simp [rowScan, hskip, hsib]
          · rw [if_neg hsib]
            have := ih (nxt :: rest) (pre ++ [Model.Parent t H])
              { targets := s.targets.set pre.length (Model.Parent t H),
                next := s.next ++ [Model.Parent t H], proofs := s.proofs ++ [Model.sibling t] }
              (by simp [hset]) (by simp at hf ⊢; omega)
            rw [List.length_append, List.length_singleton] at this
            rw [this]
            simp [rowScan, hskip, hsib]

end UtreexoVerif.Proofs
