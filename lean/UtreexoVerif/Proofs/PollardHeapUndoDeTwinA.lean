/-
  Pointer forest, heap model, `Undo`, third phase (`undoDels`), first half — part A:

  1. the sort: `sortBy` commutes with `map`, sorted items have `sortDedup` positions;
  2. `sort.Search` (`searchLoop`) and `insertSortNodeAndPos` = `insertBy`;
  3. `undoDelsAlloc`: one fresh leaf item per deleted hash;
  4. one merge step of `deTwinPolNode` on the heap: `joinHeap`, `joinHeap_repr`, the execution
     lemma `deTwinPolNodeLoop_merge`.
-/
import UtreexoVerif.Proofs.PollardHeapUndoDefs
set_option linter.unusedSectionVars false
set_option linter.unusedVariables false
set_option linter.unusedSimpArgs false

namespace UtreexoVerif.Proofs.PollardHeap
open UtreexoVerif UtreexoVerif.GoInt UtreexoVerif.Model UtreexoVerif.Model.PollardHeap UtreexoVerif.Spec Hasher
open UtreexoVerif.Model.PollardAbs UtreexoVerif.Proofs.CalcGeo
open UtreexoVerif.Proofs.Sorted UtreexoVerif.Proofs.ProofUpdateDeTwin

variable {H : Type} [DecidableEq H] [Hasher H]

/-! ### 1. the sort -/

section sort
variable {α β : Type}

/-- `insertBy` commutes with a map that respects the keys -/
theorem insertBy_map (k1 : α → U64) (k2 : β → U64) (f : α → β) (hk : ∀ x, k2 (f x) = k1 x)
    (x : α) (l : List α) : insertBy k2 (f x) (l.map f) = (insertBy k1 x l).map f := by
  induction l with
  | nil => rfl
  | cons y ys ih =>
    simp only [List.map_cons, insertBy, hk]
    split
    · rfl
    · rw [List.map_cons, ih]

/-- **`sortBy` commutes with a map that respects the keys** -/
theorem sortBy_map (k1 : α → U64) (k2 : β → U64) (f : α → β) (hk : ∀ x, k2 (f x) = k1 x)
    (l : List α) : sortBy k2 (l.map f) = (sortBy k1 l).map f := by
  unfold sortBy
  have : ∀ (acc : List α), (l.map f).foldl (fun acc x => insertBy k2 x acc) (acc.map f) =
      (l.foldl (fun acc x => insertBy k1 x acc) acc).map f := by
    induction l with
    | nil => intro acc; rfl
    | cons x xs ih =>
      intro acc
      simp only [List.map_cons, List.foldl_cons]
      rw [insertBy_map k1 k2 f hk, ih]
  exact this []

theorem sortBy_perm (k : α → U64) (l : List α) : (sortBy k l).Perm l := ProofOps.perm_sortBy k l

theorem insertBy_perm (k : α → U64) (x : α) (l : List α) : (insertBy k x l).Perm (x :: l) :=
  ProofOps.perm_insertBy k x l

/-- the elements before the insertion point stay in front -/
theorem insertBy_append (k : α → U64) (x : α) : ∀ (l1 l2 : List α), (∀ y ∈ l1, ¬ k x < k y) →
    insertBy k x (l1 ++ l2) = l1 ++ insertBy k x l2 := by
  intro l1
  induction l1 with
  | nil => intro _ _; rfl
  | cons y ys ih =>
    intro l2 h
    simp only [List.cons_append, insertBy]
    rw [if_neg (h y (by simp)), ih l2 (fun z hz => h z (List.mem_cons_of_mem _ hz))]

/-- `insertBy` puts the element somewhere into the list -/
theorem insertBy_split (k : α → U64) (x : α) (l : List α) :
    ∃ pre post, l = pre ++ post ∧ insertBy k x l = pre ++ x :: post := by
  induction l with
  | nil => exact ⟨[], [], rfl, rfl⟩
  | cons y ys ih =>
    unfold insertBy
    split
    · exact ⟨[], y :: ys, rfl, rfl⟩
    · obtain ⟨pre, post, e1, e2⟩ := ih
      exact ⟨y :: pre, post, by rw [e1]; rfl, by rw [e2]; rfl⟩

/-- `insertBy` in terms of the index of the first greater element -/
theorem insertBy_eq_take_drop (k : α → U64) (x : α) : ∀ (l : List α) (r : Nat), r ≤ l.length →
    (∀ i y, i < r → l[i]? = some y → ¬ k x < k y) → (∀ y, l[r]? = some y → k x < k y) →
    insertBy k x l = l.take r ++ x :: l.drop r := by
  intro l
  induction l with
  | nil =>
    intro r hr _ _
    have : r = 0 := by simpa using hr
    subst this
    rfl
  | cons y ys ih =>
    intro r hr h1 h2
    cases r with
    | zero =>
      have := h2 y (by simp)
      simp [insertBy, this]
    | succ r =>
      have := h1 0 y (by omega) (by simp)
      simp only [insertBy, if_neg this, List.take_succ_cons, List.drop_succ_cons, List.cons_append]
      rw [ih r (by simpa using hr) (fun i z hi hz => h1 (i + 1) z (by omega) (by simpa using hz))
        (fun z hz => h2 z (by simpa using hz))]

theorem insertInOrder_eq_insertBy (k : α → U64) (x : α) (l : List α) :
    insertInOrder (l.map k) (k x) = (insertBy k x l).map k := by
  induction l with
  | nil => rfl
  | cons y ys ih =>
    simp only [List.map_cons, insertInOrder, insertBy]
    by_cases h : k x < k y
    · rw [if_pos h, if_pos h]; rfl
    · rw [if_neg h, if_neg h, List.map_cons, ih]

end sort

/-- `map (E rows)` is injective on lists of valid positions -/
theorem map_E_inj {rows : Nat} (hr : rows ≤ 63) : ∀ (l1 l2 : List Pos), (∀ p ∈ l1, Valid rows p) →
    (∀ p ∈ l2, Valid rows p) → l1.map (E rows) = l2.map (E rows) → l1 = l2 := by
  intro l1
  induction l1 with
  | nil =>
    intro l2 _ _ h
    cases l2 with
    | nil => rfl
    | cons _ _ => simp at h
  | cons p ps ih =>
    intro l2 h1 h2 h
    cases l2 with
    | nil => simp at h
    | cons q qs =>
      simp only [List.map_cons, List.cons.injEq] at h
      have e := E_inj hr (h1 p (by simp)) (h2 q (by simp)) h.1
      subst e
      rw [ih qs (fun x hx => h1 x (List.mem_cons_of_mem _ hx))
        (fun x hx => h2 x (List.mem_cons_of_mem _ hx)) h.2]

/-- **sorting the items by encoded position sorts the positions** -/
theorem sortBy_items_pos {rows : Nat} (hr : rows ≤ 63) (its : List (PItem H))
    (hv : ∀ p ∈ its.map (·.pos), Valid rows p) (hnd : (its.map (·.pos)).Nodup) :
    (sortBy (fun it : PItem H => E rows it.pos) its).map (·.pos) = Forest.sortDedup (its.map (·.pos)) := by
  apply map_E_inj hr
  · intro p hp
    obtain ⟨it, hit, rfl⟩ := List.mem_map.1 hp
    exact hv _ (List.mem_map_of_mem ((ProofOps.mem_sortBy _ it its).1 hit))
  · intro p hp
    exact hv p ((Sorted.mem_sortDedup p _).1 hp)
  · rw [← sortU64_map_E hr _ hv hnd, List.map_map, List.map_map]
    exact ProofOps.map_sortBy (fun it : PItem H => E rows it.pos) its

/-- the `nodeAndPos` list of the sorted items -/
theorem sortBy_np (rows : Nat) (its : List (PItem H)) :
    sortBy (fun x : NP => x.2) (its.map (PItem.np rows)) =
      (sortBy (fun it : PItem H => E rows it.pos) its).map (PItem.np rows) :=
  sortBy_map _ _ _ (fun _ => rfl) its

/-! ### 2. `sort.Search` and `insertSortNodeAndPos` -/

/-- Go's `sort.Search` on `[i, j)` for a monotone predicate: with `f` false below `i` and true at
`j` (if `j < n`), the result `r` has `f` false below `r` and true at `r` (if `r < n`), i.e. it is
the first true index; fuel `j - i + 1` suffices -/
theorem searchLoop_spec (f : Nat → Bool) (n : Nat)
    (mono : ∀ a b, a ≤ b → b < n → f a = true → f b = true) :
    ∀ (fuel i j : Nat), i ≤ j → j ≤ n → j - i < fuel →
    (∀ k, k < i → f k = false) → (j < n → f j = true) →
    searchLoop f fuel i j ≤ n ∧ (∀ k, k < searchLoop f fuel i j → f k = false) ∧
      (searchLoop f fuel i j < n → f (searchLoop f fuel i j) = true) := by
  intro fuel
  induction fuel with
  | zero => intro i j _ _ h; omega
  | succ fuel ih =>
    intro i j hij hjn hf h1 h2
    unfold searchLoop
    by_cases hlt : i < j
    · rw [if_pos hlt]
      simp only []
      have hh1 : i ≤ (i + j) / 2 := by omega
      have hh2 : (i + j) / 2 < j := by omega
      cases hfh : f ((i + j) / 2) with
      | false =>
        simp only [Bool.not_false, if_true]
        apply ih _ _ (by omega) hjn (by omega) _ h2
        intro k hk
        cases hfk : f k with
        | false => rfl
        | true =>
          have := mono k ((i + j) / 2) (by omega) (by omega) hfk
          rw [hfh] at this
          cases this
      | true =>
        simp only [Bool.not_true, Bool.false_eq_true, if_false]
        exact ih _ _ hh1 (by omega) (by omega) h1 (fun _ => hfh)
    · rw [if_neg hlt]
      have : i = j := by omega
      subst this
      exact ⟨hjn, h1, h2⟩

theorem insertSort_aux (nodes : List NP) (el : NP) (f : Nat → Bool)
    (fsome : ∀ i x, nodes[i]? = some x → f i = decide (el.2 < x.2))
    (hs : nodes.Pairwise (fun a b => a.2 ≤ b.2)) :
    nodes.take (searchLoop f (nodes.length + 1) 0 nodes.length) ++
        el :: nodes.drop (searchLoop f (nodes.length + 1) 0 nodes.length) =
      insertBy (fun x : NP => x.2) el nodes := by
  have mono : ∀ a b, a ≤ b → b < nodes.length → f a = true → f b = true := by
    intro a b hab hb ha
    have ha' : a < nodes.length := by omega
    rw [fsome a nodes[a] (List.getElem?_eq_getElem ha')] at ha
    rw [fsome b nodes[b] (List.getElem?_eq_getElem hb)]
    rcases Nat.lt_or_ge a b with h | h
    · have := List.pairwise_iff_getElem.1 hs a b ha' hb h
      simp only [decide_eq_true_eq] at ha ⊢
      bv_omega
    · have : a = b := by omega
      subst this; exact ha
  obtain ⟨h1, h2, h3⟩ := searchLoop_spec f nodes.length mono (nodes.length + 1) 0 nodes.length
    (by omega) (by omega) (by omega) (by intro k hk; omega) (by intro h; omega)
  symm
  apply insertBy_eq_take_drop _ _ _ _ h1
  · intro i y hi hy
    have := h2 i hi
    rw [fsome i y hy] at this
    simpa using this
  · intro y hy
    have hlt : searchLoop f (nodes.length + 1) 0 nodes.length < nodes.length := by
      rcases Nat.lt_or_ge (searchLoop f (nodes.length + 1) 0 nodes.length) nodes.length with h | h
      · exact h
      · rw [List.getElem?_eq_none h] at hy; cases hy
    have := h3 hlt
    rw [fsome _ y hy] at this
    simpa using this

/-- **`insertSortNodeAndPos` on a sorted slice is the sorted insertion** (before the first element
with a greater position) -/
theorem insertSortNodeAndPos_eq (nodes : List NP) (el : NP)
    (hs : nodes.Pairwise (fun a b => a.2 ≤ b.2)) :
    insertSortNodeAndPos nodes el = insertBy (fun x : NP => x.2) el nodes := by
  unfold insertSortNodeAndPos
  simp only []
  apply insertSort_aux _ _ _ _ hs
  intro i x h
  simp only [h]

/-- the statement in terms of `insertInOrder` and of a split of the slice -/
theorem insertSortNodeAndPos_spec (nodes : List NP) (el : NP)
    (hs : nodes.Pairwise (fun a b => a.2 < b.2)) :
    (insertSortNodeAndPos nodes el).map (·.2) = insertInOrder (nodes.map (·.2)) el.2 ∧
    ∃ pre post, nodes = pre ++ post ∧ insertSortNodeAndPos nodes el = pre ++ el :: post := by
  have hs' : nodes.Pairwise (fun a b => a.2 ≤ b.2) := hs.imp (fun h => by bv_omega)
  rw [insertSortNodeAndPos_eq nodes el hs']
  exact ⟨(insertInOrder_eq_insertBy (fun x : NP => x.2) el nodes).symm, insertBy_split _ _ _⟩

/-! ### 3. `undoDelsAlloc` -/

/-- the items `undoDelsAlloc` creates: one fresh leaf node per deleted hash -/
def allocItems (base : Nat) : List Pos → List H → List (PItem H)
  | q :: qs, h :: hs => ⟨base, q, .leaf h, [], [(h, base)]⟩ :: allocItems (base + 1) qs hs
  | _, _ => []

theorem allocItems_owned : ∀ (qs : List Pos) (hs : List H) (base : Nat),
    (∀ i ∈ pendOwned (allocItems base qs hs), base ≤ i) ∧ (pendOwned (allocItems base qs hs)).Nodup := by
  intro qs
  induction qs with
  | nil => intro hs base; simp [allocItems, pendOwned]
  | cons q qs ih =>
    intro hs base
    cases hs with
    | nil => simp [allocItems, pendOwned]
    | cons h hs =>
      obtain ⟨h1, h2⟩ := ih hs (base + 1)
      have e : pendOwned (allocItems base (q :: qs) (h :: hs)) =
          base :: pendOwned (allocItems (base + 1) qs hs) := by
        simp only [allocItems]; rw [pendOwned_cons]; rfl
      rw [e]
      simp only [List.mem_cons, List.nodup_cons]
      refine ⟨?_, ?_, h2⟩
      · rintro i (rfl | hi)
        · exact Nat.le_refl _
        · have := h1 i hi; omega
      · intro hb
        have := h1 _ hb
        omega

theorem allocItems_pos : ∀ (qs : List Pos) (hs : List H) (base : Nat), qs.length = hs.length →
    (allocItems base qs hs).map (·.pos) = qs := by
  intro qs
  induction qs with
  | nil => intro hs base _; simp [allocItems]
  | cons q qs ih =>
    intro hs base hl
    cases hs with
    | nil => simp at hl
    | cons h hs =>
      simp only [allocItems, List.map_cons]
      rw [ih hs (base + 1) (by simpa using hl)]

theorem allocItems_keys : ∀ (qs : List Pos) (hs : List H) (base : Nat), qs.length = hs.length →
    (pendLeaves (allocItems base qs hs)).map (·.1) = hs := by
  intro qs
  induction qs with
  | nil =>
    intro hs base hl
    cases hs with
    | nil => simp [allocItems, pendLeaves]
    | cons _ _ => simp at hl
  | cons q qs ih =>
    intro hs base hl
    cases hs with
    | nil => simp at hl
    | cons h hs =>
      simp only [allocItems, pendLeaves_cons, List.cons_append, List.nil_append, List.map_cons]
      rw [ih hs (base + 1) (by simpa using hl)]

/-- the shape of the items when the positions are computed from the hashes -/
theorem mem_allocItems_map (f : H → Pos) : ∀ (hs : List H) (base : Nat) (it : PItem H),
    it ∈ allocItems base (hs.map f) hs →
    ∃ h ∈ hs, ∃ i, base ≤ i ∧ it = ⟨i, f h, .leaf h, [], [(h, i)]⟩ := by
  intro hs
  induction hs with
  | nil => intro base it h; simp [allocItems] at h
  | cons h hs ih =>
    intro base it hit
    simp only [List.map_cons, allocItems, List.mem_cons] at hit
    rcases hit with rfl | hit
    · exact ⟨h, by simp, base, Nat.le_refl _, rfl⟩
    · obtain ⟨h', hh', i, hi, e⟩ := ih (base + 1) it hit
      exact ⟨h', List.mem_cons_of_mem _ hh', i, by omega, e⟩

/-- **`undoDelsAlloc`**: one fresh leaf node per hash, mapped in `NodeMap` -/
theorem undoDelsAlloc_spec (rows : Nat) (rs : List Nat) (nl ndl : U64) (full : Bool) :
    ∀ (qs : List Pos) (hs : List H) (hp : Heap H) (nm : List (H × Nat)),
      qs.length = hs.length → hs.Nodup → (∀ h ∈ hs, h ∉ nm.map (·.1)) → (nm.map (·.1)).Nodup →
      ∃ (hp1 : Heap H) (nm' : List (H × Nat)),
        undoDelsAlloc (qs.map (E rows)) hs ⟨hp, nm, rs, nl, ndl, full⟩ =
          (.ok ((allocItems hp.size qs hs).map (PItem.np rows)), ⟨hp1, nm', rs, nl, ndl, full⟩) ∧
        hp1.size = hp.size + hs.length ∧ (∀ j, j < hp.size → hp1[j]? = hp[j]?) ∧
        Pend hp1 (allocItems hp.size qs hs) ∧
        (nm'.map (·.1)).Nodup ∧
        (∀ e, e ∈ nm' ↔ e ∈ nm ∨ e ∈ pendLeaves (allocItems hp.size qs hs)) := by
  intro qs
  induction qs with
  | nil =>
    intro hs hp nm hl _ _ hk
    cases hs with
    | cons _ _ => simp at hl
    | nil =>
      refine ⟨hp, nm, rfl, rfl, fun _ _ => rfl, ?_, hk, ?_⟩
      · intro it hit; simp [allocItems] at hit
      · intro e; simp [allocItems, pendLeaves]
  | cons q qs ih =>
    intro hs hp nm hl hnd hfresh hk
    cases hs with
    | nil => simp at hl
    | cons h hs =>
      rw [List.nodup_cons] at hnd
      have hnew : h ∉ nm.map (·.1) := hfresh h (by simp)
      obtain ⟨hp1, nm', e, hsz, hfr, hpend, hk', hmem⟩ := ih hs
        (hp.push { data := h, remember := full }) ((h, hp.size) :: nm) (by simpa using hl) hnd.2
        (by
          intro h' hh' hc
          simp only [List.map_cons, List.mem_cons] at hc
          rcases hc with rfl | hc
          · exact hnd.1 hh'
          · exact hfresh h' (List.mem_cons_of_mem _ hh') hc)
        (by simp only [List.map_cons, List.nodup_cons]; exact ⟨hnew, hk⟩)
      rw [Array.size_push] at e hsz hpend hmem
      refine ⟨hp1, nm', ?_, ?_, ?_, ?_, hk', ?_⟩
      · simp only [List.map_cons, undoDelsAlloc, bind_apply, getFull_apply, alloc_apply,
          nodeMapSet, modifyS_apply, mapSet_new nm h hp.size hnew, e, pure_apply, allocItems]
        rfl
      · rw [hsz]; simp only [List.length_cons]; omega
      · intro j hj
        rw [hfr j (by rw [Array.size_push]; omega), Array.getElem?_push, if_neg (by omega)]
      · intro it hit
        simp only [allocItems, List.mem_cons] at hit
        rcases hit with rfl | hit
        · have e0 : hp1[hp.size]? = some { data := h, remember := full } := by
            rw [hfr hp.size (by rw [Array.size_push]; omega), Array.getElem?_push, if_pos rfl]
          exact ⟨⟨_, e0, rfl⟩, Sub.leaf e0 rfl e0 rfl rfl⟩
        · exact hpend it hit
      · intro e'
        rw [hmem]
        simp only [allocItems, pendLeaves_cons, List.mem_cons, List.mem_append, List.not_mem_nil,
          or_false]
        constructor
        · rintro ((h1 | h1) | h1)
          · exact Or.inr (Or.inl h1)
          · exact Or.inl h1
          · exact Or.inr (Or.inr h1)
        · rintro (h1 | h1 | h1)
          · exact Or.inl (Or.inr h1)
          · exact Or.inl (Or.inl h1)
          · exact Or.inr h1

/-- `undoDelsAlloc_spec` together with the facts about the owned nodes of the new items -/
theorem undoDelsAlloc_full (rows : Nat) (rs : List Nat) (nl ndl : U64) (full : Bool)
    (qs : List Pos) (hs : List H) (hp : Heap H) (nm : List (H × Nat))
    (hl : qs.length = hs.length) (hnd : hs.Nodup) (hfresh : ∀ h ∈ hs, h ∉ nm.map (·.1))
    (hk : (nm.map (·.1)).Nodup) :
    ∃ (hp1 : Heap H) (nm' : List (H × Nat)),
      undoDelsAlloc (qs.map (E rows)) hs ⟨hp, nm, rs, nl, ndl, full⟩ =
        (.ok ((allocItems hp.size qs hs).map (PItem.np rows)), ⟨hp1, nm', rs, nl, ndl, full⟩) ∧
      hp1.size = hp.size + hs.length ∧ (∀ j, j < hp.size → hp1[j]? = hp[j]?) ∧
      Pend hp1 (allocItems hp.size qs hs) ∧
      (pendOwned (allocItems hp.size qs hs)).Nodup ∧
      (∀ i ∈ pendOwned (allocItems hp.size qs hs), hp.size ≤ i) ∧
      (nm'.map (·.1)).Nodup ∧
      (∀ e, e ∈ nm' ↔ e ∈ nm ∨ e ∈ pendLeaves (allocItems hp.size qs hs)) := by
  obtain ⟨hp1, nm', h1, h2, h3, h4, h5, h6⟩ :=
    undoDelsAlloc_spec rows rs nl ndl full qs hs hp nm hl hnd hfresh hk
  obtain ⟨h7, h8⟩ := allocItems_owned qs hs hp.size
  exact ⟨hp1, nm', h1, h2, h3, h4, h8, h7, h5, h6⟩

/-- `insertSortNodeAndPos` on a concrete slice -/
example : insertSortNodeAndPos [(0, 1#64), (1, 5#64)] (2, 3#64) = [(0, 1#64), (2, 3#64), (1, 5#64)] := by
  decide +kernel

/-! ### 4. one merge step of `deTwinPolNode` -/

/-- the parent node `deTwinPolNode` allocates for two sibling nodes -/
def joinNode (ln rn : PolNode H) (L Rr : Nat) : PolNode H :=
  { data := ph ln.data rn.data, lNiece := some L, rNiece := some Rr, aunt := none, remember := false }

/-- the heap after one merge step of `deTwinPolNode` (left node `L`, right node `Rr`) -/
def joinHeap (hp : Heap H) (L Rr : Nat) (ln rn : PolNode H) : Heap H :=
  setAuntKids ((((swapped hp L Rr ln rn).push { data := ph ln.data rn.data }).modify hp.size
    (fun x => { x with lNiece := some L })).modify hp.size (fun x => { x with rNiece := some Rr })) hp.size

theorem size_joinHeap (hp : Heap H) (L Rr : Nat) (ln rn : PolNode H) :
    (joinHeap hp L Rr ln rn).size = hp.size + 1 := by
  unfold joinHeap; simp

theorem getElem?_joinPre (hp : Heap H) (L Rr : Nat) (ln rn : PolNode H) (j : Nat) :
    ((((swapped hp L Rr ln rn).push { data := ph ln.data rn.data }).modify hp.size
      (fun x => { x with lNiece := some L })).modify hp.size (fun x => { x with rNiece := some Rr }))[j]? =
      if j = hp.size then some (joinNode ln rn L Rr) else (swapped hp L Rr ln rn)[j]? := by
  rw [Array.getElem?_modify, Array.getElem?_modify, Array.getElem?_push, size_swapped]
  by_cases hj : j = hp.size
  · subst hj; simp [joinNode]
  · simp [hj, Ne.symm hj]

/-- the joined heap, node by node -/
theorem getElem?_joinHeap {hp : Heap H} {L Rr : Nat} {ln rn : PolNode H}
    (hne : L ≠ Rr) (hl : hp[L]? = some ln) (hr : hp[Rr]? = some rn)
    (kL : ∀ j, isKid ln j → j ≠ L ∧ j ≠ Rr ∧ ¬ isKid rn j)
    (kR : ∀ j, isKid rn j → j ≠ L ∧ j ≠ Rr) (j : Nat) :
    (joinHeap hp L Rr ln rn)[j]? =
      if j = hp.size then some (joinNode ln rn L Rr)
      else if j = L then
        some { ln with lNiece := rn.lNiece, rNiece := rn.rNiece, aunt := some hp.size }
      else if j = Rr then
        some { rn with lNiece := ln.lNiece, rNiece := ln.rNiece, aunt := some hp.size }
      else if isKid ln j then (hp[j]?).map (fun x => { x with aunt := some Rr })
      else if isKid rn j then (hp[j]?).map (fun x => { x with aunt := some L })
      else hp[j]? := by
  have hls := lt_of_get hl
  have hrs := lt_of_get hr
  have eC := getElem?_swapped hne hl hr kL kR
  have hE := getElem?_joinPre hp L Rr ln rn
  have kF : ∀ j, kidOf ((((swapped hp L Rr ln rn).push { data := ph ln.data rn.data }).modify hp.size
      (fun x => { x with lNiece := some L })).modify hp.size (fun x => { x with rNiece := some Rr }))
      hp.size j = decide (j = L ∨ j = Rr) := by
    intro j
    rw [kidOf_eq (x := joinNode ln rn L Rr) (by rw [hE]; simp)]
    simp [isKid, joinNode, eq_comm]
  unfold joinHeap
  rw [getElem?_setAuntKids, kF, hE]
  by_cases h0 : j = hp.size
  · subst h0
    have : ¬ (hp.size = L ∨ hp.size = Rr) := by omega
    simp [this]
  · simp only [h0, if_false]
    rw [eC]
    by_cases h1 : j = L
    · subst h1; simp
    · by_cases h2 : j = Rr
      · subst h2; simp [h1]
      · simp [h1, h2]

/-- **one merge step of `deTwinPolNode`, on the heap**: two disjoint detached trees become the two
children of the freshly allocated parent -/
theorem joinHeap_repr {hp : Heap H} {L Rr : Nat} {tL tR : CTree H} {fL fR : List Nat}
    {lL lR : List (H × Nat)} {ln rn : PolNode H}
    (hL : RootRepr hp L tL fL lL) (hR : RootRepr hp Rr tR fR lR)
    (hl : hp[L]? = some ln) (hr : hp[Rr]? = some rn)
    (ndp : (L :: Rr :: (fL ++ fR)).Nodup) :
    RootRepr (joinHeap hp L Rr ln rn) hp.size (.node tL tR) (L :: Rr :: (fL ++ fR)) (lL ++ lR) ∧
    (∀ i, i ≠ L → i ≠ Rr → i ∉ fL → i ∉ fR → i ≠ hp.size →
      (joinHeap hp L Rr ln rn)[i]? = hp[i]?) := by
  obtain ⟨⟨ln0, el0, al0⟩, sL⟩ := hL
  obtain ⟨⟨rn0, er0, ar0⟩, sR⟩ := hR
  rw [hl] at el0; cases el0
  rw [hr] at er0; cases er0
  obtain ⟨kL, kR⟩ := kid_facts sL sR hl hr ndp
  have ndp' := ndp
  simp only [List.nodup_cons, List.mem_cons, List.mem_append, not_or, List.nodup_append] at ndp
  obtain ⟨⟨hne, hLL, hLR⟩, ⟨hRL, hRR⟩, ndL, ndR, hdisj⟩ := ndp
  have eM := getElem?_joinHeap hne hl hr kL kR
  have hls := lt_of_get hl
  have hrs := lt_of_get hr
  have e_size : (joinHeap hp L Rr ln rn)[hp.size]? = some (joinNode ln rn L Rr) := by
    rw [eM]; simp
  have e_L : (joinHeap hp L Rr ln rn)[L]? =
      some { ln with lNiece := rn.lNiece, rNiece := rn.rNiece, aunt := some hp.size } := by
    rw [eM, if_neg (by omega), if_pos rfl]
  have e_R : (joinHeap hp L Rr ln rn)[Rr]? =
      some { rn with lNiece := ln.lNiece, rNiece := ln.rNiece, aunt := some hp.size } := by
    rw [eM, if_neg (by omega), if_neg (Ne.symm hne), if_pos rfl]
  -- the children of `L` now hang off `Rr`
  have sL' : Sub (joinHeap hp L Rr ln rn) L Rr tL fL lL := by
    apply sL.rehome ndL
    · intro x hx; rw [hl] at hx; cases hx; exact ⟨_, e_L, rfl⟩
    · intro x hx; rw [hl] at hx; cases hx; exact ⟨_, e_R, rfl, rfl⟩
    · intro x i old hx k hi
      rw [hl] at hx; cases hx
      have k' : isKid ln i := k
      obtain ⟨h1, h2, h3⟩ := kL i k'
      have := lt_of_get hi
      rw [eM, if_neg (by omega), if_neg h1, if_neg h2, if_pos k', hi]; rfl
    · intro x i hx hi k1 k2
      rw [hl] at hx; cases hx
      have k' : ¬ isKid ln i := by intro k; rcases k with k | k; exact k1 k; exact k2 k
      have h1 : i ≠ L := fun e => hLL (e ▸ hi)
      have h2 : i ≠ Rr := fun e => hRL (e ▸ hi)
      have h3 : ¬ isKid rn i := fun k => hdisj i hi i (sR.kid_mem hr k) rfl
      have := sL.fp_lt i hi
      rw [eM, if_neg (by omega), if_neg h1, if_neg h2, if_neg k', if_neg h3]
  have sR' : Sub (joinHeap hp L Rr ln rn) Rr L tR fR lR := by
    apply sR.rehome ndR
    · intro x hx; rw [hr] at hx; cases hx; exact ⟨_, e_R, rfl⟩
    · intro x hx; rw [hr] at hx; cases hx; exact ⟨_, e_L, rfl, rfl⟩
    · intro x i old hx k hi
      rw [hr] at hx; cases hx
      have k' : isKid rn i := k
      obtain ⟨h1, h2⟩ := kR i k'
      have h3 : ¬ isKid ln i := fun k => (kL i k).2.2 k'
      have := lt_of_get hi
      rw [eM, if_neg (by omega), if_neg h1, if_neg h2, if_neg h3, if_pos k', hi]; rfl
    · intro x i hx hi k1 k2
      rw [hr] at hx; cases hx
      have k' : ¬ isKid rn i := by intro k; rcases k with k | k; exact k1 k; exact k2 k
      have h1 : i ≠ L := fun e => hLR (e ▸ hi)
      have h2 : i ≠ Rr := fun e => hRR (e ▸ hi)
      have h3 : ¬ isKid ln i := fun k => hdisj i (sL.kid_mem hl k) i hi rfl
      have := sR.fp_lt i hi
      rw [eM, if_neg (by omega), if_neg h1, if_neg h2, if_neg h3, if_neg k']
  obtain ⟨ln1, el1, dl1⟩ := sL.hash
  obtain ⟨rn1, er1, dr1⟩ := sR.hash
  rw [hl] at el1; cases el1
  rw [hr] at er1; cases er1
  refine ⟨⟨⟨_, e_size, rfl⟩, ?_⟩, ?_⟩
  · exact Sub.node e_size (by simp [joinNode, dl1, dr1]) e_size rfl rfl e_L e_R rfl rfl sL' sR'
  · intro i h1 h2 h3 h4 h5
    have k1 : ¬ isKid ln i := fun k => h3 (sL.kid_mem hl k)
    have k2 : ¬ isKid rn i := fun k => h4 (sR.kid_mem hr k)
    rw [eM, if_neg h5, if_neg h1, if_neg h2, if_neg k1, if_neg k2]

theorem joinHeap_def (hp : Heap H) (L Rr : Nat) (ln rn : PolNode H) :
    joinHeap hp L Rr ln rn =
      setAuntKids ((((swapped hp L Rr ln rn).push { data := ph ln.data rn.data }).modify hp.size
        (fun x => { x with lNiece := some L })).modify hp.size
        (fun x => { x with rNiece := some Rr })) hp.size := rfl

attribute [irreducible] joinHeap

/-- **one merge step of `deTwinPolNode`, executed**: the loop body on two disjoint detached trees
is the heap transformation `joinHeap` -/
theorem deTwinPolNodeLoop_merge (rows : U8) (fuel i : Nat) (polNodes : List NP) (pn nx : NP)
    (hp : Heap H) (nm : List (H × Nat)) (rs : List Nat) (nl ndl : U64) (full : Bool)
    {tL tR : CTree H} {fL fR : List Nat} {lL lR : List (H × Nat)} {ln rn : PolNode H}
    (h1 : polNodes[i]? = some pn) (h2 : polNodes[i+1]? = some nx)
    (h3 : (rightSib pn.2 == nx.2) = true)
    (hL : RootRepr hp pn.1 tL fL lL) (hR : RootRepr hp nx.1 tR fR lR)
    (hl : hp[pn.1]? = some ln) (hr : hp[nx.1]? = some rn)
    (ndp : (pn.1 :: nx.1 :: (fL ++ fR)).Nodup) :
    deTwinPolNodeLoop rows (fuel + 1) i polNodes ⟨hp, nm, rs, nl, ndl, full⟩ =
      deTwinPolNodeLoop rows fuel i
        (insertSortNodeAndPos ((polNodes.eraseIdx i).eraseIdx i) (hp.size, Parent pn.2 rows))
        ⟨joinHeap hp pn.1 nx.1 ln rn, nm, rs, nl, ndl, full⟩ := by
  obtain ⟨L, pL⟩ := pn
  obtain ⟨Rr, pR⟩ := nx
  simp only [] at h3 hL hR hl hr ndp ⊢
  obtain ⟨⟨ln0, el0, al0⟩, sL⟩ := hL
  obtain ⟨⟨rn0, er0, ar0⟩, sR⟩ := hR
  rw [hl] at el0; cases el0
  rw [hr] at er0; cases er0
  obtain ⟨kL, kR⟩ := kid_facts sL sR hl hr ndp
  have ndp' := ndp
  simp only [List.nodup_cons, List.mem_cons, List.mem_append, not_or, List.nodup_append] at ndp
  obtain ⟨⟨hne, hLL, hLR⟩, ⟨hRL, hRR⟩, ndL, ndR, hdisj⟩ := ndp
  have hls := lt_of_get hl
  have hrs := lt_of_get hr
  have eA := getElem?_swapRaw hne hl hr
  have eC := getElem?_swapped hne hl hr kL kR
  -- the first `updateAunt` of `swapNieces`: `L` took over the nieces of `Rr`
  have u1 : Unsettled (swapRaw hp L Rr ln rn) L := by
    apply sR.unsettled ndR hLR (Ne.symm hne) (x := { ln with lNiece := rn.lNiece, rNiece := rn.rNiece })
    · rw [eA]; simp
    · intro x hx; rw [hr] at hx; cases hx; exact ⟨rfl, rfl⟩
    · intro i hi
      have h1 : i ≠ L := fun e => hLR (e ▸ hi)
      have h2 : i ≠ Rr := fun e => hRR (e ▸ hi)
      rw [eA, if_neg h1, if_neg h2]
  -- the second one: `Rr` took over the nieces of `L`
  have u2 : Unsettled (setAuntKids (swapRaw hp L Rr ln rn) L) Rr := by
    have kB : ∀ j, kidOf (swapRaw hp L Rr ln rn) L j = decide (isKid rn j) := by
      intro j
      rw [kidOf_eq (x := { ln with lNiece := rn.lNiece, rNiece := rn.rNiece }) (by rw [eA]; simp)]
      simp [isKid]
    apply sL.unsettled ndL hRL hne (x := { rn with lNiece := ln.lNiece, rNiece := ln.rNiece })
    · rw [getElem?_setAuntKids, kB, eA]
      have : ¬ isKid rn Rr := fun k => (kR Rr k).2 rfl
      simp [this, Ne.symm hne]
    · intro x hx; rw [hl] at hx; cases hx; exact ⟨rfl, rfl⟩
    · intro i hi
      have : ¬ isKid rn i := fun k => hdisj i hi i (sR.kid_mem hr k) rfl
      have h1 : i ≠ L := fun e => hLL (e ▸ hi)
      have h2 : i ≠ Rr := fun e => hRL (e ▸ hi)
      rw [getElem?_setAuntKids, kB, eA]
      simp [this, h1, h2]
  have eSwap := swapNieces_exec (⟨hp, nm, rs, nl, ndl, full⟩ : Pollard H) L Rr ln rn hl hr u1 u2
  have hCL : (swapped hp L Rr ln rn)[L]? =
      some { ln with lNiece := rn.lNiece, rNiece := rn.rNiece } := by rw [eC]; simp
  have hCR : (swapped hp L Rr ln rn)[Rr]? =
      some { rn with lNiece := ln.lNiece, rNiece := ln.rNiece } := by
    rw [eC, if_neg (Ne.symm hne)]; simp
  obtain ⟨hpE, hpE_def⟩ : ∃ hpE : Heap H, hpE =
      (((swapped hp L Rr ln rn).push { data := ph ln.data rn.data }).modify hp.size
        (fun x => { x with lNiece := some L })).modify hp.size
        (fun x => { x with rNiece := some Rr }) := ⟨_, rfl⟩
  have hE : ∀ j, hpE[j]? = if j = hp.size then some (joinNode ln rn L Rr)
      else (swapped hp L Rr ln rn)[j]? := by
    intro j; rw [hpE_def]; exact getElem?_joinPre hp L Rr ln rn j
  have u3 : Unsettled hpE hp.size := by
    refine ⟨joinNode ln rn L Rr, by rw [hE]; simp, Or.inr ⟨L, Rr, _, _, rfl, rfl,
      by rw [hE, if_neg (by omega), hCL], by rw [hE, if_neg (by omega), hCR], hne, by omega,
      by omega, ?_, ?_, ?_, ?_, ?_, ?_⟩⟩
    · simp [al0]
    · simp [ar0]
    · intro y hy
      have k : isKid rn y := Or.inl hy
      obtain ⟨h1, h2⟩ := kR y k
      obtain ⟨x, ex, ax⟩ := sR.kid_exists hr k
      have h3 : ¬ isKid ln y := fun k' => (kL y k').2.2 k
      have := lt_of_get ex
      exact ⟨h1, h2, _, by rw [hE, if_neg (by omega), eC, if_neg h1, if_neg h2, if_neg h3, if_pos k, ex]; rfl, rfl⟩
    · show rn.lNiece = none → rn.rNiece = none
      exact sR.both_or_none hr
    · intro y hy
      have k : isKid ln y := Or.inl hy
      obtain ⟨h1, h2, h3⟩ := kL y k
      obtain ⟨x, ex, ax⟩ := sL.kid_exists hl k
      have := lt_of_get ex
      exact ⟨h1, h2, _, by rw [hE, if_neg (by omega), eC, if_neg h1, if_neg h2, if_pos k, ex]; rfl, rfl⟩
    · show ln.lNiece = none → ln.rNiece = none
      exact sL.both_or_none hl
  have eUpd := updateAunt'_unsettled hp.size (⟨hpE, nm, rs, nl, ndl, full⟩ : Pollard H) u3
  have hF : setAuntKids hpE hp.size = joinHeap hp L Rr ln rn := by
    rw [hpE_def, joinHeap_def]
  -- run the loop body
  rw [deTwinPolNodeLoop]
  simp only [h1, h2, h3, if_true, bind_apply]
  rw [eSwap]
  simp only [node_apply, hCL, hCR, alloc_apply, setNode_apply, bind_apply, size_swapped]
  rw [← hpE_def, eUpd]
  simp only [hF]

theorem deTwinPolNodeLoop_skip {rows : U8} {fuel i : Nat} {polNodes : List NP} {pn nx : NP}
    (h1 : polNodes[i]? = some pn) (h2 : polNodes[i+1]? = some nx)
    (h3 : (rightSib pn.2 == nx.2) = false) :
    deTwinPolNodeLoop (H := H) rows (fuel + 1) i polNodes =
      deTwinPolNodeLoop rows fuel (i + 1) polNodes := by
  rw [deTwinPolNodeLoop]
  simp only [h1, h2, h3, Bool.false_eq_true, if_false]

theorem deTwinPolNodeLoop_last {rows : U8} {fuel i : Nat} {polNodes : List NP} {pn : NP}
    (h1 : polNodes[i]? = some pn) (h2 : polNodes[i+1]? = none) :
    deTwinPolNodeLoop (H := H) rows (fuel + 1) i polNodes =
      deTwinPolNodeLoop rows fuel (i + 1) polNodes := by
  rw [deTwinPolNodeLoop]
  simp only [h1, h2]

theorem deTwinPolNodeLoop_end {rows : U8} {fuel i : Nat} {polNodes : List NP}
    (h1 : polNodes[i]? = none) (s : Pollard H) :
    deTwinPolNodeLoop (H := H) rows (fuel + 1) i polNodes s = (.ok polNodes, s) := by
  rw [deTwinPolNodeLoop]
  simp only [h1]
  rfl

end UtreexoVerif.Proofs.PollardHeap
