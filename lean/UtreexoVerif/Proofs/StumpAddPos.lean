/-
  The update data of `Stump.add` (positions of the created nodes, property C11): the model's
  association list after the additions holds exactly the pairs of `Spec.NewAddSpec`.

  The bit-level facts about utils.go that are used (`isAncestor`, `calcNextPosition`,
  `rootPosition` in (row, offset) terms) are collected in `PosFacts`; `Parent` and `leftSib`
  come from Props/C16.
-/
import UtreexoVerif.Proofs.StumpAdd
import UtreexoVerif.Proofs.NewAddSpec
import UtreexoVerif.Props.C16
set_option linter.unusedSectionVars false

namespace UtreexoVerif.Proofs.StumpAddPos
open UtreexoVerif Model Hasher Spec Proofs Proofs.FinalPos Proofs.StumpAdd

variable {H : Type} [DecidableEq H] [Hasher H]

/-! ### the association list standing for Go's `map[Hash]uint64` -/

theorem mem_mapPut {m : List (H × U64)} {k : H} {v : U64}
    (hc : ∀ v', (k, v') ∈ m → v' = v) (e : H × U64) :
    e ∈ mapPut m k v ↔ e ∈ m ∨ e = (k, v) := by
  unfold mapPut
  split
  · rename_i hany
    rw [List.any_eq_true] at hany
    obtain ⟨e0, he0, hk⟩ := hany
    have hk' : e0.1 = k := by simpa using hk
    have hkv : (k, v) ∈ m := by
      have : e0 = (k, e0.2) := by rw [← hk']
      have h2 := hc e0.2 (by rw [← this]; exact he0)
      rw [← h2, ← this]; exact he0
    have hid : m.map (fun e => if e.1 = k then (k, v) else e) = m := by
      conv => rhs; rw [← List.map_id m]
      apply List.map_congr_left
      intro a ha
      split
      · rename_i hak
        have : a = (k, a.2) := by rw [← hak]
        have h2 := hc a.2 (by rw [← this]; exact ha)
        rw [← h2, ← this]; rfl
      · rfl
    rw [hid]
    constructor
    · exact Or.inl
    · rintro (h | h)
      · exact h
      · rw [h]; exact hkv
  · simp

theorem keys_mapPut_nodup {m : List (H × U64)} {k : H} {v : U64}
    (hn : (m.map (·.1)).Nodup) : ((mapPut m k v).map (·.1)).Nodup := by
  unfold mapPut
  split
  · have : (m.map (fun e => if e.1 = k then (k, v) else e)).map (·.1) = m.map (·.1) := by
      rw [List.map_map]
      apply List.map_congr_left
      intro a _
      simp only [Function.comp]
      split
      · rename_i h; exact h.symm
      · rfl
    rw [this]; exact hn
  · rename_i hany
    rw [List.map_append, List.nodup_append]
    refine ⟨hn, by simp, ?_⟩
    intro a ha b hb hab
    simp only [List.map_cons, List.map_nil, List.mem_singleton] at hb
    subst hb; subst hab
    apply hany
    rw [List.any_eq_true]
    obtain ⟨e, he, hk⟩ := List.mem_map.mp ha
    exact ⟨e, he, by simpa using hk⟩

/-! ### the merge loop with its map updates made explicit -/

/-- the map after the merge loop of one addition; `rl` = the popped roots, lowest row first -/
def innerUpd (ar : U8) : List H → H → U64 → List (H × U64) → List (H × U64)
  | [], _, _, upd => upd
  | r :: rest, nr, pos, upd =>
    if r ≠ zero then
      innerUpd ar rest (ph r nr) (Parent pos ar) (mapPut (mapPut upd r (leftSib pos)) nr pos)
    else innerUpd ar rest nr pos upd

theorem addInner_exact (ar : U8) {n t : Nat} (hn : n < 2 ^ 64) (ht : t ≤ 64)
    (hlow : ∀ j < t, n.testBit j = true) (hat : n.testBit t = false) (pre : List H) :
    ∀ (rl : List H) (j fuel : Nat) (nr : H) (pos : U64) (upd : List (H × U64)),
      j + rl.length = t → rl.length < fuel →
      addInner ar (BitVec.ofNat 64 n) fuel (BitVec.ofNat 8 j) (pre ++ rl.reverse) nr pos upd =
        .ok (pre, rl.foldl (fun acc r => if r ≠ zero then ph r acc else acc) nr,
          innerUpd ar rl nr pos upd) := by
  intro rl
  induction rl with
  | nil =>
    intro j fuel nr pos upd hj hf
    obtain ⟨f, rfl⟩ : ∃ f, fuel = f + 1 := ⟨fuel - 1, by omega⟩
    have : j = t := by simpa using hj
    subst this
    unfold addInner
    rw [toNat_h8 ht, bit_test hn, hat]
    simp [innerUpd]
  | cons r rest ih =>
    intro j fuel nr pos upd hj hf
    obtain ⟨f, rfl⟩ : ∃ f, fuel = f + 1 := ⟨fuel - 1, by omega⟩
    simp only [List.length_cons] at hj hf
    unfold addInner
    rw [toNat_h8 (by omega), bit_test hn, hlow j (by omega)]
    simp only [if_true, List.reverse_cons, ← List.append_assoc, popLast_concat, ok_bind,
      List.foldl_cons]
    rw [h8_succ]
    by_cases hr : r = zero
    · simp only [hr, ne_eq, not_true_eq_false, if_false, innerUpd]
      exact ih (j + 1) f nr pos upd (by omega) (by omega)
    · simp only [ne_eq, hr, not_false_eq_true, if_true, innerUpd]
      exact ih (j + 1) f _ _ _ (by omega) (by omega)

/-! ### the bit-level interface -/

/-- what the position part needs to know about `isAncestor`, `calcNextPosition` and
`rootPosition` of utils.go, in (row, offset) terms (discharged in Props/C11.lean from the C16
theorems) -/
structure PosFacts : Prop where
  isAncestor : ∀ {h r o r' o' : Nat}, h ≤ 63 → r ≤ h → o < 2 ^ (h - r) → r' ≤ h → o' < 2 ^ (h - r') →
    Model.isAncestor (encU h r' o') (encU h r o) (H8 h) = decide (r < r' ∧ o / 2 ^ (r' - r) = o')
  calcNext : ∀ {h r o r' o' : Nat}, h ≤ 63 → r ≤ r' → r' < h → o < 2 ^ (h - r) → o' < 2 ^ (h - r') →
    Model.calcNextPosition (encU h r o) (encU h r' o') (H8 h) =
      (encU h (r + 1) (removeBitNat o (r' - r)), false)
  rootPosition : ∀ {h row : Nat}, h ≤ 63 → row ≤ h → ∀ n : U64, n.toNat < 2 ^ (h + 1) →
    Model.rootPosition n (H8 row) (H8 h) = encU h row (2 * (n.toNat / 2 ^ (row + 1)))

/-- the levels (counted from `j`) at which the flag is set -/
def levelsFrom : Nat → List Bool → List Nat
  | _, [] => []
  | j, z :: rest => (if z then [j] else []) ++ levelsFrom (j + 1) rest

theorem levelsFrom_asc : ∀ (zs : List Bool) (j : Nat), AscFrom j (levelsFrom j zs) := by
  intro zs
  induction zs with
  | nil => intro j; trivial
  | cons z rest ih =>
    intro j
    simp only [levelsFrom]
    cases z
    · exact (ih (j + 1)).mono (by omega)
    · exact ⟨Nat.le_refl _, ih (j + 1)⟩

theorem mem_levelsFrom : ∀ (zs : List Bool) (j h : Nat),
    h ∈ levelsFrom j zs ↔ j ≤ h ∧ zs[h - j]? = some true := by
  intro zs
  induction zs with
  | nil => intro j h; simp [levelsFrom]
  | cons z rest ih =>
    intro j h
    simp only [levelsFrom, List.mem_append, ih]
    by_cases hj : h = j
    · subst hj
      cases z <;> simp
      omega
    · constructor
      · rintro (h1 | ⟨h1, h2⟩)
        · cases z <;> simp at h1
          exact absurd h1 hj
        · refine ⟨by omega, ?_⟩
          rw [show h - j = (h - (j + 1)) + 1 by omega, List.getElem?_cons_succ]
          exact h2
      · rintro ⟨h1, h2⟩
        right
        refine ⟨by omega, ?_⟩
        rw [show h - j = (h - (j + 1)) + 1 by omega, List.getElem?_cons_succ] at h2
        exact h2

/-! ### the value of `rootsToDestory` -/

/-- what the inner loop of `rootsToDestory` appends: the root positions of the zero roots -/
def innerDel (n : Nat) (ra : U8) : Nat → List H → List U64
  | _, [] => []
  | j, r :: rest =>
    (if r = zero then [rootPosition (BitVec.ofNat 64 n) (BitVec.ofNat 8 j) ra] else []) ++
      innerDel n ra (j + 1) rest

theorem innerDel_eq (n : Nat) (ra : U8) : ∀ (rl : List H) (j : Nat),
    innerDel n ra j rl = (levelsFrom j (rl.map (fun r => decide (r = zero)))).map
      (fun l => rootPosition (BitVec.ofNat 64 n) (BitVec.ofNat 8 l) ra) := by
  intro rl
  induction rl with
  | nil => intro j; rfl
  | cons r rest ih =>
    intro j
    simp only [innerDel, List.map_cons, levelsFrom, List.map_append, ih]
    by_cases hr : r = zero <;> simp [hr]

theorem rtdInner_exact (ra : U8) {n t : Nat} (hn : n < 2 ^ 64) (ht : t ≤ 64)
    (hlow : ∀ j < t, n.testBit j = true) (hat : n.testBit t = false) (pre : List H) :
    ∀ (rl : List H) (j fuel : Nat) (deleted : List U64),
      j + rl.length = t → rl.length < fuel →
      rtdInner (BitVec.ofNat 64 n) ra fuel (BitVec.ofNat 8 j) (pre ++ rl.reverse) deleted =
        .ok (pre, deleted ++ innerDel n ra j rl) := by
  intro rl
  induction rl with
  | nil =>
    intro j fuel deleted hj hf
    obtain ⟨f, rfl⟩ : ∃ f, fuel = f + 1 := ⟨fuel - 1, by omega⟩
    have : j = t := by simpa using hj
    subst this
    unfold rtdInner
    rw [toNat_h8 ht, bit_test hn, hat]
    simp [innerDel]
  | cons r rest ih =>
    intro j fuel deleted hj hf
    obtain ⟨f, rfl⟩ : ∃ f, fuel = f + 1 := ⟨fuel - 1, by omega⟩
    simp only [List.length_cons] at hj hf
    unfold rtdInner
    rw [toNat_h8 (by omega), bit_test hn, hlow j (by omega)]
    simp only [if_true, List.reverse_cons, ← List.append_assoc, popLast_concat, ok_bind]
    rw [h8_succ, ih (j + 1) f _ (by omega) (by omega)]
    simp only [innerDel]
    by_cases hr : r = zero <;> simp [hr]

/-! #### arithmetic of one step `n ↦ n + 1` -/

theorem treeRows_ones : ∀ t, t ≤ 65 → treeRows (2 ^ t - 1) = (List.range t).reverse := by
  intro t
  induction t with
  | zero => intro _; simp [treeRows, treeRowsFrom_zero]
  | succ t ih =>
    intro ht
    have hpos := Nat.two_pow_pos t
    have e : 2 ^ (t + 1) - 1 = 2 ^ t * 1 + (2 ^ t - 1) := by rw [Nat.pow_succ]; omega
    rw [e, treeRows_add (by omega), ih (by omega), Nat.mul_one]
    unfold treeRows
    rw [treeRowsFrom_two_pow, if_pos (by omega), List.range_succ, List.reverse_append]
    rfl

theorem mod_of_low_ones {n k : Nat} (h : ∀ j < k, n.testBit j = true) : n % 2 ^ k = 2 ^ k - 1 := by
  apply Nat.eq_of_testBit_eq
  intro i
  rw [Nat.testBit_mod_two_pow, Nat.testBit_two_pow_sub_one]
  by_cases hi : i < k
  · simp [hi, h i hi]
  · simp [hi]

/-- a row below the trailing ones is merged by the very next addition -/
theorem popped_low {n h : Nat} (hl : ∀ j < h + 1, n.testBit j = true) :
    (n / 2 ^ (h + 1) + 1) * 2 ^ (h + 1) = n + 1 := by
  have h1 := mod_of_low_ones hl
  have h2 := Nat.div_add_mod n (2 ^ (h + 1))
  have hpos := Nat.two_pow_pos (h + 1)
  rw [Nat.add_mul, Nat.one_mul, Nat.mul_comm]
  omega

theorem succ_trailing {t c : Nat} :
    2 ^ (t + 1) * c + (2 ^ t - 1) + 1 = 2 ^ (t + 1) * c + 2 ^ t := by
  have := Nat.two_pow_pos t; omega

theorem two_pow_lt_succ (t : Nat) : 2 ^ t < 2 ^ (t + 1) := by
  rw [Nat.pow_succ]; have := Nat.two_pow_pos t; omega

theorem div_succ_high {t c h : Nat} (hh : t < h) :
    (2 ^ (t + 1) * c + (2 ^ t - 1) + 1) / 2 ^ (h + 1) = (2 ^ (t + 1) * c + (2 ^ t - 1)) / 2 ^ (h + 1) := by
  have e : 2 ^ (h + 1) = 2 ^ (t + 1) * 2 ^ (h - t) := by rw [← Nat.pow_add]; congr 1; omega
  rw [succ_trailing, e, ← Nat.div_div_eq_div_mul, ← Nat.div_div_eq_div_mul,
    Nat.mul_add_div (Nat.two_pow_pos _), Nat.mul_add_div (Nat.two_pow_pos _),
    Nat.div_eq_of_lt (two_pow_lt_succ t), Nat.div_eq_of_lt (ones_lt t)]

theorem testBit_succ_high {t c h : Nat} (hh : t < h) :
    (2 ^ (t + 1) * c + (2 ^ t - 1) + 1).testBit h = (2 ^ (t + 1) * c + (2 ^ t - 1)).testBit h := by
  rw [succ_trailing, testBit_add_high (two_pow_lt_succ t) (by omega),
    testBit_add_high (ones_lt t) (by omega)]

theorem testBit_succ_low {t c h : Nat} (hh : h < t) :
    (2 ^ (t + 1) * c + (2 ^ t - 1) + 1).testBit h = false := by
  rw [succ_trailing, testBit_add_low (two_pow_lt_succ t) (by omega), Nat.testBit_two_pow]
  simp; omega

theorem trailing_le_rows {t c R : Nat} (h : 2 ^ (t + 1) * c + (2 ^ t - 1) < 2 ^ R) : t ≤ R := by
  apply Classical.byContradiction
  intro hc
  have : 2 ^ (R + 1) ≤ 2 ^ t := Nat.pow_le_pow_right (by decide) (by omega)
  have : 2 ^ (R + 1) = 2 * 2 ^ R := by rw [Nat.pow_succ]; omega
  have := Nat.two_pow_pos R
  omega

theorem rows_high_gt {t c h : Nat} (hh : h ∈ treeRows (2 ^ (t + 1) * c)) : t < h := by
  rw [mem_treeRows, Nat.testBit_two_pow_mul] at hh
  have := hh.2
  simp at this
  omega

theorem u64_step (x na i : U64) : x + 1 + (na - (i + 1)) = x + (na - i) := by
  bv_omega

theorem rtdOuter_exact (pf : PosFacts) {R : Nat} (hR : R ≤ 63) (nonZero : H)
    (hnz : nonZero ≠ (zero : H)) (na : U64) :
    ∀ (k : Nat) (i : U64) (n : Nat) (dead : Nat → Bool) (roots : List H) (deleted : List U64),
      n + k ≤ 2 ^ R → roots.map (fun r => decide (r = zero)) = (treeRows n).map dead →
      TreeRows (BitVec.ofNat 64 n + (na - i)) = H8 R →
      ∃ L, rtdOuter nonZero na k i (BitVec.ofNat 64 n) roots deleted =
          .ok (deleted ++ L.map (fun h => encU R h (2 * (n / 2 ^ (h + 1))))) ∧
        AscFrom 0 L ∧
        ∀ h, h ∈ L ↔ (n.testBit h = true ∧ dead h = true ∧ (n / 2 ^ (h + 1) + 1) * 2 ^ (h + 1) ≤ n + k) := by
  intro k
  induction k with
  | zero =>
    intro i n dead roots deleted _ _ _
    refine ⟨[], by simp [rtdOuter], trivial, ?_⟩
    intro h
    simp only [List.not_mem_nil, false_iff, Nat.add_zero]
    rintro ⟨_, _, h3⟩
    have := lt_succ_div_mul n (2 ^ (h + 1)) (Nat.two_pow_pos _)
    omega
  | succ k ih =>
    intro i n dead roots deleted hk hzp hTR
    have h2R : 2 ^ R ≤ 2 ^ 63 := Nat.pow_le_pow_right (by decide) hR
    have hn : n < 2 ^ 64 := by omega
    obtain ⟨t, c, hdec⟩ := exists_trailing_ones n
    have ht := trailing_lt hdec hn
    subst hdec
    have htR : t ≤ R := trailing_le_rows (t := t) (c := c) (by omega)
    have hlen : roots.length = (treeRows (2 ^ (t + 1) * c + (2 ^ t - 1))).length := by
      have := congrArg List.length hzp
      simpa using this
    obtain ⟨pre, rl, rfl, hrl, hpre⟩ := split_roots ht roots hlen
    -- the zero pattern of the two parts
    rw [treeRows_add (ones_lt t), treeRows_ones t (by omega), List.map_append, List.map_append] at hzp
    obtain ⟨hz1, hz2⟩ := List.append_inj hzp (by simp [hpre])
    have hz2' : rl.map (fun r => decide (r = zero)) = (List.range t).map dead := by
      have := congrArg List.reverse hz2
      simpa [List.map_reverse] using this
    -- the inner loop
    have hin := rtdInner_exact (H := H) (H8 R) hn ht (fun j hj => testBit_trailing_low hj)
      testBit_trailing_at pre rl 0 65 deleted (by omega) (by omega)
    unfold rtdOuter
    rw [hTR, show (0#8) = BitVec.ofNat 8 0 from rfl, hin]
    simp only [ok_bind]
    rw [innerDel_eq, hz2', u64_succ]
    -- positions of the destroyed roots
    have hpos : (levelsFrom 0 ((List.range t).map dead)).map
          (fun l => rootPosition (BitVec.ofNat 64 (2 ^ (t + 1) * c + (2 ^ t - 1))) (BitVec.ofNat 8 l) (H8 R)) =
        (levelsFrom 0 ((List.range t).map dead)).map
          (fun h => encU R h (2 * ((2 ^ (t + 1) * c + (2 ^ t - 1)) / 2 ^ (h + 1)))) := by
      apply List.map_congr_left
      intro l hl
      rw [mem_levelsFrom] at hl
      have hlt : l < t := by
        have := hl.2
        rw [Nat.sub_zero] at this
        have h3 := (List.getElem?_eq_some_iff.mp this).1
        simpa using h3
      have := pf.rootPosition hR (show l ≤ R by omega) (BitVec.ofNat 64 (2 ^ (t + 1) * c + (2 ^ t - 1)))
        (by rw [toNat_ofNat64_of_lt hn]
            exact Nat.lt_of_lt_of_le (by omega) (Nat.pow_le_pow_right (by decide) (Nat.le_succ R)))
      rw [toNat_ofNat64_of_lt hn] at this
      exact this
    rw [hpos]
    -- the remaining additions
    obtain ⟨L', hL1, hL2, hL3⟩ := ih (i + 1) (2 ^ (t + 1) * c + (2 ^ t - 1) + 1)
      (fun h => if h = t then false else dead h) (pre ++ [nonZero])
      (deleted ++ (levelsFrom 0 ((List.range t).map dead)).map
          (fun h => encU R h (2 * ((2 ^ (t + 1) * c + (2 ^ t - 1)) / 2 ^ (h + 1)))))
      (by omega)
      (by
        rw [succ_trailing, treeRows_add (two_pow_lt_succ t)]
        unfold treeRows
        rw [treeRowsFrom_two_pow, if_pos ht]
        simp only [List.map_append, List.map_cons, List.map_nil, if_true, hnz, decide_false]
        congr 1
        rw [hz1]
        apply List.map_congr_left
        intro h hh
        have := rows_high_gt hh
        rw [if_neg (by omega)])
      (by rw [← u64_succ, u64_step]; exact hTR)
    refine ⟨levelsFrom 0 ((List.range t).map dead) ++ L', ?_, ?_, ?_⟩
    · rw [hL1, List.append_assoc, List.map_append]
      congr 3
      apply List.map_congr_left
      intro h hh
      have hgt : t < h := by
        have h1 := (hL3 h).mp hh
        apply Classical.byContradiction
        intro hc
        by_cases he : h = t
        · simp [he] at h1
        · rw [testBit_succ_low (by omega)] at h1
          exact absurd h1.1 (by simp)
      rw [div_succ_high hgt]
    · -- ascending
      have hL'ge : ∀ h ∈ L', t + 1 ≤ h := by
        intro h hh
        have h1 := (hL3 h).mp hh
        apply Classical.byContradiction
        intro hc
        by_cases he : h = t
        · simp [he] at h1
        · rw [testBit_succ_low (by omega)] at h1
          exact absurd h1.1 (by simp)
      apply AscFrom.append (levelsFrom_asc _ 0) (b := t + 1) _ (hL2.of_ge hL'ge) (by omega)
      intro x hx
      rw [mem_levelsFrom] at hx
      have := hx.2
      rw [Nat.sub_zero] at this
      have h3 := (List.getElem?_eq_some_iff.mp this).1
      simp at h3
      omega
    · -- membership
      intro h
      rw [List.mem_append, hL3, mem_levelsFrom]
      by_cases hlt : h < t
      · have hb := testBit_trailing_low (t := t) (c := c) hlt
        have hpop := popped_low (n := 2 ^ (t + 1) * c + (2 ^ t - 1)) (h := h)
          (fun j hj => testBit_trailing_low (by omega))
        rw [testBit_succ_low hlt, hb, hpop]
        simp only [Nat.zero_le, Nat.sub_zero, true_and, Bool.false_eq_true, false_and, or_false]
        rw [List.getElem?_map, List.getElem?_range hlt]
        simp
      · by_cases he : h = t
        · subst he
          rw [testBit_trailing_at]
          simp
        · have hgt : t < h := by omega
          rw [testBit_succ_high hgt, div_succ_high hgt, if_neg he]
          have : ¬ (((List.range t).map dead)[h - 0]? = some true) := by
            intro h1
            have := (List.getElem?_eq_some_iff.mp h1).1
            simp at this
            omega
          simp only [this, and_false, false_or]
          have e : 2 ^ (t + 1) * c + (2 ^ t - 1) + 1 + k = 2 ^ (t + 1) * c + (2 ^ t - 1) + (k + 1) := by
            omega
          rw [e]

theorem rootsToDestroy_exact (pf : PosFacts) {R : Nat} (hR : R ≤ 63) (nonZero : H)
    (hnz : nonZero ≠ (zero : H)) (k n : Nat) (dead : Nat → Bool) (roots : List H)
    (hk : n + k ≤ 2 ^ R) (hzp : roots.map (fun r => decide (r = zero)) = (treeRows n).map dead)
    (hTR : TreeRows (BitVec.ofNat 64 n + BitVec.ofNat 64 k) = H8 R) :
    ∃ L, rootsToDestroy nonZero k (BitVec.ofNat 64 n) roots =
        .ok (L.map (fun h => encU R h (2 * (n / 2 ^ (h + 1))))) ∧
      AscFrom 0 L ∧
      ∀ h, h ∈ L ↔ (n.testBit h = true ∧ dead h = true ∧ (n / 2 ^ (h + 1) + 1) * 2 ^ (h + 1) ≤ n + k) := by
  unfold rootsToDestroy
  split
  · obtain ⟨L, h1, h2, h3⟩ := rtdOuter_exact pf hR nonZero hnz (BitVec.ofNat 64 k) k 0#64 n dead roots []
      hk hzp (by rw [BitVec.sub_zero]; exact hTR)
    exact ⟨L, by simpa using h1, h2, h3⟩
  · rename_i hany
    refine ⟨[], rfl, trivial, ?_⟩
    intro h
    simp only [List.not_mem_nil, false_iff]
    rintro ⟨h1, h2, _⟩
    apply hany
    have h2R : 2 ^ R ≤ 2 ^ 63 := Nat.pow_le_pow_right (by decide) hR
    have hh : h ≤ 64 := by
      apply Classical.byContradiction
      intro hc
      have : n < 2 ^ h := Nat.lt_of_lt_of_le (show n < 2 ^ 64 by omega)
        (Nat.pow_le_pow_right (by decide) (by omega))
      rw [Nat.testBit_lt_two_pow this] at h1
      cases h1
    have hm : h ∈ treeRows n := mem_treeRows.mpr ⟨hh, h1⟩
    have : true ∈ (treeRows n).map dead := List.mem_map.mpr ⟨h, hm, h2⟩
    rw [← hzp] at this
    obtain ⟨r, hr, hz⟩ := List.mem_map.mp this
    rw [List.any_eq_true]
    exact ⟨r, hr, hz⟩

/-! ### the position of the new leaf: folding over the destroyed roots -/

theorem fold_lift (pf : PosFacts) {R n : Nat} (hR : R ≤ 63) : ∀ (hs : List Nat) (r c : Nat),
    AscFrom r hs → (∀ h ∈ hs, h < R) → c < 2 ^ (R - r) →
    (∀ h ∈ hs, c / 2 ^ (h + 1 - r) = n / 2 ^ (h + 1)) → (∀ h ∈ hs, n / 2 ^ (h + 1) < 2 ^ (R - (h + 1))) →
    (hs.map (fun h => encU R h (2 * (n / 2 ^ (h + 1))))).foldl
        (fun pos del => if isAncestor (Parent del (H8 R)) pos (H8 R) then
          (calcNextPosition pos del (H8 R)).1 else pos) (encU R r c) =
      encU R (liftFold 0 (r, c) hs).1 (liftFold 0 (r, c) hs).2 := by
  intro hs
  induction hs with
  | nil => intro r c _ _ _ _ _; rfl
  | cons h rest ih =>
    intro r c hasc hlt hc hanc hrng
    have hrh : r ≤ h := hasc.1
    have hhR : h < R := hlt h List.mem_cons_self
    have hd : 2 * (n / 2 ^ (h + 1)) < 2 ^ (R - h) := by
      have := hrng h List.mem_cons_self
      have e : 2 ^ (R - h) = 2 * 2 ^ (R - (h + 1)) := by
        rw [show R - h = (R - (h + 1)) + 1 by omega, Nat.pow_succ]; omega
      rw [e]
      omega
    have hpar : Parent (encU R h (2 * (n / 2 ^ (h + 1)))) (H8 R) = encU R (h + 1) (n / 2 ^ (h + 1)) := by
      rw [Props.C16.parent_enc hR hhR hd]
      congr 1; omega
    have hanc' := hanc h List.mem_cons_self
    have hisA : isAncestor (encU R (h + 1) (n / 2 ^ (h + 1))) (encU R r c) (H8 R) = true := by
      rw [pf.isAncestor hR (by omega) hc (by omega) (hrng h List.mem_cons_self)]
      simp only [decide_eq_true_eq]
      exact ⟨by omega, hanc'⟩
    have hcalc := pf.calcNext (h := R) (r := r) (o := c) (r' := h) (o' := 2 * (n / 2 ^ (h + 1)))
      hR hrh hhR hc hd
    simp only [List.map_cons, List.foldl_cons, hpar, hisA, if_true, hcalc]
    have hc' : removeBitNat c (h - r) < 2 ^ (R - (r + 1)) :=
      removeBitNat_lt (by omega) (by rw [show R - (r + 1) + 1 = R - r by omega]; exact hc)
    have := ih (r + 1) (removeBitNat c (h - r)) (hasc.2.mono (by omega))
      (fun x hx => hlt x (List.mem_cons_of_mem _ hx)) hc'
      (by
        intro x hx
        have hxh : h + 1 ≤ x := hasc.2.ge x hx
        rw [show x + 1 - (r + 1) = x - r by omega, removeBitNat_div (by omega),
          show x - r + 1 = x + 1 - r by omega]
        exact hanc x (List.mem_cons_of_mem _ hx))
      (fun x hx => hrng x (List.mem_cons_of_mem _ hx))
    rw [this]
    simp only [liftFold, List.foldl_cons, liftStep, Nat.sub_zero]

/-! ### the destroyed roots are the dead siblings on the way up -/

theorem chunk_take (S : List (Option H)) (n l b : Nat) (hn : n ≤ S.length) (h : (b + 1) * 2 ^ l ≤ n) :
    chunk (S.take n) l b = chunk S l b := by
  have := chunk_append_left (S.take n) (S.drop n) l b (by rw [List.length_take]; omega)
  rw [List.take_append_drop] at this
  exact this.symm

theorem root_chunk_le {n h : Nat} (hb : n.testBit h = true) : (2 * (n / 2 ^ (h + 1)) + 1) * 2 ^ h ≤ n := by
  have := treeStart_add_le hb
  rw [treeStart_eq] at this
  have e : 2 ^ (h + 1) = 2 * 2 ^ h := by rw [Nat.pow_succ]; omega
  rw [e] at this
  rw [Nat.add_mul, Nat.one_mul]
  have e2 : n / (2 * 2 ^ h) * (2 * 2 ^ h) = 2 * (n / (2 * 2 ^ h)) * 2 ^ h := by ac_rfl
  rw [e] ; omega

theorem testBit_div_odd {n h : Nat} : n.testBit h = true ↔ n / 2 ^ h % 2 = 1 := by
  rw [Nat.testBit_eq_decide_div_mod_eq]; simp

theorem dead_iff (hph : ∀ a b : H, ph a b ≠ (zero : H)) (S : List (Option H))
    (hSnz : ∀ x : H, some x ∈ S → x ≠ (zero : H)) {n T : Nat} (hnN : n < S.length)
    (hnew : ∀ i, n ≤ i → i < S.length → ∃ x : H, S[i]? = some (some x))
    (h1 : S.length.testBit T = true) (h2 : n.testBit T = false)
    (h3 : S.length / 2 ^ (T + 1) = n / 2 ^ (T + 1)) (h : Nat) :
    (n.testBit h = true ∧ decide (chunkHash (S.take n) h (2 * (n / 2 ^ (h + 1))) = zero) = true ∧
      (n / 2 ^ (h + 1) + 1) * 2 ^ (h + 1) ≤ S.length) ↔ h ∈ deadLevels (chunkAlive S) T 0 n := by
  rw [mem_deadLevels]
  simp only [Nat.zero_le, Nat.sub_zero, Nat.zero_add, true_and, decide_eq_true_eq]
  have hhalf : ∀ h, n / 2 ^ (h + 1) = n / 2 ^ h / 2 := by
    intro h; rw [Nat.pow_succ, Nat.div_div_eq_div_mul]
  have hroot : n.testBit h = true →
      (chunkHash (S.take n) h (2 * (n / 2 ^ (h + 1))) = zero ↔
        chunkAlive S h (sibIdx (n / 2 ^ h)) = false) := by
    intro hb
    have hodd := testBit_div_odd.mp hb
    have hs : sibIdx (n / 2 ^ h) = 2 * (n / 2 ^ (h + 1)) := by
      unfold sibIdx; rw [if_neg (by omega), hhalf]; omega
    rw [hs]
    unfold chunkHash
    rw [chunk_take S n h _ (by omega) (root_chunk_le hb)]
    exact chunkHash_eq_zero_iff hph S hSnz h _
  constructor
  · rintro ⟨hb, hz, hpop⟩
    have hhT : h < T := by
      apply Classical.byContradiction
      intro hc
      have hne : h ≠ T := by rintro rfl; rw [h2] at hb; cases hb
      have hgt : T < h := by omega
      have e : S.length / 2 ^ (h + 1) = n / 2 ^ (h + 1) := by
        rw [← div_div_pow (show T + 1 ≤ h + 1 by omega), ← div_div_pow (m := n) (show T + 1 ≤ h + 1 by omega), h3]
      have := lt_succ_div_mul S.length (2 ^ (h + 1)) (Nat.two_pow_pos _)
      rw [e] at this
      omega
    exact ⟨hhT, (hroot hb).mp hz⟩
  · rintro ⟨hhT, hdead⟩
    have hin := inTree_of_slot h1 h2 h3 (l := h) (by omega)
    have hb : n.testBit h = true := by
      apply Classical.byContradiction
      intro hc
      have hc' : n.testBit h = false := by simpa using hc
      have heven : n / 2 ^ h % 2 = 0 := by
        have := Nat.testBit_eq_decide_div_mod_eq (x := n) (i := h)
        rw [hc'] at this
        have := decide_eq_false_iff_not.mp this.symm
        omega
      have hs : sibIdx (n / 2 ^ h) = n / 2 ^ h + 1 := by unfold sibIdx; rw [if_pos heven]
      have hle := inTree_le (inTree_sib hin hhT)
      rw [hs] at hle hdead
      have hgt := lt_succ_div_mul n (2 ^ h) (Nat.two_pow_pos _)
      have hpos := Nat.two_pow_pos h
      obtain ⟨x, hx⟩ := hnew ((n / 2 ^ h + 1) * 2 ^ h) (by omega)
        (by rw [Nat.add_mul, Nat.one_mul] at hle; omega)
      have := chunkAlive_of_slot S h (n / 2 ^ h + 1) _ x hx (Nat.le_refl _)
        (by rw [Nat.add_mul (n / 2 ^ h + 1), Nat.one_mul]; omega)
      rw [this] at hdead
      cases hdead
    refine ⟨hb, (hroot hb).mpr hdead, ?_⟩
    have := inTree_le (inTree_parent hin hhT)
    rw [← hhalf] at this
    exact this

/-! ### the map entries written by one addition -/

/-- encoding of a (row, offset) position for `R` rows -/
def encP (R : Nat) (p : Pos) : U64 := encU R p.1 p.2

/-- every entry of the map is a node of the final forest at its final position -/
def Cons (S : List (Option H)) (R : Nat) (m : List (H × U64)) : Prop :=
  ∀ e ∈ m, ∃ pos : Pos, e.2 = encP R pos ∧ IsNode S (pos, e.1)

/-- a hash occurs at one position only -/
def Functional (S : List (Option H)) : Prop :=
  ∀ (p p' : Pos) (h : H), IsNode S (p, h) → IsNode S (p', h) → p = p'

theorem Cons.put {S : List (Option H)} {R : Nat} {m : List (H × U64)} (hc : Cons S R m)
    (hf : Functional S) {k : H} {pos : Pos} (hk : IsNode S (pos, k)) :
    Cons S R (mapPut m k (encP R pos)) ∧
      ∀ e, e ∈ mapPut m k (encP R pos) ↔ e ∈ m ∨ e = (k, encP R pos) := by
  have hcons : ∀ v', (k, v') ∈ m → v' = encP R pos := by
    intro v' hv
    obtain ⟨pos', h1, h2⟩ := hc _ hv
    have := hf pos' pos k h2 hk
    simp only at h1
    rw [h1, this]
  have hmem := mem_mapPut hcons
  refine ⟨?_, hmem⟩
  intro e he
  rcases (hmem e).mp he with h | h
  · exact hc e h
  · subst h; exact ⟨pos, rfl, hk⟩

theorem innerUpd_mem (hph : ∀ a b : H, ph a b ≠ (zero : H)) (S : List (Option H))
    (hSnz : ∀ x : H, some x ∈ S → x ≠ (zero : H)) (hf : Functional S)
    {R n T t c : Nat} {x : H} (hR : R ≤ 63) (hN : S.length ≤ 2 ^ R)
    (hx : S[n]? = some (some x))
    (h1 : S.length.testBit T = true) (h2 : n.testBit T = false)
    (h3 : S.length / 2 ^ (T + 1) = n / 2 ^ (T + 1))
    (hdec : n = 2 ^ (t + 1) * c + (2 ^ t - 1)) (htT : t ≤ T) :
    ∀ (len j : Nat) (upd : List (H × U64)), j + len = t → Cons S R upd → (upd.map (·.1)).Nodup →
      let m' := innerUpd (H8 R) ((List.range' j len).map (fun l => chunkHash S l (sibIdx (n / 2 ^ l))))
        (chunkHash S j (n / 2 ^ j)) (encP R (nodePos S T j (n / 2 ^ j))) upd
      Cons S R m' ∧ (m'.map (·.1)).Nodup ∧
      ∀ e, e ∈ m' ↔ e ∈ upd ∨ ∃ l, j ≤ l ∧ l < t ∧ chunkAlive S l (sibIdx (n / 2 ^ l)) = true ∧
        (e = (chunkHash S l (n / 2 ^ l), encP R (nodePos S T l (n / 2 ^ l))) ∨
         e = (chunkHash S l (sibIdx (n / 2 ^ l)), encP R (nodePos S T l (sibIdx (n / 2 ^ l))))) := by
  have hcur : ∀ l, chunkAlive S l (n / 2 ^ l) = true := by
    intro l
    apply chunkAlive_of_slot S l (n / 2 ^ l) n x hx
    · exact Nat.div_mul_le_self n (2 ^ l)
    · exact lt_succ_div_mul n _ (Nat.two_pow_pos l)
  intro len
  induction len with
  | zero =>
    intro j upd hj hc hnd
    simp only [List.range'_zero, List.map_nil, innerUpd]
    refine ⟨hc, hnd, ?_⟩
    intro e
    constructor
    · exact Or.inl
    · rintro (h | ⟨l, hl1, hl2, _⟩)
      · exact h
      · omega
  | succ len ih =>
    intro j upd hj hc hnd
    have hjt : j < t := by omega
    have hjT : j < T := by omega
    have hodd : n / 2 ^ j % 2 = 1 := by rw [hdec]; exact trailing_div_odd hjt
    have hhalf : n / 2 ^ j / 2 = n / 2 ^ (j + 1) := by rw [Nat.pow_succ, Nat.div_div_eq_div_mul]
    have hsib : sibIdx (n / 2 ^ j) = 2 * (n / 2 ^ (j + 1)) := by
      unfold sibIdx; rw [if_neg (by omega), ← hhalf]; omega
    have hself : n / 2 ^ j = 2 * (n / 2 ^ (j + 1)) + 1 := by rw [← hhalf]; omega
    have hin := inTree_of_slot h1 h2 h3 (l := j) (by omega)
    have hval := nodePos_valid S (R := R) (n / 2 ^ j) hN h1 (show j ≤ T by omega)
    simp only [List.range'_succ, List.map_cons, innerUpd]
    by_cases hal : chunkAlive S j (sibIdx (n / 2 ^ j)) = true
    · -- the left sibling is alive: a parent is created
      have hrnz : chunkHash S j (sibIdx (n / 2 ^ j)) ≠ zero := by
        intro hz
        rw [chunkHash_eq_zero_iff hph S hSnz, hal] at hz
        cases hz
      rw [if_pos hrnz]
      have hrow := nodePos_row_lt S hjT hal
      -- positions
      have hleft : leftSib (encP R (nodePos S T j (n / 2 ^ j))) =
          encP R (nodePos S T j (sibIdx (n / 2 ^ j))) := by
        unfold encP
        rw [Props.C16.leftSib_enc hR (by omega) hval.2.2.2, nodePos_left S hjT hodd hal (hcur j)]
      have hparent : Parent (encP R (nodePos S T j (n / 2 ^ j))) (H8 R) =
          encP R (nodePos S T (j + 1) (n / 2 ^ (j + 1))) := by
        unfold encP
        rw [Props.C16.parent_enc hR (by omega) hval.2.2.2, ← hhalf, ← nodePos_parent S hjT hal]
      have hhash : ph (chunkHash S j (sibIdx (n / 2 ^ j))) (chunkHash S j (n / 2 ^ j)) =
          chunkHash S (j + 1) (n / 2 ^ (j + 1)) := by
        have := chunkHash_succ_alive S j (n / 2 ^ (j + 1)) (by rw [← hsib]; exact hal)
          (by rw [← hself]; exact hcur j)
        rw [← hself] at this
        rw [← hsib] at this
        exact this.symm
      rw [hleft, hparent, hhash]
      -- the two puts
      have hnode1 : IsNode S (nodePos S T j (sibIdx (n / 2 ^ j)), chunkHash S j (sibIdx (n / 2 ^ j))) :=
        ⟨T, j, sibIdx (n / 2 ^ j), inTree_sib hin hjT, hal, rfl⟩
      have hnode2 : IsNode S (nodePos S T j (n / 2 ^ j), chunkHash S j (n / 2 ^ j)) :=
        ⟨T, j, n / 2 ^ j, hin, hcur j, rfl⟩
      obtain ⟨hc1, hm1⟩ := hc.put hf hnode1
      obtain ⟨hc2, hm2⟩ := hc1.put hf hnode2
      obtain ⟨hc3, hnd3, hm3⟩ := ih (j + 1) _ (by omega) hc2 (keys_mapPut_nodup (keys_mapPut_nodup hnd))
      refine ⟨hc3, hnd3, ?_⟩
      intro e
      rw [hm3, hm2, hm1]
      constructor
      · rintro ((( h | h) | h) | ⟨l, hl1, hl2, hl3, hl4⟩)
        · exact Or.inl h
        · exact Or.inr ⟨j, Nat.le_refl _, hjt, hal, Or.inr h⟩
        · exact Or.inr ⟨j, Nat.le_refl _, hjt, hal, Or.inl h⟩
        · exact Or.inr ⟨l, by omega, hl2, hl3, hl4⟩
      · rintro (h | ⟨l, hl1, hl2, hl3, hl4⟩)
        · exact Or.inl (Or.inl (Or.inl h))
        · by_cases hlj : l = j
          · subst hlj
            rcases hl4 with h | h
            · exact Or.inl (Or.inr h)
            · exact Or.inl (Or.inl (Or.inr h))
          · exact Or.inr ⟨l, by omega, hl2, hl3, hl4⟩
    · -- the left sibling is dead: nothing is written, the node keeps its position
      have hal' : chunkAlive S j (sibIdx (n / 2 ^ j)) = false := by simpa using hal
      have hrz : chunkHash S j (sibIdx (n / 2 ^ j)) = zero := by
        rw [chunkHash_eq_zero_iff hph S hSnz]; exact hal'
      rw [if_neg (by simp [hrz])]
      have hhash : chunkHash S j (n / 2 ^ j) = chunkHash S (j + 1) (n / 2 ^ (j + 1)) := by
        rw [chunkHash_succ_left_dead S j (n / 2 ^ (j + 1)) (by rw [← hsib]; exact hal'), ← hself]
      have hpos : nodePos S T j (n / 2 ^ j) = nodePos S T (j + 1) (n / 2 ^ (j + 1)) := by
        rw [nodePos_dead S hjT hal', hhalf]
      rw [hhash, hpos]
      obtain ⟨hc3, hnd3, hm3⟩ := ih (j + 1) upd (by omega) hc hnd
      refine ⟨hc3, hnd3, ?_⟩
      intro e
      rw [hm3]
      constructor
      · rintro (h | ⟨l, hl1, hl2, hl3, hl4⟩)
        · exact Or.inl h
        · exact Or.inr ⟨l, by omega, hl2, hl3, hl4⟩
      · rintro (h | ⟨l, hl1, hl2, hl3, hl4⟩)
        · exact Or.inl h
        · have : l ≠ j := by rintro rfl; rw [hal'] at hl3; cases hl3
          exact Or.inr ⟨l, by omega, hl2, hl3, hl4⟩

/-! ### one addition -/

/-- the pairs of the specification, as map entries -/
def NA (S : List (Option H)) (R m : Nat) (e : H × U64) : Prop :=
  ∃ pos : Pos, e.2 = encP R pos ∧ NewAddSpec m S (pos, e.1)

theorem encU_row_zero (R o : Nat) : encU R 0 o = BitVec.ofNat 64 o := by
  unfold encU
  congr 1
  rw [enc_val]
  have := Nat.two_pow_pos (R + 1)
  simp

theorem div_lt_pow {n R h : Nat} (hn : n < 2 ^ R) (hh : h ≤ R) : n / 2 ^ h < 2 ^ (R - h) := by
  rw [Nat.div_lt_iff_lt_mul (Nat.two_pow_pos _), ← Nat.pow_add, show R - h + h = R by omega]
  exact hn

theorem step_exact (pf : PosFacts) (hph : ∀ a b : H, ph a b ≠ (zero : H)) (nonZero : H)
    (hnz : nonZero ≠ (zero : H)) (S : List (Option H)) (hSnz : ∀ x : H, some x ∈ S → x ≠ (zero : H))
    (hf : Functional S) {R : Nat} (hR : R ≤ 63) (hN : S.length ≤ 2 ^ R)
    (F : Forest H) (x : H) (rest : List H) (hS : S = F.slots ++ (x :: rest).map some)
    (hTR : TreeRows (BitVec.ofNat 64 F.numLeaves + BitVec.ofNat 64 (rest.length + 1)) = H8 R)
    (upd : List (H × U64)) (hc : Cons S R upd) (hnd : (upd.map (·.1)).Nodup) :
    ∃ d hi lo upd2,
      rootsToDestroy nonZero (rest.length + 1) (BitVec.ofNat 64 F.numLeaves) F.roots = .ok d ∧
      addInner (H8 R) (BitVec.ofNat 64 F.numLeaves) 65 0#8 F.roots x
        (d.foldl (fun pos del => if isAncestor (Parent del (H8 R)) pos (H8 R) then
            (calcNextPosition pos del (H8 R)).1 else pos) (BitVec.ofNat 64 F.numLeaves))
        (mapPut upd x (d.foldl (fun pos del => if isAncestor (Parent del (H8 R)) pos (H8 R) then
            (calcNextPosition pos del (H8 R)).1 else pos) (BitVec.ofNat 64 F.numLeaves))) =
        .ok (hi, mergeHash lo x, upd2) ∧
      (F.add x).roots = hi ++ [mergeHash lo x] ∧
      Cons S R upd2 ∧ (upd2.map (·.1)).Nodup ∧
      ∀ e, (e ∈ upd2 ∨ NA S R (F.numLeaves + 1) e) ↔ (e ∈ upd ∨ NA S R F.numLeaves e) := by
  -- sizes
  have hlenS : S.length = F.numLeaves + (rest.length + 1) := by
    rw [hS]; simp [Forest.numLeaves]
  have h2R : 2 ^ R ≤ 2 ^ 63 := Nat.pow_le_pow_right (by decide) hR
  have hnN : F.numLeaves < S.length := by omega
  have hn64 : F.numLeaves < 2 ^ 64 := by omega
  have hnR : F.numLeaves < 2 ^ R := by omega
  have htake : S.take F.numLeaves = F.slots := by
    rw [hS]; exact List.take_left' rfl
  have hnew : ∀ i, F.numLeaves ≤ i → i < S.length → ∃ y : H, S[i]? = some (some y) := by
    intro i h1 h2
    rw [hS, List.getElem?_append_right (by exact h1)]
    have : i - F.slots.length < ((x :: rest).map some).length := by
      simp [Forest.numLeaves] at hlenS h1 h2 ⊢; omega
    rw [List.getElem?_eq_getElem this, List.getElem_map]
    exact ⟨_, rfl⟩
  have hx : S[F.numLeaves]? = some (some x) := by
    rw [hS]
    show (F.slots ++ List.map some (x :: rest))[F.slots.length]? = _
    simp
  have hlive : ∀ y ∈ F.liveLeaves, y ≠ (zero : H) := by
    intro y hy
    apply hSnz
    rw [Forest.mem_liveLeaves] at hy
    rw [hS]; exact List.mem_append_left _ hy
  -- the tree of the new slot, the trailing ones
  obtain ⟨T, h1, h2, h3⟩ := exists_tree_of_lt S.length F.numLeaves hnN
  obtain ⟨t, c, hdec⟩ := exists_trailing_ones F.numLeaves
  have ht := trailing_lt hdec hn64
  have htT : t ≤ T := by
    apply Classical.byContradiction
    intro hcc
    have := testBit_trailing_low (t := t) (c := c) (j := T) (by omega)
    rw [← hdec, h2] at this
    cases this
  have hvalT := nodePos_valid S (R := R) (l := 0) F.numLeaves hN h1 (Nat.zero_le _)
  have hTR' : T ≤ R := hvalT.2.2.1
  -- the destroyed roots
  have hzp : F.roots.map (fun r => decide (r = zero)) = (treeRows F.numLeaves).map
      (fun h => decide (chunkHash F.slots h (2 * (F.numLeaves / 2 ^ (h + 1))) = zero)) := by
    rw [roots_chunks, List.map_map]; rfl
  obtain ⟨L, hd, hLasc, hLmem⟩ := rootsToDestroy_exact pf hR nonZero hnz (rest.length + 1) F.numLeaves _
    F.roots (by omega) hzp hTR
  have hLeq : L = deadLevels (chunkAlive S) T 0 F.numLeaves := by
    apply AscFrom.ext hLasc (deadLevels_asc _ _ _ _)
    intro h
    rw [hLmem, ← dead_iff hph S hSnz hnN hnew h1 h2 h3 h, htake, hlenS]
  -- the position of the new leaf
  have hLT : ∀ h ∈ L, h < T := by
    intro h hh
    rw [hLeq, mem_deadLevels] at hh
    omega
  have hfold := fold_lift pf (n := F.numLeaves) hR L 0 F.numLeaves hLasc
    (fun h hh => by have := hLT h hh; omega) (by simpa using hnR)
    (fun h _ => by simp) (fun h hh => div_lt_pow hnR (by have := hLT h hh; omega))
  rw [encU_row_zero] at hfold
  have htop : F.numLeaves / 2 ^ T = 2 * (S.length / 2 ^ (T + 1)) := by
    have := (inTree_of_slot h1 h2 h3 (l := 0) (Nat.zero_le _)).2.2
    simpa using this
  have hP0 : (liftFold 0 (0, F.numLeaves) L) = nodePos S T 0 F.numLeaves := by
    have := fpos_eq_liftFold (chunkAlive S) T 0 F.numLeaves
    rw [Nat.zero_add, Nat.zero_add, htop, ← hLeq] at this
    unfold nodePos
    rw [Nat.sub_zero, this]
  have hpos0 : (L.map (fun h => encU R h (2 * (F.numLeaves / 2 ^ (h + 1))))).foldl
      (fun pos del => if isAncestor (Parent del (H8 R)) pos (H8 R) then
        (calcNextPosition pos del (H8 R)).1 else pos) (BitVec.ofNat 64 F.numLeaves) =
      encP R (nodePos S T 0 F.numLeaves) := by
    rw [hfold, hP0]; rfl
  -- the new leaf is written
  have hxhash : chunkHash S 0 F.numLeaves = x := by
    unfold chunkHash; rw [chunk_zero, hx]; rfl
  have hcur0 : chunkAlive S 0 F.numLeaves = true := by
    unfold chunkAlive; rw [chunk_zero, hx]; rfl
  have hnode0 : IsNode S (nodePos S T 0 F.numLeaves, x) :=
    ⟨T, 0, F.numLeaves, by simpa using inTree_of_slot h1 h2 h3 (l := 0) (Nat.zero_le _), hcur0,
      by rw [hxhash]⟩
  obtain ⟨hc1, hm1⟩ := hc.put hf hnode0
  -- the merge loop
  obtain ⟨hi, lo, hroots, hlo, hadd⟩ := roots_add F x hdec ht hph hlive
  have hlow : ∀ j < t, F.numLeaves.testBit j = true := by
    intro j hj; rw [hdec]; exact testBit_trailing_low hj
  have hat : F.numLeaves.testBit t = false := by rw [hdec]; exact testBit_trailing_at
  have hinner := addInner_exact (H8 R) hn64 ht hlow hat hi lo.reverse 0 65 x
    (encP R (nodePos S T 0 F.numLeaves)) (mapPut upd x (encP R (nodePos S T 0 F.numLeaves)))
    (by rw [List.length_reverse]; omega) (by rw [List.length_reverse]; omega)
  rw [List.reverse_reverse, ← hroots, ← mergeHash_eq_foldl] at hinner
  -- the popped roots are the sibling chunks
  have hlo' : lo.reverse = (List.range' 0 t).map (fun l => chunkHash S l (sibIdx (F.numLeaves / 2 ^ l))) := by
    have hr := roots_chunks F
    rw [hroots] at hr
    conv at hr => rhs; rw [hdec, treeRows_add (ones_lt t), treeRows_ones t (by omega), ← hdec]
    rw [List.map_append] at hr
    have := (List.append_inj' hr (by simp [hlo])).2
    rw [this, ← List.map_reverse, List.reverse_reverse, List.range_eq_range']
    apply List.map_congr_left
    intro l hl
    have hlt : l < t := by simpa using (List.mem_range'_1.mp hl).2
    have hb := hlow l hlt
    have hodd := testBit_div_odd.mp hb
    have hs : sibIdx (F.numLeaves / 2 ^ l) = 2 * (F.numLeaves / 2 ^ (l + 1)) := by
      unfold sibIdx; rw [if_neg (by omega), Nat.pow_succ, ← Nat.div_div_eq_div_mul]; omega
    rw [hs, ← htake]
    unfold chunkHash
    rw [chunk_take S F.numLeaves l _ (by omega) (root_chunk_le hb)]
  rw [hlo'] at hinner
  have hmem := innerUpd_mem hph S hSnz hf hR hN hx h1 h2 h3 hdec htT t 0
    (mapPut upd x (encP R (nodePos S T 0 F.numLeaves))) (by omega) hc1 (keys_mapPut_nodup hnd)
  simp only [Nat.pow_zero, Nat.div_one, hxhash] at hmem
  obtain ⟨hc2, hnd2, hm2⟩ := hmem
  refine ⟨_, hi, lo, _, hd, ?_, hadd, hc2, hnd2, ?_⟩
  · rw [hpos0, show (0#8) = BitVec.ofNat 8 0 from rfl]
    exact hinner
  · intro e
    rw [hm2, hm1]
    have hstep : NA S R F.numLeaves e ↔
        (∃ pos : Pos, e.2 = encP R pos ∧ StepSpec S F.numLeaves T t (pos, e.1)) ∨ NA S R (F.numLeaves + 1) e := by
      unfold NA
      constructor
      · rintro ⟨pos, hp1, hp2⟩
        rcases (newAddSpec_step S hx h1 h2 h3 hdec _).mp hp2 with h | h
        · exact Or.inl ⟨pos, hp1, h⟩
        · exact Or.inr ⟨pos, hp1, h⟩
      · rintro (⟨pos, hp1, hp2⟩ | ⟨pos, hp1, hp2⟩)
        · exact ⟨pos, hp1, (newAddSpec_step S hx h1 h2 h3 hdec _).mpr (Or.inl hp2)⟩
        · exact ⟨pos, hp1, (newAddSpec_step S hx h1 h2 h3 hdec _).mpr (Or.inr hp2)⟩
    rw [hstep]
    have hent : (∃ pos : Pos, e.2 = encP R pos ∧ StepSpec S F.numLeaves T t (pos, e.1)) ↔
        (e = (x, encP R (nodePos S T 0 F.numLeaves)) ∨
          ∃ l, 0 ≤ l ∧ l < t ∧ chunkAlive S l (sibIdx (F.numLeaves / 2 ^ l)) = true ∧
            (e = (chunkHash S l (F.numLeaves / 2 ^ l), encP R (nodePos S T l (F.numLeaves / 2 ^ l))) ∨
             e = (chunkHash S l (sibIdx (F.numLeaves / 2 ^ l)),
                   encP R (nodePos S T l (sibIdx (F.numLeaves / 2 ^ l)))))) := by
      unfold StepSpec
      constructor
      · rintro ⟨pos, hp1, hp2⟩
        rcases hp2 with h | ⟨l, hl, hal, h | h⟩
        · left
          have h' := Prod.mk.inj h
          apply Prod.ext
          · simp only; rw [h'.2, hxhash]
          · simp only; rw [hp1, h'.1]
        · right
          have h' := Prod.mk.inj h
          refine ⟨l, Nat.zero_le _, hl, hal, Or.inl ?_⟩
          apply Prod.ext
          · simp only; rw [h'.2]
          · simp only; rw [hp1, h'.1]
        · right
          have h' := Prod.mk.inj h
          refine ⟨l, Nat.zero_le _, hl, hal, Or.inr ?_⟩
          apply Prod.ext
          · simp only; rw [h'.2]
          · simp only; rw [hp1, h'.1]
      · rintro (h | ⟨l, _, hl, hal, h | h⟩)
        · exact ⟨nodePos S T 0 F.numLeaves, by rw [h], Or.inl (by rw [h, hxhash])⟩
        · exact ⟨nodePos S T l (F.numLeaves / 2 ^ l), by rw [h], Or.inr ⟨l, hl, hal, Or.inl (by rw [h])⟩⟩
        · exact ⟨nodePos S T l (sibIdx (F.numLeaves / 2 ^ l)), by rw [h],
            Or.inr ⟨l, hl, hal, Or.inr (by rw [h])⟩⟩
    rw [hent]
    constructor
    · rintro (((h | h) | h) | h)
      · exact Or.inl h
      · exact Or.inr (Or.inl (Or.inl h))
      · exact Or.inr (Or.inl (Or.inr h))
      · exact Or.inr (Or.inr h)
    · rintro (h | ((h | h) | h))
      · exact Or.inl (Or.inl (Or.inl h))
      · exact Or.inl (Or.inl (Or.inr h))
      · exact Or.inl (Or.inr h)
      · exact Or.inr h

/-! ### all additions -/

theorem NA_full (S : List (Option H)) (R : Nat) (e : H × U64) : ¬ NA S R S.length e := by
  rintro ⟨pos, _, T, l, b, h1, _, _, h4⟩
  rcases h4 with ⟨h5, h6⟩ | ⟨h5, _, h7⟩
  · subst h5
    have := inTree_le h1
    omega
  · have := inTree_le (inTree_parent h1 h5)
    omega

theorem ofNat_shift (a b : Nat) :
    BitVec.ofNat 64 (a + 1) + BitVec.ofNat 64 b = BitVec.ofNat 64 a + BitVec.ofNat 64 (b + 1) := by
  rw [← BitVec.ofNat_add, ← BitVec.ofNat_add]; congr 1; omega

theorem loop_exact (pf : PosFacts) (hph : ∀ a b : H, ph a b ≠ (zero : H)) (nonZero : H)
    (hnz : nonZero ≠ (zero : H)) (S : List (Option H)) (hSnz : ∀ x : H, some x ∈ S → x ≠ (zero : H))
    (hf : Functional S) {R : Nat} (hR : R ≤ 63) (hN : S.length ≤ 2 ^ R) :
    ∀ (adds : List H) (F : Forest H) (s : Stump H) (upd : List (H × U64)) (remaining : Nat),
      S = F.slots ++ adds.map some → remaining = adds.length → s.roots = F.roots →
      s.numLeaves = BitVec.ofNat 64 F.numLeaves →
      (adds ≠ [] → TreeRows (BitVec.ofNat 64 F.numLeaves + BitVec.ofNat 64 adds.length) = H8 R) →
      Cons S R upd → (upd.map (·.1)).Nodup →
      ∃ upd', Stump.add.loop nonZero (H8 R) adds remaining s upd =
          .ok (⟨(F.addMany adds).roots, BitVec.ofNat 64 (F.numLeaves + adds.length)⟩, upd') ∧
        Cons S R upd' ∧ (upd'.map (·.1)).Nodup ∧
        ∀ e, e ∈ upd' ↔ (e ∈ upd ∨ NA S R F.numLeaves e) := by
  intro adds
  induction adds with
  | nil =>
    intro F s upd remaining hS _ hr hn _ hc hnd
    refine ⟨upd, ?_, hc, hnd, ?_⟩
    · cases s
      simp only at hr hn
      simp [Stump.add.loop, addMany_nil, hr, hn]
    · intro e
      have : F.numLeaves = S.length := by rw [hS]; simp [Forest.numLeaves]
      rw [this]
      constructor
      · exact Or.inl
      · rintro (h | h)
        · exact h
        · exact (NA_full S R e h).elim
  | cons x rest ih =>
    intro F s upd remaining hS hrem hr hn hTR hc hnd
    simp only [List.length_cons] at hrem hTR
    obtain ⟨d, hi, lo, upd2, hd, hinner, hadd, hc2, hnd2, hm2⟩ :=
      step_exact pf hph nonZero hnz S hSnz hf hR hN F x rest hS (hTR (by simp)) upd hc hnd
    have hS' : S = (F.add x).slots ++ rest.map some := by
      rw [hS]; simp [Forest.add]
    obtain ⟨upd', h1, h2, h3, h4⟩ := ih (F.add x) ⟨hi ++ [mergeHash lo x], BitVec.ofNat 64 (F.numLeaves + 1)⟩
      upd2 (remaining - 1) hS' (by omega) hadd.symm (by rw [numLeaves_add])
      (by intro _; rw [numLeaves_add, ofNat_shift]; exact hTR (by simp)) hc2 hnd2
    refine ⟨upd', ?_, h2, h3, ?_⟩
    · rw [Stump.add.loop, hn, hr, hrem, hd]
      simp only [ok_bind]
      rw [hinner]
      simp only [ok_bind]
      rw [u64_succ]
      have e1 : rest.length + 1 - 1 = remaining - 1 := by omega
      rw [e1, h1, add_addMany, numLeaves_add]
      congr 4
      simp only [List.length_cons]
      omega
    · intro e
      rw [h4, numLeaves_add]
      exact hm2 e

end UtreexoVerif.Proofs.StumpAddPos
