/-
  The inner loop of `getNewPositions` on (row, offset) pairs (property C07, level 2a).

  `moveA n R dt c`: walk through the (de-twinned, ascending) deletion positions `dt`; whenever
  a deletion `T` lies in the tree on row `R` and `Parent T` is a strict ancestor of the current
  position, apply one `calcNextPosition` step (`liftStep 0 · T.1`).

  `moveA_eq_liftFold`: for a list with ascending rows in which at most one element per row
  hits, this is `liftFold 0 c` over the ascending list of the rows that hit the ORIGINAL
  position (`mem_hitLevels`).
-/
import UtreexoVerif.Proofs.FinalPos
import UtreexoVerif.Proofs.CalcComplete

namespace UtreexoVerif.Proofs.MoveFold
open UtreexoVerif Spec
open UtreexoVerif.Proofs.FinalPos UtreexoVerif.Proofs.CalcComplete

/-- `isAncestor (Parent T) c`: the parent of `T` is a strict ancestor of `c` -/
def hitA (T c : Pos) : Bool := decide (c.1 ≤ T.1 ∧ c.2 / 2 ^ (T.1 + 1 - c.1) = T.2 / 2)

/-- the `for _, target := range blockTargets` loop of `getNewPositions` on pairs, for a
position of the tree on row `R` -/
def moveA (n R : Nat) : List Pos → Pos → Pos
  | [], c => c
  | T :: rest, c =>
    if inTree n R T && hitA T c then moveA n R rest (liftStep 0 c T.1) else moveA n R rest c

/-- the rows of the deletions that hit, in order -/
def hitLevels (n R : Nat) : List Pos → Pos → List Nat
  | [], _ => []
  | T :: rest, c =>
    if inTree n R T && hitA T c then T.1 :: hitLevels n R rest (liftStep 0 c T.1)
    else hitLevels n R rest c

theorem moveA_eq (n R : Nat) : ∀ (dt : List Pos) (c : Pos),
    moveA n R dt c = liftFold 0 c (hitLevels n R dt c) := by
  intro dt
  induction dt with
  | nil => intro c; rfl
  | cons T rest ih =>
    intro c
    unfold moveA hitLevels
    split
    · rw [ih]; rfl
    · exact ih c

/-- after a step for `T`, a later deletion `T'` (on the same or a higher row) hits the moved
position iff it hits the old one and lies strictly above it -/
theorem hitA_step {T T' c : Pos} (hT : hitA T c = true) (hrow : T.1 ≤ T'.1) :
    hitA T' (liftStep 0 c T.1) = true ↔ (hitA T' c = true ∧ c.1 < T'.1) := by
  unfold hitA at hT
  simp only [decide_eq_true_eq] at hT
  unfold hitA liftStep
  simp only [Nat.sub_zero, decide_eq_true_eq]
  by_cases hlt : c.1 < T'.1
  · have e : T'.1 + 1 - (c.1 + 1) = T'.1 - c.1 := by omega
    have key : removeBitNat c.2 (T.1 - c.1) / 2 ^ (T'.1 - c.1) = c.2 / 2 ^ (T'.1 + 1 - c.1) := by
      rw [removeBitNat_div (show T.1 - c.1 ≤ T'.1 - c.1 by omega),
        show T'.1 - c.1 + 1 = T'.1 + 1 - c.1 by omega]
    rw [e, key]
    constructor
    · rintro ⟨_, h2⟩; exact ⟨⟨by omega, h2⟩, hlt⟩
    · rintro ⟨⟨_, h2⟩, _⟩; exact ⟨by omega, h2⟩
  · constructor
    · rintro ⟨h1, _⟩; omega
    · rintro ⟨_, h⟩; omega

/-- the hypotheses on the deletion list, relative to the current position -/
structure HitHyp (n R : Nat) (dt : List Pos) (c : Pos) : Prop where
  rows : dt.Pairwise (fun a b => a.1 ≤ b.1)
  nodup : dt.Nodup
  uniq : ∀ T ∈ dt, ∀ T' ∈ dt, inTree n R T = true → inTree n R T' = true →
    hitA T c = true → hitA T' c = true → T.1 = T'.1 → T = T'

theorem HitHyp.tail {n R : Nat} {T : Pos} {rest : List Pos} {c : Pos}
    (h : HitHyp n R (T :: rest) c) : HitHyp n R rest c where
  rows := (List.pairwise_cons.1 h.rows).2
  nodup := (List.nodup_cons.1 h.nodup).2
  uniq := fun a ha b hb => h.uniq a (List.mem_cons_of_mem _ ha) b (List.mem_cons_of_mem _ hb)

theorem hitLevels_spec (n R : Nat) : ∀ (dt : List Pos) (c : Pos), HitHyp n R dt c →
    AscFrom c.1 (hitLevels n R dt c) ∧
    ∀ j, j ∈ hitLevels n R dt c ↔ ∃ T ∈ dt, inTree n R T = true ∧ hitA T c = true ∧ T.1 = j := by
  intro dt
  induction dt with
  | nil => intro c _; exact ⟨trivial, by simp [hitLevels]⟩
  | cons T rest ih =>
    intro c hyp
    have hrows := List.pairwise_cons.1 hyp.rows
    have hnd := List.nodup_cons.1 hyp.nodup
    unfold hitLevels
    by_cases hhit : (inTree n R T && hitA T c) = true
    · rw [if_pos hhit]
      simp only [Bool.and_eq_true] at hhit
      obtain ⟨hin, hT⟩ := hhit
      have hcT : c.1 ≤ T.1 := by
        unfold hitA at hT
        simp only [decide_eq_true_eq] at hT
        exact hT.1
      -- later elements: hit the moved position iff they hit the old one
      have hequiv : ∀ T' ∈ rest, inTree n R T' = true →
          (hitA T' (liftStep 0 c T.1) = true ↔ hitA T' c = true) := by
        intro T' hT' hin'
        rw [hitA_step hT (hrows.1 T' hT')]
        constructor
        · exact fun h => h.1
        · intro h
          refine ⟨h, ?_⟩
          have hle := hrows.1 T' hT'
          rcases Nat.lt_or_ge T.1 T'.1 with hlt | hge
          · omega
          · exfalso
            have := hyp.uniq T List.mem_cons_self T' (List.mem_cons_of_mem _ hT') hin hin' hT h
              (by omega)
            rw [this] at hnd
            exact hnd.1 hT'
      have hyp' : HitHyp n R rest (liftStep 0 c T.1) :=
        ⟨hrows.2, hnd.2, by
          intro a ha b hb hia hib h1 h2 hab
          exact hyp.uniq a (List.mem_cons_of_mem _ ha) b (List.mem_cons_of_mem _ hb) hia hib
            ((hequiv a ha hia).1 h1) ((hequiv b hb hib).1 h2) hab⟩
      obtain ⟨ihasc, ihmem⟩ := ih (liftStep 0 c T.1) hyp'
      have hmem' : ∀ j, j ∈ hitLevels n R rest (liftStep 0 c T.1) ↔
          ∃ T' ∈ rest, inTree n R T' = true ∧ hitA T' c = true ∧ T'.1 = j := by
        intro j
        rw [ihmem]
        constructor
        · rintro ⟨T', h1, h2, h3, h4⟩; exact ⟨T', h1, h2, (hequiv T' h1 h2).1 h3, h4⟩
        · rintro ⟨T', h1, h2, h3, h4⟩; exact ⟨T', h1, h2, (hequiv T' h1 h2).2 h3, h4⟩
      refine ⟨⟨hcT, ?_⟩, ?_⟩
      · apply AscFrom.of_ge (ihasc.mono (Nat.zero_le _))
        intro j hj
        obtain ⟨T', h1, h2, h3, h4⟩ := (hmem' j).1 hj
        have hle := hrows.1 T' h1
        rcases Nat.lt_or_ge T.1 T'.1 with hlt | hge
        · omega
        · exfalso
          have := hyp.uniq T List.mem_cons_self T' (List.mem_cons_of_mem _ h1) hin h2 hT h3
            (by omega)
          rw [this] at hnd
          exact hnd.1 h1
      · intro j
        simp only [List.mem_cons, hmem']
        constructor
        · rintro (rfl | ⟨T', h1, h2, h3, h4⟩)
          · exact ⟨T, Or.inl rfl, hin, hT, rfl⟩
          · exact ⟨T', Or.inr h1, h2, h3, h4⟩
        · rintro ⟨T', h1 | h1, h2, h3, h4⟩
          · subst h1; exact Or.inl h4.symm
          · exact Or.inr ⟨T', h1, h2, h3, h4⟩
    · rw [if_neg hhit]
      obtain ⟨ihasc, ihmem⟩ := ih c hyp.tail
      refine ⟨ihasc, ?_⟩
      intro j
      rw [ihmem]
      constructor
      · rintro ⟨T', h1, h2, h3, h4⟩; exact ⟨T', List.mem_cons_of_mem _ h1, h2, h3, h4⟩
      · rintro ⟨T', h1, h2, h3, h4⟩
        rcases List.mem_cons.1 h1 with rfl | h1
        · exfalso; apply hhit; simp [h2, h3]
        · exact ⟨T', h1, h2, h3, h4⟩

/-- **the fold is `liftFold` over the rows that hit the original position** -/
theorem moveA_eq_liftFold {n R : Nat} {dt : List Pos} {c : Pos} (hyp : HitHyp n R dt c)
    {levels : List Nat} {b : Nat} (hasc : AscFrom b levels)
    (hmem : ∀ j, j ∈ levels ↔ ∃ T ∈ dt, inTree n R T = true ∧ hitA T c = true ∧ T.1 = j) :
    moveA n R dt c = liftFold 0 c levels := by
  rw [moveA_eq]
  obtain ⟨h1, h2⟩ := hitLevels_spec n R dt c hyp
  rw [AscFrom.ext h1 hasc (fun j => by rw [h2, hmem])]

end UtreexoVerif.Proofs.MoveFold
