/-
  Proofs/Lock.lean — invariants of the RWMutex interleaving semantics (Model/Lock.lean).

  `ThreadsOK`  every thread's remaining program respects the discipline (`wfProg`);
  `LockInv`    the mutex state agrees with what the threads hold (mutual exclusion);
  `Atomic`     sections are atomic and start from the committed (whole-block) state;
  `Frozen`     never-written fields keep their initial value.
  All are preserved by every step; the property theorems of `Props/C12.lean` follow.
-/
import UtreexoVerif.Model.Lock

namespace UtreexoVerif.Proofs.Lock
open UtreexoVerif.Model.Lock

variable {F V : Type}

/-! ### list helpers -/

theorem get_set_cases {α : Type} {l : List α} {i j : Nat} {t t' x : α} (ht : l[i]? = some t)
    (h : (l.set i t')[j]? = some x) : (j = i ∧ x = t') ∨ (j ≠ i ∧ l[j]? = some x) := by
  rw [List.getElem?_set] at h
  by_cases hij : i = j
  · subst hij
    have hlt : i < l.length := by
      rcases Nat.lt_or_ge i l.length with h1 | h1
      · exact h1
      · rw [List.getElem?_eq_none h1] at ht; cases ht
    simp [hlt] at h
    exact Or.inl ⟨rfl, h.symm⟩
  · simp [hij] at h
    exact Or.inr ⟨fun e => hij e.symm, h⟩

theorem lt_of_get {α : Type} {l : List α} {i : Nat} {t : α} (ht : l[i]? = some t) : i < l.length := by
  rcases Nat.lt_or_ge i l.length with h1 | h1
  · exact h1
  · rw [List.getElem?_eq_none h1] at ht; cases ht

theorem get_set_self {α : Type} {l : List α} {i : Nat} {t t' : α} (ht : l[i]? = some t) :
    (l.set i t')[i]? = some t' := by
  rw [List.getElem?_set]; simp [lt_of_get ht]

theorem get_set_other {α : Type} {l : List α} {i j : Nat} {t' : α} (h : j ≠ i) :
    (l.set i t')[j]? = l[j]? := by
  rw [List.getElem?_set, if_neg (fun e : i = j => h e.symm)]

theorem countP_set_add {α : Type} (p : α → Bool) {l : List α} {i : Nat} {t t' : α} (ht : l[i]? = some t) :
    (l.set i t').countP p + (if p t then 1 else 0) = l.countP p + (if p t' then 1 else 0) := by
  have hlt := lt_of_get ht
  have hget : l[i] = t := by
    have := List.getElem?_eq_getElem hlt
    rw [this] at ht; exact Option.some.inj ht
  rw [List.countP_set hlt, hget]
  by_cases hp : p t = true
  · have hmem : t ∈ l := List.mem_of_getElem? ht
    have hpos : 0 < l.countP p := List.countP_pos_iff.mpr ⟨t, hmem, hp⟩
    simp [hp]; omega
  · simp [hp]

theorem countP_set_eq {α : Type} (p : α → Bool) {l : List α} {i : Nat} {t t' : α} (ht : l[i]? = some t) :
    (l.set i t').countP p = l.countP p + (if p t' then 1 else 0) - (if p t then 1 else 0) := by
  have := countP_set_add p (t' := t') ht
  omega

/-! ### facts about `wfProg`, `Acc.ok`, `runOps` -/

theorem wf_acc {mu : F → Bool} {k : LockKind} {a : Acc F V} {p : List (Instr F V)} :
    wfProg mu k (.acc a :: p) = true ↔ a.ok mu k = true ∧ wfProg mu k p = true := by
  simp [wfProg]

theorem wf_acquire {mu : F → Bool} {k k' : LockKind} {p : List (Instr F V)} :
    wfProg mu k (.acquire k' :: p) = true ↔ k = .none ∧ k' ≠ .none ∧ wfProg mu k' p = true := by
  simp [wfProg, and_assoc]

theorem wf_release {mu : F → Bool} {k k' : LockKind} {p : List (Instr F V)} :
    wfProg mu k (.release k' :: p) = true ↔ k ≠ .none ∧ k = k' ∧ wfProg mu .none p = true := by
  simp [wfProg, and_assoc]

theorem wf_nil {mu : F → Bool} {k : LockKind} : wfProg (F := F) (V := V) mu k [] = true ↔ k = .none := by
  simp [wfProg]

/-- an admissible access of a thread that does not hold the write lock leaves memory alone -/
theorem run_mem_of_not_w [DecidableEq F] {mu : F → Bool} {k : LockKind} {a : Acc F V} (hok : a.ok mu k = true)
    (hk : k ≠ .w) (m : Mem F V) (l : List V) : (a.run (m, l)).1 = m := by
  cases a with
  | read f => rfl
  | hook => rfl
  | write f g => cases k <;> simp [Acc.ok] at hok; exact absurd rfl hk

theorem runOps_snoc [DecidableEq F] (ops : List (Acc F V)) (a : Acc F V) (x : Mem F V × List V) :
    runOps (ops ++ [a]) x = a.run (runOps ops x) := by
  simp [runOps, List.foldl_append]

theorem replay_snoc [DecidableEq F] (m0 : Mem F V) (h : List (List (Acc F V) × List V)) (sec : List (Acc F V) × List V) :
    replay m0 (h ++ [sec]) = (runOps sec.1 (replay m0 h, sec.2)).1 := by
  simp [replay, List.foldl_append]

/-! ### the invariants -/

/-- the thread's remaining program is well formed for what it holds; a pending writer is
still in front of its `acquire w` -/
def ThreadOK (mu : F → Bool) (t : Thread F V) : Prop :=
  wfProg mu t.held.ctx t.prog = true ∧ (t.held = .pend → ∃ p, t.prog = .acquire .w :: p)

def ThreadsOK (mu : F → Bool) (s : State F V) : Prop :=
  ∀ (i : Nat) (t : Thread F V), s.threads[i]? = some t → ThreadOK mu t

/-- the mutex state agrees with what the threads hold -/
structure LockInv (s : State F V) : Prop where
  readers : s.lock.readers = s.threads.countP (fun t => t.held == .r)
  writer : ∀ (i : Nat) (t : Thread F V), s.threads[i]? = some t → (t.held = .w ↔ s.lock.writer = some i)
  wmutex : ∀ (i : Nat) (t : Thread F V), s.threads[i]? = some t →
    ((t.held = .pend ∨ t.held = .w) ↔ s.lock.wmutex = some i)
  excl : s.lock.writer ≠ none → s.lock.readers = 0
  owner : ∀ i, s.lock.wmutex = some i → i < s.threads.length
  sub : ∀ i, s.lock.writer = some i → s.lock.wmutex = some i

/-- never-written fields keep their initial value -/
def Frozen (mu : F → Bool) (s : State F V) : Prop := ∀ f, mu f = false → s.mem f = s.init f

/-- MUTUAL EXCLUSION: a thread inside a write section excludes every other thread from
being inside any section -/
theorem mutual_exclusion {s : State F V} (hl : LockInv s) {i j : Nat} {ti tj : Thread F V}
    (hi : s.threads[i]? = some ti) (hj : s.threads[j]? = some tj) (hne : j ≠ i)
    (hw : ti.held = .w) (hin : tj.held = .r ∨ tj.held = .w) : False := by
  have hwi : s.lock.writer = some i := (hl.writer i ti hi).mp hw
  rcases hin with hr | hw2
  · have hmem : tj ∈ s.threads := List.mem_of_getElem? hj
    have hpos : 0 < s.threads.countP (fun t => t.held == .r) :=
      List.countP_pos_iff.mpr ⟨tj, hmem, by simp [hr]⟩
    have h0 := hl.excl (by rw [hwi]; simp)
    rw [hl.readers] at h0
    omega
  · have hwj : s.lock.writer = some j := (hl.writer j tj hj).mp hw2
    rw [hwi] at hwj
    exact hne (Option.some.inj hwj).symm

/-- if the writer mutex is free, nobody is inside a write section -/
theorem writer_none_of_wmutex_none {s : State F V} (hl : LockInv s) (h : s.lock.wmutex = none) :
    s.lock.writer = none := by
  cases hw : s.lock.writer with
  | none => rfl
  | some k => have := hl.sub k hw; rw [h] at this; cases this

/-- a pending writer is the owner of the writer mutex, hence nobody is inside a write section -/
theorem writer_none_of_pend {s : State F V} (hl : LockInv s) {i : Nat} {t : Thread F V}
    (ht : s.threads[i]? = some t) (hh : t.held = .pend) : s.lock.writer = none := by
  cases hw : s.lock.writer with
  | none => rfl
  | some k =>
    have h1 := hl.sub k hw
    have h2 := (hl.wmutex i t ht).mp (Or.inl hh)
    rw [h1] at h2
    have hk : k = i := Option.some.inj h2
    subst hk
    have := (hl.writer k t ht).mpr hw
    rw [hh] at this; cases this

/-! ### preservation -/

section Preservation
variable [DecidableEq F]

theorem threadsOK_step {mu : F → Bool} {s s' : State F V} {i : Nat} (h : ThreadsOK mu s) (st : Step s i s') :
    ThreadsOK mu s' := by
  intro j x hx
  cases st with
  | @acc t a p ht hp =>
    rcases get_set_cases ht hx with ⟨_, rfl⟩ | ⟨_, hj⟩
    · have ⟨hwf, hpend⟩ := h i t ht
      rw [hp] at hwf
      refine ⟨(wf_acc.mp hwf).2, ?_⟩
      intro hh
      obtain ⟨p', hp'⟩ := hpend hh
      rw [hp] at hp'; cases hp'
    · exact h j x hj
  | @rlock t p ht hp hh hw =>
    rcases get_set_cases ht hx with ⟨_, rfl⟩ | ⟨_, hj⟩
    · have ⟨hwf, _⟩ := h i t ht
      rw [hp, hh] at hwf
      exact ⟨(wf_acquire.mp hwf).2.2, by intro hc; cases hc⟩
    · exact h j x hj
  | @wannounce t p ht hp hh hw =>
    rcases get_set_cases ht hx with ⟨_, rfl⟩ | ⟨_, hj⟩
    · have ⟨hwf, _⟩ := h i t ht
      rw [hh] at hwf
      exact ⟨hwf, fun _ => ⟨p, hp⟩⟩
    · exact h j x hj
  | @wenter t p ht hp hh hr =>
    rcases get_set_cases ht hx with ⟨_, rfl⟩ | ⟨_, hj⟩
    · have ⟨hwf, _⟩ := h i t ht
      rw [hp, hh] at hwf
      exact ⟨(wf_acquire.mp hwf).2.2, by intro hc; cases hc⟩
    · exact h j x hj
  | @runlock t p ht hp hh =>
    rcases get_set_cases ht hx with ⟨_, rfl⟩ | ⟨_, hj⟩
    · have ⟨hwf, _⟩ := h i t ht
      rw [hp, hh] at hwf
      exact ⟨(wf_release.mp hwf).2.2, by intro hc; cases hc⟩
    · exact h j x hj
  | @wunlock t p ht hp hh =>
    rcases get_set_cases ht hx with ⟨_, rfl⟩ | ⟨_, hj⟩
    · have ⟨hwf, _⟩ := h i t ht
      rw [hp, hh] at hwf
      exact ⟨(wf_release.mp hwf).2.2, by intro hc; cases hc⟩
    · exact h j x hj

theorem lockInv_step {s s' : State F V} {i : Nat} (hl : LockInv s) (st : Step s i s') : LockInv s' := by
  cases st with
  | @acc t a p ht hp =>
    refine ⟨?_, ?_, ?_, hl.excl, ?_, hl.sub⟩
    · dsimp only
      rw [countP_set_eq _ ht, hl.readers]
      dsimp only
      by_cases hr : (t.held == Held.r) = true <;> simp [hr]
    · intro j x hx
      rcases get_set_cases ht hx with ⟨rfl, rfl⟩ | ⟨_, hj⟩
      · exact hl.writer _ t ht
      · exact hl.writer j x hj
    · intro j x hx
      rcases get_set_cases ht hx with ⟨rfl, rfl⟩ | ⟨_, hj⟩
      · exact hl.wmutex _ t ht
      · exact hl.wmutex j x hj
    · intro k hk; simpa using hl.owner k hk
  | @rlock t p ht hp hh hw =>
    have hwn : s.lock.writer = none := writer_none_of_wmutex_none hl hw
    refine ⟨?_, ?_, ?_, ?_, ?_, ?_⟩
    · dsimp only
      rw [countP_set_eq _ ht, hl.readers]
      simp [hh]
    · intro j x hx
      show _ ↔ s.lock.writer = some j
      rcases get_set_cases ht hx with ⟨rfl, rfl⟩ | ⟨_, hj⟩
      · rw [hwn]; simp
      · exact hl.writer j x hj
    · intro j x hx
      show _ ↔ s.lock.wmutex = some j
      rcases get_set_cases ht hx with ⟨rfl, rfl⟩ | ⟨_, hj⟩
      · rw [hw]; simp
      · exact hl.wmutex j x hj
    · intro hne; exact absurd hwn hne
    · intro k hk; simpa using hl.owner k hk
    · exact hl.sub
  | @wannounce t p ht hp hh hw =>
    have hwn : s.lock.writer = none := writer_none_of_wmutex_none hl hw
    refine ⟨?_, ?_, ?_, hl.excl, ?_, ?_⟩
    · dsimp only
      rw [countP_set_eq _ ht, hl.readers]
      simp [hh]
    · intro j x hx
      show _ ↔ s.lock.writer = some j
      rcases get_set_cases ht hx with ⟨rfl, rfl⟩ | ⟨_, hj⟩
      · rw [hwn]; simp
      · exact hl.writer j x hj
    · intro j x hx
      show _ ↔ some i = some j
      rcases get_set_cases ht hx with ⟨rfl, rfl⟩ | ⟨hne, hj⟩
      · simp
      · have := hl.wmutex j x hj
        rw [hw] at this
        constructor
        · intro h1; exact absurd (this.mp h1) (by simp)
        · intro h1; exact absurd (Option.some.inj h1).symm hne
    · intro k hk
      have : i = k := Option.some.inj hk
      subst this
      simpa using lt_of_get ht
    · intro k hk
      have : s.lock.writer = some k := hk
      rw [hwn] at this; cases this
  | @wenter t p ht hp hh hr =>
    have hwn : s.lock.writer = none := writer_none_of_pend hl ht hh
    have hwm : s.lock.wmutex = some i := (hl.wmutex i t ht).mp (Or.inl hh)
    refine ⟨?_, ?_, ?_, ?_, ?_, ?_⟩
    · dsimp only
      rw [countP_set_eq _ ht, hl.readers]
      simp [hh]
    · intro j x hx
      show _ ↔ some i = some j
      rcases get_set_cases ht hx with ⟨rfl, rfl⟩ | ⟨hne, hj⟩
      · simp
      · have := hl.writer j x hj
        rw [hwn] at this
        constructor
        · intro h1; exact absurd (this.mp h1) (by simp)
        · intro h1; exact absurd (Option.some.inj h1).symm hne
    · intro j x hx
      show _ ↔ s.lock.wmutex = some j
      rcases get_set_cases ht hx with ⟨rfl, rfl⟩ | ⟨_, hj⟩
      · rw [hwm]; simp
      · exact hl.wmutex j x hj
    · intro _; exact hr
    · intro k hk; simpa using hl.owner k hk
    · intro k hk
      have : i = k := Option.some.inj hk
      subst this
      exact hwm
  | @runlock t p ht hp hh =>
    have hnw : s.lock.writer ≠ some i := by
      intro h1; have := (hl.writer i t ht).mpr h1; rw [hh] at this; cases this
    have hnm : s.lock.wmutex ≠ some i := by
      intro h1; have := (hl.wmutex i t ht).mpr h1; rw [hh] at this; rcases this with h2 | h2 <;> cases h2
    refine ⟨?_, ?_, ?_, ?_, ?_, hl.sub⟩
    · dsimp only
      rw [countP_set_eq _ ht, hl.readers]
      simp [hh]
    · intro j x hx
      show _ ↔ s.lock.writer = some j
      rcases get_set_cases ht hx with ⟨rfl, rfl⟩ | ⟨_, hj⟩
      · simp [hnw]
      · exact hl.writer j x hj
    · intro j x hx
      show _ ↔ s.lock.wmutex = some j
      rcases get_set_cases ht hx with ⟨rfl, rfl⟩ | ⟨_, hj⟩
      · simp [hnm]
      · exact hl.wmutex j x hj
    · intro hne
      have := hl.excl hne
      show s.lock.readers - 1 = 0
      omega
    · intro k hk; simpa using hl.owner k hk
  | @wunlock t p ht hp hh =>
    have hw : s.lock.writer = some i := (hl.writer i t ht).mp hh
    have hm : s.lock.wmutex = some i := (hl.wmutex i t ht).mp (Or.inr hh)
    refine ⟨?_, ?_, ?_, ?_, ?_, ?_⟩
    · dsimp only
      rw [countP_set_eq _ ht, hl.readers]
      simp [hh]
    · intro j x hx
      show _ ↔ (none : Option Nat) = some j
      rcases get_set_cases ht hx with ⟨rfl, rfl⟩ | ⟨hne, hj⟩
      · simp
      · have := hl.writer j x hj
        rw [hw] at this
        constructor
        · intro h1; exact absurd (Option.some.inj (this.mp h1)).symm hne
        · intro h1; cases h1
    · intro j x hx
      show _ ↔ (none : Option Nat) = some j
      rcases get_set_cases ht hx with ⟨rfl, rfl⟩ | ⟨hne, hj⟩
      · simp
      · have := hl.wmutex j x hj
        rw [hm] at this
        constructor
        · intro h1; exact absurd (Option.some.inj (this.mp h1)).symm hne
        · intro h1; cases h1
    · intro hne; exact absurd rfl hne
    · intro k hk; cases hk
    · intro k hk; cases hk

omit [DecidableEq F] in
/-- an admissible write is performed by a thread inside a write section -/
theorem held_w_of_write {mu : F → Bool} {t : Thread F V} {f : F} {g : List V → V} {p : List (Instr F V)}
    (hok : ThreadOK mu t) (hp : t.prog = .acc (.write f g) :: p) : t.held = .w ∧ mu f = true := by
  have h1 := hok.1
  rw [hp] at h1
  have h2 := (wf_acc.mp h1).1
  cases hh : t.held <;> rw [hh] at h2 <;> simp [Held.ctx, Acc.ok] at h2
  exact ⟨rfl, h2⟩

/-- an access by a thread that is not inside a write section leaves memory alone -/
theorem acc_mem_unchanged {mu : F → Bool} {t : Thread F V} {a : Acc F V} {p : List (Instr F V)}
    (hok : ThreadOK mu t) (hp : t.prog = .acc a :: p) (hnw : t.held ≠ .w) (m : Mem F V) :
    (a.run (m, t.log)).1 = m := by
  cases a with
  | read f => rfl
  | hook => rfl
  | write f g => exact absurd (held_w_of_write hok hp).1 hnw

theorem atomic_step {mu : F → Bool} {s s' : State F V} {i : Nat} (hok : ThreadsOK mu s) (hl : LockInv s)
    (ha : Atomic s) (st : Step s i s') : Atomic s' := by
  obtain ⟨hc, hm, hs⟩ := ha
  cases st with
  | @acc t a p ht hp =>
    refine ⟨hc, ?_, ?_⟩
    · intro hwn
      have hwn' : s.lock.writer = none := hwn
      have hnw : t.held ≠ .w := by
        intro h1; have := (hl.writer i t ht).mp h1; rw [hwn'] at this; cases this
      show (a.run (s.mem, t.log)).1 = s.committed
      rw [acc_mem_unchanged (hok i t ht) hp hnw]; exact hm hwn'
    · intro j x hx hin
      rcases get_set_cases ht hx with ⟨rfl, rfl⟩ | ⟨hne, hj⟩
      · show runOps (t.done ++ [a]) (s.committed, t.log0) = ((a.run (s.mem, t.log)).1, (a.run (s.mem, t.log)).2)
        rw [runOps_snoc, hs _ t ht hin]
      · show runOps x.done (s.committed, x.log0) = ((a.run (s.mem, t.log)).1, x.log)
        have hnw : t.held ≠ .w := fun h1 => mutual_exclusion hl ht hj hne h1 hin
        rw [acc_mem_unchanged (hok i t ht) hp hnw]; exact hs j x hj hin
  | @rlock t p ht hp hh hw =>
    have hwn : s.lock.writer = none := writer_none_of_wmutex_none hl hw
    refine ⟨hc, hm, ?_⟩
    intro j x hx hin
    rcases get_set_cases ht hx with ⟨rfl, rfl⟩ | ⟨hne, hj⟩
    · show runOps [] (s.committed, t.log) = (s.mem, t.log)
      rw [hm hwn]; rfl
    · exact hs j x hj hin
  | @wannounce t p ht hp hh hw =>
    refine ⟨hc, hm, ?_⟩
    intro j x hx hin
    rcases get_set_cases ht hx with ⟨rfl, rfl⟩ | ⟨hne, hj⟩
    · rcases hin with h1 | h1 <;> cases h1
    · exact hs j x hj hin
  | @wenter t p ht hp hh hr =>
    have hwn : s.lock.writer = none := writer_none_of_pend hl ht hh
    refine ⟨hc, ?_, ?_⟩
    · intro h1; cases h1
    · intro j x hx hin
      rcases get_set_cases ht hx with ⟨rfl, rfl⟩ | ⟨hne, hj⟩
      · show runOps [] (s.committed, t.log) = (s.mem, t.log)
        rw [hm hwn]; rfl
      · exact hs j x hj hin
  | @runlock t p ht hp hh =>
    refine ⟨hc, hm, ?_⟩
    intro j x hx hin
    rcases get_set_cases ht hx with ⟨rfl, rfl⟩ | ⟨hne, hj⟩
    · rcases hin with h1 | h1 <;> cases h1
    · exact hs j x hj hin
  | @wunlock t p ht hp hh =>
    refine ⟨?_, ?_, ?_⟩
    · show s.mem = replay s.init (s.hist ++ [(t.done, t.log0)])
      rw [replay_snoc, ← hc]
      show s.mem = (runOps t.done (s.committed, t.log0)).1
      rw [hs i t ht (Or.inr hh)]
    · intro _; rfl
    · intro j x hx hin
      rcases get_set_cases ht hx with ⟨rfl, rfl⟩ | ⟨hne, hj⟩
      · rcases hin with h1 | h1 <;> cases h1
      · exact (mutual_exclusion hl ht hj hne hh hin).elim

theorem frozen_step {mu : F → Bool} {s s' : State F V} {i : Nat} (hok : ThreadsOK mu s)
    (hf : Frozen mu s) (st : Step s i s') : Frozen mu s' := by
  cases st with
  | @acc t a p ht hp =>
    intro f hmu
    show (a.run (s.mem, t.log)).1 f = s.init f
    cases a with
    | read f' => exact hf f hmu
    | hook => exact hf f hmu
    | write f' g =>
      have := (held_w_of_write (hok i t ht) hp).2
      have hne : f ≠ f' := by intro e; subst e; rw [hmu] at this; cases this
      show Mem.upd s.mem f' _ f = _
      simp [Mem.upd, hne]; exact hf f hmu
  | rlock ht hp hh hw => exact hf
  | wannounce ht hp hh hw => exact hf
  | wenter ht hp hh hr => exact hf
  | runlock ht hp hh => exact hf
  | wunlock ht hp hh => exact hf

/-! ### the three properties follow from the invariants -/

omit [DecidableEq F] in
theorem raceFree_of_inv {mu : F → Bool} {s : State F V} (hok : ThreadsOK mu s) (hl : LockInv s) : RaceFree s := by
  -- wlog the first access is a write
  have key : ∀ (i j : Nat) (ti tj : Thread F V) (f : F) (g : List V → V) (b : Acc F V) (pi pj : List (Instr F V)),
      i ≠ j → s.threads[i]? = some ti → s.threads[j]? = some tj → ti.prog = .acc (.write f g) :: pi →
      tj.prog = .acc b :: pj → (b = .read f ∨ ∃ g', b = .write f g') → False := by
    intro i j ti tj f g b pi pj hne hi hj hpi hpj hb
    obtain ⟨hw, hmu⟩ := held_w_of_write (hok i ti hi) hpi
    have hokj := hok j tj hj
    -- what does thread j hold?
    cases hh : tj.held with
    | w => exact mutual_exclusion hl hi hj (fun e => hne e.symm) hw (Or.inr hh)
    | r => exact mutual_exclusion hl hi hj (fun e => hne e.symm) hw (Or.inl hh)
    | pend =>
      obtain ⟨p', hp'⟩ := hokj.2 hh
      rw [hpj] at hp'; cases hp'
    | out =>
      have h1 := hokj.1
      rw [hpj, hh] at h1
      have h2 := (wf_acc.mp h1).1
      rcases hb with rfl | ⟨g', rfl⟩
      · simp [Held.ctx, Acc.ok, hmu] at h2
      · simp [Held.ctx, Acc.ok] at h2
  intro i j ti tj a b pi pj hne hi hj hpi hpj hconf
  cases a with
  | hook => cases b <;> exact hconf
  | write f g =>
    cases b with
    | hook => exact hconf
    | read f' =>
      have : f = f' := hconf
      subst this
      exact key i j ti tj f g _ pi pj hne hi hj hpi hpj (Or.inl rfl)
    | write f' g' =>
      have : f = f' := hconf
      subst this
      exact key i j ti tj f g _ pi pj hne hi hj hpi hpj (Or.inr ⟨g', rfl⟩)
  | read f =>
    cases b with
    | hook => exact hconf
    | read f' => exact hconf
    | write f' g' =>
      have : f = f' := hconf
      subst this
      exact key j i tj ti f g' _ pj pi (fun e => hne e.symm) hj hi hpj hpi (Or.inl rfl)

/-- a thread inside a section can always move -/
theorem step_of_inside {mu : F → Bool} {s : State F V} {i : Nat} {t : Thread F V} (hok : ThreadOK mu t)
    (ht : s.threads[i]? = some t) (hin : t.held = .r ∨ t.held = .w) : ∃ s', Step s i s' := by
  have h1 := hok.1
  cases hp : t.prog with
  | nil =>
    rw [hp] at h1
    rcases hin with hh | hh <;> rw [hh] at h1 <;> simp [Held.ctx, wfProg] at h1
  | cons ins p =>
    rw [hp] at h1
    cases ins with
    | acc a => exact ⟨_, Step.acc ht hp⟩
    | acquire k =>
      rcases hin with hh | hh <;> rw [hh] at h1 <;> simp [Held.ctx, wfProg] at h1
    | release k =>
      have h2 := wf_release.mp h1
      rcases hin with hh | hh
      · rw [hh] at h2
        have : k = .r := h2.2.1.symm
        subst this
        exact ⟨_, Step.runlock ht hp hh⟩
      · rw [hh] at h2
        have : k = .w := h2.2.1.symm
        subst this
        exact ⟨_, Step.wunlock ht hp hh⟩

theorem deadlockFree_of_inv {mu : F → Bool} {s : State F V} (hok : ThreadsOK mu s) (hl : LockInv s) : DeadlockFree s := by
  -- somebody inside a write section?
  cases hw : s.lock.writer with
  | some k =>
    have hm := hl.sub k hw
    have hlt := hl.owner k hm
    have ht : s.threads[k]? = some s.threads[k] := List.getElem?_eq_getElem hlt
    have hh := (hl.writer k _ ht).mpr hw
    obtain ⟨s', hs'⟩ := step_of_inside (hok k _ ht) ht (Or.inr hh)
    exact Or.inr ⟨k, s', hs'⟩
  | none =>
    -- somebody inside a read section?
    by_cases hr : 0 < s.lock.readers
    · rw [hl.readers] at hr
      obtain ⟨t, hmem, hp⟩ := List.countP_pos_iff.mp hr
      obtain ⟨k, ht⟩ := List.mem_iff_getElem?.mp hmem
      have hh : t.held = .r := by simpa using hp
      obtain ⟨s', hs'⟩ := step_of_inside (hok k t ht) ht (Or.inl hh)
      exact Or.inr ⟨k, s', hs'⟩
    · have hr0 : s.lock.readers = 0 := by omega
      -- a pending writer can enter
      cases hm : s.lock.wmutex with
      | some k =>
        have hlt := hl.owner k hm
        have ht : s.threads[k]? = some s.threads[k] := List.getElem?_eq_getElem hlt
        have hh := (hl.wmutex k _ ht).mpr hm
        rcases hh with hh | hh
        · obtain ⟨p, hp⟩ := (hok k _ ht).2 hh
          exact Or.inr ⟨k, _, Step.wenter ht hp hh hr0⟩
        · have := (hl.writer k _ ht).mp hh
          rw [hw] at this; cases this
      | none =>
        -- the mutex is completely free: every unfinished thread can move
        by_cases hall : ∀ t ∈ s.threads, t.prog = []
        · exact Or.inl hall
        · have : ∃ t ∈ s.threads, t.prog ≠ [] := by
            apply Classical.byContradiction
            intro hcon
            apply hall
            intro t ht
            apply Classical.byContradiction
            intro hne
            exact hcon ⟨t, ht, hne⟩
          obtain ⟨t, hmem, hne⟩ := this
          obtain ⟨k, ht⟩ := List.mem_iff_getElem?.mp hmem
          have hokt := hok k t ht
          -- it holds nothing
          have hout : t.held = .out := by
            cases hh : t.held with
            | out => rfl
            | pend => have := (hl.wmutex k t ht).mp (Or.inl hh); rw [hm] at this; cases this
            | w => have := (hl.wmutex k t ht).mp (Or.inr hh); rw [hm] at this; cases this
            | r =>
              have hpos : 0 < s.threads.countP (fun t => t.held == .r) :=
                List.countP_pos_iff.mpr ⟨t, hmem, by simp [hh]⟩
              rw [← hl.readers] at hpos; omega
          cases hp : t.prog with
          | nil => exact absurd hp hne
          | cons ins p =>
            have h1 := hokt.1
            rw [hp, hout] at h1
            cases ins with
            | acc a => exact Or.inr ⟨k, _, Step.acc ht hp⟩
            | release k' => simp [Held.ctx, wfProg] at h1
            | acquire k' =>
              have h2 := wf_acquire.mp h1
              cases k' with
              | none => exact absurd rfl h2.2.1
              | r => exact Or.inr ⟨k, _, Step.rlock ht hp hout hm⟩
              | w => exact Or.inr ⟨k, _, Step.wannounce ht hp hout hm⟩

end Preservation

/-! ### all invariants together, along every execution -/

structure Inv [DecidableEq F] (mu : F → Bool) (s : State F V) : Prop where
  ok : ThreadsOK mu s
  lock : LockInv s
  atomic : Atomic s
  frozen : Frozen mu s

section Reach
variable [DecidableEq F]

omit [DecidableEq F] in
theorem get_initial {mem0 : Mem F V} {progs : List (List (Instr F V))} {i : Nat} {t : Thread F V}
    (h : (State.initial mem0 progs).threads[i]? = some t) : ∃ p ∈ progs, t = { prog := p } := by
  simp only [State.initial, List.getElem?_map] at h
  cases hp : progs[i]? with
  | none => rw [hp] at h; cases h
  | some p =>
    rw [hp] at h
    exact ⟨p, List.mem_of_getElem? hp, (Option.some.inj h).symm⟩

theorem inv_initial {mu : F → Bool} (mem0 : Mem F V) (progs : List (List (Instr F V)))
    (hwf : ∀ p ∈ progs, wfProg mu .none p = true) : Inv mu (State.initial mem0 progs) := by
  have hout : ∀ (i : Nat) (t : Thread F V), (State.initial mem0 progs).threads[i]? = some t → t.held = .out := by
    intro i t ht
    obtain ⟨p, _, rfl⟩ := get_initial ht
    rfl
  refine ⟨?_, ⟨?_, ?_, ?_, ?_, ?_, ?_⟩, ⟨rfl, fun _ => rfl, ?_⟩, fun _ _ => rfl⟩
  · intro i t ht
    obtain ⟨p, hp, rfl⟩ := get_initial ht
    exact ⟨hwf p hp, by intro h; cases h⟩
  · show 0 = _
    symm
    rw [List.countP_eq_zero]
    intro t hmem
    obtain ⟨i, ht⟩ := List.mem_iff_getElem?.mp hmem
    simp [hout i t ht]
  · intro i t ht
    rw [hout i t ht]
    constructor
    · intro h; cases h
    · intro h; cases h
  · intro i t ht
    rw [hout i t ht]
    constructor
    · intro h; rcases h with h | h <;> cases h
    · intro h; cases h
  · intro h; exact absurd rfl h
  · intro i h; cases h
  · intro i h; cases h
  · intro i t ht hin
    rw [hout i t ht] at hin
    rcases hin with h | h <;> cases h

theorem inv_step {mu : F → Bool} {s s' : State F V} {i : Nat} (h : Inv mu s) (st : Step s i s') : Inv mu s' :=
  ⟨threadsOK_step h.ok st, lockInv_step h.lock st, atomic_step h.ok h.lock h.atomic st, frozen_step h.ok h.frozen st⟩

theorem inv_reachable {mu : F → Bool} {mem0 : Mem F V} {progs : List (List (Instr F V))}
    (hwf : ∀ p ∈ progs, wfProg mu .none p = true) {s : State F V}
    (hr : Reachable (State.initial mem0 progs) s) : Inv mu s := by
  induction hr with
  | refl => exact inv_initial mem0 progs hwf
  | step _ st ih => exact inv_step ih st

theorem init_const {s0 s : State F V} (hr : Reachable s0 s) : s.init = s0.init := by
  induction hr with
  | refl => rfl
  | step _ st ih => cases st <;> exact ih

/-- while some thread is inside a read section, no step changes the committed state (no
write section can complete) nor the memory -/
theorem stable_while_reading {mu : F → Bool} {s s' : State F V} {i j : Nat} {tj : Thread F V} (h : Inv mu s)
    (st : Step s i s') (hj : s.threads[j]? = some tj) (hr : tj.held = .r) :
    s'.committed = s.committed ∧ s'.mem = s.mem := by
  have hnw : ∀ (t : Thread F V), s.threads[i]? = some t → t.held ≠ .w := by
    intro t ht hw
    by_cases hij : j = i
    · subst hij; rw [hj] at ht; cases ht; rw [hr] at hw; cases hw
    · exact mutual_exclusion h.lock ht hj hij hw (Or.inl hr)
  cases st with
  | @acc t a p ht hp => exact ⟨rfl, acc_mem_unchanged (h.ok i t ht) hp (hnw t ht) s.mem⟩
  | rlock ht hp hh hw => exact ⟨rfl, rfl⟩
  | wannounce ht hp hh hw => exact ⟨rfl, rfl⟩
  | wenter ht hp hh hr => exact ⟨rfl, rfl⟩
  | runlock ht hp hh => exact ⟨rfl, rfl⟩
  | @wunlock t p ht hp hh => exact absurd hh (hnw t ht)

/-- inside a read section the memory IS the committed (whole-block) state, and what the
reader has observed is the sequential run of its accesses on that state -/
theorem reader_view {mu : F → Bool} {s : State F V} {j : Nat} {tj : Thread F V} (h : Inv mu s)
    (hj : s.threads[j]? = some tj) (hr : tj.held = .r) :
    s.mem = s.committed ∧ runOps tj.done (s.committed, tj.log0) = (s.committed, tj.log) := by
  have hwn : s.lock.writer = none := by
    cases hw : s.lock.writer with
    | none => rfl
    | some k =>
      have hm := h.lock.sub k hw
      have hlt := h.lock.owner k hm
      have ht : s.threads[k]? = some s.threads[k] := List.getElem?_eq_getElem hlt
      have hh := (h.lock.writer k _ ht).mpr hw
      by_cases hjk : j = k
      · subst hjk; rw [hj] at ht; cases ht; rw [hr] at hh; cases hh
      · exact (mutual_exclusion h.lock ht hj hjk hh (Or.inl hr)).elim
  have hm := h.atomic.2.1 hwn
  refine ⟨hm, ?_⟩
  have := h.atomic.2.2 j tj hj (Or.inl hr)
  rw [hm] at this
  exact this

end Reach

/-! ### a table that passes the check only generates well-formed programs -/

section Typing
variable {M : Type} [DecidableEq F] [DecidableEq M]

theorem mem_toList_iff (C : Ctxs) (c : LockKind) : c ∈ C.toList ↔ C.has c = true := by
  cases C with
  | mk o r w => cases c <;> cases o <;> cases r <;> cases w <;> simp [Ctxs.toList, Ctxs.has]

omit [DecidableEq F] in
theorem ok_of_within {mu : F → Bool} {c : LockKind} {rs ws : List F} {a : Acc F V}
    (hacc : accOK mu c rs ws = true) (hin : a.within rs ws) : a.ok mu c = true := by
  cases a with
  | hook => cases c <;> rfl
  | read f =>
    cases c with
    | none =>
      simp only [accOK, Bool.and_eq_true, List.all_eq_true] at hacc
      simpa [Acc.ok] using hacc.2 f hin
    | r => rfl
    | w => rfl
  | write f g =>
    have hin' : f ∈ ws := hin
    cases c with
    | none =>
      simp only [accOK, Bool.and_eq_true, List.isEmpty_iff] at hacc
      rw [hacc.1] at hin'; cases hin'
    | r =>
      simp only [accOK, List.isEmpty_iff] at hacc
      rw [hacc] at hin'; cases hin'
    | w =>
      simp only [accOK, List.all_eq_true] at hacc
      simpa [Acc.ok] using hacc f hin'

/-- what the check guarantees for the item being executed while holding `c` -/
def ItemOK (mu : F → Bool) (C : M → Ctxs) (c : LockKind) : Item F M → Prop
  | .call m => (C m).has c = true
  | .seg rs ws cs => accOK mu c rs ws = true ∧ ∀ n ∈ cs, (C n).has c = true

omit [DecidableEq F] [DecidableEq M] in
theorem methodOK_of_typing {T : M → MethodInfo F M} {allM : List M} {mu : F → Bool} {C : M → Ctxs}
    (hall : ∀ m, m ∈ allM) (hty : typingOK T allM mu C = true) (m : M) :
    ((T m).exported = true → (C m).has .none = true) ∧ methodOK T mu C m = true := by
  simp only [typingOK, List.all_eq_true, Bool.and_eq_true, Bool.or_eq_true, Bool.not_eq_true'] at hty
  have := hty m (hall m)
  refine ⟨?_, this.2⟩
  intro he
  rcases this.1 with h | h
  · rw [he] at h; cases h
  · exact h

omit [DecidableEq F] [DecidableEq M] in
/-- every instruction sequence the table allows for an item, appended to a well-formed
continuation, is well formed: the fragment returns to the lock state it started in -/
theorem gen_wf {T : M → MethodInfo F M} {allM : List M} {mu : F → Bool} {C : M → Ctxs}
    (hall : ∀ m, m ∈ allM) (hty : typingOK T allM mu C = true)
    {c : LockKind} {item : Item F M} {p : List (Instr F V)} (hg : Gen T c item p) :
    ItemOK mu C c item → ∀ q, wfProg mu c q = true → wfProg mu c (p ++ q) = true := by
  induction hg with
  | segNil => intro _ q hq; simpa using hq
  | segAcc hin _ ih =>
    intro hok q hq
    rw [List.cons_append, wf_acc]
    exact ⟨ok_of_within hok.1 hin, ih hok q hq⟩
  | segCall hn _ _ ih1 ih2 =>
    intro hok q hq
    rw [List.append_assoc]
    exact ih1 (hok.2 _ hn) _ (ih2 hok q hq)
  | @callPlain c m p1 p2 hlock hreg _ _ ih1 ih2 =>
    intro hok q hq
    have hm := (methodOK_of_typing hall hty m).2
    simp only [methodOK, List.all_eq_true] at hm
    have hc := hm c ((mem_toList_iff _ _).mpr hok)
    simp only [hlock, if_true, Bool.and_eq_true, List.all_eq_true] at hc
    obtain ⟨⟨⟨hpre, hprec⟩, _⟩, hbody, hbodyc⟩ := hc
    rw [List.append_assoc]
    exact ih1 ⟨hpre, hprec⟩ _ (ih2 ⟨hbody, hbodyc⟩ q hq)
  | @callLocked c m k p1 p2 hlock hk hreg _ _ ih1 ih2 =>
    intro hok q hq
    have hm := (methodOK_of_typing hall hty m).2
    simp only [methodOK, List.all_eq_true] at hm
    have hc := hm c ((mem_toList_iff _ _).mpr hok)
    have hne : ¬ (T m).lock = .none := by rw [hlock]; exact hk
    simp only [hne, if_false, Bool.and_eq_true, List.all_eq_true, beq_iff_eq] at hc
    obtain ⟨⟨⟨hpre, hprec⟩, _⟩, ⟨hcn, hbody⟩, hbodyc⟩ := hc
    rw [hlock] at hbody hbodyc
    subst hcn
    have e : (p1 ++ Instr.acquire k :: (p2 ++ [Instr.release k])) ++ q
        = p1 ++ (Instr.acquire k :: (p2 ++ (Instr.release k :: q))) := by simp
    rw [e]
    apply ih1 ⟨hpre, hprec⟩
    rw [wf_acquire]
    refine ⟨rfl, hk, ?_⟩
    apply ih2 ⟨hbody, hbodyc⟩
    rw [wf_release]
    exact ⟨hk, rfl, hq⟩

omit [DecidableEq F] [DecidableEq M] in
/-- a goroutine that only calls exported methods of a table that passes the check runs a
well-formed program -/
theorem apiProg_wf {T : M → MethodInfo F M} {allM : List M} {mu : F → Bool} {C : M → Ctxs}
    (hall : ∀ m, m ∈ allM) (hty : typingOK T allM mu C = true)
    {p : List (Instr F V)} (hp : ApiProg T p) : wfProg mu .none p = true := by
  induction hp with
  | nil => rfl
  | @call m q p hexp hg _ ih =>
    exact gen_wf hall hty hg ((methodOK_of_typing hall hty m).1 hexp) p ih

end Typing

end UtreexoVerif.Proofs.Lock
