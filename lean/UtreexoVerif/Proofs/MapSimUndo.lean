/-
  The model of mappollard.go respects `Equiv` — part 2: `Undo` (`undoAdd`, `undoDeletion`,
  `restoreRoots`).  See `Proofs/MapSim.lean`.
-/
import UtreexoVerif.Proofs.MapSim

namespace UtreexoVerif.Proofs.MapSim
open UtreexoVerif Model Proofs MapAL Hasher Proofs.SerialMapInv
set_option linter.unusedSectionVars false
set_option linter.unusedVariables false

variable {H : Type} [DecidableEq H] [Hasher H]

/-! ### `placeEmptyRoot` -/

/-- the body of the loop of `placeEmptyRoot`: a non-empty node is moved from `cur` to `pos` -/
theorem sim_placeMove {m m' : MapPollard H} (h : Equiv m m') (cur pos : U64) :
    Equiv
      (match m.getNode cur with
        | some v =>
          if v.hash ≠ zero then
            let m1 := m.delNode cur
            let c := m1.hasCached v.hash
            let m2 := if c then m1.putCached v.hash pos else m1
            let v : Leaf H := if c || m2.full then ⟨v.hash, true⟩ else v
            m2.putNode pos v
          else m
        | none => m)
      (match m'.getNode cur with
        | some v =>
          if v.hash ≠ zero then
            let m1 := m'.delNode cur
            let c := m1.hasCached v.hash
            let m2 := if c then m1.putCached v.hash pos else m1
            let v : Leaf H := if c || m2.full then ⟨v.hash, true⟩ else v
            m2.putNode pos v
          else m'
        | none => m') := by
  rw [h.node]
  cases m'.getNode cur with
  | none => exact h
  | some v =>
    dsimp only
    apply Equiv.ite' _ h
    have h1 := h.delNode cur
    rw [h1.hasCached]
    have h2 := Equiv.ite' (h1.putCached v.hash pos) h1 ((m'.delNode cur).hasCached v.hash = true)
    rw [h2.full]
    exact h2.putNode _ _

theorem sim_placeRowLoop (prevRootPos child : U64) : ∀ (k : Nat) (i : U64) {m m' : MapPollard H}, Equiv m m' →
    SimR (MapPollard.placeRowLoop prevRootPos child k i m) (MapPollard.placeRowLoop prevRootPos child k i m')
  | 0, _, _, _, h => SimR.mk_ok h _
  | k+1, i, m, m', h => by
    simp only [MapPollard.placeRowLoop, h.totalRows]
    apply SimR.ite
    · intro _; exact SimR.mk_err h _
    · intro _
      exact sim_placeRowLoop prevRootPos child k _ (sim_placeMove h _ _)

theorem sim_placeLoop (prevRootPos sib : U64) : ∀ (k : Nat) {m m' : MapPollard H}, Equiv m m' →
    SimR (MapPollard.placeLoop prevRootPos sib k m) (MapPollard.placeLoop prevRootPos sib k m')
  | 0, _, _, h => SimR.mk_ok h _
  | k+1, m, m', h => by
    simp only [MapPollard.placeLoop, h.totalRows]
    apply SimR.ite
    · intro _; exact SimR.mk_err h _
    · intro _
      sim_bindU (sim_placeRowLoop prevRootPos (ChildMany sib (BitVec.ofNat 8 (k + 1)) m'.totalRows).fst (2 ^ (k + 1)) 0#64 h)
        with m1 m1' h1
      exact sim_placeLoop prevRootPos sib k h1

theorem sim_placeEmptyRoot {m m' : MapPollard H} (h : Equiv m m') (prevRootPos : U64) :
    SimR (MapPollard.placeEmptyRoot prevRootPos m) (MapPollard.placeEmptyRoot prevRootPos m') := by
  unfold MapPollard.placeEmptyRoot
  simp only [h.totalRows]
  exact sim_placeLoop _ _ _ h

/-! ### `undoAdd` -/

theorem sim_undoDrop {m m' : MapPollard H} (h : Equiv m m') (pos : U64) :
    Equiv (match m.getNode pos with
        | some leaf => (m.delNode pos).delCached leaf.hash
        | none => m)
      (match m'.getNode pos with
        | some leaf => (m'.delNode pos).delCached leaf.hash
        | none => m') := by
  rw [h.node]
  cases m'.getNode pos with
  | none => exact h
  | some leaf => exact (h.delNode _).delCached _

theorem sim_undoSingleAddLoop_tail (k : Nat)
    (ih : ∀ (pos lChild : U64) (e : List U64) {m m' : MapPollard H}, Equiv m m' →
      SimR (MapPollard.undoSingleAddLoop k pos lChild e m) (MapPollard.undoSingleAddLoop k pos lChild e m'))
    {X X' : MapPollard H} (hX : Equiv X X') (pos lChild : U64) (e : List U64) :
    SimR
      (if k ≠ 0 then
        match e with
        | e0 :: erest =>
          if e0 = lChild then
            match MapPollard.placeEmptyRoot lChild X with
            | (m, .error er) => (m, .error er)
            | (m, .ok ()) =>
              MapPollard.undoSingleAddLoop k (RightChild pos (m.putNode lChild ⟨zero, true⟩).totalRows)
                (LeftChild (RightChild pos (m.putNode lChild ⟨zero, true⟩).totalRows)
                  (m.putNode lChild ⟨zero, true⟩).totalRows) erest (m.putNode lChild ⟨zero, true⟩)
          else MapPollard.undoSingleAddLoop k (RightChild pos X.totalRows)
            (LeftChild (RightChild pos X.totalRows) X.totalRows) e X
        | [] => MapPollard.undoSingleAddLoop k (RightChild pos X.totalRows)
            (LeftChild (RightChild pos X.totalRows) X.totalRows) e X
      else MapPollard.undoSingleAddLoop k (RightChild pos X.totalRows)
            (LeftChild (RightChild pos X.totalRows) X.totalRows) e X)
      (if k ≠ 0 then
        match e with
        | e0 :: erest =>
          if e0 = lChild then
            match MapPollard.placeEmptyRoot lChild X' with
            | (m, .error er) => (m, .error er)
            | (m, .ok ()) =>
              MapPollard.undoSingleAddLoop k (RightChild pos (m.putNode lChild ⟨zero, true⟩).totalRows)
                (LeftChild (RightChild pos (m.putNode lChild ⟨zero, true⟩).totalRows)
                  (m.putNode lChild ⟨zero, true⟩).totalRows) erest (m.putNode lChild ⟨zero, true⟩)
          else MapPollard.undoSingleAddLoop k (RightChild pos X'.totalRows)
            (LeftChild (RightChild pos X'.totalRows) X'.totalRows) e X'
        | [] => MapPollard.undoSingleAddLoop k (RightChild pos X'.totalRows)
            (LeftChild (RightChild pos X'.totalRows) X'.totalRows) e X'
      else MapPollard.undoSingleAddLoop k (RightChild pos X'.totalRows)
            (LeftChild (RightChild pos X'.totalRows) X'.totalRows) e X') := by
  have hnext : ∀ (e : List U64) {Y Y' : MapPollard H}, Equiv Y Y' →
      SimR (MapPollard.undoSingleAddLoop k (RightChild pos Y.totalRows)
            (LeftChild (RightChild pos Y.totalRows) Y.totalRows) e Y)
        (MapPollard.undoSingleAddLoop k (RightChild pos Y'.totalRows)
            (LeftChild (RightChild pos Y'.totalRows) Y'.totalRows) e Y') := by
    intro e Y Y' hY
    rw [hY.totalRows]
    exact ih _ _ _ hY
  apply SimR.ite
  · intro _
    cases e with
    | nil => exact hnext _ hX
    | cons e0 erest =>
      dsimp only
      apply SimR.ite
      · intro _
        sim_bindU (sim_placeEmptyRoot hX lChild) with m1 m1' h1
        exact hnext _ (h1.putNode _ _)
      · intro _; exact hnext _ hX
  · intro _; exact hnext _ hX

theorem sim_undoSingleAddLoop : ∀ (k : Nat) (pos lChild : U64) (e : List U64) {m m' : MapPollard H}, Equiv m m' →
    SimR (MapPollard.undoSingleAddLoop k pos lChild e m) (MapPollard.undoSingleAddLoop k pos lChild e m')
  | 0, _, _, _, _, _, h => SimR.mk_ok h _
  | k+1, pos, lChild, e, m, m', h => by
    simp only [MapPollard.undoSingleAddLoop]
    exact sim_undoSingleAddLoop_tail k (fun pos lChild e _ _ h => sim_undoSingleAddLoop k pos lChild e h)
      (sim_undoDrop h pos) pos lChild e

theorem sim_undoSingleAdd {m m' : MapPollard H} (h : Equiv m m') (e : List U64) :
    SimR (MapPollard.undoSingleAdd e m) (MapPollard.undoSingleAdd e m') := by
  unfold MapPollard.undoSingleAdd
  simp only [h.numLeaves, h.totalRows]
  sim_bind (sim_undoSingleAddLoop ((getLowestRoot m'.numLeaves m'.totalRows).toNat + 1)
    (rootPosition (m'.numLeaves - 1) (getLowestRoot m'.numLeaves m'.totalRows) m'.totalRows)
    (LeftChild (rootPosition (m'.numLeaves - 1) (getLowestRoot m'.numLeaves m'.totalRows) m'.totalRows) m'.totalRows)
    e h) with m1 m1' e1 h1
  rw [h1.numLeaves]
  exact SimR.mk_ok (h1.setNumLeaves _) _

theorem sim_undoAddLoop : ∀ (k : Nat) (e : List U64) {m m' : MapPollard H}, Equiv m m' →
    SimR (MapPollard.undoAddLoop k e m) (MapPollard.undoAddLoop k e m')
  | 0, _, _, _, h => SimR.mk_ok h _
  | k+1, e, m, m', h => by
    simp only [MapPollard.undoAddLoop]
    sim_bind (sim_undoSingleAdd h e) with m1 m1' e1 h1
    exact sim_undoAddLoop k e1 h1

theorem equiv_getRootsAfterDel {m m' : MapPollard H} (h : Equiv m m') (numAdds : U64) (targets prevRootPos : List U64)
    (origPrevRoots : List H) :
    m.getRootsAfterDel numAdds targets prevRootPos origPrevRoots =
      m'.getRootsAfterDel numAdds targets prevRootPos origPrevRoots := by
  unfold MapPollard.getRootsAfterDel
  rw [h.numLeaves, h.totalRows]

theorem equiv_getWrittenOverEmptyRoots {m m' : MapPollard H} (h : Equiv m m') (nonZero : H) (numAdds : U64)
    (origTargets : List U64) (origPrevRoots : List H) :
    MapPollard.getWrittenOverEmptyRoots nonZero m numAdds origTargets origPrevRoots =
      MapPollard.getWrittenOverEmptyRoots nonZero m' numAdds origTargets origPrevRoots := by
  unfold MapPollard.getWrittenOverEmptyRoots
  simp only [equiv_getRootsAfterDel h, h.numLeaves, h.totalRows]

theorem sim_undoAdd {m m' : MapPollard H} (h : Equiv m m') (nonZero : H) (numAdds : U64) (origTargets : List U64)
    (origPrevRoots : List H) :
    SimR (MapPollard.undoAdd nonZero numAdds origTargets origPrevRoots m)
      (MapPollard.undoAdd nonZero numAdds origTargets origPrevRoots m') := by
  unfold MapPollard.undoAdd
  rw [equiv_getWrittenOverEmptyRoots h]
  cases MapPollard.getWrittenOverEmptyRoots nonZero m' numAdds origTargets origPrevRoots with
  | ok e => exact sim_undoAddLoop _ e h
  | err => exact SimR.mk_err h _
  | panic => exact SimR.mk_err h _
  | hang => exact SimR.mk_err h _

/-! ### `undoDeletion` -/

theorem sim_moveDown {m m' : MapPollard H} (h : Equiv m m') (sib prevPos : U64) :
    Equiv
      (match m.getNode sib with
        | some v =>
          let c := m.hasCached v.hash
          let m1 := if c then m.putCached v.hash prevPos else m
          let v : Leaf H := if c || m1.full then ⟨v.hash, true⟩ else v
          (m1.delNode sib).putNode prevPos v
        | none => m)
      (match m'.getNode sib with
        | some v =>
          let c := m'.hasCached v.hash
          let m1 := if c then m'.putCached v.hash prevPos else m'
          let v : Leaf H := if c || m1.full then ⟨v.hash, true⟩ else v
          (m1.delNode sib).putNode prevPos v
        | none => m') := by
  rw [h.node]
  cases m'.getNode sib with
  | none => exact h
  | some v =>
    dsimp only
    rw [h.hasCached]
    have h2 := Equiv.ite' (h.putCached v.hash prevPos) h (m'.hasCached v.hash = true)
    rw [h2.full]
    exact (h2.delNode _).putNode _ _

theorem sim_undoDelMoveDown : ∀ (ts : List U64) {m m' : MapPollard H}, Equiv m m' →
    SimR (MapPollard.undoDelMoveDown ts m) (MapPollard.undoDelMoveDown ts m')
  | [], _, _, h => SimR.mk_ok h _
  | t :: ts, m, m', h => by
    simp only [MapPollard.undoDelMoveDown, h.numLeaves, h.totalRows]
    have hr : SimR (if inForest (sibling t) m'.numLeaves m'.totalRows = true then MapPollard.placeEmptyRoot t m
          else (m, Except.ok ()))
        (if inForest (sibling t) m'.numLeaves m'.totalRows = true then MapPollard.placeEmptyRoot t m'
          else (m', Except.ok ())) :=
      SimR.ite _ (fun _ => sim_placeEmptyRoot h t) (fun _ => SimR.mk_ok h _)
    sim_bindU hr with m1 m1' h1
    rw [h1.totalRows]
    exact sim_undoDelMoveDown ts (sim_moveDown h1 _ _)

theorem sim_placeProof : ∀ (ps : List U64) (i : Nat) (pr : List H) {m m' : MapPollard H}, Equiv m m' →
    SimR (MapPollard.placeProof ps i pr m) (MapPollard.placeProof ps i pr m')
  | [], _, _, _, _, h => SimR.mk_ok h _
  | pos :: ps, i, pr, m, m', h => by
    simp only [MapPollard.placeProof, h.node, h.full]
    cases m'.getNode pos with
    | none =>
      dsimp only
      cases pr[i]? with
      | none => exact SimR.mk_err h _
      | some x => exact sim_placeProof ps _ _ (h.putNode _ _)
    | some leaf =>
      dsimp only
      apply SimR.ite
      · intro _; exact sim_placeProof ps _ _ h
      · intro _; exact SimR.mk_err h _

theorem sim_putCalculated (isTarget : U64 → Bool) : ∀ (l : HP H) {m m' : MapPollard H}, Equiv m m' →
    Equiv (MapPollard.putCalculated isTarget l m) (MapPollard.putCalculated isTarget l m')
  | [], _, _, h => h
  | (pos, x) :: rest, m, m', h => by
    simp only [MapPollard.putCalculated, h.full]
    exact sim_putCalculated isTarget rest (Equiv.ite' ((h.putNode _ _).putCached _ _) (h.putNode _ _) _)

theorem sim_undoDeletion_tail {X X' : MapPollard H} (hX : Equiv X X') (pp : List U64) (pr : List H)
    (hashes : List H) (targets : List U64) (tr : U8) :
    SimR
      (match MapPollard.placeProof pp 0 pr X with
      | (m, .error e) => (m, .error e)
      | (m, .ok pr) =>
        match calculateHashes m.numLeaves (some hashes) targets pr with
        | .err => (m, .error .err)
        | .panic => (m, .error .panic)
        | .hang => (m, .error .hang)
        | .ok r =>
          (MapPollard.putCalculated
            (fun p => (if tr ≠ m.totalRows then translatePositions targets tr m.totalRows else targets).contains p)
            (if tr ≠ m.totalRows then sortHP (r.nodes.map (fun x => (translatePos x.fst tr m.totalRows, x.snd)))
              else r.nodes) m, (.ok () : Except Fail Unit)))
      (match MapPollard.placeProof pp 0 pr X' with
      | (m, .error e) => (m, .error e)
      | (m, .ok pr) =>
        match calculateHashes m.numLeaves (some hashes) targets pr with
        | .err => (m, .error .err)
        | .panic => (m, .error .panic)
        | .hang => (m, .error .hang)
        | .ok r =>
          (MapPollard.putCalculated
            (fun p => (if tr ≠ m.totalRows then translatePositions targets tr m.totalRows else targets).contains p)
            (if tr ≠ m.totalRows then sortHP (r.nodes.map (fun x => (translatePos x.fst tr m.totalRows, x.snd)))
              else r.nodes) m, (.ok () : Except Fail Unit))) := by
  sim_bind (sim_placeProof pp 0 pr hX) with m2 m2' pr2 h2
  rw [h2.numLeaves, h2.totalRows]
  split
  · exact SimR.mk_err h2 _
  · exact SimR.mk_err h2 _
  · exact SimR.mk_err h2 _
  · exact SimR.mk_ok (sim_putCalculated _ _ h2) _

theorem sim_undoDeletion {m m' : MapPollard H} (h : Equiv m m') (targets : List U64) (proofHashes hashes : List H) :
    SimR (MapPollard.undoDeletion targets proofHashes hashes m) (MapPollard.undoDeletion targets proofHashes hashes m') := by
  unfold MapPollard.undoDeletion
  cases toHashAndPos targets hashes with
  | panic => exact SimR.mk_err h _
  | err => exact SimR.mk_err h _
  | hang => exact SimR.mk_err h _
  | ok hnp =>
    simp only [h.numLeaves, h.totalRows]
    sim_bindU (sim_undoDelMoveDown (deTwin (if TreeRows m'.numLeaves ≠ m'.totalRows then
        sortU64 (translatePositions hnp.positions (TreeRows m'.numLeaves) m'.totalRows) else hnp.positions)
        m'.totalRows).reverse h) with m1 m1' h1
    simp only [h1.numLeaves, h1.totalRows, h1.full]
    split
    · exact SimR.mk_err h1 _
    · exact sim_undoDeletion_tail h1 _ _ _ _ _

/-! ### `Undo` -/

theorem equiv_getRoots {m m' : MapPollard H} (h : Equiv m m') : m.getRoots = m'.getRoots := by
  unfold MapPollard.getRoots
  have : m.getNodeD = m'.getNodeD := funext h.getNodeD
  simp only [h.numLeaves, h.totalRows, this]

theorem sim_restoreRoots (origPrevRoots : List H) : ∀ (rps : List U64) (i : Nat) {m m' : MapPollard H}, Equiv m m' →
    SimR (MapPollard.restoreRoots origPrevRoots rps i m) (MapPollard.restoreRoots origPrevRoots rps i m')
  | [], _, _, _, h => SimR.mk_ok h _
  | rp :: rest, i, m, m', h => by
    simp only [MapPollard.restoreRoots, h.hasCached, h.full]
    split
    · exact SimR.mk_err h _
    · exact sim_restoreRoots origPrevRoots rest _ (h.putNode _ _)

/-- **`Undo` respects `Equiv`** -/
theorem sim_undo {m m' : MapPollard H} (h : Equiv m m') (nonZero : H) (numAdds : U64) (targets : List U64)
    (proofHashes hashes origPrevRoots : List H) :
    SimR (MapPollard.undo nonZero numAdds targets proofHashes hashes origPrevRoots m)
      (MapPollard.undo nonZero numAdds targets proofHashes hashes origPrevRoots m') := by
  unfold MapPollard.undo
  sim_bindU (sim_undoAdd h nonZero numAdds targets origPrevRoots) with m1 m1' h1
  sim_bindU (sim_undoDeletion h1 targets proofHashes hashes) with m2 m2' h2
  rw [equiv_getRoots h2]
  exact sim_restoreRoots _ _ _ h2

end UtreexoVerif.Proofs.MapSim
