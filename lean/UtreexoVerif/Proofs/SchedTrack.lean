/-
  What `AddBlockSummary` records for a well-formed history (property C15): `TrackerOK`.
-/
import UtreexoVerif.Proofs.SchedIface
import UtreexoVerif.Proofs.SchedRoots
import UtreexoVerif.Proofs.SchedDelRoots
import UtreexoVerif.Proofs.SchedDel
set_option linter.unusedSectionVars false
set_option linter.unusedVariables false

namespace UtreexoVerif.Proofs.SchedTrack
open UtreexoVerif UtreexoVerif.GoInt Spec Spec.Sched Model
open UtreexoVerif.Proofs UtreexoVerif.Proofs.SchedSem UtreexoVerif.Proofs.CalcGeo
open UtreexoVerif.Proofs.SchedRoots UtreexoVerif.Proofs.SchedDelRoots UtreexoVerif.Proofs.SchedIface
open UtreexoVerif.Proofs.SchedAddU

/-- the tracker after the first `t` summaries -/
structure InvT (h : History) (t : Nat) (cs : Tracker) : Prop where
  len_d : cs.deletions.length = t
  len_a : cs.numAdds.length = t
  len_n : cs.numLeaves.length = t
  len_t : cs.toDestroy.length = t
  len_r : cs.roots.length = t
  ent : ∀ (t' : Nat) (b : Block), t' < t → h[t']? = some b →
    cs.deletions[t']? = some (b.delSlots.map fun s => E 63 (posS (stateAt h t') s)) ∧
    cs.numAdds[t']? = some (BitVec.ofNat 16 b.numAdds) ∧
    cs.numLeaves[t']? = some (BitVec.ofNat 64 (stateAt h (t' + 1)).length) ∧
    ∃ td, cs.toDestroy[t']? = some td ∧ TdOK (midS (stateAt h t') b) b.numAdds td
  last : 0 < t → cs.numLeaves.getLast? = some (BitVec.ofNat 64 (stateAt h t).length) ∧
    cs.roots.getLast? = some (rootsOf (stateAt h t))

theorem getElem?_snoc_lt {α : Type} (l : List α) (x : α) {i : Nat} (hi : i < l.length) :
    (l ++ [x])[i]? = l[i]? := List.getElem?_append_left hi

theorem getElem?_snoc_eq {α : Type} (l : List α) (x : α) : (l ++ [x])[l.length]? = some x := by
  simp

theorem rootsOf_kill (S : List (Option Nat)) (D : List Nat) :
    rootsOf (SchedSem.kill S D) = (treeRows S.length).map fun h =>
      ({ pos := E 63 (h, 2 * (S.length / 2 ^ (h + 1))),
         isZombie := !Spec.chunkAlive (SchedSem.kill S D) h (2 * (S.length / 2 ^ (h + 1))) } : RootInfo) := by
  unfold rootsOf
  rw [SchedDel.kill_length]

/-- **one `AddBlockSummary`** -/
theorem addBlockSummary_spec {h : History} (hw : wellFormed h = true)
    (hadds : ∀ b ∈ h, b.numAdds < 65536) (htot : total h ≤ 2 ^ 62) {t : Nat} {b : Block}
    (hb : h[t]? = some b) {cs : Tracker} (inv : InvT h t cs) :
    ∃ cs', cs.addBlockSummary
        (b.delSlots.map fun s => E (forestRows (stateAt h t).length) (posS (stateAt h t) s))
        (BitVec.ofNat 16 b.numAdds) = .ok cs' ∧ InvT h (t + 1) cs' := by
  have hsucc := SchedLives.stateAt_succ hb
  have hD := SchedLives.wf_dels hw hb
  have hcan := SchedLives.stateAt_canon h t
  have hK : b.numAdds < 65536 := hadds b (List.mem_of_getElem? hb)
  have hlen : (stateAt h (t + 1)).length = (stateAt h t).length + b.numAdds := by
    rw [hsucc]; exact SchedLives.stepS_length _ _
  have hbound : (stateAt h t).length + b.numAdds ≤ 2 ^ 62 := by
    rw [← hlen, SchedLives.stateAt_length_pre]
    exact Nat.le_trans (SchedLives.pre_le_total h _) htot
  have hS : stateAt h (t + 1) =
      SchedSem.kill (stateAt h t) b.delSlots ++ fresh (stateAt h t).length b.numAdds := by
    rw [hsucc]; rfl
  have hklen : (SchedSem.kill (stateAt h t) b.delSlots).length = (stateAt h t).length :=
    SchedDel.kill_length _ _
  rcases Nat.eq_zero_or_pos t with ht0 | htpos
  · -- the first block
    subst ht0
    have hroots : cs.roots = [] := List.eq_nil_of_length_eq_zero inv.len_r
    have hS0 : stateAt h 0 = [] := SchedLives.stateAt_zero h
    have hDnil : b.delSlots = [] := by
      cases hd : b.delSlots with
      | nil => rfl
      | cons s rest =>
        have := hD.2 s (by rw [hd]; exact List.mem_cons_self)
        rw [hS0] at this
        unfold Live at this
        simp at this
    have hadd := addRootInfo_spec [] b.numAdds hK (by simpa [hS0] using hbound)
    have hr0 : rootsOf ([] : List (Option Nat)) = [] := rfl
    simp only [List.length_nil, Nat.zero_add, hr0, List.nil_append] at hadd
    have hSS : stateAt h 1 = fresh 0 b.numAdds := by
      rw [hS, hS0, hDnil]; rfl
    refine ⟨{ cs with
        deletions := cs.deletions ++ [b.delSlots.map fun s => E (forestRows (stateAt h 0).length) (posS (stateAt h 0) s)],
        numAdds := cs.numAdds ++ [BitVec.ofNat 16 b.numAdds],
        toDestroy := cs.toDestroy ++ [[]],
        roots := cs.roots ++ [rootsOf (fresh 0 b.numAdds)],
        numLeaves := cs.numLeaves ++ [BitVec.ofNat 64 b.numAdds] }, ?_, ?_⟩
    · unfold Tracker.addBlockSummary
      rw [hroots]
      simp only [List.isEmpty_nil, if_true, cst_eq]
      rw [show (0#64 : U64) = BitVec.ofNat 64 0 from rfl, hadd]
      rfl
    · have e0 : cs.deletions = [] := List.eq_nil_of_length_eq_zero inv.len_d
      have e1 : cs.numAdds = [] := List.eq_nil_of_length_eq_zero inv.len_a
      have e2 : cs.numLeaves = [] := List.eq_nil_of_length_eq_zero inv.len_n
      have e3 : cs.toDestroy = [] := List.eq_nil_of_length_eq_zero inv.len_t
      refine ⟨by simp [e0], by simp [e1], by simp [e2], by simp [e3], by simp [hroots], ?_, ?_⟩
      · intro t' b' ht' hb'
        have : t' = 0 := by omega
        subst this
        rw [hb] at hb'
        cases hb'
        refine ⟨by simp [e0, hDnil], by simp [e1], by simp [e2, hSS, SchedUndoAdd.fresh_length], ?_⟩
        refine ⟨[], by simp [e3], ?_⟩
        unfold midS
        rw [hS0, hDnil]
        refine ⟨List.nodup_nil, fun x => ?_⟩
        constructor
        · intro hx; cases hx
        · rintro ⟨r, ⟨hbit, _, _⟩, _⟩
          simp [SchedSem.kill] at hbit
      · intro _
        simp [e2, hroots, hSS, SchedUndoAdd.fresh_length]
  · -- a later block
    obtain ⟨hl1, hl2⟩ := inv.last htpos
    have hrne : cs.roots.isEmpty = false := by
      cases hr : cs.roots with
      | nil => rw [hr] at hl2; simp at hl2
      | cons _ _ => rfl
    have hlive : ∀ s ∈ b.delSlots, s < (stateAt h t).length := fun s hs => SchedPos.live_lt (hD.2 s hs)
    have htr := translate_targets (stateAt h t) (by omega) b.delSlots hlive
    rw [cst_eq] at htr
    have hdel := delRootInfo_spec (stateAt h t) hcan (by omega) b.delSlots hD.1 hD.2 (treeRows (stateAt h t).length)
      (fun r hr => (Spec.mem_treeRows.mp hr).2)
    rw [← rootsOf_kill] at hdel
    have hdel' : delRootInfo (H8 63) (rootsOf (stateAt h t))
        (b.delSlots.map fun s => E 63 (posS (stateAt h t) s)) =
        rootsOf (SchedSem.kill (stateAt h t) b.delSlots) := hdel
    obtain ⟨td, htd, htdok⟩ := rootInfoToDestroy_spec (SchedSem.kill (stateAt h t) b.delSlots) b.numAdds hK
      (by rw [hklen]; exact hbound)
    have hadd := addRootInfo_spec (SchedSem.kill (stateAt h t) b.delSlots) b.numAdds hK
      (by rw [hklen]; exact hbound)
    rw [hklen] at htd hadd
    rw [← hS, ← hlen] at hadd
    refine ⟨{ cs with
        deletions := cs.deletions ++ [b.delSlots.map fun s => E 63 (posS (stateAt h t) s)],
        numAdds := cs.numAdds ++ [BitVec.ofNat 16 b.numAdds],
        toDestroy := cs.toDestroy ++ [td],
        roots := cs.roots ++ [rootsOf (stateAt h (t + 1))],
        numLeaves := cs.numLeaves ++ [BitVec.ofNat 64 (stateAt h (t + 1)).length] }, ?_, ?_⟩
    · unfold Tracker.addBlockSummary
      rw [hrne]
      simp only [Bool.false_eq_true, if_false, hl1, hl2, bind, Out.bind, htr, cst_eq, hdel', htd, hadd]
      rfl
    · refine ⟨by simp [inv.len_d], by simp [inv.len_a], by simp [inv.len_n], by simp [inv.len_t],
        by simp [inv.len_r], ?_, ?_⟩
      · intro t' b' ht' hb'
        rcases Nat.lt_or_ge t' t with hlt | hge
        · obtain ⟨a1, a2, a3, td', a4, a5⟩ := inv.ent t' b' hlt hb'
          refine ⟨?_, ?_, ?_, td', ?_, a5⟩
          · simp only; rw [getElem?_snoc_lt _ _ (by rw [inv.len_d]; exact hlt)]; exact a1
          · simp only; rw [getElem?_snoc_lt _ _ (by rw [inv.len_a]; exact hlt)]; exact a2
          · simp only; rw [getElem?_snoc_lt _ _ (by rw [inv.len_n]; exact hlt)]; exact a3
          · simp only; rw [getElem?_snoc_lt _ _ (by rw [inv.len_t]; exact hlt)]; exact a4
        · have : t' = t := by omega
          subst this
          rw [hb] at hb'
          cases hb'
          refine ⟨?_, ?_, ?_, td, ?_, htdok⟩
          · simp only; rw [← inv.len_d]; exact getElem?_snoc_eq _ _
          · simp only; rw [← inv.len_a]; exact getElem?_snoc_eq _ _
          · simp only; rw [← inv.len_n]; exact getElem?_snoc_eq _ _
          · simp only; rw [← inv.len_t]; exact getElem?_snoc_eq _ _
      · intro _
        simp


/-- the summary of block `t` -/
def summ (h : History) (bt : Block × Nat) : List U64 × U16 :=
  (bt.1.delSlots.map (fun s => E (forestRows (stateAt h bt.2).length) (posS (stateAt h bt.2) s)),
    BitVec.ofNat 16 bt.1.numAdds)

theorem fold_spec {h : History} (hw : wellFormed h = true) (hadds : ∀ b ∈ h, b.numAdds < 65536)
    (htot : total h ≤ 2 ^ 62) : ∀ (rest : List Block) (t : Nat) (cs : Tracker), t ≤ h.length → h.drop t = rest →
    InvT h t cs →
    ∃ tr, ((rest.zipIdx t).map (summ h)).foldlM (fun cs b => cs.addBlockSummary b.1 b.2) cs = .ok tr ∧
      InvT h h.length tr := by
  intro rest
  induction rest with
  | nil =>
    intro t cs htl hdrop inv
    have ht : h.length ≤ t := by
      have := congrArg List.length hdrop
      simp at this; omega
    have : t = h.length := by omega
    subst this
    exact ⟨cs, rfl, inv⟩
  | cons b rest ih =>
    intro t cs htl hdrop inv
    have hb : h[t]? = some b := by
      have := congrArg (fun l => l[0]?) hdrop
      simpa using this
    have hdrop' : h.drop (t + 1) = rest := by
      rw [← List.drop_drop, hdrop]; rfl
    obtain ⟨cs', h1, inv'⟩ := addBlockSummary_spec hw hadds htot hb inv
    have htlt : t < h.length := (List.getElem?_eq_some_iff.mp hb).1
    obtain ⟨tr, h2, inv''⟩ := ih (t + 1) cs' htlt hdrop' inv'
    refine ⟨tr, ?_, inv''⟩
    simp only [List.zipIdx_cons, List.map_cons, List.foldlM_cons, bind, Out.bind]
    have : (summ h (b, t)).1 = b.delSlots.map fun s =>
        E (forestRows (stateAt h t).length) (posS (stateAt h t) s) := rfl
    rw [show (summ h (b, t)).2 = BitVec.ofNat 16 b.numAdds from rfl, this, h1]
    exact h2


/-- **the tracker after the summaries of a well-formed history** -/
theorem ofBlocks_spec {h : History} {blocks : List (List U64 × U16)} (hw : wellFormed h = true)
    (hadds : ∀ b ∈ h, b.numAdds < 65536) (htot : total h ≤ 2 ^ 62)
    (hs : Props.C15.summariesOf h = some blocks) :
    ∃ tr, Tracker.ofBlocks blocks = .ok tr ∧ TrackerOK h tr := by
  have hbl := summaries_spec hw htot hs
  have inv0 : InvT h 0 Tracker.new :=
    ⟨rfl, rfl, rfl, rfl, rfl, fun t' b ht' => by omega, fun h0 => by omega⟩
  obtain ⟨tr, h1, inv⟩ := fold_spec hw hadds htot h 0 Tracker.new (Nat.zero_le _) rfl inv0
  refine ⟨tr, ?_, ?_⟩
  · unfold Tracker.ofBlocks
    rw [hbl]
    exact h1
  · refine ⟨inv.len_d, inv.len_a, inv.len_n, inv.len_t, ?_, ?_, ?_, ?_⟩
    · intro t b hb; exact (inv.ent t b (List.getElem?_eq_some_iff.mp hb).1 hb).1
    · intro t b hb; exact (inv.ent t b (List.getElem?_eq_some_iff.mp hb).1 hb).2.1
    · intro t b hb; exact (inv.ent t b (List.getElem?_eq_some_iff.mp hb).1 hb).2.2.1
    · intro t b hb; exact (inv.ent t b (List.getElem?_eq_some_iff.mp hb).1 hb).2.2.2

end UtreexoVerif.Proofs.SchedTrack
