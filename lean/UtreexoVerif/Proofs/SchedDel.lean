/-
  `undoDel` is the inverse of the deletion movement on leaf positions (property C15).

  Forward (`MoveFold.moveA`): walking through the maximal fully-deleted subtrees `T` in ascending
  order, a position below the sibling of `T` moves up (`liftStep`, `calcNextPosition`).
  `undoDel` walks through the same list in DESCENDING order and moves a position at or below
  `Parent T` back down (`calcPrevPosition`).  `fold_undo`: for a position `c` that is not at or
  below any `T` of its tree and is not the parent of such a `T` (true for the position of a
  surviving leaf), the backward fold applied to the forward image of `c` returns `c`.
-/
import UtreexoVerif.Proofs.SchedSem
import UtreexoVerif.Proofs.SchedPos
import UtreexoVerif.Proofs.SchedDeTwin
import UtreexoVerif.Proofs.SchedLives
import UtreexoVerif.Proofs.MoveDT
import UtreexoVerif.Proofs.ProofUpdateGnp
import UtreexoVerif.Props.C16b
import UtreexoVerif.Model.Schedule
set_option linter.unusedSectionVars false
set_option linter.unusedVariables false

namespace UtreexoVerif.Proofs.SchedDel
open UtreexoVerif UtreexoVerif.GoInt Spec Model
open UtreexoVerif.Proofs UtreexoVerif.Proofs.FinalPos UtreexoVerif.Proofs.SchedSem
open UtreexoVerif.Proofs.SpecNodes UtreexoVerif.Proofs.CalcGeo UtreexoVerif.Proofs.MoveFold
open UtreexoVerif.Proofs.CalcComplete UtreexoVerif.Proofs.Sorted UtreexoVerif.Proofs.ProofUpdateGnp
open UtreexoVerif.Props.C16

/-! ### pair level: the forward step and what it preserves -/

/-- one forward step of `moveA` -/
def fT (n R : Nat) (T c : Pos) : Pos := if inTree n R T && hitA T c then liftStep 0 c T.1 else c

theorem moveA_cons (n R : Nat) (T : Pos) (rest : List Pos) (c : Pos) :
    moveA n R (T :: rest) c = moveA n R rest (fT n R T c) := by
  unfold fT
  rw [moveA]
  split <;> rfl

/-- `c` is not `T` and not below `T` -/
def NotUnder (T c : Pos) : Prop := ¬ (c.1 ≤ T.1 ∧ c.2 / 2 ^ (T.1 - c.1) = T.2)
/-- `c` is not the parent of `T` -/
def NotParent (T c : Pos) : Prop := ¬ (c.1 = T.1 + 1 ∧ c.2 = T.2 / 2)

/-- the hypothesis of the inverse: in its own tree, `c` avoids every deletion and its parent -/
def Good (n R : Nat) (dt : List Pos) (c : Pos) : Prop :=
  ∀ T ∈ dt, inTree n R T = true → NotUnder T c ∧ NotParent T c

theorem same_half {a b c : Nat} (h1 : a / 2 = b / 2) (h2 : c / 2 = b / 2) (h3 : a ≠ b) (h4 : a ≠ c) :
    b = c := by omega

theorem good_step {n R : Nat} {T : Pos} {rest : List Pos} {c : Pos}
    (hs : (T :: rest).Pairwise PLt) (hg : Good n R (T :: rest) c) : Good n R rest (fT n R T c) := by
  intro T2 hT2 hin2
  have hlt : PLt T T2 := (List.pairwise_cons.1 hs).1 T2 hT2
  obtain ⟨g3, g2⟩ := hg T2 (List.mem_cons_of_mem _ hT2) hin2
  unfold fT
  split
  · rename_i hc
    simp only [Bool.and_eq_true] at hc
    obtain ⟨hin, hh⟩ := hc
    obtain ⟨g3T, _⟩ := hg T List.mem_cons_self hin
    unfold hitA at hh
    simp only [decide_eq_true_eq] at hh
    obtain ⟨hh1, hh2⟩ := hh
    have hrow : T.1 ≤ T2.1 := by rcases hlt with h | ⟨h, _⟩ <;> omega
    have hne : T ≠ T2 := PLt.ne hlt
    have ha3 : c.2 / 2 ^ (T.1 - c.1) ≠ T.2 := fun e => g3T ⟨hh1, e⟩
    have hhalf : c.2 / 2 ^ (T.1 - c.1) / 2 = T.2 / 2 := by
      rw [← hh2, Nat.div_div_eq_div_mul, ← Nat.pow_succ]; congr 2; omega
    unfold NotUnder NotParent liftStep
    simp only [Nat.sub_zero]
    constructor
    · rintro ⟨h1, h2⟩
      rcases Nat.lt_or_ge T.1 T2.1 with hlt' | hge
      · rw [show T2.1 - (c.1 + 1) = (T2.1 - c.1 - 1) by omega,
          removeBitNat_div (show T.1 - c.1 ≤ T2.1 - c.1 - 1 by omega),
          show T2.1 - c.1 - 1 + 1 = T2.1 - c.1 by omega] at h2
        exact g3 ⟨by omega, h2⟩
      · have hrr : T.1 = T2.1 := by omega
        have ha2 : c.2 / 2 ^ (T.1 - c.1) ≠ T2.2 := fun e => g3 ⟨by omega, by rw [← hrr]; exact e⟩
        have hx : T2.2 / 2 = T.2 / 2 := by
          have e1 : 2 ^ (T2.1 - (c.1 + 1)) * 2 = 2 ^ (T.1 - c.1) := by
            rw [← Nat.pow_succ]; congr 1; omega
          have e2 : 2 ^ (T.1 - c.1) * 2 = 2 ^ (T.1 - c.1 + 1) := by rw [← Nat.pow_succ]
          rw [← h2, ← hhalf, Nat.div_div_eq_div_mul, e1, removeBitNat_div (Nat.le_refl _),
            Nat.div_div_eq_div_mul, e2]
        exact hne (Prod.ext hrr (same_half hhalf hx ha3 ha2))
    · rintro ⟨h1, h2⟩
      have hrr : T.1 = T2.1 := by omega
      have hc1 : c.1 = T.1 := by omega
      rw [hc1, Nat.sub_self, removeBitNat_zero] at h2
      rw [hc1, Nat.sub_self, Nat.pow_zero, Nat.div_one] at ha3 hhalf
      have ha2 : c.2 ≠ T2.2 := fun e => g3 ⟨by omega, by
        rw [show T2.1 - c.1 = 0 by omega, Nat.pow_zero, Nat.div_one]; exact e⟩
      exact hne (Prod.ext hrr (same_half hhalf (by rw [← h2, hhalf]) ha3 ha2))
  · exact ⟨g3, g2⟩


/-! ### `undoDel`, position by position -/

/-- the body of the inner loop of `undoDel`: one de-twinned deletion `T`, one position -/
def udStep (tr : U8) (nl : U64) (T pos : U64) : U64 :=
  let sibPos := Parent T tr
  let subtree := (DetectOffset (translatePos T tr (TreeRows nl)) nl).1
  let subtree1 := (DetectOffset (translatePos pos tr (TreeRows nl)) nl).1
  if subtree != subtree1 then pos
  else if isAncestor sibPos pos tr || sibPos == pos then calcPrevPosition pos T tr
  else pos

theorem foldr_map_comm {α β : Type} (g : β → α → α) : ∀ (l : List β) (ps : List α),
    l.foldr (fun T ps => ps.map (g T)) ps = ps.map (fun p => l.foldr g p) := by
  intro l
  induction l with
  | nil => intro ps; simp
  | cons T rest ih =>
    intro ps
    simp only [List.foldr_cons]
    rw [ih, List.map_map]
    rfl

theorem undoDel_eq (tr : U8) (positions deleted : List U64) (nl : U64) :
    undoDel tr positions deleted nl =
      if deleted.isEmpty || positions.isEmpty then positions
      else positions.map (fun pos => (deTwin (sortU64 deleted) tr).foldr (udStep tr nl) pos) := by
  unfold undoDel
  split
  · rfl
  · exact foldr_map_comm (udStep tr nl) _ positions

section
variable {n : Nat} (hn : n ≤ 2 ^ 63)
include hn

theorem under_valid63 {R : Nat} (hR : R ∈ treeRows n) {p : Pos}
    (hu : Under R (2 * (n >>> (R + 1))) p) : Valid 63 p :=
  SchedDeTwin.Valid.mono (rows_le_63 hn) (under_valid hR hu)

/-- the tree index `undoDel` computes for a 63-row position of the tree on row `R` -/
theorem detect63 {R : Nat} (hR : R ∈ treeRows n) {p : Pos} (hu : Under R (2 * (n >>> (R + 1))) p) :
    (DetectOffset (translatePos (E 63 p) (H8 63) (TreeRows (BitVec.ofNat 64 n))) (BitVec.ofNat 64 n)).1 =
      BitVec.ofNat 8 ((treeRows n).idxOf R) := by
  have hv := under_valid hR hu
  have hv63 := under_valid63 hn hR hu
  rw [treeRows_eq' hn]
  have : translatePos (E 63 p) (H8 63) (H8 (forestRows n)) = E (forestRows n) p := by
    unfold E
    exact translatePos_enc (by decide) hv63.1 hv63.2 (rows_le_63 hn) hv.1 hv.2
  rw [this]
  exact detect_fst hn hR hu

theorem udStep_hit {R : Nat} (hR : R ∈ treeRows n) {T c : Pos}
    (hT : Under R (2 * (n >>> (R + 1))) T) (hTR : T.1 < R) (hc : Under R (2 * (n >>> (R + 1))) c)
    (hh : hitA T c = true) (hnu : NotUnder T c) :
    udStep (H8 63) (BitVec.ofNat 64 n) (E 63 T) (E 63 (liftStep 0 c T.1)) = E 63 c := by
  have hc' := liftStep_under hc hTR hh
  have hvT := under_valid63 hn hR hT
  have hvc := under_valid63 hn hR hc
  have hvc' := under_valid63 hn hR hc'
  have hR63 : R ≤ 63 := Nat.le_trans (under_valid hR (Under.self _ _)).1 (rows_le_63 hn)
  unfold hitA at hh
  simp only [decide_eq_true_eq] at hh
  obtain ⟨hh1, hh2⟩ := hh
  unfold udStep
  simp only [detect63 hn hR hT, detect63 hn hR hc', bne_self_eq_false, Bool.false_eq_true, if_false]
  rw [parent_E (by decide) hvT (by omega)]
  have hpv := parent_valid hvT (show T.1 < 63 by omega)
  have hcond : (isAncestor (E 63 (parent T)) (E 63 (liftStep 0 c T.1)) (H8 63) ||
      E 63 (parent T) == E 63 (liftStep 0 c T.1)) = true := by
    rcases Nat.lt_or_ge c.1 T.1 with hlt | hge
    · have : isAncestor (E 63 (parent T)) (E 63 (liftStep 0 c T.1)) (H8 63) = true := by
        unfold E
        rw [isAncestor_enc (by decide) hvc'.1 hvc'.2 hpv.1 hpv.2, decide_eq_true_iff]
        simp only [liftStep, parent_fst, parent_snd, Nat.sub_zero]
        refine ⟨by omega, ?_⟩
        rw [show T.1 + 1 - (c.1 + 1) = T.1 - c.1 by omega, removeBitNat_div (Nat.le_refl _),
          show T.1 - c.1 + 1 = T.1 + 1 - c.1 by omega]
        exact hh2
      rw [this]; rfl
    · have hc1 : c.1 = T.1 := by omega
      have : E 63 (parent T) = E 63 (liftStep 0 c T.1) := by
        congr 1
        simp only [liftStep, parent, Nat.sub_zero]
        rw [hc1, Nat.sub_self, removeBitNat_zero]
        rw [hc1, show T.1 + 1 - T.1 = 1 by omega, Nat.pow_one] at hh2
        rw [hh2]
      rw [this]; simp
  rw [if_pos hcond]
  unfold E liftStep
  simp only [Nat.sub_zero]
  have hrb : FinalPos.removeBitNat c.2 (T.1 - c.1) = UtreexoVerif.Proofs.removeBitNat c.2 (T.1 - c.1) := rfl
  have hx : UtreexoVerif.Proofs.removeBitNat c.2 (T.1 - c.1) < 2 ^ (63 - (c.1 + 1)) := hvc'.2
  rw [hrb, calcPrevPosition_enc (by decide) hh1 (by omega) hx hvT.2]
  congr 1
  have hbit : decide (T.2 % 2 = 0) = c.2.testBit (T.1 - c.1) := by
    rw [Nat.testBit_eq_decide_div_mod_eq]
    have ha : c.2 / 2 ^ (T.1 - c.1) ≠ T.2 := fun e => hnu ⟨hh1, e⟩
    have hhalf : c.2 / 2 ^ (T.1 - c.1) / 2 = T.2 / 2 := by
      rw [← hh2, Nat.div_div_eq_div_mul, ← Nat.pow_succ]; congr 2; omega
    by_cases he : T.2 % 2 = 0
    · simp only [he, decide_true]; symm; rw [decide_eq_true_iff]; omega
    · simp only [he, decide_false]; symm; rw [decide_eq_false_iff_not]; omega
  rw [hbit, addBitNat_removeBitNat]

theorem udStep_miss {R : Nat} (hR : R ∈ treeRows n) {T c : Pos}
    (hT : Under R (2 * (n >>> (R + 1))) T) (hTR : T.1 < R) (hc : Under R (2 * (n >>> (R + 1))) c)
    (hh : hitA T c = false) (hnp : NotParent T c) :
    udStep (H8 63) (BitVec.ofNat 64 n) (E 63 T) (E 63 c) = E 63 c := by
  have hvT := under_valid63 hn hR hT
  have hvc := under_valid63 hn hR hc
  have hR63 : R ≤ 63 := Nat.le_trans (under_valid hR (Under.self _ _)).1 (rows_le_63 hn)
  unfold udStep
  simp only [detect63 hn hR hT, detect63 hn hR hc, bne_self_eq_false, Bool.false_eq_true, if_false]
  rw [parent_E (by decide) hvT (by omega)]
  have hpv := parent_valid hvT (show T.1 < 63 by omega)
  have hcond : (isAncestor (E 63 (parent T)) (E 63 c) (H8 63) || E 63 (parent T) == E 63 c) = false := by
    have h1 : isAncestor (E 63 (parent T)) (E 63 c) (H8 63) = false := by
      unfold E
      rw [isAncestor_enc (by decide) hvc.1 hvc.2 hpv.1 hpv.2, decide_eq_false_iff_not]
      simp only [parent_fst, parent_snd]
      rintro ⟨h1, h2⟩
      unfold hitA at hh
      rw [decide_eq_false_iff_not] at hh
      exact hh ⟨by omega, h2⟩
    have h2 : (E 63 (parent T) == E 63 c) = false := by
      apply beq_false_of_ne
      intro e
      have := E_inj (by decide) hpv hvc e
      apply hnp
      rw [← this]
      exact ⟨rfl, rfl⟩
    rw [h1, h2]; rfl
  rw [hcond]
  simp

theorem udStep_other {R RT : Nat} (hR : R ∈ treeRows n) (hRT : RT ∈ treeRows n) (hne : RT ≠ R) {T c : Pos}
    (hT : Under RT (2 * (n >>> (RT + 1))) T) (hc : Under R (2 * (n >>> (R + 1))) c) :
    udStep (H8 63) (BitVec.ofNat 64 n) (E 63 T) (E 63 c) = E 63 c := by
  unfold udStep
  simp only [detect63 hn hRT hT, detect63 hn hR hc]
  have : (BitVec.ofNat 8 ((treeRows n).idxOf RT) != BitVec.ofNat 8 ((treeRows n).idxOf R)) = true := by
    rw [bne_iff_ne]
    exact fun h => hne (idx_inj hRT hR h)
  rw [if_pos this]


theorem fT_under {R : Nat} {T c : Pos} (hTR : inTree n R T = true → T.1 < R)
    (hc : Under R (2 * (n >>> (R + 1))) c) : Under R (2 * (n >>> (R + 1))) (fT n R T c) := by
  unfold fT
  split
  · rename_i h
    simp only [Bool.and_eq_true] at h
    exact liftStep_under hc (hTR h.1) h.2
  · exact hc

/-- **the backward fold undoes the forward fold** -/
theorem fold_undo {R : Nat} (hR : R ∈ treeRows n) : ∀ (dt : List Pos) (c : Pos), dt.Pairwise PLt →
    Good n R dt c → Under R (2 * (n >>> (R + 1))) c → DtOK n R dt →
    (dt.map (E 63)).foldr (udStep (H8 63) (BitVec.ofNat 64 n)) (E 63 (moveA n R dt c)) = E 63 c := by
  intro dt
  induction dt with
  | nil => intro c _ _ _ _; rfl
  | cons T rest ih =>
    intro c hs hg hc hdt
    obtain ⟨RT, hRT, huT, hlt⟩ := hdt T List.mem_cons_self
    have hTR : inTree n R T = true → T.1 < R := fun hin => hdt.lt hR T List.mem_cons_self hin
    rw [moveA_cons, List.map_cons, List.foldr_cons,
      ih _ (List.pairwise_cons.1 hs).2 (good_step hs hg) (fT_under hn hTR hc) hdt.tail]
    by_cases hRR : RT = R
    · subst hRR
      have hin : inTree n RT T = true := (inTree_iff _ _ _).2 huT
      obtain ⟨g3, g2⟩ := hg T List.mem_cons_self hin
      unfold fT
      cases hh : hitA T c with
      | true =>
        simp only [hin, Bool.and_self, if_true]
        exact udStep_hit hn hR huT (hlt rfl) hc hh g3
      | false =>
        simp only [hin, Bool.and_false, Bool.false_eq_true, if_false]
        exact udStep_miss hn hR huT (hlt rfl) hc hh g2
    · have hin : inTree n R T = false := by
        cases h : inTree n R T
        · rfl
        · exfalso
          have u := (inTree_iff _ _ _).1 h
          rcases Nat.lt_or_gt_of_ne hRR with h1 | h1
          · exact under_disjoint h1 (bit_of_mem hR) u huT
          · exact under_disjoint h1 (bit_of_mem hRT) huT u
      unfold fT
      simp only [hin, Bool.false_and, Bool.false_eq_true, if_false]
      exact udStep_other hn hR hRT hRR huT hc

end


/-! ### the forest instance: slot lists -/

open UtreexoVerif.Proofs.Movement UtreexoVerif.Proofs.MoveDT UtreexoVerif.Proofs.SpecSubs
open UtreexoVerif.Proofs.SchedPos

theorem kill_canon {S : List (Option Nat)} (hc : Canon S) (D : List Nat) : Canon (SchedSem.kill S D) := by
  intro i x hx
  exact hc i x ((SchedLives.kill_getElem? S D i x).mp hx).1

theorem kill_live {S : List (Option Nat)} {D : List Nat} {s : Nat} :
    Live (SchedSem.kill S D) s ↔ Live S s ∧ s ∉ D := SchedLives.kill_getElem? S D s s

theorem kill_length (S : List (Option Nat)) (D : List Nat) : (SchedSem.kill S D).length = S.length := by
  simp [SchedSem.kill]

theorem delLeaves_mk (S : List (Option Nat)) (D : List Nat) :
    (Forest.mk S).delLeaves D = Forest.mk (SchedSem.kill S D) := by
  unfold Forest.delLeaves SchedSem.kill
  congr 1
  apply List.map_congr_left
  intro x _
  cases x with
  | none => rfl
  | some v => by_cases h : v ∈ D <;> simp [h]

/-- **`undoDel` on one position**: the encoded position, after the deletion of `D`, of a surviving
slot is mapped back to its encoded position before the deletion -/
theorem undoDel_pos {S : List (Option Nat)} (hc : Canon S) (hn : S.length ≤ 2 ^ 62) {D : List Nat}
    (hD : D.Nodup) (hlive : ∀ x ∈ D, Live S x) {s : Nat} (hs : Live S s) (hsD : s ∉ D) :
    (deTwin (sortU64 (D.map fun x => E 63 (posS S x))) (H8 63)).foldr
        (udStep (H8 63) (BitVec.ofNat 64 S.length)) (E 63 (posS (SchedSem.kill S D) s)) =
      E 63 (posS S s) := by
  have hn63 : S.length ≤ 2 ^ 63 := by omega
  have hn64 : S.length < 2 ^ 64 := by omega
  have hnd := liveLeaves_nodup hc
  have hlive' : ∀ x ∈ D, x ∈ (Forest.mk S).liveLeaves := fun x hx => (mem_liveLeaves hc x).mpr (hlive x hx)
  obtain ⟨dtp, hdt, hpw, hmem⟩ := SchedDeTwin.deTwin_spec_63 (F := Forest.mk S) hn63 hnd hD hlive'
  have htargets : (D.map (fun l => ((Forest.mk S).posOf l).getD (0, 0))).map (E 63) =
      D.map fun x => E 63 (posS S x) := by
    rw [List.map_map]
    apply List.map_congr_left
    intro x hx
    simp only [Function.comp, posOf_eq hn64 hc (hlive x hx), Option.getD_some]
  rw [htargets] at hdt
  rw [hdt]
  -- the position before and after
  have hp := posOf_eq hn64 hc hs
  obtain ⟨R, sub⟩ := posOf_sub hp
  have hal : delT D (CTree.leaf s) ≠ none := by simp [delT, hsD]
  have hmove := move_posOf (F := Forest.mk S) (D := D) hn64 hnd hp hsD
  rw [delLeaves_mk] at hmove
  have hp' := posOf_eq (S := SchedSem.kill S D) (by rw [kill_length]; exact hn64) (kill_canon hc D)
    (kill_live.mpr ⟨hs, hsD⟩)
  rw [hp'] at hmove
  have hq : posS (SchedSem.kill S D) s = movePos (Forest.mk S) D (posS S s) := Option.some.inj hmove
  have hmA := moveA_eq_movePos hpw hmem sub hal
  rw [hq, ← hmA]
  have hR : R ∈ treeRows S.length := sub.1
  apply fold_undo hn63 hR dtp (posS S s) hpw ?_ sub.under ?_
  · -- `Good`
    intro T hT hin
    obtain ⟨hT', tT, sT, hdead, _⟩ := (hmem T).1 hT
    have hu := (inTree_iff _ _ _).1 hin
    have hh' : hT' = R := tree_of_under sT sub.bit hu
    rw [hh'] at sT
    constructor
    · rintro ⟨h1, h2⟩
      obtain ⟨ta, sa, hala⟩ := anc_alive sub hal (d := T.1 - (posS S s).1) (by have := sT.row_le; omega)
      rw [show (posS S s).1 + (T.1 - (posS S s).1) = T.1 by omega, h2] at sa
      have := (sT.unique sa).2
      rw [this] at hdead
      exact hala hdead
    · rintro ⟨h1, h2⟩
      have hTR := dt_not_root sub hal ((hmem T).1 hT) hin
      have hnr : isRootPos (Forest.mk S).numLeaves T = false := by
        cases hr : isRootPos (Forest.mk S).numLeaves T with
        | false => rfl
        | true => have := (sT.root_iff).1 hr; omega
      obtain ⟨_, s', hpar, _⟩ := sT.parent hnr
      have e : Spec.parent T = posS S s := by
        apply Prod.ext
        · simp only [Spec.parent]; omega
        · simp only [Spec.parent]; omega
      rw [e] at hpar
      have := (sub.unique hpar).2
      split at this <;> cases this
  · -- `DtOK`
    intro T hT
    obtain ⟨hT', tT, sT, hdead, _⟩ := (hmem T).1 hT
    refine ⟨hT', sT.1, sT.under, fun e => ?_⟩
    subst e
    exact dt_not_root sub hal ((hmem T).1 hT) ((inTree_iff _ _ _).2 sT.under)

end UtreexoVerif.Proofs.SchedDel
