/-
  Helper lemmas for property C13 (serialisation): little-endian integers, `io.ReadFull`
  on the chunk-list reader depends only on the concatenation of the chunks, decoding of
  encoded nodes/records, the failing writer.
-/
import UtreexoVerif.Model.Serial
namespace UtreexoVerif.Proofs.Serial
open UtreexoVerif Model.Serial Spec Hasher Model
set_option linter.unusedSectionVars false

theorem le64_length (x : U64) : (le64 x).length = 8 := by simp [le64]

theorem unle64_le64 (x : U64) : unle64 (le64 x) = x := by
  apply BitVec.eq_of_toNat_eq
  have hx := x.isLt
  simp only [unle64, le64, List.foldr, BitVec.toNat_ofNat]
  omega

theorem readLoop_spec (ewd : Bool) : ∀ (chunks : List (List Byte)) (need : Nat) (acc : List Byte),
    (need ≤ chunks.flatten.length →
      (readLoop ewd chunks need acc).1 = acc ++ chunks.flatten.take need ∧
      (readLoop ewd chunks need acc).2.2.flatten = chunks.flatten.drop need) ∧
    (chunks.flatten.length < need →
      (readLoop ewd chunks need acc).1 = acc ++ chunks.flatten ∧
      (readLoop ewd chunks need acc).2.2.flatten = []) := by
  intro chunks
  induction chunks with
  | nil =>
    intro need acc
    cases need <;> simp [readLoop]
  | cons c rest ih =>
    intro need acc
    cases need with
    | zero => simp [readLoop]
    | succ need =>
      simp only [readLoop]
      by_cases hc : c.length ≤ need + 1
      · simp only [hc, if_true]
        cases he : (ewd && rest.isEmpty) with
        | true =>
          simp only [if_true]
          have hr : rest = [] := by
            simp at he; exact he.2
          subst hr
          simp only [List.flatten_cons, List.flatten_nil, List.append_nil]
          constructor
          · intro h
            constructor
            · rw [List.take_of_length_le (by omega)]
            · rw [List.drop_of_length_le (by omega)]
          · intro _; simp
        | false =>
          simp only [Bool.false_eq_true, if_false]
          have ih' := ih (need + 1 - c.length) (acc ++ c)
          simp only [List.flatten_cons, List.length_append]
          constructor
          · intro h
            have := ih'.1 (by omega)
            rw [this.1, this.2]
            constructor
            · rw [List.take_append, List.take_of_length_le hc, List.append_assoc]
            · rw [List.drop_append, List.drop_of_length_le hc, List.nil_append]
          · intro h
            have := ih'.2 (by omega)
            rw [this.1, this.2]
            simp
      · simp only [hc, if_false]
        have hc' : need + 1 < c.length := by omega
        simp only [List.flatten_cons, List.length_append]
        constructor
        · intro _
          constructor
          · rw [List.take_append_of_le_length (by omega)]
          · rw [List.drop_append_of_le_length (by omega)]
        · intro h; omega

theorem readFull_full (r : Reader) (k : Nat) (h : k ≤ r.data.length) :
    (readFull r k).1 = .full (r.data.take k) ∧ (readFull r k).2.data = r.data.drop k ∧
    (readFull r k).2.eofWithData = r.eofWithData := by
  have sp := (readLoop_spec r.eofWithData r.chunks k []).1 h
  unfold readFull
  simp only [Reader.data] at *
  rw [sp.1]
  simp only [List.nil_append, List.length_take]
  rw [if_pos (by omega)]
  exact ⟨rfl, sp.2, rfl⟩

theorem readFull_eof (r : Reader) (k : Nat) (h0 : 0 < k) (h : r.data = []) :
    (readFull r k).1 = .eof ∧ (readFull r k).2.data = [] ∧
    (readFull r k).2.eofWithData = r.eofWithData := by
  have sp := (readLoop_spec r.eofWithData r.chunks k []).2 (by simp only [Reader.data] at h; rw [h]; exact h0)
  unfold readFull
  simp only [Reader.data] at *
  rw [sp.1, h]
  simp only [List.nil_append, List.length_nil]
  rw [if_neg (by omega)]
  simp [sp.2]

theorem readFull_short (r : Reader) (k : Nat) (h : r.data.length < k) (h0 : r.data ≠ []) :
    (readFull r k).1 = .unexpected r.data.length ∧ (readFull r k).2.data = [] ∧
    (readFull r k).2.eofWithData = r.eofWithData := by
  have sp := (readLoop_spec r.eofWithData r.chunks k []).2 h
  have hl : 0 < r.data.length := List.length_pos_iff.mpr h0
  unfold readFull
  simp only [Reader.data] at *
  rw [sp.1]
  simp only [List.nil_append]
  rw [if_neg (by omega), if_neg (by omega)]
  simp [sp.2]

theorem readFull_append (r : Reader) (a rest : List Byte) (h : r.data = a ++ rest) :
    ∃ r', readFull r a.length = (.full a, r') ∧ r'.data = rest ∧ r'.eofWithData = r.eofWithData := by
  have sp := readFull_full r a.length (by rw [h]; simp)
  refine ⟨(readFull r a.length).2, ?_, ?_, sp.2.2⟩
  · apply Prod.ext
    · rw [sp.1, h]; simp
    · rfl
  · rw [sp.2.1, h]; simp

/-- the wire form of hashes: 32 bytes, decodable -/
structure HashBytesOK (H : Type) [HashBytes H] : Prop where
  len : ∀ h : H, (toBytes h).length = 32
  rt : ∀ h : H, ofBytes (toBytes h) = h

variable {H : Type} [DecidableEq H] [Hasher H] [HashBytes H]

/-- `p.NodeMap[h.mini()] = node` for a list of leaves, in order -/
def putAll (nm : NodeMap H) (hs : List H) : NodeMap H := hs.foldl (fun m h => m.put (mini h) h) nm

theorem putAll_append (nm : NodeMap H) (a b : List H) : putAll nm (a ++ b) = putAll (putAll nm a) b := by
  simp [putAll, List.foldl_append]

theorem encNode_length (ok : HashBytesOK H) : ∀ (s n : CTree H), 34 ≤ (encNode n s).length := by
  intro s n
  cases s <;> simp [encNode, ok.len] <;> omega

/-- the hashes `readOne` enters into the node map: it skips the all-zero hash -/
def nz (hs : List H) : List H := hs.filter (· != zero)

theorem nz_append (a b : List H) : nz (a ++ b) = nz a ++ nz b := by simp [nz]

theorem nz_eq_self {hs : List H} (h : ∀ x ∈ hs, x ≠ zero) : nz hs = hs := by
  unfold nz
  rw [List.filter_eq_self]
  intro x hx
  simpa using h x hx

/-- Decoding what `writeOne` wrote for the node of `n` (sibling `s`), followed by anything,
through ANY chunking: the pointer node of `n`, the leaves met entered into the node map,
exactly the node's bytes consumed. -/
theorem readOne_encNode (ok : HashBytesOK H) : ∀ (s n : CTree H) (fuel : Nat) (r : Reader) (nm : NodeMap H)
    (rest : List Byte), r.data = encNode n s ++ rest → (encNode n s).length ≤ fuel →
    ∃ r', readOne fuel r nm = ⟨(encNode n s).length, .ok (PNode.ofNode n s, putAll nm (nz (wireLeavesNode n s)), r')⟩ ∧
      r'.data = rest ∧ r'.eofWithData = r.eofWithData := by
  intro s
  induction s with
  | leaf x =>
    intro n fuel r nm rest hd hf
    have hlen : (encNode n (CTree.leaf x)).length = 34 := by simp [encNode, ok.len]
    obtain ⟨f, rfl⟩ : ∃ f, fuel = f + 1 := ⟨fuel - 1, by omega⟩
    simp only [encNode, List.append_assoc] at hd
    obtain ⟨r1, e1, d1, w1⟩ := readFull_append r (toBytes n.hash) _ hd
    rw [ok.len] at e1
    obtain ⟨r2, e2, d2, w2⟩ := readFull_append r1 [flag (isLeafT n)] _ (by rw [d1]; rfl)
    obtain ⟨r3, e3, d3, w3⟩ := readFull_append r2 [0#8] _ (by rw [d2]; rfl)
    simp only [List.length_singleton] at e2 e3
    refine ⟨r3, ?_, d3, by rw [w3, w2, w1]⟩
    rw [hlen]
    simp only [readOne, e1, e2, e3, ok.rt]
    cases hn : isLeafT n with
    | true =>
      by_cases hz0 : n.hash = zero <;> simp [flag, wireLeavesNode, PNode.ofNode, putAll, nz, hn, hz0, mini]
    | false =>
      simp [flag, wireLeavesNode, PNode.ofNode, putAll, nz, hn]
  | node sl sr ihl ihr =>
    intro n fuel r nm rest hd hf
    have hlen : (encNode n (CTree.node sl sr)).length = 34 + (encNode sl sr).length + (encNode sr sl).length := by
      simp [encNode, ok.len]; omega
    obtain ⟨f, rfl⟩ : ∃ f, fuel = f + 1 := ⟨fuel - 1, by omega⟩
    simp only [encNode, List.append_assoc] at hd
    obtain ⟨r1, e1, d1, w1⟩ := readFull_append r (toBytes n.hash) _ hd
    rw [ok.len] at e1
    obtain ⟨r2, e2, d2, w2⟩ := readFull_append r1 [flag (isLeafT n)] _ (by rw [d1]; rfl)
    obtain ⟨r3, e3, d3, w3⟩ := readFull_append r2 [1#8] _ (by rw [d2]; rfl)
    simp only [List.length_singleton] at e2 e3
    -- the node map after this node's own leaf flag
    let nm1 : NodeMap H := putAll nm (nz (if isLeafT n then [n.hash] else []))
    obtain ⟨r4, e4, d4, w4⟩ := ihr sl f r3 nm1 (encNode sr sl ++ rest) (by rw [d3]) (by omega)
    obtain ⟨r5, e5, d5, w5⟩ := ihl sr f r4 (putAll nm1 (nz (wireLeavesNode sl sr))) rest (by rw [d4]) (by omega)
    refine ⟨r5, ?_, d5, by rw [w5, w4, w3, w2, w1]⟩
    rw [hlen]
    have hnm : (if (flag (isLeafT n) == 1#8) = true then
        (if (n.hash != zero) = true then NodeMap.put nm ((toBytes n.hash).take 12) n.hash else nm) else nm) = nm1 := by
      cases hn : isLeafT n with
      | true =>
        by_cases hz0 : n.hash = zero <;> simp [nm1, flag, putAll, nz, hn, hz0, mini]
      | false => simp [nm1, flag, putAll, nz, hn]
    simp only [readOne, e1, e2, e3, ok.rt, List.headD_cons, hnm, e4, e5]
    simp only [wireLeavesNode, nz_append, putAll_append, PNode.ofNode, nm1]
    simp

theorem encRoot_length (ok : HashBytesOK H) (t : Option (CTree H)) : 34 ≤ (encRoot t).length := by
  match t with
  | none => simp [encRoot, ok.len]
  | some (.leaf h) => simp [encRoot, ok.len]
  | some (.node l r) => simp [encRoot, ok.len]; omega

/-- a root is written like a node that is its own sibling (it points to its own children);
an empty root like a childless node with the all-zero hash -/
def selfT : Option (CTree H) → CTree H
  | none => .leaf zero
  | some t => t

theorem encRoot_self (t : Option (CTree H)) : encRoot t = encNode (selfT t) (selfT t) := by
  match t with
  | none => simp [encRoot, encNode, selfT, isLeafT, flag, CTree.hash]
  | some (.leaf h) => simp [encRoot, encNode, selfT, isLeafT, flag, CTree.hash]
  | some (.node l r) => simp [encRoot, encNode, selfT, isLeafT, flag]

theorem ofRoot_self (t : Option (CTree H)) : PNode.ofRoot t = PNode.ofNode (selfT t) (selfT t) := by
  match t with
  | none => simp [PNode.ofRoot, PNode.ofNode, selfT, CTree.hash]
  | some (.leaf h) => simp [PNode.ofRoot, PNode.ofNode, selfT, CTree.hash]
  | some (.node l r) => simp [PNode.ofRoot, PNode.ofNode, selfT]

theorem wireLeaves_self (t : Option (CTree H)) : nz (wireLeavesNode (selfT t) (selfT t)) = nz (wireLeavesRoot t) := by
  match t with
  | none => simp [wireLeavesRoot, wireLeavesNode, selfT, isLeafT, nz, CTree.hash]
  | some (.leaf h) => simp [wireLeavesRoot, wireLeavesNode, selfT, isLeafT, CTree.hash]
  | some (.node l r) => simp [wireLeavesRoot, wireLeavesNode, selfT, isLeafT]

theorem readOne_encRoot (ok : HashBytesOK H) (t : Option (CTree H)) (fuel : Nat) (r : Reader) (nm : NodeMap H)
    (rest : List Byte) (hd : r.data = encRoot t ++ rest) (hf : (encRoot t).length ≤ fuel) :
    ∃ r', readOne fuel r nm = ⟨(encRoot t).length, .ok (PNode.ofRoot t, putAll nm (nz (wireLeavesRoot t)), r')⟩ ∧
      r'.data = rest ∧ r'.eofWithData = r.eofWithData := by
  rw [encRoot_self] at hd hf ⊢
  rw [ofRoot_self, ← wireLeaves_self]
  exact readOne_encNode ok _ _ fuel r nm rest hd hf

theorem readRoots_enc (ok : HashBytesOK H) : ∀ (ts : List (Option (CTree H))) (fuel : Nat) (r : Reader)
    (nm : NodeMap H) (total : Nat) (rest : List Byte),
    r.data = ts.flatMap encRoot ++ rest → (ts.flatMap encRoot).length ≤ fuel →
    ∃ r', readRoots fuel ts.length r nm total =
        ⟨total + (ts.flatMap encRoot).length, .ok (ts.map PNode.ofRoot, putAll nm (nz (ts.flatMap wireLeavesRoot)), r')⟩ ∧
      r'.data = rest ∧ r'.eofWithData = r.eofWithData := by
  intro ts
  induction ts with
  | nil =>
    intro fuel r nm total rest hd _
    exact ⟨r, by simp [readRoots, putAll, nz], by simpa using hd, rfl⟩
  | cons t ts ih =>
    intro fuel r nm total rest hd hf
    simp only [List.flatMap_cons, List.length_append, List.append_assoc] at hd hf ⊢
    obtain ⟨r1, e1, d1, w1⟩ := readOne_encRoot ok t fuel r nm _ hd (by omega)
    obtain ⟨r2, e2, d2, w2⟩ := ih fuel r1 (putAll nm (nz (wireLeavesRoot t))) (total + (encRoot t).length) rest d1 (by omega)
    refine ⟨r2, ?_, d2, by rw [w2, w1]⟩
    simp only [List.length_cons, readRoots, e1, e2, nz_append, putAll_append, List.map_cons]
    simp [Nat.add_assoc]

theorem treeRowsFrom_length (n : Nat) : ∀ k, (treeRowsFrom k n).length = (List.range (k + 1)).countP (fun i => n.testBit i) := by
  intro k
  induction k with
  | zero => cases h : n.testBit 0 <;> simp [treeRowsFrom, h]
  | succ k ih =>
    rw [List.range_succ, List.countP_append]
    unfold treeRowsFrom
    cases h : n.testBit (k + 1) <;> simp [h, ih]

theorem numRoots_eq {n : Nat} (hn : n < 2 ^ 64) : (numRoots (BitVec.ofNat 64 n)).toNat = (treeRows n).length := by
  unfold numRoots GoInt.onesCount64 treeRows
  rw [treeRowsFrom_length]
  have hf : (fun i => (BitVec.ofNat 64 n).getLsbD i) = (fun i => decide (i < 64) && n.testBit i) := by
    funext i; rw [BitVec.getLsbD_ofNat]
  rw [hf]
  have h64 : n.testBit 64 = false := Nat.testBit_lt_two_pow hn
  have e : (List.range 64).countP (fun i => decide (i < 64) && n.testBit i) = (List.range 64).countP (fun i => n.testBit i) := by
    apply List.countP_congr
    intro i hi
    simp [List.mem_range.mp hi]
  rw [e, show List.range (64 + 1) = List.range 64 ++ [64] from List.range_succ, List.countP_append]
  simp only [List.countP_cons, List.countP_nil, h64, Nat.zero_add]
  have hle : (List.range 64).countP (fun i => n.testBit i) ≤ 64 := by
    have := List.countP_le_length (p := fun i => n.testBit i) (l := List.range 64)
    simpa using this
  simp only [GoInt.ofInt, Bool.false_eq_true, if_false, Nat.add_zero]
  rw [BitVec.toNat_ofInt]
  omega

theorem put_fresh : ∀ (nm : NodeMap H) (k : List Byte) (v : H), k ∉ nm.map (·.1) → NodeMap.put nm k v = nm ++ [(k, v)] := by
  intro nm
  induction nm with
  | nil => intro k v _; rfl
  | cons e nm ih =>
    intro k v hk
    obtain ⟨k', v'⟩ := e
    simp only [List.map_cons, List.mem_cons, not_or] at hk
    have : (k' == k) = false := by
      rw [beq_eq_false_iff_ne]; exact fun h => hk.1 h.symm
    simp [NodeMap.put, this, ih k v hk.2]

theorem putAll_fresh : ∀ (hs : List H) (nm : NodeMap H), ((nm.map (·.1)) ++ hs.map mini).Nodup →
    putAll nm hs = nm ++ hs.map (fun h => (mini h, h)) := by
  intro hs
  induction hs with
  | nil => intro nm _; simp [putAll]
  | cons h hs ih =>
    intro nm hnd
    have hfresh : mini h ∉ nm.map (·.1) := by
      intro hmem
      rw [List.nodup_append] at hnd
      exact hnd.2.2 _ hmem _ (by simp) rfl
    have e : putAll nm (h :: hs) = putAll (nm.put (mini h) h) hs := rfl
    rw [e, put_fresh nm _ _ hfresh, ih]
    · simp
    · simp only [List.map_append, List.map_cons, List.map_nil, List.append_assoc, List.singleton_append]
      simpa using hnd

theorem sub_toInt {n d : Nat} (hn : n < 2 ^ 63) (hd : d ≤ n) :
    (BitVec.ofNat 64 n - BitVec.ofNat 64 d).toInt = ((n - d : Nat) : Int) := by
  have h1 : (BitVec.ofNat 64 n - BitVec.ofNat 64 d).toNat = n - d := by
    rw [BitVec.toNat_sub, BitVec.toNat_ofNat, BitVec.toNat_ofNat]
    omega
  rw [BitVec.toInt_eq_toNat_cond, h1]
  rw [if_pos (by omega)]

theorem restorePollard_encode_wire (ok : HashBytesOK H) (F : Forest H) (hn : F.numLeaves < 2 ^ 63)
    (hz : ∀ h ∈ wireLeaves F, h ≠ zero) (hm : ((wireLeaves F).map mini).Nodup)
    (hcount : (wireLeaves F).length + numDead F = F.numLeaves)
    (r : Reader) (hd : r.data = encodePollard F) :
    restorePollard r = ⟨(encodePollard F).length, .ok (PState.ofForest F)⟩ := by
  unfold encodePollard at hd
  simp only [List.append_assoc] at hd
  obtain ⟨r1, e1, d1, w1⟩ := readFull_append r (le64 (BitVec.ofNat 64 F.numLeaves)) _ hd
  obtain ⟨r2, e2, d2, w2⟩ := readFull_append r1 (le64 (BitVec.ofNat 64 (numDead F))) _ d1
  rw [le64_length] at e1 e2
  have hroots : (numRoots (BitVec.ofNat 64 F.numLeaves)).toNat = (F.trees.map (·.2)).length := by
    rw [numRoots_eq (by omega)]
    simp [Forest.trees]
  have hflat : F.trees.flatMap (fun t => encRoot t.2) = (F.trees.map (·.2)).flatMap encRoot := by
    rw [List.flatMap_map]
  have hwl : wireLeaves F = (F.trees.map (·.2)).flatMap wireLeavesRoot := by
    unfold wireLeaves; rw [List.flatMap_map]
  have hlen : r.data.length = 16 + ((F.trees.map (·.2)).flatMap encRoot).length := by
    rw [hd, ← hflat]; simp [le64_length]; omega
  obtain ⟨r3, e3, _, _⟩ := readRoots_enc ok (F.trees.map (·.2)) (r.data.length + 1) r2 [] 16 []
    (by rw [d2, hflat]; simp) (by omega)
  rw [← hwl, nz_eq_self hz] at e3
  have hnm : putAll ([] : NodeMap H) (wireLeaves F) = (wireLeaves F).map (fun h => (mini h, h)) := by
    rw [putAll_fresh _ _ (by simpa using hm)]; simp
  have hdead : numDead F ≤ F.numLeaves := by omega
  unfold restorePollard
  simp only [e1, e2, unle64_le64, hroots, e3, hnm]
  rw [sub_toInt hn hdead]
  have : ((List.map (fun h => (mini h, h)) (wireLeaves F)).length : Int) = ((F.numLeaves - numDead F : Nat) : Int) := by
    rw [List.length_map]; congr 1; omega
  simp only [this, bne_self_eq_false, Bool.false_eq_true, if_false]
  congr 1
  · unfold encodePollard; rw [hflat]; simp [le64_length]; omega
  · simp [PState.ofForest, List.map_map]
/-- the leaves strictly below a node -/
def strictBelow : CTree H → List H
  | .leaf _ => []
  | .node l r => l.leaves ++ r.leaves

theorem leaves_eq (t : CTree H) : t.leaves = (if isLeafT t then [t.hash] else []) ++ strictBelow t := by
  cases t <;> simp [CTree.leaves, isLeafT, strictBelow, CTree.hash]

theorem wireLeavesNode_perm : ∀ (s n : CTree H),
    (wireLeavesNode n s).Perm ((if isLeafT n then [n.hash] else []) ++ strictBelow s) := by
  intro s
  induction s with
  | leaf x => intro n; simp [wireLeavesNode, strictBelow]
  | node sl sr ihl ihr =>
    intro n
    simp only [wireLeavesNode, strictBelow]
    apply List.Perm.append_left
    have h1 := ihr sl   -- wireLeavesNode sl sr ~ (sl leaf?) ++ strictBelow sr
    have h2 := ihl sr   -- wireLeavesNode sr sl ~ (sr leaf?) ++ strictBelow sl
    rw [leaves_eq sl, leaves_eq sr]
    refine (h1.append h2).trans ?_
    -- (a ++ B) ++ (c ++ D) ~ (a ++ D) ++ (c ++ B)
    generalize (if isLeafT sl = true then [sl.hash] else []) = a
    generalize (if isLeafT sr = true then [sr.hash] else []) = c
    generalize strictBelow sr = B
    generalize strictBelow sl = D
    simp only [List.append_assoc]
    apply List.Perm.append_left
    -- B ++ (c ++ D) ~ D ++ (c ++ B)
    refine List.perm_append_comm.trans ?_
    simp only [List.append_assoc]
    refine (List.perm_append_comm (l₁ := c)).trans ?_
    simp only [List.append_assoc]
    apply List.Perm.append_left
    exact List.perm_append_comm

theorem wireLeavesRoot_perm (t : Option (CTree H)) :
    (wireLeavesRoot t).Perm (match t with | some t => t.leaves | none => []) := by
  match t with
  | none => simp [wireLeavesRoot]
  | some (.leaf h) => simp [wireLeavesRoot, CTree.leaves]
  | some (.node l r) =>
    simp only [wireLeavesRoot, CTree.leaves]
    rw [leaves_eq l, leaves_eq r]
    refine ((wireLeavesNode_perm r l).append (wireLeavesNode_perm l r)).trans ?_
    generalize (if isLeafT l = true then [l.hash] else []) = a
    generalize (if isLeafT r = true then [r.hash] else []) = c
    generalize strictBelow r = B
    generalize strictBelow l = D
    simp only [List.append_assoc]
    apply List.Perm.append_left
    refine List.perm_append_comm.trans ?_
    simp only [List.append_assoc]
    refine (List.perm_append_comm (l₁ := c)).trans ?_
    simp only [List.append_assoc]
    apply List.Perm.append_left
    exact List.perm_append_comm

theorem join_leaves_eq (a b : Option (CTree H)) :
    (match join a b with | some t => t.leaves | none => []) =
    (match a with | some t => t.leaves | none => []) ++ (match b with | some t => t.leaves | none => []) := by
  cases a <;> cases b <;> simp [join, CTree.leaves]

theorem collapse_leaves_eq : ∀ (k : Nat) (l : List (Option H)),
    (match collapse k l with | some t => t.leaves | none => []) = (l.take (2 ^ k)).filterMap id := by
  intro k
  induction k with
  | zero =>
    intro l
    match l with
    | [] => simp [collapse]
    | none :: _ => simp [collapse]
    | some h :: _ => simp [collapse, CTree.leaves]
  | succ k ih =>
    intro l
    simp only [collapse]
    rw [join_leaves_eq, ih, ih, ← List.filterMap_append]
    congr 1
    rw [List.take_take, Nat.min_self]
    have : 2 ^ (k + 1) = 2 ^ k + 2 ^ k := by rw [Nat.pow_succ]; omega
    rw [this, List.take_add]
theorem treeStart_eq (n h : Nat) : treeStart n h = n / 2 ^ (h + 1) * 2 ^ (h + 1) := by
  unfold treeStart
  rw [Nat.shiftRight_eq_div_pow, Nat.shiftLeft_eq]

/-- `A(k) = ⌊n / 2^(k+1)⌋·2^(k+1)`: going one bit down adds `2^k` exactly when bit `k` is set -/
theorem start_step (n k : Nat) :
    n / 2 ^ k * 2 ^ k = n / 2 ^ (k + 1) * 2 ^ (k + 1) + (if n.testBit k then 2 ^ k else 0) := by
  have hq : n / 2 ^ (k + 1) = n / 2 ^ k / 2 := by rw [Nat.pow_succ, Nat.div_div_eq_div_mul]
  have hb : n.testBit k = decide (n / 2 ^ k % 2 = 1) := by
    rw [Nat.testBit_eq_decide_div_mod_eq]
  rw [hq, hb, Nat.pow_succ]
  generalize n / 2 ^ k = q
  generalize 2 ^ k = P
  have h2 := Nat.div_add_mod q 2
  rcases Nat.mod_two_eq_zero_or_one q with h | h
  · simp only [h, Nat.zero_ne_one, decide_false, Bool.false_eq_true, if_false, Nat.add_zero]
    have : q = 2 * (q / 2) := by omega
    conv => lhs; rw [this]
    rw [Nat.mul_comm P 2, ← Nat.mul_assoc, Nat.mul_comm (q / 2) 2]
  · simp only [h, decide_true, if_true]
    have : q = 2 * (q / 2) + 1 := by omega
    conv => lhs; rw [this]
    rw [Nat.add_mul, Nat.one_mul, Nat.mul_comm P 2, ← Nat.mul_assoc, Nat.mul_comm (q / 2) 2]

theorem chunks_cover {α : Type} (slots : List α) : ∀ k,
    (treeRowsFrom k slots.length).flatMap (fun h => (slots.drop (treeStart slots.length h)).take (2 ^ h)) =
    slots.drop (slots.length / 2 ^ (k + 1) * 2 ^ (k + 1)) := by
  intro k
  induction k with
  | zero =>
    have st := start_step slots.length 0
    simp only [Nat.pow_zero, Nat.div_one, Nat.mul_one, Nat.zero_add] at st
    unfold treeRowsFrom
    cases hb : slots.length.testBit 0 with
    | true =>
      simp only [hb, if_true] at st
      simp only [if_true, List.flatMap_cons, List.flatMap_nil, List.append_nil, treeStart_eq, Nat.zero_add, Nat.pow_one]
      apply List.take_of_length_le
      rw [List.length_drop]; omega
    | false =>
      simp only [hb, Bool.false_eq_true, if_false, Nat.add_zero] at st
      simp only [Bool.false_eq_true, if_false, List.flatMap_nil, Nat.zero_add, Nat.pow_one]
      rw [← st, List.drop_length]
  | succ k ih =>
    have st := start_step slots.length (k + 1)
    unfold treeRowsFrom
    cases hb : slots.length.testBit (k + 1) with
    | true =>
      simp only [hb, if_true] at st
      simp only [if_true, List.flatMap_cons]
      rw [ih, treeStart_eq, st, ← List.drop_drop, List.take_append_drop]
    | false =>
      simp only [hb, Bool.false_eq_true, if_false, Nat.add_zero] at st
      simp only [Bool.false_eq_true, if_false]
      rw [ih, st]

theorem chunks_cover_all {α : Type} (slots : List α) (hn : slots.length < 2 ^ 65) :
    (treeRows slots.length).flatMap (fun h => (slots.drop (treeStart slots.length h)).take (2 ^ h)) = slots := by
  unfold treeRows
  rw [chunks_cover slots 64, Nat.div_eq_of_lt hn]
  simp
theorem perm_flatMap {α β : Type} (f g : α → List β) : ∀ (l : List α), (∀ a ∈ l, (f a).Perm (g a)) →
    (l.flatMap f).Perm (l.flatMap g) := by
  intro l
  induction l with
  | nil => intro _; simp
  | cons a l ih =>
    intro h
    simp only [List.flatMap_cons]
    exact (h a (by simp)).append (ih (fun b hb => h b (by simp [hb])))

theorem filterMap_flatMap' {α β γ : Type} (f : α → List β) (g : β → Option γ) : ∀ (l : List α),
    (l.flatMap f).filterMap g = l.flatMap (fun a => (f a).filterMap g) := by
  intro l
  induction l with
  | nil => simp
  | cons a l ih => simp [List.flatMap_cons, List.filterMap_append, ih]

theorem wireLeaves_perm (F : Forest H) (hn : F.numLeaves < 2 ^ 65) : (wireLeaves F).Perm F.liveLeaves := by
  unfold wireLeaves Forest.trees Forest.liveLeaves
  rw [List.flatMap_map]
  have hcov := chunks_cover_all F.slots hn
  conv => rhs; rw [← hcov]
  rw [filterMap_flatMap']
  apply perm_flatMap
  intro h _
  refine (wireLeavesRoot_perm _).trans ?_
  simp only [Forest.numLeaves]
  rw [collapse_leaves_eq, List.take_take, Nat.min_self]

theorem live_dead_count (F : Forest H) : F.liveLeaves.length + numDead F = F.numLeaves := by
  unfold Forest.liveLeaves numDead Forest.numLeaves
  induction F.slots with
  | nil => simp
  | cons a l ih =>
    cases a <;> simp at ih ⊢ <;> omega

/-- what the round-trip theorems assume of the forest: fewer than 2^63 leaves (Go converts the
leaf count to `int`), no live leaf is the all-zero hash, and the 12-byte `NodeMap` keys of the
live leaves are pairwise distinct -/
structure LeavesOK (F : Forest H) : Prop where
  small : F.numLeaves < 2 ^ 63
  nonzero : ∀ h ∈ F.liveLeaves, h ≠ zero
  miniDistinct : (F.liveLeaves.map mini).Nodup

theorem restorePollard_encode (ok : HashBytesOK H) (F : Forest H) (hF : LeavesOK F)
    (r : Reader) (hd : r.data = encodePollard F) :
    restorePollard r = ⟨(encodePollard F).length, .ok (PState.ofForest F)⟩ := by
  have hp := wireLeaves_perm F (by have := hF.small; omega)
  apply restorePollard_encode_wire ok F hF.small
  · intro h hh; exact hF.nonzero h (hp.mem_iff.mp hh)
  · exact ((hp.map mini).nodup_iff).mpr hF.miniDistinct
  · rw [hp.length_eq]; exact live_dead_count F
  · exact hd
theorem encNode_count (ok : HashBytesOK H) : ∀ (s n : CTree H), (encNode n s).length = 34 * (PNode.ofNode n s).count := by
  intro s
  induction s with
  | leaf x => intro n; simp [encNode, PNode.ofNode, PNode.count, ok.len]
  | node sl sr ihl ihr =>
    intro n
    simp only [encNode, PNode.ofNode, PNode.count, List.length_append, ok.len, ihr sl, ihl sr]
    simp; omega

theorem encRoot_count (ok : HashBytesOK H) (t : Option (CTree H)) : (encRoot t).length = 34 * (PNode.ofRoot t).count := by
  match t with
  | none => simp [encRoot, PNode.ofRoot, PNode.count, ok.len]
  | some (.leaf h) => simp [encRoot, PNode.ofRoot, PNode.count, ok.len]
  | some (.node l r) =>
    simp only [encRoot, PNode.ofRoot, PNode.count, List.length_append, ok.len, encNode_count ok]
    simp; omega

theorem serializeSize_eq (ok : HashBytesOK H) (F : Forest H) :
    serializeSize (PState.ofForest F) = (encodePollard F).length := by
  unfold serializeSize encodePollard PState.ofForest
  simp only [List.length_append, le64_length, List.map_map]
  have : ∀ (ts : List (Nat × Option (CTree H))),
      (ts.flatMap (fun t => encRoot t.2)).length = 34 * (ts.map (PNode.count ∘ fun t => PNode.ofRoot t.2)).sum := by
    intro ts
    induction ts with
    | nil => simp
    | cons t ts ih => simp [List.flatMap_cons, ih, encRoot_count ok, Nat.mul_add]
  rw [this]
  omega

theorem wr_ok (p : List Byte) (total : Nat) (w : Sink) (k : Nat → Sink → Res Unit × Sink)
    (h : p.length ≤ w.room) :
    wr p total w k = k (total + p.length) ⟨w.written ++ p, w.room - p.length⟩ := by
  simp [wr, Sink.write, h]

theorem wr_fail (p : List Byte) (total : Nat) (w : Sink) (k : Nat → Sink → Res Unit × Sink)
    (h : w.room < p.length) :
    wr p total w k = (⟨total, .err⟩, ⟨w.written ++ p.take w.room, 0⟩) := by
  simp [wr, Sink.write, Nat.not_le.mpr h]

theorem deadEnd_ofNode (n s : CTree H) : (PNode.ofNode n s).deadEnd = isLeafT s := by
  cases s <;> simp [PNode.ofNode, PNode.deadEnd, isLeafT]

theorem data_ofNode (n s : CTree H) : (PNode.ofNode n s).data = n.hash := by
  cases s <;> simp [PNode.ofNode, PNode.data]

/-- `writeOne` on the node of `n` (sibling `s`): with enough room it appends exactly `encNode n s`;
otherwise it fails with a count that does not exceed the room. -/
theorem writeOne_spec (ok : HashBytesOK H) : ∀ (s n : CTree H) (w : Sink),
    ((encNode n s).length ≤ w.room →
      writeOne (PNode.ofNode n s) (isLeafT n) w =
        (⟨(encNode n s).length, .ok ()⟩, ⟨w.written ++ encNode n s, w.room - (encNode n s).length⟩)) ∧
    (w.room < (encNode n s).length →
      (writeOne (PNode.ofNode n s) (isLeafT n) w).1.out = .err ∧
      (writeOne (PNode.ofNode n s) (isLeafT n) w).1.n ≤ w.room) := by
  intro s
  induction s with
  | leaf x =>
    intro n w
    have hl := ok.len n.hash
    simp only [encNode, PNode.ofNode, List.length_append, hl, List.length_cons, List.length_nil]
    constructor
    · intro h
      rw [writeOne]
      simp only [PNode.data]
      rw [wr_ok _ _ _ _ (by omega), wr_ok _ _ _ _ (by simp; omega), wr_ok _ _ _ _ (by simp; omega)]
      simp [hl, List.append_assoc]
      omega
    · intro h
      rw [writeOne]
      simp only [PNode.data]
      by_cases h1 : 32 ≤ w.room
      · rw [wr_ok _ _ _ _ (by omega)]
        by_cases h2 : 33 ≤ w.room
        · rw [wr_ok _ _ _ _ (by simp; omega), wr_fail _ _ _ _ (by simp; omega)]
          simp; omega
        · rw [wr_fail _ _ _ _ (by simp; omega)]
          simp; omega
      · rw [wr_fail _ _ _ _ (by omega)]
        simp
  | node sl sr ihl ihr =>
    intro n w
    have hl := ok.len n.hash
    have hlen : (encNode n (CTree.node sl sr)).length = 34 + (encNode sl sr).length + (encNode sr sl).length := by
      simp [encNode, ok.len]; omega
    rw [hlen]
    have hA := encNode_length ok sr sl
    have hB := encNode_length ok sl sr
    constructor
    · intro h
      rw [PNode.ofNode, writeOne]
      simp only [PNode.data]
      rw [wr_ok _ _ _ _ (by omega), wr_ok _ _ _ _ (by simp; omega), wr_ok _ _ _ _ (by simp; omega)]
      simp only [deadEnd_ofNode]
      rw [(ihr sl _).1 (by simp; omega)]
      simp only []
      rw [(ihl sr _).1 (by simp; omega)]
      simp only [encNode, List.append_assoc, hl, List.length_cons, List.length_nil]
      simp
      omega
    · intro h
      rw [PNode.ofNode, writeOne]
      simp only [PNode.data]
      by_cases h1 : 32 ≤ w.room
      · rw [wr_ok _ _ _ _ (by omega)]
        by_cases h2 : 33 ≤ w.room
        · rw [wr_ok _ _ _ _ (by simp; omega)]
          by_cases h3 : 34 ≤ w.room
          · rw [wr_ok _ _ _ _ (by simp; omega)]
            simp only [deadEnd_ofNode]
            by_cases h4 : 34 + (encNode sl sr).length ≤ w.room
            · rw [(ihr sl _).1 (by simp; omega)]
              simp only []
              have hf := (ihl sr ⟨w.written ++ toBytes n.hash ++ [flag (isLeafT n)] ++ [1#8] ++ encNode sl sr,
                w.room - (toBytes n.hash).length - [flag (isLeafT n)].length - [1#8].length - (encNode sl sr).length⟩).2
                (by simp; omega)
              revert hf
              generalize writeOne (PNode.ofNode sr sl) (isLeafT sr) _ = res
              intro hf
              obtain ⟨⟨rn, ro⟩, rw'⟩ := res
              simp only at hf
              rw [hf.1]
              simp [failAs]; omega
            · have hf := (ihr sl ⟨w.written ++ toBytes n.hash ++ [flag (isLeafT n)] ++ [1#8],
                w.room - (toBytes n.hash).length - [flag (isLeafT n)].length - [1#8].length⟩).2 (by simp; omega)
              revert hf
              generalize writeOne (PNode.ofNode sl sr) (isLeafT sl) _ = res
              intro hf
              obtain ⟨⟨rn, ro⟩, rw'⟩ := res
              simp only at hf
              rw [hf.1]
              simp [failAs]; omega
          · rw [wr_fail _ _ _ _ (by simp; omega)]
            simp; omega
        · rw [wr_fail _ _ _ _ (by simp; omega)]
          simp; omega
      · rw [wr_fail _ _ _ _ (by omega)]
        simp
theorem writeRoots_spec (ok : HashBytesOK H) : ∀ (ts : List (Option (CTree H))) (total : Nat) (w : Sink),
    ((ts.flatMap encRoot).length ≤ w.room →
      writeRoots (ts.map PNode.ofRoot) total w =
        (⟨total + (ts.flatMap encRoot).length, .ok ()⟩,
         ⟨w.written ++ ts.flatMap encRoot, w.room - (ts.flatMap encRoot).length⟩)) ∧
    (w.room < (ts.flatMap encRoot).length →
      (writeRoots (ts.map PNode.ofRoot) total w).1.out = .err ∧
      (writeRoots (ts.map PNode.ofRoot) total w).1.n ≤ total + w.room) := by
  intro ts
  induction ts with
  | nil => intro total w; simp [writeRoots]
  | cons t ts ih =>
    intro total w
    simp only [List.flatMap_cons, List.length_append, List.map_cons, writeRoots]
    rw [ofRoot_self, deadEnd_ofNode, encRoot_self]
    have sp := writeOne_spec ok (selfT t) (selfT t) w
    constructor
    · intro h
      rw [sp.1 (by omega)]
      simp only []
      rw [(ih _ _).1 (by dsimp only; omega)]
      simp only [List.append_assoc, Nat.add_assoc, Nat.sub_sub]
    · intro h
      by_cases h1 : (encNode (selfT t) (selfT t)).length ≤ w.room
      · rw [sp.1 h1]
        simp only []
        have := (ih (total + (encNode (selfT t) (selfT t)).length)
          ⟨w.written ++ encNode (selfT t) (selfT t), w.room - (encNode (selfT t) (selfT t)).length⟩).2 (by dsimp only; omega)
        refine ⟨this.1, ?_⟩
        have := this.2
        simp only at this
        omega
      · have hf := sp.2 (by omega)
        revert hf
        generalize writeOne (PNode.ofNode (selfT t) (selfT t)) (isLeafT (selfT t)) w = res
        intro hf
        obtain ⟨⟨rn, ro⟩, rw'⟩ := res
        simp only at hf
        rw [hf.1]
        simp [failAs]

theorem encodePollard_length (F : Forest H) :
    (encodePollard F).length = 16 + ((F.trees.map (·.2)).flatMap encRoot).length := by
  unfold encodePollard
  rw [List.flatMap_map]
  simp [le64_length]; omega

/-- `WriteTo` into a sink with `room` bytes left: with enough room it appends exactly
`encodePollard F` and reports its length; otherwise it fails, reporting at most `room`. -/
theorem writeTo_spec (ok : HashBytesOK H) (F : Forest H) (w : Sink) :
    ((encodePollard F).length ≤ w.room →
      writeTo (PState.ofForest F) w =
        (⟨(encodePollard F).length, .ok ()⟩,
         ⟨w.written ++ encodePollard F, w.room - (encodePollard F).length⟩)) ∧
    (w.room < (encodePollard F).length →
      (writeTo (PState.ofForest F) w).1.out = .err ∧ (writeTo (PState.ofForest F) w).1.n ≤ w.room) := by
  have hlen := encodePollard_length F
  have hroots : (PState.ofForest F).roots = (F.trees.map (·.2)).map PNode.ofRoot := by
    simp [PState.ofForest, List.map_map]
  have henc : encodePollard F = le64 (BitVec.ofNat 64 F.numLeaves) ++ le64 (BitVec.ofNat 64 (numDead F)) ++
      (F.trees.map (·.2)).flatMap encRoot := by
    unfold encodePollard; rw [List.flatMap_map]
  unfold writeTo
  rw [hroots]
  simp only [PState.ofForest]
  constructor
  · intro h
    rw [wr_ok _ _ _ _ (by rw [le64_length]; omega), wr_ok _ _ _ _ (by dsimp only; simp only [le64_length]; omega)]
    rw [(writeRoots_spec ok _ _ _).1 (by dsimp only; simp only [le64_length]; omega)]
    rw [henc]
    simp only [le64_length, List.append_assoc, List.length_append, Nat.add_assoc, Nat.sub_sub, Nat.zero_add]
  · intro h
    by_cases h1 : 8 ≤ w.room
    · rw [wr_ok _ _ _ _ (by rw [le64_length]; omega)]
      by_cases h2 : 16 ≤ w.room
      · rw [wr_ok _ _ _ _ (by dsimp only; simp only [le64_length]; omega)]
        have := (writeRoots_spec ok (F.trees.map (·.2)) (0 + (le64 (BitVec.ofNat 64 F.numLeaves)).length +
          (le64 (BitVec.ofNat 64 (numDead F))).length)
          ⟨w.written ++ le64 (BitVec.ofNat 64 F.numLeaves) ++ le64 (BitVec.ofNat 64 (numDead F)),
           w.room - (le64 (BitVec.ofNat 64 F.numLeaves)).length - (le64 (BitVec.ofNat 64 (numDead F))).length⟩).2
          (by dsimp only; simp only [le64_length]; omega)
        refine ⟨this.1, ?_⟩
        have h3 := this.2
        simp only [le64_length] at h3 ⊢
        omega
      · rw [wr_fail _ _ _ _ (by dsimp only; simp only [le64_length]; omega)]
        simp [le64_length]; omega
    · rw [wr_fail _ _ _ _ (by rw [le64_length]; omega)]
      simp
/-- a read that asks for more than the stream still has: `io.EOF` or `io.ErrUnexpectedEOF` -/
theorem readFull_lt (r : Reader) (k : Nat) (h : r.data.length < k) :
    (readFull r k).1 = .eof ∨ (readFull r k).1 = .unexpected r.data.length := by
  by_cases h0 : r.data = []
  · exact Or.inl (readFull_eof r k (by omega) h0).1
  · exact Or.inr (readFull_short r k h h0).1

theorem take_append_ge {α : Type} (A R : List α) (t : Nat) (h : A.length ≤ t) :
    (A ++ R).take t = A ++ R.take (t - A.length) := by
  rw [List.take_append, List.take_of_length_le h]

/-- the first read of `readOne` fails: the whole call fails with count 0 -/
theorem readOne_short (fuel : Nat) (r : Reader) (nm : NodeMap H) (h : r.data.length < 32) :
    (readOne (fuel + 1) r nm).out = .err ∧ (readOne (fuel + 1) r nm).n = 0 := by
  rcases hx : readFull r 32 with ⟨res, r'⟩
  have := readFull_lt r 32 h
  rw [hx] at this
  rcases this with h1 | h1 <;> simp only at h1 <;> subst h1 <;> simp [readOne, hx]

/-- `readOne` on a reader whose stream is `hb ++ [lf] ++ [nf] ++ …` cut after `t < 34` bytes -/
theorem readOne_header_cut (fuel : Nat) (r : Reader) (nm : NodeMap H) (hb : List Byte) (lf nf : Byte)
    (tail : List Byte) (hl : hb.length = 32) (t : Nat) (ht : t < 34)
    (hd : r.data = (hb ++ ([lf, nf] ++ tail)).take t) :
    (readOne (fuel + 1) r nm).out = .err ∧ (readOne (fuel + 1) r nm).n ≤ t := by
  by_cases h1 : t < 32
  · have := readOne_short fuel r nm (by rw [hd, List.length_take]; omega)
    exact ⟨this.1, by omega⟩
  · rw [take_append_ge _ _ _ (by omega)] at hd
    obtain ⟨r1, e1, d1, _⟩ := readFull_append r hb _ hd
    rw [hl] at e1
    by_cases h2 : t = 32
    · subst h2
      have hd1 : r1.data = [] := by rw [d1, hl]; simp
      have := (readFull_eof r1 1 (by omega) hd1).1
      rcases hx : readFull r1 1 with ⟨res, r'⟩
      rw [hx] at this; simp only at this; subst this
      simp [readOne, e1, hx]
    · have h3 : t = 33 := by omega
      subst h3
      have hd1 : r1.data = [lf] := by rw [d1, hl]; simp
      obtain ⟨r2, e2, d2, _⟩ := readFull_append r1 [lf] [] (by rw [hd1]; simp)
      simp only [List.length_singleton] at e2
      have := (readFull_eof r2 1 (by omega) d2).1
      rcases hx : readFull r2 1 with ⟨res, r'⟩
      rw [hx] at this; simp only at this; subst this
      simp [readOne, e1, e2, hx]

theorem readOne_prefix (ok : HashBytesOK H) : ∀ (s n : CTree H) (fuel : Nat) (r : Reader) (nm : NodeMap H) (t : Nat),
    t < (encNode n s).length → r.data = (encNode n s).take t → r.data.length < fuel →
    (readOne fuel r nm).out = .err ∧ (readOne fuel r nm).n ≤ t := by
  intro s
  induction s with
  | leaf x =>
    intro n fuel r nm t ht hd hf
    obtain ⟨f, rfl⟩ : ∃ f, fuel = f + 1 := ⟨fuel - 1, by omega⟩
    have hlen : (encNode n (CTree.leaf x)).length = 34 := by simp [encNode, ok.len]
    simp only [encNode] at hd
    exact readOne_header_cut f r nm _ _ _ [] (ok.len _) t (by omega) (by simpa using hd)
  | node sl sr ihl ihr =>
    intro n fuel r nm t ht hd hf
    obtain ⟨f, rfl⟩ : ∃ f, fuel = f + 1 := ⟨fuel - 1, by omega⟩
    have hlen : (encNode n (CTree.node sl sr)).length = 34 + (encNode sl sr).length + (encNode sr sl).length := by
      simp [encNode, ok.len]; omega
    have hdl : r.data.length = t := by rw [hd, List.length_take]; omega
    simp only [encNode, List.append_assoc] at hd
    by_cases h34 : t < 34
    · exact readOne_header_cut f r nm _ _ _ _ (ok.len _) t h34 hd
    · -- the three header reads succeed
      rw [take_append_ge _ _ _ (by rw [ok.len]; omega), ok.len] at hd
      obtain ⟨r1, e1, d1, _⟩ := readFull_append r (toBytes n.hash) _ hd
      rw [ok.len] at e1
      have hd1 : r1.data = [flag (isLeafT n)] ++ ([1#8] ++ (encNode sl sr ++ encNode sr sl).take (t - 34)) := by
        rw [d1]
        have : t - 32 = (t - 34) + 2 := by omega
        rw [this]; rfl
      obtain ⟨r2, e2, d2, _⟩ := readFull_append r1 [flag (isLeafT n)] _ hd1
      obtain ⟨r3, e3, d3, _⟩ := readFull_append r2 [1#8] _ d2
      simp only [List.length_singleton] at e2 e3
      simp only [readOne, e1, e2, e3, ok.rt, List.headD_cons]
      generalize (if (flag (isLeafT n) == 1#8) = true then
            (if (n.hash != zero) = true then NodeMap.put nm ((toBytes n.hash).take 12) n.hash else nm) else nm) = nm1
      by_cases hA : t - 34 < (encNode sl sr).length
      · -- the cut is inside the left niece
        rw [List.take_append_of_le_length (by omega)] at d3
        have ih := ihr sl f r3 nm1 (t - 34) hA d3 (by rw [d3, List.length_take]; omega)
        revert ih
        generalize readOne f r3 nm1 = res
        intro ih
        obtain ⟨rn, ro⟩ := res
        simp only at ih
        rw [ih.1]
        simp [failAs]; omega
      · -- the left niece is read completely, the cut is inside the right one
        rw [take_append_ge _ _ _ (by omega)] at d3
        obtain ⟨r4, e4, d4, _⟩ := readOne_encNode ok sr sl f r3 nm1 _ d3 (by omega)
        have ih := ihl sr f r4 (putAll nm1 (nz (wireLeavesNode sl sr))) (t - 34 - (encNode sl sr).length) (by omega) d4
          (by rw [d4, List.length_take]; omega)
        revert ih
        rw [e4]
        simp only []
        generalize readOne f r4 (putAll nm1 (nz (wireLeavesNode sl sr))) = res
        intro ih
        obtain ⟨rn, ro⟩ := res
        simp only at ih
        rw [ih.1]
        simp [failAs]; omega

theorem readRoots_prefix (ok : HashBytesOK H) : ∀ (ts : List (Option (CTree H))) (fuel : Nat) (r : Reader)
    (nm : NodeMap H) (total t : Nat),
    t < (ts.flatMap encRoot).length → r.data = (ts.flatMap encRoot).take t → r.data.length < fuel →
    (readRoots fuel ts.length r nm total).out = .err ∧ (readRoots fuel ts.length r nm total).n ≤ total + t := by
  intro ts
  induction ts with
  | nil => intro fuel r nm total t ht; simp at ht
  | cons x ts ih =>
    intro fuel r nm total t ht hd hf
    simp only [List.flatMap_cons, List.length_append] at ht hd
    have hdl : r.data.length = t := by rw [hd, List.length_take, List.length_append]; omega
    simp only [List.length_cons, readRoots]
    by_cases hx : t < (encRoot x).length
    · rw [List.take_append_of_le_length (by omega), encRoot_self] at hd
      rw [encRoot_self] at hx
      have h1 := readOne_prefix ok (selfT x) (selfT x) fuel r nm t hx hd hf
      revert h1
      generalize readOne fuel r nm = res
      intro h1
      obtain ⟨rn, ro⟩ := res
      simp only at h1
      rw [h1.1]
      simp [failAs]
    · rw [take_append_ge _ _ _ (by omega)] at hd
      obtain ⟨r1, e1, d1, _⟩ := readOne_encRoot ok x fuel r nm _ hd (by omega)
      rw [e1]
      simp only []
      have h2 := ih fuel r1 (putAll nm (nz (wireLeavesRoot x))) (total + (encRoot x).length) (t - (encRoot x).length)
        (by omega) d1 (by rw [d1, List.length_take]; omega)
      revert h2
      generalize (readRoots fuel ts.length r1 _ _ : Res (List (PNode H) × NodeMap H × Reader)) = res
      intro h2
      obtain ⟨rn, ro⟩ := res
      simp only at h2
      rw [h2.1]
      simp [failAs]; omega

/-- Restoring from a strict prefix of a valid stream, through any chunking, is an error, and
the reported count does not exceed the bytes that were there. -/
theorem restorePollard_prefix (ok : HashBytesOK H) (F : Forest H) (hn : F.numLeaves < 2 ^ 64)
    (r : Reader) (t : Nat) (ht : t < (encodePollard F).length) (hd : r.data = (encodePollard F).take t) :
    (restorePollard (H := H) r).out = .err ∧ (restorePollard (H := H) r).n ≤ t := by
  have hlen := encodePollard_length F
  have henc : encodePollard F = le64 (BitVec.ofNat 64 F.numLeaves) ++ (le64 (BitVec.ofNat 64 (numDead F)) ++
      (F.trees.map (·.2)).flatMap encRoot) := by
    unfold encodePollard; rw [List.flatMap_map, List.append_assoc]
  have hdl : r.data.length = t := by rw [hd, List.length_take]; omega
  have hroots : (numRoots (BitVec.ofNat 64 F.numLeaves)).toNat = (F.trees.map (·.2)).length := by
    rw [numRoots_eq hn]
    simp [Forest.trees]
  unfold restorePollard
  by_cases h8 : t < 8
  · rcases hx : readFull r 8 with ⟨res, r'⟩
    have := readFull_lt r 8 (by omega)
    rw [hx] at this
    rcases this with h1 | h1 <;> simp only at h1 <;> subst h1 <;> simp
  · rw [henc, take_append_ge _ _ _ (by rw [le64_length]; omega), le64_length] at hd
    obtain ⟨r1, e1, d1, _⟩ := readFull_append r (le64 (BitVec.ofNat 64 F.numLeaves)) _ hd
    rw [le64_length] at e1
    simp only [e1]
    by_cases h16 : t < 16
    · rcases hx : readFull r1 8 with ⟨res, r'⟩
      have := readFull_lt r1 8 (by rw [d1, List.length_take]; omega)
      rw [hx] at this
      rcases this with h1 | h1 <;> simp only at h1 <;> subst h1 <;> simp <;> omega
    · rw [take_append_ge _ _ _ (by rw [le64_length]; omega), le64_length] at d1
      obtain ⟨r2, e2, d2, _⟩ := readFull_append r1 (le64 (BitVec.ofNat 64 (numDead F))) _ d1
      rw [le64_length] at e2
      simp only [e2, unle64_le64, hroots]
      have h3 := readRoots_prefix ok (F.trees.map (·.2)) (r.data.length + 1) r2 [] (8 + 8) (t - 8 - 8)
        (by omega) d2 (by rw [d2, List.length_take]; omega)
      revert h3
      generalize (readRoots (r.data.length + 1) _ r2 [] (8 + 8) : Res (List (PNode H) × NodeMap H × Reader)) = res
      intro h3
      obtain ⟨rn, ro⟩ := res
      simp only at h3
      rw [h3.1]
      simp [failAs]; omega
end UtreexoVerif.Proofs.Serial
