/-
  Structure of the node list of the specification forest (`Spec.Forest.nodes`), in plain
  `Nat` geometry (no bit tricks, no `U64`):

  * every node of the tree on row `h` lies under that tree's root position
    (`Under h (2 * (n >>> (h+1)))`), the ranges of different trees are disjoint, and inside a
    collapsed tree positions are paths — so a position determines the node
    (`nodes_functional`) and `nodeAt` is membership (`nodeAt_eq_some_iff`);
  * an internal node at `(r+1, o)` has its two children at `(r, 2o)` and `(r, 2o+1)`
    (`nodes_internal`);
  * the `i`-th root is the node at the root position of the `i`-th tree (`nodeAt_rootPos`);
  * `LeafOK F`, the hypothesis on leaves under which a node with hash `ph a b` must be an
    internal node (`nodeAt_children`); it follows from the same condition on all live leaves
    (`LeafOK.of_liveLeaves`) and is necessary for the children property (`LeafOK.necessary`).
-/
import UtreexoVerif.Spec.Forest

namespace UtreexoVerif.Proofs.SpecNodes
open UtreexoVerif Spec Hasher

section
set_option linter.unusedSectionVars false
variable {H : Type} [DecidableEq H] [Hasher H]

/-! ### collapsed trees -/

def depth : CTree H → Nat
  | .leaf _ => 0
  | .node l r => max (depth l) (depth r) + 1

def isLeaf : CTree H → Bool
  | .leaf _ => true
  | .node _ _ => false

omit [DecidableEq H] [Hasher H] in
theorem join_depth {a b : Option (CTree H)} {t : CTree H} {k : Nat}
    (ha : ∀ t, a = some t → depth t ≤ k) (hb : ∀ t, b = some t → depth t ≤ k)
    (h : join a b = some t) : depth t ≤ k + 1 := by
  cases a with
  | none =>
    cases b with
    | none => simp [join] at h
    | some y =>
      simp only [join, Option.some.injEq] at h
      subst h
      have := hb _ rfl; omega
  | some x =>
    cases b with
    | none =>
      simp only [join, Option.some.injEq] at h
      subst h
      have := ha _ rfl; omega
    | some y =>
      simp only [join, Option.some.injEq] at h
      subst h
      have := ha _ rfl
      have := hb _ rfl
      simp only [depth]; omega

omit [DecidableEq H] [Hasher H] in
theorem collapse_depth : ∀ (k : Nat) (l : List (Option H)) (t : CTree H),
    collapse k l = some t → depth t ≤ k := by
  intro k
  induction k with
  | zero =>
    intro l t h
    unfold collapse at h
    split at h
    · injection h with h; subst h; simp [depth]
    · simp at h
  | succ k ih =>
    intro l t h
    unfold collapse at h
    exact join_depth (fun t ht => ih _ t ht) (fun t ht => ih _ t ht) h

/-- the root of a (sub)tree is the first node listed -/
theorem nodes_head (t : CTree H) (r o : Nat) : ((r, o), t.hash, isLeaf t) ∈ t.nodes r o := by
  cases t <;> simp [CTree.nodes, isLeaf, CTree.hash]

/-- `p` lies in the subtree rooted at `(r, o)` -/
def Under (r o : Nat) (p : Pos) : Prop := p.1 ≤ r ∧ p.2 / 2 ^ (r - p.1) = o

theorem Under.self (r o : Nat) : Under r o (r, o) := by
  simp [Under]

theorem Under.of_child {r o c : Nat} {p : Pos} (hr : 1 ≤ r) (hc : c / 2 = o)
    (h : Under (r - 1) c p) : Under r o p := by
  obtain ⟨h1, h2⟩ := h
  refine ⟨by omega, ?_⟩
  have e : r - p.1 = (r - 1 - p.1) + 1 := by omega
  rw [e, Nat.pow_succ, ← Nat.div_div_eq_div_mul, h2, hc]

theorem nodes_under : ∀ (t : CTree H) (r o : Nat), depth t ≤ r →
    ∀ x ∈ t.nodes r o, Under r o x.1 := by
  intro t
  induction t with
  | leaf h =>
    intro r o _ x hx
    simp only [CTree.nodes, List.mem_singleton] at hx
    subst hx
    exact Under.self r o
  | node a b iha ihb =>
    intro r o hd x hx
    simp only [depth] at hd
    simp only [CTree.nodes, List.mem_cons, List.mem_append] at hx
    rcases hx with rfl | hx | hx
    · exact Under.self r o
    · exact Under.of_child (by omega) (by omega) (iha (r - 1) (2 * o) (by omega) x hx)
    · exact Under.of_child (by omega) (by omega) (ihb (r - 1) (2 * o + 1) (by omega) x hx)

/-- inside a collapsed tree a position determines the node -/
theorem nodes_unique : ∀ (t : CTree H) (r o : Nat), depth t ≤ r →
    ∀ x ∈ t.nodes r o, ∀ y ∈ t.nodes r o, x.1 = y.1 → x = y := by
  intro t
  induction t with
  | leaf h =>
    intro r o _ x hx y hy _
    simp only [CTree.nodes, List.mem_singleton] at hx hy
    rw [hx, hy]
  | node a b iha ihb =>
    intro r o hd x hx y hy hxy
    simp only [depth] at hd
    have hda : depth a ≤ r - 1 := by omega
    have hdb : depth b ≤ r - 1 := by omega
    simp only [CTree.nodes, List.mem_cons, List.mem_append] at hx hy
    have hrow : ∀ (c : CTree H) (o' : Nat), depth c ≤ r - 1 → ∀ z ∈ c.nodes (r - 1) o',
        z.1 ≠ (r, o) := by
      intro c o' hc z hz he
      have := (nodes_under c (r - 1) o' hc z hz).1
      rw [he] at this
      simp only at this
      omega
    have hdis : ∀ z ∈ a.nodes (r - 1) (2 * o), ∀ w ∈ b.nodes (r - 1) (2 * o + 1),
        z.1 ≠ w.1 := by
      intro z hz w hw he
      have h1 := (nodes_under a (r - 1) _ hda z hz).2
      have h2 := (nodes_under b (r - 1) _ hdb w hw).2
      rw [he] at h1
      omega
    rcases hx with rfl | hx | hx <;> rcases hy with rfl | hy | hy
    · rfl
    · exact absurd hxy.symm (hrow a _ hda y hy)
    · exact absurd hxy.symm (hrow b _ hdb y hy)
    · exact absurd hxy (hrow a _ hda x hx)
    · exact iha _ _ hda x hx y hy hxy
    · exact absurd hxy (hdis x hx y hy)
    · exact absurd hxy (hrow b _ hdb x hx)
    · exact absurd hxy.symm (hdis y hy x hx)
    · exact ihb _ _ hdb x hx y hy hxy

/-- an internal node's hash is the parent hash of its two children, which are listed one row
below at offsets `2o`, `2o+1` -/
theorem nodes_internal : ∀ (t : CTree H) (r o : Nat), ∀ x ∈ t.nodes r o, x.2.2 = false →
    ∃ a b : CTree H, x.2.1 = ph a.hash b.hash ∧
      ((x.1.1 - 1, 2 * x.1.2), a.hash, isLeaf a) ∈ t.nodes r o ∧
      ((x.1.1 - 1, 2 * x.1.2 + 1), b.hash, isLeaf b) ∈ t.nodes r o := by
  intro t
  induction t with
  | leaf h =>
    intro r o x hx hf
    simp only [CTree.nodes, List.mem_singleton] at hx
    subst hx
    simp at hf
  | node a b iha ihb =>
    intro r o x hx hf
    simp only [CTree.nodes, List.mem_cons, List.mem_append] at hx
    rcases hx with rfl | hx | hx
    · refine ⟨a, b, rfl, ?_, ?_⟩
      · simp only [CTree.nodes, List.mem_cons, List.mem_append]
        exact Or.inr (Or.inl (nodes_head a _ _))
      · simp only [CTree.nodes, List.mem_cons, List.mem_append]
        exact Or.inr (Or.inr (nodes_head b _ _))
    · obtain ⟨c, d, h1, h2, h3⟩ := iha _ _ x hx hf
      refine ⟨c, d, h1, ?_, ?_⟩
      · simp only [CTree.nodes, List.mem_cons, List.mem_append]
        exact Or.inr (Or.inl h2)
      · simp only [CTree.nodes, List.mem_cons, List.mem_append]
        exact Or.inr (Or.inl h3)
    · obtain ⟨c, d, h1, h2, h3⟩ := ihb _ _ x hx hf
      refine ⟨c, d, h1, ?_, ?_⟩
      · simp only [CTree.nodes, List.mem_cons, List.mem_append]
        exact Or.inr (Or.inr h2)
      · simp only [CTree.nodes, List.mem_cons, List.mem_append]
        exact Or.inr (Or.inr h3)

/-- the hashes of leaf nodes are the leaves of the tree -/
theorem nodes_leaf_mem : ∀ (t : CTree H) (r o : Nat), ∀ x ∈ t.nodes r o, x.2.2 = true →
    x.2.1 ∈ t.leaves := by
  intro t
  induction t with
  | leaf h =>
    intro r o x hx _
    simp only [CTree.nodes, List.mem_singleton] at hx
    subst hx
    simp [CTree.leaves]
  | node a b iha ihb =>
    intro r o x hx hf
    simp only [CTree.nodes, List.mem_cons, List.mem_append] at hx
    rcases hx with rfl | hx | hx
    · simp at hf
    · simp only [CTree.leaves, List.mem_append]
      exact Or.inl (iha _ _ x hx hf)
    · simp only [CTree.leaves, List.mem_append]
      exact Or.inr (ihb _ _ x hx hf)

omit [DecidableEq H] [Hasher H] in
theorem join_leaves {a b : Option (CTree H)} {t : CTree H} {P : H → Prop}
    (ha : ∀ t, a = some t → ∀ h ∈ t.leaves, P h) (hb : ∀ t, b = some t → ∀ h ∈ t.leaves, P h)
    (h : join a b = some t) : ∀ h ∈ t.leaves, P h := by
  cases a with
  | none =>
    cases b with
    | none => simp [join] at h
    | some y =>
      simp only [join, Option.some.injEq] at h
      subst h
      exact hb _ rfl
  | some x =>
    cases b with
    | none =>
      simp only [join, Option.some.injEq] at h
      subst h
      exact ha _ rfl
    | some y =>
      simp only [join, Option.some.injEq] at h
      subst h
      intro h hh
      simp only [CTree.leaves, List.mem_append] at hh
      rcases hh with hh | hh
      · exact ha _ rfl h hh
      · exact hb _ rfl h hh

omit [DecidableEq H] [Hasher H] in
/-- the leaves of a collapsed chunk are live slots of the chunk -/
theorem collapse_leaves : ∀ (k : Nat) (l : List (Option H)) (t : CTree H),
    collapse k l = some t → ∀ h ∈ t.leaves, some h ∈ l := by
  intro k
  induction k with
  | zero =>
    intro l t h
    unfold collapse at h
    split at h
    · injection h with h; subst h
      intro h hh
      simp only [CTree.leaves, List.mem_singleton] at hh
      subst hh
      simp
    · simp at h
  | succ k ih =>
    intro l t h
    unfold collapse at h
    refine join_leaves (P := fun h => some h ∈ l) ?_ ?_ h
    · intro t ht h hh
      exact List.mem_of_mem_take (ih _ t ht h hh)
    · intro t ht h hh
      exact List.mem_of_mem_drop (ih _ t ht h hh)

/-! ### the trees of a forest -/

omit [DecidableEq H] [Hasher H] in
theorem mem_treeRowsFrom {n : Nat} : ∀ (k h : Nat), h ∈ treeRowsFrom k n →
    n.testBit h = true ∧ h ≤ k := by
  intro k
  induction k with
  | zero =>
    intro h hh
    unfold treeRowsFrom at hh
    split at hh
    · simp only [List.mem_singleton] at hh
      subst hh
      exact ⟨by assumption, Nat.le_refl _⟩
    · simp at hh
  | succ k ih =>
    intro h hh
    unfold treeRowsFrom at hh
    split at hh
    · simp only [List.mem_cons] at hh
      rcases hh with rfl | hh
      · exact ⟨by assumption, Nat.le_refl _⟩
      · have := ih h hh; exact ⟨this.1, by omega⟩
    · have := ih h hh; exact ⟨this.1, by omega⟩

/-- the nodes contributed by the tree on row `h` -/
def treeNodes (F : Forest H) (h : Nat) : List (Pos × H × Bool) :=
  match collapse h ((F.slots.drop (treeStart F.numLeaves h)).take (2 ^ h)) with
  | some t => t.nodes h (rootPos F.numLeaves h).2
  | none => [(rootPos F.numLeaves h, zero, false)]

/-- the root hash of the tree on row `h` -/
def treeRoot (F : Forest H) (h : Nat) : H :=
  match collapse h ((F.slots.drop (treeStart F.numLeaves h)).take (2 ^ h)) with
  | some t => t.hash
  | none => zero

theorem nodes_eq (F : Forest H) :
    F.nodes = (treeRows F.numLeaves).flatMap (treeNodes F) := by
  unfold Forest.nodes Forest.trees treeNodes
  rw [List.flatMap_map]
  rfl

theorem roots_eq (F : Forest H) : F.roots = (treeRows F.numLeaves).map (treeRoot F) := by
  unfold Forest.roots Forest.trees treeRoot
  rw [List.map_map]
  rfl

theorem mem_nodes {F : Forest H} {x : Pos × H × Bool} :
    x ∈ F.nodes ↔ ∃ h, (F.numLeaves.testBit h = true ∧ h ∈ treeRows F.numLeaves) ∧
      x ∈ treeNodes F h := by
  rw [nodes_eq, List.mem_flatMap]
  constructor
  · rintro ⟨h, hh, hx⟩
    exact ⟨h, ⟨(mem_treeRowsFrom _ _ hh).1, hh⟩, hx⟩
  · rintro ⟨h, ⟨_, hh⟩, hx⟩
    exact ⟨h, hh, hx⟩

theorem treeNodes_under (F : Forest H) (h : Nat) :
    ∀ x ∈ treeNodes F h, Under h (2 * (F.numLeaves >>> (h + 1))) x.1 := by
  intro x hx
  unfold treeNodes at hx
  split at hx
  · rename_i t ht
    exact nodes_under t h _ (collapse_depth _ _ _ ht) x hx
  · simp only [List.mem_singleton] at hx
    subst hx
    exact Under.self _ _

theorem treeNodes_unique (F : Forest H) (h : Nat) :
    ∀ x ∈ treeNodes F h, ∀ y ∈ treeNodes F h, x.1 = y.1 → x = y := by
  intro x hx y hy hxy
  unfold treeNodes at hx hy
  cases ht : collapse h ((F.slots.drop (treeStart F.numLeaves h)).take (2 ^ h)) with
  | some t =>
    rw [ht] at hx hy
    exact nodes_unique t h _ (collapse_depth _ _ _ ht) x hx y hy hxy
  | none =>
    rw [ht] at hx hy
    simp only [List.mem_singleton] at hx hy
    rw [hx, hy]

/-- the position ranges of two different trees are disjoint -/
theorem under_disjoint {n h1 h2 : Nat} {p : Pos} (hlt : h2 < h1) (hb1 : n.testBit h1 = true)
    (u1 : Under h1 (2 * (n >>> (h1 + 1))) p) (u2 : Under h2 (2 * (n >>> (h2 + 1))) p) : False := by
  obtain ⟨r1, e1⟩ := u1
  obtain ⟨r2, e2⟩ := u2
  have e : h1 - p.1 = (h2 - p.1) + ((h1 - h2 - 1) + 1) := by omega
  rw [e, Nat.pow_add, ← Nat.div_div_eq_div_mul, e2, Nat.pow_succ, Nat.mul_comm _ 2,
    ← Nat.div_div_eq_div_mul, Nat.mul_div_cancel_left _ (by decide : 0 < 2),
    Nat.shiftRight_eq_div_pow, Nat.div_div_eq_div_mul, ← Nat.pow_add,
    Nat.shiftRight_eq_div_pow] at e1
  have e' : h2 + 1 + (h1 - h2 - 1) = h1 := by omega
  rw [e'] at e1
  have hb : n / 2 ^ h1 % 2 = 1 := by
    have := hb1
    rw [Nat.testBit_eq_decide_div_mod_eq] at this
    simpa using this
  omega

/-- a position determines the node of the forest -/
theorem nodes_functional (F : Forest H) :
    ∀ x ∈ F.nodes, ∀ y ∈ F.nodes, x.1 = y.1 → x = y := by
  intro x hx y hy hxy
  obtain ⟨h1, ⟨hb1, _⟩, hx⟩ := mem_nodes.1 hx
  obtain ⟨h2, ⟨hb2, _⟩, hy⟩ := mem_nodes.1 hy
  have u1 := treeNodes_under F h1 x hx
  have u2 := treeNodes_under F h2 y hy
  rcases Nat.lt_trichotomy h1 h2 with hlt | heq | hgt
  · rw [hxy] at u1
    exact (under_disjoint hlt hb2 u2 u1).elim
  · subst heq
    exact treeNodes_unique F h1 x hx y hy hxy
  · rw [← hxy] at u2
    exact (under_disjoint hgt hb1 u1 u2).elim

theorem nodeAt_of_mem {F : Forest H} {x : Pos × H × Bool} (hx : x ∈ F.nodes) :
    F.nodeAt x.1 = some x.2.1 := by
  unfold Forest.nodeAt
  cases hf : F.nodes.find? (fun y => y.1 == x.1) with
  | none =>
    have := List.find?_eq_none.1 hf x hx
    simp at this
  | some y =>
    have hy := List.mem_of_find?_eq_some hf
    have hp := List.find?_some hf
    simp only [beq_iff_eq] at hp
    have := nodes_functional F y hy x hx hp
    subst this
    rfl

theorem nodeAt_eq_some_iff {F : Forest H} {p : Pos} {h : H} :
    F.nodeAt p = some h ↔ ∃ b, (p, h, b) ∈ F.nodes := by
  constructor
  · intro hn
    unfold Forest.nodeAt at hn
    cases hf : F.nodes.find? (fun y => y.1 == p) with
    | none => rw [hf] at hn; simp at hn
    | some y =>
      rw [hf] at hn
      simp only [Option.map_some, Option.some.injEq] at hn
      have hy := List.mem_of_find?_eq_some hf
      have hp := List.find?_some hf
      simp only [beq_iff_eq] at hp
      refine ⟨y.2.2, ?_⟩
      rw [← hp, ← hn]
      exact hy
  · rintro ⟨b, hb⟩
    exact nodeAt_of_mem hb

/-! ### roots -/

theorem rootNode_mem (F : Forest H) (h : Nat) :
    ∃ b, (rootPos F.numLeaves h, treeRoot F h, b) ∈ treeNodes F h := by
  unfold treeNodes treeRoot
  split
  · rename_i t _
    exact ⟨isLeaf t, nodes_head t _ _⟩
  · exact ⟨false, by simp⟩

/-- the root of the tree on row `h` is the node at that tree's root position -/
theorem nodeAt_rootPos (F : Forest H) {h : Nat} (hh : h ∈ treeRows F.numLeaves) :
    F.nodeAt (rootPos F.numLeaves h) = some (treeRoot F h) := by
  obtain ⟨b, hb⟩ := rootNode_mem F h
  exact nodeAt_eq_some_iff.2 ⟨b, mem_nodes.2 ⟨h, ⟨(mem_treeRowsFrom _ _ hh).1, hh⟩, hb⟩⟩

/-! ### children -/

/-- The hypothesis on leaves needed for soundness, at its weakest: a live leaf that has moved
up (sits on a row `≥ 1` of the collapsed forest) does not carry a hash of the form `ph a b`
with `a`, `b` non-zero.  (Leaves on row 0 are never a parent position, so they are
unconstrained.  Under `CR` this is also necessary for `children_ok`: the child positions of a
leaf are empty.) -/
def LeafOK (F : Forest H) : Prop :=
  ∀ x ∈ F.nodes, x.2.2 = true → 1 ≤ x.1.1 →
    ∀ a b : H, a ≠ zero → b ≠ zero → x.2.1 ≠ ph a b

/-- every leaf node carries a live leaf hash -/
theorem leaf_node_live {F : Forest H} {x : Pos × H × Bool} (hx : x ∈ F.nodes)
    (hl : x.2.2 = true) : x.2.1 ∈ F.liveLeaves := by
  obtain ⟨h, _, hx⟩ := mem_nodes.1 hx
  unfold treeNodes at hx
  split at hx
  · rename_i t ht
    have h1 := nodes_leaf_mem t _ _ x hx hl
    have h2 := collapse_leaves _ _ _ ht _ h1
    have h3 := List.mem_of_mem_drop (List.mem_of_mem_take h2)
    unfold Forest.liveLeaves
    rw [List.mem_filterMap]
    exact ⟨some x.2.1, h3, rfl⟩
  · simp only [List.mem_singleton] at hx
    subst hx
    simp at hl

/-- the simple sufficient condition: no live leaf hash is a parent hash of non-zero hashes -/
theorem LeafOK.of_liveLeaves {F : Forest H}
    (h : ∀ l ∈ F.liveLeaves, ∀ a b : H, a ≠ zero → b ≠ zero → l ≠ ph a b) : LeafOK F :=
  fun _ hx hl _ => h _ (leaf_node_live hx hl)

/-- collision-freeness, spelled out (to keep this file independent of `Spec/View.lean`) -/
theorem nodeAt_children {F : Forest H}
    (inj : ∀ a b c d : H, ph a b = ph c d → a = c ∧ b = d)
    (nonzero : ∀ a b : H, ph a b ≠ (zero : H)) (hF : LeafOK F)
    {r o : Nat} {a b : H} (hn : F.nodeAt (r + 1, o) = some (ph a b))
    (ha : a ≠ zero) (hb : b ≠ zero) :
    F.nodeAt (r, 2 * o) = some a ∧ F.nodeAt (r, 2 * o + 1) = some b := by
  obtain ⟨fl, hx⟩ := nodeAt_eq_some_iff.1 hn
  cases fl with
  | true => exact absurd rfl (hF _ hx rfl (by simp) a b ha hb)
  | false =>
    obtain ⟨h, hh, hx'⟩ := mem_nodes.1 hx
    unfold treeNodes at hx'
    split at hx'
    · rename_i t ht
      obtain ⟨c, d, he, hc, hd⟩ := nodes_internal t _ _ _ hx' rfl
      simp only at he hc hd
      obtain ⟨rfl, rfl⟩ := inj _ _ _ _ he
      have tn : ∀ y, y ∈ t.nodes h (rootPos F.numLeaves h).2 → y ∈ F.nodes := by
        intro y hy
        refine mem_nodes.2 ⟨h, hh, ?_⟩
        unfold treeNodes
        rw [ht]
        exact hy
      rw [Nat.add_sub_cancel] at hc hd
      exact ⟨nodeAt_of_mem (tn _ hc), nodeAt_of_mem (tn _ hd)⟩
    · simp only [List.mem_singleton, Prod.mk.injEq] at hx'
      exact absurd hx'.2.1 (nonzero a b)


/-! ### `LeafOK` is necessary -/

theorem Under.child {R O r o c : Nat} (h : Under R O (r + 1, o)) (hc : c / 2 = o) :
    Under R O (r, c) := by
  obtain ⟨h1, h2⟩ := h
  simp only at h1 h2
  refine ⟨by simp only; omega, ?_⟩
  simp only
  have e : R - r = (R - (r + 1)) + 1 := by omega
  rw [e, Nat.pow_succ, Nat.mul_comm, ← Nat.div_div_eq_div_mul, hc, h2]

/-- nothing sits below a leaf of a collapsed tree -/
theorem nodes_leaf_no_child : ∀ (t : CTree H) (r0 o0 : Nat), depth t ≤ r0 →
    ∀ x ∈ t.nodes r0 o0, x.2.2 = true → 1 ≤ x.1.1 →
    ∀ y ∈ t.nodes r0 o0, y.1 ≠ (x.1.1 - 1, 2 * x.1.2) := by
  intro t
  induction t with
  | leaf h =>
    intro r0 o0 _ x hx _ h1 y hy he
    simp only [CTree.nodes, List.mem_singleton] at hx hy
    subst hx hy
    simp only [Prod.mk.injEq] at he
    simp only at h1
    omega
  | node a b iha ihb =>
    intro r0 o0 hd x hx hl h1 y hy he
    simp only [depth] at hd
    have hda : depth a ≤ r0 - 1 := by omega
    have hdb : depth b ≤ r0 - 1 := by omega
    simp only [CTree.nodes, List.mem_cons, List.mem_append] at hx hy
    -- the child position of `x` lies under whatever `x` lies under
    have hchild : ∀ R O, Under R O x.1 → Under R O y.1 := by
      intro R O hu
      rw [he]
      have hx1 : x.1 = ((x.1.1 - 1) + 1, x.1.2) := by
        rw [Nat.sub_add_cancel h1]
      rw [hx1] at hu
      exact hu.child (by omega)
    rcases hx with rfl | hx | hx
    · simp at hl
    · have ux := nodes_under a _ _ hda x hx
      rcases hy with rfl | hy | hy
      · have := ux.1
        simp only [Prod.mk.injEq] at he
        omega
      · exact iha _ _ hda x hx hl h1 y hy he
      · have u1 := (hchild _ _ ux).2
        have u2 := (nodes_under b _ _ hdb y hy).2
        omega
    · have ux := nodes_under b _ _ hdb x hx
      rcases hy with rfl | hy | hy
      · have := ux.1
        simp only [Prod.mk.injEq] at he
        omega
      · have u1 := (hchild _ _ ux).2
        have u2 := (nodes_under a _ _ hda y hy).2
        omega
      · exact ihb _ _ hdb x hx hl h1 y hy he

/-- the left child position of a leaf node of the forest is empty -/
theorem nodeAt_below_leaf {F : Forest H} {x : Pos × H × Bool} (hx : x ∈ F.nodes)
    (hl : x.2.2 = true) (h1 : 1 ≤ x.1.1) : F.nodeAt (x.1.1 - 1, 2 * x.1.2) = none := by
  cases hn : F.nodeAt (x.1.1 - 1, 2 * x.1.2) with
  | none => rfl
  | some c =>
    exfalso
    obtain ⟨fl, hy⟩ := nodeAt_eq_some_iff.1 hn
    obtain ⟨h1', ⟨hb1, _⟩, hx'⟩ := mem_nodes.1 hx
    obtain ⟨h2', ⟨hb2, _⟩, hy'⟩ := mem_nodes.1 hy
    have ux := treeNodes_under F h1' x hx'
    have uy := treeNodes_under F h2' _ hy'
    have uxy : Under h1' (2 * (F.numLeaves >>> (h1' + 1))) (x.1.1 - 1, 2 * x.1.2) := by
      have hx1 : x.1 = ((x.1.1 - 1) + 1, x.1.2) := by rw [Nat.sub_add_cancel h1]
      rw [hx1] at ux
      exact ux.child (by omega)
    rcases Nat.lt_trichotomy h1' h2' with hlt | heq | hgt
    · exact under_disjoint hlt hb2 uy uxy
    · subst heq
      unfold treeNodes at hx' hy'
      cases ht : collapse h1' ((F.slots.drop (treeStart F.numLeaves h1')).take (2 ^ h1')) with
      | some t =>
        rw [ht] at hx' hy'
        exact nodes_leaf_no_child t _ _ (collapse_depth _ _ _ ht) x hx' hl h1 _ hy' rfl
      | none =>
        rw [ht] at hx'
        simp only [List.mem_singleton] at hx'
        subst hx'
        simp at hl
    · exact under_disjoint hgt hb1 uxy uy

/-- `LeafOK` is exactly what `ForestView.children_ok` needs: if every node of the forest whose
hash is `ph a b` (`a`, `b` non-zero) has a left child with hash `a`, then `LeafOK F`. -/
theorem LeafOK.necessary {F : Forest H}
    (hc : ∀ (r o : Nat) (a b : H), F.nodeAt (r + 1, o) = some (ph a b) → a ≠ zero → b ≠ zero →
      F.nodeAt (r, 2 * o) = some a) : LeafOK F := by
  intro x hx hl h1 a b ha hb he
  have hn := nodeAt_of_mem hx
  have hx1 : x.1 = ((x.1.1 - 1) + 1, x.1.2) := by rw [Nat.sub_add_cancel h1]
  rw [hx1, he] at hn
  have := hc _ _ a b hn ha hb
  rw [nodeAt_below_leaf hx hl h1] at this
  cases this

end
end UtreexoVerif.Proofs.SpecNodes
