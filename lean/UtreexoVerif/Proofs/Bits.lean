/-
  Reusable helper lemmas about `Nat` / `BitVec 64` shifts, masks and bitwise operations
  (core Lean only).  Everything is phrased so that a goal about the Go-level bit tricks
  can be moved to `Nat` via `BitVec.eq_of_toNat_eq` and closed with `omega` once the
  relevant powers of two are introduced as atoms.
-/
import UtreexoVerif.Go.Int

namespace UtreexoVerif.Proofs
open UtreexoVerif UtreexoVerif.GoInt

/-! ### Powers of two -/

theorem two_pow_le_of_le {a b : Nat} (h : a ≤ b) : 2 ^ a ≤ 2 ^ b :=
  Nat.pow_le_pow_right (by decide) h

theorem two_pow_lt_of_lt {a b : Nat} (h : a < b) : 2 ^ a < 2 ^ b :=
  Nat.pow_lt_pow_right (by decide) h

theorem two_pow_succ' (a : Nat) : 2 ^ (a + 1) = 2 * 2 ^ a := by
  rw [Nat.pow_succ, Nat.mul_comm]

/-- `2^b = 2^(b-a) * 2^a` for `a ≤ b` -/
theorem two_pow_split {a b : Nat} (h : a ≤ b) : 2 ^ b = 2 ^ (b - a) * 2 ^ a := by
  rw [← Nat.pow_add]; congr 1; omega

theorem two_pow_le_64 {k : Nat} (h : k ≤ 64) : 2 ^ k ≤ 2 ^ 64 := two_pow_le_of_le h

theorem two_pow_lt_64 {k : Nat} (h : k < 64) : 2 ^ k < 2 ^ 64 := two_pow_lt_of_lt h

theorem two_pow_dvd_64 {k : Nat} (h : k ≤ 64) : 2 ^ k ∣ 2 ^ 64 := Nat.pow_dvd_pow 2 h

/-- reducing mod `2^64` first does not change the residue mod a smaller power of two -/
theorem mod_64_mod_two_pow (x : Nat) {k : Nat} (h : k ≤ 64) :
    x % 2 ^ 64 % 2 ^ k = x % 2 ^ k :=
  Nat.mod_mod_of_dvd x (two_pow_dvd_64 h)

/-! ### `Nat` bit operations with the constant 1 -/

theorem nat_xor_one (n : Nat) : n ^^^ 1 = if n % 2 = 0 then n + 1 else n - 1 := by
  have h1 : (n ^^^ 1) / 2 = n / 2 := by rw [Nat.xor_div_two]; simp
  have h2 : ((n ^^^ 1) % 2 = 1) ↔ ¬ ((n % 2 = 1) ↔ (1 % 2 = 1)) := Nat.xor_mod_two_eq_one
  split <;> omega

theorem nat_or_one (n : Nat) : n ||| 1 = n - n % 2 + 1 := by
  have h1 : (n ||| 1) / 2 = n / 2 := by rw [Nat.or_div_two]; simp
  have h2 : ((n ||| 1) % 2 = 1) ↔ (n % 2 = 1 ∨ 1 % 2 = 1) := Nat.or_mod_two_eq_one
  omega

/-- clearing bit 0 with the 64-bit constant `^1` -/
theorem nat_and_not_one (n : Nat) (hn : n < 2 ^ 64) : n &&& (2 ^ 64 - 1 - 1) = n - n % 2 := by
  have h1 : (n &&& (2 ^ 64 - 1 - 1)) / 2 = n / 2 := by
    rw [Nat.and_div_two]
    have : (2 ^ 64 - 1 - 1) / 2 = 2 ^ 63 - 1 := by decide
    rw [this, Nat.and_two_pow_sub_one_eq_mod]
    apply Nat.mod_eq_of_lt
    omega
  have h2 : ((n &&& (2 ^ 64 - 1 - 1)) % 2 = 1) ↔ (n % 2 = 1 ∧ (2 ^ 64 - 1 - 1) % 2 = 1) :=
    Nat.and_mod_two_eq_one
  have h3 : (2 ^ 64 - 1 - 1) % 2 = 0 := by decide
  omega

/-- `|||` of a multiple of `2^i` and something below `2^i` is addition -/
theorem or_eq_add_of_lt {i b : Nat} (hb : b < 2 ^ i) (a : Nat) :
    2 ^ i * a ||| b = 2 ^ i * a + b :=
  (Nat.two_pow_add_eq_or_of_lt hb a).symm

/-- `|||` of `2^i` and something below `2^i` is addition -/
theorem two_pow_or_eq_add {i b : Nat} (hb : b < 2 ^ i) : b ||| 2 ^ i = 2 ^ i + b := by
  have := Nat.two_pow_add_eq_or_of_lt hb 1
  rw [Nat.mul_one] at this
  rw [Nat.or_comm, this]

/-! ### `toNat` of the `U64` / `U8` expressions that occur in utils.go -/

theorem toNat_H8 {h : Nat} (hh : h ≤ 63) : (BitVec.ofNat 8 h).toNat = h := by
  rw [BitVec.toNat_ofNat]; omega

theorem toNat_H8_sub {h r : Nat} (hh : h ≤ 63) (hr : r ≤ h) :
    (BitVec.ofNat 8 h - BitVec.ofNat 8 r).toNat = h - r := by
  rw [BitVec.toNat_sub, BitVec.toNat_ofNat, BitVec.toNat_ofNat]; omega

theorem H8_add_one {k : Nat} : BitVec.ofNat 8 k + 1#8 = BitVec.ofNat 8 (k + 1) := by
  rw [BitVec.ofNat_add]

theorem toNat_ofNat64_of_lt {n : Nat} (hn : n < 2 ^ 64) : (BitVec.ofNat 64 n).toNat = n := by
  rw [BitVec.toNat_ofNat]; exact Nat.mod_eq_of_lt hn

/-- `1 << h` -/
theorem toNat_one_shl {h : Nat} (hh : h ≤ 63) : (shl 1#64 h).toNat = 2 ^ h := by
  rw [shl_eq, BitVec.toNat_shiftLeft, Nat.shiftLeft_eq]
  have : 2 ^ h < 2 ^ 64 := two_pow_lt_64 (by omega)
  simp only [BitVec.toNat_ofNat, Nat.reducePow, Nat.reduceMod, Nat.one_mul]
  exact Nat.mod_eq_of_lt this

/-- `2 << h` (wraps to 0 for `h = 63`) -/
theorem toNat_two_shl (h : Nat) : (shl 2#64 h).toNat = 2 ^ (h + 1) % 2 ^ 64 := by
  rw [shl_eq, BitVec.toNat_shiftLeft, Nat.shiftLeft_eq]
  simp only [BitVec.toNat_ofNat, Nat.reducePow, Nat.reduceMod]
  rw [Nat.pow_succ, Nat.mul_comm]

/-- the mask `(2 << h) - 1` is `2^(h+1) - 1`, also for `h = 63` -/
theorem toNat_mask {h : Nat} (hh : h ≤ 63) : (shl 2#64 h - 1#64).toNat = 2 ^ (h + 1) - 1 := by
  rw [BitVec.toNat_sub, toNat_two_shl]
  have h1 : 2 ^ (h + 1) ≤ 2 ^ 64 := two_pow_le_64 (by omega)
  have h2 : 0 < 2 ^ (h + 1) := Nat.two_pow_pos _
  simp only [BitVec.toNat_ofNat, Nat.reducePow, Nat.reduceMod] at *
  omega

/-- `x & mask` is reduction mod `2^(h+1)` -/
theorem toNat_and_mask {h : Nat} (hh : h ≤ 63) (x : U64) :
    (x &&& (shl 2#64 h - 1#64)).toNat = x.toNat % 2 ^ (h + 1) := by
  rw [BitVec.toNat_and, toNat_mask hh, Nat.and_two_pow_sub_one_eq_mod]

theorem toNat_shl (x : U64) (s : Nat) : (shl x s).toNat = x.toNat * 2 ^ s % 2 ^ 64 := by
  rw [shl_eq, BitVec.toNat_shiftLeft, Nat.shiftLeft_eq]

theorem toNat_shr (x : U64) (s : Nat) : (shr x s).toNat = x.toNat / 2 ^ s := by
  rw [shr_eq, BitVec.toNat_ushiftRight, Nat.shiftRight_eq_div_pow]

/-- `(x << s) & mask` only depends on `x * 2^s` mod `2^(h+1)` -/
theorem toNat_shl_and_mask {h : Nat} (hh : h ≤ 63) (x : U64) (s : Nat) :
    (shl x s &&& (shl 2#64 h - 1#64)).toNat = x.toNat * 2 ^ s % 2 ^ (h + 1) := by
  rw [toNat_and_mask hh, toNat_shl, mod_64_mod_two_pow _ (by omega)]

/-- `1 << j` is `twoPow` -/
theorem one_shl_eq_twoPow (j : Nat) : shl 1#64 j = BitVec.twoPow 64 j := by
  rw [shl_eq, BitVec.twoPow_eq]

/-- halving the marker -/
theorem twoPow_shr_one {j : Nat} (hj : j + 1 < 64) :
    shr (BitVec.twoPow 64 (j + 1)) 1 = BitVec.twoPow 64 j := by
  apply BitVec.eq_of_toNat_eq
  rw [toNat_shr, BitVec.toNat_twoPow_of_lt hj, BitVec.toNat_twoPow_of_lt (by omega),
    Nat.pow_succ]
  omega

/-- testing a bit through a one-bit marker -/
theorem and_twoPow_ne_zero (x : U64) {j : Nat} (hj : j < 64) :
    ((x &&& BitVec.twoPow 64 j) != 0#64) = x.getLsbD j := by
  rw [BitVec.and_twoPow]
  cases hx : x.getLsbD j
  · simp
  · simp only [if_true]
    have : BitVec.twoPow 64 j ≠ 0#64 := by
      intro h
      have h1 := congrArg BitVec.toNat h
      rw [BitVec.toNat_twoPow_of_lt hj, BitVec.toNat_ofNat, Nat.zero_mod] at h1
      have h2 := Nat.two_pow_pos j
      omega
    simp [this]

theorem getLsbD_ofNat64 {n j : Nat} (hj : j < 64) :
    (BitVec.ofNat 64 n).getLsbD j = n.testBit j := by
  rw [BitVec.getLsbD_ofNat]; simp [hj]

end UtreexoVerif.Proofs
