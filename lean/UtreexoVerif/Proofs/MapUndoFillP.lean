/-
  `Undo`, filling the hole: after `placeProof` + `calculateHashes` + `putCalculated` of
  `undoDeletion` the holed invariant `HInv` (hole = path set of the re-inserted targets) becomes
  the hole-free one.  Adaptation of `MapIngest.ainv_ingest`.
-/
import UtreexoVerif.Proofs.MapUndoDefs
import UtreexoVerif.Proofs.MapUnliftCore
import UtreexoVerif.Proofs.MapUndoFill
import UtreexoVerif.Proofs.MapIngest
import UtreexoVerif.Proofs.MapLiftCore
open UtreexoVerif Model Spec Spec.Forest Proofs MapInv MapPrune MapRep MapLiftGeo PForest MapAInv MapLiftCore MapUndoDefs MapIngest Hasher

namespace UtreexoVerif.Proofs.MapUndoSteps
set_option linter.unusedSectionVars false
set_option linter.unusedVariables false
variable {H : Type} [DecidableEq H] [Hasher H]
variable {A : Pos → Option (Leaf H)} {C : H → Option Pos} {N N'' : List (Pos × H × Bool)}
  {R : Pos → Prop} {K : H → Prop}

/-- **filling the hole** (`placeProof` + `calculateHashes` + `putCalculated` of `undoDeletion`): the hole is the path set `PS` of the re-inserted targets `ts`; `ingA` (Proofs/MapIngest.lean) overwrites
it with the true hashes, stores the missing proof positions `PP` and the targets join the cache -/
theorem hinv_fillP {Kp : H → Prop} (Lw : Laws N R) {PS PP ts : List Pos} {tv : Pos → H} {KL : H → Prop} {C2 : H → Option Pos}
    (inv : HInvP A C N R (fun x => (C x).isSome = true) Kp (fun q => q ∈ PS))
    (hKp : ∀ t, KLeaf N Kp t → KLeaf N (fun x => (C2 x).isSome = true) t)
    (hT : ∀ t, t ∈ ts ↔ ∃ x, KL x ∧ (t, x, true) ∈ N)
    (hPSn : ∀ q ∈ PS, ∃ b, (q, tv q, b) ∈ N)
    (hPSt : ∀ q ∈ PS, ∃ t ∈ ts, Anc q t)
    (hPS2 : ∀ t ∈ ts, t ∈ PS)
    (hPS3 : ∀ q h b t, (q, h, b) ∈ N → t ∈ ts → Anc q t → q ∈ PS)
    (hPP : ∀ q, q ∈ PP ↔ q ∉ PS ∧ ∃ x ∈ PS, ¬ R x ∧ q = sib x)
    (hPPn : ∀ q ∈ PP, ∃ b, (q, tv q, b) ∈ N)
    (hC2a : ∀ x t, C2 x = some t → C x = some t ∨ (KL x ∧ (t, x, true) ∈ N))
    (hC2b : ∀ x, (C2 x).isSome = true ↔ ((C x).isSome = true ∨ KL x)) :
    HInv (ingA PS PP ts tv A) C2 N R (fun x => (C2 x).isSome = true) (fun _ => False) := by
  -- the leaves of the new cached set
  have hK : ∀ t, KLeaf N (fun x => (C2 x).isSome = true) t ↔
      (KLeaf N (fun x => (C x).isSome = true) t ∨ t ∈ ts) := by
    intro t
    constructor
    · rintro ⟨x, hx, hm⟩
      rcases (hC2b x).1 hx with h | h
      · exact Or.inl ⟨x, h, hm⟩
      · exact Or.inr ((hT t).2 ⟨x, h, hm⟩)
    · rintro (⟨x, hx, hm⟩ | h)
      · exact ⟨x, (hC2b x).2 (Or.inl hx), hm⟩
      · obtain ⟨x, hx, hm⟩ := (hT t).1 h
        exact ⟨x, (hC2b x).2 (Or.inr hx), hm⟩
  have tsK : ∀ t ∈ ts, KLeaf N (fun x => (C2 x).isSome = true) t := fun t ht => (hK t).2 (Or.inr ht)
  -- a path node that is a leaf node is a target
  have leaf_PS : ∀ q ∈ PS, ∀ x, (q, x, true) ∈ N → q ∈ ts := by
    intro q hq x hm
    obtain ⟨t, ht, ha⟩ := hPSt q hq
    obtain ⟨y, _, hy⟩ := (hT t).1 ht
    have := Lw.leaf_below q x t y true hm hy ha
    rw [← this]; exact ht
  refine { true_hash := ?_, cache_sub := ?_, cached_pos := ?_, kleaf_out := ?_, leaf_stored := ?_,
           only_needed := ?_, has_needed := ?_, flags := ?_ }
  · -- true_hash
    intro q l hl _
    unfold ingA at hl
    split at hl
    · rename_i hq
      obtain ⟨b, hb⟩ := hPSn q hq
      simp only [Option.some.injEq] at hl
      rw [← hl]; exact ⟨b, hb⟩
    · rename_i hqPS
      split at hl
      · rename_i hq
        obtain ⟨b, hb⟩ := hPPn q hq.1
        simp only [Option.some.injEq] at hl
        rw [← hl]; exact ⟨b, hb⟩
      · exact inv.true_hash q l hl hqPS
  · -- cache_sub
    intro x t h
    show (C2 x).isSome = true
    rw [h]; rfl
  · -- cached_pos
    intro x t h
    refine ⟨?_, fun h => h⟩
    rcases hC2a x t h with h | h
    · exact (inv.cached_pos x t h).1
    · exact h.2
  · -- kleaf_out
    exact fun _ _ h => h
  · -- leaf_stored
    intro t hk
    rcases (hK t).1 hk with hk | hk
    · exact ingA_ne_none (inv.leaf_stored t hk)
    · unfold ingA
      rw [if_pos (hPS2 t hk)]; simp
  · -- only_needed
    intro q l hl _ hnr
    unfold ingA at hl
    split at hl
    · rename_i hq
      obtain ⟨t, ht, ha⟩ := hPSt q hq
      exact ⟨t, tsK t ht, ha.1, ha.parent⟩
    · rename_i hqPS
      split at hl
      · rename_i hq
        obtain ⟨_, x, hx, hnrx, rfl⟩ := (hPP q).1 hq.1
        obtain ⟨t, ht, ha⟩ := hPSt x hx
        refine ⟨t, tsK t ht, ?_, ?_⟩
        · rw [sib_fst]; exact ha.1
        · rw [parent_sib]; exact ha.parent
      · obtain ⟨t, hk, hle, hanc⟩ := inv.only_needed q l hl hqPS hnr
        exact ⟨t, hKp t hk, hle, hanc⟩
  · -- has_needed
    intro q h b hq _ hnr hreq
    by_cases hqPS : q ∈ PS
    · unfold ingA
      rw [if_pos hqPS]; simp
    rcases hreq with hk | ⟨t, hk, hanc⟩
    · rcases (hK q).1 hk with hk | hk
      · exact ingA_ne_none (inv.leaf_stored q hk)
      · exact absurd (hPS2 q hk) hqPS
    · rcases (hK t).1 hk with hk | hk
      · exact ingA_ne_none (inv.has_needed q h b hq hqPS hnr (Or.inr ⟨t, hk, hanc⟩))
      · obtain ⟨hs, bs, hsq⟩ := Lw.sib_node q h b hq hnr
        have hsPS : sib q ∈ PS := hPS3 (sib q) hs bs t hsq hk hanc
        have hsnr := sib_not_root Lw hq hnr
        unfold ingA
        rw [if_neg hqPS]
        have hqPP : q ∈ PP := (hPP q).2 ⟨hqPS, sib q, hsPS, hsnr, (sib_sib q).symm⟩
        by_cases hA : A q = none
        · rw [if_pos ⟨hqPP, hA⟩]; simp
        · rw [if_neg (fun h => hA h.2)]; exact hA
  · -- flags
    intro q l hl _ hnz
    unfold ingA at hl
    split at hl
    · rename_i hq
      simp only [Option.some.injEq] at hl
      rw [← hl]
      simp only [decide_eq_true_eq]
      rw [hK]
      constructor
      · exact Or.inr
      · rintro (⟨x, _, hm⟩ | h)
        · exact leaf_PS q hq x hm
        · exact h
    · rename_i hqPS
      have hqts : q ∉ ts := fun h => hqPS (hPS2 q h)
      split at hl
      · rename_i hq
        simp only [Option.some.injEq] at hl
        rw [← hl, hK]
        simp only [Bool.false_eq_true, false_iff]
        rintro (hk | h)
        · exact inv.leaf_stored q hk hq.2
        · exact hqts h
      · rw [inv.flags q l hl hqPS hnz, hK]
        constructor
        · exact Or.inl
        · rintro (h | h)
          · exact h
          · exact absurd h hqts


end UtreexoVerif.Proofs.MapUndoSteps
