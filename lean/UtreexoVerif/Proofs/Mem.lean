/-
  Proofs/Mem.lean — helper lemmas for the C17 frame theorem over Model/Mem.lean.
-/
import UtreexoVerif.Model.Mem

namespace UtreexoVerif.Proofs.Mem
open UtreexoVerif.Model.Mem

variable {α : Type}

/-- `h'` is `h` with everything below array id `base` untouched (and no array removed) -/
def Frame (base : Nat) (h h' : Heap α) : Prop :=
  h.arrays.length ≤ h'.arrays.length ∧ ∀ id, id < base → h'.arrays[id]? = h.arrays[id]?

theorem Frame.refl (base : Nat) (h : Heap α) : Frame base h h := ⟨Nat.le_refl _, fun _ _ => rfl⟩

theorem Frame.trans {base : Nat} {h1 h2 h3 : Heap α} (a : Frame base h1 h2) (b : Frame base h2 h3) :
    Frame base h1 h3 :=
  ⟨Nat.le_trans a.1 b.1, fun id hid => (b.2 id hid).trans (a.2 id hid)⟩

theorem frame_writeArr {base : Nat} (h : Heap α) (id off : Nat) (vs : List α) (hid : base ≤ id) :
    Frame base h (h.writeArr id off vs) := by
  refine ⟨by simp [Heap.writeArr], fun j hj => ?_⟩
  have hne : id ≠ j := by omega
  simp [Heap.writeArr, List.getElem?_set_ne hne]

theorem frame_alloc {base : Nat} (h : Heap α) (n c : Nat) (zero : α) (hb : base ≤ h.arrays.length) :
    Frame base h (h.alloc n c zero).1 := by
  refine ⟨by simp [Heap.alloc], fun j hj => ?_⟩
  have : j < h.arrays.length := by omega
  simp [Heap.alloc, List.getElem?_append_left this]

theorem frame_store {base : Nat} (h h' : Heap α) (s : Slice) (i : Nat) (v : α) (hs : base ≤ s.arr)
    (e : h.store s i v = some h') : Frame base h h' := by
  unfold Heap.store at e
  split at e
  · cases e; exact frame_writeArr h _ _ _ hs
  · cases e

theorem frame_append {base : Nat} (h : Heap α) (s : Slice) (vs : List α) (zero : α) (hs : base ≤ s.arr)
    (hb : base ≤ h.arrays.length) : Frame base h (h.append s vs zero).1 := by
  unfold Heap.append
  split
  · exact frame_writeArr h _ _ _ hs
  · refine ⟨by simp, fun j hj => ?_⟩
    have : j < h.arrays.length := by omega
    simp [List.getElem?_append_left this]

theorem frame_copy {base : Nat} (h : Heap α) (d q : Slice) (hs : base ≤ d.arr) :
    Frame base h (h.copy d q).1 := by
  unfold Heap.copy
  exact frame_writeArr h _ _ _ hs

/-- the slice returned by `append` lives in the operand's array or in a new one -/
theorem append_arr (h : Heap α) (s : Slice) (vs : List α) (zero : α) :
    (h.append s vs zero).2.arr = s.arr ∨ (h.append s vs zero).2.arr = h.arrays.length := by
  unfold Heap.append
  split
  · exact Or.inl rfl
  · exact Or.inr rfl

/-- one step whose destination (if any) is fresh leaves everything below `base` alone -/
theorem step_frame {base : Nat} (zero : α) (st st' : St α) (op : Op α)
    (e : step zero st op = some st') (hd : destFresh base st op = true)
    (hb : base ≤ st.heap.arrays.length) : Frame base st.heap st'.heap := by
  cases op with
  | make n c =>
    simp only [step, Option.some.injEq] at e
    subst e
    exact frame_alloc _ _ _ _ hb
  | reslice r lo hi =>
    simp only [step] at e
    split at e
    · split at e
      · cases e; exact Frame.refl _ _
      · cases e
    · cases e
  | store r i v =>
    simp only [step] at e
    split at e
    · rename_i s hs
      split at e
      · rename_i h' hh
        cases e
        have : base ≤ s.arr := by simpa [destFresh, Op.dest, hs] using hd
        exact frame_store _ _ _ _ _ this hh
      · cases e
    · cases e
  | storeFrom r i q j =>
    simp only [step] at e
    split at e
    · rename_i s t hs ht
      split at e
      · split at e
        · rename_i h' hh
          cases e
          have : base ≤ s.arr := by simpa [destFresh, Op.dest, hs] using hd
          exact frame_store _ _ _ _ _ this hh
        · cases e
      · cases e
    · cases e
  | appendVals r vs =>
    simp only [step] at e
    split at e
    · rename_i s hs
      cases e
      have : base ≤ s.arr := by simpa [destFresh, Op.dest, hs] using hd
      exact frame_append _ _ _ _ this hb
    · cases e
  | appendSlice r q =>
    simp only [step] at e
    split at e
    · rename_i s t hs ht
      cases e
      have : base ≤ s.arr := by simpa [destFresh, Op.dest, hs] using hd
      exact frame_append _ _ _ _ this hb
    · cases e
  | copy d q =>
    simp only [step] at e
    split at e
    · rename_i s t hs ht
      cases e
      have : base ≤ s.arr := by simpa [destFresh, Op.dest, hs] using hd
      exact frame_copy _ _ _ this
    · cases e

theorem run_frame {base : Nat} (zero : α) (ops : List (Op α)) :
    ∀ (st st' : St α), run zero st ops = some st' → writesFresh zero base st ops = true →
      base ≤ st.heap.arrays.length → Frame base st.heap st'.heap := by
  induction ops with
  | nil =>
    intro st st' e _ _
    simp only [run, Option.some.injEq] at e
    subst e
    exact Frame.refl _ _
  | cons op rest ih =>
    intro st st' e hw hb
    simp only [run] at e
    split at e
    · rename_i st1 h1
      simp only [writesFresh, h1, Bool.and_eq_true] at hw
      have f1 := step_frame zero st st1 op h1 hw.1 hb
      have f2 := ih st1 st' e hw.2 (Nat.le_trans hb f1.1)
      exact f1.trans f2
    · cases e

/-! ### soundness of the provenance discipline -/

/-- tags describe the registers: same length, and every `fresh`-tagged register points into
an array allocated at or after `base` -/
def TagInv (base : Nat) (st : St α) (tags : List Tag) : Prop :=
  tags.length = st.regs.length ∧
  ∀ (r : Nat) (s : Slice), st.regs[r]? = some s → tags[r]? = some Tag.fresh → base ≤ s.arr

theorem TagInv.push {base : Nat} {st : St α} {tags : List Tag} (inv : TagInv base st tags) (h : Heap α)
    (s : Slice) (t : Tag) (hs : t = Tag.fresh → base ≤ s.arr) :
    TagInv base ⟨h, st.regs ++ [s]⟩ (tags ++ [t]) := by
  refine ⟨by simp [inv.1], fun r s' hr ht => ?_⟩
  by_cases hlt : r < st.regs.length
  · have hlt' : r < tags.length := by rw [inv.1]; exact hlt
    rw [List.getElem?_append_left hlt] at hr
    rw [List.getElem?_append_left hlt'] at ht
    exact inv.2 r s' hr ht
  · have hge : st.regs.length ≤ r := by omega
    have hge' : tags.length ≤ r := by rw [inv.1]; exact hge
    rw [List.getElem?_append_right hge] at hr
    rw [List.getElem?_append_right hge'] at ht
    have h0 : r - st.regs.length = 0 := by
      cases hh : r - st.regs.length with
      | zero => rfl
      | succ k => rw [hh] at hr; simp at hr
    rw [h0] at hr
    rw [inv.1, h0] at ht
    simp at hr ht
    subst hr
    exact hs ht

theorem TagInv.heap {base : Nat} {st : St α} {tags : List Tag} (inv : TagInv base st tags) (h : Heap α) :
    TagInv base ⟨h, st.regs⟩ tags := ⟨inv.1, inv.2⟩

theorem destFresh_of {base : Nat} (st : St α) (op : Op α) (r : Nat) (hd : op.dest = some r)
    (h : ∀ s : Slice, st.regs[r]? = some s → base ≤ s.arr) : destFresh base st op = true := by
  unfold destFresh
  rw [hd]
  show (match st.regs[r]? with | some s => decide (base ≤ s.arr) | none => true) = true
  split
  · rename_i s hs
    simpa using h s hs
  · rfl

/-- a well-tagged operation writes only through fresh destinations -/
theorem tagStep_destFresh {base : Nat} (st : St α) (tags tags' : List Tag) (op : Op α)
    (inv : TagInv base st tags) (ht : tagStep tags op = some tags') : destFresh base st op = true := by
  cases op with
  | make n c => rfl
  | reslice r lo hi => rfl
  | store r i v =>
    simp only [tagStep] at ht
    split at ht
    · rename_i hf; exact destFresh_of st _ r rfl (fun s hs => inv.2 r s hs hf)
    · cases ht
  | storeFrom r i q j =>
    simp only [tagStep] at ht
    split at ht
    · rename_i hf; exact destFresh_of st _ r rfl (fun s hs => inv.2 r s hs hf)
    · cases ht
  | appendVals r vs =>
    simp only [tagStep] at ht
    split at ht
    · rename_i hf; exact destFresh_of st _ r rfl (fun s hs => inv.2 r s hs hf)
    · cases ht
  | appendSlice r q =>
    simp only [tagStep] at ht
    split at ht
    · rename_i hf; exact destFresh_of st _ r rfl (fun s hs => inv.2 r s hs hf)
    · cases ht
  | copy d q =>
    simp only [tagStep] at ht
    split at ht
    · rename_i hf; exact destFresh_of st _ d rfl (fun s hs => inv.2 d s hs hf)
    · cases ht

theorem reslice_arr (s s' : Slice) (lo hi : Nat) (e : s.reslice lo hi = some s') : s'.arr = s.arr := by
  unfold Slice.reslice at e
  split at e
  · cases e; rfl
  · cases e

/-- a well-tagged step keeps the tag invariant -/
theorem tagStep_inv {base : Nat} (zero : α) (st st' : St α) (tags tags' : List Tag) (op : Op α)
    (e : step zero st op = some st') (ht : tagStep tags op = some tags') (inv : TagInv base st tags)
    (hb : base ≤ st.heap.arrays.length) : TagInv base st' tags' := by
  cases op with
  | make n c =>
    simp only [step, Option.some.injEq] at e
    simp only [tagStep, Option.some.injEq] at ht
    subst e; subst ht
    exact inv.push _ _ _ (fun _ => by simpa [Heap.alloc] using hb)
  | reslice r lo hi =>
    simp only [step] at e
    simp only [tagStep] at ht
    split at e
    · rename_i s hs
      split at e
      · rename_i s' hs'
        split at ht
        · rename_i t htr
          cases e; cases ht
          refine inv.push _ _ _ (fun htf => ?_)
          rw [reslice_arr s s' lo hi hs']
          exact inv.2 r s hs (by rw [htr, htf])
        · cases ht
      · cases e
    · cases e
  | store r i v =>
    simp only [step] at e
    simp only [tagStep] at ht
    split at ht
    · cases ht
      split at e
      · split at e
        · cases e; exact inv.heap _
        · cases e
      · cases e
    · cases ht
  | storeFrom r i q j =>
    simp only [step] at e
    simp only [tagStep] at ht
    split at ht
    · cases ht
      split at e
      · split at e
        · split at e
          · cases e; exact inv.heap _
          · cases e
        · cases e
      · cases e
    · cases ht
  | appendVals r vs =>
    simp only [step] at e
    simp only [tagStep] at ht
    split at ht
    · rename_i hf
      cases ht
      split at e
      · rename_i s hs
        cases e
        refine inv.push _ _ _ (fun _ => ?_)
        have hsb : base ≤ s.arr := inv.2 r s hs hf
        rcases append_arr st.heap s vs zero with h | h <;> rw [h] <;> assumption
      · cases e
    · cases ht
  | appendSlice r q =>
    simp only [step] at e
    simp only [tagStep] at ht
    split at ht
    · rename_i hf
      cases ht
      split at e
      · rename_i s t hs hq
        cases e
        refine inv.push _ _ _ (fun _ => ?_)
        have hsb : base ≤ s.arr := inv.2 r s hs hf
        rcases append_arr st.heap s (st.heap.read t) zero with h | h <;> rw [h] <;> assumption
      · cases e
    · cases ht
  | copy d q =>
    simp only [step] at e
    simp only [tagStep] at ht
    split at ht
    · cases ht
      split at e
      · cases e; exact inv.heap _
      · cases e
    · cases ht

/-- the static discipline implies the dynamic condition of the frame theorem -/
theorem wellTagged_writesFresh {base : Nat} (zero : α) (ops : List (Op α)) :
    ∀ (st : St α) (tags : List Tag), wellTagged tags ops = true → TagInv base st tags →
      base ≤ st.heap.arrays.length → writesFresh zero base st ops = true := by
  induction ops with
  | nil => intro _ _ _ _ _; rfl
  | cons op rest ih =>
    intro st tags hw inv hb
    simp only [wellTagged] at hw
    split at hw
    · rename_i tags' ht
      have hd := tagStep_destFresh st tags tags' op inv ht
      simp only [writesFresh, hd, Bool.true_and]
      split
      · rename_i st1 h1
        have f1 := step_frame zero st st1 op h1 hd hb
        exact ih st1 tags' hw (tagStep_inv zero st st1 tags tags' op h1 ht inv hb) (Nat.le_trans hb f1.1)
      · rfl
    · cases hw

end UtreexoVerif.Proofs.Mem
