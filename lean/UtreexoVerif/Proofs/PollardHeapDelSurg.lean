/-
  Pointer forest, heap model: the pointer surgery of `deleteSingle`, branch "the parent of the
  deleted node is not a root": `transferAunt(from, to)`, `transferNiece(from, to)`,
  `transferNiece(toSib, fromSib)`, `updateAunt(to.aunt)`, `delNode(fromSib)`.

  Names: `A` = the node deleted (`fromNodeSib`), `B` = its sibling (`fromNode`, moves up),
  `P` = their parent (`toNode`), `S` = the sibling of `P` (`toSib`, holds the children of `P`),
  `HG` = the aunt of `P` and `S` (the niece holder of the grand-parent).
-/
import UtreexoVerif.Proofs.PollardHeapDelPrim
set_option linter.unusedSectionVars false
set_option linter.unusedVariables false
set_option linter.unusedSimpArgs false

namespace UtreexoVerif.Proofs.PollardHeap
open UtreexoVerif UtreexoVerif.Model UtreexoVerif.Model.PollardHeap UtreexoVerif.Spec Hasher
open UtreexoVerif.Model.PollardAbs

variable {H : Type} [DecidableEq H] [Hasher H]

theorem ignoreErr_ok {x : PM H Unit} {s s' : Pollard H} (h : x s = (.ok (), s')) :
    ignoreErr x s = (.ok (), s') := by
  unfold ignoreErr; rw [h]

theorem surgeryAunt {hp : Heap H} {A B P S HG : Nat} {an bn pn sn hgn : PolNode H}
    {a b ts : CTree H} {fa fb fs : List Nat} {la lb ls : List (H × Nat)}
    (hA : hp[A]? = some an) (hB : hp[B]? = some bn) (hP : hp[P]? = some pn)
    (hS : hp[S]? = some sn) (hHG : hp[HG]? = some hgn)
    (aA : an.aunt = some S) (aB : bn.aunt = some S) (aP : pn.aunt = some HG) (aS : sn.aunt = some HG)
    (kS : (sn.lNiece = some A ∧ sn.rNiece = some B) ∨ (sn.lNiece = some B ∧ sn.rNiece = some A))
    (kHG : (hgn.lNiece = some P ∧ hgn.rNiece = some S) ∨ (hgn.lNiece = some S ∧ hgn.rNiece = some P))
    (subA : Sub hp A B a fa la) (subB : Sub hp B A b fb lb) (subS : Sub hp S P ts fs ls)
    (nd : (HG :: P :: S :: A :: B :: (fa ++ fb ++ fs)).Nodup)
    (nm : List (H × Nat)) (rs : List Nat) (nl ndl : U64) (full : Bool) :
    ∃ h1 h2 h3 h4 : Heap H,
      transferAunt (some B) (some P) ⟨hp, nm, rs, nl, ndl, full⟩ = (.ok (), ⟨h1, nm, rs, nl, ndl, full⟩) ∧
      transferNiece (some B) (some P) ⟨h1, nm, rs, nl, ndl, full⟩ = (.ok (), ⟨h2, nm, rs, nl, ndl, full⟩) ∧
      transferNiece (some S) (some A) ⟨h2, nm, rs, nl, ndl, full⟩ = (.ok (), ⟨h3, nm, rs, nl, ndl, full⟩) ∧
      h3[P]? = some { pn with lNiece := none, rNiece := none } ∧
      updateAunt' (some HG) ⟨h3, nm, rs, nl, ndl, full⟩ = (.ok (), ⟨h3, nm, rs, nl, ndl, full⟩) ∧
      h3[A]? = some { an with lNiece := none, rNiece := none } ∧
      (∀ nm', delNode (some A) ⟨h3, nm', rs, nl, ndl, full⟩ = (.ok (), ⟨h4, nm', rs, nl, ndl, full⟩)) ∧
      h4.size = hp.size ∧
      (∀ j, j ∉ HG :: P :: S :: A :: B :: (fa ++ fb ++ fs) → h4[j]? = hp[j]?) ∧
      (∀ j ∈ fa, h4[j]? = hp[j]?) ∧
      h4[HG]? = some (replK hgn P B) ∧
      h4[P]? = some { pn with lNiece := none, rNiece := none } ∧
      (∃ x, h4[B]? = some x ∧ x.aunt = some HG ∧ x.data = bn.data) ∧
      (∃ x, h4[S]? = some x ∧ x.aunt = some HG ∧ x.data = sn.data) ∧
      Sub h4 B S b fb lb ∧ Sub h4 S B ts fs ls := by
  -- distinctness
  have ndx := nd
  simp only [List.nodup_cons, List.mem_cons, List.mem_append, not_or, List.nodup_append] at ndx
  obtain ⟨⟨nHGP, nHGS, nHGA, nHGB, ⟨nHGfa, nHGfb⟩, nHGfs⟩, ⟨nPS, nPA, nPB, ⟨nPfa, nPfb⟩, nPfs⟩,
    ⟨nSA, nSB, ⟨nSfa, nSfb⟩, nSfs⟩, ⟨nAB, ⟨nAfa, nAfb⟩, nAfs⟩, ⟨⟨nBfa, nBfb⟩, nBfs⟩,
    ⟨ndfa, ndfb, dab⟩, ndfs, dabs⟩ := ndx
  -- niece facts
  have kpn : ∀ j, isKid pn j → j ∈ fs := fun j k => subS.kid_mem hP k
  have kan : ∀ j, isKid an j → j ∈ fb := fun j k => subB.kid_mem hA k
  have kbn : ∀ j, isKid bn j → j ∈ fa := fun j k => subA.kid_mem hB k
  have ksnB : isKid sn B := by rcases kS with h | h; exact Or.inr h.2; exact Or.inl h.1
  have khgP : isKid hgn P := by rcases kHG with h | h; exact Or.inl h.1; exact Or.inr h.2
  -- step 1: transferAunt(B, P)
  obtain ⟨h1, h1_def⟩ : ∃ h1, h1 = taHeap hp B S P HG sn hgn := ⟨_, rfl⟩
  have e1 : ∀ j, h1[j]? = if j = B then some { bn with aunt := some HG }
      else if j = S then some (clearK sn B)
      else if j = HG then some (replK hgn P B) else hp[j]? := by
    intro j; rw [h1_def]
    exact getElem?_taHeap (Ne.symm nSB) (Ne.symm nHGB) (Ne.symm nHGS) hB hS hHG j
  have clearK_aunt : (clearK sn B).aunt = some HG := by unfold clearK; split <;> exact aS
  have set1 : Settled h1 HG := by
    refine ⟨replK hgn P B, by rw [e1, if_neg nHGB, if_neg nHGS, if_pos rfl], ?_, ?_⟩
    · intro l hl
      rcases kHG with ⟨k1, k2⟩ | ⟨k1, k2⟩
      · have : l = B := by
          unfold replK at hl; rw [if_pos k1] at hl; simpa using hl.symm
        rw [this]
        exact ⟨_, by rw [e1, if_pos rfl], rfl⟩
      · have hne : hgn.lNiece ≠ some P := by rw [k1]; intro e; cases e; exact nPS rfl
        have : l = S := by
          unfold replK at hl; rw [if_neg hne] at hl
          simp only [k1] at hl; simpa using hl.symm
        rw [this]
        exact ⟨_, by rw [e1, if_neg nSB, if_pos rfl], clearK_aunt⟩
    · intro hnone
      exfalso
      rcases kHG with ⟨k1, k2⟩ | ⟨k1, k2⟩
      · unfold replK at hnone; rw [if_pos k1] at hnone; cases hnone
      · have hne : hgn.lNiece ≠ some P := by rw [k1]; intro e; cases e; exact nPS rfl
        unfold replK at hnone; rw [if_neg hne] at hnone
        simp only [k1] at hnone; cases hnone
  have x1 := transferAunt_exec (⟨hp, nm, rs, nl, ndl, full⟩ : Pollard H) B S P HG bn sn pn hgn hB hS hP hHG
    aB aP ksnB khgP (Ne.symm nSB) (Ne.symm nPB) (Ne.symm nHGB) (Ne.symm nPS) (Ne.symm nHGS)
    (Ne.symm nHGP) (by rw [← h1_def]; exact set1)
  rw [← h1_def] at x1
  -- step 2: transferNiece(B, P)
  have hP1 : h1[P]? = some pn := by
    rw [e1, if_neg nPB, if_neg nPS, if_neg (Ne.symm nHGP)]; exact hP
  have hB1 : h1[B]? = some { bn with aunt := some HG } := by rw [e1, if_pos rfl]
  have eR2 := getElem?_tnRaw (Ne.symm nPB) hB1 hP1
  have u2 : Unsettled (tnRaw h1 B P pn) B := by
    apply subS.unsettled ndfs nBfs nPB
      (x := { ({ bn with aunt := some HG } : PolNode H) with lNiece := pn.lNiece, rNiece := pn.rNiece })
    · rw [eR2, if_pos rfl]
    · intro x hx; rw [hP] at hx; cases hx; exact ⟨rfl, rfl⟩
    · intro i hi
      have i1 : i ≠ B := fun e => nBfs (e ▸ hi)
      have i2 : i ≠ P := fun e => nPfs (e ▸ hi)
      have i3 : i ≠ S := fun e => nSfs (e ▸ hi)
      have i4 : i ≠ HG := fun e => nHGfs (e ▸ hi)
      rw [eR2, if_neg i1, if_neg i2, e1, if_neg i1, if_neg i3, if_neg i4]
  obtain ⟨h2, h2_def⟩ : ∃ h2, h2 = tnHeap h1 B P pn := ⟨_, rfl⟩
  have x2 := transferNiece_exec (⟨h1, nm, rs, nl, ndl, full⟩ : Pollard H) B P pn hP1 u2
  rw [← h2_def] at x2
  have e2 : ∀ j, h2[j]? =
      if j = B then some { ({ bn with aunt := some HG } : PolNode H) with lNiece := pn.lNiece, rNiece := pn.rNiece }
      else if j = P then some { pn with lNiece := none, rNiece := none }
      else if isKid pn j then (h1[j]?).map (fun x => { x with aunt := some B })
      else h1[j]? := by
    intro j; rw [h2_def]
    exact getElem?_tnHeap (Ne.symm nPB) hB1 hP1
      (fun j k => ⟨fun e => nBfs (e ▸ kpn j k), fun e => nPfs (e ▸ kpn j k)⟩) j
  -- step 3: transferNiece(S, A)
  have hA2 : h2[A]? = some an := by
    have : ¬ isKid pn A := fun k => nAfs (kpn A k)
    rw [e2, if_neg nAB, if_neg (Ne.symm nPA), if_neg this, e1, if_neg nAB, if_neg (Ne.symm nSA),
      if_neg (Ne.symm nHGA)]
    exact hA
  have hS2 : h2[S]? = some (clearK sn B) := by
    have : ¬ isKid pn S := fun k => nSfs (kpn S k)
    rw [e2, if_neg nSB, if_neg (Ne.symm nPS), if_neg this, e1, if_neg nSB, if_pos rfl]
  have eR3 := getElem?_tnRaw nSA hS2 hA2
  have u3 : Unsettled (tnRaw h2 S A an) S := by
    apply subB.unsettled ndfb nSfb (Ne.symm nSA)
      (x := { clearK sn B with lNiece := an.lNiece, rNiece := an.rNiece })
    · rw [eR3, if_pos rfl]
    · intro x hx; rw [hA] at hx; cases hx; exact ⟨rfl, rfl⟩
    · intro i hi
      have i1 : i ≠ B := fun e => nBfb (e ▸ hi)
      have i2 : i ≠ P := fun e => nPfb (e ▸ hi)
      have i3 : i ≠ S := fun e => nSfb (e ▸ hi)
      have i4 : i ≠ HG := fun e => nHGfb (e ▸ hi)
      have i5 : i ≠ A := fun e => nAfb (e ▸ hi)
      have i6 : ¬ isKid pn i := fun k => dabs i (Or.inr hi) i (kpn i k) rfl
      rw [eR3, if_neg i3, if_neg i5, e2, if_neg i1, if_neg i2, if_neg i6, e1, if_neg i1, if_neg i3,
        if_neg i4]
  obtain ⟨h3, h3_def⟩ : ∃ h3, h3 = tnHeap h2 S A an := ⟨_, rfl⟩
  have x3 := transferNiece_exec (⟨h2, nm, rs, nl, ndl, full⟩ : Pollard H) S A an hA2 u3
  rw [← h3_def] at x3
  have e3 : ∀ j, h3[j]? =
      if j = S then some { clearK sn B with lNiece := an.lNiece, rNiece := an.rNiece }
      else if j = A then some { an with lNiece := none, rNiece := none }
      else if isKid an j then (h2[j]?).map (fun x => { x with aunt := some S })
      else h2[j]? := by
    intro j; rw [h3_def]
    exact getElem?_tnHeap nSA hS2 hA2
      (fun j k => ⟨fun e => nSfb (e ▸ kan j k), fun e => nAfb (e ▸ kan j k)⟩) j
  have hP3 : h3[P]? = some { pn with lNiece := none, rNiece := none } := by
    have : ¬ isKid an P := fun k => nPfb (kan P k)
    rw [e3, if_neg nPS, if_neg nPA, if_neg this, e2, if_neg nPB, if_pos rfl]
  have hA3 : h3[A]? = some { an with lNiece := none, rNiece := none } := by
    rw [e3, if_neg (Ne.symm nSA), if_pos rfl]
  have hB3 : h3[B]? = some { ({ bn with aunt := some HG } : PolNode H) with lNiece := pn.lNiece, rNiece := pn.rNiece } := by
    have : ¬ isKid an B := fun k => nBfb (kan B k)
    rw [e3, if_neg (Ne.symm nSB), if_neg (Ne.symm nAB), if_neg this, e2, if_pos rfl]
  have hS3 : h3[S]? = some { clearK sn B with lNiece := an.lNiece, rNiece := an.rNiece } := by
    rw [e3, if_pos rfl]
  have hHG3 : h3[HG]? = some (replK hgn P B) := by
    have k1 : ¬ isKid an HG := fun k => nHGfb (kan HG k)
    have k2 : ¬ isKid pn HG := fun k => nHGfs (kpn HG k)
    rw [e3, if_neg nHGS, if_neg nHGA, if_neg k1, e2, if_neg nHGB, if_neg nHGP, if_neg k2, e1,
      if_neg nHGB, if_neg nHGS, if_pos rfl]
  -- step 4: updateAunt(P.aunt)
  have set3 : Settled h3 HG := by
    refine ⟨replK hgn P B, hHG3, ?_, ?_⟩
    · intro l hl
      rcases kHG with ⟨k1, k2⟩ | ⟨k1, k2⟩
      · have : l = B := by
          unfold replK at hl; rw [if_pos k1] at hl; simpa using hl.symm
        rw [this]
        exact ⟨_, hB3, rfl⟩
      · have hne : hgn.lNiece ≠ some P := by rw [k1]; intro e; cases e; exact nPS rfl
        have : l = S := by
          unfold replK at hl; rw [if_neg hne] at hl
          simp only [k1] at hl; simpa using hl.symm
        rw [this]
        exact ⟨_, hS3, clearK_aunt⟩
    · intro hnone
      exfalso
      rcases kHG with ⟨k1, k2⟩ | ⟨k1, k2⟩
      · unfold replK at hnone; rw [if_pos k1] at hnone; cases hnone
      · have hne : hgn.lNiece ≠ some P := by rw [k1]; intro e; cases e; exact nPS rfl
        unfold replK at hnone; rw [if_neg hne] at hnone
        simp only [k1] at hnone; cases hnone
  have x4 := updateAunt'_settled HG (⟨h3, nm, rs, nl, ndl, full⟩ : Pollard H) set3
  -- step 5: delNode(A)
  obtain ⟨h4, h4_def⟩ : ∃ h4, h4 = dnHeap h3 A { an with lNiece := none, rNiece := none } := ⟨_, rfl⟩
  have x5 : ∀ nm', delNode (some A) ⟨h3, nm', rs, nl, ndl, full⟩ = (.ok (), ⟨h4, nm', rs, nl, ndl, full⟩) := by
    intro nm'
    have := delNode_exec (⟨h3, nm', rs, nl, ndl, full⟩ : Pollard H) A _ hA3
      (by
        intro x hx
        simp only [aA, Option.some.injEq] at hx
        subst hx
        refine ⟨_, hS3, ?_⟩
        rintro (k | k)
        · exact nAfb (kan A (Or.inl k))
        · exact nAfb (kan A (Or.inr k)))
      (by rintro (k | k) <;> cases k)
    rw [← h4_def] at this
    exact this
  have e4 : ∀ j, j ≠ A → h4[j]? = h3[j]? := by
    intro j hj; rw [h4_def]
    exact getElem?_dnHeap_frame h3 A _ j hj (by rintro (k | k) <;> cases k)
  -- the final heap, node by node
  have eFrame : ∀ j, j ≠ HG → j ≠ P → j ≠ S → j ≠ A → j ≠ B → ¬ isKid pn j → ¬ isKid an j →
      h4[j]? = hp[j]? := by
    intro j j1 j2 j3 j4 j5 j6 j7
    rw [e4 j j4, e3, if_neg j3, if_neg j4, if_neg j7, e2, if_neg j5, if_neg j2, if_neg j6, e1,
      if_neg j5, if_neg j3, if_neg j1]
  have eKidP : ∀ j, isKid pn j → h4[j]? = (hp[j]?).map (fun x => { x with aunt := some B }) := by
    intro j k
    have hj := kpn j k
    have j1 : j ≠ HG := fun e => nHGfs (e ▸ hj)
    have j3 : j ≠ S := fun e => nSfs (e ▸ hj)
    have j4 : j ≠ A := fun e => nAfs (e ▸ hj)
    have j5 : j ≠ B := fun e => nBfs (e ▸ hj)
    have j2 : j ≠ P := fun e => nPfs (e ▸ hj)
    have j7 : ¬ isKid an j := fun k' => dabs j (Or.inr (kan j k')) j hj rfl
    rw [e4 j j4, e3, if_neg j3, if_neg j4, if_neg j7, e2, if_neg j5, if_neg j2, if_pos k, e1,
      if_neg j5, if_neg j3, if_neg j1]
  have eKidA : ∀ j, isKid an j → h4[j]? = (hp[j]?).map (fun x => { x with aunt := some S }) := by
    intro j k
    have hj := kan j k
    have j1 : j ≠ HG := fun e => nHGfb (e ▸ hj)
    have j3 : j ≠ S := fun e => nSfb (e ▸ hj)
    have j4 : j ≠ A := fun e => nAfb (e ▸ hj)
    have j5 : j ≠ B := fun e => nBfb (e ▸ hj)
    have j2 : j ≠ P := fun e => nPfb (e ▸ hj)
    have j6 : ¬ isKid pn j := fun k' => dabs j (Or.inr hj) j (kpn j k') rfl
    rw [e4 j j4, e3, if_neg j3, if_neg j4, if_pos k, e2, if_neg j5, if_neg j2, if_neg j6, e1,
      if_neg j5, if_neg j3, if_neg j1]
  have hB4 : h4[B]? = some { ({ bn with aunt := some HG } : PolNode H) with lNiece := pn.lNiece, rNiece := pn.rNiece } := by
    rw [e4 B (Ne.symm nAB)]; exact hB3
  have hS4 : h4[S]? = some { clearK sn B with lNiece := an.lNiece, rNiece := an.rNiece } := by
    rw [e4 S nSA]; exact hS3
  -- the two sub-trees, re-homed
  have subB' : Sub h4 B S b fb lb := by
    apply subB.rehome ndfb
    · intro x hx; rw [hB] at hx; cases hx; exact ⟨_, hB4, rfl⟩
    · intro x hx; rw [hA] at hx; cases hx; exact ⟨_, hS4, rfl, rfl⟩
    · intro x i old hx k hi
      rw [hA] at hx; cases hx
      rw [eKidA i k, hi]; rfl
    · intro x i hx hi k1 k2
      rw [hA] at hx; cases hx
      have k' : ¬ isKid an i := by intro k; rcases k with k | k; exact k1 k; exact k2 k
      exact eFrame i (fun e => nHGfb (e ▸ hi)) (fun e => nPfb (e ▸ hi)) (fun e => nSfb (e ▸ hi))
        (fun e => nAfb (e ▸ hi)) (fun e => nBfb (e ▸ hi))
        (fun k => dabs i (Or.inr hi) i (kpn i k) rfl) k'
  have subS' : Sub h4 S B ts fs ls := by
    apply subS.rehome ndfs
    · intro x hx; rw [hS] at hx; cases hx
      refine ⟨_, hS4, ?_⟩
      unfold clearK; split <;> rfl
    · intro x hx; rw [hP] at hx; cases hx; exact ⟨_, hB4, rfl, rfl⟩
    · intro x i old hx k hi
      rw [hP] at hx; cases hx
      rw [eKidP i k, hi]; rfl
    · intro x i hx hi k1 k2
      rw [hP] at hx; cases hx
      have k' : ¬ isKid pn i := by intro k; rcases k with k | k; exact k1 k; exact k2 k
      exact eFrame i (fun e => nHGfs (e ▸ hi)) (fun e => nPfs (e ▸ hi)) (fun e => nSfs (e ▸ hi))
        (fun e => nAfs (e ▸ hi)) (fun e => nBfs (e ▸ hi)) k'
        (fun k => dabs i (Or.inr (kan i k)) i hi rfl)
  refine ⟨h1, h2, h3, h4, x1, x2, x3, hP3, x4, hA3, x5, ?_, ?_, ?_, ?_, ?_, ⟨_, hB4, rfl, rfl⟩,
    ⟨_, hS4, clearK_aunt, ?_⟩, subB', subS'⟩
  · rw [h4_def, size_dnHeap, h3_def, size_tnHeap, h2_def, size_tnHeap, h1_def, size_taHeap]
  · intro j hj
    simp only [List.mem_cons, List.mem_append, not_or] at hj
    obtain ⟨j1, j2, j3, j4, j5, ⟨j6, j7⟩, j8⟩ := hj
    exact eFrame j j1 j2 j3 j4 j5 (fun k => j8 (kpn j k)) (fun k => j7 (kan j k))
  · intro j hj
    exact eFrame j (fun e => nHGfa (e ▸ hj)) (fun e => nPfa (e ▸ hj)) (fun e => nSfa (e ▸ hj))
      (fun e => nAfa (e ▸ hj)) (fun e => nBfa (e ▸ hj))
      (fun k => dabs j (Or.inl hj) j (kpn j k) rfl) (fun k => dab j hj j (kan j k) rfl)
  · rw [e4 HG nHGA]; exact hHG3
  · rw [e4 P nPA]; exact hP3
  · unfold clearK; split <;> rfl

/-! ### the branch "the parent is a root": `*toNode = *fromNode`, `transferNiece(to, fromSib)`,
`updateAunt(to)`, `delNode(from)`, (map), `delNode(fromSib)`, `to.aunt = nil` -/

theorem surgeryRoot {hp : Heap H} {A B P : Nat} {an bn pn : PolNode H}
    {a b : CTree H} {fa fb : List Nat} {la lb : List (H × Nat)}
    (hA : hp[A]? = some an) (hB : hp[B]? = some bn) (hP : hp[P]? = some pn)
    (aA : an.aunt = some P) (aB : bn.aunt = some P)
    (subA : Sub hp A B a fa la) (subB : Sub hp B A b fb lb)
    (nd : (P :: A :: B :: (fa ++ fb)).Nodup)
    (nm : List (H × Nat)) (rs : List Nat) (nl ndl : U64) (full : Bool) :
    ∃ h2 h3 h4 : Heap H,
      transferNiece (some P) (some A) ⟨hp.modify P (fun _ => bn), nm, rs, nl, ndl, full⟩ =
        (.ok (), ⟨h2, nm, rs, nl, ndl, full⟩) ∧
      updateAunt' (some P) ⟨h2, nm, rs, nl, ndl, full⟩ = (.ok (), ⟨h2, nm, rs, nl, ndl, full⟩) ∧
      delNode (some B) ⟨h2, nm, rs, nl, ndl, full⟩ = (.ok (), ⟨h3, nm, rs, nl, ndl, full⟩) ∧
      h3[P]? = some { bn with lNiece := an.lNiece, rNiece := an.rNiece } ∧
      h3[A]? = some { an with lNiece := none, rNiece := none } ∧
      (∀ nm', delNode (some A) ⟨h3, nm', rs, nl, ndl, full⟩ = (.ok (), ⟨h4, nm', rs, nl, ndl, full⟩)) ∧
      h4.size = hp.size ∧
      (∀ j, j ∉ P :: A :: B :: (fa ++ fb) →
        (h4.modify P (fun x => { x with aunt := none }))[j]? = hp[j]?) ∧
      RootRepr (h4.modify P (fun x => { x with aunt := none })) P b fb (relabelTop b P lb) := by
  have ndx := nd
  simp only [List.nodup_cons, List.mem_cons, List.mem_append, not_or, List.nodup_append] at ndx
  obtain ⟨⟨nPA, nPB, nPfa, nPfb⟩, ⟨nAB, nAfa, nAfb⟩, ⟨nBfa, nBfb⟩, ndfa, ndfb, dab⟩ := ndx
  have kan : ∀ j, isKid an j → j ∈ fb := fun j k => subB.kid_mem hA k
  have kbn : ∀ j, isKid bn j → j ∈ fa := fun j k => subA.kid_mem hB k
  obtain ⟨h1, h1_def⟩ : ∃ h1, h1 = hp.modify P (fun _ => bn) := ⟨_, rfl⟩
  have e1 : ∀ j, h1[j]? = if j = P then some bn else hp[j]? := by
    intro j
    rw [h1_def, Array.getElem?_modify]
    by_cases hj : j = P
    · subst hj; simp [hP]
    · simp [hj, Ne.symm hj]
  have hP1 : h1[P]? = some bn := by rw [e1, if_pos rfl]
  have hA1 : h1[A]? = some an := by rw [e1, if_neg (Ne.symm nPA)]; exact hA
  have eR2 := getElem?_tnRaw nPA hP1 hA1
  have u2 : Unsettled (tnRaw h1 P A an) P := by
    apply subB.unsettled ndfb nPfb (Ne.symm nPA)
      (x := { bn with lNiece := an.lNiece, rNiece := an.rNiece })
    · rw [eR2, if_pos rfl]
    · intro x hx; rw [hA] at hx; cases hx; exact ⟨rfl, rfl⟩
    · intro i hi
      have i1 : i ≠ P := fun e => nPfb (e ▸ hi)
      have i2 : i ≠ A := fun e => nAfb (e ▸ hi)
      rw [eR2, if_neg i1, if_neg i2, e1, if_neg i1]
  obtain ⟨h2, h2_def⟩ : ∃ h2, h2 = tnHeap h1 P A an := ⟨_, rfl⟩
  have x2 := transferNiece_exec (⟨h1, nm, rs, nl, ndl, full⟩ : Pollard H) P A an hA1 u2
  rw [← h2_def] at x2
  have e2 : ∀ j, h2[j]? =
      if j = P then some { bn with lNiece := an.lNiece, rNiece := an.rNiece }
      else if j = A then some { an with lNiece := none, rNiece := none }
      else if isKid an j then (h1[j]?).map (fun x => { x with aunt := some P })
      else h1[j]? := by
    intro j; rw [h2_def]
    exact getElem?_tnHeap nPA hP1 hA1
      (fun j k => ⟨fun e => nPfb (e ▸ kan j k), fun e => nAfb (e ▸ kan j k)⟩) j
  have hP2 : h2[P]? = some { bn with lNiece := an.lNiece, rNiece := an.rNiece } := by
    rw [e2, if_pos rfl]
  -- updateAunt(P): settled
  have set2 : Settled h2 P := by
    refine ⟨_, hP2, ?_, ?_⟩
    · intro l hl
      have k : isKid an l := Or.inl hl
      obtain ⟨x, ex, _⟩ := subB.kid_exists hA k
      have hl' := kan l k
      have l1 : l ≠ P := fun e => nPfb (e ▸ hl')
      have l2 : l ≠ A := fun e => nAfb (e ▸ hl')
      exact ⟨_, by rw [e2, if_neg l1, if_neg l2, if_pos k, e1, if_neg l1, ex]; rfl, rfl⟩
    · intro hnone r hr
      have := subB.both_or_none hA hnone
      simp only at hr; rw [this] at hr; cases hr
  have x3 := updateAunt'_settled P (⟨h2, nm, rs, nl, ndl, full⟩ : Pollard H) set2
  -- delNode(B)
  have hB2 : h2[B]? = some bn := by
    have : ¬ isKid an B := fun k => nBfb (kan B k)
    rw [e2, if_neg (Ne.symm nPB), if_neg (Ne.symm nAB), if_neg this, e1, if_neg (Ne.symm nPB)]
    exact hB
  have selfB : ¬ isKid bn B := fun k => nBfa (kbn B k)
  obtain ⟨h3, h3_def⟩ : ∃ h3, h3 = dnHeap h2 B bn := ⟨_, rfl⟩
  have x4 := delNode_exec (⟨h2, nm, rs, nl, ndl, full⟩ : Pollard H) B bn hB2
    (by
      intro x hx
      rw [aB] at hx; cases hx
      refine ⟨_, hP2, ?_⟩
      rintro (k | k)
      · exact nBfb (kan B (Or.inl k))
      · exact nBfb (kan B (Or.inr k)))
    selfB
  rw [← h3_def] at x4
  have e3 : ∀ j, j ≠ B → ¬ isKid bn j → h3[j]? = h2[j]? := by
    intro j h1 h2'; rw [h3_def]; exact getElem?_dnHeap_frame h2 B bn j h1 h2'
  have hP3 : h3[P]? = some { bn with lNiece := an.lNiece, rNiece := an.rNiece } := by
    rw [e3 P nPB (fun k => nPfa (kbn P k))]; exact hP2
  have hA3 : h3[A]? = some { an with lNiece := none, rNiece := none } := by
    rw [e3 A nAB (fun k => nAfa (kbn A k)), e2, if_neg (Ne.symm nPA), if_pos rfl]
  -- delNode(A)
  obtain ⟨h4, h4_def⟩ : ∃ h4, h4 = dnHeap h3 A { an with lNiece := none, rNiece := none } := ⟨_, rfl⟩
  have x5 : ∀ nm', delNode (some A) ⟨h3, nm', rs, nl, ndl, full⟩ = (.ok (), ⟨h4, nm', rs, nl, ndl, full⟩) := by
    intro nm'
    have := delNode_exec (⟨h3, nm', rs, nl, ndl, full⟩ : Pollard H) A _ hA3
      (by
        intro x hx
        simp only [aA, Option.some.injEq] at hx
        subst hx
        refine ⟨_, hP3, ?_⟩
        rintro (k | k)
        · exact nAfb (kan A (Or.inl k))
        · exact nAfb (kan A (Or.inr k)))
      (by rintro (k | k) <;> cases k)
    rw [← h4_def] at this
    exact this
  have e4 : ∀ j, j ≠ A → h4[j]? = h3[j]? := by
    intro j hj; rw [h4_def]
    exact getElem?_dnHeap_frame h3 A _ j hj (by rintro (k | k) <;> cases k)
  -- the final heap
  obtain ⟨h5, h5_def⟩ : ∃ h5, h5 = h4.modify P (fun x => { x with aunt := none }) := ⟨_, rfl⟩
  have e5 : ∀ j, j ≠ P → h5[j]? = h4[j]? := by
    intro j hj; rw [h5_def, Array.getElem?_modify, if_neg (Ne.symm hj)]
  have hP5 : h5[P]? = some { bn with lNiece := an.lNiece, rNiece := an.rNiece, aunt := none } := by
    rw [h5_def, Array.getElem?_modify, if_pos rfl, e4 P nPA, hP3]; rfl
  have eFrame : ∀ j, j ≠ P → j ≠ A → j ≠ B → ¬ isKid an j → ¬ isKid bn j → h5[j]? = hp[j]? := by
    intro j j1 j2 j3 j4 j5
    rw [e5 j j1, e4 j j2, e3 j j3 j5, e2, if_neg j1, if_neg j2, if_neg j4, e1, if_neg j1]
  have eKid : ∀ j, isKid an j → h5[j]? = (hp[j]?).map (fun x => { x with aunt := some P }) := by
    intro j k
    have hj := kan j k
    have j1 : j ≠ P := fun e => nPfb (e ▸ hj)
    have j2 : j ≠ A := fun e => nAfb (e ▸ hj)
    have j3 : j ≠ B := fun e => nBfb (e ▸ hj)
    have j5 : ¬ isKid bn j := fun k' => dab j (kbn j k') j hj rfl
    rw [e5 j j1, e4 j j2, e3 j j3 j5, e2, if_neg j1, if_neg j2, if_pos k, e1, if_neg j1]
  have sub' : Sub h5 P P b fb (relabelTop b P lb) := by
    apply subB.rehome' ndfb
    · intro x hx; rw [hB] at hx; cases hx; exact ⟨_, hP5, rfl⟩
    · intro x hx; rw [hA] at hx; cases hx; exact ⟨_, hP5, rfl, rfl⟩
    · intro x i old hx k hi
      rw [hA] at hx; cases hx
      rw [eKid i k, hi]; rfl
    · intro x i hx hi k1 k2
      rw [hA] at hx; cases hx
      have k' : ¬ isKid an i := by intro k; rcases k with k | k; exact k1 k; exact k2 k
      exact eFrame i (fun e => nPfb (e ▸ hi)) (fun e => nAfb (e ▸ hi)) (fun e => nBfb (e ▸ hi)) k'
        (fun k => dab i (kbn i k) i hi rfl)
  refine ⟨h2, h3, h4, ?_, x3, x4, hP3, hA3, x5, ?_, ?_, ?_⟩
  · rw [← h1_def]; exact x2
  · rw [h4_def, size_dnHeap, h3_def, size_dnHeap, h2_def, size_tnHeap, h1_def]; simp
  · intro j hj
    simp only [List.mem_cons, List.mem_append, not_or] at hj
    obtain ⟨j1, j2, j3, j4, j5⟩ := hj
    rw [← h5_def]
    exact eFrame j j1 j2 j3 (fun k => j5 (kan j k)) (fun k => j4 (kbn j k))
  · rw [← h5_def]
    exact ⟨⟨_, hP5, rfl⟩, sub'⟩

end UtreexoVerif.Proofs.PollardHeap
