/-
  `undoDeletion` of `MapPollard.Undo` on a FULL map forest.

    * `funremove_rep`: the model's `undoDelMoveDown` over the reversed detwinned targets is the
      abstract `moveBackAll` (as for partial forests, `Proofs/MapUndoChain.lean`, with the full
      image `FAH` providing the side conditions);
    * `placeProof_present`: every proof position is stored with the hash of the proof — nothing is
      written, the proof is returned unchanged;
    * `putCalculated_full`: every target and every ancestor of a target is re-written with its
      re-computed hash and the flag set, the targets are cached;
    * `ffill`: this fills the hole: the state tracks `F` again.
-/
import UtreexoVerif.Proofs.MapFullUndoChain
import UtreexoVerif.Proofs.MapUndoDel

namespace UtreexoVerif.Proofs.MapFullUndoDel
open UtreexoVerif Model Spec Spec.Forest Proofs MapAL MapInv MapPrune MapRep MapLiftGeo PForest MapAInv MapLiftCore
open MapUndoDefs MapUndoSteps PForestSpec PForestDel MapRemoveAll MapPlaceEmpty MapUndoRep MapUndoChain
open MapFull MapFullRemove MapFullUndoChain MapIngest MapUndoDel Hasher
open UtreexoVerif.Proofs.SpecPlan UtreexoVerif.Proofs.CalcPlan UtreexoVerif.Proofs.SpecSubs
set_option linter.unusedSectionVars false
set_option linter.unusedVariables false

variable {H : Type} [DecidableEq H] [Hasher H]

/-! ### one iteration of `undoDelMoveDown` on a full forest -/

theorem moveDownM_rep_full {m1 : MapPollard H} {T : Nat} {A1 : Pos → Option (Leaf H)} {C1 : H → Option Pos}
    (rep1 : Rep m1 T A1 C1) (hfull : m1.full = true) {d : Pos} (hd : Valid T d) (hlt : d.1 < T)
    (hfl : ∀ v, A1 (parent d) = some v → v.remember = true) :
    Rep (moveDownM (encP T (parent d)) (encP T (sib d)) m1) T (moveDownA d A1 C1).1 (moveDownA d A1 C1).2 ∧
      (moveDownM (encP T (parent d)) (encP T (sib d)) m1).numLeaves = m1.numLeaves ∧
      (moveDownM (encP T (parent d)) (encP T (sib d)) m1).full = m1.full := by
  have hP := valid_parent hd hlt
  have hS := valid_sib hd hlt
  unfold moveDownM moveDownA
  rw [rep1.node _ hP]
  cases hA : A1 (parent d) with
  | none => exact ⟨rep1, rfl, rfl⟩
  | some v =>
    simp only
    rw [rep1.hasCached]
    have hv : (⟨v.hash, true⟩ : Leaf H) = v := by
      have := hfl v hA
      cases v; simp_all
    by_cases hc : (C1 v.hash).isSome = true
    · simp only [hc, if_true, Bool.true_or, hv]
      exact ⟨((rep1.putCached v.hash hS).delNode hP).putNode hS v, rfl, rfl⟩
    · simp only [hc, hfull, Bool.false_eq_true, if_false, Bool.or_true, if_true, hv]
      exact ⟨(rep1.delNode hP).putNode hS v, rfl, hfull⟩

theorem undoDelMoveDown_step_full {m : MapPollard H} {T n : Nat} {A1 : Pos → Option (Leaf H)} {C1 : H → Option Pos}
    (hrows : m.totalRows = H8 T) (hT : T ≤ 63)
    (hn : m.numLeaves = BitVec.ofNat 64 n) (hn63 : n < 2 ^ 63) (hfit : forestRows n ≤ T)
    {d : Pos} (hd : Valid (forestRows n) d) (hlt : d.1 < forestRows n)
    (hin : (d.2 + 1) * 2 ^ d.1 ≤ n ∧ ((sib d).2 + 1) * 2 ^ d.1 ≤ n)
    {m1 : MapPollard H} (hpl : MapPollard.placeEmptyRoot (encP T d) m = (m1, .ok ()))
    (rep1 : Rep m1 T A1 C1) (hfull : m1.full = true)
    (hfl : ∀ v, A1 (parent d) = some v → v.remember = true)
    (ts : List U64) :
    ∃ m2, MapPollard.undoDelMoveDown (encP T d :: ts) m = MapPollard.undoDelMoveDown ts m2 ∧
      Rep m2 T (moveDownA d A1 C1).1 (moveDownA d A1 C1).2 ∧
      m2.numLeaves = m1.numLeaves ∧ m2.full = m1.full := by
  have hdT : Valid T d := hd.mono hfit
  have hltT : d.1 < T := by omega
  have hS := valid_sib hdT hltT
  have hinf : inForest (sibling (encP T d)) m.numLeaves m.totalRows = true := by
    rw [sibling_encP hT hdT, hn, hrows, inForest_encP hT hn63 hS, decide_eq_true_iff]
    exact hin.2
  obtain ⟨r, a, b⟩ := moveDownM_rep_full rep1 hfull hdT hltT hfl
  refine ⟨_, ?_, r, a, b⟩
  rw [undoDelMoveDown_cons, hinf, if_pos rfl, hpl]
  simp only
  rw [rep1.rows, MapPrune.parent_encP hT hdT hltT, calcPrev_sib hT hdT hltT]

/-! ### `undoDelMoveDown` over the reversed target list -/

/-- **`undoDelMoveDown` over the reversed detwinned targets on a full forest** that tracks the
forest after the deletions: the result is represented by `moveBackAll` -/
theorem funremove_rep (nz : NZ H) : ∀ (ds : List Pos) (F : Forest H), F.numLeaves < 2 ^ 63 → Hyg F →
    (∀ d ∈ ds, ∃ h b, (d, h, b) ∈ F.nodes) →
    ds.Pairwise (fun a b => ¬ Anc (parent a) b ∧ ¬ Anc b (parent a)) →
    ∀ (P : H → Prop), (∀ d ∈ ds, ∀ t x, (t, x, true) ∈ F.nodes → Anc d t → P x) →
    ∀ (m : MapPollard H) (T : Nat) (A : Pos → Option (Leaf H)) (C : H → Option Pos),
    Rep m T A C → m.numLeaves = BitVec.ofNat 64 F.numLeaves → F.rows ≤ T → m.full = true →
    FAH A C (F.delLeaves (ds.flatMap (leavesUnder F))).nodes P (fun _ => False) →
    ∃ m2, MapPollard.undoDelMoveDown (ds.map (encP T)).reverse m = (m2, .ok ()) ∧
      Rep m2 T (moveBackAll F.numLeaves ds (A, C)).1 (moveBackAll F.numLeaves ds (A, C)).2 ∧
      m2.numLeaves = m.numLeaves ∧ m2.full = true
  | [], F, hn63, hy, hnode, hsep, P, hPd, m, T, A, C, rep, hnl, hfit, hfull, fa => by
    exact ⟨m, rfl, rep, rfl, hfull⟩
  | d :: ds, F, hn63, hy, hnode, hsep, P, hPd, m, T, A, C, rep, hnl, hfit, hfull, fa => by
    have hn : F.numLeaves < 2 ^ 64 := by omega
    obtain ⟨h, b, hd⟩ := hnode d List.mem_cons_self
    rw [List.pairwise_cons] at hsep
    have L := laws_forest nz F hn hy
    have hy1 := hyg_delLeaves hy (leavesUnder F d)
    have hnl1 : (F.delLeaves (leavesUnder F d)).numLeaves = F.numLeaves := numLeaves_delLeaves F _
    have hn1 : (F.delLeaves (leavesUnder F d)).numLeaves < 2 ^ 64 := by rw [hnl1]; exact hn
    have L1 : Laws (F.delLeaves (leavesUnder F d)).nodes (FRoot F) := by
      have := laws_forest nz (F.delLeaves (leavesUnder F d)) hn1 hy1
      rwa [froot_del] at this
    have pers : ∀ d' ∈ ds,
        (∀ h' b', (d', h', b') ∈ F.nodes → (d', h', b') ∈ (F.delLeaves (leavesUnder F d)).nodes) ∧
        (∀ t x, Anc d' t → ((t, x, true) ∈ (F.delLeaves (leavesUnder F d)).nodes ↔ (t, x, true) ∈ F.nodes)) := by
      intro d' hd'
      have hs := hsep.1 d' hd'
      by_cases hroot : isRootPos F.numLeaves d = true
      · obtain ⟨s1, s2⟩ := sep_disj hs
        exact persist_root nz F hn hy hroot s1 s2
      · have hnr : isRootPos F.numLeaves d = false := by
          cases hx : isRootPos F.numLeaves d with
          | false => rfl
          | true => exact absurd hx hroot
        exact persist_nonroot nz F hn hy hd hnr hs.1 hs.2
    have hmemLU : ∀ d' ∈ ds, ∀ x, x ∈ leavesUnder (F.delLeaves (leavesUnder F d)) d' ↔ x ∈ leavesUnder F d' := by
      intro d' hd' x
      rw [mem_leavesUnder, mem_leavesUnder]
      constructor
      · rintro ⟨t, ht, ha⟩; exact ⟨t, ((pers d' hd').2 t x ha).1 ht, ha⟩
      · rintro ⟨t, ht, ha⟩; exact ⟨t, ((pers d' hd').2 t x ha).2 ht, ha⟩
    have hmemAll : ∀ x, x ∈ ds.flatMap (leavesUnder (F.delLeaves (leavesUnder F d))) ↔ x ∈ ds.flatMap (leavesUnder F) := by
      intro x
      simp only [List.mem_flatMap]
      constructor
      · rintro ⟨d', hd', hx⟩; exact ⟨d', hd', (hmemLU d' hd' x).1 hx⟩
      · rintro ⟨d', hd', hx⟩; exact ⟨d', hd', (hmemLU d' hd' x).2 hx⟩
    have hFall : (F.delLeaves (leavesUnder F d)).delLeaves (ds.flatMap (leavesUnder (F.delLeaves (leavesUnder F d)))) =
        F.delLeaves ((d :: ds).flatMap (leavesUnder F)) := by
      rw [delLeaves_delLeaves]
      apply delLeaves_congr'
      intro x
      simp only [List.flatMap_cons, List.mem_append]
      rw [hmemAll]
    have hnode1 : ∀ d' ∈ ds, ∃ h' b', (d', h', b') ∈ (F.delLeaves (leavesUnder F d)).nodes := by
      intro d' hd'
      obtain ⟨h', b', hm⟩ := hnode d' (List.mem_cons_of_mem _ hd')
      exact ⟨h', b', (pers d' hd').1 h' b' hm⟩
    have hPd1 : ∀ d' ∈ ds, ∀ t x, (t, x, true) ∈ (F.delLeaves (leavesUnder F d)).nodes → Anc d' t → P x :=
      fun d' hd' t x ht ha => hPd d' (List.mem_cons_of_mem _ hd') t x (((pers d' hd').2 t x ha).1 ht) ha
    have fa0 : FAH A C ((F.delLeaves (leavesUnder F d)).delLeaves
        (ds.flatMap (leavesUnder (F.delLeaves (leavesUnder F d))))).nodes P (fun _ => False) :=
      FAH.congr_N fa (congrArg Forest.nodes hFall)
    -- the rest of the list first
    obtain ⟨m1, hmd1, rep1, hnl1', hfull1⟩ := funremove_rep nz ds (F.delLeaves (leavesUnder F d)) (by rw [hnl1]; exact hn63) hy1
      hnode1 hsep.2 P hPd1 m T A C rep (by rw [hnl1]; exact hnl)
      (by show forestRows (F.delLeaves (leavesUnder F d)).numLeaves ≤ T; rw [hnl1]; exact hfit) hfull fa0
    have inv1 := funremove_chain nz ds (F.delLeaves (leavesUnder F d)) hn1 hy1 hnode1 hsep.2 P hPd1 A C fa0
    rw [hnl1] at inv1
    rw [hnl1] at rep1
    generalize hAC : moveBackAll F.numLeaves ds (A, C) = AC at rep1 inv1
    obtain ⟨A1, C1⟩ := AC
    simp only at rep1 inv1
    have hlist : ((d :: ds).map (encP T)).reverse = (ds.map (encP T)).reverse ++ [encP T d] := by
      rw [List.map_cons, List.reverse_cons]
    rw [hlist, undoDelMoveDown_append _ _ _ _ hmd1]
    have hole_rest_out : ∀ q, (∃ d' ∈ ds, holeOf (F.delLeaves (leavesUnder F d)).nodes d' q) →
        ¬ Anc (parent d) q := by
      rintro q ⟨d', hd', hq, _⟩ hu
      have hs := hsep.1 d' hd'
      rcases hq with hq | hq
      · by_cases hle : d'.1 ≤ (parent d).1
        · exact hs.1 (Anc.comparable hq hu hle)
        · exact hs.2 (Anc.comparable hu hq (by omega))
      · exact hs.1 (Anc.trans (Anc.trans hu hq) (anc_parent_self d'))
    have hrep_step : moveBackAll F.numLeaves (d :: ds) (A, C) = stepBack F.numLeaves d (A1, C1) := by
      show stepBack F.numLeaves d (moveBackAll F.numLeaves ds (A, C)) = _
      rw [hAC]
    rw [hrep_step]
    have hnm1 : m1.numLeaves = BitVec.ofNat 64 F.numLeaves := hnl1'.trans hnl
    unfold stepBack
    by_cases hroot : isRootPos F.numLeaves d = true
    · rw [if_pos hroot]
      have habove : d.1 < T → A1 (parent d) = none := by
        intro _
        cases hA : A1 (parent d) with
        | none => rfl
        | some l =>
          exfalso
          have hout : ¬ ∃ d' ∈ ds, holeOf (F.delLeaves (leavesUnder F d)).nodes d' (parent d) :=
            fun hh => hole_rest_out _ hh (Anc.refl _)
          obtain ⟨_, bl, hl⟩ := inv1.val _ l hA hout
          obtain ⟨r, hr, ha⟩ := L1.under_root _ _ bl hl
          have := L1.root_disj r d d hr hroot (Anc.trans ha (anc_parent_self d)) (Anc.refl d)
          subst this
          have h1 := ha.1
          have : (parent r).1 = r.1 + 1 := rfl
          omega
      rw [undoDelMoveDown_root rep1 hnm1 hn63 hfit hroot habove []]
      exact ⟨m1, rfl, rep1, hnl1', hfull1⟩
    · rw [if_neg hroot]
      have hnr : isRootPos F.numLeaves d = false := by
        cases hx : isRootPos F.numLeaves d with
        | false => rfl
        | true => exact absurd hx hroot
      have hnrR : ¬ FRoot F d := by unfold FRoot; rw [hnr]; simp
      obtain ⟨D1, D2, D3, D4⟩ := del_nonroot nz F hn hy hd hnr (leavesUnder F d) (fun x => mem_leavesUnder)
      obtain ⟨ρ, hρ, hρd⟩ := L.under_root d h b hd
      obtain ⟨hσ0, bσ0, hσN⟩ := L.sib_node d h b hd hnrR
      obtain ⟨hρh, bρ, hρN⟩ := L.root_node ρ hρ
      have hdv : Valid F.rows d := MapFull.node_valid (Nat.le_refl _) hd
      have hρv : Valid F.rows ρ := MapFull.node_valid (Nat.le_refl _) hρN
      have hdρ : d ≠ ρ := fun e => hnrR (e ▸ hρ)
      have hdlt : d.1 < F.rows := by
        have h1 := hρd.1
        have h2 := hρv.1
        have hr : d.1 ≠ ρ.1 := fun e => hdρ (hρd.eq_of_row e.symm).symm
        omega
      have hdT : Valid T d := hdv.mono hfit
      have hltT : d.1 < T := by omega
      have hσT : Valid T (sib d) := valid_sib hdT hltT
      have hPσ : parent (sib d) = parent d := parent_sib d
      have hPN1 : (parent d, hσ0, bσ0) ∈ (F.delLeaves (leavesUnder F d)).nodes := by
        have := D3 (sib d) hσ0 bσ0 (Anc.refl _) hσN
        rwa [liftP_self, hPσ] at this
      -- stored nodes strictly below `P`
      have below : ∀ q l, SUnder (parent d) q → A1 q = some l →
          1 ≤ q.1 ∧ l.hash ≠ zero ∧ l.remember = true ∧ ∃ f, (q, l.hash, f) ∈ (F.delLeaves (leavesUnder F d)).nodes := by
        intro q l hq hl
        have hout : ¬ ∃ d' ∈ ds, holeOf (F.delLeaves (leavesUnder F d)).nodes d' q :=
          fun hh => hole_rest_out _ hh hq.1
        obtain ⟨hr, f, hf⟩ := inv1.val q l hl hout
        have hnrq : ¬ FRoot F q := L1.not_root_of_sunder hPN1 hf hq
        refine ⟨?_, L1.nonzero_of_nonroot hf hnrq, hr, f, hf⟩
        rcases D1 _ hf with ⟨h1, _, _⟩ | ⟨c, _, he, _⟩ | ⟨h1, h2, _⟩
        · exact absurd hq.1 h1
        · simp only at he; rw [he]; simp [liftP_fst]
        · exfalso; exact h2 (Anc.antisymm h1 hq.1)
      have hcached : ∀ q l, SUnder (parent d) q → A1 q = some l → ∀ t, C1 l.hash = some t → t = q := by
        intro q l hq hl t ht
        obtain ⟨_, _, _, f, hf⟩ := below q l hq hl
        exact (L1.leaf_hash t l.hash q f (inv1.cval _ _ ht).1 hf).symm
      rw [← hPσ] at below hcached
      obtain ⟨m1', hpl, rep1', hnl1'', hfull1'⟩ := placeEmptyRoot_rep_gen rep1 hfull1 hσT (by rw [sib_fst]; exact hltT)
        (by
          intro q hq h0
          cases hA : A1 q with
          | none => rfl
          | some l => have := (below q l hq hA).1; omega)
        (fun q v hq hv => (below q v hq hv).2.1)
        (fun q v hq hv _ => (below q v hq hv).2.2.1)
        (fun _ q v hq hv => (below q v hq hv).2.2.1)
        hcached
        (by
          intro x t ht hts
          obtain ⟨hm, hh, _⟩ := inv1.cval _ _ ht
          exact ⟨_, inv1.sto t x true hm hh, rfl⟩)
      rw [sib_sib] at hpl
      have hout : ¬ ∃ d' ∈ ds, holeOf (F.delLeaves (leavesUnder F d)).nodes d' (parent d) :=
        fun hh => hole_rest_out _ hh (Anc.refl _)
      have hflP : ∀ v, unliftA (sib d) A1 (parent d) = some v → v.remember = true := by
        intro v hv
        have hAP : unliftA (sib d) A1 (parent d) = A1 (parent d) := by
          unfold unliftA
          have h1 : ¬ SUnder (sib d) (parent d) := by
            intro h; have := h.2; rw [sib_fst] at this
            have : (parent d).1 = d.1 + 1 := rfl
            omega
          have h2 : ¬ SUnder (parent (sib d)) (parent d) := by
            rw [hPσ]; intro h; have := h.2; omega
          rw [if_neg h1, if_neg h2]
        rw [hAP] at hv
        exact (inv1.val _ v hv hout).1
      have hin : (d.2 + 1) * 2 ^ d.1 ≤ F.numLeaves ∧ ((sib d).2 + 1) * 2 ^ d.1 ≤ F.numLeaves := by
        have h1 := MapAdd.node_lt hd
        have h2 := MapAdd.node_lt hσN
        simp only [sib_fst] at h1 h2
        exact ⟨h1, h2⟩
      obtain ⟨m2, hstep, rep2, hnl2, hfull2⟩ := undoDelMoveDown_step_full (m := m1) rep1.rows rep1.T_le hnm1 hn63 hfit
        hdv hdlt hin hpl rep1' (hfull1'.trans hfull1) hflP []
      obtain ⟨e1, e2⟩ := fmoveDown_eq L1 inv1 (d := d) hout
      refine ⟨m2, hstep, rep2.congr (fun q => (e1 q).symm) (fun x => (e2 x).symm), ?_, hfull2.trans (hfull1'.trans hfull1)⟩
      rw [hnl2, hnl1'', hnl1']

/-! ### `placeProof` and `putCalculated` on a full forest -/

section layer1
variable {T : Nat}

/-- every proof position is stored with the hash of the proof: `placeProof` writes nothing and
returns the proof unchanged -/
theorem placeProof_present (hv : Pos → H) {A : Pos → Option (Leaf H)} {C : H → Option Pos} :
    ∀ (qs : List Pos) (i : Nat) (pr : List H) (m : MapPollard H), Rep m T A C →
    (∀ q ∈ qs, Valid T q) → (∀ j (hj : j < qs.length), pr[i + j]? = some (hv qs[j])) →
    (∀ q ∈ qs, ∃ l, A q = some l ∧ l.hash = hv q) →
    MapPollard.placeProof (qs.map (encP T)) i pr m = (m, .ok pr)
  | [], i, pr, m, rep, _, _, _ => rfl
  | q :: qs, i, pr, m, rep, hv', hpr, hst => by
    have hq : Valid T q := hv' q List.mem_cons_self
    have hvs : ∀ q' ∈ qs, Valid T q' := fun q' h => hv' q' (List.mem_cons_of_mem _ h)
    have hprs : ∀ j (hj : j < qs.length), pr[i + 1 + j]? = some (hv qs[j]) := by
      intro j hj
      have := hpr (j + 1) (by simp; omega)
      rw [show i + (j + 1) = i + 1 + j by omega] at this
      simpa using this
    have h0 := hpr 0 (by simp)
    rw [Nat.add_zero] at h0
    simp only [List.getElem_cons_zero] at h0
    obtain ⟨l, hA, hl⟩ := hst q List.mem_cons_self
    rw [List.map_cons]
    unfold MapPollard.placeProof
    rw [rep.node q hq, hA]
    simp only
    have hlt : i < pr.length := by
      rcases Nat.lt_or_ge i pr.length with h | h
      · exact h
      · rw [List.getElem?_eq_none h] at h0; cases h0
    rw [if_pos hlt]
    have hset : pr.set i l.hash = pr := by
      rw [hl]
      rw [List.getElem?_eq_getElem hlt] at h0
      simp only [Option.some.injEq] at h0
      rw [← h0]
      exact List.set_getElem_self hlt
    rw [hset]
    exact placeProof_present hv qs (i + 1) pr m rep hvs hprs (fun q' h => hst q' (List.mem_cons_of_mem _ h))

/-- `putCalculated` on a full forest: every listed position gets its value with the flag set, the
calculated targets are cached at `pos` of their hash -/
theorem putCalculated_full (isT' : U64 → Bool) (isT : Pos → Bool) (v : Pos → H) (pos : H → Option Pos) :
    ∀ (qs : List Pos) (m : MapPollard H) (A : Pos → Option (Leaf H)) (C : H → Option Pos), Rep m T A C →
    m.full = true → (∀ q ∈ qs, Valid T q ∧ isT' (encP T q) = isT q) →
    (∀ q ∈ qs, isT q = true → pos (v q) = some q) →
    Rep (MapPollard.putCalculated isT' (qs.map (fun p => (encP T p, v p))) m) T
      (fun q => if q ∈ qs then some ⟨v q, true⟩ else A q)
      (fun x => if ∃ t ∈ qs, isT t = true ∧ v t = x then pos x else C x) ∧
      (MapPollard.putCalculated isT' (qs.map (fun p => (encP T p, v p))) m).full = true ∧
      (MapPollard.putCalculated isT' (qs.map (fun p => (encP T p, v p))) m).numLeaves = m.numLeaves
  | [], m, A, C, rep, hf, _, _ => by
    refine ⟨rep.congr (fun q => by simp) (fun x => by simp), hf, rfl⟩
  | q :: qs, m, A, C, rep, hf, hq, hpos => by
    obtain ⟨hqv, hqt⟩ := hq q List.mem_cons_self
    have hqs : ∀ q' ∈ qs, Valid T q' ∧ isT' (encP T q') = isT q' := fun q' h => hq q' (List.mem_cons_of_mem _ h)
    have hposs : ∀ q' ∈ qs, isT q' = true → pos (v q') = some q' := fun q' h => hpos q' (List.mem_cons_of_mem _ h)
    rw [List.map_cons]
    unfold MapPollard.putCalculated
    simp only
    rw [hqt, hf, Bool.or_true]
    have rep1 := rep.putNode hqv ⟨v q, true⟩
    cases ht : isT q with
    | false =>
      simp only [Bool.false_eq_true, if_false]
      obtain ⟨r', hf', hn'⟩ := putCalculated_full isT' isT v pos qs _ _ _ rep1 (by simpa using hf) hqs hposs
      refine ⟨r'.congr ?_ ?_, hf', hn'⟩
      · intro x
        by_cases hx : x ∈ qs
        · simp [hx]
        · by_cases hxq : x = q
          · subst hxq; simp [hx]
          · simp [hx, hxq, upd_ne]
      · intro x
        by_cases hx : ∃ t ∈ qs, isT t = true ∧ v t = x
        · rw [if_pos hx]
          obtain ⟨t, h1, h2, h3⟩ := hx
          rw [if_pos ⟨t, List.mem_cons_of_mem _ h1, h2, h3⟩]
        · rw [if_neg hx, if_neg]
          rintro ⟨t, h1, h2, h3⟩
          rcases List.mem_cons.1 h1 with rfl | h1
          · rw [ht] at h2; cases h2
          · exact hx ⟨t, h1, h2, h3⟩
    | true =>
      simp only [if_true]
      have rep2 := rep1.putCached (v q) hqv
      obtain ⟨r', hf', hn'⟩ := putCalculated_full isT' isT v pos qs _ _ _ rep2 (by simpa using hf) hqs hposs
      refine ⟨r'.congr ?_ ?_, hf', hn'⟩
      · intro x
        by_cases hx : x ∈ qs
        · simp [hx]
        · by_cases hxq : x = q
          · subst hxq; simp [hx]
          · simp [hx, hxq, upd_ne]
      · intro x
        by_cases hx : ∃ t ∈ qs, isT t = true ∧ v t = x
        · rw [if_pos hx]
          obtain ⟨t, h1, h2, h3⟩ := hx
          rw [if_pos ⟨t, List.mem_cons_of_mem _ h1, h2, h3⟩]
        · rw [if_neg hx, upd_apply]
          by_cases hxq : x = v q
          · rw [if_pos hxq, if_pos ⟨q, List.mem_cons_self, ht, hxq.symm⟩, hxq]
            exact hpos q List.mem_cons_self ht
          · rw [if_neg hxq, if_neg]
            rintro ⟨t, h1, h2, h3⟩
            rcases List.mem_cons.1 h1 with rfl | h1
            · exact hxq h3.symm
            · exact hx ⟨t, h1, h2, h3⟩

end layer1

/-! ### the run of `undoDeletion` -/

section main
open SpecPlan CalcGeo CalcComplete

/-- the run of `undoDeletion` with the canonical proof, for ANY state `m3` that `placeProof` returns
together with the unchanged proof (the part of `MapUndoDel.undoDeletion_rep` that does not depend on
the `full` flag) -/
theorem undoDeletion_run (nz : NZ H) {m m2 m3 : MapPollard H} {F : Forest H} {T : Nat}
    (hrows : m.totalRows = H8 T) (hT : T ≤ 63) (hn : m.numLeaves = BitVec.ofNat 64 F.numLeaves)
    (hn63 : F.numLeaves < 2 ^ 63) (hfit : F.rows ≤ T) (hy : Hyg F)
    {L : List H} {ts : List Pos} {ps : List H} (hnd : L.Nodup) (hc : F.canon L = some (ts, ps))
    {ds : List Pos}
    (hdt : deTwin (if H8 T ≠ H8 F.rows
        then translatePositions (sortU64 (ts.map (encP F.rows))) (H8 F.rows) (H8 T)
        else sortU64 (ts.map (encP F.rows))) (H8 T) = ds.map (encP T))
    (hmd : MapPollard.undoDelMoveDown (ds.map (encP T)).reverse m = (m2, .ok ()))
    (hTR2 : m2.totalRows = H8 T) (hnl2 : m2.numLeaves = m.numLeaves)
    (h4 : MapPollard.placeProof ((F.proofPositions ts).map (encP T)) 0 ps m2 = (m3, .ok ps))
    (hTR3 : m3.totalRows = H8 T) (hn3 : m3.numLeaves = m2.numLeaves) :
    MapPollard.undoDeletion (ts.map (encP F.rows)) ps L m =
      (MapPollard.putCalculated (fun p => (ts.map (encP T)).contains p)
        ((pathSet F ts).map (fun p => (encP T p, tvF F p))) m3, .ok ()) := by
  have hn64 : F.numLeaves < 2 ^ 64 := Nat.lt_trans hn63 (by decide)
  have Lw := laws_forest nz F hn64 hy
  have h63 : F.rows ≤ 63 := by omega
  have htr : TreeRows m.numLeaves = H8 F.rows := by rw [hn]; exact SpecView.treeRows_eq hn63
  have tsB : ∀ t ∈ ts, ∃ R, BelowRoot F.numLeaves t.1 t.2 R := by
    intro t ht
    obtain ⟨x, hx⟩ := ts_node hc ht
    exact belowRoot_of_mem_nodes hx
  have psB : ∀ q ∈ pathSet F ts, ∃ R, BelowRoot F.numLeaves q.1 q.2 R := by
    intro q hq
    obtain ⟨b, hb⟩ := ps_node hc hq
    exact belowRoot_of_mem_nodes hb
  have ppB : ∀ q ∈ F.proofPositions ts, ∃ R, BelowRoot F.numLeaves q.1 q.2 R := by
    intro q hq
    obtain ⟨b, hb⟩ := pp_node hc hq
    exact belowRoot_of_mem_nodes hb
  have vF : ∀ {q : Pos}, (∃ R, BelowRoot F.numLeaves q.1 q.2 R) → MapInv.Valid F.rows q :=
    fun ⟨R, hb⟩ => belowRoot_valid' (Nat.le_refl _) hb
  have tsnd : ts.Nodup := canon_targets_nodup hc hnd
  have tsNode : ∀ p ∈ ts, MapDeTwin.IsNode F.nodes p := by
    intro p hp
    obtain ⟨x, hx⟩ := ts_node hc hp
    exact ⟨x, true, hx⟩
  -- (1) the sorted targets
  obtain ⟨hnp, h1, hpos⟩ := toHashAndPos_canon h63 ts L (fun t ht => vF (tsB t ht)) (canon_targets_length hc)
  -- (2) … in storage coordinates, detwinned
  have hsp : sortU64 (ts.map (encP F.rows)) = (sortPos ts).map (encP F.rows) :=
    sortU64_encP h63 ts (fun t ht => vF (tsB t ht))
  have hvs : ∀ t ∈ sortPos ts, MapInv.Valid F.rows t := fun t ht => vF (tsB t (mem_sortPos.1 ht))
  have hX : (if H8 F.rows ≠ H8 T then
        sortU64 (translatePositions ((sortPos ts).map (encP F.rows)) (H8 F.rows) (H8 T))
      else (sortPos ts).map (encP F.rows)) = (sortPos ts).map (encP T) := by
    have := toStor hT hfit (sortPos ts) hvs
    by_cases hcnd : H8 F.rows ≠ H8 T
    · rw [if_pos hcnd] at this ⊢
      rw [this, sortU64_encP hT _ (fun t ht => (hvs t ht).mono hfit),
        sortPos_of_ssorted (sortPos_ssorted tsnd)]
    · rw [if_neg hcnd] at this ⊢
      exact this
  have h2 : deTwin (if TreeRows m.numLeaves ≠ m.totalRows then
        sortU64 (translatePositions hnp.positions (TreeRows m.numLeaves) m.totalRows) else hnp.positions)
        m.totalRows = ds.map (encP T) := by
    rw [htr, hrows, hpos, hX]
    rw [MapDeTwin.sorted_translated tsNode hT hfit] at hdt
    exact hdt
  -- (3) `ProofPositions` in API coordinates
  have hyp : PPHyp F.numLeaves (sortPos ts) := {
    inForest := fun t ht => tsB t (mem_sortPos.1 ht)
    sorted := sortPos_ssorted tsnd
    anti := by
      intro a ha b hb hab
      obtain ⟨x, hx⟩ := ts_node hc (mem_sortPos.1 ha)
      obtain ⟨y, hy⟩ := ts_node hc (mem_sortPos.1 hb)
      exact (Lw.leaf_below a x b y true hx hy hab).symm }
  have hPP : (ProofPositions (sortU64 (ts.map (encP F.rows))) m2.numLeaves (TreeRows m.numLeaves)).1 =
      (F.proofPositions ts).map (encP F.rows) := by
    have := Props.C16.proofPositions_spec F (H := F.rows) (h := F.rows)
      (BitVec.ofNat 64 F.numLeaves) (toNat_ofNat64_of_lt hn64) (SpecView.treeRows_eq hn63) h63 (Nat.le_refl _)
      (sortPos ts) hyp
    rw [MapProve.proofPositions_congr (F := F) (fun t => mem_sortPos (l := ts))] at this
    rw [htr, hnl2, hn, hsp, this]
  -- (4) the trimming keeps every position
  have htrim : MapPollard.trimProofPos ((F.proofPositions ts).map (encP F.rows)) m2.numLeaves =
      (F.proofPositions ts).map (encP F.rows) := by
    unfold MapPollard.trimProofPos
    apply takeWhile_all
    intro x hx
    obtain ⟨q, hq, rfl⟩ := List.mem_map.1 hx
    obtain ⟨R, hb⟩ := ppB q hq
    have hvq := vF (ppB q hq)
    rw [hnl2, htr]
    apply (Props.C16.inForest_iff_below_root h63 hvq.1 hvq.2 m.numLeaves).2
    have hn' : m.numLeaves.toNat = F.numLeaves := by
      rw [hn]; exact toNat_ofNat64_of_lt hn64
    rw [hn']
    exact ⟨R, hb⟩
  have h3 : (if TreeRows m.numLeaves ≠ m2.totalRows then
        translatePositions (MapPollard.trimProofPos
          (ProofPositions (sortU64 (ts.map (encP F.rows))) m2.numLeaves (TreeRows m.numLeaves)).1 m2.numLeaves)
          (TreeRows m.numLeaves) m2.totalRows
       else (ProofPositions (sortU64 (ts.map (encP F.rows))) m2.numLeaves (TreeRows m.numLeaves)).1) =
      (F.proofPositions ts).map (encP T) := by
    rw [hPP, htrim, htr, hTR2]
    exact toStor hT hfit _ (fun q hq => vF (ppB q hq))
  have hps := ps_hashes hc
  have hlen : ((F.proofPositions ts).map (encP T)).length = ps.length := by
    rw [hps, List.length_map, List.length_map]
  -- (6) `calculateHashes`
  have hdh : (match (some L : Option (List H)) with
      | some hs => hs
      | none => (ts.map (E F.rows)).map (fun _ => zero)) = ts.map (valAt CTree.hash F) := by
    rw [canon_target_vals hc]
    simp [CTree.hash]
  obtain ⟨r, h5, _, _, hnodes⟩ := calc_generic (Nat.le_of_lt hn63) nz.nonzero hy.nz hnd hc CTree.hash
    (fun a b ga gb => hash_node_comb nz.nonzero ga gb) (fun _ _ _ _ _ _ _ => rfl) (some L) hdh []
  have h5' : calculateHashes m3.numLeaves (some L) (ts.map (encP F.rows)) ps = .ok r := by
    rw [hn3, hnl2, hn]
    rw [List.append_nil] at h5
    exact h5
  -- (7) the calculated nodes in storage coordinates
  have h6 : (if TreeRows m.numLeaves ≠ m3.totalRows then
        sortHP (r.nodes.map (fun x => (translatePos x.1 (TreeRows m.numLeaves) m3.totalRows, x.2)))
       else r.nodes) = (pathSet F ts).map (fun p => (encP T p, tvF F p)) := by
    rw [hnodes, htr, hTR3]
    have := inter_eq' hT hfit (pathSet F ts) (pathSet_sorted F ts) (fun q hq => vF (psB q hq))
      (valAt CTree.hash F)
    refine Eq.trans this ?_
    apply List.map_congr_left
    intro q hq
    rw [ps_val hc hq]
  have h7 : (if TreeRows m.numLeaves ≠ m3.totalRows then
        translatePositions (ts.map (encP F.rows)) (TreeRows m.numLeaves) m3.totalRows
        else ts.map (encP F.rows)) = ts.map (encP T) := by
    rw [htr, hTR3]
    exact toStor hT hfit ts (fun t ht => vF (tsB t ht))
  exact undoDeletion_eq h1 h2 hmd h3 hlen h4 h5' h6 h7

end main

/-! ### filling the hole -/

section fill
variable {A : Pos → Option (Leaf H)} {C : H → Option Pos} {N : List (Pos × H × Bool)} {R : Pos → Prop}

/-- **re-writing the path set fills the hole**: if every position of the hole is in `PS`, every
position of `PS` is a node with value `tv`, and the pending leaves are exactly those that get cached
(`C2`), then the state tracks `N` again -/
theorem ffill (Lw : Laws N R) {PS : List Pos} {tv : Pos → H} {KL : H → Prop} {C2 : H → Option Pos} {Hole : Pos → Prop}
    (fa : FAH A C N KL Hole) (hole_sub : ∀ q, Hole q → q ∈ PS)
    (hps : ∀ q ∈ PS, ∃ b, (q, tv q, b) ∈ N)
    (hC2 : ∀ x t, C2 x = some t → C x = some t ∨ (KL x ∧ (t, x, true) ∈ N))
    (hC2' : ∀ t x, (t, x, true) ∈ N → (KL x → C2 x = some t) ∧ (¬ KL x → C2 x = C x)) :
    FA (fun q => if q ∈ PS then some ⟨tv q, true⟩ else A q) C2 N (fun _ => False) where
  dom := by
    intro q l hl
    by_cases hq : q ∈ PS
    · obtain ⟨b, hb⟩ := hps q hq
      exact ⟨_, b, hb⟩
    · rw [if_neg hq] at hl
      obtain ⟨_, b, hb⟩ := fa.val q l hl (fun c => hq (hole_sub q c))
      exact ⟨_, b, hb⟩
  sto := by
    intro q h b hm
    by_cases hq : q ∈ PS
    · rw [if_pos hq]
      obtain ⟨b', hb'⟩ := hps q hq
      rw [(Lw.func _ _ _ _ _ hb' hm).1]
    · rw [if_neg hq]
      exact fa.sto q h b hm (fun c => hq (hole_sub q c))
  cdom := by
    intro x t hx
    refine ⟨fun h => h, ?_⟩
    rcases hC2 x t hx with h | ⟨_, h⟩
    · exact ⟨t, (fa.cval x t h).1⟩
    · exact ⟨t, h⟩
  csto := by
    intro t x hm _
    by_cases hk : KL x
    · exact (hC2' t x hm).1 hk
    · rw [(hC2' t x hm).2 hk]; exact fa.csto t x hm hk

end fill

end UtreexoVerif.Proofs.MapFullUndoDel

section Axioms
open UtreexoVerif.Proofs.MapFullUndoDel
#print axioms funremove_rep
#print axioms undoDeletion_run
#print axioms ffill
end Axioms
