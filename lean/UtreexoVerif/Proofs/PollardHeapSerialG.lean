/-
  `RestorePollardFrom` on the heap versus the shape-level decoder, for ARBITRARY streams:

  * `restoreH_n`, `restoreH_total`: same byte count, never a panic, always returns — unconditionally;
  * `restoreH_parse_fail`: when the parse fails (everything before the sanity check) both fail alike;
  * `PShape` / `PRoots`: the representation relation "this heap node carries this `PNode`";
    `buildAll_shape`: the heap built from a parse carries the shapes of the parse;
  * the two node maps: `maps_agree` — when no two inserted records collide (same 12-byte
    prefix ⇔ same hash) the keys of the heap map are the hashes of the shape map (reversed:
    the heap model prepends new keys, the shape model appends them), so both have the same
    length and the sanity check decides alike;
  * `restoreL_prefix`: the parse of a strict prefix of a valid stream fails.
-/
import UtreexoVerif.Proofs.PollardHeapSerialMain
import UtreexoVerif.Proofs.LiveLeaves
set_option linter.unusedSectionVars false
set_option linter.unusedVariables false
set_option linter.unusedSimpArgs false

namespace UtreexoVerif.Proofs.PollardHeapSerial
open UtreexoVerif UtreexoVerif.Model UtreexoVerif.Model.PollardHeap UtreexoVerif.Spec Hasher
open UtreexoVerif.Model.Serial UtreexoVerif.Proofs.Serial UtreexoVerif.Proofs.PollardHeap

variable {H : Type} [DecidableEq H] [Hasher H] [HashBytes H]

/-! ### unconditional agreement -/

/-- the byte count `RestorePollardFrom` returns is the same on the heap and on the shapes -/
theorem restoreH_n (r : Reader) : (restoreH (H := H) r).n = (restorePollard (H := H) r).n := by
  rw [restoreH_eq, restorePollard_eq]
  rcases restoreL r with ⟨n, o⟩
  cases o with
  | ok x =>
    obtain ⟨nl, nd, ts⟩ := x
    simp only []
    split <;> split <;> rfl
  | err => rfl
  | panic => rfl
  | hang => rfl

/-- `RestorePollardFrom` on the heap never panics and always returns -/
theorem restoreH_total (r : Reader) :
    (restoreH (H := H) r).out ≠ .panic ∧ (restoreH (H := H) r).out ≠ .hang := by
  have h := restoreL_total r
  rw [restoreH_eq]
  rcases hy : restoreL r with ⟨n, o⟩
  rw [hy] at h
  cases o with
  | ok x =>
    obtain ⟨nl, nd, ts⟩ := x
    simp only []
    split <;> simp
  | err => simp [failAs]
  | panic => exact absurd rfl h.2
  | hang => exact absurd rfl h.1

/-- when the parse fails, both decoders fail with the same count (an error) -/
theorem restore_parse_fail (r : Reader) (h : ∀ x, (restoreL r).out ≠ .ok x) :
    restoreH (H := H) r = ⟨(restoreL r).n, .err⟩ ∧ restorePollard (H := H) r = ⟨(restoreL r).n, .err⟩ := by
  have ht := restoreL_total r
  rw [restoreH_eq, restorePollard_eq]
  rcases hy : restoreL r with ⟨n, o⟩
  rw [hy] at h ht
  cases o with
  | ok x => exact absurd rfl (h x)
  | err => exact ⟨rfl, rfl⟩
  | panic => exact absurd rfl ht.2
  | hang => exact absurd rfl ht.1

/-! ### the representation relation for shapes -/

/-- heap node `n` carries the `polNode` shape `t`: data, both nieces or none (pointing back
with their aunt pointers), `remember = false` as `readOne` leaves it; `fp` = the nodes below -/
inductive PShape (hp : Heap H) : Nat → PNode H → List Nat → Prop
  | dead {n : Nat} {nn : PolNode H} {d : H} :
      hp[n]? = some nn → nn.data = d → nn.lNiece = none → nn.rNiece = none →
      nn.remember = false → PShape hp n (.dead d) []
  | fork {n l r : Nat} {nn ln rn : PolNode H} {d : H} {tl tr : PNode H} {fl fr : List Nat} :
      hp[n]? = some nn → nn.data = d → nn.lNiece = some l → nn.rNiece = some r →
      nn.remember = false → hp[l]? = some ln → hp[r]? = some rn →
      ln.aunt = some n → rn.aunt = some n →
      PShape hp l tl fl → PShape hp r tr fr →
      PShape hp n (.fork d tl tr) (l :: r :: (fl ++ fr))

/-- the roots `rs` (no aunt) carry the shapes `ts`; `owned` = every node reachable -/
inductive PRoots (hp : Heap H) : List Nat → List (PNode H) → List Nat → Prop
  | nil : PRoots hp [] [] []
  | cons {r : Nat} {rn : PolNode H} {t : PNode H} {fp : List Nat} {rs : List Nat}
      {ts : List (PNode H)} {owned : List Nat} :
      hp[r]? = some rn → rn.aunt = none → PShape hp r t fp → PRoots hp rs ts owned →
      PRoots hp (r :: rs) (t :: ts) (r :: fp ++ owned)

theorem LShape.pshape {hp : Heap H} {n : Nat} {t : LNode} {fp : List Nat} {ents : List (H × Nat)}
    (h : LShape hp n t fp ents) : PShape hp n t.erase fp := by
  induction h with
  | dead h1 h2 h3 h4 h5 => exact PShape.dead h1 h2 h3 h4 h5
  | fork h1 h2 h3 h4 h5 h6 h7 h8 h9 _ _ ihl ihr => exact PShape.fork h1 h2 h3 h4 h5 h6 h7 h8 h9 ihl ihr

theorem LRoots.proots {hp : Heap H} {rs : List Nat} {ts : List LNode} {owned : List Nat}
    {ents : List (H × Nat)} (h : LRoots hp rs ts owned ents) :
    PRoots hp rs (ts.map LNode.erase) owned := by
  induction h with
  | nil => exact PRoots.nil
  | cons h1 h2 h3 _ ih => exact PRoots.cons h1 h2 h3.pshape ih

/-- every `NodeMap` insertion points at a node of the tree that carries the inserted hash -/
theorem LShape.ents_data {hp : Heap H} {n : Nat} {t : LNode} {fp : List Nat} {ents : List (H × Nat)}
    (h : LShape hp n t fp ents) : ∀ e ∈ ents, ∃ x, hp[e.2]? = some x ∧ x.data = e.1 := by
  induction h with
  | dead h1 h2 h3 h4 h5 =>
    intro e he
    unfold entH at he
    split at he
    · simp at he; subst he; exact ⟨_, h1, h2⟩
    · cases he
  | fork h1 h2 h3 h4 h5 h6 h7 h8 h9 _ _ ihl ihr =>
    intro e he
    simp only [List.mem_append] at he
    rcases he with he | he | he
    · unfold entH at he
      split at he
      · simp at he; subst he; exact ⟨_, h1, h2⟩
      · cases he
    · exact ihl e he
    · exact ihr e he

theorem LRoots.ents_data {hp : Heap H} {rs : List Nat} {ts : List LNode} {owned : List Nat}
    {ents : List (H × Nat)} (h : LRoots hp rs ts owned ents) :
    ∀ e ∈ ents, ∃ x, hp[e.2]? = some x ∧ x.data = e.1 := by
  induction h with
  | nil => intro e he; cases he
  | cons h1 h2 h3 _ ih =>
    intro e he
    simp only [List.mem_append] at he
    rcases he with he | he
    · exact h3.ents_data e he
    · exact ih e he

/-- the keys inserted into the heap `NodeMap` are the hashes of the inserted records, in order -/
theorem LShape.ents_keys {hp : Heap H} {n : Nat} {t : LNode} {fp : List Nat} {ents : List (H × Nat)}
    (h : LShape hp n t fp ents) : ents.map (·.1) = (leafRecs H t).map ofBytes := by
  induction h with
  | dead h1 h2 h3 h4 h5 =>
    simp only [entH, leafRecs]
    split <;> simp
  | fork h1 h2 h3 h4 h5 h6 h7 h8 h9 _ _ ihl ihr =>
    simp only [entH, leafRecs, List.map_append, ihl, ihr]
    split <;> simp

theorem LRoots.ents_keys {hp : Heap H} {rs : List Nat} {ts : List LNode} {owned : List Nat}
    {ents : List (H × Nat)} (h : LRoots hp rs ts owned ents) :
    ents.map (·.1) = (ts.flatMap (leafRecs H)).map ofBytes := by
  induction h with
  | nil => rfl
  | cons h1 h2 h3 _ ih => simp only [List.map_append, List.flatMap_cons, h3.ents_keys, ih]

theorem mapSet_subset {m : List (H × Nat)} {k : H} {v : Nat} {e : H × Nat} (h : e ∈ mapSet m k v) :
    e ∈ m ∨ e = (k, v) := by
  unfold mapSet at h
  split at h
  · simp only [List.mem_map] at h
    obtain ⟨a, ha, rfl⟩ := h
    split
    · exact Or.inr rfl
    · exact Or.inl ha
  · simp only [List.mem_cons] at h
    rcases h with h | h
    · exact Or.inr h
    · exact Or.inl h

theorem mapSetAll_subset : ∀ (es m : List (H × Nat)) (e : H × Nat), e ∈ mapSetAll m es → e ∈ m ∨ e ∈ es := by
  intro es
  induction es with
  | nil => intro m e h; exact Or.inl h
  | cons x es ih =>
    intro m e h
    have hstep : mapSetAll m (x :: es) = mapSetAll (mapSet m x.1 x.2) es := rfl
    rw [hstep] at h
    rcases ih _ e h with h | h
    · rcases mapSet_subset h with h | h
      · exact Or.inl h
      · exact Or.inr (by rw [h]; simp)
    · exact Or.inr (by simp [h])

/-! ### the two node maps -/

theorem mapSet_keys (m : List (H × Nat)) (k : H) (v : Nat) :
    (mapSet m k v).map (·.1) = if k ∈ m.map (·.1) then m.map (·.1) else k :: m.map (·.1) := by
  by_cases hk : k ∈ m.map (·.1)
  · rw [if_pos hk]
    unfold mapSet
    have : (m.lookup k).isSome = true := by
      cases hl : m.lookup k with
      | some v' => rfl
      | none =>
        exfalso
        rw [List.lookup_eq_none_iff] at hl
        obtain ⟨a, ha, hak⟩ := List.mem_map.1 hk
        have := hl a ha
        simp [hak] at this
    simp only [this, if_true, List.map_map]
    apply List.map_congr_left
    intro a _
    by_cases e : a.1 = k <;> simp [e]
  · rw [if_neg hk, mapSet_fresh hk]; rfl

theorem put_same : ∀ (nm : NodeMap H) (k : List Byte) (v : H), k ∈ nm.map (·.1) →
    (∀ e ∈ nm, e.1 = k → e = (k, v)) → NodeMap.put nm k v = nm := by
  intro nm
  induction nm with
  | nil => intro k v h; simp at h
  | cons e nm ih =>
    intro k v hk hf
    obtain ⟨k', v'⟩ := e
    by_cases h : k' = k
    · have := hf (k', v') (by simp) h
      simp only [Prod.mk.injEq] at this
      simp [NodeMap.put, this.1, this.2]
    · have hne : (k' == k) = false := by rw [beq_eq_false_iff_ne]; exact h
      simp only [NodeMap.put, hne, Bool.false_eq_true, if_false]
      rw [ih k v]
      · simp only [List.map_cons, List.mem_cons] at hk
        rcases hk with hk | hk
        · exact absurd hk.symm h
        · exact hk
      · intro e he; exact hf e (by simp [he])

/-- **the two node maps agree** when no two inserted records collide: processing the same
records, the keys of the heap map (full hashes, new keys prepended) are the values of the
shape map (new keys appended), reversed -/
theorem maps_agree (all : List (List Byte))
    (hnc : ∀ a ∈ all, ∀ b ∈ all, (a.take 12 = b.take 12 ↔ (ofBytes a : H) = ofBytes b)) :
    ∀ (recs : List (List Byte)) (ents : List (H × Nat)) (nm : NodeMap H) (hm : List (H × Nat)),
      ents.map (·.1) = recs.map ofBytes → (∀ a ∈ recs, a ∈ all) →
      hm.map (·.1) = (nm.map (·.2)).reverse →
      (∀ e ∈ nm, ∃ a ∈ all, e = (a.take 12, ofBytes a)) →
      (mapSetAll hm ents).map (·.1) = ((putRecs nm recs).map (·.2)).reverse := by
  intro recs
  induction recs with
  | nil =>
    intro ents nm hm he _ h1 _
    have : ents = [] := by simpa using he
    subst this
    exact h1
  | cons a recs ih =>
    intro ents nm hm he hall h1 h2
    match ents, he with
    | x :: ents, he =>
      obtain ⟨d, i⟩ := x
      simp only [List.map_cons, List.cons.injEq] at he
      obtain ⟨hd, he⟩ := he
      subst hd
      have ha : a ∈ all := hall a (by simp)
      have hstepH : mapSetAll hm ((ofBytes a, i) :: ents) = mapSetAll (mapSet hm (ofBytes a) i) ents := rfl
      have hstepN : putRecs nm (a :: recs) = putRecs (nm.put (a.take 12) (ofBytes a)) recs := rfl
      rw [hstepH, hstepN]
      apply ih ents _ _ he (fun b hb => hall b (by simp [hb]))
      · by_cases hk : a.take 12 ∈ nm.map (·.1)
        · -- the key is there already: both maps keep their keys
          have hfun : ∀ e ∈ nm, e.1 = a.take 12 → e = (a.take 12, ofBytes a) := by
            intro e he' hek
            obtain ⟨a', ha', rfl⟩ := h2 e he'
            simp only at hek
            have := (hnc a' ha' a ha).1 hek
            rw [hek, this]
          rw [put_same nm _ _ hk hfun, mapSet_keys]
          obtain ⟨e, he', hek⟩ := List.mem_map.1 hk
          have hin : (ofBytes a : H) ∈ hm.map (·.1) := by
            rw [h1, List.mem_reverse]
            have := hfun e he' hek
            exact List.mem_map.2 ⟨e, he', by rw [this]⟩
          rw [if_pos hin]; exact h1
        · -- a new key in both
          rw [put_fresh nm _ _ hk, mapSet_keys]
          have hnin : (ofBytes a : H) ∉ hm.map (·.1) := by
            rw [h1, List.mem_reverse]
            intro hc
            obtain ⟨e, he', hev⟩ := List.mem_map.1 hc
            obtain ⟨a', ha', rfl⟩ := h2 e he'
            simp only at hev
            have := (hnc a' ha' a ha).2 hev
            exact hk (List.mem_map.2 ⟨_, he', this⟩)
          rw [if_neg hnin, h1]
          simp
      · intro e he'
        by_cases hk : a.take 12 ∈ nm.map (·.1)
        · have hfun : ∀ e ∈ nm, e.1 = a.take 12 → e = (a.take 12, ofBytes a) := by
            intro e he'' hek
            obtain ⟨a', ha', rfl⟩ := h2 e he''
            simp only at hek
            have := (hnc a' ha' a ha).1 hek
            rw [hek, this]
          rw [put_same nm _ _ hk hfun] at he'
          exact h2 e he'
        · rw [put_fresh nm _ _ hk] at he'
          simp only [List.mem_append, List.mem_singleton] at he'
          rcases he' with he' | he'
          · exact h2 e he'
          · exact ⟨a, ha, he'⟩

theorem mapSetAll_keys_nodup : ∀ (es m : List (H × Nat)), (m.map (·.1)).Nodup →
    ((mapSetAll m es).map (·.1)).Nodup := by
  intro es
  induction es with
  | nil => intro m h; exact h
  | cons x es ih =>
    intro m h
    have hstep : mapSetAll m (x :: es) = mapSetAll (mapSet m x.1 x.2) es := rfl
    rw [hstep]
    apply ih
    rw [mapSet_keys]
    split
    · exact h
    · rename_i hk; exact List.nodup_cons.2 ⟨hk, h⟩

/-- **the heap `RestorePollardFrom` has built when it reaches the sanity check** carries the
shapes of the parse: one root per record tree (no aunt), every node allocated belongs to
exactly one tree, `NodeMap` holds the inserted records (keys distinct, each entry pointing at
a node of the forest that carries that hash), `NumLeaves`/`NumDels` as read, `full` -/
theorem buildAll_shape (nl nd : U64) (ts : List LNode) :
    (buildAll (H := H) nl nd ts).numLeaves = nl ∧ (buildAll (H := H) nl nd ts).numDels = nd ∧
    (buildAll (H := H) nl nd ts).full = true ∧
    ∃ owned ents, PRoots (buildAll (H := H) nl nd ts).heap (buildAll (H := H) nl nd ts).roots
        (ts.map LNode.erase) owned ∧ owned.Nodup ∧
      owned.length = (buildAll (H := H) nl nd ts).heap.size ∧
      (buildAll (H := H) nl nd ts).nodeMap = mapSetAll [] ents ∧
      ents.map (·.1) = (ts.flatMap (leafRecs H)).map ofBytes ∧
      ((buildAll (H := H) nl nd ts).nodeMap.map (·.1)).Nodup ∧
      ∀ e ∈ (buildAll (H := H) nl nd ts).nodeMap, e.2 ∈ owned ∧
        ∃ x, (buildAll (H := H) nl nd ts).heap[e.2]? = some x ∧ x.data = e.1 := by
  obtain ⟨p0, hp0⟩ : ∃ p0 : Pollard H, p0 = { (newAccumulator : Pollard H) with
      numLeaves := nl, numDels := nd } := ⟨_, rfl⟩
  have hb : buildAll (H := H) nl nd ts = buildRoots ts p0 := by rw [hp0]; rfl
  rw [hb]
  obtain ⟨rs, owned, ents, R1, R2, R3, R4, R5, R6, R7, R8⟩ := buildRoots_spec ts p0
  obtain ⟨r1, r2, r3⟩ := buildRoots_rest ts p0
  have hnm0 : p0.nodeMap = [] := by rw [hp0]; rfl
  have hroots0 : p0.roots = [] := by rw [hp0]; rfl
  have hsz0 : p0.heap.size = 0 := by rw [hp0]; rfl
  rw [hnm0] at R7
  rw [hroots0, List.nil_append] at R1
  refine ⟨by rw [r1, hp0], by rw [r2, hp0], by rw [r3, hp0]; rfl, owned, ents, ?_, R6, ?_, R7,
    R2.ents_keys, ?_, ?_⟩
  · rw [R1]; exact R2.proots
  · rw [R4, hsz0]; omega
  · rw [R7]; exact mapSetAll_keys_nodup ents [] (by simp)
  · intro e he
    rw [R7] at he
    rcases mapSetAll_subset ents [] e he with h | h
    · cases h
    · exact ⟨R8 e h, R2.ents_data e h⟩

/-! ### the inserted records of a valid stream -/

theorem leafRecs_ofNode (ok : HashBytesOK H) : ∀ (s n : CTree H),
    leafRecs H (LNode.ofNode n s) = (nz (wireLeavesNode n s)).map toBytes := by
  intro s
  induction s with
  | leaf x =>
    intro n
    simp only [LNode.ofNode, leafRecs, wireLeavesNode, ok.rt, nz]
    cases isLeafT n <;> by_cases hz : n.hash = zero <;> simp [hz]
  | node sl sr ihl ihr =>
    intro n
    simp only [LNode.ofNode, leafRecs, wireLeavesNode, ok.rt, nz_append, List.map_append, ihr sl, ihl sr]
    congr 1
    simp only [nz]
    cases isLeafT n <;> by_cases hz : n.hash = zero <;> simp [hz]

theorem leafRecs_ofRoots (ok : HashBytesOK H) (ts : List (Option (CTree H))) :
    (ts.map (LNode.ofRoot (H := H))).flatMap (leafRecs H) = (nz (ts.flatMap wireLeavesRoot)).map toBytes := by
  induction ts with
  | nil => simp [nz]
  | cons t ts ih =>
    simp only [List.map_cons, List.flatMap_cons, nz_append, List.map_append, ih, LNode.ofRoot,
      leafRecs_ofNode ok, wireLeaves_self]

/-- the records a valid stream inserts into `NodeMap` do not collide: same 12-byte key ⇔ same hash -/
theorem no_collision_encode (ok : HashBytesOK H) (F : Forest H) (hF : LeavesOK F) :
    ∀ a ∈ ((F.trees.map (·.2)).map (LNode.ofRoot (H := H))).flatMap (leafRecs H),
    ∀ b ∈ ((F.trees.map (·.2)).map (LNode.ofRoot (H := H))).flatMap (leafRecs H),
      (a.take 12 = b.take 12 ↔ (ofBytes a : H) = ofBytes b) := by
  rw [leafRecs_ofRoots ok]
  have hwl : wireLeaves F = (F.trees.map (·.2)).flatMap wireLeavesRoot := by
    unfold wireLeaves; rw [List.flatMap_map]
  rw [← hwl]
  have hp := wireLeaves_perm F (by have := hF.small; omega)
  have hnd : ((wireLeaves F).map mini).Nodup := ((hp.map mini).nodup_iff).mpr hF.miniDistinct
  intro a ha b hb
  obtain ⟨x, hx, rfl⟩ := List.mem_map.1 ha
  obtain ⟨y, hy, rfl⟩ := List.mem_map.1 hb
  have hx' : x ∈ wireLeaves F := (List.mem_filter.1 hx).1
  have hy' : y ∈ wireLeaves F := (List.mem_filter.1 hy).1
  rw [ok.rt, ok.rt]
  constructor
  · intro h; exact inj_of_nodup_map mini hnd x hx' y hy' h
  · intro h; rw [h]

/-! ### `NumDels` under a block -/

theorem filter_split_length {α : Type} (p : α → Bool) : ∀ (l : List α),
    (l.filter p).length + (l.filter (fun a => !p a)).length = l.length := by
  intro l
  induction l with
  | nil => rfl
  | cons a l ih => cases h : p a <;> simp [h] <;> omega

theorem filter_notin_length {α : Type} [DecidableEq α] {l d : List α} (hl : l.Nodup) (hd : d.Nodup)
    (hsub : ∀ x ∈ d, x ∈ l) : (l.filter (fun x => decide (x ∉ d))).length + d.length = l.length := by
  have h1 := filter_split_length (fun x => decide (x ∉ d)) l
  have h2 : (l.filter (fun a => !decide (a ∉ d))).Perm d := by
    apply (List.perm_ext_iff_of_nodup (hl.filter _) hd).2
    intro a
    simp only [List.mem_filter, decide_not, Bool.not_not, decide_eq_true_eq]
    exact ⟨fun h => h.2, fun h => ⟨hsub a h, h⟩⟩
  have h3 := h2.length_eq
  omega

/-- a block that deletes distinct live leaves of a forest without duplicate leaves adds exactly
their number to the dead slots -/
theorem numDead_modify (F : Forest H) (dels adds : List H) (hl : F.liveLeaves.Nodup) (hd : dels.Nodup)
    (hsub : ∀ x ∈ dels, x ∈ F.liveLeaves) :
    numDead (F.modify dels adds) = numDead F + dels.length := by
  have h1 := live_dead_count F
  have h2 := live_dead_count (F.modify dels adds)
  rw [Proofs.LiveLeaves.numLeaves_modify, Proofs.LiveLeaves.liveLeaves_modify_eq, List.length_append] at h2
  have h3 := filter_notin_length hl hd hsub
  omega

/-! ### truncated valid streams -/

/-- the parse of a strict prefix of a valid stream fails (with an error, count ≤ bytes present) -/
theorem restoreL_prefix (ok : HashBytesOK H) (F : Forest H) (hn : F.numLeaves < 2 ^ 64)
    (r : Reader) (t : Nat) (ht : t < (encodePollard F).length) (hd : r.data = (encodePollard F).take t) :
    (restoreL r).out = .err ∧ (restoreL r).n ≤ t := by
  have hlen := encodePollard_length F
  have henc : encodePollard F = le64 (BitVec.ofNat 64 F.numLeaves) ++ (le64 (BitVec.ofNat 64 (numDead F)) ++
      (F.trees.map (·.2)).flatMap encRoot) := by
    unfold encodePollard; rw [List.flatMap_map, List.append_assoc]
  have hdl : r.data.length = t := by rw [hd, List.length_take]; omega
  have hroots : (numRoots (BitVec.ofNat 64 F.numLeaves)).toNat = (F.trees.map (·.2)).length := by
    rw [numRoots_eq hn]
    simp [Forest.trees]
  unfold restoreL
  by_cases h8 : t < 8
  · rcases hx : readFull r 8 with ⟨res, r'⟩
    have := readFull_lt r 8 (by omega)
    rw [hx] at this
    rcases this with h1 | h1 <;> simp only at h1 <;> subst h1 <;> simp
  · rw [henc, take_append_ge _ _ _ (by rw [le64_length]; omega), le64_length] at hd
    obtain ⟨r1, e1, d1, _⟩ := readFull_append r (le64 (BitVec.ofNat 64 F.numLeaves)) _ hd
    rw [le64_length] at e1
    simp only [e1]
    by_cases h16 : t < 16
    · rcases hx : readFull r1 8 with ⟨res, r'⟩
      have := readFull_lt r1 8 (by rw [d1, List.length_take]; omega)
      rw [hx] at this
      rcases this with h1 | h1 <;> simp only at h1 <;> subst h1 <;> simp <;> omega
    · rw [take_append_ge _ _ _ (by rw [le64_length]; omega), le64_length] at d1
      obtain ⟨r2, e2, d2, _⟩ := readFull_append r1 (le64 (BitVec.ofNat 64 (numDead F))) _ d1
      rw [le64_length] at e2
      simp only [e2, unle64_le64, hroots]
      have h3 := readRoots_prefix ok (F.trees.map (·.2)) (r.data.length + 1) r2 [] (8 + 8) (t - 8 - 8)
        (by omega) d2 (by rw [d2, List.length_take]; omega)
      rw [readRoots_eq] at h3
      revert h3
      generalize (readRootsL (r.data.length + 1) (F.trees.map (·.2)).length r2 (8 + 8)) = res
      intro h3
      obtain ⟨rn, ro⟩ := res
      cases ro with
      | ok x => simp [Res.mapOk] at h3
      | err =>
        simp only [Res.mapOk] at h3
        have := h3.2
        exact ⟨rfl, by simp only at this ⊢; omega⟩
      | panic => simp [Res.mapOk] at h3
      | hang => simp [Res.mapOk] at h3

end UtreexoVerif.Proofs.PollardHeapSerial
