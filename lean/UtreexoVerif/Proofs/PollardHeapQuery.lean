/-
  Pointer forest, heap model: `calculatePosition` / `GetLeafPosition` on a represented forest.

  * `climb_ctx`: the first loop of `calculatePosition` (along the AUNT pointers) from a context
    node observes exactly `PollardAbs.nieceFlags` of the node's child path and ends at the root;
  * `findRootRow_heap`: the second loop (root hashes compared through the heap) is the list
    version of `Model/PollardAbs.lean`;
  * `calculatePosition_heap`, `getLeafPosition_abs`.
-/
import UtreexoVerif.Proofs.PollardHeapModify
import UtreexoVerif.Props.C10
set_option linter.unusedSectionVars false
set_option linter.unusedVariables false
set_option linter.unusedSimpArgs false

namespace UtreexoVerif.Proofs.PollardHeap
open UtreexoVerif UtreexoVerif.GoInt UtreexoVerif.Model UtreexoVerif.Model.PollardHeap UtreexoVerif.Spec Hasher
open UtreexoVerif.Model.PollardAbs UtreexoVerif.Proofs.SpecNodes UtreexoVerif.Proofs.SpecSubs
open UtreexoVerif.Proofs.PollardLookup UtreexoVerif.Proofs.SpecView

variable {H : Type} [DecidableEq H] [Hasher H]

/-! ### the climb -/

/-- the climb from the niece holder of a context node: one step per level, the flag is "the
ancestor on that level is a right child" -/
theorem climb_holder {root : Nat} : ∀ (up : CCtx H) (st : Pollard H) (n h : Nat) (fpu : List Nat)
    (l1 l2 : List (H × Nat)) (fuel : Nat) (lri : U64) (r : Nat),
    CtxRepr st.heap root up n h fpu l1 l2 → (root :: fpu).Nodup → up.depth + 1 ≤ fuel →
    climb fuel h lri r st =
      (.ok (root, (climbLoop up.revPath lri r).1, (climbLoop up.revPath lri r).2), st) := by
  intro up
  induction up with
  | top =>
    intro st n h fpu l1 l2 fuel lri r hu nd hf
    obtain ⟨f, rfl⟩ : ∃ f, fuel = f + 1 := ⟨fuel - 1, by omega⟩
    cases hu with
    | top h1 h2 =>
      rw [climb]
      simp [h1, h2, CCtx.revPath, climbLoop]
  | left up2 ts ih =>
    intro st n h fpu l1 l2 fuel lri r hu nd hf
    obtain ⟨f, rfl⟩ : ∃ f, fuel = f + 1 := ⟨fuel - 1, by simp [CCtx.depth] at hf; omega⟩
    cases hu with
    | left hu2 h1 h2 h3 h4 h5 h6 h7 hs =>
      rename_i n2 h2' hn2 cn2 sn2 fs2 fpu2 ls2 l2'
      have ndx := nd
      simp only [List.nodup_cons, List.mem_cons, List.mem_append, not_or, List.nodup_append] at ndx
      obtain ⟨⟨hrc, hrs, hrfs, hrfpu⟩, ⟨hcs, hcfs, hcfpu⟩, ⟨hsfs, hsfpu⟩, ndfs, ndfpu, dd⟩ := ndx
      have hne : hn2.lNiece ≠ some h := by rw [h2]; intro e; cases e; exact hcs rfl
      have := ih st n2 h2' fpu2 l1 l2' f
        (if r = 0 then (shl lri 1 ||| 1#64) ^^^ 1#64 else shl lri 1 ||| 1#64) (r + 1) hu2
        (List.nodup_cons.2 ⟨hrfpu, ndfpu⟩) (by simp [CCtx.depth] at hf; omega)
      rw [climb]
      simp only [bind_apply, node_apply, h5, h7, h1, hne, if_false, this, CCtx.revPath, climbLoop,
        Bool.false_eq_true]
  | right ts up2 ih =>
    intro st n h fpu l1 l2 fuel lri r hu nd hf
    obtain ⟨f, rfl⟩ : ∃ f, fuel = f + 1 := ⟨fuel - 1, by simp [CCtx.depth] at hf; omega⟩
    cases hu with
    | right hu2 h1 h2 h3 h4 h5 h6 h7 hs =>
      rename_i n2 h2' hn2 cn2 sn2 fs2 fpu2 ls2 l1'
      have ndx := nd
      simp only [List.nodup_cons, List.mem_cons, List.mem_append, not_or, List.nodup_append] at ndx
      obtain ⟨⟨hrc, hrs, hrfs, hrfpu⟩, ⟨hcs, hcfs, hcfpu⟩, ⟨hsfs, hsfpu⟩, ndfs, ndfpu, dd⟩ := ndx
      have := ih st n2 h2' fpu2 l1' l2 f
        (if r = 0 then (shl lri 1) ^^^ 1#64 else shl lri 1) (r + 1) hu2
        (List.nodup_cons.2 ⟨hrfpu, ndfpu⟩) (by simp [CCtx.depth] at hf; omega)
      rw [climb]
      simp only [bind_apply, node_apply, h5, h7, h1, h2, if_true, this, CCtx.revPath, climbLoop]

/-- **the climb from a context node** observes `nieceFlags` of its child path -/
theorem climb_ctx {root : Nat} (ctx : CCtx H) (st : Pollard H) (c hc : Nat) (fpc : List Nat)
    (l1 l2 : List (H × Nat)) (fuel : Nat)
    (h : CtxRepr st.heap root ctx c hc fpc l1 l2) (nd : (root :: fpc).Nodup)
    (hf : ctx.depth + 1 ≤ fuel) :
    climb fuel c 0#64 0 st =
      (.ok (root, (climbLoop (nieceFlags ctx.revPath.reverse) 0#64 0).1,
        (climbLoop (nieceFlags ctx.revPath.reverse) 0#64 0).2), st) := by
  obtain ⟨f, rfl⟩ : ∃ f, fuel = f + 1 := ⟨fuel - 1, by omega⟩
  cases h with
  | top h1 h2 =>
    rw [climb]
    simp [h1, h2, CCtx.revPath, climbLoop, nieceFlags]
  | left hu h1 h2 h3 h4 h5 h6 h7 hs =>
    rename_i up n h0 hn0 cn sn ts fs fpu ls l2'
    have ndx := nd
    simp only [List.nodup_cons, List.mem_cons, List.mem_append, not_or, List.nodup_append] at ndx
    obtain ⟨⟨hrc, hrs, hrfs, hrfpu⟩, ⟨hcs, hcfs, hcfpu⟩, ⟨hsfs, hsfpu⟩, ndfs, ndfpu, dd⟩ := ndx
    have := climb_holder up st n h0 fpu l1 l2' f ((shl 0#64 1) ^^^ 1#64) 1 hu
      (List.nodup_cons.2 ⟨hrfpu, ndfpu⟩) (by simp [CCtx.depth] at hf; omega)
    rw [climb]
    simp only [bind_apply, node_apply, h4, h6, h1, h2, if_true, this, CCtx.revPath, nieceFlags,
      List.reverse_cons, List.reverse_append, List.reverse_reverse, List.reverse_nil,
      List.nil_append, List.cons_append, climbLoop, Bool.not_false]
  | right hu h1 h2 h3 h4 h5 h6 h7 hs =>
    rename_i up n h0 hn0 cn sn ts fs fpu ls l1'
    have ndx := nd
    simp only [List.nodup_cons, List.mem_cons, List.mem_append, not_or, List.nodup_append] at ndx
    obtain ⟨⟨hrc, hrs, hrfs, hrfpu⟩, ⟨hcs, hcfs, hcfpu⟩, ⟨hsfs, hsfpu⟩, ndfs, ndfpu, dd⟩ := ndx
    have hne : hn0.lNiece ≠ some c := by rw [h2]; intro e; cases e; exact hcs rfl
    have := climb_holder up st n h0 fpu l1' l2 f ((shl 0#64 1 ||| 1#64) ^^^ 1#64) 1 hu
      (List.nodup_cons.2 ⟨hrfpu, ndfpu⟩) (by simp [CCtx.depth] at hf; omega)
    rw [climb]
    simp only [bind_apply, node_apply, h4, h6, h1, hne, if_false, if_true, this, CCtx.revPath,
      nieceFlags, List.reverse_cons, List.reverse_append, List.reverse_reverse, List.reverse_nil,
      List.nil_append, List.cons_append, climbLoop, Bool.not_true, Bool.false_eq_true]

/-! ### the root-row search -/

/-- the root hashes, read through the heap -/
def RootsData (hp : Heap H) (roots : List Nat) (ds : List H) : Prop :=
  roots.length = ds.length ∧
    ∀ (j r : Nat), roots[j]? = some r → ∃ rn : PolNode H, hp[r]? = some rn ∧ ds[j]? = some rn.data

theorem rootsData_of_repr {hp : Heap H} {rs : List Nat} {ts : List (Option (CTree H))}
    {owned : List Nat} {lv : List (H × Nat)} (h : ReprRoots hp rs ts owned lv) :
    RootsData hp rs (ts.map rootHashO) := by
  induction h with
  | nil => exact ⟨rfl, by intro j r h; simp at h⟩
  | @cons r t fp lv rs ts owned lvs h1 h2 ih =>
    obtain ⟨i1, i2⟩ := ih
    have hr : ∃ rn, hp[r]? = some rn ∧ rn.data = rootHashO t := by
      cases t with
      | none =>
        obtain ⟨⟨rn, e1, _, e2, _⟩, _⟩ := h1
        exact ⟨rn, e1, e2⟩
      | some t =>
        obtain ⟨_, hsub⟩ := h1
        exact hsub.hash
    refine ⟨by simp [i1], ?_⟩
    intro j r' hj
    cases j with
    | zero =>
      simp only [List.getElem?_cons_zero, Option.some.injEq] at hj
      subst hj
      obtain ⟨rn, e1, e2⟩ := hr
      exact ⟨rn, e1, by simp [e2]⟩
    | succ j =>
      simp only [List.getElem?_cons_succ] at hj
      obtain ⟨rn, e1, e2⟩ := i2 j r' hj
      exact ⟨rn, e1, by simpa using e2⟩

/-- **the second loop of `calculatePosition`**: with `k` roots not yet looked at, the heap
version is the list version on their hashes (lowest tree first), provided the hash looked for
is among them (so the index never runs below zero) -/
theorem findRootRow_heap (nl : U64) (data : H) (roots : List Nat) (ds : List H) (st : Pollard H)
    (hd : RootsData st.heap roots ds) : ∀ (fuel h k : Nat), k ≤ roots.length →
    data ∈ ds.take k →
    PollardHeap.findRootRow nl data roots fuel h ((k : Int) - 1) st =
      (.ok (PollardAbs.findRootRow nl data fuel h (ds.take k).reverse), st) := by
  intro fuel
  induction fuel with
  | zero => intro h k _ _; rfl
  | succ fuel ih =>
    intro h k hk hmem
    rw [PollardHeap.findRootRow]
    conv => rhs; rw [PollardAbs.findRootRow.eq_def]
    simp only []
    by_cases hb : ((shr nl h &&& 1#64) == 1#64) = true
    · simp only [hb, if_true]
      obtain ⟨k', rfl⟩ : ∃ k', k = k' + 1 := by
        cases k with
        | zero => simp at hmem
        | succ k' => exact ⟨k', rfl⟩
      have hlt : k' < roots.length := by omega
      have hnn : ¬ ((((k' + 1 : Nat) : Int) - 1) < 0) := by omega
      have htn : ((((k' + 1 : Nat) : Int) - 1)).toNat = k' := by omega
      obtain ⟨r, hr⟩ : ∃ r, roots[k']? = some r := ⟨_, List.getElem?_eq_getElem hlt⟩
      obtain ⟨rn, e1, e2⟩ := hd.2 k' r hr
      have hlt' : k' < ds.length := by rw [← hd.1]; exact hlt
      have etake : (ds.take (k' + 1)).reverse = rn.data :: (ds.take k').reverse := by
        rw [List.take_succ, e2]
        simp
      rw [etake]
      simp only [hnn, if_false, htn, hr, bind_apply, node_apply, e1]
      by_cases hdata : rn.data = data
      · simp [hdata]
      · simp only [hdata, if_false]
        have hmem' : data ∈ ds.take k' := by
          rw [List.take_succ, e2] at hmem
          simp only [Option.toList_some, List.mem_append, List.mem_singleton] at hmem
          rcases hmem with h | h
          · exact h
          · exact absurd h.symm hdata
        have := ih (h + 1) k' (by omega) hmem'
        have e : (((k' + 1 : Nat) : Int) - 1 - 1) = ((k' : Int) - 1) := by omega
        rw [e]
        exact this
    · simp only [hb, Bool.false_eq_true, if_false]
      exact ih (h + 1) k hk hmem

/-! ### `calculatePosition` -/

/-- **`calculatePosition` on the heap** from a context node below the root `root`, whose hash
`topData` is among the root hashes `ds`: the function of `Model/PollardAbs.lean` on what the
climb observes -/
theorem calculatePosition_heap {st : Pollard H} {F : Forest H} {root : Nat} {ctx : CCtx H}
    {c hc : Nat} {fpc : List Nat} {l1 l2 : List (H × Nat)} {rn : PolNode H}
    (hN : st.numLeaves = BitVec.ofNat 64 F.numLeaves)
    (hd : RootsData st.heap st.roots F.roots)
    (h : CtxRepr st.heap root ctx c hc fpc l1 l2) (nd : (root :: fpc).Nodup)
    (hr : st.heap[root]? = some rn) (hmem : rn.data ∈ F.roots) :
    PollardHeap.calculatePosition (some c) st =
      (.ok (PollardAbs.calculatePosition F (nieceFlags ctx.revPath.reverse) rn.data), st) := by
  have hdep := h.depth_le
  have hlen := nodup_length_le nd h.lt
  simp only [List.length_cons] at hlen
  have hclimb := climb_ctx ctx st c hc fpc l1 l2 (st.heap.size + 1) h nd (by omega)
  have hfind := findRootRow_heap st.numLeaves rn.data st.roots F.roots st hd
    ((TreeRows st.numLeaves).toNat + 1) 0 st.roots.length (Nat.le_refl _)
    (by rw [hd.1, List.take_length]; exact hmem)
  rw [hd.1, List.take_length] at hfind
  have hlenI : ((st.roots.length : Int) - 1) = ((F.roots.length : Nat) : Int) - 1 := by rw [hd.1]
  rw [hN] at hfind
  unfold PollardHeap.calculatePosition PollardAbs.calculatePosition
  simp only [bind_apply, deref_some, heapSize_apply, hclimb, getNumLeaves_apply, getRoots_apply,
    node_apply, hr, hlenI, hfind, pure_apply, hN]

theorem mapGet_of_mem {m : List (H × Nat)} (hk : (m.map (·.1)).Nodup) {k : H} {v : Nat}
    (h : (k, v) ∈ m) : mapGet m k = some v := by
  unfold mapGet
  induction m with
  | nil => cases h
  | cons e m ih =>
    obtain ⟨a, b⟩ := e
    simp only [List.map_cons, List.nodup_cons] at hk
    simp only [List.mem_cons, Prod.mk.injEq] at h
    rw [List.lookup_cons]
    rcases h with ⟨rfl, rfl⟩ | h
    · simp
    · have : (k == a) = false := by
        simp only [beq_eq_false_iff_ne, ne_eq]
        intro e; subst e
        exact hk.1 (List.mem_map_of_mem (f := fun x : H × Nat => x.1) h)
      rw [this]
      exact ih hk.2 h

theorem mapGet_none_of_not_mem {m : List (H × Nat)} {k : H} (h : k ∉ m.map (·.1)) :
    mapGet m k = none := by
  cases hg : mapGet m k with
  | none => rfl
  | some v =>
    exfalso
    apply h
    apply mapGet_isSome_iff.1
    rw [hg]; rfl

/-- **`NodeMap` + `calculatePosition` on a live leaf**: `NodeMap` points at a node whose
`calculatePosition` is the specification position of the leaf -/
theorem leafLookup_abs {p : Pollard H} {F : Forest H} (a : Abs p F) (hn : F.numLeaves < 2 ^ 63)
    (hroots : F.roots.Nodup) {h : H} (hl : h ∈ F.liveLeaves) :
    ∃ c q, mapGet p.nodeMap h = some c ∧ F.posOf h = some q ∧
      PollardHeap.calculatePosition (some c) p = (.ok (encU F.rows q.1 q.2), p) := by
  obtain ⟨hnl, owned, lv, hrepr, hnd, hmk, hmm⟩ := a
  obtain ⟨q, hq⟩ := Spec.posOf_isSome_of_live (by omega) hl
  obtain ⟨R, s⟩ := posOf_sub hq
  obtain ⟨r, o⟩ := q
  obtain ⟨t0, ht0, hd0, hm0⟩ := s.tree
  obtain ⟨hrR, hoff⟩ := s.under
  simp only at hrR hoff
  have hR := s.1
  have hb := s.bit
  have hw : childWalk t0 (R - r) o = some (.leaf h) := subs_walk t0 R _ hd0 ((r, o), _) hm0
  rw [PollardCalcPos.childWalk_eq_childPath] at hw
  -- the root of that tree
  have hidx := trees_getElem F hR
  have htree : PollardLookup.treeOf F R = some t0 := ht0
  rw [htree] at hidx
  have hidx' : (F.trees.map (·.2))[(treeRows F.numLeaves).idxOf R]? = some (some t0) := by
    rw [List.getElem?_map, hidx]; rfl
  obtain ⟨rs1, root, rs2, ts1, ts2, o1, fp, o2, l1, lk, l2, ers, ets, eo, elv, hl1, hl2, hr1, hrr', hr2⟩ :=
    hrepr.split _ _ hidx'
  obtain ⟨⟨rn, hr, ar⟩, hsub⟩ : RootRepr p.heap root t0 fp lk := hrr'
  have ndroot : (root :: fp).Nodup := by
    rw [eo] at hnd
    simp only [List.nodup_append] at hnd
    exact hnd.2.1.1
  obtain ⟨ctx', c, hc, fc, lc, fpc', l1', l2', hctx, hsubc, _, hperm, elk, _, _, hrev⟩ :=
    Sub.zoom (pathBits (R - r) o) .top root root t0 fp lk [] [] [] (.leaf h)
      (CtxRepr.top hr ar) hsub hw
  simp only [List.nil_append, List.append_nil, CCtx.revPath] at hperm elk hrev
  have elc : lc = [(h, c)] := hsubc.leaf_inv
  have hfc : fc = [] := by cases hsubc; rfl
  -- `NodeMap` points at that node
  have hmemlv : (h, c) ∈ lv := by
    rw [elv, ← elk, elc]; simp
  have hget : mapGet p.nodeMap h = some c := mapGet_of_mem hmk ((hmm _).2 hmemlv)
  have ndc : (root :: fpc').Nodup := by
    rw [hfc, List.append_nil] at hperm
    rw [List.nodup_cons] at ndroot ⊢
    exact ⟨fun hm => ndroot.1 (hperm.mem_iff.1 hm), (List.Perm.nodup_iff hperm).2 ndroot.2⟩
  have hdata : rn.data = treeRoot F R := by
    obtain ⟨z, ez, dz⟩ := hsub.hash
    rw [hr] at ez; cases ez
    rw [dz]; exact (PollardCalcPos.treeRoot_eq_hash htree).symm
  have hrootsdata : RootsData p.heap p.roots F.roots := by
    have := rootsData_of_repr hrepr
    have e : (F.trees.map (·.2)).map rootHashO = F.roots := by
      unfold Forest.roots
      rw [List.map_map]
      apply List.map_congr_left
      intro q _
      obtain ⟨a, b⟩ := q
      cases b <;> rfl
    rwa [e] at this
  have hmemroots : rn.data ∈ F.roots := by
    rw [hdata, SpecNodes.roots_eq]
    exact List.mem_map_of_mem hR
  have hN : p.numLeaves = BitVec.ofNat 64 F.numLeaves := by rw [← hnl]; simp
  have hcalc := calculatePosition_heap hN hrootsdata hctx ndc hr hmemroots
  rw [hrev, List.reverse_reverse, hdata] at hcalc
  -- the model function returns the position
  have hmin : ∀ R', R' < R → F.numLeaves.testBit R' = true → treeRoot F R' ≠ treeRoot F R := by
    intro R' hlt hb' he
    have hR' : R' ∈ treeRows F.numLeaves :=
      Spec.mem_treeRows.2 ⟨by have := (Spec.mem_treeRows.1 hR).1; omega, hb'⟩
    rw [SpecNodes.roots_eq] at hroots
    have := PollardLookup.inj_of_nodup_map (treeRoot F) _ hroots R' hR' R hR he
    omega
  rw [PollardCalcPos.calculatePosition_enc F hn hb hrR hoff hmin] at hcalc
  exact ⟨c, (r, o), hget, hq, hcalc⟩

/-- **`GetLeafPosition` on a represented forest** whose trees have pairwise different root
hashes (the Go code identifies the tree by its root hash): the specification position of a
live leaf, `(0, false)` for every other hash; the state is not changed -/
theorem getLeafPosition_abs {p : Pollard H} {F : Forest H} (a : Abs p F) (hn : F.numLeaves < 2 ^ 63)
    (hroots : F.roots.Nodup) (h : H) :
    getLeafPosition h p = (.ok (pollardGetLeafPosition F h), p) := by
  unfold getLeafPosition pollardGetLeafPosition
  by_cases hl : h ∈ F.liveLeaves
  · obtain ⟨c, q, hget, hq, hcalc⟩ := leafLookup_abs a hn hroots hl
    simp only [bind_apply, nodeMapGet_apply, hget, hcalc, pure_apply, hq]
    rfl
  · -- not a live leaf: not in the map
    obtain ⟨hnl, owned, lv, hrepr, hnd, hmk, hmm⟩ := a
    have hlive : lv.map (·.1) = F.liveLeaves := hrepr.liveLeaves (by omega)
    have hnone : mapGet p.nodeMap h = none := by
      apply mapGet_none_of_not_mem
      intro hc
      apply hl
      rw [← hlive]
      obtain ⟨e, he, rfl⟩ := List.mem_map.1 hc
      exact List.mem_map_of_mem ((hmm e).1 he)
    have hpos : F.posOf h = none := (Props.C10.posOf_eq_none_iff F (by omega) h).2 hl
    simp only [bind_apply, nodeMapGet_apply, hnone, pure_apply, hpos]

end UtreexoVerif.Proofs.PollardHeap
