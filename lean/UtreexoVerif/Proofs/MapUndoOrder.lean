/-
  Which empty roots of a forest each addition of a block overwrites (specification side, for
  `Undo`): `destroyed G k` lists the rows of the empty roots of `G` that `k` additions overwrite,
  `newRows G k` those that the `(k+1)`-th addition overwrites.
-/
import UtreexoVerif.Proofs.PForestAdd
import UtreexoVerif.Proofs.PForestDel
open UtreexoVerif Model Spec Spec.Forest Proofs MapInv PForest PForestSpec PForestAdd Hasher

namespace UtreexoVerif.Proofs.MapUndoOrder
set_option linter.unusedSectionVars false
variable {H : Type} [DecidableEq H] [Hasher H]

/-- the tree on row `h` of `G` has no live leaf -/
def deadB (G : Forest H) (h : Nat) : Bool :=
  (collapse h ((G.slots.drop (treeStart G.numLeaves h)).take (2 ^ h))).isNone

/-- rows (highest first) of the empty roots of `G` that `k` additions overwrite -/
def destroyed (G : Forest H) (k : Nat) : List Nat :=
  (treeRows G.numLeaves).filter (fun h =>
    deadB G h && decide ((G.numLeaves / 2 ^ (h + 1) + 1) * 2 ^ (h + 1) ≤ G.numLeaves + k))

/-- rows (highest first) of the empty roots of `G` that the `(k+1)`-th addition overwrites -/
def newRows (G : Forest H) (k : Nat) : List Nat :=
  (treeRows G.numLeaves).filter (fun h =>
    deadB G h && decide ((G.numLeaves / 2 ^ (h + 1) + 1) * 2 ^ (h + 1) = G.numLeaves + k + 1))

/-! ### arithmetic of `reach h = (n / 2^(h+1) + 1) * 2^(h+1)` -/

/-- `reach` is above `n` -/
theorem reach_gt (n h : Nat) : n < (n / 2 ^ (h + 1) + 1) * 2 ^ (h + 1) := by
  have hp : 0 < 2 ^ (h + 1) := Nat.two_pow_pos _
  have := Nat.div_add_mod n (2 ^ (h + 1))
  have hm := Nat.mod_lt n hp
  rw [Nat.add_mul, Nat.one_mul, Nat.mul_comm]
  omega

/-- `reach` is monotone in the row -/
theorem reach_mono (n : Nat) {h h' : Nat} (hh : h ≤ h') :
    (n / 2 ^ (h + 1) + 1) * 2 ^ (h + 1) ≤ (n / 2 ^ (h' + 1) + 1) * 2 ^ (h' + 1) := by
  have hp : 0 < 2 ^ (h + 1) := Nat.two_pow_pos _
  have e : 2 ^ (h' + 1) = 2 ^ (h' - h) * 2 ^ (h + 1) := by
    rw [← Nat.pow_add]; congr 1; omega
  have hgt := reach_gt n h'
  rw [e, ← Nat.mul_assoc] at hgt ⊢
  apply Nat.mul_le_mul_right
  have := (Nat.div_lt_iff_lt_mul hp).2 hgt
  omega

/-! ### list lemmas -/

theorem filter_split {R : Nat → Nat → Prop} (p q : Nat → Bool) :
    ∀ (L : List Nat), L.Pairwise R → (∀ a b, R a b → ¬ (p a = true ∧ q b = true)) →
      (∀ a, ¬ (p a = true ∧ q a = true)) →
      L.filter (fun a => p a || q a) = L.filter q ++ L.filter p := by
  intro L
  induction L with
  | nil => intros; rfl
  | cons a L ih =>
    intro hpw hR hd
    rw [List.pairwise_cons] at hpw
    have ih' := ih hpw.2 hR hd
    by_cases hpa : p a = true
    · have hqa : q a = false := by
        cases hq : q a
        · rfl
        · exact absurd ⟨hpa, hq⟩ (hd a)
      have hnil : L.filter q = [] := by
        rw [List.filter_eq_nil_iff]
        intro b hb hqb
        exact hR a b (hpw.1 b hb) ⟨hpa, hqb⟩
      rw [List.filter_cons, List.filter_cons, List.filter_cons, ih']
      simp [hpa, hqa, hnil]
    · have hpa' : p a = false := by simpa using hpa
      rw [List.filter_cons, List.filter_cons, List.filter_cons, ih']
      cases hq : q a <;> simp [hpa']

theorem destroyed_sorted (G : Forest H) (k : Nat) : (destroyed G k).Pairwise (fun a b => a > b) :=
  List.Pairwise.sublist List.filter_sublist (CalcComplete.treeRows_sorted _)

theorem newRows_sorted (G : Forest H) (k : Nat) : (newRows G k).Pairwise (fun a b => a > b) :=
  List.Pairwise.sublist List.filter_sublist (CalcComplete.treeRows_sorted _)

/-- the rows overwritten by the `(k+1)`-th addition lie above all rows overwritten earlier -/
theorem destroyed_succ (G : Forest H) (k : Nat) : destroyed G (k + 1) = newRows G k ++ destroyed G k := by
  unfold destroyed newRows
  rw [← filter_split (R := fun a b => a > b) _ _ _ (CalcComplete.treeRows_sorted _)]
  · apply List.filter_congr
    intro h _
    cases deadB G h
    · simp
    · simp only [Bool.true_and, ← Bool.decide_or, decide_eq_decide]
      omega
  · intro a b hab ⟨h1, h2⟩
    simp only [Bool.and_eq_true, decide_eq_true_eq] at h1 h2
    have := reach_mono G.numLeaves (Nat.le_of_lt hab)
    omega
  · intro a ⟨h1, h2⟩
    simp only [Bool.and_eq_true, decide_eq_true_eq] at h1 h2
    omega

theorem destroyed_zero (G : Forest H) : destroyed G 0 = [] := by
  unfold destroyed
  rw [List.filter_eq_nil_iff]
  intro h _
  have := reach_gt G.numLeaves h
  simp only [Bool.and_eq_true, decide_eq_true_eq, Nat.add_zero, not_and]
  intro _
  omega

/-! ### dead slot ranges -/

omit [DecidableEq H] [Hasher H] in
theorem mem_drop_take {α : Type} (l : List α) (s w : Nat) (a : α) :
    a ∈ (l.drop s).take w ↔ ∃ j, s ≤ j ∧ j < s + w ∧ l[j]? = some a := by
  rw [List.mem_iff_getElem?]
  constructor
  · rintro ⟨i, hi⟩
    rw [List.getElem?_take] at hi
    split at hi
    · rw [List.getElem?_drop] at hi
      exact ⟨s + i, by omega, by omega, hi⟩
    · cases hi
  · rintro ⟨j, h1, h2, h3⟩
    refine ⟨j - s, ?_⟩
    rw [List.getElem?_take, if_pos (by omega), List.getElem?_drop]
    rw [show s + (j - s) = j by omega]
    exact h3

/-- no live slot among the `w` slots from `s` on -/
def DeadR (l : List (Option H)) (s w : Nat) : Prop := ∀ x : H, some x ∉ (l.drop s).take w

omit [DecidableEq H] [Hasher H] in
theorem deadR_iff (l : List (Option H)) (s w : Nat) :
    DeadR l s w ↔ ∀ j x, s ≤ j → j < s + w → l[j]? ≠ some (some x) := by
  unfold DeadR
  constructor
  · intro h j x h1 h2 h3
    exact h x ((mem_drop_take l s w _).2 ⟨j, h1, h2, h3⟩)
  · intro h x hx
    obtain ⟨j, h1, h2, h3⟩ := (mem_drop_take l s w _).1 hx
    exact h j x h1 h2 h3

omit [DecidableEq H] [Hasher H] in
/-- a range of `A ++ B.map some` is dead iff it lies inside `A` and is dead there -/
theorem deadR_append (A : List (Option H)) (B : List H) {s w : Nat} (hw : 0 < w)
    (hlen : s + w ≤ A.length + B.length) :
    DeadR (A ++ B.map some) s w ↔ s + w ≤ A.length ∧ DeadR A s w := by
  rw [deadR_iff, deadR_iff]
  constructor
  · intro h
    have hle : s + w ≤ A.length := by
      apply Nat.le_of_not_lt
      intro hc
      exfalso
      have hj : s + w - 1 - A.length < B.length := by omega
      refine h (s + w - 1) (B[s + w - 1 - A.length]) (by omega) (by omega) ?_
      rw [List.getElem?_append_right (by omega), List.getElem?_map, List.getElem?_eq_getElem hj]
      rfl
    refine ⟨hle, ?_⟩
    intro j x h1 h2 h3
    refine h j x h1 h2 ?_
    rw [List.getElem?_append_left (by omega)]
    exact h3
  · rintro ⟨hle, h⟩ j x h1 h2 h3
    rw [List.getElem?_append_left (by omega)] at h3
    exact h j x h1 h2 h3

theorem deadB_iff_deadR (G : Forest H) (h : Nat) :
    deadB G h = true ↔ DeadR G.slots (treeStart G.numLeaves h) (2 ^ h) := by
  unfold deadB DeadR
  rw [Option.isNone_iff_eq_none, collapse_eq_none_iff, List.take_take, Nat.min_self]

omit [DecidableEq H] [Hasher H] in
theorem numLeaves_addMany (G : Forest H) (xs : List H) :
    (G.addMany xs).numLeaves = G.numLeaves + xs.length := by
  simp [Forest.addMany, Forest.numLeaves]

/-! ### arithmetic of the low trees -/

theorem div_mul_add_of_dvd {P n M : Nat} (hP : 0 < P) (h : n + 1 = P * M) : n / P * P + P = n + 1 := by
  cases M with
  | zero => simp at h
  | succ M' =>
    have e : n = P * M' + (P - 1) := by
      rw [Nat.mul_succ] at h; omega
    have hd : n / P = M' := by
      rw [e, Nat.mul_add_div hP, Nat.div_eq_of_lt (by omega), Nat.add_zero]
    rw [hd, Nat.mul_comm]
    rw [Nat.mul_succ] at h; omega

/-- the low tree on row `i < t` ends at slot `n` -/
theorem treeStart_trailing {t c n i : Nat} (htc : n = 2 ^ (t + 1) * c + (2 ^ t - 1)) (hi : i < t) :
    treeStart n i + 2 ^ (i + 1) = n + 1 := by
  rw [treeStart_eq]
  apply div_mul_add_of_dvd (Nat.two_pow_pos _) (M := 2 ^ (t - (i + 1)) * (2 * c + 1))
  have e : 2 ^ t = 2 ^ (i + 1) * 2 ^ (t - (i + 1)) := by
    rw [← Nat.pow_add]; congr 1; omega
  have ht := Nat.two_pow_pos t
  have e2 : 2 ^ (t + 1) * c = 2 ^ t * (2 * c) := by rw [Nat.pow_succ, Nat.mul_assoc]
  rw [← Nat.mul_assoc, ← e, htc, e2, Nat.mul_add, Nat.mul_one]
  omega

theorem testBit_of_range {q i m : Nat} (h1 : q * 2 ^ (i + 1) + 2 ^ i ≤ m)
    (h2 : m < q * 2 ^ (i + 1) + 2 ^ (i + 1)) : m.testBit i = true := by
  have key : ∀ P, P = 2 * 2 ^ i → q * P + 2 ^ i ≤ m → m < q * P + P →
      m = P * q + (m - q * P) ∧ (m - q * P) < P ∧ 1 * 2 ^ i ≤ (m - q * P) ∧
        (m - q * P) < (1 + 1) * 2 ^ i := by
    intro P hP h1 h2
    rw [Nat.mul_comm P q]
    omega
  obtain ⟨e, k1, k2, k3⟩ := key (2 ^ (i + 1)) (by rw [Nat.pow_succ]; omega) h1 h2
  rw [e, testBit_add_low k1 (by omega), Nat.testBit_eq_decide_div_mod_eq,
    Nat.div_eq_of_lt_le k2 k3]
  rfl

theorem div_of_range {q P m : Nat} (h1 : q * P ≤ m) (h2 : m < q * P + P) : m / P = q := by
  apply Nat.div_eq_of_lt_le h1
  rw [Nat.add_mul, Nat.one_mul]; exact h2

/-! ### entries of `ofForest` at root positions -/

theorem rootPos_inj {n m h i : Nat} (e : rootPos n h = rootPos m i) :
    h = i ∧ n / 2 ^ (i + 1) = m / 2 ^ (i + 1) := by
  unfold rootPos at e
  rw [Prod.mk.injEq] at e
  obtain ⟨e1, e2⟩ := e
  subst e1
  rw [Nat.shiftRight_eq_div_pow, Nat.shiftRight_eq_div_pow] at e2
  exact ⟨rfl, by omega⟩

theorem rootPos_eq_of_div {n m i : Nat} (e : n / 2 ^ (i + 1) = m / 2 ^ (i + 1)) :
    rootPos n i = rootPos m i := by
  unfold rootPos
  rw [Nat.shiftRight_eq_div_pow, Nat.shiftRight_eq_div_pow, e]

/-- the entry of `ofForest F` at the root position of row `i` -/
theorem mem_ofForest_row {F : Forest H} {i : Nat} {o : Option (CTree H)} :
    (rootPos F.numLeaves i, o) ∈ ofForest F ↔ i ∈ treeRows F.numLeaves ∧
      o = collapse i ((F.slots.drop (treeStart F.numLeaves i)).take (2 ^ i)) := by
  rw [mem_ofForest]
  constructor
  · rintro ⟨h, hh, e⟩
    rw [Prod.mk.injEq] at e
    obtain ⟨e1, e2⟩ := e
    obtain ⟨e3, _⟩ := rootPos_inj e1
    subst e3
    exact ⟨hh, e2⟩
  · rintro ⟨hh, e⟩
    exact ⟨i, hh, by rw [e]⟩

theorem none_mem_ofForest_row {F : Forest H} {i : Nat} :
    (rootPos F.numLeaves i, none) ∈ ofForest F ↔ i ∈ treeRows F.numLeaves ∧
      DeadR F.slots (treeStart F.numLeaves i) (2 ^ i) := by
  rw [mem_ofForest_row, eq_comm, collapse_eq_none_iff, List.take_take, Nat.min_self]
  rfl

/-! ### the low trees at the time of an addition -/

theorem mem_newRows {G : Forest H} {k i : Nat} :
    i ∈ newRows G k ↔ i ∈ treeRows G.numLeaves ∧ DeadR G.slots (treeStart G.numLeaves i) (2 ^ i) ∧
      (G.numLeaves / 2 ^ (i + 1) + 1) * 2 ^ (i + 1) = G.numLeaves + k + 1 := by
  unfold newRows
  rw [List.mem_filter, Bool.and_eq_true, deadB_iff_deadR, decide_eq_true_eq]

theorem mem_destroyed {G : Forest H} {k i : Nat} :
    i ∈ destroyed G k ↔ i ∈ treeRows G.numLeaves ∧ DeadR G.slots (treeStart G.numLeaves i) (2 ^ i) ∧
      (G.numLeaves / 2 ^ (i + 1) + 1) * 2 ^ (i + 1) ≤ G.numLeaves + k := by
  unfold destroyed
  rw [List.mem_filter, Bool.and_eq_true, deadB_iff_deadR, decide_eq_true_eq]

/-- numeric core: a row `i < t` whose `reach` is `n + 1` has the same tree start in `n0` and `n` -/
theorem start_eq_of_reach {n0 n t c i : Nat} (htc : n = 2 ^ (t + 1) * c + (2 ^ t - 1)) (hi : i < t)
    (hr : (n0 / 2 ^ (i + 1) + 1) * 2 ^ (i + 1) = n + 1) :
    treeStart n0 i = treeStart n i ∧ n0 / 2 ^ (i + 1) = n / 2 ^ (i + 1) := by
  have hS := treeStart_trailing htc hi
  rw [treeStart_eq] at hS
  rw [Nat.add_mul, Nat.one_mul] at hr
  have e : n0 / 2 ^ (i + 1) * 2 ^ (i + 1) = n / 2 ^ (i + 1) * 2 ^ (i + 1) := by omega
  rw [treeStart_eq, treeStart_eq]
  exact ⟨e, Nat.eq_of_mul_eq_mul_right (Nat.two_pow_pos _) e⟩

/-- numeric core, converse: a tree of `n0` that starts where the low tree `i` of `n ≥ n0` starts -/
theorem reach_of_le {n0 n t c i : Nat} (htc : n = 2 ^ (t + 1) * c + (2 ^ t - 1)) (hi : i < t)
    (hle : n0 ≤ n) (hs : treeStart n i + 2 ^ i ≤ n0) :
    n0.testBit i = true ∧ treeStart n0 i = treeStart n i ∧
      (n0 / 2 ^ (i + 1) + 1) * 2 ^ (i + 1) = n + 1 := by
  have hS := treeStart_trailing htc hi
  rw [treeStart_eq] at hS hs
  have hq : n0 / 2 ^ (i + 1) = n / 2 ^ (i + 1) := by
    apply div_of_range
    · have := Nat.two_pow_pos i; omega
    · omega
  refine ⟨testBit_of_range (q := n / 2 ^ (i + 1)) hs (by omega), ?_, ?_⟩
  · rw [treeStart_eq, treeStart_eq, hq]
  · rw [hq, Nat.add_mul, Nat.one_mul]; exact hS

/-- the low trees at the time of the `(k+1)`-th addition: `Gp` is `G` after `k` additions, its leaf
count has `t` trailing one digits.  The tree on row `i < t` of `Gp` is empty iff it is an empty root
of `G` that this addition overwrites; its root position is then the one it has in `G`. -/
theorem low_tree_none_iff (G : Forest H) (xs : List H) {t c : Nat} (hn63 : G.numLeaves + xs.length < 2 ^ 63)
    (htc : G.numLeaves + xs.length = 2 ^ (t + 1) * c + (2 ^ t - 1)) {i : Nat} (hi : i < t) :
    ((rootPos (G.numLeaves + xs.length) i, none) ∈ ofForest (G.addMany xs) ↔ i ∈ newRows G xs.length) ∧
    (i ∈ newRows G xs.length → rootPos (G.numLeaves + xs.length) i = rootPos G.numLeaves i) := by
  have hS := treeStart_trailing htc hi
  have hbit : (G.numLeaves + xs.length).testBit i = true := by
    rw [htc]; exact testBit_trailing_low hi
  have hi63 : i < 63 := testBit_lt_of_lt hn63 hbit
  have hrow : i ∈ treeRows (G.numLeaves + xs.length) := mem_treeRows.2 ⟨by omega, hbit⟩
  have hpos : 0 < 2 ^ i := Nat.two_pow_pos i
  have hp : 2 ^ (i + 1) = 2 * 2 ^ i := by rw [Nat.pow_succ]; omega
  have hlen : G.slots.length = G.numLeaves := rfl
  have h1 : (rootPos (G.numLeaves + xs.length) i, none) ∈ ofForest (G.addMany xs) ↔
      DeadR (G.slots ++ xs.map some) (treeStart (G.numLeaves + xs.length) i) (2 ^ i) := by
    have := none_mem_ofForest_row (F := G.addMany xs) (i := i)
    rw [numLeaves_addMany] at this
    rw [this]
    exact ⟨fun h => h.2, fun h => ⟨hrow, h⟩⟩
  refine ⟨?_, ?_⟩
  · rw [h1, deadR_append _ _ hpos (by rw [hlen]; omega), mem_newRows, hlen]
    constructor
    · rintro ⟨hle, hd⟩
      obtain ⟨hb, hts, hr⟩ := reach_of_le htc hi (Nat.le_add_right _ _) hle
      exact ⟨mem_treeRows.2 ⟨by omega, hb⟩, by rw [hts]; exact hd, hr⟩
    · rintro ⟨hrow0, hd, hr⟩
      obtain ⟨hts, _⟩ := start_eq_of_reach htc hi hr
      have := treeStart_add_le (mem_treeRows.1 hrow0).2
      rw [hts] at this hd
      exact ⟨this, hd⟩
  · intro hm
    obtain ⟨_, _, hr⟩ := mem_newRows.1 hm
    obtain ⟨_, hq⟩ := start_eq_of_reach htc hi hr
    exact rootPos_eq_of_div hq.symm

/-- … and a non-empty low tree does not sit at the position of any overwritten empty root of `G` -/
theorem low_tree_some_ne (G : Forest H) (xs : List H) {t c : Nat} (hn63 : G.numLeaves + xs.length < 2 ^ 63)
    (htc : G.numLeaves + xs.length = 2 ^ (t + 1) * c + (2 ^ t - 1)) {i : Nat} (hi : i < t) {tr : CTree H}
    (hsome : (rootPos (G.numLeaves + xs.length) i, some tr) ∈ ofForest (G.addMany xs)) :
    ∀ h ∈ destroyed G (xs.length + 1), rootPos G.numLeaves h ≠ rootPos (G.numLeaves + xs.length) i := by
  intro h hh e
  obtain ⟨e1, hq⟩ := rootPos_inj e
  subst e1
  obtain ⟨hrow0, hd, hr⟩ := mem_destroyed.1 hh
  have hS := treeStart_trailing htc hi
  rw [treeStart_eq, ← hq] at hS
  have hnew : h ∈ newRows G xs.length := by
    refine mem_newRows.2 ⟨hrow0, hd, ?_⟩
    rw [Nat.add_mul, Nat.one_mul]; omega
  have hnone := ((low_tree_none_iff G xs hn63 htc hi).1).2 hnew
  rw [← numLeaves_addMany G xs] at hnone hsome
  have e1 := (mem_ofForest_row.1 hnone).2
  have e2 := (mem_ofForest_row.1 hsome).2
  rw [← e2] at e1
  cases e1

/-- the rows overwritten by the `(k+1)`-th addition are rows of its low trees -/
theorem newRows_lt (G : Forest H) {k t c : Nat} (htc : G.numLeaves + k = 2 ^ (t + 1) * c + (2 ^ t - 1)) :
    ∀ h ∈ newRows G k, h < t := by
  intro h hh
  obtain ⟨_, _, hr⟩ := mem_newRows.1 hh
  apply Nat.lt_of_not_le
  intro hle
  have e : 2 ^ (h + 1) = 2 ^ (t + 1) * 2 ^ (h - t) := by
    rw [← Nat.pow_add]; congr 1; omega
  have hpos := Nat.two_pow_pos t
  have hp : 2 ^ (t + 1) = 2 * 2 ^ t := by rw [Nat.pow_succ]; omega
  have h1 : ((G.numLeaves / 2 ^ (h + 1) + 1) * 2 ^ (h + 1)) % 2 ^ (t + 1) = 0 := by
    rw [e, Nat.mul_comm, Nat.mul_assoc, Nat.mul_mod_right]
  have h2 : (G.numLeaves + k + 1) % 2 ^ (t + 1) = 2 ^ t := by
    rw [htc, Nat.add_assoc, Nat.mul_add_mod, Nat.mod_eq_of_lt (by omega)]
    omega
  rw [hr, h2] at h1
  omega

/-! ### `deadB` read off the node list -/

/-- `DeadTree`-style reading of `deadB` (for hygienic forests under `NZ`) -/
theorem deadB_iff (nz : NZ H) (G : Forest H) (hn : G.numLeaves < 2 ^ 64) (hy : Hyg G) {h : Nat}
    (hb : G.numLeaves.testBit h = true) :
    deadB G h = true ↔ (rootPos G.numLeaves h, (zero : H), false) ∈ G.nodes := by
  have hrow : h ∈ treeRows G.numLeaves := CalcComplete.mem_treeRows hn hb
  cases hc : collapse h ((G.slots.drop (treeStart G.numLeaves h)).take (2 ^ h)) with
  | none =>
    have hd : deadB G h = true := by unfold deadB; rw [hc]; rfl
    refine ⟨fun _ => ?_, fun _ => hd⟩
    refine SpecNodes.mem_nodes.2 ⟨h, ⟨hb, hrow⟩, ?_⟩
    unfold SpecNodes.treeNodes
    rw [hc]
    exact List.mem_singleton.2 rfl
  | some T =>
    have hd : deadB G h = false := by unfold deadB; rw [hc]; rfl
    rw [hd]
    refine ⟨fun hf => (by cases hf), fun hm => ?_⟩
    exfalso
    have hroot : (rootPos G.numLeaves h, T.hash, SpecNodes.isLeaf T) ∈ G.nodes := by
      refine SpecNodes.mem_nodes.2 ⟨h, ⟨hb, hrow⟩, ?_⟩
      unfold SpecNodes.treeNodes
      rw [hc]
      exact SpecNodes.nodes_head T _ _
    have e := SpecNodes.nodes_functional G _ hm _ hroot rfl
    have hz : T.hash = zero := by
      have := congrArg (fun x => x.2.1) e
      exact this.symm
    refine CTree.hash_ne_zero nz.nonzero T ?_ hz
    intro x hx
    apply hy.nz x
    rw [mem_liveLeaves]
    have := SpecNodes.collapse_leaves _ _ _ hc x hx
    exact List.mem_of_mem_drop (List.mem_of_mem_take this)

/-! ### non-vacuity: concrete instances over the free hasher of `PForestAdd.Example` -/

namespace Example
open PForestAdd.Example

theorem crT : CR T where
  inj := by
    intro a b c d h
    simp only [Hasher.ph] at h
    injection h with h1 h2
    exact ⟨h1, h2⟩
  nonzero := by intro a b h; simp [Hasher.ph, Hasher.zero] at h

/-- 7 slots `[a, b, c, d, dead, dead, dead]`: the trees on rows 1 and 0 are empty roots -/
def G7 : Forest T := ⟨[some (T.l 1), some (T.l 2), some (T.l 3), some (T.l 4), none, none, none]⟩

/-- 5 dead slots: the trees on rows 2 and 0 are empty roots, overwritten by the 3rd resp. 1st addition -/
def G5 : Forest T := ⟨[none, none, none, none, none]⟩

example : destroyed G7 1 = [1, 0] := by decide
example : deadB G7 2 = false ∧ deadB G7 1 = true ∧ deadB G7 0 = true := by decide +kernel
example : destroyed G7 0 = [] ∧ destroyed G7 1 = [1, 0] ∧ newRows G7 0 = [1, 0] ∧ newRows G7 1 = [] := by
  decide +kernel
example : destroyed G5 0 = [] ∧ destroyed G5 1 = [0] ∧ destroyed G5 2 = [0] ∧ destroyed G5 3 = [2, 0] ∧
    newRows G5 0 = [0] ∧ newRows G5 1 = [] ∧ newRows G5 2 = [2] := by
  decide +kernel

/-- `destroyed_succ` on `G5`: the third addition overwrites row 2, above the earlier row 0 -/
example : destroyed G5 3 = [2] ++ [0] := by
  have := destroyed_succ G5 2
  rw [show newRows G5 2 = [2] by decide +kernel, show destroyed G5 2 = [0] by decide +kernel] at this
  exact this

/-- `low_tree_none_iff` on `G5` after two additions (`7 = 2^4 * 0 + (2^3 - 1)`), row 2: both sides hold -/
example : (rootPos (G5.numLeaves + [T.l 1, T.l 2].length) 2, none) ∈ ofForest (G5.addMany [T.l 1, T.l 2]) ∧
    2 ∈ newRows G5 [T.l 1, T.l 2].length ∧
    rootPos (G5.numLeaves + [T.l 1, T.l 2].length) 2 = rootPos G5.numLeaves 2 := by
  have h := low_tree_none_iff G5 [T.l 1, T.l 2] (t := 3) (c := 0) (by decide) (by decide) (i := 2) (by decide)
  have h2 : 2 ∈ newRows G5 [T.l 1, T.l 2].length := by decide +kernel
  exact ⟨h.1.2 h2, h2, h.2 h2⟩

/-- … row 1 (slots `[dead, l 1]`): both sides fail -/
example : ¬ (rootPos (G5.numLeaves + [T.l 1, T.l 2].length) 1, none) ∈ ofForest (G5.addMany [T.l 1, T.l 2]) ∧
    ¬ 1 ∈ newRows G5 [T.l 1, T.l 2].length := by
  have h := low_tree_none_iff G5 [T.l 1, T.l 2] (t := 3) (c := 0) (by decide) (by decide) (i := 1) (by decide)
  have h2 : ¬ 1 ∈ newRows G5 [T.l 1, T.l 2].length := by decide +kernel
  exact ⟨fun hm => h2 (h.1.1 hm), h2⟩

/-- `low_tree_some_ne` on `G5` after two additions, row 1: its hypotheses hold, and `destroyed` is
non-empty -/
example : (∀ h ∈ destroyed G5 ([T.l 1, T.l 2].length + 1),
      rootPos G5.numLeaves h ≠ rootPos (G5.numLeaves + [T.l 1, T.l 2].length) 1) ∧
    destroyed G5 ([T.l 1, T.l 2].length + 1) = [2, 0] :=
  ⟨low_tree_some_ne G5 [T.l 1, T.l 2] (t := 3) (c := 0) (by decide) (by decide) (i := 1) (by decide)
    (tr := CTree.leaf (T.l 1)) (by decide +kernel), by decide +kernel⟩

/-- `newRows_lt` on `G5`, third addition: `newRows G5 2 = [2]` and `2 < 3` -/
example : ∀ h ∈ newRows G5 2, h < 3 := newRows_lt G5 (k := 2) (t := 3) (c := 0) (by decide)

theorem hyg_G7 : Hyg G7 where
  nodup := by decide
  nz := by
    intro x hx
    simp [G7, Forest.liveLeaves] at hx
    rcases hx with rfl | rfl | rfl | rfl <;> simp [Hasher.zero]
  nph := by
    intro x hx a b
    simp [G7, Forest.liveLeaves] at hx
    rcases hx with rfl | rfl | rfl | rfl <;> simp [Hasher.ph]

/-- `deadB_iff` on `G7`: row 1 is an empty root (both sides hold), row 2 is not (both fail) -/
example : (rootPos G7.numLeaves 1, (zero : T), false) ∈ G7.nodes ∧
    ¬ (rootPos G7.numLeaves 2, (zero : T), false) ∈ G7.nodes :=
  ⟨(deadB_iff crT.toNZ G7 (by decide) hyg_G7 (h := 1) (by decide)).1 (by decide +kernel),
   fun hm => absurd ((deadB_iff crT.toNZ G7 (by decide) hyg_G7 (h := 2) (by decide)).2 hm) (by decide +kernel)⟩

end Example

end UtreexoVerif.Proofs.MapUndoOrder
