/-
  `undoDelMoveDown` of `MapPollard.Undo` on a FULL map forest: the chain of un-lifts that takes a
  state tracking `F.delLeaves …` back to a state tracking `F` OUTSIDE A HOLE (the nodes at or
  below the detwinned targets — nothing is stored there yet — and the nodes from their parents
  upwards, whose hashes are stale); `undoDeletion` re-computes and re-writes every position of
  the hole afterwards.

  `FAH A C N P Hole`: the full image with a hole and a pending set: outside `Hole` the store is the
  image of `N`; the cache holds exactly the leaves of `N` that are not pending (`P`: the deleted
  leaves, which are cached again only at the end), and their positions lie outside the hole.

  Layer 1 (the model on the abstract state) is shared with the partial forests
  (`Proofs/MapUndoRep.lean`, `Proofs/MapPlaceEmpty.lean`); the specification side is
  `Proofs/PForestDel.lean`.
-/
import UtreexoVerif.Proofs.MapFullRemove
import UtreexoVerif.Proofs.MapUndoChain

namespace UtreexoVerif.Proofs.MapFullUndoChain
open UtreexoVerif Model Spec Spec.Forest Proofs MapAL MapInv MapPrune MapRep MapLiftGeo PForest MapAInv MapLiftCore
open MapUndoDefs MapUndoSteps PForestSpec PForestDel MapRemoveAll MapPlaceEmpty MapUndoRep MapUndoChain
open MapFull MapFullRemove Hasher
set_option linter.unusedSectionVars false
set_option linter.unusedVariables false

variable {H : Type} [DecidableEq H] [Hasher H]

/-! ### the full image with a hole -/

structure FAH (A : Pos → Option (Leaf H)) (C : H → Option Pos) (N : List (Pos × H × Bool)) (P : H → Prop)
    (Hole : Pos → Prop) : Prop where
  val : ∀ q l, A q = some l → ¬ Hole q → l.remember = true ∧ ∃ b, (q, l.hash, b) ∈ N
  sto : ∀ q h b, (q, h, b) ∈ N → ¬ Hole q → A q = some ⟨h, true⟩
  cval : ∀ x t, C x = some t → (t, x, true) ∈ N ∧ ¬ Hole t ∧ ¬ P x
  csto : ∀ t x, (t, x, true) ∈ N → ¬ P x → C x = some t

section basic
variable {A : Pos → Option (Leaf H)} {C : H → Option Pos} {N : List (Pos × H × Bool)} {P : H → Prop}
  {Hole : Pos → Prop}

theorem FAH.of_fa (fa : FA A C N (fun _ => False)) (hP : ∀ t x, (t, x, true) ∈ N → ¬ P x) :
    FAH A C N P (fun _ => False) where
  val := fun q l hl _ => fa.val hl
  sto := fun q h b hm _ => fa.sto q h b hm
  cval := fun x t hx => ⟨fa.cpos hx, fun h => h, hP t x (fa.cpos hx)⟩
  csto := fun t x hm _ => fa.csto t x hm (fun h => h)

/-- the position of a leaf that is not pending lies outside the hole -/
theorem FAH.leaf_out (fa : FAH A C N P Hole) {t : Pos} {x : H} (hm : (t, x, true) ∈ N) (hp : ¬ P x) : ¬ Hole t :=
  (fa.cval x t (fa.csto t x hm hp)).2.1

theorem FAH.mono_hole {Hole' : Pos → Prop} (fa : FAH A C N P Hole) (h : ∀ q, Hole q → Hole' q)
    (hk : ∀ t x, (t, x, true) ∈ N → ¬ P x → ¬ Hole' t) : FAH A C N P Hole' where
  val := fun q l hl hh => fa.val q l hl (fun c => hh (h q c))
  sto := fun q h' b hm hh => fa.sto q h' b hm (fun c => hh (h q c))
  cval := fun x t hx => ⟨(fa.cval x t hx).1, hk t x (fa.cval x t hx).1 (fa.cval x t hx).2.2, (fa.cval x t hx).2.2⟩
  csto := fa.csto

theorem FAH.congr_N {N' : List (Pos × H × Bool)} (fa : FAH A C N P Hole) (h : N' = N) : FAH A C N' P Hole := by
  rw [h]; exact fa

end basic

/-! ### un-deleting a whole tree -/

section root
variable {A : Pos → Option (Leaf H)} {C : H → Option Pos} {N N'' : List (Pos × H × Bool)}
  {R : Pos → Prop} {P : H → Prop} {Hole'' : Pos → Prop}

/-- un-deleting a whole tree (root target `d`): nothing moves; the tree becomes part of the hole -/
theorem funroot (L : Laws N R) (fa : FAH A C N'' P Hole'') {d : Pos} (hdR : R d)
    (hPd : ∀ t x, (t, x, true) ∈ N → Anc d t → P x)
    (hN'' : ∀ e : Pos × H × Bool, e ∈ N'' ↔ (¬ Anc d e.1 ∧ e ∈ N) ∨ e = (d, zero, false)) :
    FAH A C N P (fun q => Hole'' q ∨ (Anc d q ∧ ∃ h0 f, (q, h0, f) ∈ N)) := by
  obtain ⟨hd0, bd0, hdN⟩ := L.root_node d hdR
  refine { val := ?_, sto := ?_, cval := ?_, csto := ?_ }
  · intro q l hl hh
    obtain ⟨hr, b, hb⟩ := fa.val q l hl (fun c => hh (Or.inl c))
    refine ⟨hr, ?_⟩
    rcases (hN'' _).1 hb with ⟨_, h2⟩ | e
    · exact ⟨b, h2⟩
    · simp only [Prod.mk.injEq] at e
      exfalso
      apply hh
      right
      rw [e.1]
      exact ⟨Anc.refl d, hd0, bd0, hdN⟩
  · intro q h b hm hh
    have hnd : ¬ Anc d q := fun ha => hh (Or.inr ⟨ha, h, b, hm⟩)
    exact fa.sto q h b ((hN'' _).2 (Or.inl ⟨hnd, hm⟩)) (fun c => hh (Or.inl c))
  · intro x t hx
    obtain ⟨h1, h2, h3⟩ := fa.cval x t hx
    rcases (hN'' _).1 h1 with ⟨h4, h5⟩ | e
    · exact ⟨h5, fun h => h.elim h2 (fun h' => h4 h'.1), h3⟩
    · simp only [Prod.mk.injEq] at e; exact absurd e.2.2 (by simp)
  · intro t x hm hp
    have hnd : ¬ Anc d t := fun ha => hp (hPd t x hm ha)
    exact fa.csto t x ((hN'' _).2 (Or.inl ⟨hnd, hm⟩)) hp

end root

/-! ### un-lifting -/

section unlift
variable {A : Pos → Option (Leaf H)} {C : H → Option Pos} {N N'' : List (Pos × H × Bool)}
  {R : Pos → Prop} {P : H → Prop} {d : Pos} {Hole'' : Pos → Prop}

/-- **un-lifting on the full image** (one step of `undoDelMoveDown` at a non-root target `d`): the
state tracks `N''` (after the deletion of everything below `d`) outside a hole that does not meet
the region below `parent d`; after the subtree at `parent d` has moved back down to `sib d` it
tracks `N` outside the old hole, the subtree of `d` and the path from `parent d` upwards -/
theorem funlift (D : Del N N'' R d) (fa : FAH A C N'' P Hole'')
    (hPd : ∀ t x, (t, x, true) ∈ N → Anc d t → P x)
    (hHP : ∀ q, Hole'' q → ¬ Anc (parent d) q) :
    FAH (unliftAll (sib d) A) (unliftCAll (sib d) C) N P
      (fun q => Hole'' q ∨ ((Anc d q ∨ Anc q (parent d)) ∧ ∃ h0 f, (q, h0, f) ∈ N)) := by
  have hole_P : ¬ Hole'' (parent d) := fun c => hHP _ c (Anc.refl _)
  have hole_lift : ∀ c, Anc (sib d) c → ¬ Hole'' (liftP (sib d) c) := fun c hc h => hHP _ h (anc_P_lift hc)
  refine { val := ?_, sto := ?_, cval := ?_, csto := ?_ }
  · intro q l hl hh
    rcases unlift_cases d q with rfl | hs | ⟨hu, hs⟩ | hout
    · rw [unliftAll_sib] at hl
      obtain ⟨hr, b, hb⟩ := fa.val _ l hl hole_P
      exact ⟨hr, b, (D.mem_P _ _).1 hb⟩
    · rw [unliftAll_under hs] at hl
      obtain ⟨hr, b, hb⟩ := fa.val _ l hl (hole_lift q hs.1)
      exact ⟨hr, b, (D.mem_lift hs.1 _ _).1 hb⟩
    · rw [unliftAll_none hu hs] at hl; cases hl
    · rw [unliftAll_out hout] at hl
      obtain ⟨hr, b, hb⟩ := fa.val q l hl (fun c => hh (Or.inl c))
      refine ⟨hr, ?_⟩
      rcases D.mem_out'' hb hout with ⟨_, hm⟩ | ⟨ha, _, h0, hm0⟩
      · exact ⟨b, hm⟩
      · exact absurd (Or.inr ⟨Or.inr ha, h0, false, hm0⟩) hh
  · intro q h b hm hh
    have hh1 : ¬ Hole'' q := fun c => hh (Or.inl c)
    have hh2 : ¬ Anc d q := fun c => hh (Or.inr ⟨Or.inl c, h, b, hm⟩)
    have hh3 : ¬ Anc q (parent d) := fun c => hh (Or.inr ⟨Or.inr c, h, b, hm⟩)
    rcases unlift_cases d q with rfl | hs | ⟨hu, hs⟩ | hout
    · rw [unliftAll_sib]
      exact fa.sto _ h b ((D.mem_P h b).2 hm) hole_P
    · rw [unliftAll_under hs]
      exact fa.sto _ h b ((D.mem_lift hs.1 h b).2 hm) (hole_lift q hs.1)
    · exfalso
      rcases anc_P_iff.1 hu with e | e | e
      · exact hh3 (e ▸ Anc.refl _)
      · exact hs e
      · exact hh2 e
    · rw [unliftAll_out hout]
      exact fa.sto q h b ((D.mem_out hout hh3 h b).2 hm) hh1
  · intro x t h
    obtain ⟨p, hC, ht⟩ := unliftCAll_some h
    obtain ⟨hm, hhp, hpx⟩ := fa.cval x p hC
    have hmt : (t, x, true) ∈ N ∧ (Anc (sib d) t ∨ ¬ Anc (parent d) t) := by
      by_cases hu : Anc (parent d) p
      · obtain ⟨c, hc, he, hm'⟩ := D.mem_under hm hu
        by_cases hcσ : c = sib d
        · subst hcσ
          rw [liftP_sib_self] at he
          rw [if_pos he] at ht
          rw [ht]; exact ⟨hm', Or.inl (Anc.refl _)⟩
        · have hcs := sunder_of_anc_ne hc hcσ
          have hps : SUnder (parent d) p := by rw [he]; exact sunder_P_lift hcs
          have hne : p ≠ parent d := by
            intro e; have := hps.2; rw [e] at this; omega
          have h1 : 1 ≤ p.1 := by rw [he, liftP_fst]; omega
          rw [if_neg hne, if_pos ⟨hps, h1⟩, he, unliftP_liftP hc] at ht
          rw [ht]; exact ⟨hm', Or.inl hc⟩
      · have hne : p ≠ parent d := fun e => hu (e ▸ Anc.refl _)
        rw [if_neg hne, if_neg (fun c => hu c.1.1)] at ht
        rw [ht]
        rcases D.mem_out'' hm hu with ⟨_, hm'⟩ | ⟨_, hf, _⟩
        · exact ⟨hm', Or.inr hu⟩
        · cases hf
    obtain ⟨hmN, hreg⟩ := hmt
    refine ⟨hmN, ?_, hpx⟩
    have h1 : ¬ Anc d t := fun c => hpx (hPd t x hmN c)
    have h2 : ¬ Anc t (parent d) := D.leaf_not_above hmN h1
    rintro (c | ⟨c | c, _⟩)
    · rcases hreg with hs | ho
      · exact hHP t c (Anc.trans (anc_parent_sib d) hs)
      · -- outside the region the position is unchanged
        by_cases hu : Anc (parent d) p
        · obtain ⟨c', hc', he, _⟩ := D.mem_under hm hu
          -- then `t` lies below `sib d`, contradiction with `ho`
          by_cases hcσ : c' = sib d
          · subst hcσ
            rw [liftP_sib_self] at he
            rw [if_pos he] at ht
            exact ho (ht ▸ anc_parent_sib d)
          · have hcs := sunder_of_anc_ne hc' hcσ
            have hps : SUnder (parent d) p := by rw [he]; exact sunder_P_lift hcs
            have hne : p ≠ parent d := by
              intro e; have := hps.2; rw [e] at this; omega
            have h1' : 1 ≤ p.1 := by rw [he, liftP_fst]; omega
            rw [if_neg hne, if_pos ⟨hps, h1'⟩, he, unliftP_liftP hc'] at ht
            exact ho (ht ▸ Anc.trans (anc_parent_sib d) hc')
        · have hne : p ≠ parent d := fun e => hu (e ▸ Anc.refl _)
          rw [if_neg hne, if_neg (fun c => hu c.1.1)] at ht
          rw [ht] at c
          exact hhp c
    · exact h1 c
    · exact h2 c
  · intro t x hm hp
    have h1 : ¬ Anc d t := fun c => hp (hPd t x hm c)
    have h2 : ¬ Anc t (parent d) := D.leaf_not_above hm h1
    unfold unliftCAll
    by_cases hu : Anc (parent d) t
    · have hs : Anc (sib d) t := by
        rcases anc_P_iff.1 hu with e | e | e
        · exact absurd (e ▸ Anc.refl _) h2
        · exact e
        · exact absurd e h1
      have hC := fa.csto _ x ((D.mem_lift hs x true).2 hm) hp
      rw [hC]
      simp only [Option.map_some, Option.some.injEq, parent_sib]
      by_cases hts : t = sib d
      · subst hts
        rw [liftP_sib_self, if_pos rfl]
      · have hcs := sunder_of_anc_ne hs hts
        have hps : SUnder (parent d) (liftP (sib d) t) := sunder_P_lift hcs
        have hne : liftP (sib d) t ≠ parent d := by
          intro e; have := hps.2; rw [e] at this; omega
        rw [if_neg hne, if_pos ⟨hps, by simp [liftP_fst]⟩, unliftP_liftP hs]
    · have hC := fa.csto t x ((D.mem_out hu h2 x true).2 hm) hp
      rw [hC]
      simp only [Option.map_some, Option.some.injEq, parent_sib]
      have hne : t ≠ parent d := fun e => hu (e ▸ Anc.refl _)
      rw [if_neg hne, if_neg (fun c => hu c.1.1)]

end unlift

/-! ### after `placeEmptyRoot d` the move of the node at `parent d` down to `sib d` gives `unliftAll` -/

theorem fmoveDown_eq {A : Pos → Option (Leaf H)} {C : H → Option Pos} {N : List (Pos × H × Bool)} {R : Pos → Prop}
    {P : H → Prop} {Hole : Pos → Prop} (L : Laws N R) (fa : FAH A C N P Hole) {d : Pos}
    (hPout : ¬ Hole (parent d)) :
    (∀ q, (moveDownA d (unliftA (sib d) A) (unliftC (sib d) C)).1 q = unliftAll (sib d) A q) ∧
    (∀ x, (moveDownA d (unliftA (sib d) A) (unliftC (sib d) C)).2 x = unliftCAll (sib d) C x) := by
  have hPσ : parent (sib d) = parent d := parent_sib d
  have hAP : unliftA (sib d) A (parent d) = A (parent d) := by
    unfold unliftA
    have h1 : ¬ SUnder (sib d) (parent d) := by
      intro h; have := h.2; rw [sib_fst] at this
      have : (parent d).1 = d.1 + 1 := rfl
      omega
    have h2 : ¬ SUnder (parent (sib d)) (parent d) := by
      rw [hPσ]; intro h; have := h.2; omega
    rw [if_neg h1, if_neg h2]
  have hne : sib d ≠ parent d := by
    intro e; have := congrArg Prod.fst e; rw [sib_fst] at this
    have : (parent d).1 = d.1 + 1 := rfl
    omega
  have hσP : SUnder (parent d) (sib d) :=
    ⟨anc_parent_sib d, by rw [sib_fst]; show d.1 < d.1 + 1; omega⟩
  unfold moveDownA
  rw [hAP]
  cases hA : A (parent d) with
  | none =>
    simp only
    constructor
    · intro q
      unfold unliftAll unliftA
      rw [hPσ]
      by_cases hq : q = sib d
      · subst hq
        rw [if_pos rfl, if_neg (fun h : SUnder (sib d) (sib d) => by have := h.2; omega), if_pos hσP, hA]
      · rw [if_neg hq]
        by_cases h1 : SUnder (sib d) q
        · rw [if_pos h1, if_pos h1]
        · rw [if_neg h1, if_neg h1]
          by_cases h2 : SUnder (parent d) q
          · rw [if_pos h2, if_pos h2.1]
          · rw [if_neg h2]
            by_cases h3 : Anc (parent d) q
            · have : q = parent d := by
                apply Classical.byContradiction
                intro hne'
                exact h2 ⟨h3, by
                  have := h3.1
                  have hr : q.1 ≠ (parent d).1 := fun e => hne' (h3.eq_of_row e.symm).symm
                  omega⟩
              rw [if_pos h3, this, hA]
            · rw [if_neg h3]
    · intro x
      unfold unliftCAll unliftC
      rw [hPσ]
      cases hC : C x with
      | none => rfl
      | some p =>
        simp only [Option.map_some]
        by_cases hp : p = parent d
        · exfalso
          subst hp
          have := fa.sto _ x true (fa.cval x _ hC).1 hPout
          rw [hA] at this; cases this
        · rw [if_neg hp]
  | some v =>
    simp only
    obtain ⟨_, bv, hvN⟩ := fa.val _ v hA hPout
    constructor
    · intro q
      unfold unliftAll
      rw [hPσ]
      by_cases hq : q = sib d
      · subst hq; rw [upd_self, if_pos rfl, hA]
      · rw [upd_ne _ _ hq, if_neg hq]
        by_cases hqP : q = parent d
        · subst hqP
          rw [upd_self]
          have h1 : ¬ SUnder (sib d) (parent d) := by
            intro h; have := h.2; rw [sib_fst] at this
            have : (parent d).1 = d.1 + 1 := rfl
            omega
          rw [if_neg h1, if_pos (Anc.refl _)]
        · rw [upd_ne _ _ hqP]
          unfold unliftA
          rw [hPσ]
          by_cases h1 : SUnder (sib d) q
          · rw [if_pos h1, if_pos h1]
          · rw [if_neg h1, if_neg h1]
            by_cases h2 : SUnder (parent d) q
            · rw [if_pos h2, if_pos h2.1]
            · rw [if_neg h2]
              have h3 : ¬ Anc (parent d) q := by
                intro h3
                exact h2 ⟨h3, by
                  have := h3.1
                  have hr : q.1 ≠ (parent d).1 := fun e => hqP (h3.eq_of_row e.symm).symm
                  omega⟩
              rw [if_neg h3]
    · intro x
      have hdom : (unliftC (sib d) C v.hash).isSome = (C v.hash).isSome := by
        unfold unliftC; cases C v.hash <;> rfl
      rw [hdom]
      unfold unliftCAll
      by_cases hs : (C v.hash).isSome = true
      · rw [if_pos hs]
        obtain ⟨p, hp⟩ := Option.isSome_iff_exists.1 hs
        have hpP : p = parent d := (L.leaf_hash p v.hash (parent d) bv (fa.cval _ _ hp).1 hvN).symm
        subst hpP
        rw [upd_apply]
        by_cases hx : x = v.hash
        · subst hx; rw [if_pos rfl, hp, hPσ]; simp
        · rw [if_neg hx]
          unfold unliftC
          rw [hPσ]
          cases hC : C x with
          | none => rfl
          | some p' =>
            simp only [Option.map_some]
            have : p' ≠ parent d := by
              rintro rfl
              exact hx (L.func _ _ _ _ _ (fa.cval _ _ hC).1 hvN).1
            rw [if_neg this]
      · rw [if_neg hs]
        unfold unliftC
        rw [hPσ]
        cases hC : C x with
        | none => rfl
        | some p' =>
          simp only [Option.map_some]
          have : p' ≠ parent d := by
            rintro rfl
            have := (L.func _ _ _ _ _ (fa.cval _ _ hC).1 hvN).1
            subst this
            rw [hC] at hs; exact hs rfl
          rw [if_neg this]

/-! ### the chain -/

theorem funremove_chain (nz : NZ H) : ∀ (ds : List Pos) (F : Forest H), F.numLeaves < 2 ^ 64 → Hyg F →
    (∀ d ∈ ds, ∃ h b, (d, h, b) ∈ F.nodes) →
    ds.Pairwise (fun a b => ¬ Anc (parent a) b ∧ ¬ Anc b (parent a)) →
    ∀ (P : H → Prop), (∀ d ∈ ds, ∀ t x, (t, x, true) ∈ F.nodes → Anc d t → P x) →
    ∀ (A : Pos → Option (Leaf H)) (C : H → Option Pos),
    FAH A C (F.delLeaves (ds.flatMap (leavesUnder F))).nodes P (fun _ => False) →
    FAH (moveBackAll F.numLeaves ds (A, C)).1 (moveBackAll F.numLeaves ds (A, C)).2 F.nodes P
      (fun q => ∃ d ∈ ds, holeOf F.nodes d q)
  | [], F, hn, hy, hnode, hsep, P, hPd, A, C, fa => by
    have fa' := FAH.congr_N fa (show F.nodes = (F.delLeaves (([] : List Pos).flatMap (leavesUnder F))).nodes by
      rw [List.flatMap_nil, delLeaves_nil])
    exact fa'.mono_hole (fun q h => h.elim) (fun t _ _ _ ⟨d, hd, _⟩ => by cases hd)
  | d :: ds, F, hn, hy, hnode, hsep, P, hPd, A, C, fa => by
    obtain ⟨h, b, hd⟩ := hnode d List.mem_cons_self
    rw [List.pairwise_cons] at hsep
    have L := laws_forest nz F hn hy
    have hy1 := hyg_delLeaves hy (leavesUnder F d)
    have hnl1 : (F.delLeaves (leavesUnder F d)).numLeaves = F.numLeaves := numLeaves_delLeaves F _
    have hn1 : (F.delLeaves (leavesUnder F d)).numLeaves < 2 ^ 64 := by rw [hnl1]; exact hn
    have L1 : Laws (F.delLeaves (leavesUnder F d)).nodes (FRoot F) := by
      have := laws_forest nz (F.delLeaves (leavesUnder F d)) hn1 hy1
      rwa [froot_del] at this
    have pers : ∀ d' ∈ ds,
        (∀ h' b', (d', h', b') ∈ F.nodes → (d', h', b') ∈ (F.delLeaves (leavesUnder F d)).nodes) ∧
        (∀ t x, Anc d' t → ((t, x, true) ∈ (F.delLeaves (leavesUnder F d)).nodes ↔ (t, x, true) ∈ F.nodes)) := by
      intro d' hd'
      have hs := hsep.1 d' hd'
      by_cases hroot : isRootPos F.numLeaves d = true
      · obtain ⟨s1, s2⟩ := sep_disj hs
        exact persist_root nz F hn hy hroot s1 s2
      · have hnr : isRootPos F.numLeaves d = false := by
          cases hx : isRootPos F.numLeaves d with
          | false => rfl
          | true => exact absurd hx hroot
        exact persist_nonroot nz F hn hy hd hnr hs.1 hs.2
    have hmemLU : ∀ d' ∈ ds, ∀ x, x ∈ leavesUnder (F.delLeaves (leavesUnder F d)) d' ↔ x ∈ leavesUnder F d' := by
      intro d' hd' x
      rw [mem_leavesUnder, mem_leavesUnder]
      constructor
      · rintro ⟨t, ht, ha⟩; exact ⟨t, ((pers d' hd').2 t x ha).1 ht, ha⟩
      · rintro ⟨t, ht, ha⟩; exact ⟨t, ((pers d' hd').2 t x ha).2 ht, ha⟩
    have hmemAll : ∀ x, x ∈ ds.flatMap (leavesUnder (F.delLeaves (leavesUnder F d))) ↔ x ∈ ds.flatMap (leavesUnder F) := by
      intro x
      simp only [List.mem_flatMap]
      constructor
      · rintro ⟨d', hd', hx⟩; exact ⟨d', hd', (hmemLU d' hd' x).1 hx⟩
      · rintro ⟨d', hd', hx⟩; exact ⟨d', hd', (hmemLU d' hd' x).2 hx⟩
    have hFall : (F.delLeaves (leavesUnder F d)).delLeaves (ds.flatMap (leavesUnder (F.delLeaves (leavesUnder F d)))) =
        F.delLeaves ((d :: ds).flatMap (leavesUnder F)) := by
      rw [delLeaves_delLeaves]
      apply delLeaves_congr'
      intro x
      simp only [List.flatMap_cons, List.mem_append]
      rw [hmemAll]
    have ih := funremove_chain nz ds (F.delLeaves (leavesUnder F d)) hn1 hy1
      (fun d' hd' => by
        obtain ⟨h', b', hm⟩ := hnode d' (List.mem_cons_of_mem _ hd')
        exact ⟨h', b', (pers d' hd').1 h' b' hm⟩)
      hsep.2 P
      (fun d' hd' t x ht ha => hPd d' (List.mem_cons_of_mem _ hd') t x (((pers d' hd').2 t x ha).1 ht) ha)
      A C (FAH.congr_N fa (congrArg Forest.nodes hFall))
    rw [hnl1] at ih
    have hole_rest_out : ∀ q, (∃ d' ∈ ds, holeOf (F.delLeaves (leavesUnder F d)).nodes d' q) →
        ¬ Anc (parent d) q ∧ ¬ Anc d q := by
      rintro q ⟨d', hd', hq, _⟩
      have hs := hsep.1 d' hd'
      have key : ¬ Anc (parent d) q := by
        intro hu
        rcases hq with hq | hq
        · by_cases hle : d'.1 ≤ (parent d).1
          · exact hs.1 (Anc.comparable hq hu hle)
          · exact hs.2 (Anc.comparable hu hq (by omega))
        · exact hs.1 (Anc.trans (Anc.trans hu hq) (anc_parent_self d'))
      exact ⟨key, fun ha => key (Anc.trans (anc_parent_self d) ha)⟩
    -- the leaves that are not pending stay outside the final hole
    have hkout : ∀ t x, (t, x, true) ∈ F.nodes → ¬ P x → ¬ ∃ d' ∈ d :: ds, holeOf F.nodes d' t := by
      rintro t x hm hp ⟨d', hd', hq, _⟩
      obtain ⟨h', b', hd'm⟩ := hnode d' hd'
      rcases hq with hq | hq
      · exact hp (hPd d' hd' t x hm hq)
      · have hq' : Anc t d' := Anc.trans hq (anc_parent_self d')
        have := L.leaf_below t x d' h' b' hm hd'm hq'
        rw [this] at hd'
        exact hp (hPd t hd' t x hm (Anc.refl t))
    have conv : ∀ q, (∃ d' ∈ ds, holeOf (F.delLeaves (leavesUnder F d)).nodes d' q) →
        ∃ d' ∈ d :: ds, holeOf F.nodes d' q := by
      rintro q ⟨d', hd', hq, hm⟩
      exact ⟨d', List.mem_cons_of_mem _ hd', hq, nodepos_back nz F hn hy hd (hsep.1 d' hd') hq hm⟩
    show FAH (stepBack F.numLeaves d (moveBackAll F.numLeaves ds (A, C))).1
      (stepBack F.numLeaves d (moveBackAll F.numLeaves ds (A, C))).2 F.nodes P _
    unfold stepBack
    by_cases hroot : isRootPos F.numLeaves d = true
    · rw [if_pos hroot]
      have hN'' := del_root nz F hn hy hroot (leavesUnder F d) (fun x => mem_leavesUnder)
      have r := funroot L ih (d := d) hroot (hPd d List.mem_cons_self) hN''
      refine r.mono_hole ?_ hkout
      rintro q (hq | ⟨ha, hm⟩)
      · exact conv q hq
      · exact ⟨d, List.mem_cons_self, Or.inl ha, hm⟩
    · rw [if_neg hroot]
      have hnr : isRootPos F.numLeaves d = false := by
        cases hx : isRootPos F.numLeaves d with
        | false => rfl
        | true => exact absurd hx hroot
      have hnrR : ¬ FRoot F d := by unfold FRoot; rw [hnr]; simp
      obtain ⟨D1, D2, D3, D4⟩ := del_nonroot nz F hn hy hd hnr (leavesUnder F d) (fun x => mem_leavesUnder)
      have r := funlift ⟨L, L1, ⟨h, b, hd⟩, hnrR, D1, D2, D3, D4⟩ ih (hPd d List.mem_cons_self)
        (fun q hq => (hole_rest_out q hq).1)
      refine r.mono_hole ?_ hkout
      rintro q (hq | ⟨ha, hm⟩)
      · exact conv q hq
      · exact ⟨d, List.mem_cons_self, ha, hm⟩

end UtreexoVerif.Proofs.MapFullUndoChain

section Axioms
open UtreexoVerif.Proofs.MapFullUndoChain
#print axioms funremove_chain
end Axioms
