/-
  The specification forest as a placed forest (`ofForest`), leaf hygiene (`Hyg`), and the laws
  of its node list.
-/
import UtreexoVerif.Proofs.MapLiftCore
import UtreexoVerif.Proofs.CalcComplete

namespace UtreexoVerif.Proofs.PForestSpec
open UtreexoVerif Model Spec Spec.Forest Proofs MapInv MapPrune MapRep MapLiftGeo PForest MapAInv Hasher SpecNodes
set_option linter.unusedSectionVars false

variable {H : Type} [DecidableEq H] [Hasher H]

/-- the specification forest as a placed forest -/
def ofForest (F : Forest H) : PF H := F.trees.map fun p => (rootPos F.numLeaves p.1, p.2)

/-- leaf hygiene of a specification forest: live leaves are distinct, non-zero, and no leaf hash
is a parent hash -/
structure Hyg (F : Forest H) : Prop where
  nodup : F.liveLeaves.Nodup
  nz : ∀ x ∈ F.liveLeaves, x ≠ (zero : H)
  nph : ∀ x ∈ F.liveLeaves, ∀ a b : H, x ≠ ph a b

/-- the root predicate of a specification forest -/
def FRoot (F : Forest H) (q : Pos) : Prop := isRootPos F.numLeaves q = true

theorem nodes_ofForest (F : Forest H) : PForest.nodes (ofForest F) = F.nodes := by
  unfold PForest.nodes ofForest Forest.nodes
  rw [List.flatMap_map]
  rfl

theorem leaves_ofForest (F : Forest H) (hn : F.numLeaves < 2 ^ 64) : leaves (ofForest F) = F.liveLeaves := by
  unfold leaves ofForest
  rw [List.flatMap_map]
  exact trees_leaves F hn

theorem mem_ofForest {F : Forest H} {e : Pos × Option (CTree H)} :
    e ∈ ofForest F ↔ ∃ h, h ∈ treeRows F.numLeaves ∧
      e = (rootPos F.numLeaves h, collapse h ((F.slots.drop (treeStart F.numLeaves h)).take (2 ^ h))) := by
  unfold ofForest Forest.trees
  rw [List.map_map]
  simp only [List.mem_map, Function.comp]
  constructor
  · rintro ⟨h, hh, rfl⟩; exact ⟨h, hh, rfl⟩
  · rintro ⟨h, hh, rfl⟩; exact ⟨h, hh, rfl⟩

theorem isRoot_ofForest (F : Forest H) (hn : F.numLeaves < 2 ^ 64) (q : Pos) :
    IsRoot (ofForest F) q ↔ isRootPos F.numLeaves q = true := by
  unfold IsRoot
  constructor
  · rintro ⟨e, he, rfl⟩
    obtain ⟨h, hh, rfl⟩ := mem_ofForest.1 he
    exact isRootPos_rootPos (mem_treeRows.1 hh).2
  · intro hr
    obtain ⟨hb, hq⟩ := eq_rootPos_of_isRootPos hr
    have h64 : q.1 ≤ 64 := by have := testBit_lt_of_lt hn hb; omega
    exact ⟨_, mem_ofForest.2 ⟨q.1, mem_treeRows.2 ⟨h64, hb⟩, rfl⟩, hq.symm⟩

theorem ok_ofForest (F : Forest H) (hn : F.numLeaves < 2 ^ 64) (hy : Hyg F) : OK (ofForest F) := by
  refine { depth := ?_, pw := ?_, nodup := ?_, nz := ?_, nph := ?_ }
  · intro e he t ht
    obtain ⟨h, hh, rfl⟩ := mem_ofForest.1 he
    exact collapse_depth _ _ _ ht
  · unfold ofForest Forest.trees
    rw [List.map_map, List.pairwise_map]
    refine (CalcComplete.treeRows_sorted F.numLeaves).imp_of_mem ?_
    intro a b ha hb hab q ⟨h1, h2⟩
    simp only [Function.comp] at h1 h2
    exact under_disjoint hab (mem_treeRows.1 ha).2 (MapProve.anc_iff_under.1 h1) (MapProve.anc_iff_under.1 h2)
  · rw [leaves_ofForest F hn]; exact hy.nodup
  · rw [leaves_ofForest F hn]; exact hy.nz
  · rw [leaves_ofForest F hn]; exact hy.nph

/-- the laws of the node list of a specification forest -/
theorem laws_forest (nz : NZ H) (F : Forest H) (hn : F.numLeaves < 2 ^ 64) (hy : Hyg F) :
    Laws F.nodes (FRoot F) := by
  have := laws_of_ok nz (ok_ofForest F hn hy)
  rw [nodes_ofForest] at this
  have e : IsRoot (ofForest F) = FRoot F := by
    funext q; exact propext (isRoot_ofForest F hn q)
  rw [e] at this
  exact this

/-- `posOf` is membership of a leaf entry -/
theorem posOf_iff (F : Forest H) (hn : F.numLeaves < 2 ^ 64) (hy : Hyg F) (nz : NZ H) {x : H} {t : Pos} :
    F.posOf x = some t ↔ (t, x, true) ∈ F.nodes := by
  constructor
  · exact posOf_mem
  · intro hm
    unfold Forest.posOf
    cases hf : F.nodes.find? (fun e => e.2.2 && e.2.1 == x) with
    | none =>
      have := List.find?_eq_none.1 hf _ hm
      simp at this
    | some e =>
      have hp := List.find?_some hf
      have hmem := List.mem_of_find?_eq_some hf
      simp only [Bool.and_eq_true, beq_iff_eq] at hp
      obtain ⟨⟨a, b⟩, c, d⟩ := e
      simp only at hp
      obtain ⟨hd, hc⟩ := hp
      subst hd hc
      have := (laws_forest nz F hn hy).leaf_hash t c (a, b) true hm hmem
      simp only [Option.map_some, Option.some.injEq]
      exact this

end UtreexoVerif.Proofs.PForestSpec
