/-
  Pointer forest, heap model: `deleteRoot` on a represented root: the root becomes an empty
  root (`data = empty`, chopped), everything below it garbage.
-/
import UtreexoVerif.Proofs.PollardHeapDelPos
set_option linter.unusedSectionVars false
set_option linter.unusedVariables false
set_option linter.unusedSimpArgs false

namespace UtreexoVerif.Proofs.PollardHeap
open UtreexoVerif UtreexoVerif.GoInt UtreexoVerif.Model UtreexoVerif.Model.PollardHeap UtreexoVerif.Spec Hasher
open UtreexoVerif.Model.PollardAbs

variable {H : Type} [DecidableEq H] [Hasher H]

theorem delNode_none (s : Pollard H) : delNode (none : Ptr) s = (.ok (), s) := rfl

theorem deleteRoot_tree {hp : Heap H} {nm : List (H × Nat)} {rs : List Nat} {nl ndl : U64}
    {full : Bool} {r : Nat} {t : CTree H} {fp : List Nat} {lv : List (H × Nat)}
    (hR : RootRepr hp r t fp lv) (nd : (r :: fp).Nodup) (del : U64) (tree bl : U8) (bits : U64)
    (hdo : DetectOffset del nl = (tree, bl, bits, false))
    (hle : ¬ tree > ofInt 8 ((rs.length : Int) - 1))
    (hroot : rs[tree.toNat]? = some r) :
    ∃ hp', deleteRoot del ⟨hp, nm, rs, nl, ndl, full⟩ =
        (.ok (), ⟨hp', mapDel nm t.hash, rs, nl, ndl, full⟩) ∧
      EmptyRoot hp' r ∧ (∀ j, j ∉ r :: fp → hp'[j]? = hp[j]?) ∧ hp'.size = hp.size := by
  obtain ⟨⟨rn, hr, ar⟩, hs⟩ := hR
  have hdata : rn.data = t.hash := by
    obtain ⟨z, ez, dz⟩ := hs.hash; rw [hr] at ez; cases ez; exact dz
  cases hs with
  | leaf h1 h2 h3 h4 h5 =>
    rw [hr] at h1 h3; cases h1; cases h3
    refine ⟨(((hp.modify r (fun x => { x with lNiece := none })).modify r
      (fun x => { x with rNiece := none })).modify r (fun x => { x with aunt := none })).modify r
      (fun x => { x with data := zero }), ?_, ?_, ?_, by simp⟩
    · unfold deleteRoot chop
      simp only [bind_apply, getNumLeaves_apply, getRoots_apply, hdo, Bool.false_eq_true, if_false,
        hle, hroot, node_apply, hr, nodeMapDel_apply, h4, h5, pure_apply, deref_some, delNode_none,
        setNode_apply, hdata]
    · refine ⟨{ rn with lNiece := none, rNiece := none, aunt := none, data := zero }, ?_, rfl, rfl, rfl, rfl⟩
      simp [Array.getElem?_modify, hr]
    · intro j hj
      simp only [List.mem_cons, List.not_mem_nil, or_false] at hj
      simp [Array.getElem?_modify, Ne.symm hj]
  | node h1 h2 h3 h4 h5 h6 h7 h8 h9 sa sb =>
    rename_i l r' nn hn0 ln rn' a b fa fb la lb
    rw [hr] at h1 h3; cases h1; cases h3
    have ndx := nd
    simp only [List.nodup_cons, List.mem_cons, List.mem_append, not_or, List.nodup_append] at ndx
    obtain ⟨⟨nrl, nrr, nrfa, nrfb⟩, ⟨nlr, nlfa, nlfb⟩, ⟨nr'fa, nr'fb⟩, ndfa, ndfb, dab⟩ := ndx
    have kln : ∀ j, isKid ln j → j ∈ fb := fun j k => sb.kid_mem h6 k
    have krn : ∀ j, isKid rn' j → j ∈ fa := fun j k => sa.kid_mem h7 k
    obtain ⟨g1, g1_def⟩ : ∃ g1, g1 = hp.modify l (fun x => { x with aunt := none }) := ⟨_, rfl⟩
    obtain ⟨g2, g2_def⟩ : ∃ g2, g2 = g1.modify r' (fun x => { x with aunt := none }) := ⟨_, rfl⟩
    have e2 : ∀ j, g2[j]? = if j = l then some { ln with aunt := none }
        else if j = r' then some { rn' with aunt := none } else hp[j]? := by
      intro j
      rw [g2_def, g1_def]
      simp only [Array.getElem?_modify]
      by_cases c1 : j = l
      · subst c1; simp [nlr, Ne.symm nlr, h6]
      · by_cases c2 : j = r'
        · subst c2; simp [c1, Ne.symm c1, h7]
        · simp [c1, c2, Ne.symm c1, Ne.symm c2]
    have hr1 : g1[r]? = some rn := by
      rw [g1_def, Array.getElem?_modify, if_neg (Ne.symm nrl)]; exact hr
    have hr2 : g2[r]? = some rn := by rw [e2, if_neg nrl, if_neg nrr]; exact hr
    have hl2 : g2[l]? = some { ln with aunt := none } := by rw [e2, if_pos rfl]
    obtain ⟨g3, g3_def⟩ : ∃ g3, g3 = dnHeap g2 l { ln with aunt := none } := ⟨_, rfl⟩
    have x3 : ∀ nm', delNode (some l) ⟨g2, nm', rs, nl, ndl, full⟩ =
        (.ok (), ⟨g3, nm', rs, nl, ndl, full⟩) := by
      intro nm'
      have := delNode_exec (⟨g2, nm', rs, nl, ndl, full⟩ : Pollard H) l _ hl2
        (by intro a ha; cases ha)
        (by
          intro k
          have : isKid ln l := k
          exact nlfb (kln l this))
      rw [← g3_def] at this
      exact this
    have e3 : ∀ j, j ≠ l → ¬ isKid ln j → g3[j]? = g2[j]? := by
      intro j c1 c2; rw [g3_def]; exact getElem?_dnHeap_frame g2 l _ j c1 c2
    have hr3 : g3[r]? = some rn := by
      rw [e3 r nrl (fun k => nrfb (kln r k))]; exact hr2
    have hr'3 : g3[r']? = some { rn' with aunt := none } := by
      rw [e3 r' (Ne.symm nlr) (fun k => nr'fb (kln r' k)), e2, if_neg (Ne.symm nlr), if_pos rfl]
    obtain ⟨g4, g4_def⟩ : ∃ g4, g4 = dnHeap g3 r' { rn' with aunt := none } := ⟨_, rfl⟩
    have x4 : ∀ nm', delNode (some r') ⟨g3, nm', rs, nl, ndl, full⟩ =
        (.ok (), ⟨g4, nm', rs, nl, ndl, full⟩) := by
      intro nm'
      have := delNode_exec (⟨g3, nm', rs, nl, ndl, full⟩ : Pollard H) r' _ hr'3
        (by intro a ha; cases ha)
        (by
          intro k
          have : isKid rn' r' := k
          exact nr'fa (krn r' this))
      rw [← g4_def] at this
      exact this
    have e4 : ∀ j, j ≠ r' → ¬ isKid rn' j → g4[j]? = g3[j]? := by
      intro j c1 c2; rw [g4_def]; exact getElem?_dnHeap_frame g3 r' _ j c1 c2
    have hr4 : g4[r]? = some rn := by
      rw [e4 r nrr (fun k => nrfa (krn r k))]; exact hr3
    refine ⟨(((g4.modify r (fun x => { x with lNiece := none })).modify r
      (fun x => { x with rNiece := none })).modify r (fun x => { x with aunt := none })).modify r
      (fun x => { x with data := zero }), ?_, ?_, ?_, ?_⟩
    · unfold deleteRoot chop
      simp only [bind_apply, getNumLeaves_apply, getRoots_apply, hdo, Bool.false_eq_true, if_false,
        hle, hroot, node_apply, hr, nodeMapDel_apply, h4, h5, setNode_apply, ← g1_def, hr1,
        ← g2_def, deref_some, hr2]
      rw [x3]
      simp only [hr3, h5]
      rw [x4]
      simp only [setNode_apply, hdata]
    · refine ⟨{ rn with lNiece := none, rNiece := none, aunt := none, data := zero }, ?_, rfl, rfl, rfl, rfl⟩
      simp [Array.getElem?_modify, hr4]
    · intro j hj
      simp only [List.mem_cons, List.mem_append, not_or] at hj
      obtain ⟨j1, j2, j3, j4, j5⟩ := hj
      simp only [Array.getElem?_modify, if_neg (Ne.symm j1)]
      rw [e4 j j3 (fun k => j4 (krn j k)), e3 j j2 (fun k => j5 (kln j k)), e2, if_neg j2, if_neg j3]
    · simp only [Array.size_modify]
      rw [g4_def, size_dnHeap, g3_def, size_dnHeap, g2_def, g1_def]; simp

end UtreexoVerif.Proofs.PollardHeap
