/-
  `MapPollard.getWrittenOverEmptyRoots` (the first half of `undoAdd`): which empty roots of the
  forest after the deletion the additions of the block overwrote.
-/
import UtreexoVerif.Proofs.PForestDel
import UtreexoVerif.Proofs.MapDeTwin
import UtreexoVerif.Proofs.StumpAddPos
import UtreexoVerif.Props.C11
open UtreexoVerif Model Spec Spec.Forest Proofs MapAL MapInv MapPrune MapRep PForestSpec Hasher
open Proofs.FinalPos

namespace UtreexoVerif.Proofs.MapUndoRoots
set_option linter.unusedSectionVars false
variable {H : Type} [DecidableEq H] [Hasher H]

/-- the tree on row `h` of `G` is an empty root -/
def DeadTree (G : Forest H) (h : Nat) : Prop := (rootPos G.numLeaves h, (zero : H), false) ∈ G.nodes

/-! ### the folds of `getRootsAfterDel` -/

/-- the inner loop body of `getRootsAfterDel` -/
def zeroStep (d : U64) (prevRoots : List H) (e : U64 × Nat) : Out (List H) :=
  if d = e.1 then (if e.2 < prevRoots.length then Out.ok (prevRoots.set e.2 zero) else Out.panic)
  else Out.ok prevRoots

theorem inner_fold (d : U64) : ∀ (rps : List U64) (pre cur : List H), cur.length = rps.length →
    (rps.zipIdx pre.length).foldlM (zeroStep d) (pre ++ cur) =
      Out.ok (pre ++ List.zipWith (fun r rp => if d = rp then (zero : H) else r) cur rps)
  | [], pre, cur, hl => by
    have : cur = [] := List.eq_nil_of_length_eq_zero hl
    subst this
    rfl
  | rp :: rps, pre, [], hl => by simp at hl
  | rp :: rps, pre, c :: cur, hl => by
    rw [List.zipIdx_cons, List.foldlM_cons]
    have hstep : zeroStep d (pre ++ c :: cur) (rp, pre.length) =
        Out.ok ((pre ++ [if d = rp then (zero : H) else c]) ++ cur) := by
      unfold zeroStep
      by_cases hd : d = rp
      · simp only [hd, if_true]
        rw [if_pos (by simp)]
        simp
      · simp only [hd, if_false]
        simp
    rw [hstep]
    show (rps.zipIdx (pre.length + 1)).foldlM (zeroStep d) _ = _
    have hlen : pre.length + 1 = (pre ++ [if d = rp then (zero : H) else c]).length := by simp
    rw [hlen, inner_fold d rps _ cur (by simpa using hl)]
    simp

theorem outer_fold (rps : List U64) : ∀ (ds : List U64) (roots : List H), roots.length = rps.length →
    ds.foldlM (fun prevRoots d => (rps.zipIdx).foldlM (zeroStep d) prevRoots) roots =
      Out.ok (List.zipWith (fun r rp => if rp ∈ ds then (zero : H) else r) roots rps)
  | [], roots, hl => by
    simp only [List.foldlM_nil, List.not_mem_nil, if_false]
    show Out.ok roots = _
    congr 1
    apply List.ext_getElem
    · simp [hl]
    · intro i h1 h2; simp
  | d :: ds, roots, hl => by
    rw [List.foldlM_cons]
    have := inner_fold d rps [] roots hl
    simp only [List.length_nil, List.nil_append] at this
    rw [this]
    show ds.foldlM _ _ = _
    rw [outer_fold rps ds _ (by simp [hl])]
    congr 1
    apply List.ext_getElem
    · simp
    · intro i h1 h2
      have hi : i < rps.length := by simp at h2; omega
      simp only [List.getElem_zipWith, List.mem_cons]
      by_cases h : rps[i] ∈ ds
      · simp [h]
      · by_cases h' : d = rps[i]
        · simp [h']
        · have : ¬ rps[i] = d := fun e => h' e.symm
          simp [h, h', this]

/-- `getRootsAfterDel` on lists indexed by a common list `l`: the root of `a` is zeroed exactly
when its position is one of the detwinned targets -/
theorem getRootsAfterDel_eq {α : Type} (m : MapPollard H) (numAdds : U64) (targets : List U64)
    (l : List α) (f : α → H) (g : α → U64) :
    MapPollard.getRootsAfterDel m numAdds targets (l.map g) (l.map f) =
      Out.ok (l.map (fun a => if g a ∈ deTwin (translatePositions (sortU64 targets)
        (TreeRows (m.numLeaves - numAdds)) m.totalRows) m.totalRows then (zero : H) else f a)) := by
  unfold MapPollard.getRootsAfterDel
  have := outer_fold (H := H) (l.map g) (deTwin (translatePositions (sortU64 targets)
        (TreeRows (m.numLeaves - numAdds)) m.totalRows) m.totalRows) (l.map f) (by simp)
  rw [List.zipWith_map, List.zipWith_self] at this
  exact this

/-! ### the final fold of `getWrittenOverEmptyRoots` -/

/-- the loop body -/
def collectStep (D rps : List U64) (acc : List U64) (e : H × Nat) : Out (List U64) :=
  if e.1 = zero then
    if D.isEmpty then Out.ok acc
    else match rps[e.2]? with
      | some rp => Out.ok (acc ++ (D.filter (· = rp)))
      | none => Out.panic
  else Out.ok acc

theorem collect_fold {α : Type} (D : List U64) (f : α → H) (g : α → U64) :
    ∀ (suf pre : List α) (acc : List U64),
      ((suf.map f).zipIdx pre.length).foldlM (collectStep D ((pre ++ suf).map g)) acc =
        Out.ok (acc ++ suf.flatMap (fun a => if f a = zero then D.filter (· = g a) else []))
  | [], pre, acc => by simp; rfl
  | a :: suf, pre, acc => by
    rw [List.map_cons, List.zipIdx_cons, List.foldlM_cons]
    have hstep : collectStep D ((pre ++ a :: suf).map g) acc (f a, pre.length) =
        Out.ok (acc ++ (if f a = zero then D.filter (· = g a) else [])) := by
      unfold collectStep
      by_cases hz : f a = zero
      · simp only [hz, if_true]
        have hg : ((pre ++ a :: suf).map g)[pre.length]? = some (g a) := by
          rw [List.map_append, List.getElem?_append_right (by simp)]
          simp
        rw [hg]
        cases D with
        | nil => simp
        | cons x D => simp
      · simp only [hz, if_false]
        simp
    rw [hstep]
    show ((suf.map f).zipIdx (pre.length + 1)).foldlM _ _ = _
    have hlen : pre.length + 1 = (pre ++ [a]).length := by simp
    have hpre : pre ++ a :: suf = (pre ++ [a]) ++ suf := by simp
    rw [hlen, hpre, collect_fold D f g suf (pre ++ [a])]
    simp


/-! ### when is a root position a detwinned target -/

theorem anc_child {q : Pos} (h1 : 1 ≤ q.1) {b : Nat} (hb : b < 2) : Anc q (q.1 - 1, 2 * q.2 + b) := by
  refine ⟨by show q.1 - 1 ≤ q.1; omega, ?_⟩
  show q.2 = (2 * q.2 + b) / 2 ^ (q.1 - (q.1 - 1))
  have : q.1 - (q.1 - 1) = 1 := by omega
  rw [this]
  omega

theorem parent_child {q : Pos} (h1 : 1 ≤ q.1) {b : Nat} (hb : b < 2) : parent (q.1 - 1, 2 * q.2 + b) = q := by
  unfold parent
  apply Prod.ext
  · show q.1 - 1 + 1 = q.1; omega
  · show (2 * q.2 + b) / 2 = q.2; omega

/-- a node with a non-zero hash all of whose leaves are deleted lies below (or is) a target, if no
two targets are siblings -/
theorem covered_of_all_deleted {N : List (Pos × H × Bool)} {R : Pos → Prop} (Lw : PForest.Laws N R)
    {L : List H} {ds : List Pos}
    (cover : ∀ x ∈ L, ∃ d ∈ ds, ∃ t, (t, x, true) ∈ N ∧ Anc d t)
    (nosib : ∀ a ∈ ds, sib a ∉ ds) :
    ∀ (r : Nat) (q : Pos) (h : H) (b : Bool), q.1 ≤ r → (q, h, b) ∈ N → h ≠ zero →
      (∀ t x, (t, x, true) ∈ N → Anc q t → x ∈ L) → ∃ d ∈ ds, Anc d q := by
  intro r
  induction r with
  | zero =>
    intro q h b hr hq hz hall
    cases b with
    | true =>
      obtain ⟨d, hd, t, ht, hdt⟩ := cover h (hall q h hq (Anc.refl q))
      have := Lw.leaf_hash t h q true ht hq
      subst this
      exact ⟨d, hd, hdt⟩
    | false =>
      have := (Lw.inner_hash q h hq hz).1
      omega
  | succ r ih =>
    intro q h b hr hq hz hall
    cases b with
    | true =>
      obtain ⟨d, hd, t, ht, hdt⟩ := cover h (hall q h hq (Anc.refl q))
      have := Lw.leaf_hash t h q true ht hq
      subst this
      exact ⟨d, hd, hdt⟩
    | false =>
      obtain ⟨h1, a, c, fa, fc, ha, hc, _⟩ := Lw.inner_hash q h hq hz
      have anc0 : Anc q (q.1 - 1, 2 * q.2) := by simpa using anc_child h1 (b := 0) (by decide)
      have anc1 : Anc q (q.1 - 1, 2 * q.2 + 1) := anc_child h1 (b := 1) (by decide)
      have par0 : parent (q.1 - 1, 2 * q.2) = q := by simpa using parent_child h1 (b := 0) (by decide)
      have par1 : parent (q.1 - 1, 2 * q.2 + 1) = q := parent_child h1 (b := 1) (by decide)
      have nr0 := Lw.not_root_of_sunder hq ha ⟨anc0, by show q.1 - 1 < q.1; omega⟩
      have nr1 := Lw.not_root_of_sunder hq hc ⟨anc1, by show q.1 - 1 < q.1; omega⟩
      obtain ⟨d0, hd0, hd0a⟩ := ih _ a fa (by show q.1 - 1 ≤ r; omega) ha (Lw.nonzero_of_nonroot ha nr0)
        (fun t x ht hat => hall t x ht (MapLiftGeo.Anc.trans anc0 hat))
      obtain ⟨d1, hd1, hd1a⟩ := ih _ c fc (by show q.1 - 1 ≤ r; omega) hc (Lw.nonzero_of_nonroot hc nr1)
        (fun t x ht hat => hall t x ht (MapLiftGeo.Anc.trans anc1 hat))
      by_cases e0 : (q.1 - 1 : Nat) < d0.1
      · refine ⟨d0, hd0, ?_⟩
        have := (MapLiftGeo.anc_parentR_iff (q := d0) (t := (q.1 - 1, 2 * q.2))).2 ⟨hd0a, e0⟩
        rwa [par0] at this
      · by_cases e1 : (q.1 - 1 : Nat) < d1.1
        · refine ⟨d1, hd1, ?_⟩
          have := (MapLiftGeo.anc_parentR_iff (q := d1) (t := (q.1 - 1, 2 * q.2 + 1))).2 ⟨hd1a, e1⟩
          rwa [par1] at this
        · exfalso
          have r0 := hd0a.1
          have r1 := hd1a.1
          have q0 : d0 = (q.1 - 1, 2 * q.2) := hd0a.eq_of_row (by show d0.1 = q.1 - 1; simp at r0; omega)
          have q1 : d1 = (q.1 - 1, 2 * q.2 + 1) := hd1a.eq_of_row (by show d1.1 = q.1 - 1; simp at r1; omega)
          apply nosib d0 hd0
          have : sib d0 = d1 := by
            rw [q0, q1]
            unfold sib
            simp
          rw [this]; exact hd1


/-! ### empty roots of a specification forest -/

theorem treeRoot_some {F : Forest H} {h : Nat} {t : CTree H} (ht : treeOf F h = some t) :
    SpecNodes.treeRoot F h = t.hash := by
  rw [treeRoot_def, ht]; rfl

theorem treeRoot_none {F : Forest H} {h : Nat} (ht : treeOf F h = none) :
    SpecNodes.treeRoot F h = zero := by
  rw [treeRoot_def, ht]; rfl

theorem tree_hash_ne_zero (nz : NZ H) {F : Forest H} (hy : Hyg F) {h : Nat} {t : CTree H}
    (ht : treeOf F h = some t) : t.hash ≠ zero :=
  CTree.hash_ne_zero nz.nonzero t (fun x hx => hy.nz x (treeOf_leaves_live ht x hx))

theorem treeRoot_eq_zero_iff (nz : NZ H) {F : Forest H} (hy : Hyg F) (h : Nat) :
    SpecNodes.treeRoot F h = zero ↔ treeOf F h = none := by
  cases ht : treeOf F h with
  | none => simp [treeRoot_none ht]
  | some t =>
    rw [treeRoot_some ht]
    simp only [reduceCtorEq, iff_false]
    exact tree_hash_ne_zero nz hy ht

theorem rootNode_mem_nodes (F : Forest H) {h : Nat} (hh : h ∈ treeRows F.numLeaves) :
    ∃ b, (rootPos F.numLeaves h, SpecNodes.treeRoot F h, b) ∈ F.nodes := by
  obtain ⟨b, hb⟩ := SpecNodes.rootNode_mem F h
  exact ⟨b, SpecNodes.mem_nodes.2 ⟨h, ⟨(mem_treeRows.1 hh).2, hh⟩, hb⟩⟩

/-- `DeadTree` = the collapsed tree on that row is empty -/
theorem deadTree_iff (nz : NZ H) {G : Forest H} (hy : Hyg G) {h : Nat} (hh : h ∈ treeRows G.numLeaves) :
    DeadTree G h ↔ treeOf G h = none := by
  constructor
  · intro hd
    obtain ⟨b, hb⟩ := rootNode_mem_nodes G hh
    have := SpecNodes.nodes_functional G _ hd _ hb rfl
    have hz : SpecNodes.treeRoot G h = zero := by
      have := congrArg (fun e => e.2.1) this
      exact this.symm
    exact (treeRoot_eq_zero_iff nz hy h).1 hz
  · intro hn
    unfold DeadTree
    refine SpecNodes.mem_nodes.2 ⟨h, ⟨(mem_treeRows.1 hh).2, hh⟩, ?_⟩
    rw [treeNodes_none hn]
    simp

/-- the root position of a non-empty tree is a detwinned target iff all its leaves are deleted -/
theorem rootPos_mem_iff (nz : NZ H) (F : Forest H) (hn : F.numLeaves < 2 ^ 64) (hy : Hyg F)
    {L : List H} {ds : List Pos} (dt : MapDeTwin.DT F L ds) (nosib : ∀ a ∈ ds, sib a ∉ ds)
    {h : Nat} (hh : h ∈ treeRows F.numLeaves) {t : CTree H} (ht : treeOf F h = some t) :
    rootPos F.numLeaves h ∈ ds ↔ ∀ x ∈ t.leaves, x ∈ L := by
  have Lw := laws_forest nz F hn hy
  have hb := (mem_treeRows.1 hh).2
  constructor
  · intro hd x hx
    obtain ⟨p, hp⟩ := leaf_mem_nodes t h (rootPos F.numLeaves h).2 x hx
    rw [← treeNodes_some ht] at hp
    have hu := SpecNodes.treeNodes_under F h _ hp
    have hm : (p, x, true) ∈ F.nodes := SpecNodes.mem_nodes.2 ⟨h, ⟨hb, hh⟩, hp⟩
    exact dt.sub _ hd p x hm (MapProve.anc_iff_under.2 hu)
  · intro hall
    obtain ⟨b, hbm⟩ := rootNode_mem_nodes F hh
    rw [treeRoot_some ht] at hbm
    obtain ⟨d, hd, hda⟩ := covered_of_all_deleted Lw dt.cover nosib _ _ _ _ (Nat.le_refl _) hbm
      (tree_hash_ne_zero nz hy ht) (by
        intro p x hp hanc
        have := mem_treeNodes_of_under hb hp (MapProve.anc_iff_under.1 hanc)
        rw [treeNodes_some ht] at this
        exact hall x (SpecNodes.nodes_leaf_mem t _ _ _ this rfl))
    obtain ⟨hd', b', hdm⟩ := dt.node d hd
    obtain ⟨ρ', hρ', hanc'⟩ := Lw.under_root d hd' b' hdm
    have hroot : FRoot F (rootPos F.numLeaves h) := MapInv.isRootPos_rootPos hb
    have := Lw.root_disj _ _ (rootPos F.numLeaves h) hroot hρ' (Anc.refl _) (MapLiftGeo.Anc.trans hanc' hda)
    subst this
    have := MapLiftGeo.Anc.antisymm hda hanc'
    rw [← this]; exact hd

/-- the zero pattern of the roots after the deletion -/
theorem dead_iff (nz : NZ H) (F : Forest H) (hn : F.numLeaves < 2 ^ 64) (hy : Hyg F)
    {L : List H} {ds : List Pos} (dt : MapDeTwin.DT F L ds) (nosib : ∀ a ∈ ds, sib a ∉ ds)
    {h : Nat} (hh : h ∈ treeRows F.numLeaves) :
    (rootPos F.numLeaves h ∈ ds ∨ SpecNodes.treeRoot F h = zero) ↔ DeadTree (F.delLeaves L) h := by
  rw [deadTree_iff nz (PForestDel.hyg_delLeaves hy L) (by rw [numLeaves_delLeaves]; exact hh),
    treeOf_delLeaves, treeRoot_eq_zero_iff nz hy]
  cases ht : treeOf F h with
  | none => simp [pruneO]
  | some t =>
    rw [rootPos_mem_iff nz F hn hy dt nosib hh ht]
    simp only [reduceCtorEq, or_false]
    show _ ↔ prune L t = none
    rw [prune_eq_none_iff]


/-! ### small list lemmas -/

theorem filter_map_eq_single {α : Type} [DecidableEq α] (g : α → U64) (a : α) :
    ∀ (L : List α), L.Nodup → (∀ b ∈ L, g b = g a → b = a) →
      (L.map g).filter (· = g a) = if a ∈ L then [g a] else []
  | [], _, _ => by simp
  | b :: L, hnd, hinj => by
    have ih := filter_map_eq_single g a L (List.nodup_cons.1 hnd).2
      (fun c hc => hinj c (List.mem_cons_of_mem _ hc))
    rw [List.map_cons, List.filter_cons]
    by_cases hb : g b = g a
    · have := hinj b (by simp) hb
      subst this
      have hnot : b ∉ L := (List.nodup_cons.1 hnd).1
      rw [if_pos (by simp), ih, if_neg hnot]
      simp
    · have hne : a ≠ b := fun e => hb (by rw [e])
      rw [if_neg (by simpa using hb), ih]
      simp [hne]

theorem flatMap_ite_eq {α : Type} (g : α → U64) (P : α → Prop) [DecidablePred P] :
    ∀ (l : List α), l.flatMap (fun a => if P a then [g a] else []) = (l.filter (fun a => decide (P a))).map g
  | [] => rfl
  | a :: l => by
    rw [List.flatMap_cons, flatMap_ite_eq g P l, List.filter_cons]
    by_cases h : P a <;> simp [h]

theorem flatMap_congr_mem {α β : Type} {g g' : α → List β} :
    ∀ (l : List α), (∀ a ∈ l, g a = g' a) → l.flatMap g = l.flatMap g'
  | [], _ => rfl
  | a :: l, h => by
    rw [List.flatMap_cons, List.flatMap_cons, h a (by simp),
      flatMap_congr_mem l (fun b hb => h b (List.mem_cons_of_mem _ hb))]

theorem ascFrom_nodup : ∀ {b : Nat} {L : List Nat}, AscFrom b L → L.Nodup
  | _, [], _ => List.nodup_nil
  | b, h :: t, hA => by
    refine List.nodup_cons.2 ⟨?_, ascFrom_nodup hA.2⟩
    intro hm
    have := AscFrom.ge hA.2 h hm
    omega


/-! ### the main theorem -/

/-- the root positions in `T` coordinates -/
def rp (T n : Nat) (h : Nat) : U64 := encP T (rootPos n h)

theorem rootPos_valid {F : Forest H} {T : Nat} (hrows : F.rows ≤ T) {h : Nat}
    (hh : h ∈ treeRows F.numLeaves) : ValidH T (rootPos F.numLeaves h) := by
  obtain ⟨b, hb⟩ := rootNode_mem_nodes F hh
  exact MapDeTwin.node_valid hrows ⟨_, _, hb⟩

theorem rp_inj {F : Forest H} {T : Nat} (hT : T ≤ 63) (hrows : F.rows ≤ T) {a b : Nat}
    (ha : a ∈ treeRows F.numLeaves) (hb : b ∈ treeRows F.numLeaves)
    (e : rp T F.numLeaves a = rp T F.numLeaves b) : a = b := by
  have := encP_inj hT (rootPos_valid hrows ha) (rootPos_valid hrows hb) e
  exact congrArg Prod.fst this

/-- the list handed to `deTwin` by `getRootsAfterDel` (translation unconditional) -/
theorem translated_sorted {F : Forest H} {ts : List Pos} (hts : ∀ p ∈ ts, MapDeTwin.IsNode F.nodes p)
    {T : Nat} (hT : T ≤ 63) (hrows : F.rows ≤ T) :
    translatePositions (sortU64 (ts.map (encP F.rows))) (H8 F.rows) (H8 T) = (sortPos ts).map (encP T) := by
  have hr63 : F.rows ≤ 63 := by omega
  rw [sortU64_encP hr63 ts (fun p hp => MapDeTwin.node_valid (Nat.le_refl _) (hts p hp))]
  unfold translatePositions
  rw [List.map_map]
  apply List.map_congr_left
  intro p hp
  have hp' := hts p (mem_sortPos.1 hp)
  have h1 : ValidH F.rows p := MapDeTwin.node_valid (Nat.le_refl _) hp'
  have h2 : ValidH T p := MapDeTwin.node_valid hrows hp'
  exact Props.C16.translatePos_enc hr63 h1.1 h1.2 hT h2.1 h2.2

/-- a root the additions reach is a proper position of any allocation with room for the result -/
theorem reach_valid {q h N R : Nat} (h1 : (q + 1) * 2 ^ (h + 1) ≤ N) (h2 : N ≤ 2 ^ R) :
    h ≤ R ∧ 2 * q < 2 ^ (R - h) := by
  have hp : 2 ^ (h + 1) ≤ 2 ^ R := by
    have : 1 * 2 ^ (h + 1) ≤ (q + 1) * 2 ^ (h + 1) := Nat.mul_le_mul_right _ (by omega)
    omega
  have hle : h + 1 ≤ R := (Nat.pow_le_pow_iff_right (by decide)).1 hp
  refine ⟨by omega, ?_⟩
  have e : 2 ^ R = 2 ^ (R - h - 1) * 2 ^ (h + 1) := by
    rw [← Nat.pow_add]; congr 1; omega
  have : q + 1 ≤ 2 ^ (R - h - 1) := by
    apply Nat.le_of_mul_le_mul_right (c := 2 ^ (h + 1)) _ (Nat.two_pow_pos _)
    omega
  have e2 : 2 ^ (R - h) = 2 * 2 ^ (R - h - 1) := by
    rw [← Nat.pow_succ']; congr 1; omega
  omega

/-- `getWrittenOverEmptyRoots` in terms of `collectStep` -/
theorem gwoer_unfold (nonZero : H) (m : MapPollard H) (numAdds : U64) (tg : List U64) (roots : List H) :
    MapPollard.getWrittenOverEmptyRoots nonZero m numAdds tg roots =
      (MapPollard.getRootsAfterDel m numAdds tg (RootPositions (m.numLeaves - numAdds) m.totalRows) roots).bind
        (fun prevRoots => (rootsToDestroy nonZero numAdds.toNat (m.numLeaves - numAdds) prevRoots).bind
          (fun destroyed => (prevRoots.zipIdx).foldlM
            (collectStep (if TreeRows m.numLeaves ≠ m.totalRows
              then translatePositions destroyed (TreeRows m.numLeaves) m.totalRows else destroyed)
              (RootPositions (m.numLeaves - numAdds) m.totalRows)) [])) := rfl

theorem gwoer_spec (nz : NZ H) {m : MapPollard H} {T : Nat} (hrows : m.totalRows = H8 T) (hT : T ≤ 63)
    (F : Forest H) (hy : Hyg F) {dels : List H} {ts : List Pos} {ps : List H} (hnd : dels.Nodup)
    (hc : F.canon dels = some (ts, ps)) (k : Nat)
    (hn : m.numLeaves = BitVec.ofNat 64 (F.numLeaves + k)) (hn63 : F.numLeaves + k < 2 ^ 63)
    (hfit : forestRows (F.numLeaves + k) ≤ T) (nonZero : H) (hnz : nonZero ≠ (zero : H)) :
    ∃ E : List Nat,
      MapPollard.getWrittenOverEmptyRoots nonZero m (BitVec.ofNat 64 k) (ts.map (encP F.rows)) F.roots =
        .ok (E.map (fun h => encP T (rootPos F.numLeaves h))) ∧
      E.Pairwise (fun a b => a > b) ∧
      ∀ h, h ∈ E ↔ (F.numLeaves.testBit h = true ∧ DeadTree (F.delLeaves dels) h ∧
        (F.numLeaves / 2 ^ (h + 1) + 1) * 2 ^ (h + 1) ≤ F.numLeaves + k) := by
  have hn63' : F.numLeaves < 2 ^ 63 := by omega
  have hn64 : F.numLeaves < 2 ^ 64 := by omega
  have hk64 : k < 2 ^ 64 := by omega
  have hRle : forestRows F.numLeaves ≤ forestRows (F.numLeaves + k) :=
    SpecView.forestRows_le (Nat.le_trans (Nat.le_add_right _ _) (SpecView.le_two_pow_forestRows _))
  have hFrows : F.rows ≤ T := Nat.le_trans hRle hfit
  have hsub : m.numLeaves - BitVec.ofNat 64 k = BitVec.ofNat 64 F.numLeaves := by
    rw [hn, BitVec.ofNat_add, BitVec.add_sub_cancel]
  have hkn : (BitVec.ofNat 64 k).toNat = k := by
    rw [BitVec.toNat_ofNat]; exact Nat.mod_eq_of_lt hk64
  have hnT : F.numLeaves ≤ 2 ^ T := by
    have h1 := SpecView.le_two_pow_forestRows (F.numLeaves + k)
    have h2 : 2 ^ forestRows (F.numLeaves + k) ≤ 2 ^ T := Nat.pow_le_pow_right (by decide) hfit
    omega
  -- the previous root positions
  have hrps : RootPositions (m.numLeaves - BitVec.ofNat 64 k) m.totalRows =
      (treeRows F.numLeaves).map (rp T F.numLeaves) := by
    rw [hsub, hrows, Props.C16.rootPositions_spec hT _ (by rw [BitVec.toNat_ofNat, Nat.mod_eq_of_lt hn64]; exact hnT),
      BitVec.toNat_ofNat, Nat.mod_eq_of_lt hn64]
    rfl
  -- the detwinned targets
  obtain ⟨ds, dt, _, _, nosib, dvalid, hdet⟩ := MapDeTwin.deTwin_spec_strong nz F hn63' hy hnd hc hT hFrows
  have I0 := MapDeTwin.zinv_start nz F hn64 hy hnd hc
  have hts : ∀ p ∈ ts, MapDeTwin.IsNode F.nodes p := fun p hp =>
    I0.node p (by rw [List.nil_append]; exact mem_sortPos.2 hp)
  rw [MapDeTwin.sorted_translated hts hT hFrows, ← translated_sorted hts hT hFrows] at hdet
  have hTRn : TreeRows (BitVec.ofNat 64 F.numLeaves) = H8 F.rows := Props.C11.treeRows_eq_H8 (by omega)
  -- the roots after the deletion
  let f : Nat → H := fun r =>
    if rp T F.numLeaves r ∈ ds.map (encP T) then (zero : H) else SpecNodes.treeRoot F r
  have hprev : MapPollard.getRootsAfterDel m (BitVec.ofNat 64 k) (ts.map (encP F.rows))
      ((treeRows F.numLeaves).map (rp T F.numLeaves)) F.roots = Out.ok ((treeRows F.numLeaves).map f) := by
    rw [SpecNodes.roots_eq, getRootsAfterDel_eq, hsub, hTRn, hrows, hdet]
  have hfz : ∀ r ∈ treeRows F.numLeaves, f r = zero ↔ DeadTree (F.delLeaves dels) r := by
    intro r hr
    rw [← dead_iff nz F hn64 hy dt nosib hr]
    have hmem : rp T F.numLeaves r ∈ ds.map (encP T) ↔ rootPos F.numLeaves r ∈ ds := by
      constructor
      · intro h
        obtain ⟨d, hd, e⟩ := List.mem_map.1 h
        have := encP_inj hT (dvalid d hd) (rootPos_valid hFrows hr) e
        rw [← this]; exact hd
      · intro h; exact List.mem_map.2 ⟨_, h, rfl⟩
    show (if _ then _ else _) = zero ↔ _
    by_cases hm : rp T F.numLeaves r ∈ ds.map (encP T)
    · rw [if_pos hm]; simp [hmem.1 hm]
    · rw [if_neg hm]; simp [mt hmem.2 hm]
  -- the destroyed roots
  let dead : Nat → Bool := fun h => @decide (DeadTree (F.delLeaves dels) h) (Classical.propDecidable _)
  have hzp : ((treeRows F.numLeaves).map f).map (fun r => decide (r = zero)) =
      (treeRows F.numLeaves).map dead := by
    rw [List.map_map]
    apply List.map_congr_left
    intro r hr
    show decide (f r = zero) = @decide (DeadTree (F.delLeaves dels) r) (Classical.propDecidable _)
    rw [decide_eq_decide]
    exact hfz r hr
  have hR63 : forestRows (F.numLeaves + k) ≤ 63 := SpecView.forestRows_le_63 hn63
  have hkR := SpecView.le_two_pow_forestRows (F.numLeaves + k)
  have hTR : TreeRows (BitVec.ofNat 64 F.numLeaves + BitVec.ofNat 64 k) = H8 (forestRows (F.numLeaves + k)) := by
    rw [← BitVec.ofNat_add]; exact Props.C11.treeRows_eq_H8 (by omega)
  obtain ⟨L, hL, hasc, hLmem⟩ := StumpAddPos.rootsToDestroy_exact Props.C11.posFacts hR63 nonZero hnz k
    F.numLeaves dead _ hkR hzp hTR
  rw [gwoer_unfold, hrps, hprev]
  simp only [Out.bind]
  rw [hkn, hsub, hL]
  simp only []
  -- the destroyed positions in `T` coordinates
  have hLtree : ∀ h ∈ L, h ∈ treeRows F.numLeaves := fun h hh =>
    CalcComplete.mem_treeRows hn64 ((hLmem h).1 hh).1
  have hdest : (if TreeRows m.numLeaves ≠ m.totalRows
      then translatePositions (L.map (fun h => encU (forestRows (F.numLeaves + k)) h (2 * (F.numLeaves / 2 ^ (h + 1)))))
        (TreeRows m.numLeaves) m.totalRows
      else L.map (fun h => encU (forestRows (F.numLeaves + k)) h (2 * (F.numLeaves / 2 ^ (h + 1))))) =
      L.map (rp T F.numLeaves) := by
    have hrpe : ∀ h, rp T F.numLeaves h = encU T h (2 * (F.numLeaves / 2 ^ (h + 1))) := by
      intro h
      unfold rp encP rootPos
      rw [Nat.shiftRight_eq_div_pow]
    rw [hn, Props.C11.treeRows_eq_H8 (by omega), hrows]
    by_cases e : forestRows (F.numLeaves + k) = T
    · rw [e, if_neg (fun h => h rfl)]
      apply List.map_congr_left
      intro h _
      rw [hrpe]
    · have hne : H8 (forestRows (F.numLeaves + k)) ≠ H8 T := by
        intro hc
        have := congrArg BitVec.toNat hc
        rw [toNat_H8 hT, toNat_H8 hR63] at this
        exact e this
      rw [if_pos hne]
      unfold translatePositions
      rw [List.map_map]
      apply List.map_congr_left
      intro h hh
      have hreach := ((hLmem h).1 hh).2.2
      have v1 := reach_valid hreach hkR
      have v2 := reach_valid hreach (Nat.le_trans hkR (Nat.pow_le_pow_right (by decide) hfit))
      rw [hrpe]
      exact Props.C16.translatePos_enc hR63 v1.1 v1.2 hT v2.1 v2.2
  rw [hdest]
  have hcf := collect_fold (L.map (rp T F.numLeaves)) f (rp T F.numLeaves) (treeRows F.numLeaves) [] []
  simp only [List.length_nil, List.nil_append] at hcf
  rw [hcf]
  have hflat : (treeRows F.numLeaves).flatMap (fun a =>
        if f a = zero then (L.map (rp T F.numLeaves)).filter (· = rp T F.numLeaves a) else []) =
      ((treeRows F.numLeaves).filter (fun a => decide (a ∈ L))).map (rp T F.numLeaves) := by
    rw [← flatMap_ite_eq]
    apply flatMap_congr_mem
    intro a ha
    rw [filter_map_eq_single (rp T F.numLeaves) a L (ascFrom_nodup hasc)
      (fun b hb e => rp_inj hT hFrows (hLtree b hb) ha e)]
    by_cases haL : a ∈ L
    · have hd : dead a = true := ((hLmem a).1 haL).2.1
      have : f a = zero := (hfz a ha).2 (by simpa [dead] using hd)
      rw [if_pos this]
    · rw [if_neg haL]; simp
  rw [hflat]
  refine ⟨(treeRows F.numLeaves).filter (fun a => decide (a ∈ L)), rfl,
    (CalcComplete.treeRows_sorted F.numLeaves).filter _, ?_⟩
  intro h
  rw [List.mem_filter, decide_eq_true_eq]
  constructor
  · rintro ⟨_, hL'⟩
    obtain ⟨h1, h2, h3⟩ := (hLmem h).1 hL'
    exact ⟨h1, by simpa [dead] using h2, h3⟩
  · rintro ⟨h1, h2, h3⟩
    have hL' : h ∈ L := (hLmem h).2 ⟨h1, by simpa [dead] using h2, h3⟩
    exact ⟨hLtree h hL', hL'⟩


/-! ### non-vacuity -/

namespace Example
open Props.C09.Example MapSInv.Example

/-- seven live leaves: trees on rows 2, 1, 0 -/
def F7 : Forest T := ⟨[some (.leaf 0), some (.leaf 1), some (.leaf 2), some (.leaf 3), some (.leaf 4),
  some (.leaf 5), some (.leaf 6)]⟩

theorem F7_live : ∀ x ∈ F7.liveLeaves, x = .leaf 0 ∨ x = .leaf 1 ∨ x = .leaf 2 ∨ x = .leaf 3 ∨
    x = .leaf 4 ∨ x = .leaf 5 ∨ x = .leaf 6 := by
  intro x hx
  simpa [F7, Forest.liveLeaves] using hx

theorem F7_hyg : Hyg F7 where
  nodup := by decide
  nz := by
    intro x hx
    rcases F7_live x hx with rfl | rfl | rfl | rfl | rfl | rfl | rfl <;>
      (simp only [Hasher.zero]; intro h; cases h)
  nph := by
    intro x hx a b
    rcases F7_live x hx with rfl | rfl | rfl | rfl | rfl | rfl | rfl <;>
      (simp only [Hasher.ph]; intro h; cases h)

/-- a state with 8 leaves allocated for `T'` rows (only `numLeaves` and `totalRows` are read) -/
def m8 (T' : Nat) : MapPollard T :=
  { nodes := [], cached := [], numLeaves := 8#64, totalRows := H8 T', full := false }

theorem F7_canon : F7.canon [T.leaf 5, T.leaf 6, T.leaf 4] = some ([(0, 5), (0, 6), (0, 4)], []) := by
  decide +kernel

/-- the hypotheses of `gwoer_spec` hold for "delete leaves 4, 5, 6 of `F7` (the trees on rows 1 and
0 become empty roots), then add one leaf", in the allocation `T = 3` … -/
example : ∃ E : List Nat,
    MapPollard.getWrittenOverEmptyRoots (T.leaf 99) (m8 3) (BitVec.ofNat 64 1)
      ([(0, 5), (0, 6), (0, 4)].map (encP F7.rows)) F7.roots =
        .ok (E.map (fun h => encP 3 (rootPos F7.numLeaves h))) ∧
    E.Pairwise (fun a b => a > b) ∧
    ∀ h, h ∈ E ↔ (F7.numLeaves.testBit h = true ∧ DeadTree (F7.delLeaves [T.leaf 5, T.leaf 6, T.leaf 4]) h ∧
      (F7.numLeaves / 2 ^ (h + 1) + 1) * 2 ^ (h + 1) ≤ F7.numLeaves + 1) :=
  gwoer_spec crT.toNZ (m := m8 3) (T := 3) rfl (by decide) F7 F7_hyg (by decide) F7_canon 1 rfl (by decide)
    (by decide) (T.leaf 99) (by decide)

/-- … and the value: TWO empty roots are overwritten, the root `(1, 2)` of the row-1 tree (position
10 of a 3-row forest) and the root `(0, 6)` of the row-0 tree, highest row first -/
example : MapPollard.getWrittenOverEmptyRoots (T.leaf 99) (m8 3) (BitVec.ofNat 64 1)
      ([(0, 5), (0, 6), (0, 4)].map (encP F7.rows)) F7.roots = .ok [10#64, 6#64] ∧
    [10#64, 6#64] = [1, 0].map (fun h => encP 3 (rootPos F7.numLeaves h)) := by decide +kernel

/-- the same block in the allocation `T = 63` (both translations are exercised) -/
example : ∃ E : List Nat,
    MapPollard.getWrittenOverEmptyRoots (T.leaf 99) (m8 63) (BitVec.ofNat 64 1)
      ([(0, 5), (0, 6), (0, 4)].map (encP F7.rows)) F7.roots =
        .ok (E.map (fun h => encP 63 (rootPos F7.numLeaves h))) ∧
    E.Pairwise (fun a b => a > b) ∧
    ∀ h, h ∈ E ↔ (F7.numLeaves.testBit h = true ∧ DeadTree (F7.delLeaves [T.leaf 5, T.leaf 6, T.leaf 4]) h ∧
      (F7.numLeaves / 2 ^ (h + 1) + 1) * 2 ^ (h + 1) ≤ F7.numLeaves + 1) :=
  gwoer_spec crT.toNZ (m := m8 63) (T := 63) rfl (by decide) F7 F7_hyg (by decide) F7_canon 1 rfl (by decide)
    (by decide) (T.leaf 99) (by decide)

example : MapPollard.getWrittenOverEmptyRoots (T.leaf 99) (m8 63) (BitVec.ofNat 64 1)
      ([(0, 5), (0, 6), (0, 4)].map (encP F7.rows)) F7.roots =
    .ok ([1, 0].map (fun h => encP 63 (rootPos F7.numLeaves h))) := by decide +kernel

/-- only the row-0 tree is deleted: the single addition overwrites just that empty root (the live
row-1 tree is merged, not overwritten) -/
example : MapPollard.getWrittenOverEmptyRoots (T.leaf 99) (m8 3) (BitVec.ofNat 64 1)
      ([(0, 6)].map (encP F7.rows)) F7.roots = .ok [6#64] := by decide +kernel

/-- the row-0 tree was ALREADY an empty root before the block (slot 6 dead); leaves 4 and 5 are
deleted; the addition again overwrites both empty roots -/
def F7d : Forest T := ⟨[some (.leaf 0), some (.leaf 1), some (.leaf 2), some (.leaf 3), some (.leaf 4),
  some (.leaf 5), none]⟩

example : F7d.canon [T.leaf 5, T.leaf 4] = some ([(0, 5), (0, 4)], []) ∧
    MapPollard.getWrittenOverEmptyRoots (T.leaf 99) (m8 3) (BitVec.ofNat 64 1)
      ([(0, 5), (0, 4)].map (encP F7d.rows)) F7d.roots = .ok [10#64, 6#64] := by decide +kernel

end Example

end UtreexoVerif.Proofs.MapUndoRoots

#print axioms UtreexoVerif.Proofs.MapUndoRoots.gwoer_spec
