/-
  The inverse of the deletion movement on (row, offset) pairs (property C08, level 2a).

  Forward (`Proofs/MoveFold.lean`): `moveA n R dt c` walks through the ascending list `dt` of the
  maximal fully-deleted subtrees and applies one `calcNextPosition` step (`liftStep`) whenever the
  parent of the deleted subtree is a strict ancestor of the current position.

  Backward (`proofUndoDel`): walk through `dt` in DESCENDING order; whenever the current position
  is the parent of the deleted subtree `T` or lies below it, apply `calcPrevPosition` (`prevStep`).

  `bwd_fwd`: one backward step undoes one forward step on every position `moveA n R ds p` whose
  origin `p` is neither the parent of `T` nor below `T` (`Good`).
-/
import UtreexoVerif.Proofs.MoveFold
import UtreexoVerif.Proofs.Geometry2
import UtreexoVerif.Proofs.CalcGeo

namespace UtreexoVerif.Proofs.ProofUndoMove
open UtreexoVerif Spec
open UtreexoVerif.Proofs UtreexoVerif.Proofs.FinalPos UtreexoVerif.Proofs.CalcComplete
open UtreexoVerif.Proofs.MoveFold UtreexoVerif.Proofs.CalcGeo

/-- `c` is the parent of `T` or lies below it: `isAncestor (Parent T) c || Parent T == c` -/
def atOrUnderP (T c : Pos) : Bool := decide (c.1 ≤ T.1 + 1 ∧ c.2 / 2 ^ (T.1 + 1 - c.1) = T.2 / 2)

/-- `c` is `T` or lies below it -/
def underT (T c : Pos) : Prop := c.1 ≤ T.1 ∧ c.2 / 2 ^ (T.1 - c.1) = T.2

/-- one `calcPrevPosition` step: one row down, the path bit pointing away from `T` re-inserted -/
def prevStep (c T : Pos) : Pos :=
  (c.1 - 1, addBitNat c.2 (T.1 - (c.1 - 1)) (decide (T.2 % 2 = 0)))

/-- the forward step for one deleted subtree -/
def fwdStep (n R : Nat) (T c : Pos) : Pos :=
  if inTree n R T && hitA T c then liftStep 0 c T.1 else c

/-- the backward step for one deleted subtree -/
def bwdStep (n R : Nat) (T c : Pos) : Pos :=
  if inTree n R T && atOrUnderP T c then prevStep c T else c

theorem moveA_append (n R : Nat) : ∀ (ds : List Pos) (T c : Pos),
    moveA n R (ds ++ [T]) c = fwdStep n R T (moveA n R ds c) := by
  intro ds
  induction ds with
  | nil => intro T c; simp [moveA, fwdStep]
  | cons T0 rest ih =>
    intro T c
    rw [List.cons_append]
    unfold moveA
    split <;> exact ih _ _

theorem atOrUnderP_iff {T c : Pos} :
    atOrUnderP T c = true ↔ hitA T c = true ∨ c = parent T := by
  unfold atOrUnderP hitA
  simp only [decide_eq_true_eq]
  constructor
  · rintro ⟨h1, h2⟩
    rcases Nat.lt_or_ge c.1 (T.1 + 1) with hlt | hge
    · exact Or.inl ⟨by omega, h2⟩
    · right
      have e : c.1 = T.1 + 1 := by omega
      rw [e, Nat.sub_self, Nat.pow_zero, Nat.div_one] at h2
      exact Prod.ext e h2
  · rintro (⟨h1, h2⟩ | rfl)
    · exact ⟨by omega, h2⟩
    · simp [parent]

theorem underT_hit {T c : Pos} (h : underT T c) : hitA T c = true := by
  obtain ⟨h1, h2⟩ := h
  unfold hitA
  simp only [decide_eq_true_eq]
  refine ⟨h1, ?_⟩
  rw [show T.1 + 1 - c.1 = (T.1 - c.1) + 1 by omega, Nat.pow_succ, ← Nat.div_div_eq_div_mul, h2]

/-- two deleted subtrees on the same row that hit the same position are equal or siblings -/
theorem hit_same_row {T0 T c : Pos} (h0 : hitA T0 c = true) (h : hitA T c = true)
    (hrow : T0.1 = T.1) : T0 = T ∨ T0 = sib T := by
  unfold hitA at h0 h
  simp only [decide_eq_true_eq] at h0 h
  have e : T0.2 / 2 = T.2 / 2 := by rw [← h0.2, ← h.2, hrow]
  by_cases h2 : T0.2 = T.2
  · exact Or.inl (Prod.ext hrow h2)
  · right
    apply Prod.ext
    · simp only [sib_fst]; exact hrow
    · simp only [sib_snd]; split <;> omega

/-- a forward step for a deletion on a lower row does not change what lies below `T` -/
theorem underT_step {T0 T c : Pos} (h0 : hitA T0 c = true) (hlt : T0.1 < T.1) :
    underT T (liftStep 0 c T0.1) ↔ underT T c := by
  unfold hitA at h0
  simp only [decide_eq_true_eq] at h0
  unfold underT liftStep
  simp only [Nat.sub_zero]
  have key : FinalPos.removeBitNat c.2 (T0.1 - c.1) / 2 ^ (T.1 - (c.1 + 1)) = c.2 / 2 ^ (T.1 - c.1) := by
    rw [removeBitNat_div (show T0.1 - c.1 ≤ T.1 - (c.1 + 1) by omega),
      show T.1 - (c.1 + 1) + 1 = T.1 - c.1 by omega]
  rw [key]
  constructor
  · rintro ⟨_, h2⟩; exact ⟨by omega, h2⟩
  · rintro ⟨_, h2⟩; exact ⟨by omega, h2⟩

/-- **what a prefix of deletions on lower-or-equal rows does to the tests for `T`** -/
theorem moveA_facts (n R : Nat) (T : Pos) : ∀ (ds : List Pos) (c : Pos),
    (∀ T' ∈ ds, T'.1 ≤ T.1 ∧ T' ≠ T ∧ T' ≠ sib T) →
    (hitA T (moveA n R ds c) = hitA T c) ∧ (underT T (moveA n R ds c) ↔ underT T c) ∧
    (moveA n R ds c = parent T → c = parent T ∨ hitA T c = true) := by
  intro ds
  induction ds with
  | nil => intro c _; exact ⟨rfl, Iff.rfl, fun h => Or.inl h⟩
  | cons T0 rest ih =>
    intro c hds
    have hrest : ∀ T' ∈ rest, T'.1 ≤ T.1 ∧ T' ≠ T ∧ T' ≠ sib T :=
      fun T' h => hds T' (List.mem_cons_of_mem _ h)
    obtain ⟨hrow, hne1, hne2⟩ := hds T0 List.mem_cons_self
    unfold moveA
    split
    · rename_i hc
      simp only [Bool.and_eq_true] at hc
      obtain ⟨_, hT0⟩ := hc
      obtain ⟨i1, i2, i3⟩ := ih (liftStep 0 c T0.1) hrest
      have hcT0 : c.1 ≤ T0.1 := by
        unfold hitA at hT0
        simp only [decide_eq_true_eq] at hT0
        exact hT0.1
      -- a hit by `T` happens strictly below the row of `T`
      have hstrict : hitA T c = true → c.1 < T.1 := by
        intro hT
        rcases Nat.lt_or_ge c.1 T.1 with h | h
        · exact h
        · exfalso
          have : T0.1 = T.1 := by
            unfold hitA at hT
            simp only [decide_eq_true_eq] at hT
            omega
          rcases hit_same_row hT0 hT this with e | e
          · exact hne1 e
          · exact hne2 e
      have e1 : hitA T (liftStep 0 c T0.1) = hitA T c := by
        have := hitA_step (T' := T) hT0 hrow
        cases h1 : hitA T (liftStep 0 c T0.1) <;> cases h2 : hitA T c <;> simp_all
      have e2 : underT T (liftStep 0 c T0.1) ↔ underT T c := by
        rcases Nat.lt_or_ge T0.1 T.1 with hlt | hge
        · exact underT_step hT0 hlt
        · have heq : T0.1 = T.1 := by omega
          constructor
          · intro h
            exfalso
            have h' := underT_hit h
            rw [e1] at h'
            rcases hit_same_row hT0 h' heq with e | e
            · exact hne1 e
            · exact hne2 e
          · intro h
            exfalso
            rcases hit_same_row hT0 (underT_hit h) heq with e | e
            · exact hne1 e
            · exact hne2 e
      refine ⟨i1.trans e1, i2.trans e2, ?_⟩
      intro hp
      right
      rcases i3 hp with h | h
      · -- the stepped position is the parent of `T`: then `T` hits `c`
        have h1 : c.1 + 1 = T.1 + 1 := congrArg Prod.fst h
        have h2 : FinalPos.removeBitNat c.2 (T0.1 - 0 - c.1) = T.2 / 2 := congrArg Prod.snd h
        have hz : T0.1 - 0 - c.1 = 0 := by omega
        rw [hz, removeBitNat_zero] at h2
        unfold hitA
        simp only [decide_eq_true_eq]
        refine ⟨by omega, ?_⟩
        rw [show T.1 + 1 - c.1 = 1 by omega, Nat.pow_one]
        exact h2
      · rw [← e1]; exact h
    · exact ih c hrest

/-- a position whose origin is neither the parent of `T` nor below `T` -/
def Good (T p : Pos) : Prop := p ≠ parent T ∧ ¬ underT T p

/-- **one backward step undoes one forward step** -/
theorem bwd_fwd (n R : Nat) (T : Pos) (ds : List Pos) (p : Pos)
    (hds : ∀ T' ∈ ds, T'.1 ≤ T.1 ∧ T' ≠ T ∧ T' ≠ sib T) (hgood' : inTree n R T = true → Good T p) :
    bwdStep n R T (fwdStep n R T (moveA n R ds p)) = moveA n R ds p := by
  obtain ⟨f1, f2, f3⟩ := moveA_facts n R T ds p hds
  unfold fwdStep
  by_cases hin : inTree n R T = true
  · have hgood := hgood' hin
    by_cases hhit : hitA T (moveA n R ds p) = true
    · rw [hin, hhit]
      simp only [Bool.and_self, if_true]
      -- the stepped position lies below the parent of `T`
      have hc := hhit
      unfold hitA at hc
      simp only [decide_eq_true_eq] at hc
      obtain ⟨hc1, hc2⟩ := hc
      have hat : atOrUnderP T (liftStep 0 (moveA n R ds p) T.1) = true := by
        unfold atOrUnderP liftStep
        simp only [decide_eq_true_eq, Nat.sub_zero]
        refine ⟨by omega, ?_⟩
        rw [removeBitNat_div (by omega), show T.1 + 1 - ((moveA n R ds p).1 + 1) + 1 =
          T.1 + 1 - (moveA n R ds p).1 by omega]
        exact hc2
      unfold bwdStep
      rw [hin, hat]
      simp only [Bool.and_self, if_true]
      -- `prevStep` re-inserts the removed bit
      have hnu : ¬ underT T (moveA n R ds p) := fun h => hgood.2 (f2.1 h)
      unfold prevStep liftStep
      simp only [Nat.sub_zero, Nat.add_sub_cancel]
      have hbit : decide (T.2 % 2 = 0) =
          (moveA n R ds p).2.testBit (T.1 - (moveA n R ds p).1) := by
        rw [Nat.testBit_eq_decide_div_mod_eq]
        have ha : (moveA n R ds p).2 / 2 ^ (T.1 - (moveA n R ds p).1) / 2 = T.2 / 2 := by
          have hc2' := hc2
          rw [show T.1 + 1 - (moveA n R ds p).1 = (T.1 - (moveA n R ds p).1) + 1 by omega,
            Nat.pow_succ, ← Nat.div_div_eq_div_mul] at hc2'
          exact hc2'
        have hne : (moveA n R ds p).2 / 2 ^ (T.1 - (moveA n R ds p).1) ≠ T.2 :=
          fun e => hnu ⟨hc1, e⟩
        apply decide_eq_decide.2
        omega
      rw [hbit]
      show ((moveA n R ds p).1, addBitNat (Proofs.removeBitNat (moveA n R ds p).2
        (T.1 - (moveA n R ds p).1)) (T.1 - (moveA n R ds p).1)
        ((moveA n R ds p).2.testBit (T.1 - (moveA n R ds p).1))) = moveA n R ds p
      rw [addBitNat_removeBitNat]
    · have hhit' : hitA T (moveA n R ds p) = false := by simpa using hhit
      rw [hin, hhit']
      simp only [Bool.and_false, Bool.false_eq_true, if_false]
      unfold bwdStep
      have hat : atOrUnderP T (moveA n R ds p) = false := by
        cases h : atOrUnderP T (moveA n R ds p) with
        | false => rfl
        | true =>
          exfalso
          rcases atOrUnderP_iff.1 h with h1 | h1
          · rw [hhit'] at h1; cases h1
          · rcases f3 h1 with h2 | h2
            · exact hgood.1 h2
            · rw [← f1, hhit'] at h2; cases h2
      rw [hat]
      simp
  · have hin' : inTree n R T = false := by simpa using hin
    unfold bwdStep
    rw [hin']
    simp

/-- when the backward step fires on a forward image, the image is a lifted position -/
theorem bwd_fires {n R : Nat} {T : Pos} {ds : List Pos} {p : Pos}
    (hds : ∀ T' ∈ ds, T'.1 ≤ T.1 ∧ T' ≠ T ∧ T' ≠ sib T) (hgood' : inTree n R T = true → Good T p)
    (hfire : (inTree n R T && atOrUnderP T (fwdStep n R T (moveA n R ds p))) = true) :
    hitA T (moveA n R ds p) = true ∧
      fwdStep n R T (moveA n R ds p) = liftStep 0 (moveA n R ds p) T.1 := by
  obtain ⟨f1, f2, f3⟩ := moveA_facts n R T ds p hds
  simp only [Bool.and_eq_true] at hfire
  obtain ⟨hin, hat⟩ := hfire
  have hgood := hgood' hin
  by_cases hhit : hitA T (moveA n R ds p) = true
  · refine ⟨hhit, ?_⟩
    unfold fwdStep
    rw [hin, hhit]
    simp
  · exfalso
    have hhit' : hitA T (moveA n R ds p) = false := by simpa using hhit
    have e : fwdStep n R T (moveA n R ds p) = moveA n R ds p := by
      unfold fwdStep; rw [hhit']; simp
    rw [e] at hat
    rcases atOrUnderP_iff.1 hat with h1 | h1
    · rw [hhit'] at h1; cases h1
    · rcases f3 h1 with h2 | h2
      · exact hgood.1 h2
      · rw [← f1, hhit'] at h2; cases h2

/-- a position above all deletions of the list is not moved -/
theorem moveA_high (n R : Nat) : ∀ (ds : List Pos) (c : Pos), (∀ T' ∈ ds, T'.1 < c.1) →
    moveA n R ds c = c := by
  intro ds
  induction ds with
  | nil => intro c _; rfl
  | cons T0 rest ih =>
    intro c h
    unfold moveA
    have h0 := h T0 List.mem_cons_self
    have : hitA T0 c = false := by
      unfold hitA
      simp only [decide_eq_false_iff_not]
      omega
    rw [this]
    simp only [Bool.and_false, Bool.false_eq_true, if_false]
    exact ih c (fun T' hT' => h T' (List.mem_cons_of_mem _ hT'))

/-- the parent of a later deletion `T` is a good origin for the earlier ones -/
theorem good_parent {T T' : Pos} (hrow : T'.1 ≤ T.1) (hne1 : T' ≠ T) (hne2 : T' ≠ sib T) :
    Good T' (parent T) := by
  constructor
  · intro e
    have h1 : T.1 + 1 = T'.1 + 1 := congrArg Prod.fst e
    have h2 : T.2 / 2 = T'.2 / 2 := congrArg Prod.snd e
    by_cases h3 : T'.2 = T.2
    · exact hne1 (Prod.ext (by omega) h3)
    · apply hne2
      apply Prod.ext
      · simp only [sib_fst]; omega
      · simp only [sib_snd]; split <;> omega
  · rintro ⟨h1, _⟩
    simp only [parent] at h1
    omega

end UtreexoVerif.Proofs.ProofUndoMove
