/-
  `MapPollard.add` of ONE leaf when the leaf count is even (the new leaf becomes a root on
  row 0, no merge happens) and no re-allocation is needed: the storage invariant is preserved.
  This is the simplest case of `add`; the merging case (odd leaf count: parents are created,
  nieces pruned, empty roots skipped) is open.
-/
import UtreexoVerif.Proofs.MapPrune

namespace UtreexoVerif.Proofs.MapAdd
open UtreexoVerif Model Spec Spec.Forest Proofs MapAL MapInv MapPrune
set_option linter.unusedSectionVars false

variable {H : Type} [DecidableEq H] [Hasher H]

/-! ### the specification forest after appending a leaf to an even number of slots -/

theorem shift_succ_even {N : Nat} (he : N % 2 = 0) (h : Nat) : (N + 1) >>> (h + 1) = N >>> (h + 1) := by
  rw [Nat.shiftRight_eq_div_pow, Nat.shiftRight_eq_div_pow, Nat.pow_succ, Nat.mul_comm,
    ← Nat.div_div_eq_div_mul, ← Nat.div_div_eq_div_mul]
  congr 1; omega

theorem rootPos_succ_even {N : Nat} (he : N % 2 = 0) (h : Nat) : rootPos (N + 1) h = rootPos N h := by
  unfold rootPos; rw [shift_succ_even he]

theorem testBit_succ_even {N : Nat} (he : N % 2 = 0) (R : Nat) :
    (N + 1).testBit R = (decide (R = 0) || N.testBit R) := by
  cases R with
  | zero =>
    simp only [Nat.testBit_zero, decide_true, Bool.true_or, decide_eq_true_eq]
    omega
  | succ k =>
    rw [Nat.testBit_succ, Nat.testBit_succ]
    have : (N + 1) / 2 = N / 2 := by omega
    rw [this]; simp

theorem testBit_zero_even {N : Nat} (he : N % 2 = 0) : N.testBit 0 = false := by
  rw [Nat.testBit_zero]; simp [he]

theorem flatMap_congr' {α β : Type} : ∀ (l : List α) (f g : α → List β), (∀ a ∈ l, f a = g a) →
    l.flatMap f = l.flatMap g
  | [], _, _, _ => rfl
  | a :: l, f, g, h => by
    rw [List.flatMap_cons, List.flatMap_cons, h a List.mem_cons_self,
      flatMap_congr' l f g (fun b hb => h b (List.mem_cons_of_mem _ hb))]

theorem nodes_add_even (F : Forest H) (x : H) (he : F.numLeaves % 2 = 0) :
    (F.add x).nodes = F.nodes ++ [((0, F.numLeaves), x, true)] := by
  have hn : F.numLeaves = 2 ^ (0 + 1) * (F.numLeaves / 2) + (2 ^ 0 - 1) := by
    simp only [Nat.zero_add, Nat.pow_one, Nat.pow_zero, Nat.sub_self, Nat.add_zero]; omega
  have htrees := trees_add_decomp F x hn (by omega)
  have htake : F.slots.take (2 ^ (0 + 1) * (F.numLeaves / 2)) = F.slots := by
    apply List.take_of_length_le
    show F.slots.length ≤ _
    have : F.slots.length = F.numLeaves := rfl
    simp only [Nat.zero_add, Nat.pow_one]; omega
  rw [htake] at htrees
  have hL : treesL F.slots = F.trees := rfl
  rw [hL] at htrees
  have hmerge : mergeTrees (onesTrees 0 (F.slots.drop (2 ^ (0 + 1) * (F.numLeaves / 2)))) (some (CTree.leaf x)) =
      some (CTree.leaf x) := rfl
  rw [hmerge] at htrees
  unfold Forest.nodes
  rw [htrees, List.flatMap_append]
  have hnl : (F.add x).numLeaves = F.numLeaves + 1 := by
    show (F.slots ++ [some x]).length = F.slots.length + 1
    simp
  congr 1
  · apply flatMap_congr'
    intro p hp
    obtain ⟨h, t⟩ := p
    simp only [hnl, rootPos_succ_even he]
  · simp only [List.flatMap_cons, List.flatMap_nil, List.append_nil, CTree.nodes, hnl]
    have : (rootPos (F.numLeaves + 1) 0).2 = F.numLeaves := by
      unfold rootPos
      simp only
      rw [shift_succ_even he, Nat.shiftRight_eq_div_pow]
      simp only [Nat.zero_add, Nat.pow_one]; omega
    rw [this]

theorem numLeaves_add (F : Forest H) (x : H) : (F.add x).numLeaves = F.numLeaves + 1 := by
  show (F.slots ++ [some x]).length = F.slots.length + 1
  simp

/-- a node of the forest covers slots below the leaf count -/
theorem node_lt {F : Forest H} {e : Pos × H × Bool} (he : e ∈ F.nodes) : (e.1.2 + 1) * 2 ^ e.1.1 ≤ F.numLeaves := by
  obtain ⟨R, hb⟩ := belowRoot_of_mem_nodes he
  exact below_root_iff.2 ⟨R, hb⟩

theorem no_node_at_end {F : Forest H} {e : Pos × H × Bool} (he : e ∈ F.nodes) : e.1 ≠ (0, F.numLeaves) := by
  intro h
  have := node_lt he
  rw [h] at this
  simp only [Nat.pow_zero, Nat.mul_one] at this
  omega

theorem nodeAt_add_even (F : Forest H) (x : H) (he : F.numLeaves % 2 = 0) (q : Pos) :
    (F.add x).nodeAt q = if q = (0, F.numLeaves) then some x else F.nodeAt q := by
  unfold Forest.nodeAt
  rw [nodes_add_even F x he, List.find?_append]
  split
  · rename_i hq
    have hnone : F.nodes.find? (fun e => e.1 == q) = none := by
      rw [List.find?_eq_none]
      intro e hmem
      simp only [beq_iff_eq]
      rw [hq]
      exact no_node_at_end hmem
    rw [hnone]
    simp [hq]
  · rename_i hq
    have : ([((0, F.numLeaves), x, true)] : List (Pos × H × Bool)).find? (fun e => e.1 == q) = none := by
      rw [List.find?_eq_none]
      intro e hmem
      simp only [List.mem_singleton] at hmem
      subst hmem
      simp only [beq_iff_eq]
      exact fun h => hq h.symm
    rw [this, Option.or_none]

theorem posOf_add_even (F : Forest H) (x : H) (he : F.numLeaves % 2 = 0) (hfresh : F.posOf x = none) (y : H) :
    (F.add x).posOf y = if y = x then some (0, F.numLeaves) else F.posOf y := by
  unfold Forest.posOf at hfresh ⊢
  rw [nodes_add_even F x he, List.find?_append]
  split
  · rename_i hy
    subst hy
    have hnone : F.nodes.find? (fun e => e.2.2 && e.2.1 == y) = none := by
      cases h : F.nodes.find? (fun e => e.2.2 && e.2.1 == y) with
      | none => rfl
      | some e => rw [h] at hfresh; simp at hfresh
    rw [hnone]
    simp
  · rename_i hy
    have : ([((0, F.numLeaves), x, true)] : List (Pos × H × Bool)).find? (fun e => e.2.2 && e.2.1 == y) = none := by
      rw [List.find?_eq_none]
      intro e hmem
      simp only [List.mem_singleton] at hmem
      subst hmem
      simp only [Bool.true_and, beq_iff_eq]
      exact fun h => hy h.symm
    rw [this, Option.or_none]

theorem isRootPos_succ_even {N : Nat} (he : N % 2 = 0) (q : Pos) :
    isRootPos (N + 1) q = (isRootPos N q || (q == (0, N))) := by
  obtain ⟨r, o⟩ := q
  unfold isRootPos
  simp only
  rw [testBit_succ_even he, shift_succ_even he]
  cases r with
  | zero =>
    simp only [decide_true, Bool.true_or, Bool.true_and, testBit_zero_even he, Bool.false_and, Bool.false_or,
      Nat.zero_add]
    have : 2 * (N >>> 1) = N := by rw [Nat.shiftRight_eq_div_pow]; simp only [Nat.pow_one]; omega
    rw [this]
    cases h : (o == N)
    · have : ((0, o) == ((0, N) : Pos)) = false := by
        rw [beq_eq_false_iff_ne] at h ⊢
        intro e; exact h (congrArg Prod.snd e)
      rw [this]
    · rw [beq_iff_eq] at h; subst h; simp
  | succ k =>
    have : (((k + 1, o) : Pos) == (0, N)) = false := by
      rw [beq_eq_false_iff_ne]; intro e; have := congrArg Prod.fst e; simp at this
    simp [this]

theorem belowRoot_succ_even {N : Nat} (he : N % 2 = 0) {r o R : Nat} :
    BelowRoot (N + 1) r o R ↔ BelowRoot N r o R ∨ (R = 0 ∧ r = 0 ∧ o = N) := by
  unfold BelowRoot
  rw [testBit_succ_even he, rootPos_succ_even he]
  constructor
  · rintro ⟨h1, h2, h3⟩
    rw [Bool.or_eq_true, decide_eq_true_eq] at h2
    rcases h2 with h2 | h2
    · right
      subst h2
      have hr : r = 0 := by omega
      subst hr
      refine ⟨rfl, rfl, ?_⟩
      simp only [Nat.sub_self, Nat.pow_zero, Nat.div_one] at h3
      rw [h3]; unfold rootPos; simp only [Nat.zero_add]
      rw [Nat.shiftRight_eq_div_pow]; simp only [Nat.pow_one]; omega
    · exact Or.inl ⟨h1, h2, h3⟩
  · rintro (⟨h1, h2, h3⟩ | ⟨rfl, rfl, rfl⟩)
    · exact ⟨h1, by rw [h2]; simp, h3⟩
    · refine ⟨Nat.le_refl _, by simp, ?_⟩
      simp only [Nat.sub_self, Nat.pow_zero, Nat.div_one]
      unfold rootPos; simp only [Nat.zero_add]
      rw [Nat.shiftRight_eq_div_pow]; simp only [Nat.pow_one]; omega

/-- a node of the old forest is not the new slot -/
theorem belowRoot_ne_end {N r o R : Nat} (hb : BelowRoot N r o R) : (r, o) ≠ (0, N) := by
  intro h
  have := below_root_iff.2 ⟨R, hb⟩
  have h1 : r = 0 := congrArg Prod.fst h
  have h2 : o = N := congrArg Prod.snd h
  subst h1 h2
  simp only [Nat.pow_zero, Nat.mul_one] at this
  omega

/-! ### paths before and after -/

theorem onPath_succ_even {N : Nat} (he : N % 2 = 0) {t q : Pos} {R0 : Nat} (ht : BelowRoot N t.1 t.2 R0) :
    OnPath (N + 1) t q ↔ OnPath N t q := by
  constructor
  · rintro ⟨R, hb, hanc, hle⟩
    rcases (belowRoot_succ_even he).1 hb with h | ⟨_, h1, h2⟩
    · exact ⟨R, h, hanc, hle⟩
    · exact absurd (Prod.ext h1 h2 : t = (0, N)) (belowRoot_ne_end ht)
  · rintro ⟨R, hb, hanc, hle⟩
    exact ⟨R, (belowRoot_succ_even he).2 (Or.inl hb), hanc, hle⟩

theorem proofSib_succ_even {N : Nat} (he : N % 2 = 0) {t q : Pos} {R0 : Nat} (ht : BelowRoot N t.1 t.2 R0) :
    ProofSib (N + 1) t q ↔ ProofSib N t q := by
  have key : ∀ w, OnPath N t w → isRootPos (N + 1) w = isRootPos N w := by
    rintro w ⟨R, hb, hanc, hle⟩
    have hw := belowRoot_anc hb hanc hle
    have hne : w ≠ (0, N) := belowRoot_ne_end hw
    rw [isRootPos_succ_even he]
    have : (w == ((0, N) : Pos)) = false := by rw [beq_eq_false_iff_ne]; exact hne
    rw [this, Bool.or_false]
  constructor
  · rintro ⟨w, hon, hnr, rfl⟩
    have hon' := (onPath_succ_even he ht).1 hon
    exact ⟨w, hon', by rw [← key w hon']; exact hnr, rfl⟩
  · rintro ⟨w, hon, hnr, rfl⟩
    exact ⟨w, (onPath_succ_even he ht).2 hon, by rw [key w hon]; exact hnr, rfl⟩

theorem onPath_new {N : Nat} (he : N % 2 = 0) {q : Pos} : OnPath (N + 1) (0, N) q ↔ q = (0, N) := by
  constructor
  · rintro ⟨R, hb, hanc, hle⟩
    rcases (belowRoot_succ_even he).1 hb with h | ⟨hR, _, _⟩
    · exact absurd rfl (belowRoot_ne_end h)
    · obtain ⟨a1, a2⟩ := hanc
      simp only at a1 a2
      subst hR
      have h0 : q.1 = 0 := by omega
      apply Prod.ext
      · exact h0
      · rw [a2, h0]; simp
  · rintro rfl
    exact ⟨0, (belowRoot_succ_even he).2 (Or.inr ⟨rfl, rfl, rfl⟩), Anc.refl _, Nat.le_refl _⟩

theorem proofSib_new {N : Nat} (he : N % 2 = 0) {q : Pos} : ¬ ProofSib (N + 1) (0, N) q := by
  rintro ⟨w, hon, hnr, _⟩
  have := (onPath_new he).1 hon
  rw [this, isRootPos_succ_even he] at hnr
  simp at hnr

/-! ### the model call -/

theorem add_one_eval {m : MapPollard H} (a : Leaf H) (hfull : m.full = false)
    (hremap : TreeRows (m.numLeaves + 1) ≤ m.totalRows)
    (heven : ((m.numLeaves >>> (0#8).toNat) &&& 1#64 == 1#64) = false) :
    MapPollard.add [a] m =
      ({ (if a.remember then (m.putNode m.numLeaves ⟨a.hash, a.remember⟩).putCached a.hash m.numLeaves
          else m.putNode m.numLeaves ⟨a.hash, a.remember⟩) with numLeaves := m.numLeaves + 1 }, .ok ()) := by
  unfold MapPollard.add MapPollard.addSingle MapPollard.remap
  simp only [hremap, if_true, hfull, Bool.false_eq_true, if_false]
  unfold MapPollard.addLoop
  cases hr : a.remember
  · simp only [Bool.false_eq_true, if_false]
    have : ((m.putNode m.numLeaves ⟨a.hash, false⟩).numLeaves >>> (0#8).toNat &&& 1#64 == 1#64) = false := heven
    rw [this]
    simp only [Bool.false_eq_true, if_false]
    rfl
  · simp only [if_true]
    have : (((m.putNode m.numLeaves ⟨a.hash, true⟩).putCached a.hash m.numLeaves).numLeaves >>> (0#8).toNat &&& 1#64 == 1#64) = false := heven
    rw [this]
    simp only [Bool.false_eq_true, if_false]
    rfl

theorem even_bit {N : Nat} (he : N % 2 = 0) :
    (((BitVec.ofNat 64 N) >>> (0#8).toNat) &&& 1#64 == 1#64) = false := by
  rw [beq_eq_false_iff_ne]
  intro h
  have := congrArg BitVec.toNat h
  simp only [BitVec.toNat_ofNat, BitVec.toNat_and, BitVec.toNat_ushiftRight] at this
  rw [show (0 % 2 ^ 8 : Nat) = 0 from rfl, Nat.shiftRight_zero, show (1 % 2 ^ 64 : Nat) = 1 from rfl,
    Nat.and_one_is_mod] at this
  omega

/-- **adding one leaf to a forest with an even number of slots preserves the invariant**
(no re-allocation: `TreeRows(n+1) ≤ TotalRows`, always true for the default 63 rows) -/
theorem inv_add_even {m : MapPollard H} {F : Forest H} (inv : Inv m F) (hfull : m.full = false)
    (x : H) (rem : Bool) (he : F.numLeaves % 2 = 0) (hn : F.numLeaves + 1 < 2 ^ 63)
    (hrows : forestRows (F.numLeaves + 1) ≤ m.totalRows.toNat) (hfresh : F.posOf x = none) :
    ∃ m', MapPollard.add [⟨x, rem⟩] m = (m', .ok ()) ∧ Inv m' (F.add x) ∧ m'.full = false ∧
      (∀ y, m'.getCached y =
        if rem = true ∧ y = x then some (encP m.totalRows.toNat (0, F.numLeaves)) else m.getCached y) := by
  have hT := inv.total_le
  have hN : m.numLeaves = BitVec.ofNat 64 F.numLeaves := inv.n_eq
  have hN1 : m.numLeaves + 1 = BitVec.ofNat 64 (F.numLeaves + 1) := by
    rw [hN, BitVec.ofNat_add]; rfl
  have hrm : TreeRows (m.numLeaves + 1) ≤ m.totalRows := by
    rw [hN1, SpecView.treeRows_eq hn, BitVec.le_def, toNat_H8 (SpecView.forestRows_le_63 hn)]
    exact hrows
  have hev : ((m.numLeaves >>> (0#8).toNat) &&& 1#64 == 1#64) = false := by rw [hN]; exact even_bit he
  have heval := add_one_eval (m := m) ⟨x, rem⟩ hfull hrm hev
  simp only at heval
  -- the position of the new leaf
  have hencN : encP m.totalRows.toNat (0, F.numLeaves) = m.numLeaves := by
    rw [hN]; show BitVec.ofNat 64 (enc m.totalRows.toNat (0, F.numLeaves)) = _
    rw [SpecView.enc_zero_row]
  have hvN : Valid m.totalRows.toNat (0, F.numLeaves) := by
    refine ⟨Nat.zero_le _, ?_⟩
    have h1 := SpecView.le_two_pow_forestRows (F.numLeaves + 1)
    have h2 : 2 ^ forestRows (F.numLeaves + 1) ≤ 2 ^ m.totalRows.toNat := two_pow_le_of_le hrows
    show F.numLeaves < 2 ^ (m.totalRows.toNat - 0)
    rw [Nat.sub_zero]; omega
  generalize hm' : ({ (if rem then (m.putNode m.numLeaves ⟨x, rem⟩).putCached x m.numLeaves
          else m.putNode m.numLeaves ⟨x, rem⟩) with numLeaves := m.numLeaves + 1 } : MapPollard H) = m' at heval
  have hT' : m'.totalRows = m.totalRows := by rw [← hm']; cases rem <;> rfl
  have hg' : ∀ p, m'.getNode p = if p = m.numLeaves then some ⟨x, rem⟩ else m.getNode p := by
    intro p; rw [← hm']; cases rem <;> simp [MapPollard.getNode, MapPollard.putNode, MapPollard.putCached, get?_put]
  have hc' : ∀ y, m'.getCached y = if rem = true ∧ y = x then some m.numLeaves else m.getCached y := by
    intro y; rw [← hm']
    cases rem
    · simp [MapPollard.getCached, MapPollard.putNode]
    · simp [MapPollard.getCached, MapPollard.putNode, MapPollard.putCached, get?_put]
  have hnotx : ∀ y p, m.getCached y = some p → y ≠ x := by
    rintro y p hy rfl
    obtain ⟨t, ht, _⟩ := inv.cached_pos y p hy
    rw [hfresh] at ht; cases ht
  have hK : ∀ y, y ≠ x → (m'.hasCached y = m.hasCached y) := by
    intro y hy
    rw [hasCached_eq, hasCached_eq, hc', if_neg (fun h => hy h.2)]
  have hnl : (F.add x).numLeaves = F.numLeaves + 1 := numLeaves_add F x
  have hnodeAt := nodeAt_add_even F x he
  have hposOf := posOf_add_even F x he hfresh
  refine ⟨m', heval, ?_, by rw [← hm']; cases rem <;> exact hfull, by intro y; rw [hc', hencN]⟩
  refine { n_lt := by rw [hnl]; exact hn, n_eq := by rw [hnl, ← hN1, ← hm'],
           rows_le := by rw [hT']; show forestRows (F.add x).numLeaves ≤ _; rw [hnl]; exact hrows,
           total_le := by rw [hT']; exact hT, true_hash := ?_, cached_pos := ?_, only_needed := ?_,
           has_needed := ?_, flags := ?_ }
  · intro p l hg
    rw [hT']
    rw [hg'] at hg
    split at hg
    · rename_i hp
      simp only [Option.some.injEq] at hg
      refine ⟨(0, F.numLeaves), hvN, by rw [hp, hencN], ?_⟩
      rw [hnodeAt, if_pos rfl, ← hg]
    · obtain ⟨q, hv, hpe, hq⟩ := inv.true_hash p l hg
      refine ⟨q, hv, hpe, ?_⟩
      rw [hnodeAt]
      split
      · rename_i hq0
        obtain ⟨R, hb⟩ := belowRoot_of_nodeAt hq
        exact absurd hq0 (belowRoot_ne_end hb)
      · exact hq
  · intro y p hy
    rw [hT']
    rw [hc'] at hy
    split at hy
    · rename_i h
      simp only [Option.some.injEq] at hy
      refine ⟨(0, F.numLeaves), by rw [hposOf, if_pos h.2], by rw [← hy, hencN]⟩
    · obtain ⟨t, ht, hp⟩ := inv.cached_pos y p hy
      exact ⟨t, by rw [hposOf, if_neg (hnotx y p hy)]; exact ht, hp⟩
  · intro q l hv hg
    rw [hT'] at hv hg
    unfold Allowed
    rw [hnl]
    rw [hg'] at hg
    split at hg
    · rename_i hp
      have hq : q = (0, F.numLeaves) := encP_inj' hT hv hvN (by rw [hp, hencN])
      left
      rw [hq, isRootPos_succ_even he]; simp
    · rcases inv.only_needed q l hv hg with hr | ⟨y, t, hk, hp, h⟩
      · left; rw [isRootPos_succ_even he, hr]; rfl
      · have hyx : y ≠ x := by
          rintro rfl; rw [hfresh] at hp; cases hp
        obtain ⟨R0, hb0⟩ := posOf_belowRoot hp
        refine Or.inr ⟨y, t, by show m'.hasCached y = true; rw [hK y hyx]; exact hk,
          by rw [hposOf, if_neg hyx]; exact hp, ?_⟩
        rcases h with h | h
        · exact Or.inl ((onPath_succ_even he hb0).2 h)
        · exact Or.inr ((proofSib_succ_even he hb0).2 h)
  · intro q hreq
    rw [hT', hasNode_eq, hg']
    unfold Required at hreq
    rw [hnl] at hreq
    split
    · rfl
    · rw [← hasNode_eq]
      apply inv.has_needed
      rcases hreq with hr | ⟨y, t, hk, hp, h⟩
      · rw [isRootPos_succ_even he, Bool.or_eq_true] at hr
        rcases hr with hr | hr
        · exact Or.inl hr
        · rename_i hne
          exfalso
          rw [beq_iff_eq] at hr
          exact hne (by rw [hr, hencN])
      · rw [hposOf] at hp
        split at hp
        · rename_i hyx
          simp only [Option.some.injEq] at hp
          subst hp
          rcases h with h | h
          · rename_i hne; exact absurd (by rw [h, hencN]) hne
          · exact absurd h (proofSib_new he)
        · rename_i hyx
          obtain ⟨R0, hb0⟩ := posOf_belowRoot hp
          refine Or.inr ⟨y, t, by show m.hasCached y = true; rw [← hK y hyx]; exact hk, hp, ?_⟩
          rcases h with h | h
          · exact Or.inl h
          · exact Or.inr ((proofSib_succ_even he hb0).1 h)
  · intro _ q l hv hnr hg
    rw [hT'] at hv hg ⊢
    rw [hnl, isRootPos_succ_even he, Bool.or_eq_false_iff] at hnr
    rw [hg'] at hg
    split at hg
    · rename_i hp
      have hq : q = (0, F.numLeaves) := encP_inj' hT hv hvN (by rw [hp, hencN])
      rw [hq] at hnr
      simp at hnr
    · rename_i hp
      rw [inv.flags hfull q l hv hnr.1 hg]
      constructor
      · rintro ⟨y, hy⟩
        exact ⟨y, by rw [hc', if_neg (fun h => hnotx y _ hy h.2)]; exact hy⟩
      · rintro ⟨y, hy⟩
        rw [hc'] at hy
        split at hy
        · simp only [Option.some.injEq] at hy
          exact absurd hy.symm hp
        · exact ⟨y, hy⟩

end UtreexoVerif.Proofs.MapAdd
