/-
  `Pollard.calculatePosition` (model in `Model/PollardAbs.lean`) returns the position of the
  node: the three loops, then the assembly `calculatePosition_enc`.
-/
import UtreexoVerif.Proofs.PollardLookup

namespace UtreexoVerif.Proofs.PollardCalcPos
open UtreexoVerif UtreexoVerif.GoInt UtreexoVerif.Proofs Spec Hasher Model
open UtreexoVerif.Proofs.SpecNodes UtreexoVerif.Proofs.SpecView UtreexoVerif.Proofs.PollardLookup
open UtreexoVerif.Model.PollardAbs

/-! ### first loop: the bits of `leftRightIndicator` -/

/-- one iteration's update of `leftRightIndicator` -/
def stepLri (isL : Bool) (c : Nat) (lri : U64) : U64 :=
  let lri := if isL then shl lri 1 else (shl lri 1) ||| 1#64
  if c = 0 then lri ^^^ 1#64 else lri

theorem one_getLsbD (m : Nat) : (1#64 : U64).getLsbD m = decide (m = 0) := by
  rw [← BitVec.testBit_toNat, BitVec.toNat_one (by decide)]
  cases m with
  | zero => rfl
  | succ k => rw [Nat.testBit_succ]; simp

theorem stepLri_getLsbD (isL : Bool) (c : Nat) (lri : U64) (m : Nat) (hm : m < 64) :
    (stepLri isL c lri).getLsbD m =
      if m = 0 then (if c = 0 then isL else !isL) else lri.getLsbD (m - 1) := by
  unfold stepLri
  rw [shl_eq]
  cases isL <;> by_cases hc : c = 0 <;> by_cases h0 : m = 0 <;>
    simp [hc, h0, hm]
  all_goals (rw [BitVec.getLsbD_eq_getElem])

theorem climbLoop_cons (isL : Bool) (rest : List Bool) (lri : U64) (c : Nat) :
    climbLoop (isL :: rest) lri c = climbLoop rest (stepLri isL c lri) (c + 1) := rfl

theorem climbLoop_spec : ∀ (fs : List Bool) (lri : U64) (c : Nat),
    (climbLoop fs lri c).2 = c + fs.length ∧
    (∀ i, fs.length ≤ i → i < 64 → (climbLoop fs lri c).1.getLsbD i = lri.getLsbD (i - fs.length)) ∧
    (∀ i, i < fs.length → i < 64 → (climbLoop fs lri c).1.getLsbD i =
      if c = 0 ∧ fs.length - 1 - i = 0 then fs.getD (fs.length - 1 - i) false
      else !fs.getD (fs.length - 1 - i) false) := by
  intro fs
  induction fs with
  | nil =>
    intro lri c
    refine ⟨rfl, fun i _ _ => by simp [climbLoop], fun i hi _ => by simp at hi⟩
  | cons f rest ih =>
    intro lri c
    rw [climbLoop_cons]
    obtain ⟨h1, h2, h3⟩ := ih (stepLri f c lri) (c + 1)
    refine ⟨by rw [h1, List.length_cons]; omega, ?_, ?_⟩
    · intro i hi hi64
      rw [List.length_cons] at hi
      rw [h2 i (by omega) hi64, stepLri_getLsbD _ _ _ _ (by omega), if_neg (by omega),
        List.length_cons, show i - rest.length - 1 = i - (rest.length + 1) by omega]
    · intro i hi hi64
      rw [List.length_cons] at hi
      rw [List.length_cons]
      by_cases hlast : i = rest.length
      · subst hlast
        rw [h2 _ (Nat.le_refl _) hi64, Nat.sub_self, stepLri_getLsbD _ _ _ _ (by omega), if_pos rfl,
          show rest.length + 1 - 1 - rest.length = 0 by omega]
        by_cases hc : c = 0 <;> simp [hc]
      · rw [h3 i (by omega) hi64, if_neg (by omega), if_neg (by omega)]
        have e : rest.length + 1 - 1 - i = (rest.length - 1 - i) + 1 := by omega
        rw [e, List.getD_cons_succ]

/-! ### what the climb observes for the node with offset bits `o` -/

theorem pathBits_length (k o : Nat) : (pathBits k o).length = k := by
  induction k with
  | zero => rfl
  | succ k ih => simp [pathBits, ih]

theorem pathBits_reverse (k o : Nat) : (pathBits k o).reverse = (List.range k).map o.testBit := by
  induction k with
  | zero => rfl
  | succ k ih => rw [pathBits, List.reverse_cons, ih, List.range_succ, List.map_append]; rfl

theorem nieceFlags_pathBits (k o : Nat) :
    nieceFlags (pathBits (k + 1) o) =
      (!o.testBit 0) :: (List.range k).map (fun i => o.testBit (i + 1)) := by
  unfold nieceFlags
  rw [pathBits_reverse, List.range_succ_eq_map, List.map_cons, List.map_map]
  rfl

theorem nieceFlags_pathBits_length (k o : Nat) : (nieceFlags (pathBits k o)).length = k := by
  cases k with
  | zero => rfl
  | succ k => rw [nieceFlags_pathBits]; simp

theorem nieceFlags_pathBits_getD (k o j : Nat) (hj : j < k) :
    (nieceFlags (pathBits k o)).getD j false = if j = 0 then !o.testBit 0 else o.testBit j := by
  cases k with
  | zero => omega
  | succ k =>
    rw [nieceFlags_pathBits]
    cases j with
    | zero => rfl
    | succ j =>
      rw [List.getD_cons_succ, if_neg (by omega), List.getD_eq_getElem?_getD, List.getElem?_map,
        List.getElem?_range (by omega)]
      rfl

/-- after the climb from the node with offset bits `o`, bit `i` of `leftRightIndicator` is the
complement of the child direction at depth `i` (root = depth 0) -/
theorem climb_bits (k o : Nat) (hk : k ≤ 64) :
    (climbLoop (nieceFlags (pathBits k o)) 0#64 0).2 = k ∧
    ∀ i, i < k → (climbLoop (nieceFlags (pathBits k o)) 0#64 0).1.getLsbD i = !o.testBit (k - 1 - i) := by
  obtain ⟨h1, _, h3⟩ := climbLoop_spec (nieceFlags (pathBits k o)) 0#64 0
  rw [nieceFlags_pathBits_length] at h1 h3
  refine ⟨by omega, ?_⟩
  intro i hi
  rw [h3 i hi (by omega), nieceFlags_pathBits_getD k o _ (by omega)]
  by_cases h0 : k - 1 - i = 0
  · simp [h0]
  · simp [h0]

/-! ### third loop -/

theorem and_shl_one_beq (x : U64) {i : Nat} (hi : i < 64) :
    ((x &&& shl 1#64 i) == shl 1#64 i) = x.getLsbD i := by
  rw [BitVec.and_comm, one_shl_and, one_shl_eq_twoPow, ← BitVec.testBit_toNat]
  cases x.toNat.testBit i
  · have hne : (0#64 : U64) ≠ BitVec.twoPow 64 i := by
      intro hc
      have := congrArg BitVec.toNat hc
      rw [BitVec.toNat_twoPow_of_lt hi] at this
      have := Nat.two_pow_pos i
      simp at *
      omega
    simp [hne]
  · simp

theorem descendLoop_enc {h R k o : Nat} (hh : h ≤ 63) (hk : k ≤ R) (hR : R ≤ h)
    (ho : o / 2 ^ k < 2 ^ (h - R)) (lri : U64)
    (hbits : ∀ i, i < k → lri.getLsbD i = !o.testBit (k - 1 - i)) :
    ∀ m i, m + i = k →
      descendLoop (H8 h) lri m i (encU h (R - i) (o / 2 ^ (k - i))) = encU h (R - k) o := by
  intro m
  induction m with
  | zero =>
    intro i hi
    have : i = k := by omega
    subst this
    simp [descendLoop]
  | succ m ih =>
    intro i hi
    have hik : i < k := by omega
    have hx : o / 2 ^ (k - i) < 2 ^ (h - (R - i)) := by
      rw [Nat.div_lt_iff_lt_mul (Nat.two_pow_pos _), ← Nat.pow_add,
        show h - (R - i) + (k - i) = (h - R) + k by omega, Nat.pow_add,
        ← Nat.div_lt_iff_lt_mul (Nat.two_pow_pos _)]
      exact ho
    rw [descendLoop]
    simp only [and_shl_one_beq lri (show i < 64 by omega), hbits i hik]
    have hdiv := div_two_pow_succ_of_testBit (o := o) (k := k - 1 - i) (O := o / 2 ^ (k - i))
      (by rw [show k - 1 - i + 1 = k - i by omega])
    have hr1 : R - i = (R - (i + 1)) + 1 := by omega
    have hx' : o / 2 ^ (k - i) < 2 ^ (h - (R - (i + 1) + 1)) := by rw [← hr1]; exact hx
    have hlt : R - (i + 1) < h := by omega
    have g := enc_facts_succ hlt
    have hle : R - (i + 1) ≤ h := by omega
    rw [← ih (i + 1) (by omega), show k - (i + 1) = k - 1 - i by omega, hdiv, hr1]
    generalize o / 2 ^ (k - i) = x at hx' ⊢
    cases hb : o.testBit (k - 1 - i)
    · simp only [Bool.not_false, if_true, Bool.false_eq_true, if_false, Nat.add_zero]
      have h1 : 2 * x + 1 < 2 ^ (h - (R - (i + 1))) := by omega
      rw [Props.C16.rightChild_enc hh hlt hx', Props.C16.sibling_enc hh hle h1,
        nat_xor_one, if_neg (by omega), Nat.add_sub_cancel]
    · simp only [Bool.not_true, Bool.false_eq_true, if_false, if_true]
      have h1 : 2 * x < 2 ^ (h - (R - (i + 1))) := by omega
      rw [Props.C16.leftChild_enc hh hlt hx', Props.C16.sibling_enc hh hle h1,
        nat_xor_one, if_pos (by omega)]

/-! ### second loop -/

theorem bit_test_eq (N : U64) (h : Nat) : (((shr N h) &&& 1#64) == 1#64) = N.toNat.testBit h := by
  rw [Nat.testBit_eq_decide_div_mod_eq]
  have e : (shr N h &&& 1#64).toNat = N.toNat / 2 ^ h % 2 := by
    rw [BitVec.toNat_and, toNat_shr, BitVec.toNat_one (by decide), Nat.and_one_is_mod]
  by_cases hb : N.toNat / 2 ^ h % 2 = 1
  · have : shr N h &&& 1#64 = 1#64 := by
      apply BitVec.eq_of_toNat_eq; rw [e, hb]; rfl
    simp [this, hb]
  · have : shr N h &&& 1#64 ≠ 1#64 := by
      intro hc
      have := congrArg BitVec.toNat hc
      rw [e] at this
      exact hb this
    simp [this, hb]

section
set_option linter.unusedSectionVars false
variable {H : Type} [DecidableEq H] [Hasher H]

/-- the root-row search returns the lowest tree row whose root carries `data` -/
theorem findRootRow_spec (N : U64) (g : Nat → H) (data : H) {R : Nat}
    (hbR : N.toNat.testBit R = true) (hg : g R = data)
    (hmin : ∀ R', R' < R → N.toNat.testBit R' = true → g R' ≠ data) :
    ∀ fuel h m, h ≤ R → R < h + m → R - h < fuel →
      findRootRow N data fuel h
        (((List.range' h m).filter (fun j => N.toNat.testBit j)).map g) = (R : Int) := by
  intro fuel
  induction fuel with
  | zero => intro h m _ _ hf; omega
  | succ fuel ih =>
    intro h m hh hm hf
    obtain ⟨m', rfl⟩ : ∃ m', m = m' + 1 := ⟨m - 1, by omega⟩
    rw [List.range'_succ]
    simp only [findRootRow, bit_test_eq]
    by_cases hb : N.toNat.testBit h = true
    · rw [List.filter_cons_of_pos (by simpa using hb), List.map_cons]
      simp only [hb, if_true]
      by_cases hR : h = R
      · subst hR
        rw [if_pos hg]
      · rw [if_neg (hmin h (by omega) hb)]
        exact ih (h + 1) m' (by omega) (by omega) (by omega)
    · have hR : h ≠ R := by intro e; subst e; exact hb hbR
      rw [List.filter_cons_of_neg (by simpa using hb)]
      simp only [hb, Bool.false_eq_true, if_false]
      exact ih (h + 1) m' (by omega) (by omega) (by omega)

theorem roots_reverse (F : Forest H) :
    F.roots.reverse =
      ((List.range' 0 65).filter (fun j => F.numLeaves.testBit j)).map (treeRoot F) := by
  rw [SpecNodes.roots_eq, ← List.map_reverse]
  unfold treeRows
  rw [Spec.treeRowsFrom_eq_filter, List.filter_reverse, List.reverse_reverse, List.range_eq_range']

/-- **`calculatePosition` returns the position of the node.**  For the node at `(r, o)` under
the root of the tree on row `R` — the climb observes `nieceFlags` of its child path and ends at
that root — provided no lower tree has the same root hash (the Go code identifies the tree by
comparing root hashes, lowest tree first). -/
theorem calculatePosition_enc (F : Forest H) (hn : F.numLeaves < 2 ^ 63) {R r o : Nat}
    (hb : F.numLeaves.testBit R = true) (hr : r ≤ R)
    (ho : o / 2 ^ (R - r) = 2 * (F.numLeaves >>> (R + 1)))
    (hmin : ∀ R', R' < R → F.numLeaves.testBit R' = true → treeRoot F R' ≠ treeRoot F R) :
    calculatePosition F (nieceFlags (pathBits (R - r) o)) (treeRoot F R) = encU F.rows r o := by
  have htr : F.rows ≤ 63 := forestRows_le_63 hn
  have hT : TreeRows (BitVec.ofNat 64 F.numLeaves) = H8 F.rows := treeRows_eq hn
  have hnn : (BitVec.ofNat 64 F.numLeaves).toNat = F.numLeaves := toNat_ofNat64_of_lt (by omega)
  have hRrows : R ≤ F.rows := testBit_le_forestRows hb
  obtain ⟨hc2, hcbits⟩ := climb_bits (R - r) o (by omega)
  unfold calculatePosition
  generalize climbLoop (nieceFlags (pathBits (R - r) o)) 0#64 0 = cl at hc2 hcbits
  obtain ⟨lri, rtt⟩ := cl
  simp only at hc2 hcbits
  subst hc2
  simp only [hT, toNat_H8 htr, roots_reverse]
  have hfind := findRootRow_spec (BitVec.ofNat 64 F.numLeaves) (treeRoot F) (treeRoot F R)
    (R := R) (by rw [hnn]; exact hb) rfl (by rw [hnn]; exact hmin) (F.rows + 1) 0 65
    (by omega) (by omega) (by omega)
  rw [hnn] at hfind
  rw [hfind]
  have e3 : ofInt 8 (R : Int) = H8 R := by unfold ofInt; rw [BitVec.ofInt_natCast]
  have hlt : (BitVec.ofNat 64 F.numLeaves).toNat < 2 ^ (F.rows + 1) := by
    rw [hnn]
    have h1 := le_two_pow_forestRows F.numLeaves
    have h2 := two_pow_succ' (forestRows F.numLeaves)
    have h3 := Nat.two_pow_pos (forestRows F.numLeaves)
    show F.numLeaves < 2 ^ (forestRows F.numLeaves + 1)
    omega
  rw [e3, Props.C16.rootPosition_enc htr hRrows _ hlt, hnn]
  have hroot : (rootPos F.numLeaves R).2 = o / 2 ^ (R - r - 0) := by
    rw [Nat.sub_zero, ho]; rfl
  rw [hroot]
  have := descendLoop_enc (h := F.rows) (R := R) (k := R - r) (o := o) htr (by omega) hRrows
    (by rw [ho]; exact rootOffset_lt hb) lri hcbits (R - r) 0 (by omega)
  simp only [Nat.sub_zero] at this
  rw [Nat.sub_zero, this, show R - (R - r) = r by omega]

/-! ### paths, distinct roots, and `GetLeafPosition` -/

theorem childWalk_eq_childPath : ∀ (k : Nat) (t : CTree H) (o : Nat),
    childWalk t k o = childPath t (pathBits k o) := by
  intro k
  induction k with
  | zero => intro t o; cases t <;> rfl
  | succ k ih =>
    intro t o
    cases t with
    | leaf h => rfl
    | node a b =>
      rw [childWalk, pathBits, childPath]
      cases o.testBit k
      · simp only [Bool.false_eq_true, if_false, child]; exact ih a o
      · simp only [if_true, child]; exact ih b o

theorem treeRoot_eq_hash {F : Forest H} {R : Nat} {t : CTree H} (ht : treeOf F R = some t) :
    treeRoot F R = t.hash := by
  unfold treeRoot
  unfold treeOf at ht
  rw [ht]

theorem tree_leaves_live {F : Forest H} {R : Nat} {t : CTree H} (ht : treeOf F R = some t) :
    ∀ x ∈ t.leaves, x ∈ F.liveLeaves := by
  intro x hx
  have h2 := SpecNodes.collapse_leaves _ _ _ ht _ hx
  have h3 := List.mem_of_mem_drop (List.mem_of_mem_take h2)
  exact Forest.mem_liveLeaves.2 h3

/-- if no non-zero hash sits at two places of `F` (`NodesDistinct F`: finite, decidable, no
assumption on the hash function), a non-empty tree's root hash differs from the root hash of
every other tree -/
theorem roots_distinct_nd (F : Forest H) (hn : F.numLeaves < 2 ^ 64) (hd : NodesDistinct F)
    {R R' : Nat} (hb : F.numLeaves.testBit R = true) (hb' : F.numLeaves.testBit R' = true)
    (hne : R' ≠ R) (hz : treeRoot F R ≠ zero) : treeRoot F R' ≠ treeRoot F R := by
  intro he
  have hmem : ∀ Q, F.numLeaves.testBit Q = true → Q ∈ treeRows F.numLeaves := by
    intro Q hq
    refine Spec.mem_treeRows.2 ⟨?_, hq⟩
    apply Classical.byContradiction
    intro hc
    have : F.numLeaves < 2 ^ Q :=
      Nat.lt_of_lt_of_le hn (Nat.pow_le_pow_right (by decide) (by omega))
    rw [Nat.testBit_lt_two_pow this] at hq
    cases hq
  obtain ⟨b, hx⟩ := rootNode_mem F R
  obtain ⟨b', hx'⟩ := rootNode_mem F R'
  have h1 := mem_nodes.2 ⟨R, ⟨hb, hmem R hb⟩, hx⟩
  have h2 := mem_nodes.2 ⟨R', ⟨hb', hmem R' hb'⟩, hx'⟩
  rw [he] at h2
  have := (hd.unique hz h1 h2).1
  simp only [rootPos, Prod.mk.injEq] at this
  exact hne this.1.symm

/-- under collision-freeness and distinct, well-formed live leaves, a non-empty tree's root
hash differs from the root hash of every other tree -/
theorem roots_distinct (cr : CR H) (F : Forest H) (hn : F.numLeaves < 2 ^ 64)
    (hnd : F.liveLeaves.Nodup) (hleaf : ∀ x ∈ F.liveLeaves, ∀ a b : H, x ≠ ph a b)
    {R R' : Nat} (hb : F.numLeaves.testBit R = true) (hb' : F.numLeaves.testBit R' = true)
    (hne : R' ≠ R) (hz : treeRoot F R ≠ zero) : treeRoot F R' ≠ treeRoot F R :=
  roots_distinct_nd F hn (nodesDistinct_of_CR cr F hn hnd hleaf) hb hb' hne hz

/-- **`GetLeafPosition` through `calculatePosition`.**  For a live leaf `h` there are a tree
`t` of the forest and a child path in it ending at the leaf node `h`, and `calculatePosition`
run on what the climb from that node observes returns the position the abstract look-up
(`posOf`) reports. -/
theorem getLeafPosition_calculatePosition_nd (nz : NZ H) (F : Forest H) (hn : F.numLeaves < 2 ^ 63)
    (hnd : F.liveLeaves.Nodup) (hleaf : ∀ x ∈ F.liveLeaves, x ≠ (zero : H))
    (hd : NodesDistinct F) {h : H} (hl : h ∈ F.liveLeaves) :
    ∃ R t path, R ∈ treeRows F.numLeaves ∧ treeOf F R = some t ∧
      childPath t path = some (.leaf h) ∧
      calculatePosition F (nieceFlags path) t.hash = (pollardGetLeafPosition F h).1 ∧
      (pollardGetLeafPosition F h).2 = true := by
  have hn64 : F.numLeaves < 2 ^ 64 := by omega
  obtain ⟨p, hp⟩ := (mem_liveLeaves_iff_leaf_node F hn64 h).1 hl
  have hpos := (PollardLookup.posOf_eq_some_iff F hn64 hnd h p).2 hp
  obtain ⟨R, ⟨hb, hRmem⟩, hx⟩ := mem_nodes.1 hp
  obtain ⟨u1, u2⟩ := treeNodes_under F R _ hx
  simp only at u1 u2
  rw [treeNodes_eq] at hx
  cases ht : treeOf F R with
  | none => rw [ht] at hx; simp at hx
  | some t =>
    rw [ht] at hx
    simp only at hx
    obtain ⟨s, hw, hh, hlf⟩ := mem_walk t R _ (collapse_depth _ _ _ ht) _ hx
    simp only at hw hh hlf
    cases s with
    | node a b => simp [isLeaf] at hlf
    | leaf h' =>
      simp only [CTree.hash] at hh
      subst hh
      refine ⟨R, t, pathBits (R - p.1) p.2, hRmem, ht, ?_, ?_, ?_⟩
      · rw [← childWalk_eq_childPath]; exact hw
      · have hroot := treeRoot_eq_hash ht
        have hz : treeRoot F R ≠ zero := by
          rw [hroot]
          exact CTree.hash_ne_zero nz.nonzero t (fun x hx => hleaf x (tree_leaves_live ht x hx))
        have := calculatePosition_enc F hn hb u1 u2 (fun R' hlt hb' =>
          roots_distinct_nd F hn64 hd hb hb' (by omega) hz)
        rw [hroot] at this
        rw [this]
        unfold pollardGetLeafPosition
        rw [hpos]
        rfl
      · unfold pollardGetLeafPosition
        rw [hpos]

/-- the same under collision-freeness `CR` (which yields `NodesDistinct F`) -/
theorem getLeafPosition_calculatePosition (cr : CR H) (F : Forest H) (hn : F.numLeaves < 2 ^ 63)
    (hnd : F.liveLeaves.Nodup)
    (hleaf : ∀ x ∈ F.liveLeaves, x ≠ (zero : H) ∧ ∀ a b : H, x ≠ ph a b)
    {h : H} (hl : h ∈ F.liveLeaves) :
    ∃ R t path, R ∈ treeRows F.numLeaves ∧ treeOf F R = some t ∧
      childPath t path = some (.leaf h) ∧
      calculatePosition F (nieceFlags path) t.hash = (pollardGetLeafPosition F h).1 ∧
      (pollardGetLeafPosition F h).2 = true :=
  getLeafPosition_calculatePosition_nd cr.toNZ F hn hnd (fun x hx => (hleaf x hx).1)
    (nodesDistinct_of_CR cr F (by omega) hnd (fun x hx => (hleaf x hx).2)) hl

end

end UtreexoVerif.Proofs.PollardCalcPos
