/-
  `updateProofAdd` (prove.go), level 2: the two position-moving stages before the merge.

  * `maybeRemap_enc`: `maybeRemap` re-encodes (row, offset) pairs for the number of rows after
    the additions;
  * `destroy_fold`: the `for _, del := range toDestroy` loop (one `getNewPositions([del], …,
    true)` call per destroyed root, each followed by a re-sort) moves every entry by `moveA`
    over the whole list of destroyed roots.
-/
import UtreexoVerif.Proofs.ProofUpdateRemove

namespace UtreexoVerif.Proofs.ProofUpdateRemap
open UtreexoVerif Spec Hasher Model
open UtreexoVerif.Proofs UtreexoVerif.Proofs.CalcGeo UtreexoVerif.Proofs.Movement
open UtreexoVerif.Proofs.ProofUpdateHelpers UtreexoVerif.Proofs.ProofUpdateLists
open UtreexoVerif.Proofs.ProofUpdateGnp UtreexoVerif.Proofs.MoveFold
open UtreexoVerif.Proofs.ProofUpdateRemove UtreexoVerif.Proofs.SpecNodes UtreexoVerif.Proofs.SpecSubs

/-! ### `maybeRemap` -/

/-- the per-entry formula of `maybeRemap` (no `row == 0` shortcut) is `translatePos` -/
theorem remapFn_eq (pos : U64) (a b : U8) :
    (pos - Model.startPositionAtRow (Model.DetectRow pos a) a) +
        Model.startPositionAtRow (Model.DetectRow pos a) b = Model.translatePos pos a b := by
  unfold Model.translatePos
  by_cases h : Model.DetectRow pos a = 0#8
  · rw [h]
    unfold Model.startPositionAtRow
    simp
  · have hne : (Model.DetectRow pos a == 0#8) = false := beq_false_of_ne h
    simp only [hne, Bool.false_eq_true, if_false]

theorem forestRows_mono {n m : Nat} (h : n ≤ m) : forestRows n ≤ forestRows m :=
  SpecView.forestRows_le (Nat.le_trans h (SpecView.le_two_pow_forestRows m))

section
variable {H : Type}

/-- 1. `maybeRemap` re-encodes positions for the (possibly larger) number of rows after the
additions -/
theorem maybeRemap_enc {n k : Nat} (hN : n + k ≤ 2 ^ 63) (L : List (Pos × H))
    (hL : ∀ x ∈ L, Valid (forestRows n) x.1) :
    Model.maybeRemap (BitVec.ofNat 64 n) (BitVec.ofNat 64 k) (L.map (enc2 (forestRows n))) =
      L.map (enc2 (forestRows (n + k))) := by
  have hn : n ≤ 2 ^ 63 := by omega
  have h63 : forestRows n ≤ 63 := rows_le_63 hn
  have h63' : forestRows (n + k) ≤ 63 := rows_le_63 hN
  have hmono : forestRows n ≤ forestRows (n + k) := forestRows_mono (by omega)
  unfold Model.maybeRemap
  rw [← BitVec.ofNat_add, treeRows_eq' hN, treeRows_eq' hn]
  by_cases hlt : forestRows n < forestRows (n + k)
  · have hc : H8 (forestRows (n + k)) > H8 (forestRows n) := by
      show H8 (forestRows n) < H8 (forestRows (n + k))
      rw [BitVec.lt_def, toNat_H8 h63, toNat_H8 h63']
      exact hlt
    simp only [hc, if_true]
    rw [List.map_map]
    apply List.map_congr_left
    intro x hx
    obtain ⟨hv1, hv2⟩ := hL x hx
    have hpow : 2 ^ (forestRows n - x.1.1) ≤ 2 ^ (forestRows (n + k) - x.1.1) :=
      Nat.pow_le_pow_right (by omega) (by omega)
    simp only [Function.comp, enc2]
    rw [remapFn_eq]
    unfold E
    rw [Props.C16.translatePos_enc h63 hv1 hv2 h63' (by omega) (by omega)]
  · have he : forestRows (n + k) = forestRows n := by omega
    have hc : ¬ H8 (forestRows (n + k)) > H8 (forestRows n) := by
      rw [he]
      exact BitVec.lt_irrefl _
    simp only [hc, if_false]
    rw [he]

end

/-! ### the `toDestroy` loop -/

/-- 2. folding over a pair of independent states -/
theorem foldl_pair {α β γ : Type} (f : α → γ → α) (g : β → γ → β) (l : List γ) (a : α) (b : β) :
    l.foldl (fun (st : α × β) d => (f st.1 d, g st.2 d)) (a, b) = (l.foldl f a, l.foldl g b) := by
  induction l generalizing a b with
  | nil => rfl
  | cons d t ih => simp only [List.foldl_cons]; exact ih _ _

/-- `moveA` over a list = `moveA` over the head then over the tail -/
theorem moveA_cons (n R : Nat) (T : Pos) (rest : List Pos) (c : Pos) :
    moveA n R (T :: rest) c = moveA n R rest (moveA n R [T] c) := by
  by_cases h : (CalcComplete.inTree n R T && hitA T c) = true
  · simp only [moveA, h, if_true]
  · simp only [moveA, h, Bool.false_eq_true, if_false]

section
variable {H : Type} [DecidableEq H] [Hasher H]

theorem dtOK_single {N R : Nat} {d : Pos} {rest : List Pos} (h : DtOK N R (d :: rest)) :
    DtOK N R [d] := by
  intro T hT
  rw [List.mem_singleton] at hT
  subst hT
  exact h T List.mem_cons_self

/-- one `getNewPositions([d], …)` step keeps a position in its tree -/
theorem step_facts {N : Nat} {d p : Pos} {T : Nat} (hT : T ∈ treeRows N)
    (hu : Under T (2 * (N >>> (T + 1))) p) (hd : DtOK N T [d]) :
    Under T (2 * (N >>> (T + 1))) (moveA N (treeRowOf N p) [d] p) ∧
      treeRowOf N (moveA N (treeRowOf N p) [d] p) = T := by
  rw [treeRowOf_under hT hu]
  have h1 := moveA_under [d] p hu (hd.lt hT)
  exact ⟨h1, treeRowOf_under hT h1⟩

/-- 3. one `getNewPositions([del], …, appendRoots = true)` call per destroyed root, applied in
turn (with the re-sorting after each call), moves every entry by `moveA` over the whole list -/
theorem destroy_fold {N : Nat} (hN : N ≤ 2 ^ 63) : ∀ (dels : List Pos) (L : List (Pos × H)),
    (∀ R, DtOK N R dels) →
    (∀ x ∈ L, x.2 ≠ zero) →
    (∀ x ∈ L, ∃ T, T ∈ treeRows N ∧ Under T (2 * (N >>> (T + 1))) x.1) →
    (L.map (enc2 (forestRows N))).Pairwise (fun a b => a.1 ≤ b.1) →
    (L.map (fun x => E (forestRows N) (moveA N (treeRowOf N x.1) dels x.1))).Nodup →
    dels.foldl (fun st d => Model.getNewPositions [E (forestRows N) d] st (BitVec.ofNat 64 N) true)
        (L.map (enc2 (forestRows N))) =
      Model.sortHP (L.map (fun x => (E (forestRows N) (moveA N (treeRowOf N x.1) dels x.1), x.2))) := by
  intro dels
  induction dels with
  | nil =>
    intro L _ _ _ hs _
    rw [List.foldl_nil]
    have e : L.map (fun x => (E (forestRows N) (moveA N (treeRowOf N x.1) [] x.1), x.2)) =
        L.map (enc2 (forestRows N)) := rfl
    rw [e, sortHP_eq_self hs]
  | cons d rest ih =>
    intro L hdt hz hu hs hnd
    rw [List.foldl_cons]
    have step := getNewPositions_enc hN [d] true L (fun x hx _ => by
        obtain ⟨T, hT, hux⟩ := hu x hx
        exact ⟨T, hT, hux, dtOK_single (hdt T)⟩) (Or.inl rfl)
    have hfil : L.filter (fun x => decide (x.2 ≠ zero)) = L :=
      List.filter_eq_self.2 (fun x hx => by simpa using hz x hx)
    rw [hfil] at step
    have e0 : ([d].map (E (forestRows N))) = [E (forestRows N) d] := rfl
    have e1 : (L.map fun x => (E (forestRows N) x.1, x.2)) = L.map (enc2 (forestRows N)) := rfl
    rw [e0, e1] at step
    rw [step]
    -- the list after the first call, on pairs
    let m1 : Pos → Pos := fun p => moveA N (treeRowOf N p) [d] p
    let L' : List (Pos × H) := L.map (fun x => (m1 x.1, x.2))
    have e2 : L.map (fun x => (E (forestRows N) (moveA N (treeRowOf N x.1) [d] x.1), x.2)) =
        L'.map (enc2 (forestRows N)) := by
      rw [List.map_map]; rfl
    let L1 : List (Pos × H) :=
      Model.sortBy ((fun y : U64 × H => y.1) ∘ enc2 (forestRows N)) L'
    have e3 : Model.sortHP (L'.map (enc2 (forestRows N))) = L1.map (enc2 (forestRows N)) :=
      sortBy_map (fun y : U64 × H => y.1) (enc2 (forestRows N)) L'
    rw [e2, e3]
    have hperm : L1.Perm L' := SortBy.sortBy_perm _ _
    have hmem : ∀ x ∈ L1, ∃ y ∈ L, x = (m1 y.1, y.2) := by
      intro x hx
      obtain ⟨y, hy, e⟩ := List.mem_map.1 (hperm.mem_iff.1 hx)
      exact ⟨y, hy, e.symm⟩
    have key : ∀ y ∈ L, moveA N (treeRowOf N (m1 y.1)) rest (m1 y.1) =
        moveA N (treeRowOf N y.1) (d :: rest) y.1 := by
      intro y hy
      obtain ⟨T, hT, huy⟩ := hu y hy
      have f := step_facts hT huy (dtOK_single (hdt T))
      show moveA N (treeRowOf N (moveA N (treeRowOf N y.1) [d] y.1)) rest
        (moveA N (treeRowOf N y.1) [d] y.1) = _
      rw [f.2, treeRowOf_under hT huy]
      exact (moveA_cons N T d rest y.1).symm
    have hkeys : L'.map (fun x => E (forestRows N) (moveA N (treeRowOf N x.1) rest x.1)) =
        L.map (fun x => E (forestRows N) (moveA N (treeRowOf N x.1) (d :: rest) x.1)) := by
      rw [List.map_map]
      apply List.map_congr_left
      intro y hy
      show E (forestRows N) (moveA N (treeRowOf N (m1 y.1)) rest (m1 y.1)) = _
      rw [key y hy]
    have hfin : L'.map (fun x => (E (forestRows N) (moveA N (treeRowOf N x.1) rest x.1), x.2)) =
        L.map (fun x => (E (forestRows N) (moveA N (treeRowOf N x.1) (d :: rest) x.1), x.2)) := by
      rw [List.map_map]
      apply List.map_congr_left
      intro y hy
      show (E (forestRows N) (moveA N (treeRowOf N (m1 y.1)) rest (m1 y.1)), y.2) = _
      rw [key y hy]
    have hnd1 : (L1.map (fun x => E (forestRows N) (moveA N (treeRowOf N x.1) rest x.1))).Nodup := by
      refine ((hperm.map _).nodup_iff).2 ?_
      rw [hkeys]
      exact hnd
    rw [ih L1 (fun R => (hdt R).tail)
      (by
        intro x hx
        obtain ⟨y, hy, e⟩ := hmem x hx
        rw [e]
        exact hz y hy)
      (by
        intro x hx
        obtain ⟨y, hy, e⟩ := hmem x hx
        obtain ⟨T, hT, huy⟩ := hu y hy
        rw [e]
        exact ⟨T, hT, (step_facts hT huy (dtOK_single (hdt T))).1⟩)
      (by
        rw [List.pairwise_map]
        exact SortBy.sortBy_sorted _ _)
      hnd1]
    rw [← hfin]
    apply sortHP_eq_of_perm (hperm.map _)
    show ((L1.map _).map _).Nodup
    rw [List.map_map]
    exact hnd1

end

/-! ### non-vacuity -/

section examples

/-- 4 leaves (2 rows) + 1 addition (3 rows): `(1,1)` is position 5 with 2 rows and 9 with 3 rows;
leaf `(0,2)` keeps position 2 -/
example : forestRows 4 = 2 ∧ forestRows (4 + 1) = 3 ∧ E 2 (1, 1) = 5#64 ∧ E 3 (1, 1) = 9#64 := by
  decide +kernel

example : Model.maybeRemap 4#64 1#64 [(2#64, 7), (5#64, 8)] = [(2#64, 7), (9#64, 8)] := by
  decide +kernel

example : Model.maybeRemap (BitVec.ofNat 64 4) (BitVec.ofNat 64 1)
      ([(((0, 2) : Pos), 7), ((1, 1), 8)].map (enc2 (forestRows 4))) =
    [(((0, 2) : Pos), 7), ((1, 1), 8)].map (enc2 (forestRows (4 + 1))) := by
  apply maybeRemap_enc (by decide)
  intro x hx
  simp only [List.mem_cons, List.not_mem_nil, or_false] at hx
  unfold Valid
  rcases hx with rfl | rfl <;> decide +kernel

/-- the number of rows does not grow: nothing changes -/
example : Model.maybeRemap 5#64 2#64 [(2#64, 7), (9#64, 8)] = [(2#64, 7), (9#64, 8)] := by
  decide +kernel

private inductive Hx | z | a | b
  deriving DecidableEq

private instance : Hasher Hx := ⟨fun _ _ => Hx.a, Hx.z⟩

/-- 8 leaves, `(0,3)` then `(1,0)` are destroyed: `(0,2)` moves to `(1,1)`, then to `(2,0)`;
`(2,1)` stays -/
private def exL : List (Pos × Hx) := [((0, 2), .a), ((2, 1), .b)]

example : moveA 8 3 [(0, 3), (1, 0)] (0, 2) = (2, 0) ∧ moveA 8 3 [(0, 3), (1, 0)] (2, 1) = (2, 1) := by
  decide +kernel

private theorem ex_under (p : Pos)
    (hp : p = (0, 2) ∨ p = (2, 1) ∨ p = (0, 3) ∨ p = (1, 0)) :
    Under 3 (2 * (8 >>> (3 + 1))) p := by
  unfold Under
  rcases hp with rfl | rfl | rfl | rfl <;> decide

/-- the model on the instance -/
example : [3#64, 8#64].foldl (fun st d => Model.getNewPositions [d] st 8#64 true)
    [(2#64, Hx.a), (13#64, Hx.b)] = [(12#64, Hx.a), (13#64, Hx.b)] := by decide +kernel

/-- the hypotheses of `destroy_fold` hold on it -/
example : [((0, 3) : Pos), (1, 0)].foldl
      (fun st d => Model.getNewPositions [E (forestRows 8) d] st (BitVec.ofNat 64 8) true)
      (exL.map (enc2 (forestRows 8))) =
    Model.sortHP (exL.map (fun x =>
      (E (forestRows 8) (moveA 8 (treeRowOf 8 x.1) [(0, 3), (1, 0)] x.1), x.2))) := by
  apply destroy_fold (by decide)
  · intro R T hT
    simp only [List.mem_cons, List.not_mem_nil, or_false] at hT
    refine ⟨3, by decide +kernel, ex_under T (by grind), ?_⟩
    rcases hT with rfl | rfl <;> intro e <;> subst e <;> decide
  · intro x hx
    simp only [exL, List.mem_cons, List.not_mem_nil, or_false] at hx
    rcases hx with rfl | rfl <;> decide
  · intro x hx
    simp only [exL, List.mem_cons, List.not_mem_nil, or_false] at hx
    refine ⟨3, by decide +kernel, ex_under _ ?_⟩
    rcases hx with rfl | rfl <;> simp
  · decide +kernel
  · decide +kernel

end examples


end UtreexoVerif.Proofs.ProofUpdateRemap
