/-
  `liveLeaves` of `delLeaves` / `addMany` / `modify`, and the block invariant used by the
  history-level refinement theorems (Props/C01d.lean, Props/C11b.lean).
-/
import UtreexoVerif.Proofs.SpecForest
set_option linter.unusedSectionVars false

namespace UtreexoVerif.Proofs.LiveLeaves
open UtreexoVerif Spec Spec.Forest Hasher

variable {H : Type} [DecidableEq H] [Hasher H]

theorem liveLeaves_delLeaves_eq (F : Forest H) (L : List H) :
    (F.delLeaves L).liveLeaves = F.liveLeaves.filter (fun x => decide (x ∉ L)) := by
  cases F with
  | mk slots =>
    simp only [Forest.delLeaves, Forest.liveLeaves]
    induction slots with
    | nil => rfl
    | cons s rest ih =>
      cases s with
      | none => simpa using ih
      | some x =>
        by_cases hx : x ∈ L
        · simpa [hx] using ih
        · simpa [hx] using ih

theorem liveLeaves_addMany_eq (F : Forest H) (adds : List H) :
    (F.addMany adds).liveLeaves = F.liveLeaves ++ adds := by
  simp only [Forest.addMany, Forest.liveLeaves, List.filterMap_append]
  congr 1
  induction adds with
  | nil => rfl
  | cons a r ih => simp [ih]

theorem liveLeaves_modify_eq (F : Forest H) (dels adds : List H) :
    (F.modify dels adds).liveLeaves = F.liveLeaves.filter (fun x => decide (x ∉ dels)) ++ adds := by
  unfold Forest.modify
  rw [liveLeaves_addMany_eq, liveLeaves_delLeaves_eq]

theorem mem_liveLeaves_delLeaves {F : Forest H} {L : List H} {x : H} :
    x ∈ (F.delLeaves L).liveLeaves ↔ x ∈ F.liveLeaves ∧ x ∉ L := by
  rw [liveLeaves_delLeaves_eq, List.mem_filter]
  simp

theorem mem_liveLeaves_modify {F : Forest H} {dels adds : List H} {x : H} :
    x ∈ (F.modify dels adds).liveLeaves ↔ (x ∈ F.liveLeaves ∧ x ∉ dels) ∨ x ∈ adds := by
  rw [liveLeaves_modify_eq, List.mem_append, List.mem_filter]
  simp

theorem liveLeaves_delLeaves_nodup {F : Forest H} (h : F.liveLeaves.Nodup) (L : List H) :
    (F.delLeaves L).liveLeaves.Nodup := by
  rw [liveLeaves_delLeaves_eq]
  exact h.filter _

/-- the live leaves after a block are duplicate-free if they were before and the additions are
new and pairwise distinct -/
theorem liveLeaves_modify_nodup {F : Forest H} (h : F.liveLeaves.Nodup) (dels : List H)
    {adds : List H} (ha : adds.Nodup) (hd : ∀ x ∈ adds, x ∉ F.liveLeaves) :
    (F.modify dels adds).liveLeaves.Nodup := by
  rw [liveLeaves_modify_eq, List.nodup_append]
  refine ⟨h.filter _, ha, ?_⟩
  intro a ha' b hb hab
  subst hab
  exact hd a hb (List.mem_filter.1 ha').1

theorem numLeaves_modify (F : Forest H) (dels adds : List H) :
    (F.modify dels adds).numLeaves = F.numLeaves + adds.length := by
  simp [Forest.modify, Forest.addMany, Forest.delLeaves, Forest.numLeaves]

theorem liveLeaves_empty : (Forest.empty : Forest H).liveLeaves = [] := rfl

end UtreexoVerif.Proofs.LiveLeaves
