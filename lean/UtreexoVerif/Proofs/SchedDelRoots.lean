/-
  Property C15, helper: what `AddBlockSummary` does with the deletions of a block.

  (A) `delRootInfo_spec`: `delRootInfo` marks exactly the roots whose tree dies;
  (B) `summaries_some` / `summaries_spec`: the summaries of a well-formed history, decoded;
  (C) `translate_targets`: the translation of the targets to 63 rows.
-/
import UtreexoVerif.Proofs.SchedLives
import UtreexoVerif.Proofs.SchedPos
import UtreexoVerif.Proofs.SchedDeTwin
import UtreexoVerif.Proofs.SchedAddU
import UtreexoVerif.Proofs.SchedUndoAdd
import UtreexoVerif.Props.C16d
import UtreexoVerif.Props.C15

namespace UtreexoVerif.Proofs.SchedDelRoots
open UtreexoVerif UtreexoVerif.GoInt Spec Spec.Sched Model
open UtreexoVerif.Proofs UtreexoVerif.Proofs.FinalPos UtreexoVerif.Proofs.SchedSem
open UtreexoVerif.Proofs.SpecNodes UtreexoVerif.Proofs.SpecSubs UtreexoVerif.Proofs.CalcGeo
open UtreexoVerif.Proofs.Movement UtreexoVerif.Proofs.ChunkBridge UtreexoVerif.Proofs.CalcComplete
open UtreexoVerif.Proofs.SchedLives UtreexoVerif.Proofs.SchedPos UtreexoVerif.Proofs.SchedDeTwin

/-! ### (A) `delRootInfo` -/

/-- the nested loops of `delRootInfo` -/
theorem foldl_mark : ∀ (L : List U64) (roots : List RootInfo),
    L.foldl (fun roots pos =>
        roots.map (fun root => if root.pos == pos then { root with isZombie := true } else root)) roots =
      roots.map (fun r => ({ r with isZombie := r.isZombie || L.contains r.pos } : RootInfo)) := by
  intro L
  induction L with
  | nil =>
    intro roots
    simp
  | cons a L ih =>
    intro roots
    rw [List.foldl_cons, ih, List.map_map]
    apply List.map_congr_left
    intro r _
    simp only [Function.comp, List.contains_cons]
    by_cases h : r.pos == a
    · simp [h]
    · simp [h]

/-- a chunk is dead after the deletion iff all its live slots are deleted -/
theorem chunkAlive_kill_false_iff (S : List (Option Nat)) (D : List Nat) (l b : Nat) :
    chunkAlive (SchedSem.kill S D) l b = false ↔
      ∀ i x, b * 2 ^ l ≤ i → i < (b + 1) * 2 ^ l → S[i]? = some (some x) → x ∈ D := by
  rw [chunkAlive_eq_false_iff]
  constructor
  · intro h i x h1 h2 hi
    apply Classical.byContradiction
    intro hx
    exact h i x h1 h2 ((kill_getElem? S D i x).2 ⟨hi, hx⟩)
  · intro h i x h1 h2 hi
    obtain ⟨h3, h4⟩ := (kill_getElem? S D i x).1 hi
    exact h4 (h i x h1 h2 h3)

/-- a dead chunk stays dead -/
theorem chunkAlive_kill_of_dead {S : List (Option Nat)} {l b : Nat} (D : List Nat)
    (h : chunkAlive S l b = false) : chunkAlive (SchedSem.kill S D) l b = false := by
  rw [chunkAlive_kill_false_iff]
  intro i x h1 h2 hi
  exact absurd hi ((chunkAlive_eq_false_iff S l b).1 h i x h1 h2)

theorem kill_nil (S : List (Option Nat)) : SchedSem.kill S [] = S := by
  unfold SchedSem.kill
  conv => rhs; rw [← List.map_id S]
  apply List.map_congr_left
  intro x _
  cases x <;> simp

/-- the root of a live tree is a maximal fully-deleted subtree iff the deletion kills the tree -/
theorem isDT_root_iff (S : List (Option Nat)) (D : List Nat) {h : Nat} (hn : S.length < 2 ^ 64)
    (hb : S.length.testBit h = true) {t : CTree Nat}
    (ht : chunk S h (2 * (S.length / 2 ^ (h + 1))) = some t) :
    IsDT (Forest.mk S) D (h, 2 * (S.length / 2 ^ (h + 1))) ↔ delT D t = none := by
  have sroot : SubAtT (Forest.mk S) h (h, 2 * (S.length / 2 ^ (h + 1))) t := by
    have := SubAtT.root (F := Forest.mk S) (h := h) (t0 := t) (mem_treeRows_of_bit hn hb)
      (by rw [tree_eq_chunk]; exact ht)
    rw [rootPos_eq] at this
    exact this
  constructor
  · rintro ⟨h', t', s', hd, _⟩
    rw [← (s'.unique sroot).2]
    exact hd
  · intro hd
    exact ⟨h, t, sroot, hd, Or.inl rfl⟩

/-- the tree on row `h` dies iff its root is one of the maximal fully-deleted subtrees -/
theorem root_dies_iff (S : List (Option Nat)) (D : List Nat) {h : Nat} (hn : S.length < 2 ^ 64)
    (hb : S.length.testBit h = true)
    (hal : chunkAlive S h (2 * (S.length / 2 ^ (h + 1))) = true) :
    IsDT (Forest.mk S) D (h, 2 * (S.length / 2 ^ (h + 1))) ↔
      chunkAlive (SchedSem.kill S D) h (2 * (S.length / 2 ^ (h + 1))) = false := by
  cases ht : chunk S h (2 * (S.length / 2 ^ (h + 1))) with
  | none => unfold chunkAlive at hal; rw [ht] at hal; cases hal
  | some t =>
    rw [isDT_root_iff S D hn hb ht, delT_eq_none_iff', chunkAlive_kill_false_iff]
    constructor
    · intro hall i x h1 h2 hi
      exact hall x ((chunk_leaves_iff S ht x).2 ⟨i, h1, h2, hi⟩)
    · intro hall x hx
      obtain ⟨i, h1, h2, hi⟩ := (chunk_leaves_iff S ht x).1 hx
      exact hall i x h1 h2 hi

/-- **`delRootInfo` marks exactly the roots whose tree dies** (for any list `rows` of tree rows) -/
theorem delRootInfo_spec (S : List (Option Nat)) (hc : Canon S) (hn : S.length ≤ 2 ^ 62)
    (D : List Nat) (hD : D.Nodup) (hlive : ∀ s ∈ D, Live S s) (rows : List Nat)
    (hrows : ∀ h ∈ rows, S.length.testBit h = true) :
    Model.delRootInfo (H8 63)
        (rows.map fun h => ({ pos := E 63 (h, 2 * (S.length / 2 ^ (h + 1))),
                              isZombie := !Spec.chunkAlive S h (2 * (S.length / 2 ^ (h + 1))) } : Model.RootInfo))
        (D.map fun s => E 63 (posS S s)) =
      rows.map fun h => ({ pos := E 63 (h, 2 * (S.length / 2 ^ (h + 1))),
                           isZombie := !Spec.chunkAlive (SchedSem.kill S D) h (2 * (S.length / 2 ^ (h + 1))) } : Model.RootInfo) := by
  have hn64 : S.length < 2 ^ 64 := by omega
  by_cases hD0 : D = []
  · subst hD0
    simp [Model.delRootInfo, kill_nil]
  · have hne : (D.map fun s => E 63 (posS S s)).isEmpty = false := by
      cases D with
      | nil => exact absurd rfl hD0
      | cons a D' => rfl
    unfold Model.delRootInfo
    rw [hne]
    simp only [Bool.false_eq_true, if_false]
    obtain ⟨dtp, h1, _, h3⟩ := deTwin_spec_63 (F := Forest.mk S) (D := D)
      (by show S.length ≤ 2 ^ 63; omega) (liveLeaves_nodup hc) hD
      (fun x hx => (mem_liveLeaves hc x).2 (hlive x hx))
    have etg : (D.map (fun l => ((Forest.mk S).posOf l).getD (0, 0))).map (E 63) =
        D.map fun s => E 63 (posS S s) := by
      rw [List.map_map]
      apply List.map_congr_left
      intro s hs
      simp only [Function.comp, posOf_eq hn64 hc (hlive s hs), Option.getD_some]
    rw [etg] at h1
    rw [h1, foldl_mark, List.map_map]
    apply List.map_congr_left
    intro h hh
    have hb := hrows h hh
    have h62 : h ≤ 62 := by
      apply Classical.byContradiction
      intro hcn
      have : S.length < 2 ^ h := Nat.lt_of_le_of_lt hn (Nat.pow_lt_pow_right (by decide) (by omega))
      rw [Nat.testBit_lt_two_pow this] at hb
      cases hb
    have hv := SchedAddU.root_valid (n := S.length) (j := h) (by omega) h62
    have hdv : ∀ p ∈ dtp, Valid 63 p := by
      intro p hp
      obtain ⟨h', t, s, _⟩ := (h3 p).1 hp
      exact Valid.mono (rows_le_63 (n := (Forest.mk S).numLeaves) (by show S.length ≤ 2 ^ 63; omega))
        s.inF.valid
    have hmem : (dtp.map (E 63)).contains (E 63 (h, 2 * (S.length / 2 ^ (h + 1)))) = true ↔
        IsDT (Forest.mk S) D (h, 2 * (S.length / 2 ^ (h + 1))) := by
      rw [List.contains_iff_mem, List.mem_map, ← h3]
      constructor
      · rintro ⟨p, hp, he⟩
        rw [← E_inj (Nat.le_refl 63) (hdv p hp) hv he]
        exact hp
      · intro hp
        exact ⟨_, hp, rfl⟩
    simp only [Function.comp]
    congr 1
    cases hal : chunkAlive S h (2 * (S.length / 2 ^ (h + 1))) with
    | false =>
      rw [chunkAlive_kill_of_dead D hal]
      simp
    | true =>
      have hr := root_dies_iff S D hn64 hb hal
      simp only [Bool.not_true, Bool.false_or]
      rw [Bool.eq_iff_iff, hmem, hr]
      simp

/-! ### (C) the translation done by `AddBlockSummary` -/

/-- **the targets of a block, translated to 63 rows** -/
theorem translate_targets (S : List (Option Nat)) (hn : S.length ≤ 2 ^ 62) (D : List Nat)
    (hD : ∀ s ∈ D, s < S.length) :
    Model.translatePositions (D.map fun s => E (forestRows S.length) (posS S s))
        (Model.TreeRows (BitVec.ofNat 64 S.length)) Model.CSTTotalRows =
      D.map fun s => E 63 (posS S s) := by
  have hn63 : S.length ≤ 2 ^ 63 := by omega
  rw [treeRows_eq' hn63, show Model.CSTTotalRows = H8 63 from rfl]
  have := Props.C16.translatePositions_enc (H := forestRows S.length) (H' := 63) (rows_le_63 hn63)
    (Nat.le_refl _) (D.map (posS S)) (by
      intro p hp
      obtain ⟨s, hs, rfl⟩ := List.mem_map.1 hp
      obtain ⟨h1, h2⟩ := posS_valid hn63 (hD s hs)
      exact ⟨h2, h1⟩)
  rw [List.map_map, List.map_map] at this
  exact this

/-! ### (B) the summaries of a well-formed history -/

theorem mapM_some {α β : Type} (f : α → Option β) (g : α → β) : ∀ l : List α,
    (∀ x ∈ l, f x = some (g x)) → l.mapM f = some (l.map g) := by
  intro l
  induction l with
  | nil => intro _; rfl
  | cons a l ih =>
    intro h
    rw [List.mapM_cons, h a (by simp), ih (fun x hx => h x (by simp [hx]))]
    rfl

/-- the target a prover emits for a slot deleted by block `t` -/
theorem targetOf_eq {h : History} (hw : wellFormed h = true) (htot : total h ≤ 2 ^ 62) {t : Nat}
    {b : Block} (hb : h[t]? = some b) {s : Nat} (hs : s ∈ b.delSlots) :
    (lives h).targetOf t s =
      some (Spec.enc (forestRows (stateAt h t).length) (posS (stateAt h t) s)) := by
  have ht : t ≤ h.length := Nat.le_of_lt (List.getElem?_eq_some_iff.mp hb).1
  have hl := (wf_dels hw hb).2 s hs
  have hlen : (stateAt h t).length < 2 ^ 64 := by
    have := pre_le_total h t
    rw [stateAt_length_pre]
    omega
  unfold Lives.targetOf
  simp only
  rw [flags_eq hw ht, before_eq, slotPos_flags hlen hl]
  rfl

/-- **the summaries of a well-formed history exist and are the encoded positions of the deleted
slots in the state before the block** -/
theorem summaries_some {h : History} (hw : wellFormed h = true) (htot : total h ≤ 2 ^ 62) :
    Props.C15.summariesOf h = some (h.zipIdx.map fun (bt : Block × Nat) =>
      (bt.1.delSlots.map (fun s => E (forestRows (stateAt h bt.2).length) (posS (stateAt h bt.2) s)),
        BitVec.ofNat 16 bt.1.numAdds)) := by
  unfold Props.C15.summariesOf
  simp only
  apply mapM_some
  intro bt hbt
  have hb : h[bt.2]? = some bt.1 := List.mem_zipIdx_iff_getElem?.1 hbt
  rw [mapM_some _ (fun s => Spec.enc (forestRows (stateAt h bt.2).length) (posS (stateAt h bt.2) s))
    bt.1.delSlots (fun s hs => targetOf_eq hw htot hb hs)]
  simp only [bind, Option.bind, pure, List.map_map]
  rfl

theorem summaries_spec {h : History} {blocks : List (List U64 × Model.U16)}
    (hw : wellFormed h = true) (htot : total h ≤ 2 ^ 62)
    (hs : Props.C15.summariesOf h = some blocks) :
    blocks = h.zipIdx.map fun (bt : Block × Nat) =>
      (bt.1.delSlots.map (fun s => E (forestRows (stateAt h bt.2).length) (posS (stateAt h bt.2) s)),
        BitVec.ofNat 16 bt.1.numAdds) := by
  rw [summaries_some hw htot] at hs
  exact (Option.some.inj hs).symm

/-! ### non-vacuity -/

namespace Example

/-- seven slots (trees on rows 2, 1, 0), slots 1 and 4 dead -/
def exS : List (Option Nat) := [some 0, none, some 2, some 3, none, some 5, some 6]

theorem exCanon : Canon exS := by
  intro i x h
  rcases i with _ | _ | _ | _ | _ | _ | _ | i <;> simp [exS] at h <;> omega

theorem exLive : ∀ s ∈ [5, 0], Live exS s := by
  intro s hs
  simp only [List.mem_cons, List.not_mem_nil, or_false] at hs
  rcases hs with rfl | rfl <;> (unfold Live; decide)

/-- `delRootInfo_spec` on `exS`, deleting slots 5 and 0: … -/
example :
    Model.delRootInfo (H8 63)
        ([2, 1, 0].map fun h =>
          ({ pos := E 63 (h, 2 * (exS.length / 2 ^ (h + 1))),
             isZombie := !Spec.chunkAlive exS h (2 * (exS.length / 2 ^ (h + 1))) } : Model.RootInfo))
        ([5, 0].map fun s => E 63 (posS exS s)) =
      [2, 1, 0].map fun h =>
          ({ pos := E 63 (h, 2 * (exS.length / 2 ^ (h + 1))),
             isZombie := !Spec.chunkAlive (SchedSem.kill exS [5, 0]) h (2 * (exS.length / 2 ^ (h + 1))) } : Model.RootInfo) :=
  delRootInfo_spec exS exCanon (by decide) [5, 0] (by decide) exLive [2, 1, 0] (by decide)

/-- … the tree on row 1 (slots 4, 5) dies, the other two survive; and the Go function computes
just that -/
example :
    ([2, 1, 0].map fun h =>
          ({ pos := E 63 (h, 2 * (exS.length / 2 ^ (h + 1))),
             isZombie := !Spec.chunkAlive (SchedSem.kill exS [5, 0]) h (2 * (exS.length / 2 ^ (h + 1))) } : Model.RootInfo)) =
      [⟨E 63 (2, 0), false⟩, ⟨E 63 (1, 2), true⟩, ⟨E 63 (0, 6), false⟩] ∧
    Model.delRootInfo (H8 63)
        [⟨E 63 (2, 0), false⟩, ⟨E 63 (1, 2), false⟩, ⟨E 63 (0, 6), false⟩]
        ([5, 0].map fun s => E 63 (posS exS s)) =
      [⟨E 63 (2, 0), false⟩, ⟨E 63 (1, 2), true⟩, ⟨E 63 (0, 6), false⟩] := by decide +kernel

/-- `translate_targets` on `exS` (`forestRows 7 = 3`): slot 0 stands at `(1, 0)` (its sibling is
dead), slot 5 is the root `(1, 2)` of its tree -/
example :
    Model.translatePositions ([5, 0].map fun s => E (forestRows exS.length) (posS exS s))
        (Model.TreeRows (BitVec.ofNat 64 exS.length)) Model.CSTTotalRows =
      [5, 0].map fun s => E 63 (posS exS s) :=
  translate_targets exS (by decide) [5, 0] (by decide)

example : ([5, 0].map fun s => E (forestRows exS.length) (posS exS s)) = [10#64, 8#64] ∧
    ([5, 0].map fun s => E 63 (posS exS s)) = [9223372036854775810#64, 9223372036854775808#64] := by
  decide +kernel

/-- a well-formed three-block history: block 1 deletes slot 0, block 2 deletes slots 2 and 1 -/
def exH : History := [⟨2, []⟩, ⟨1, [0]⟩, ⟨0, [2, 1]⟩]

theorem exWF : wellFormed exH = true ∧ total exH ≤ 2 ^ 62 := by decide +kernel

example : Props.C15.summariesOf exH = some (exH.zipIdx.map fun (bt : Block × Nat) =>
      (bt.1.delSlots.map (fun s => E (forestRows (stateAt exH bt.2).length) (posS (stateAt exH bt.2) s)),
        BitVec.ofNat 16 bt.1.numAdds)) :=
  summaries_some exWF.1 exWF.2

/-- the decoded summaries, concretely: block 1 names position 0 of a 2-leaf forest (1 row),
block 2 names positions 2 and 4 (= `(1, 0)`: slot 1 moved up, slot 0 being dead) of a 3-leaf
forest (2 rows) -/
example : (exH.zipIdx.map fun (bt : Block × Nat) =>
      (bt.1.delSlots.map (fun s => E (forestRows (stateAt exH bt.2).length) (posS (stateAt exH bt.2) s)),
        (BitVec.ofNat 16 bt.1.numAdds : Model.U16))) =
    [([], 2#16), ([0#64], 1#16), ([2#64, 4#64], 0#16)] := by decide +kernel

end Example

#print axioms delRootInfo_spec
#print axioms summaries_some
#print axioms summaries_spec
#print axioms translate_targets

end UtreexoVerif.Proofs.SchedDelRoots
