/-
  `getPrevPosFixed` (the code of /repo now: `undoAdd`, then `undoDel` with the positions created
  in the block saved and restored) satisfies `SchedIface.StepOK` (property C15).
-/
import UtreexoVerif.Proofs.SchedIface
import UtreexoVerif.Proofs.SchedDel
import UtreexoVerif.Proofs.SchedDelRoots
set_option linter.unusedSectionVars false
set_option linter.unusedVariables false

namespace UtreexoVerif.Proofs.SchedGpp
open UtreexoVerif UtreexoVerif.GoInt Spec Spec.Sched Model
open UtreexoVerif.Proofs UtreexoVerif.Proofs.SchedSem UtreexoVerif.Proofs.CalcGeo
open UtreexoVerif.Proofs.SchedUndoAdd UtreexoVerif.Proofs.SchedDel UtreexoVerif.Proofs.SchedPos
open UtreexoVerif.Proofs.SchedAddU

/-! ### list facts: restoring the created positions -/

/-- the created slots, last added first -/
def createdSlots (n : Nat) (P : List Nat) : Nat → List Nat
  | 0 => []
  | j+1 => (if n + j ∈ P then [n + j] else []) ++ createdSlots n P j

theorem createdOf_eq (n : Nat) (P : List Nat) : ∀ j,
    createdOf n P j = (createdSlots n P j).map fun s => ((P.idxOf s : Nat) : Int) := by
  intro j
  induction j with
  | zero => rfl
  | succ j ih =>
    simp only [createdOf, createdSlots, List.map_append, ih]
    split <;> simp

theorem mem_createdSlots (n : Nat) (P : List Nat) : ∀ j s,
    s ∈ createdSlots n P j ↔ s ∈ P ∧ n ≤ s ∧ s < n + j := by
  intro j
  induction j with
  | zero => intro s; simp [createdSlots]
  | succ j ih =>
    intro s
    simp only [createdSlots, List.mem_append, ih]
    constructor
    · rintro (h | ⟨h1, h2, h3⟩)
      · split at h
        · simp only [List.mem_singleton] at h; subst h; exact ⟨by assumption, by omega, by omega⟩
        · cases h
      · exact ⟨h1, h2, by omega⟩
    · rintro ⟨h1, h2, h3⟩
      by_cases e : s = n + j
      · left; subst e; simp [h1]
      · right; exact ⟨h1, h2, by omega⟩

theorem set_idxOf_map {P : List Nat} (hP : P.Nodup) (w : Nat → U64) {s : Nat} (hs : s ∈ P) (v : U64) :
    (P.map w).set (P.idxOf s) v = P.map (fun x => if x = s then v else w x) := by
  induction P with
  | nil => cases hs
  | cons a P ih =>
    have hnd := List.nodup_cons.mp hP
    rw [List.idxOf_cons]
    by_cases ha : a = s
    · subst ha
      simp only [beq_self_eq_true, cond_true, List.map_cons, List.set_cons_zero, if_true]
      congr 1
      apply List.map_congr_left
      intro x hx
      have : x ≠ a := fun e => hnd.1 (e ▸ hx)
      rw [if_neg this]
    · rw [beq_false_of_ne ha]
      simp only [cond_false, List.map_cons, List.set_cons_succ, if_neg ha]
      congr 1
      exact ih hnd.2 (by
        rcases List.mem_cons.mp hs with e | e
        · exact absurd e.symm ha
        · exact e)

theorem restore_fold {P : List Nat} (hP : P.Nodup) (v : Nat → U64) : ∀ (cs : List Nat) (w : Nat → U64),
    (∀ s ∈ cs, s ∈ P) →
    (cs.map fun s => (((P.idxOf s : Nat) : Int), v s)).foldl
        (fun c (ip : Int × U64) => c.set ip.1.toNat ip.2) (P.map w) =
      P.map (fun x => if x ∈ cs then v x else w x) := by
  intro cs
  induction cs with
  | nil => intro w _; simp
  | cons s cs ih =>
    intro w hcs
    simp only [List.map_cons, List.foldl_cons, Int.toNat_natCast]
    rw [set_idxOf_map hP w (hcs s List.mem_cons_self), ih _ (fun x hx => hcs x (List.mem_cons_of_mem _ hx))]
    apply List.map_congr_left
    intro x _
    by_cases h1 : x ∈ cs
    · simp [h1]
    · by_cases h2 : x = s
      · simp [h2]
      · simp [h1, h2]

theorem getElem?_idxOf_map {P : List Nat} (w : Nat → U64) {s : Nat} (hs : s ∈ P) :
    (P.map w)[P.idxOf s]? = some (w s) := by
  rw [List.getElem?_map, List.getElem?_eq_getElem (List.idxOf_lt_length_of_mem hs), List.getElem_idxOf]
  rfl


theorem zip_map_self {α β : Type} (f : α → β) : ∀ l : List α, l.zip (l.map f) = l.map fun x => (x, f x) := by
  intro l
  induction l with
  | nil => rfl
  | cons a l ih => simp [ih]

theorem undoDel_map (tr : U8) (positions deleted : List U64) (nl : U64) :
    undoDel tr positions deleted nl =
      positions.map (fun pos => (deTwin (sortU64 deleted) tr).foldr (udStep tr nl) pos) := by
  rw [undoDel_eq]
  split
  · rename_i h
    simp only [Bool.or_eq_true, List.isEmpty_iff] at h
    rcases h with h | h
    · subst h
      have : deTwin (sortU64 []) tr = [] := rfl
      rw [this]
      simp
    · subst h; rfl
  · rfl

theorem sub_conv (n K : Nat) (hK : K < 65536) (hn : n + K < 2 ^ 64) :
    BitVec.ofNat 64 (n + K) - conv 64 (BitVec.ofNat 16 K) = BitVec.ofNat 64 n := by
  apply BitVec.eq_of_toNat_eq
  unfold conv
  rw [BitVec.toNat_sub, BitVec.toNat_setWidth, BitVec.toNat_ofNat, BitVec.toNat_ofNat, BitVec.toNat_ofNat,
    Nat.mod_eq_of_lt (show K < 2 ^ 16 by omega), Nat.mod_eq_of_lt (show K < 2 ^ 64 by omega),
    Nat.mod_eq_of_lt hn, Nat.mod_eq_of_lt (show n < 2 ^ 64 by omega)]
  omega

/-- **`getPrevPosFixed` for one block** on slot lists: `S'` before the block, `D` the deleted
slots, `K` additions -/
theorem gpp_fixed_spec {S' : List (Option Nat)} (hc : Canon S') {D : List Nat} (hD : D.Nodup)
    (hlive : ∀ x ∈ D, Live S' x) {K : Nat} (hK16 : K < 65536) (hn : S'.length + K ≤ 2 ^ 62)
    {P : List Nat} (hP : P.Nodup)
    (hPl : ∀ s ∈ P, Live (SchedSem.kill S' D ++ fresh S'.length K) s)
    {td : List U64} (htd : TdOK (SchedSem.kill S' D) K td) :
    getPrevPosFixed CSTTotalRows
        (P.map fun s => E 63 (posS (SchedSem.kill S' D ++ fresh S'.length K) s))
        (D.map fun x => E 63 (posS S' x)) td (BitVec.ofNat 16 K) (BitVec.ofNat 64 (S'.length + K)) =
      (P.map (fun s => if s < S'.length then E 63 (posS S' s) else BitVec.ofNat 64 s),
       createdOf S'.length P K) := by
  have hlen : (SchedSem.kill S' D).length = S'.length := kill_length S' D
  have hstage : stage (SchedSem.kill S' D) K = SchedSem.kill S' D ++ fresh S'.length K := by
    unfold stage; rw [hlen]
  have hlt : ∀ s ∈ P, s < S'.length + K := by
    intro s hs
    have := SchedPos.live_lt (hPl s hs)
    simpa [hlen, SchedUndoAdd.fresh_length] using this
  have hold : ∀ s ∈ P, s < S'.length → Live (SchedSem.kill S' D) s := by
    intro s hs hlt'
    have := hPl s hs
    unfold Live at this ⊢
    rwa [List.getElem?_append_left (by rw [hlen]; exact hlt')] at this
  have hTrk : Trk (SchedSem.kill S' D) K P :=
    ⟨hP, fun s hs => ⟨by rw [hlen]; exact hlt s hs, fun h => hold s hs (by rw [hlen] at h; exact h)⟩⟩
  have hpos : (P.map fun s => E 63 (posS (SchedSem.kill S' D ++ fresh S'.length K) s)) =
      P.map (cur (SchedSem.kill S' D) K) := by
    apply List.map_congr_left
    intro s hs
    unfold cur
    rw [if_pos (by rw [hlen]; exact hlt s hs), hstage]
  have hadd := undoAdd_spec hTrk (by rw [hlen]; exact hn) hK16 htd
  rw [hlen] at hadd
  unfold getPrevPosFixed
  rw [hpos, cst_eq, hadd]
  simp only
  rw [sub_conv _ _ hK16 (by omega), createdOf_eq, List.map_map, List.zip_map', undoDel_map, List.map_map]
  have hmapcs : (createdSlots S'.length P K).map
        (fun s => (((P.idxOf s : Nat) : Int),
          ((fun idx : Int => (List.map (cur (SchedSem.kill S' D) 0) P)[idx.toNat]?.getD 0#64) ∘
            fun s => ((P.idxOf s : Nat) : Int)) s)) =
      (createdSlots S'.length P K).map fun s => (((P.idxOf s : Nat) : Int), cur (SchedSem.kill S' D) 0 s) := by
    apply List.map_congr_left
    intro s hs
    have hsP := ((mem_createdSlots _ _ _ _).mp hs).1
    simp only [Function.comp, Int.toNat_natCast, getElem?_idxOf_map _ hsP, Option.getD_some]
  rw [hmapcs, restore_fold hP _ _ _ (fun s hs => ((mem_createdSlots _ _ _ _).mp hs).1)]
  congr 1
  apply List.map_congr_left
  intro x hx
  by_cases hxn : x < S'.length
  · have hncs : x ∉ createdSlots S'.length P K := fun h => by
      have := ((mem_createdSlots _ _ _ _).mp h).2.1; omega
    rw [if_neg hncs, if_pos hxn]
    simp only [Function.comp]
    have hlx := hold x hx hxn
    obtain ⟨hl1, hl2⟩ := kill_live.mp hlx
    have hcur : cur (SchedSem.kill S' D) 0 x = E 63 (posS (SchedSem.kill S' D) x) := by
      unfold cur; rw [if_pos (by rw [hlen]; omega), stage_zero]
    rw [hcur]
    exact undoDel_pos hc (by omega) hD hlive hl1 hl2
  · have hcs : x ∈ createdSlots S'.length P K :=
      (mem_createdSlots _ _ _ _).mpr ⟨hx, by omega, hlt x hx⟩
    rw [if_pos hcs, if_neg hxn]
    unfold cur
    rw [if_neg (by rw [hlen]; omega), E63_leaf]


/-- **`getPrevPosFixed` satisfies the step interface** on every well-formed history with at most
`2^62` leaves and fewer than `65536` additions per block -/
theorem stepOK_fixed {h : History} {tr : Tracker} (hw : wellFormed h = true)
    (hadds : ∀ b ∈ h, b.numAdds < 65536) (htot : total h ≤ 2 ^ 62) (hok : SchedIface.TrackerOK h tr) :
    SchedIface.StepOK getPrevPosFixed h tr := by
  intro t b dels td P hb hdels htd hP hPl
  have hsucc := SchedLives.stateAt_succ hb
  have hD := SchedLives.wf_dels hw hb
  have hcan := SchedLives.stateAt_canon h t
  have hK : b.numAdds < 65536 := hadds b (List.mem_of_getElem? hb)
  have hlen : (stateAt h (t + 1)).length = (stateAt h t).length + b.numAdds := by
    rw [hsucc]; exact SchedLives.stepS_length _ _
  have hbound : (stateAt h t).length + b.numAdds ≤ 2 ^ 62 := by
    rw [← hlen, SchedLives.stateAt_length_pre]
    exact Nat.le_trans (SchedLives.pre_le_total h _) htot
  have hS : stateAt h (t + 1) =
      SchedSem.kill (stateAt h t) b.delSlots ++ fresh (stateAt h t).length b.numAdds := by
    rw [hsucc]; rfl
  have e1 := hok.dels t b hb
  rw [hdels] at e1
  obtain ⟨td', e2, htdok⟩ := hok.td t b hb
  rw [htd] at e2
  have hdels' : dels = b.delSlots.map fun s => E 63 (posS (stateAt h t) s) := Option.some.inj e1
  have htd' : td = td' := Option.some.inj e2
  subst hdels' htd'
  rw [hlen, hS]
  rw [hS] at hPl
  exact gpp_fixed_spec hcan hD.1 hD.2 hK hbound hP hPl htdok

end UtreexoVerif.Proofs.SchedGpp
