/-
  The Array-fold tables `Spec.Sched.lives h` (starts / birth / death) characterised by the
  recursive slot-list semantics `SchedSem.stateAt` (property C15).

  * `stateAt_zero/succ/of_ge/canon/length`   the slot list before block `t`;
  * `before_eq`, `total_eq`, `birth_iff`      `starts` and `birth` are the prefix sums;
  * `death_some_iff`                           `death[s]` is the FIRST block deleting `s` (no hypothesis);
  * under `wellFormed`: `death_iff`, `alive_iff`, `wf_dels`, `flags_eq`.
-/
import UtreexoVerif.Proofs.SchedSem

namespace UtreexoVerif.Proofs.SchedLives
open UtreexoVerif Spec Spec.Sched UtreexoVerif.Proofs.SchedSem

-- ---------------------------------------------------------------- prefix sums

/-- number of leaves added by the first `t` blocks -/
def pre (h : History) (t : Nat) : Nat := ((h.take t).map (·.numAdds)).sum

theorem pre_zero (h : History) : pre h 0 = 0 := by simp [pre]

theorem pre_nil (t : Nat) : pre [] t = 0 := by simp [pre]

theorem pre_cons_succ (b : Block) (h : History) (t : Nat) : pre (b :: h) (t + 1) = b.numAdds + pre h t := by
  simp [pre]

theorem pre_succ {h : History} {t : Nat} {b : Block} (hb : h[t]? = some b) :
    pre h (t + 1) = pre h t + b.numAdds := by
  unfold pre
  rw [List.take_add_one, hb]
  simp

theorem pre_of_ge {h : History} {t : Nat} (ht : h.length ≤ t) : pre h t = total h := by
  unfold pre total
  rw [List.take_of_length_le ht]

theorem pre_length (h : History) : pre h h.length = total h := pre_of_ge (Nat.le_refl _)

theorem pre_mono (h : History) {t t' : Nat} (htt : t ≤ t') : pre h t ≤ pre h t' := by
  induction htt with
  | refl => exact Nat.le_refl _
  | step _ ih =>
    rename_i m _
    cases hb : h[m]? with
    | some b => rw [pre_succ hb]; omega
    | none =>
      have hl : h.length ≤ m := by
        rcases Nat.lt_or_ge m h.length with hlt | hge
        · rw [List.getElem?_eq_getElem hlt] at hb; cases hb
        · exact hge
      rw [pre_of_ge (by omega : h.length ≤ m + 1), ← pre_of_ge hl]
      exact ih

theorem pre_le_total (h : History) (t : Nat) : pre h t ≤ total h := by
  rcases Nat.le_total t h.length with hle | hge
  · rw [← pre_length]; exact pre_mono h hle
  · rw [pre_of_ge hge]; exact Nat.le_refl _

-- ---------------------------------------------------------------- stateAt

theorem stateAt_zero (h : History) : stateAt h 0 = [] := by simp [stateAt]

theorem stateAt_succ {h : History} {t : Nat} {b : Block} (hb : h[t]? = some b) :
    stateAt h (t + 1) = stepS (stateAt h t) b := by
  unfold stateAt
  rw [List.take_add_one, hb]
  simp [List.foldl_append]

theorem stateAt_of_ge {h : History} {t : Nat} (ht : h.length ≤ t) : stateAt h t = stateAt h h.length := by
  unfold stateAt
  rw [List.take_of_length_le ht, List.take_of_length_le (Nat.le_refl _)]

theorem kill_length (S : List (Option Nat)) (D : List Nat) : (kill S D).length = S.length := by
  simp [kill]

theorem fresh_length (n k : Nat) : (fresh n k).length = k := by simp [fresh]

theorem stepS_length (S : List (Option Nat)) (b : Block) : (stepS S b).length = S.length + b.numAdds := by
  simp [stepS, midS, kill_length, fresh_length]

theorem kill_getElem? (S : List (Option Nat)) (D : List Nat) (i x : Nat) :
    (kill S D)[i]? = some (some x) ↔ S[i]? = some (some x) ∧ x ∉ D := by
  unfold kill
  rw [List.getElem?_map]
  cases hS : S[i]? with
  | none => simp
  | some o =>
    cases o with
    | none => simp
    | some y =>
      by_cases hy : y ∈ D
      · simp only [Option.map_some, hy, if_true]
        constructor
        · intro h; cases h
        · rintro ⟨h1, h2⟩; cases h1; exact absurd hy h2
      · simp only [Option.map_some, hy, if_false]
        constructor
        · intro h; cases h; exact ⟨rfl, hy⟩
        · rintro ⟨h1, _⟩; exact h1

theorem fresh_getElem? (n k i : Nat) : (fresh n k)[i]? = if i < k then some (some (n + i)) else none := by
  unfold fresh
  rw [List.getElem?_map]
  by_cases hik : i < k
  · rw [List.getElem?_range hik, if_pos hik]; rfl
  · rw [List.getElem?_eq_none (by simpa using hik), if_neg hik]; rfl

theorem stepS_getElem? (S : List (Option Nat)) (b : Block) (i x : Nat) :
    (stepS S b)[i]? = some (some x) ↔
      (S[i]? = some (some x) ∧ x ∉ b.delSlots) ∨ (S.length ≤ i ∧ i < S.length + b.numAdds ∧ x = i) := by
  unfold stepS midS
  rcases Nat.lt_or_ge i S.length with hlt | hge
  · rw [List.getElem?_append_left (by rw [kill_length]; exact hlt), kill_getElem?]
    constructor
    · intro h; exact Or.inl h
    · rintro (h | h)
      · exact h
      · omega
  · rw [List.getElem?_append_right (by rw [kill_length]; exact hge), kill_length, fresh_getElem?]
    have hnone : S[i]? = none := List.getElem?_eq_none hge
    constructor
    · intro h
      split at h
      · right
        have : S.length + (i - S.length) = x := by simpa using h
        omega
      · cases h
    · rintro (h | ⟨_, h2, h3⟩)
      · rw [hnone] at h; cases h.1
      · rw [if_pos (by omega)]
        subst h3
        congr 2
        omega

theorem stepS_canon {S : List (Option Nat)} (hS : Canon S) (b : Block) : Canon (stepS S b) := by
  intro i x hx
  rcases (stepS_getElem? S b i x).mp hx with h | h
  · exact hS i x h.1
  · exact h.2.2

theorem foldl_stepS_canon : ∀ (l : List Block) (S : List (Option Nat)), Canon S → Canon (l.foldl stepS S) := by
  intro l
  induction l with
  | nil => intro S hS; exact hS
  | cons b l ih => intro S hS; exact ih _ (stepS_canon hS b)

theorem stateAt_canon (h : History) (t : Nat) : Canon (stateAt h t) := by
  unfold stateAt
  apply foldl_stepS_canon
  intro i x hx
  simp at hx

theorem foldl_stepS_length : ∀ (l : List Block) (S : List (Option Nat)),
    (l.foldl stepS S).length = S.length + (l.map (·.numAdds)).sum := by
  intro l
  induction l with
  | nil => intro S; simp
  | cons b l ih =>
    intro S
    simp only [List.foldl_cons, List.map_cons, List.sum_cons]
    rw [ih, stepS_length]
    omega

theorem stateAt_length (h : History) (t : Nat) :
    (stateAt h t).length = ((h.take t).map (·.numAdds)).sum := by
  unfold stateAt
  rw [foldl_stepS_length]
  simp

theorem stateAt_length_pre (h : History) (t : Nat) : (stateAt h t).length = pre h t := stateAt_length h t

/-- liveness after one block (no well-formedness needed) -/
theorem live_succ {h : History} {t : Nat} {b : Block} (hb : h[t]? = some b) (s : Nat) :
    Live (stateAt h (t + 1)) s ↔
      (Live (stateAt h t) s ∧ s ∉ b.delSlots) ∨
        ((stateAt h t).length ≤ s ∧ s < (stateAt h (t + 1)).length) := by
  unfold Live
  rw [stateAt_succ hb, stepS_getElem?, stepS_length]
  constructor
  · rintro (h1 | ⟨h1, h2, _⟩)
    · exact Or.inl h1
    · exact Or.inr ⟨h1, h2⟩
  · rintro (h1 | ⟨h1, h2⟩)
    · exact Or.inl h1
    · exact Or.inr ⟨h1, h2, rfl⟩

theorem live_lt {S : List (Option Nat)} {s : Nat} (hl : Live S s) : s < S.length := by
  unfold Live at hl
  exact (List.getElem?_eq_some_iff.mp hl).1

/-- `s` is live before block `t` iff it has been added and no earlier block deletes it after
its birth (a block naming a slot that does not exist yet has no effect on the slot list) -/
theorem live_iff (h : History) (t s : Nat) :
    Live (stateAt h t) s ↔
      s < pre h t ∧ ∀ t' b, t' < t → h[t']? = some b → s ∈ b.delSlots → pre h t' ≤ s := by
  induction t with
  | zero =>
    rw [stateAt_zero, pre_zero]
    constructor
    · intro hl; exact absurd (live_lt hl) (by simp)
    · rintro ⟨h1, _⟩; omega
  | succ t ih =>
    cases hb : h[t]? with
    | none =>
      have hl : h.length ≤ t := by
        rcases Nat.lt_or_ge t h.length with hlt | hge
        · rw [List.getElem?_eq_getElem hlt] at hb; cases hb
        · exact hge
      rw [stateAt_of_ge (by omega : h.length ≤ t + 1), ← stateAt_of_ge hl, ih,
        pre_of_ge (by omega : h.length ≤ t + 1), pre_of_ge hl]
      constructor
      · rintro ⟨h1, h2⟩
        refine ⟨h1, ?_⟩
        intro t' b' ht' hb'
        have : t' < h.length := (List.getElem?_eq_some_iff.mp hb').1
        exact h2 t' b' (by omega) hb'
      · rintro ⟨h1, h2⟩
        exact ⟨h1, fun t' b' ht' hb' => h2 t' b' (by omega) hb'⟩
    | some b =>
      rw [live_succ hb, ih, stateAt_length_pre, stateAt_length_pre, pre_succ hb]
      constructor
      · rintro (⟨⟨h1, h2⟩, h3⟩ | ⟨h1, h2⟩)
        · refine ⟨by omega, ?_⟩
          intro t' b' ht' hb' hmem
          rcases Nat.lt_or_ge t' t with hlt | hge
          · exact h2 t' b' hlt hb' hmem
          · have : t' = t := by omega
            subst this
            rw [hb] at hb'; cases hb'
            exact absurd hmem h3
        · refine ⟨h2, ?_⟩
          intro t' b' ht' hb' hmem
          have := pre_mono h (by omega : t' ≤ t)
          omega
      · rintro ⟨h1, h2⟩
        rcases Nat.lt_or_ge s (pre h t) with hlt | hge
        · left
          refine ⟨⟨hlt, fun t' b' ht' hb' => h2 t' b' (by omega) hb'⟩, ?_⟩
          intro hmem
          have := h2 t b (by omega) hb hmem
          omega
        · right; exact ⟨hge, h1⟩

-- ---------------------------------------------------------------- `starts`

theorem starts_fold : ∀ (h : History) (acc : Array Nat) (c : Nat), acc.back? = some c →
    (h.foldl (fun (acc : Array Nat) b => acc.push (acc.back?.getD 0 + b.numAdds)) acc).toList =
      acc.toList ++ (List.range h.length).map (fun i => c + pre h (i + 1)) := by
  intro h
  induction h with
  | nil => intro acc c _; simp
  | cons b h ih =>
    intro acc c hc
    have hc' : acc.back?.getD 0 = c := by simp [hc]
    rw [List.foldl_cons, hc', ih _ (c + b.numAdds) (by simp)]
    rw [Array.toList_push, List.length_cons, List.range_succ_eq_map, List.map_cons, List.map_map,
      List.append_assoc]
    congr 1
    simp only [List.singleton_append, List.cons.injEq]
    refine ⟨by simp [pre], ?_⟩
    apply List.map_congr_left
    intro i _
    simp only [Function.comp, Nat.succ_eq_add_one, pre_cons_succ]
    omega

theorem starts_toList (h : History) :
    (lives h).starts.toList = (List.range (h.length + 1)).map (pre h) := by
  unfold lives
  simp only
  rw [starts_fold h #[0] 0 (by simp)]
  rw [List.range_succ_eq_map, List.map_cons, List.map_map, pre_zero]
  simp

theorem starts_getElem? (h : History) (t : Nat) :
    (lives h).starts[t]? = if t ≤ h.length then some (pre h t) else none := by
  rw [← Array.getElem?_toList, starts_toList, List.getElem?_map]
  by_cases ht : t ≤ h.length
  · rw [List.getElem?_range (by omega), if_pos ht]; rfl
  · rw [List.getElem?_eq_none (by simp; omega), if_neg ht]; rfl

theorem starts_back (h : History) : (lives h).starts.back? = some (total h) := by
  rw [Array.back?_eq_getElem?]
  have hs : (lives h).starts.size = h.length + 1 := by
    rw [← Array.length_toList, starts_toList]; simp
  rw [hs, starts_getElem?]
  simp [pre_length]

theorem before_pre (h : History) (t : Nat) : (lives h).before t = pre h t := by
  unfold Lives.before
  rw [starts_getElem?, starts_back]
  by_cases ht : t ≤ h.length
  · simp [ht]
  · simp [ht, pre_of_ge (by omega : h.length ≤ t)]

theorem before_eq (h : History) (t : Nat) : (lives h).before t = (stateAt h t).length := by
  rw [before_pre, stateAt_length_pre]

-- ---------------------------------------------------------------- `birth`

/-- the birth table as a list -/
def birthList (h : History) (k : Nat) : List Nat :=
  (h.zipIdx k).flatMap fun bt => List.replicate bt.1.numAdds bt.2

theorem birth_fold : ∀ (h : History) (k : Nat) (acc : Array Nat),
    ((h.zipIdx k).foldl (fun (acc : Array Nat) (bt : Block × Nat) =>
        acc ++ Array.replicate bt.1.numAdds bt.2) acc).toList = acc.toList ++ birthList h k := by
  intro h
  induction h with
  | nil => intro k acc; simp [birthList]
  | cons b h ih =>
    intro k acc
    rw [List.zipIdx_cons, List.foldl_cons, ih]
    simp [birthList, List.zipIdx_cons]

theorem birth_toList (h : History) : (lives h).birth.toList = birthList h 0 := by
  unfold lives
  simp only
  rw [birth_fold]
  simp

theorem birthList_length : ∀ (h : History) (k : Nat), (birthList h k).length = total h := by
  intro h
  induction h with
  | nil => intro k; simp [birthList, total]
  | cons b h ih =>
    intro k
    have := ih (k + 1)
    simp only [birthList, total] at this ⊢
    simp only [List.zipIdx_cons, List.flatMap_cons, List.length_append, List.length_replicate,
      List.map_cons, List.sum_cons, this]

theorem birthList_getElem? : ∀ (h : History) (k s t : Nat),
    (birthList h k)[s]? = some t ↔ ∃ j, t = k + j ∧ j < h.length ∧ pre h j ≤ s ∧ s < pre h (j + 1) := by
  intro h
  induction h with
  | nil =>
    intro k s t
    simp [birthList]
  | cons b h ih =>
    intro k s t
    have hcons : birthList (b :: h) k = List.replicate b.numAdds k ++ birthList h (k + 1) := by
      simp [birthList, List.zipIdx_cons]
    rw [hcons]
    rcases Nat.lt_or_ge s b.numAdds with hlt | hge
    · rw [List.getElem?_append_left (by simpa using hlt), List.getElem?_replicate, if_pos hlt]
      constructor
      · intro heq
        cases heq
        exact ⟨0, rfl, by simp, by simp [pre_zero], by rw [pre_cons_succ, pre_zero]; omega⟩
      · rintro ⟨j, rfl, _, h3, _⟩
        cases j with
        | zero => rfl
        | succ j => rw [pre_cons_succ] at h3; omega
    · rw [List.getElem?_append_right (by simpa using hge), List.length_replicate, ih]
      constructor
      · rintro ⟨j, rfl, h2, h3, h4⟩
        refine ⟨j + 1, by omega, by simpa using h2, ?_, ?_⟩
        · rw [pre_cons_succ]; omega
        · rw [pre_cons_succ]; omega
      · rintro ⟨j, rfl, h2, h3, h4⟩
        cases j with
        | zero => rw [pre_cons_succ, pre_zero] at h4; omega
        | succ j =>
          rw [pre_cons_succ] at h3 h4
          exact ⟨j, by omega, by simpa using h2, by omega, by omega⟩

theorem total_eq (h : History) : (lives h).total = total h ∧ total h = (stateAt h h.length).length := by
  refine ⟨?_, by rw [stateAt_length_pre, pre_length]⟩
  unfold Lives.total
  rw [← Array.length_toList, birth_toList, birthList_length]

theorem birth_iff (h : History) (s t : Nat) :
    (lives h).birth? s = some t ↔
      t < h.length ∧ (stateAt h t).length ≤ s ∧ s < (stateAt h (t + 1)).length := by
  unfold Lives.birth?
  rw [← Array.getElem?_toList, birth_toList, birthList_getElem?, stateAt_length_pre, stateAt_length_pre]
  constructor
  · rintro ⟨j, rfl, h2, h3, h4⟩
    rw [Nat.zero_add]
    exact ⟨h2, h3, h4⟩
  · rintro ⟨h2, h3, h4⟩
    exact ⟨t, by omega, h2, h3, h4⟩

-- ---------------------------------------------------------------- `death`

/-- inner step of the `death` fold -/
def mark (d : Nat) (acc : Array (Option Nat)) (s : Nat) : Array (Option Nat) :=
  match acc[s]? with
  | some none => acc.set! s (some d)
  | _ => acc

theorem mark_getElem? (d : Nat) (acc : Array (Option Nat)) (x s : Nat) :
    (mark d acc x)[s]? = if s = x ∧ acc[s]? = some none then some (some d) else acc[s]? := by
  unfold mark
  split
  · rename_i hx
    have hlt : x < acc.size := (Array.getElem?_eq_some_iff.mp hx).1
    rw [Array.set!_eq_setIfInBounds, Array.getElem?_setIfInBounds]
    by_cases hsx : s = x
    · subst hsx
      have hn : acc[s] = none := (Array.getElem?_eq_some_iff.mp hx).2
      simp [hlt, hn]
    · have : ¬ x = s := fun h => hsx h.symm
      simp [hsx, this]
  · rename_i hx
    by_cases hsx : s = x
    · subst hsx
      have : ¬ acc[s]? = some none := fun h => hx h
      simp [this]
    · simp [hsx]

theorem marks_getElem? (d : Nat) : ∀ (D : List Nat) (acc : Array (Option Nat)) (s : Nat),
    (D.foldl (mark d) acc)[s]? = if s ∈ D ∧ acc[s]? = some none then some (some d) else acc[s]? := by
  intro D
  induction D with
  | nil => intro acc s; simp
  | cons x D ih =>
    intro acc s
    rw [List.foldl_cons, ih, mark_getElem?]
    by_cases hsx : s = x
    · subst hsx
      by_cases ha : acc[s]? = some none
      · simp [ha]
      · simp [ha]
    · have : ¬ x = s := fun h => hsx h.symm
      simp [hsx]

/-- the first block (numbered from `k`) that names slot `s` -/
def firstDel : History → Nat → Nat → Option Nat
  | [], _, _ => none
  | b :: h, k, s => if s ∈ b.delSlots then some k else firstDel h (k + 1) s

theorem death_fold : ∀ (h : History) (k : Nat) (acc : Array (Option Nat)) (s : Nat),
    ((h.zipIdx k).foldl (fun (acc : Array (Option Nat)) (bt : Block × Nat) =>
        bt.1.delSlots.foldl (mark bt.2) acc) acc)[s]? =
      match acc[s]? with
      | some none => some (firstDel h k s)
      | x => x := by
  intro h
  induction h with
  | nil => intro k acc s; simp only [List.zipIdx_nil, List.foldl_nil, firstDel]; split <;> simp_all
  | cons b h ih =>
    intro k acc s
    rw [List.zipIdx_cons, List.foldl_cons, ih]
    simp only
    rw [marks_getElem?]
    by_cases ha : acc[s]? = some none
    · by_cases hs : s ∈ b.delSlots
      · simp [ha, hs, firstDel]
      · simp [ha, hs, firstDel]
    · simp only [ha, and_false, if_false]

theorem death_getElem? (h : History) (s : Nat) :
    (lives h).death[s]? = if s < total h then some (firstDel h 0 s) else none := by
  have hd : (lives h).death = (h.zipIdx 0).foldl (fun (acc : Array (Option Nat)) (bt : Block × Nat) =>
        bt.1.delSlots.foldl (mark bt.2) acc) (Array.replicate (total h) none) := rfl
  rw [hd, death_fold]
  by_cases hs : s < total h
  · simp [hs]
  · simp [hs]

theorem death?_eq (h : History) (s : Nat) :
    (lives h).death? s = if s < total h then firstDel h 0 s else none := by
  unfold Lives.death?
  rw [death_getElem?]
  split <;> simp

theorem firstDel_some : ∀ (h : History) (k s d : Nat),
    firstDel h k s = some d ↔
      ∃ j b, d = k + j ∧ h[j]? = some b ∧ s ∈ b.delSlots ∧
        ∀ j' b', j' < j → h[j']? = some b' → s ∉ b'.delSlots := by
  intro h
  induction h with
  | nil => intro k s d; simp [firstDel]
  | cons b h ih =>
    intro k s d
    unfold firstDel
    by_cases hs : s ∈ b.delSlots
    · rw [if_pos hs]
      constructor
      · intro heq
        cases heq
        exact ⟨0, b, rfl, by simp, hs, fun j' b' hj' => by omega⟩
      · rintro ⟨j, b1, rfl, h2, h3, h4⟩
        cases j with
        | zero => rfl
        | succ j => exact absurd hs (h4 0 b (by omega) (by simp))
    · rw [if_neg hs, ih]
      constructor
      · rintro ⟨j, b1, rfl, h2, h3, h4⟩
        refine ⟨j + 1, b1, by omega, by simpa using h2, h3, ?_⟩
        intro j' b' hj' hb'
        cases j' with
        | zero => simp at hb'; subst hb'; exact hs
        | succ j' => exact h4 j' b' (by omega) (by simpa using hb')
      · rintro ⟨j, b1, rfl, h2, h3, h4⟩
        cases j with
        | zero => simp at h2; subst h2; exact absurd h3 hs
        | succ j =>
          refine ⟨j, b1, by omega, by simpa using h2, h3, ?_⟩
          intro j' b' hj' hb'
          exact h4 (j' + 1) b' (by omega) (by simpa using hb')

/-- `death[s]` is the first block that names slot `s` (no hypothesis on the history) -/
theorem death_some_iff (h : History) (s d : Nat) :
    (lives h).death? s = some d ↔
      s < total h ∧ ∃ b, h[d]? = some b ∧ s ∈ b.delSlots ∧
        ∀ d' b', d' < d → h[d']? = some b' → s ∉ b'.delSlots := by
  rw [death?_eq]
  by_cases hs : s < total h
  · rw [if_pos hs, firstDel_some]
    constructor
    · rintro ⟨j, b, rfl, h2, h3, h4⟩
      rw [Nat.zero_add]
      exact ⟨hs, b, h2, h3, h4⟩
    · rintro ⟨_, b, h2, h3, h4⟩
      exact ⟨d, b, by omega, h2, h3, h4⟩
  · rw [if_neg hs]
    constructor
    · intro h1; cases h1
    · rintro ⟨h1, _⟩; exact absurd h1 hs

-- ---------------------------------------------------------------- under well-formedness

theorem wf_block {h : History} (hw : wellFormed h = true) {t : Nat} {b : Block} (hb : h[t]? = some b) :
    b.delSlots.eraseDups.length = b.delSlots.length ∧
      ∀ s ∈ b.delSlots, (lives h).aliveBefore t s = true ∧ (lives h).death? s = some t := by
  unfold wellFormed at hw
  simp only [List.all_eq_true] at hw
  have := hw (b, t) (List.mem_zipIdx_iff_getElem?.mpr hb)
  simp only [Bool.and_eq_true, beq_iff_eq, List.all_eq_true] at this
  exact ⟨this.1, fun s hs => this.2 s hs⟩

theorem death_iff {h : History} (hw : wellFormed h = true) (s d : Nat) :
    (lives h).death? s = some d ↔ ∃ b, h[d]? = some b ∧ s ∈ b.delSlots := by
  constructor
  · intro hd
    obtain ⟨_, b, h2, h3, _⟩ := (death_some_iff h s d).mp hd
    exact ⟨b, h2, h3⟩
  · rintro ⟨b, h2, h3⟩
    exact ((wf_block hw h2).2 s h3).2

/-- a slot is deleted by at most one block -/
theorem del_unique {h : History} (hw : wellFormed h = true) {s d d' : Nat} {b b' : Block}
    (hb : h[d]? = some b) (hs : s ∈ b.delSlots) (hb' : h[d']? = some b') (hs' : s ∈ b'.delSlots) : d = d' := by
  have h1 := (death_iff hw s d).mpr ⟨b, hb, hs⟩
  have h2 := (death_iff hw s d').mpr ⟨b', hb', hs'⟩
  rw [h1] at h2
  exact Option.some.inj h2

/-- a slot deleted by block `d` exists before block `d` -/
theorem del_lt {h : History} (hw : wellFormed h = true) {s d : Nat} {b : Block}
    (hb : h[d]? = some b) (hs : s ∈ b.delSlots) : s < (stateAt h d).length := by
  have := ((wf_block hw hb).2 s hs).1
  unfold Lives.aliveBefore at this
  simp only [Bool.and_eq_true, decide_eq_true_eq] at this
  rw [← before_eq]
  exact this.1

theorem alive_iff {h : History} (hw : wellFormed h = true) {t : Nat} (ht : t ≤ h.length) (s : Nat) :
    (lives h).aliveBefore t s = true ↔ Live (stateAt h t) s := by
  have _ := ht
  rw [live_iff]
  unfold Lives.aliveBefore
  simp only [Bool.and_eq_true, decide_eq_true_eq, before_pre]
  constructor
  · rintro ⟨h1, h2⟩
    refine ⟨h1, ?_⟩
    intro t' b ht' hb hs
    have hd := (death_iff hw s t').mpr ⟨b, hb, hs⟩
    rw [hd] at h2
    simp only [decide_eq_true_eq] at h2
    omega
  · rintro ⟨h1, h2⟩
    refine ⟨h1, ?_⟩
    cases hd : (lives h).death? s with
    | none => rfl
    | some d =>
      simp only [decide_eq_true_eq]
      obtain ⟨b, hb, hs⟩ := (death_iff hw s d).mp hd
      rcases Nat.lt_or_ge d t with hlt | hge
      · have := h2 d b hlt hb hs
        have := del_lt hw hb hs
        rw [stateAt_length_pre] at this
        omega
      · exact hge

-- ---------------------------------------------------------------- `eraseDups`

theorem eraseDups_length_le : ∀ (n : Nat) (l : List Nat), l.length ≤ n → l.eraseDups.length ≤ l.length := by
  intro n
  induction n with
  | zero => intro l hl; cases l with
    | nil => simp
    | cons a l => simp at hl
  | succ n ih =>
    intro l hl
    cases l with
    | nil => simp
    | cons a l =>
      rw [List.eraseDups_cons]
      have h1 : (l.filter (fun b => !b == a)).length ≤ l.length := List.length_filter_le _ _
      have h2 := ih (l.filter (fun b => !b == a)) (by simp at hl; omega)
      simp only [List.length_cons]
      omega

theorem nodup_of_eraseDups_length : ∀ (n : Nat) (l : List Nat), l.length ≤ n →
    l.eraseDups.length = l.length → l.Nodup := by
  intro n
  induction n with
  | zero => intro l hl _; cases l with
    | nil => simp
    | cons a l => simp at hl
  | succ n ih =>
    intro l hl he
    cases l with
    | nil => simp
    | cons a l =>
      rw [List.eraseDups_cons] at he
      simp only [List.length_cons] at he hl
      have h1 : (l.filter (fun b => !b == a)).length ≤ l.length := List.length_filter_le _ _
      have h2 := eraseDups_length_le _ (l.filter (fun b => !b == a)) (Nat.le_refl _)
      have h3 : (l.filter (fun b => !b == a)).length = l.length := by omega
      have h4 : l.filter (fun b => !b == a) = l := List.filter_eq_self.mpr (List.length_filter_eq_length_iff.mp h3)
      rw [h4] at he
      have hnd := ih l (by omega) (by omega)
      refine List.nodup_cons.mpr ⟨?_, hnd⟩
      intro ha
      have := List.length_filter_eq_length_iff.mp h3 a ha
      simp at this

theorem eraseDups_nodup : ∀ (n : Nat) (l : List Nat), l.length ≤ n → l.eraseDups.Nodup := by
  intro n
  induction n with
  | zero => intro l hl; cases l with
    | nil => simp
    | cons a l => simp at hl
  | succ n ih =>
    intro l hl
    cases l with
    | nil => simp
    | cons a l =>
      rw [List.eraseDups_cons]
      have h1 : (l.filter (fun b => !b == a)).length ≤ l.length := List.length_filter_le _ _
      refine List.nodup_cons.mpr ⟨?_, ih _ (by simp at hl; omega)⟩
      intro ha
      rw [List.mem_eraseDups, List.mem_filter] at ha
      simp at ha

theorem wf_dels {h : History} (hw : wellFormed h = true) {t : Nat} {b : Block} (hb : h[t]? = some b) :
    b.delSlots.Nodup ∧ ∀ s ∈ b.delSlots, Live (stateAt h t) s := by
  obtain ⟨h1, h2⟩ := wf_block hw hb
  refine ⟨nodup_of_eraseDups_length _ _ (Nat.le_refl _) h1, ?_⟩
  intro s hs
  have ht : t ≤ h.length := Nat.le_of_lt (List.getElem?_eq_some_iff.mp hb).1
  exact (alive_iff hw ht s).mp (h2 s hs).1

theorem flags_eq {h : History} (hw : wellFormed h = true) {t : Nat} (ht : t ≤ h.length) :
    (List.range ((lives h).before t)).map ((lives h).aliveBefore t) = flags (stateAt h t) := by
  apply List.ext_getElem
  · simp [flags, before_eq]
  · intro i h1 h2
    simp only [List.length_map, List.length_range] at h1
    simp only [flags, List.getElem_map, List.getElem_range]
    rw [before_eq] at h1
    rw [Bool.eq_iff_iff, alive_iff hw ht]
    unfold Live
    rw [List.getElem?_eq_getElem h1]
    constructor
    · intro hl
      rw [Option.some.inj hl]; rfl
    · intro hl
      cases hx : (stateAt h t)[i] with
      | none => rw [hx] at hl; cases hl
      | some x =>
        have := stateAt_canon h t i x (by rw [List.getElem?_eq_getElem h1, hx])
        rw [this]

-- ---------------------------------------------------------------- non-vacuity

/-- a well-formed three-block history on which the characterisations are not vacuous -/
example : wellFormed [⟨2, []⟩, ⟨1, [0]⟩, ⟨0, [2, 1]⟩] = true ∧
    stateAt [⟨2, []⟩, ⟨1, [0]⟩, ⟨0, [2, 1]⟩] 2 = [none, some 1, some 2] := by decide +kernel

end UtreexoVerif.Proofs.SchedLives
