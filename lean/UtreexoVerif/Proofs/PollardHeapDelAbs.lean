/-
  Pointer forest, heap model: the abstraction relation during a block.

  `Modify` first removes every deleted hash from `NodeMap` (`deleteFromMap`) and then removes the
  nodes one by one: in between, `NodeMap` holds the leaves NOT in the deletion set `D`.
  `AbsD p F D` is `Abs p F` with that weaker map clause (`AbsD p F [] ↔ Abs p F`).
-/
import UtreexoVerif.Proofs.PollardHeapDelPure
set_option linter.unusedSectionVars false
set_option linter.unusedVariables false
set_option linter.unusedSimpArgs false

namespace UtreexoVerif.Proofs.PollardHeap
open UtreexoVerif UtreexoVerif.GoInt UtreexoVerif.Model UtreexoVerif.Model.PollardHeap UtreexoVerif.Spec Hasher
open UtreexoVerif.Model.PollardAbs UtreexoVerif.Proofs.SpecNodes UtreexoVerif.Proofs.SpecSubs
open UtreexoVerif.Proofs.PollardLookup

variable {H : Type} [DecidableEq H] [Hasher H]

/-- heap `p` represents forest `F`, `NodeMap` = the leaves whose hash is not in `D` -/
structure AbsD (p : Pollard H) (F : Forest H) (D : List H) : Prop where
  numLeaves : p.numLeaves.toNat = F.numLeaves
  repr : ∃ owned lv, ReprRoots p.heap p.roots (F.trees.map (·.2)) owned lv ∧ owned.Nodup ∧
    (p.nodeMap.map (·.1)).Nodup ∧ (lv.map (·.1)).Nodup ∧
    ∀ e, e ∈ p.nodeMap ↔ (e ∈ lv ∧ e.1 ∉ D)

/-- distinct keys and distinct values on a list of pairs that is a set -/
theorem keys_nodup_of_iff {m lv : List (H × Nat)} (hm : (m.map (·.1)).Nodup)
    (hi : (lv.map (·.2)).Nodup) (h : ∀ e, e ∈ lv → e ∈ m) : (lv.map (·.1)).Nodup := by
  induction lv with
  | nil => simp
  | cons e lv ih =>
    simp only [List.map_cons, List.nodup_cons] at hi ⊢
    refine ⟨?_, ih hi.2 (fun e' he' => h e' (by simp [he']))⟩
    intro hmem
    simp only [List.mem_map] at hmem
    obtain ⟨e', he', hk⟩ := hmem
    -- `e` and `e'` are entries of `m` with the same key, hence equal; then the value repeats
    have h1 := h e (by simp)
    have h2 := h e' (by simp [he'])
    have : e' = e := by
      have inj := PollardLookup.inj_of_nodup_map (fun x : H × Nat => x.1) m hm
      exact inj e' h2 e h1 hk
    apply hi.1
    rw [← this]
    exact List.mem_map_of_mem he'

theorem Abs.toAbsD {p : Pollard H} {F : Forest H} (a : Abs p F) : AbsD p F [] := by
  obtain ⟨hnl, owned, lv, h1, h2, h3, h4⟩ := a
  refine ⟨hnl, owned, lv, h1, h2, h3, ?_, fun e => by simp [h4 e]⟩
  exact keys_nodup_of_iff h3 (h1.leaf_idx h2).1 (fun e he => (h4 e).2 he)

theorem AbsD.toAbs {p : Pollard H} {F : Forest H} {D : List H} (a : AbsD p F D)
    (hn : F.numLeaves < 2 ^ 64) (hD : ∀ x ∈ F.liveLeaves, x ∉ D) : Abs p F := by
  obtain ⟨hnl, owned, lv, h1, h2, h3, h4, h5⟩ := a
  refine ⟨hnl, owned, lv, h1, h2, h3, fun e => ?_⟩
  rw [h5 e]
  constructor
  · exact fun h => h.1
  · intro he
    refine ⟨he, hD _ ?_⟩
    rw [← trees_leaves F hn]
    have := h1.leaves
    rw [List.flatMap_map] at this
    rw [← this]
    exact List.mem_map_of_mem he

theorem AbsD.congr_D {p : Pollard H} {F : Forest H} {D D' : List H} (a : AbsD p F D)
    (h : ∀ x, x ∈ D ↔ x ∈ D') : AbsD p F D' := by
  obtain ⟨hnl, owned, lv, h1, h2, h3, h4, h5⟩ := a
  exact ⟨hnl, owned, lv, h1, h2, h3, h4, fun e => by rw [h5 e, h e.1]⟩

/-- the live leaves are the keys of the represented leaves -/
theorem ReprRoots.liveLeaves {hp : Heap H} {rs : List Nat} {F : Forest H} {owned : List Nat}
    {lv : List (H × Nat)} (h : ReprRoots hp rs (F.trees.map (·.2)) owned lv)
    (hn : F.numLeaves < 2 ^ 64) : lv.map (·.1) = F.liveLeaves := by
  rw [h.leaves, List.flatMap_map, ← trees_leaves F hn]

/-- `deleteFromMap` -/
theorem deleteFromMap_absD {F : Forest H} : ∀ (D1 D0 : List H) (p : Pollard H), AbsD p F D0 →
    ∃ nm', deleteFromMap D1 p = (.ok (), { p with nodeMap := nm' }) ∧
      AbsD { p with nodeMap := nm' } F (D0 ++ D1) := by
  intro D1
  induction D1 with
  | nil =>
    intro D0 p a
    exact ⟨p.nodeMap, rfl, by simpa using a⟩
  | cons d D1 ih =>
    intro D0 p a
    obtain ⟨hnl, owned, lv, h1, h2, h3, h4, h5⟩ := a
    have a1 : AbsD { p with nodeMap := mapDel p.nodeMap d } F (D0 ++ [d]) := by
      refine ⟨hnl, owned, lv, h1, h2, mapDel_keys_nodup d h3, h4, fun e => ?_⟩
      show e ∈ mapDel p.nodeMap d ↔ _
      rw [mem_mapDel, h5 e]
      simp only [List.mem_append, List.mem_singleton, not_or]
      exact and_assoc
    obtain ⟨nm', e1, e2⟩ := ih (D0 ++ [d]) _ a1
    refine ⟨nm', ?_, by simpa [List.append_assoc] using e2⟩
    show (nodeMapDel d >>= fun _ => deleteFromMap D1) p = _
    simp only [bind_apply, nodeMapDel_apply]
    exact e1

/-! ### list bookkeeping -/

theorem nodup_replace_mid {o1 m m' o2 : List Nat} (nd : (o1 ++ (m ++ o2)).Nodup) (nd' : m'.Nodup)
    (hsub : ∀ i ∈ m', i ∈ m) : (o1 ++ (m' ++ o2)).Nodup := by
  simp only [List.nodup_append, List.mem_append] at nd ⊢
  obtain ⟨n1, ⟨n2, n3, n4⟩, n5⟩ := nd
  refine ⟨n1, ⟨nd', n3, fun a ha b hb => n4 a (hsub a ha) b hb⟩, ?_⟩
  intro a ha b hb
  rcases hb with hb | hb
  · exact n5 a ha b (Or.inl (hsub b hb))
  · exact n5 a ha b (Or.inr hb)

theorem pruneO_eq_self (R : List H) (o : Option (CTree H)) (h : ∀ x ∈ optLeaves o, x ∉ R) :
    pruneO R o = o := by
  cases o with
  | none => rfl
  | some t => exact prune_eq_self R t h

theorem map_pruneO_eq_self (R : List H) (ts : List (Option (CTree H)))
    (h : ∀ x ∈ ts.flatMap optLeaves, x ∉ R) : ts.map (pruneO R) = ts := by
  induction ts with
  | nil => rfl
  | cons t ts ih =>
    simp only [List.map_cons, List.flatMap_cons, List.mem_append] at h ⊢
    rw [pruneO_eq_self R t (fun x hx => h x (Or.inl hx)), ih (fun x hx => h x (Or.inr hx))]

/-- rebuilding the list of roots after one root changed inside its old footprint -/
theorem ReprRoots.rebuild {hp hp' : Heap H} {rs1 rs2 : List Nat} {r : Nat}
    {ts1 ts2 : List (Option (CTree H))} {t' : Option (CTree H)} {o1 fp fp' o2 : List Nat}
    {l1 lk' l2 : List (H × Nat)}
    (h1 : ReprRoots hp rs1 ts1 o1 l1) (h2 : ReprRoots hp rs2 ts2 o2 l2)
    (nd : (o1 ++ (r :: fp ++ o2)).Nodup)
    (hr : ReprRoot hp' r t' fp' lk') (ndr : (r :: fp').Nodup) (hsub : ∀ i ∈ fp', i ∈ fp)
    (hframe : ∀ j, j ∉ r :: fp → hp'[j]? = hp[j]?) :
    ReprRoots hp' (rs1 ++ r :: rs2) (ts1 ++ t' :: ts2) (o1 ++ (r :: fp' ++ o2)) (l1 ++ (lk' ++ l2)) ∧
      (o1 ++ (r :: fp' ++ o2)).Nodup := by
  have ndx := nd
  simp only [List.nodup_append, List.mem_append, List.mem_cons] at ndx
  obtain ⟨n1, ⟨n2, n3, n4⟩, n5⟩ := ndx
  refine ⟨?_, ?_⟩
  · apply ReprRoots.append
    · apply h1.frame
      intro i hi
      apply hframe
      intro hm
      exact n5 i hi i (Or.inl (by simpa using hm)) rfl
    · apply ReprRoots.cons hr
      apply h2.frame
      intro i hi
      apply hframe
      intro hm
      exact n4 i (by simpa using hm) i hi rfl
  · have := nodup_replace_mid (m := r :: fp) (m' := r :: fp') (by simpa using nd) ndr
      (by
        intro i hi
        simp only [List.mem_cons] at hi ⊢
        rcases hi with h | h
        · exact Or.inl h
        · exact Or.inr (hsub i h))
    simpa using this

/-! ### the `NodeMap` clause through `deleteSingle` -/

/-- deleting the key of the removed node: the leaves `la` of the removed sub-tree disappear -/
theorem mapInv_del {nm lv L1 la L2 : List (H × Nat)} {D : List H} {k : H}
    (hinv : ∀ e, e ∈ nm ↔ e ∈ lv ∧ e.1 ∉ D) (hlv : lv = L1 ++ (la ++ L2))
    (hla : ∀ e ∈ la, e.1 ∈ D) (hk : k ∈ D ∨ ∀ e ∈ lv, e.1 ≠ k) :
    ∀ e, e ∈ mapDel nm k ↔ e ∈ L1 ++ L2 ∧ e.1 ∉ D := by
  intro e
  rw [mem_mapDel, hinv e, hlv]
  simp only [List.mem_append]
  constructor
  · rintro ⟨⟨h1, h2⟩, _⟩
    refine ⟨?_, h2⟩
    rcases h1 with h | h | h
    · exact Or.inl h
    · exact absurd (hla e h) h2
    · exact Or.inr h
  · rintro ⟨h1, h2⟩
    have hmem : e ∈ L1 ∨ e ∈ la ∨ e ∈ L2 := by
      rcases h1 with h | h
      · exact Or.inl h
      · exact Or.inr (Or.inr h)
    refine ⟨⟨hmem, h2⟩, ?_⟩
    rcases hk with hk | hk
    · intro e'; exact h2 (e' ▸ hk)
    · apply hk e
      rw [hlv]; simpa [List.mem_append] using hmem

/-- "if the node was a leaf, update the map to point to the root" -/
theorem mapInv_move {nm lv X lb Y : List (H × Nat)} {D : List H} {b : CTree H} {r : Nat}
    (hinv : ∀ e, e ∈ nm ↔ e ∈ lv ∧ e.1 ∉ D) (hmk : (nm.map (·.1)).Nodup)
    (hlk : (lv.map (·.1)).Nodup) (hlv : lv = X ++ (lb ++ Y))
    (hb : (∃ x B, b = .leaf x ∧ lb = [(x, B)]) ∨ (∃ u v, b = CTree.node u v))
    (hsep : ∀ e ∈ lv, ∀ u v : H, e.1 ≠ ph u v) :
    (∀ e, e ∈ mapMoveTo nm b.hash r ↔ e ∈ X ++ (relabelTop b r lb ++ Y) ∧ e.1 ∉ D) ∧
      ((mapMoveTo nm b.hash r).map (·.1)).Nodup ∧
      (X ++ (relabelTop b r lb ++ Y)).map (·.1) = lv.map (·.1) := by
  rcases hb with ⟨x, B, rfl, rfl⟩ | ⟨u, v, rfl⟩
  · -- a leaf moves into the root
    simp only [CTree.hash, relabelTop]
    have hxB : (x, B) ∈ lv := by rw [hlv]; simp
    rw [hlv] at hlk
    simp only [List.map_append, List.map_cons, List.map_nil, List.nodup_append, List.mem_append,
      List.mem_cons, List.not_mem_nil, or_false, List.nodup_cons, List.mem_map] at hlk
    have hXx : ∀ e ∈ X, e.1 ≠ x := by
      intro e he hx
      exact hlk.2.2 e.1 ⟨e, he, rfl⟩ x (Or.inl rfl) hx
    have hYx : ∀ e ∈ Y, e.1 ≠ x := by
      intro e he hx
      exact hlk.2.1.2.2 x (by simp) e.1 ⟨e, he, rfl⟩ hx.symm
    refine ⟨?_, ?_, by simp [hlv]⟩
    · intro e
      by_cases hx : x ∈ nm.map (·.1)
      · have hxD : x ∉ D := by
          simp only [List.mem_map] at hx
          obtain ⟨e', he', hk⟩ := hx
          have := ((hinv e').1 he').2
          rwa [hk] at this
        unfold mapMoveTo
        rw [if_pos (mapGet_isSome_iff.2 hx), mem_mapSet_of_mem hx, hinv e, hlv]
        simp only [List.mem_append, List.mem_cons, List.not_mem_nil, or_false]
        constructor
        · rintro (⟨⟨h1, h2⟩, h3⟩ | rfl)
          · refine ⟨?_, h2⟩
            rcases h1 with h | h | h
            · exact Or.inl h
            · subst h; exact absurd rfl h3
            · exact Or.inr (Or.inr h)
          · exact ⟨Or.inr (Or.inl rfl), hxD⟩
        · rintro ⟨h1, h2⟩
          rcases h1 with h | h | h
          · exact Or.inl ⟨⟨Or.inl h, h2⟩, hXx e h⟩
          · exact Or.inr h
          · exact Or.inl ⟨⟨Or.inr (Or.inr h), h2⟩, hYx e h⟩
      · have hxD : x ∈ D := by
          apply Classical.byContradiction
          intro hc
          exact hx (List.mem_map.2 ⟨(x, B), (hinv _).2 ⟨hxB, hc⟩, rfl⟩)
        unfold mapMoveTo
        have : ¬ (mapGet nm x).isSome = true := fun h => hx (mapGet_isSome_iff.1 h)
        rw [if_neg this, hinv e, hlv]
        simp only [List.mem_append, List.mem_cons, List.not_mem_nil, or_false]
        constructor
        · rintro ⟨h1, h2⟩
          refine ⟨?_, h2⟩
          rcases h1 with h | h | h
          · exact Or.inl h
          · subst h; exact absurd hxD h2
          · exact Or.inr (Or.inr h)
        · rintro ⟨h1, h2⟩
          refine ⟨?_, h2⟩
          rcases h1 with h | h | h
          · exact Or.inl h
          · subst h; exact absurd hxD h2
          · exact Or.inr (Or.inr h)
    · unfold mapMoveTo
      split
      · rename_i h
        rw [mapSet_keys (mapGet_isSome_iff.1 h)]; exact hmk
      · exact hmk
  · -- an inner node: nothing is tracked under its hash
    simp only [relabelTop]
    have hno : ¬ (mapGet nm (CTree.node u v).hash).isSome = true := by
      intro h
      have := mapGet_isSome_iff.1 h
      simp only [List.mem_map] at this
      obtain ⟨e', he', hk⟩ := this
      exact hsep e' ((hinv e').1 he').1 u.hash v.hash (by rw [hk]; rfl)
    unfold mapMoveTo
    rw [if_neg hno, ← hlv]
    exact ⟨hinv, hmk, rfl⟩

end UtreexoVerif.Proofs.PollardHeap
