/-
  `RestorePollardFrom` on the heap, applied to a VALID stream: the restored heap represents
  the written forest (`restoreH_encode`: `Abs p' F`).
-/
import UtreexoVerif.Proofs.PollardHeapSerialV
import UtreexoVerif.Proofs.PollardHeapSerialW
import UtreexoVerif.Proofs.PollardHeapDelAbs
set_option linter.unusedSectionVars false
set_option linter.unusedVariables false
set_option linter.unusedSimpArgs false

namespace UtreexoVerif.Proofs.PollardHeapSerial
open UtreexoVerif UtreexoVerif.Model UtreexoVerif.Model.PollardHeap UtreexoVerif.Spec Hasher
open UtreexoVerif.Model.Serial UtreexoVerif.Proofs.PollardHeap

variable {H : Type} [DecidableEq H] [Hasher H] [HashBytes H]

theorem nodup_of_nodup_map {α β : Type} (f : α → β) : ∀ {l : List α}, (l.map f).Nodup → l.Nodup := by
  intro l
  induction l with
  | nil => intro _; exact List.nodup_nil
  | cons a l ih =>
    intro h
    simp only [List.map_cons, List.nodup_cons, List.mem_map, not_exists, not_and] at h
    exact List.nodup_cons.2 ⟨fun ha => h.1 a ha rfl, ih h.2⟩

theorem inj_of_nodup_map {α β : Type} (f : α → β) : ∀ {l : List α}, (l.map f).Nodup →
    ∀ a ∈ l, ∀ b ∈ l, f a = f b → a = b := by
  intro l
  induction l with
  | nil => intro _ a ha; cases ha
  | cons x l ih =>
    intro h a ha b hb hab
    simp only [List.map_cons, List.nodup_cons, List.mem_map, not_exists, not_and] at h
    simp only [List.mem_cons] at ha hb
    rcases ha with rfl | ha <;> rcases hb with rfl | hb
    · rfl
    · exact absurd hab.symm (h.1 b hb)
    · exact absurd hab (h.1 a ha)
    · exact ih h.2 a ha b hb hab

/-- the heap `RestorePollardFrom` builds from the record forest of `F` represents `F` -/
theorem buildAll_abs (ok : Proofs.Serial.HashBytesOK H) (F : Forest H) (hF : Proofs.Serial.LeavesOK F) :
    Abs (buildAll (H := H) (BitVec.ofNat 64 F.numLeaves) (BitVec.ofNat 64 (numDead F))
      ((F.trees.map (·.2)).map LNode.ofRoot)) F ∧
    ((buildAll (H := H) (BitVec.ofNat 64 F.numLeaves) (BitVec.ofNat 64 (numDead F))
      ((F.trees.map (·.2)).map LNode.ofRoot)).nodeMap.length = F.liveLeaves.length) := by
  obtain ⟨p0, hp0⟩ : ∃ p0 : Pollard H, p0 = { (newAccumulator : Pollard H) with
      numLeaves := BitVec.ofNat 64 F.numLeaves, numDels := BitVec.ofNat 64 (numDead F) } := ⟨_, rfl⟩
  obtain ⟨ts, hts⟩ : ∃ ts, ts = (F.trees.map (·.2)).map (LNode.ofRoot (H := H)) := ⟨_, rfl⟩
  have hb : buildAll (H := H) (BitVec.ofNat 64 F.numLeaves) (BitVec.ofNat 64 (numDead F)) ts =
      buildRoots ts p0 := by rw [hp0]; rfl
  rw [← hts, hb]
  obtain ⟨rs, owned, ents, R1, R2, R3, R4, R5, R6, R7, R8⟩ := buildRoots_spec ts p0
  obtain ⟨r1, r2, r3⟩ := buildRoots_rest ts p0
  have R2' : LRoots (buildRoots ts p0).heap rs ((F.trees.map (·.2)).map (LNode.ofRoot (H := H))) owned ents := by
    rw [← hts]; exact R2
  obtain ⟨owned', lv, A1, A2, A3⟩ := reprRoots_of_lroots ok _ _ _ _ R2'
  have hsmall := hF.small
  have hlive : lv.map (·.1) = F.liveLeaves := ReprRoots.liveLeaves A1 (by omega)
  have hnz : ∀ e ∈ lv, e.1 ≠ zero := by
    intro e he
    apply hF.nonzero
    rw [← hlive]; exact List.mem_map_of_mem he
  have hlnd : F.liveLeaves.Nodup := nodup_of_nodup_map _ hF.miniDistinct
  have hkeys : (lv.map (·.1)).Nodup := by rw [hlive]; exact hlnd
  have hents : ∀ e, e ∈ ents ↔ e ∈ lv := by
    intro e; rw [A3 e]
    exact ⟨fun h => h.1, fun h => ⟨h, hnz e h⟩⟩
  have hnm0 : p0.nodeMap = [] := by rw [hp0]; rfl
  have hroots0 : p0.roots = [] := by rw [hp0]; rfl
  obtain ⟨M1, M2⟩ := mapSetAll_mem ents ([] : List (H × Nat)) (by simp) (by
    intro a ha b hb' hab
    simp only [List.nil_append] at ha hb'
    exact inj_of_nodup_map _ hkeys a ((hents a).1 ha) b ((hents b).1 hb') hab)
  rw [hnm0] at R7
  rw [hroots0, List.nil_append] at R1
  have hmap : MapOK (buildRoots ts p0).nodeMap lv := by
    rw [R7]
    refine ⟨M1, fun e => ?_⟩
    rw [M2 e, ← hents e]; simp
  refine ⟨⟨?_, owned', lv, ?_, (A2.nodup_iff).2 R6, hmap⟩, ?_⟩
  · rw [r1, hp0]
    simp only [BitVec.toNat_ofNat]
    exact Nat.mod_eq_of_lt (by omega)
  · rw [R1]; exact A1
  · have hp : (buildRoots ts p0).nodeMap.Perm lv :=
      (List.perm_ext_iff_of_nodup (nodup_of_nodup_map _ hmap.1) (nodup_of_nodup_map _ hkeys)).2 hmap.2
    rw [hp.length_eq, ← hlive, List.length_map]

/-- **`RestorePollardFrom` on the heap, valid stream**: through any chunking, the bytes
`WriteTo` produces for `F` are restored, with the length of the stream as the count, to a
full pollard that REPRESENTS `F` (and whose `NumDels` is the number of dead slots). -/
theorem restoreH_encode (ok : Proofs.Serial.HashBytesOK H) (F : Forest H) (hF : Proofs.Serial.LeavesOK F)
    (r : Reader) (hd : r.data = encodePollard F) :
    ∃ p', restoreH r = ⟨(encodePollard F).length, .ok p'⟩ ∧ Abs p' F ∧ p'.full = true ∧
      p'.numDels = BitVec.ofNat 64 (numDead F) := by
  have hsmall := hF.small
  obtain ⟨hA, hlen⟩ := buildAll_abs ok F hF
  rw [restoreH_eq, restoreL_encode ok F (by omega) r hd]
  simp only []
  obtain ⟨p', hp'⟩ : ∃ p', p' = buildAll (H := H) (BitVec.ofNat 64 F.numLeaves)
      (BitVec.ofNat 64 (numDead F)) ((F.trees.map (·.2)).map LNode.ofRoot) := ⟨_, rfl⟩
  rw [← hp'] at hA hlen ⊢
  obtain ⟨r1, r2, r3⟩ := buildRoots_rest ((F.trees.map (·.2)).map (LNode.ofRoot (H := H)))
    { (newAccumulator : Pollard H) with
      numLeaves := BitVec.ofNat 64 F.numLeaves, numDels := BitVec.ofNat 64 (numDead F) }
  have e1 : p'.numLeaves = BitVec.ofNat 64 F.numLeaves := by rw [hp']; exact r1
  have e2 : p'.numDels = BitVec.ofNat 64 (numDead F) := by rw [hp']; exact r2
  have e3 : p'.full = true := by rw [hp']; exact r3
  have hcount := Proofs.Serial.live_dead_count F
  have hsan : (p'.nodeMap.length : Int) = (p'.numLeaves - p'.numDels).toInt := by
    rw [e1, e2, Proofs.Serial.sub_toInt hsmall (by omega), hlen]
    congr 1; omega
  rw [if_neg (by rw [hsan]; simp)]
  exact ⟨p', rfl, hA, e3, e2⟩

end UtreexoVerif.Proofs.PollardHeapSerial
