/-
  Helper lemmas for property C13, `MapPollard.Write` / `MapPollard.Read`: decoding of encoded
  record lists through any chunking, strict prefixes, the failing writer.
-/
import UtreexoVerif.Proofs.Serial
namespace UtreexoVerif.Proofs.Serial
open UtreexoVerif Model.Serial Spec Hasher Model
set_option linter.unusedSectionVars false
variable {H : Type} [DecidableEq H] [HashBytes H]

theorem assocPut_fresh {κ ν : Type} [DecidableEq κ] : ∀ (l : List (κ × ν)) (k : κ) (v : ν), k ∉ l.map (·.1) →
    assocPut l k v = l ++ [(k, v)] := by
  intro l
  induction l with
  | nil => intro k v _; rfl
  | cons e l ih =>
    intro k v hk
    obtain ⟨k', v'⟩ := e
    simp only [List.map_cons, List.mem_cons, not_or] at hk
    have : ¬ k' = k := fun h => hk.1 h.symm
    simp [assocPut, this, ih k v hk.2]

/-- `m[k] = v` for a list of records, in order -/
def putRecs {κ ν : Type} [DecidableEq κ] (l : List (κ × ν)) (recs : List (κ × ν)) : List (κ × ν) :=
  recs.foldl (fun m e => assocPut m e.1 e.2) l

theorem putRecs_fresh {κ ν : Type} [DecidableEq κ] : ∀ (recs l : List (κ × ν)),
    (l.map (·.1) ++ recs.map (·.1)).Nodup → putRecs l recs = l ++ recs := by
  intro recs
  induction recs with
  | nil => intro l _; simp [putRecs]
  | cons e recs ih =>
    intro l hnd
    have hfresh : e.1 ∉ l.map (·.1) := by
      intro hmem
      rw [List.nodup_append] at hnd
      exact hnd.2.2 _ hmem _ (by simp) rfl
    have e1 : putRecs l (e :: recs) = putRecs (assocPut l e.1 e.2) recs := rfl
    rw [e1, assocPut_fresh l _ _ hfresh, ih]
    · simp
    · simp only [List.map_append, List.map_cons, List.map_nil, List.append_assoc, List.singleton_append]
      simpa using hnd

theorem encCached_length (ok : HashBytesOK H) (e : H × U64) : (encCached e).length = 40 := by
  simp [encCached, ok.len, le64_length]

theorem encNodeRec_length (ok : HashBytesOK H) (e : U64 × H × Bool) : (encNodeRec e).length = 41 := by
  simp [encNodeRec, ok.len, le64_length]

theorem flatMap_length_const {α β : Type} (f : α → List β) (c : Nat) (h : ∀ a, (f a).length = c) :
    ∀ l : List α, (l.flatMap f).length = c * l.length := by
  intro l
  induction l with
  | nil => simp
  | cons a l ih => simp [List.flatMap_cons, h, ih, Nat.mul_add]; omega

theorem readCached_enc (ok : HashBytesOK H) : ∀ (recs : List (H × U64)) (r : Reader) (c : List (H × U64))
    (total : Nat) (rest : List Byte), r.data = recs.flatMap encCached ++ rest →
    ∃ r', readCached recs.length r c total = ⟨total + 40 * recs.length, .ok (putRecs c recs, r')⟩ ∧
      r'.data = rest ∧ r'.eofWithData = r.eofWithData := by
  intro recs
  induction recs with
  | nil => intro r c total rest hd; exact ⟨r, by simp [readCached, putRecs], by simpa using hd, rfl⟩
  | cons e recs ih =>
    intro r c total rest hd
    obtain ⟨k, v⟩ := e
    simp only [List.flatMap_cons, encCached, List.append_assoc] at hd
    obtain ⟨r1, e1, d1, w1⟩ := readFull_append r (toBytes k) _ hd
    rw [ok.len] at e1
    obtain ⟨r2, e2, d2, w2⟩ := readFull_append r1 (le64 v) _ d1
    rw [le64_length] at e2
    obtain ⟨r3, e3, d3, w3⟩ := ih r2 (assocPut c k v) (total + 32 + 8) rest d2
    refine ⟨r3, ?_, d3, by rw [w3, w2, w1]⟩
    simp only [List.length_cons, readCached, e1, e2, ok.rt, unle64_le64, e3]
    simp [putRecs]; omega

theorem flag_eq_one (b : Bool) : (flag b == 1#8) = b := by cases b <;> simp [flag]

theorem readNodes_enc (ok : HashBytesOK H) : ∀ (recs : List (U64 × H × Bool)) (r : Reader)
    (ns : List (U64 × H × Bool)) (total : Nat) (rest : List Byte), r.data = recs.flatMap encNodeRec ++ rest →
    ∃ r', readNodes recs.length r ns total = ⟨total + 41 * recs.length, .ok (putRecs ns recs, r')⟩ ∧
      r'.data = rest ∧ r'.eofWithData = r.eofWithData := by
  intro recs
  induction recs with
  | nil => intro r c total rest hd; exact ⟨r, by simp [readNodes, putRecs], by simpa using hd, rfl⟩
  | cons e recs ih =>
    intro r c total rest hd
    obtain ⟨k, h, rem⟩ := e
    simp only [List.flatMap_cons, encNodeRec, List.append_assoc] at hd
    obtain ⟨r1, e1, d1, w1⟩ := readFull_append r (le64 k) _ hd
    rw [le64_length] at e1
    obtain ⟨r2, e2, d2, w2⟩ := readFull_append r1 (toBytes h ++ [flag rem]) (List.flatMap encNodeRec recs ++ rest) (by rw [d1]; simp)
    have hl : (toBytes h ++ [flag rem]).length = 33 := by simp [ok.len]
    rw [hl] at e2
    obtain ⟨r3, e3, d3, w3⟩ := ih r2 (assocPut c k (h, rem)) (total + 8 + 33) rest d2
    refine ⟨r3, ?_, d3, by rw [w3, w2, w1]⟩
    have ht : (toBytes h ++ [flag rem]).take 32 = toBytes h := by
      rw [List.take_append_of_le_length (by rw [ok.len]; omega), List.take_of_length_le (by rw [ok.len]; omega)]
    have hdr : (toBytes h ++ [flag rem]).drop 32 = [flag rem] := by
      rw [List.drop_append_of_le_length (by rw [ok.len]; omega), List.drop_of_length_le (by rw [ok.len]; omega)]; rfl
    simp only [List.length_cons, readNodes, e1, e2, unle64_le64, ht, hdr, ok.rt, List.headD_cons, flag_eq_one, e3]
    simp [putRecs]; omega

theorem loopCount_len {n : Nat} (h : n < 2 ^ 63) : loopCount (BitVec.ofNat 64 n) = n := by
  unfold loopCount
  rw [BitVec.toNat_ofNat, Nat.mod_eq_of_lt (by omega), if_pos h]

/-- what the round-trip theorem assumes of a `MapPollard` state: the two association lists
come from Go maps (distinct keys), their sizes fit Go's `int`, and every cached leaf has its
node (the invariant `Read` re-checks) -/
structure MapOK (m : MapSt H) : Prop where
  cachedKeys : (m.cached.map (·.1)).Nodup
  nodeKeys : (m.nodes.map (·.1)).Nodup
  cachedSmall : m.cached.length < 2 ^ 63
  nodesSmall : m.nodes.length < 2 ^ 63
  sane : sanityOk m.cached m.nodes = true

theorem encodeMap_length (ok : HashBytesOK H) (m : MapSt H) :
    (encodeMap m).length = 25 + 40 * m.cached.length + 41 * m.nodes.length := by
  unfold encodeMap
  simp only [List.length_append, le64_length, List.length_singleton,
    flatMap_length_const encCached 40 (encCached_length ok), flatMap_length_const encNodeRec 41 (encNodeRec_length ok)]
  omega

/-- Reading what `Write` wrote, through ANY chunking, into a receiver whose maps are empty:
the written state, and the count is the length of the stream. -/
theorem mapRead_encode (ok : HashBytesOK H) (m : MapSt H) (hm : MapOK m) (m0 : MapSt H)
    (hc0 : m0.cached = []) (hn0 : m0.nodes = []) (r : Reader) (hd : r.data = encodeMap m) :
    mapRead m0 r = ⟨(encodeMap m).length, .ok m⟩ := by
  have hlen := encodeMap_length ok m
  unfold encodeMap at hd
  simp only [List.append_assoc] at hd
  obtain ⟨r1, e1, d1, _⟩ := readFull_append r [m.totalRows] _ hd
  obtain ⟨r2, e2, d2, _⟩ := readFull_append r1 (le64 m.numLeaves) _ d1
  obtain ⟨r3, e3, d3, _⟩ := readFull_append r2 (le64 (BitVec.ofNat 64 m.cached.length)) _ d2
  obtain ⟨r4, e4, d4, _⟩ := readCached_enc ok m.cached r3 [] (1 + 8 + 8) _ d3
  obtain ⟨r5, e5, d5, _⟩ := readFull_append r4 (le64 (BitVec.ofNat 64 m.nodes.length)) _ d4
  obtain ⟨r6, e6, d6, _⟩ := readNodes_enc ok m.nodes r5 [] (1 + 8 + 8 + 40 * m.cached.length + 8) [] (by rw [d5]; simp)
  simp only [List.length_singleton, le64_length] at e1 e2 e3 e5
  rw [putRecs_fresh _ _ (by simpa using hm.cachedKeys)] at e4
  rw [putRecs_fresh _ _ (by simpa using hm.nodeKeys)] at e6
  simp only [List.nil_append] at e4 e6
  unfold mapRead
  simp only [e1, e2, e3, loopCount_len hm.cachedSmall, hc0, hn0, e4, e5, loopCount_len hm.nodesSmall, e6,
    unle64_le64, List.headD_cons, hm.sane]
  rw [hlen]
  simp only [Bool.not_true, Bool.false_eq_true, if_false]
  congr 1
  omega


/-- Reading what `Write` wrote into ANY receiver `m0` (the code does not clear the receiver's
maps): the stream's records are put over the receiver's entries (overwrite-union), and the
sanity check runs on the union. -/
theorem mapRead_encode_into (ok : HashBytesOK H) (m : MapSt H) (hc : m.cached.length < 2 ^ 63)
    (hn : m.nodes.length < 2 ^ 63) (m0 : MapSt H) (r : Reader) (hd : r.data = encodeMap m) :
    mapRead m0 r =
      if sanityOk (putRecs m0.cached m.cached) (putRecs m0.nodes m.nodes) then
        ⟨(encodeMap m).length, .ok (MapSt.mk m.totalRows m.numLeaves
          (putRecs m0.cached m.cached) (putRecs m0.nodes m.nodes))⟩
      else ⟨8, .err⟩ := by
  have hlen := encodeMap_length ok m
  unfold encodeMap at hd
  simp only [List.append_assoc] at hd
  obtain ⟨r1, e1, d1, _⟩ := readFull_append r [m.totalRows] _ hd
  obtain ⟨r2, e2, d2, _⟩ := readFull_append r1 (le64 m.numLeaves) _ d1
  obtain ⟨r3, e3, d3, _⟩ := readFull_append r2 (le64 (BitVec.ofNat 64 m.cached.length)) _ d2
  obtain ⟨r4, e4, d4, _⟩ := readCached_enc ok m.cached r3 m0.cached (1 + 8 + 8) _ d3
  obtain ⟨r5, e5, d5, _⟩ := readFull_append r4 (le64 (BitVec.ofNat 64 m.nodes.length)) _ d4
  obtain ⟨r6, e6, d6, _⟩ := readNodes_enc ok m.nodes r5 m0.nodes (1 + 8 + 8 + 40 * m.cached.length + 8) [] (by rw [d5]; simp)
  simp only [List.length_singleton, le64_length] at e1 e2 e3 e5
  unfold mapRead
  simp only [e1, e2, e3, loopCount_len hc, e4, e5, loopCount_len hn, e6, unle64_le64, List.headD_cons]
  rw [hlen]
  cases sanityOk (putRecs m0.cached m.cached) (putRecs m0.nodes m.nodes) with
  | true =>
    simp only [Bool.not_true, Bool.false_eq_true, if_false, if_true]
    congr 1
    omega
  | false => simp

theorem readCached_prefix (ok : HashBytesOK H) : ∀ (recs : List (H × U64)) (r : Reader) (c : List (H × U64))
    (total t : Nat), t < (recs.flatMap encCached).length → r.data = (recs.flatMap encCached).take t →
    (readCached recs.length r c total).out = .err ∧ (readCached recs.length r c total).n ≤ total + t := by
  intro recs
  induction recs with
  | nil => intro r c total t ht; simp at ht
  | cons e recs ih =>
    intro r c total t ht hd
    obtain ⟨k, v⟩ := e
    simp only [List.flatMap_cons, List.length_append, encCached_length ok] at ht
    simp only [List.flatMap_cons, encCached, List.append_assoc] at hd
    simp only [List.length_cons, readCached]
    by_cases h32 : t < 32
    · rcases hx : readFull r 32 with ⟨res, r'⟩
      have := readFull_lt r 32 (by rw [hd, List.length_take]; omega)
      rw [hx] at this
      rcases this with h1 | h1 <;> simp only at h1 <;> subst h1 <;> simp
    · rw [take_append_ge _ _ _ (by rw [ok.len]; omega), ok.len] at hd
      obtain ⟨r1, e1, d1, _⟩ := readFull_append r (toBytes k) _ hd
      rw [ok.len] at e1
      simp only [e1]
      by_cases h40 : t < 40
      · rcases hx : readFull r1 8 with ⟨res, r'⟩
        have := readFull_lt r1 8 (by rw [d1, List.length_take]; omega)
        rw [hx] at this
        rcases this with h1 | h1 <;> simp only at h1 <;> subst h1 <;> simp <;> omega
      · rw [take_append_ge _ _ _ (by rw [le64_length]; omega), le64_length] at d1
        obtain ⟨r2, e2, d2, _⟩ := readFull_append r1 (le64 v) _ d1
        rw [le64_length] at e2
        simp only [e2]
        have := ih r2 (assocPut c (ofBytes (toBytes k)) (unle64 (le64 v))) (total + 32 + 8) (t - 32 - 8) (by omega) d2
        exact ⟨this.1, by have := this.2; omega⟩

theorem readNodes_prefix (ok : HashBytesOK H) : ∀ (recs : List (U64 × H × Bool)) (r : Reader)
    (ns : List (U64 × H × Bool)) (total t : Nat), t < (recs.flatMap encNodeRec).length →
    r.data = (recs.flatMap encNodeRec).take t →
    (readNodes recs.length r ns total).out = .err ∧ (readNodes recs.length r ns total).n ≤ total + t := by
  intro recs
  induction recs with
  | nil => intro r c total t ht; simp at ht
  | cons e recs ih =>
    intro r c total t ht hd
    obtain ⟨k, h, rem⟩ := e
    simp only [List.flatMap_cons, List.length_append, encNodeRec_length ok] at ht
    simp only [List.flatMap_cons, encNodeRec, List.append_assoc] at hd
    simp only [List.length_cons, readNodes]
    have hdl : r.data.length = t := by
      rw [hd, List.length_take]
      simp only [List.length_append, le64_length, ok.len, List.length_singleton]
      omega
    by_cases h8 : t < 8
    · rcases hx : readFull r 8 with ⟨res, r'⟩
      have := readFull_lt r 8 (by omega)
      rw [hx] at this
      rcases this with h1 | h1 <;> simp only at h1 <;> subst h1 <;> simp <;> omega
    · rw [take_append_ge _ _ _ (by rw [le64_length]; omega), le64_length] at hd
      obtain ⟨r1, e1, d1, _⟩ := readFull_append r (le64 k) _ hd
      rw [le64_length] at e1
      simp only [e1]
      by_cases h41 : t < 41
      · rcases hx : readFull r1 33 with ⟨res, r'⟩
        have : r1.data.length < 33 := by
          rw [d1, List.length_take]
          simp only [List.length_append, ok.len, List.length_singleton]
          omega
        have := readFull_lt r1 33 this
        rw [hx] at this
        rcases this with h1 | h1 <;> simp only at h1 <;> subst h1 <;> simp <;> omega
      · have hd1 : r1.data = (toBytes h ++ [flag rem]) ++ (recs.flatMap encNodeRec).take (t - 8 - 33) := by
          rw [d1, ← List.append_assoc, take_append_ge _ _ _ (by simp [ok.len]; omega)]
          simp [ok.len]
        obtain ⟨r2, e2, d2, _⟩ := readFull_append r1 (toBytes h ++ [flag rem]) _ hd1
        have hl : (toBytes h ++ [flag rem]).length = 33 := by simp [ok.len]
        rw [hl] at e2
        simp only [e2]
        have := ih r2 (assocPut c (unle64 (le64 k)) (ofBytes ((toBytes h ++ [flag rem]).take 32),
          ((toBytes h ++ [flag rem]).drop 32).headD 0#8 == 1#8)) (total + 8 + 33) (t - 8 - 33) (by omega) d2
        exact ⟨this.1, by have := this.2; omega⟩

/-- Reading a strict prefix of what `Write` wrote, through any chunking, into any receiver: an
error, and the reported count does not exceed the bytes that were there. -/
theorem mapRead_prefix (ok : HashBytesOK H) (m : MapSt H) (hm : MapOK m) (m0 : MapSt H) (r : Reader) (t : Nat)
    (ht : t < (encodeMap m).length) (hd : r.data = (encodeMap m).take t) :
    (mapRead m0 r).out = .err ∧ (mapRead m0 r).n ≤ t := by
  have hlen := encodeMap_length ok m
  have hcl := flatMap_length_const encCached 40 (encCached_length ok) m.cached
  have hnl := flatMap_length_const encNodeRec 41 (encNodeRec_length ok) m.nodes
  unfold encodeMap at hd
  simp only [List.append_assoc] at hd
  unfold mapRead
  by_cases h1 : t < 1
  · rcases hx : readFull r 1 with ⟨res, r'⟩
    have := readFull_lt r 1 (by rw [hd, List.length_take]; omega)
    rw [hx] at this
    rcases this with h | h <;> simp only at h <;> subst h <;> simp
  rw [take_append_ge _ _ _ (by simp; omega)] at hd
  obtain ⟨r1, e1, d1, _⟩ := readFull_append r [m.totalRows] _ hd
  simp only [List.length_singleton] at e1 d1
  simp only [e1]
  by_cases h9 : t < 9
  · rcases hx : readFull r1 8 with ⟨res, r'⟩
    have := readFull_lt r1 8 (by rw [d1, List.length_take]; omega)
    rw [hx] at this
    rcases this with h | h <;> simp only at h <;> subst h <;> simp <;> omega
  rw [take_append_ge _ _ _ (by rw [le64_length]; omega), le64_length] at d1
  obtain ⟨r2, e2, d2, _⟩ := readFull_append r1 (le64 m.numLeaves) _ d1
  rw [le64_length] at e2
  simp only [e2]
  by_cases h17 : t < 17
  · rcases hx : readFull r2 8 with ⟨res, r'⟩
    have := readFull_lt r2 8 (by rw [d2, List.length_take]; omega)
    rw [hx] at this
    rcases this with h | h <;> simp only at h <;> subst h <;> simp <;> omega
  rw [take_append_ge _ _ _ (by rw [le64_length]; omega), le64_length] at d2
  obtain ⟨r3, e3, d3, _⟩ := readFull_append r2 (le64 (BitVec.ofNat 64 m.cached.length)) _ d2
  rw [le64_length] at e3
  simp only [e3, unle64_le64, loopCount_len hm.cachedSmall]
  by_cases hC : t - 1 - 8 - 8 < (m.cached.flatMap encCached).length
  · rw [List.take_append_of_le_length (by omega)] at d3
    have h := readCached_prefix ok m.cached r3 m0.cached (1 + 8 + 8) (t - 1 - 8 - 8) hC d3
    revert h
    generalize readCached m.cached.length r3 m0.cached (1 + 8 + 8) = res
    intro h
    obtain ⟨rn, ro⟩ := res
    simp only at h
    rw [h.1]
    simp [failAs]; omega
  rw [take_append_ge _ _ _ (by omega)] at d3
  obtain ⟨r4, e4, d4, _⟩ := readCached_enc ok m.cached r3 m0.cached (1 + 8 + 8) _ d3
  simp only [e4]
  by_cases hN : t - 1 - 8 - 8 - (m.cached.flatMap encCached).length < 8
  · rcases hx : readFull r4 8 with ⟨res, r'⟩
    have := readFull_lt r4 8 (by rw [d4, List.length_take]; omega)
    rw [hx] at this
    rcases this with h | h <;> simp only at h <;> subst h <;> simp <;> omega
  rw [take_append_ge _ _ _ (by rw [le64_length]; omega), le64_length] at d4
  obtain ⟨r5, e5, d5, _⟩ := readFull_append r4 (le64 (BitVec.ofNat 64 m.nodes.length)) _ d4
  rw [le64_length] at e5
  simp only [e5, unle64_le64, loopCount_len hm.nodesSmall]
  have h := readNodes_prefix ok m.nodes r5 m0.nodes (1 + 8 + 8 + 40 * m.cached.length + 8)
    (t - 1 - 8 - 8 - (m.cached.flatMap encCached).length - 8) (by omega) d5
  revert h
  generalize readNodes m.nodes.length r5 m0.nodes _ = res
  intro h
  obtain ⟨rn, ro⟩ := res
  simp only at h
  rw [h.1]
  simp [failAs]; omega
theorem writeCached_spec (ok : HashBytesOK H) : ∀ (recs : List (H × U64)) (total : Nat) (w : Sink),
    ((recs.flatMap encCached).length ≤ w.room →
      writeCached recs total w =
        (⟨total + (recs.flatMap encCached).length, .ok ()⟩,
         ⟨w.written ++ recs.flatMap encCached, w.room - (recs.flatMap encCached).length⟩)) ∧
    (w.room < (recs.flatMap encCached).length →
      (writeCached recs total w).1.out = .err ∧ (writeCached recs total w).1.n ≤ total + w.room) := by
  intro recs
  induction recs with
  | nil => intro total w; simp [writeCached]
  | cons e recs ih =>
    intro total w
    obtain ⟨k, v⟩ := e
    simp only [List.flatMap_cons, List.length_append, encCached_length ok, writeCached]
    have hk := ok.len k
    have hv := le64_length v
    constructor
    · intro h
      rw [wr_ok _ _ _ _ (by omega), wr_ok _ _ _ _ (by dsimp only; omega)]
      rw [(ih _ _).1 (by dsimp only; omega)]
      simp only [encCached, List.append_assoc, hk, hv, Nat.add_assoc, Nat.sub_sub,
        show ∀ x, 32 + (8 + x) = 40 + x from fun x => by omega]
    · intro h
      by_cases h1 : 32 ≤ w.room
      · rw [wr_ok _ _ _ _ (by omega)]
        by_cases h2 : 40 ≤ w.room
        · rw [wr_ok _ _ _ _ (by dsimp only; omega)]
          have := (ih (total + (toBytes k).length + (le64 v).length)
            ⟨w.written ++ toBytes k ++ le64 v, w.room - (toBytes k).length - (le64 v).length⟩).2 (by dsimp only; omega)
          refine ⟨this.1, ?_⟩
          have h3 := this.2
          simp only [hk, hv] at h3 ⊢
          omega
        · rw [wr_fail _ _ _ _ (by dsimp only; omega)]
          refine ⟨rfl, ?_⟩
          dsimp only; omega
      · rw [wr_fail _ _ _ _ (by omega)]
        simp

theorem writeNodes_spec (ok : HashBytesOK H) : ∀ (recs : List (U64 × H × Bool)) (total : Nat) (w : Sink),
    ((recs.flatMap encNodeRec).length ≤ w.room →
      writeNodes recs total w =
        (⟨total + (recs.flatMap encNodeRec).length, .ok ()⟩,
         ⟨w.written ++ recs.flatMap encNodeRec, w.room - (recs.flatMap encNodeRec).length⟩)) ∧
    (w.room < (recs.flatMap encNodeRec).length →
      (writeNodes recs total w).1.out = .err ∧ (writeNodes recs total w).1.n ≤ total + w.room) := by
  intro recs
  induction recs with
  | nil => intro total w; simp [writeNodes]
  | cons e recs ih =>
    intro total w
    obtain ⟨k, h, rem⟩ := e
    simp only [List.flatMap_cons, List.length_append, encNodeRec_length ok, writeNodes]
    have hk := le64_length k
    have hv : (toBytes h ++ [flag rem]).length = 33 := by simp [ok.len]
    constructor
    · intro hr
      rw [wr_ok _ _ _ _ (by omega), wr_ok _ _ _ _ (by dsimp only; omega)]
      rw [(ih _ _).1 (by dsimp only; omega)]
      simp only [encNodeRec, List.append_assoc, hk, hv, Nat.add_assoc, Nat.sub_sub,
        show ∀ x, 8 + (33 + x) = 41 + x from fun x => by omega]
    · intro hr
      by_cases h1 : 8 ≤ w.room
      · rw [wr_ok _ _ _ _ (by omega)]
        by_cases h2 : 41 ≤ w.room
        · rw [wr_ok _ _ _ _ (by dsimp only; omega)]
          have := (ih (total + (le64 k).length + (toBytes h ++ [flag rem]).length)
            ⟨w.written ++ le64 k ++ (toBytes h ++ [flag rem]), w.room - (le64 k).length - (toBytes h ++ [flag rem]).length⟩).2
            (by dsimp only; omega)
          refine ⟨this.1, ?_⟩
          have h3 := this.2
          simp only [hk, hv] at h3 ⊢
          omega
        · rw [wr_fail _ _ _ _ (by dsimp only; omega)]
          refine ⟨rfl, ?_⟩
          dsimp only; omega
      · rw [wr_fail _ _ _ _ (by omega)]
        simp

/-- `MapPollard.Write` into a sink with `room` bytes left: with enough room it appends exactly
`encodeMap m` and reports its length; otherwise it fails, reporting at most `room`. -/
theorem mapWrite_spec (ok : HashBytesOK H) (m : MapSt H) (w : Sink) :
    ((encodeMap m).length ≤ w.room →
      mapWrite m w = (⟨(encodeMap m).length, .ok ()⟩, ⟨w.written ++ encodeMap m, w.room - (encodeMap m).length⟩)) ∧
    (w.room < (encodeMap m).length →
      (mapWrite m w).1.out = .err ∧ (mapWrite m w).1.n ≤ w.room) := by
  have hlen := encodeMap_length ok m
  have hcl := flatMap_length_const encCached 40 (encCached_length ok) m.cached
  have hnl := flatMap_length_const encNodeRec 41 (encNodeRec_length ok) m.nodes
  have l1 := le64_length m.numLeaves
  have l2 := le64_length (BitVec.ofNat 64 m.cached.length)
  have l3 := le64_length (BitVec.ofNat 64 m.nodes.length)
  unfold mapWrite
  constructor
  · intro h
    rw [wr_ok _ _ _ _ (by simp only [List.length_singleton]; omega), wr_ok _ _ _ _ (by dsimp only; simp only [List.length_singleton]; omega),
      wr_ok _ _ _ _ (by dsimp only; simp only [List.length_singleton]; omega)]
    rw [(writeCached_spec ok _ _ _).1 (by dsimp only; simp only [List.length_singleton]; omega)]
    simp only []
    rw [wr_ok _ _ _ _ (by dsimp only; simp only [List.length_singleton]; omega)]
    rw [(writeNodes_spec ok _ _ _).1 (by dsimp only; simp only [List.length_singleton]; omega)]
    unfold encodeMap
    simp only [List.length_append, List.length_singleton, l1, l2, l3, List.append_assoc, Nat.add_assoc, Nat.sub_sub, Nat.zero_add]
  · intro h
    by_cases h1 : 1 ≤ w.room
    · rw [wr_ok _ _ _ _ (by simp only [List.length_singleton]; omega)]
      by_cases h2 : 9 ≤ w.room
      · rw [wr_ok _ _ _ _ (by dsimp only; simp only [List.length_singleton]; omega)]
        by_cases h3 : 17 ≤ w.room
        · rw [wr_ok _ _ _ _ (by dsimp only; simp only [List.length_singleton]; omega)]
          by_cases h4 : 17 + (m.cached.flatMap encCached).length ≤ w.room
          · rw [(writeCached_spec ok _ _ _).1 (by dsimp only; simp only [List.length_singleton]; omega)]
            simp only []
            by_cases h5 : 17 + (m.cached.flatMap encCached).length + 8 ≤ w.room
            · rw [wr_ok _ _ _ _ (by dsimp only; simp only [List.length_singleton]; omega)]
              have := (writeNodes_spec ok m.nodes
                (0 + [m.totalRows].length + (le64 m.numLeaves).length + (le64 (BitVec.ofNat 64 m.cached.length)).length +
                  (m.cached.flatMap encCached).length + (le64 (BitVec.ofNat 64 m.nodes.length)).length)
                ⟨w.written ++ [m.totalRows] ++ le64 m.numLeaves ++ le64 (BitVec.ofNat 64 m.cached.length) ++
                    m.cached.flatMap encCached ++ le64 (BitVec.ofNat 64 m.nodes.length),
                  w.room - [m.totalRows].length - (le64 m.numLeaves).length - (le64 (BitVec.ofNat 64 m.cached.length)).length -
                    (m.cached.flatMap encCached).length - (le64 (BitVec.ofNat 64 m.nodes.length)).length⟩).2
                (by dsimp only; simp only [List.length_singleton]; omega)
              refine ⟨this.1, ?_⟩
              have h6 := this.2
              simp only [List.length_singleton, l1, l2, l3] at h6 ⊢
              omega
            · rw [wr_fail _ _ _ _ (by dsimp only; simp only [List.length_singleton]; omega)]
              refine ⟨rfl, ?_⟩
              dsimp only; simp only [List.length_singleton]; omega
          · have hf := (writeCached_spec ok m.cached
              (0 + [m.totalRows].length + (le64 m.numLeaves).length + (le64 (BitVec.ofNat 64 m.cached.length)).length)
              ⟨w.written ++ [m.totalRows] ++ le64 m.numLeaves ++ le64 (BitVec.ofNat 64 m.cached.length),
                w.room - [m.totalRows].length - (le64 m.numLeaves).length - (le64 (BitVec.ofNat 64 m.cached.length)).length⟩).2
              (by dsimp only; simp only [List.length_singleton]; omega)
            revert hf
            generalize writeCached m.cached _ _ = res
            intro hf
            obtain ⟨⟨rn, ro⟩, rw'⟩ := res
            simp only at hf
            rw [hf.1]
            simp only [failAs]
            have := hf.2
            simp only [List.length_singleton, l1, l2] at this
            exact ⟨trivial, by omega⟩
        · rw [wr_fail _ _ _ _ (by dsimp only; simp only [List.length_singleton]; omega)]
          refine ⟨rfl, ?_⟩
          dsimp only; simp only [List.length_singleton]; omega
      · rw [wr_fail _ _ _ _ (by dsimp only; simp only [List.length_singleton]; omega)]
        refine ⟨rfl, ?_⟩
        dsimp only; simp only [List.length_singleton]; omega
    · rw [wr_fail _ _ _ _ (by simp only [List.length_singleton]; omega)]
      simp
end UtreexoVerif.Proofs.Serial
