/-
  Helper lemmas for `DetectOffset` (C16): the loop walks down the trees (set bits of the leaf
  count, highest first) until it reaches the tree that contains the position.
-/
import UtreexoVerif.Proofs.Geometry2

namespace UtreexoVerif.Proofs
open UtreexoVerif UtreexoVerif.GoInt

/-- total size of the trees on rows `R+1 … R+d` -/
def sumBits (n R : Nat) : Nat → Nat
  | 0 => 0
  | d + 1 => sumBits n R d + (if n.testBit (R + d + 1) then 2 ^ (R + d + 1) else 0)

/-- number of trees on rows `R+1 … R+d` -/
def cntBits (n R : Nat) : Nat → Nat
  | 0 => 0
  | d + 1 => cntBits n R d + (if n.testBit (R + d + 1) then 1 else 0)

theorem sumBits_spec (n R d : Nat) : n % 2 ^ (R + d + 1) = n % 2 ^ (R + 1) + sumBits n R d := by
  induction d with
  | zero => rfl
  | succ d ih =>
    rw [show R + (d + 1) + 1 = (R + d + 1) + 1 by omega, mod_two_pow_succ_testBit, ih, sumBits]
    omega

/-- with all rows counted, the sum is the first slot of the tree on row `R` -/
theorem sumBits_eq_treeStart {n R d : Nat} (hn : n < 2 ^ (R + d + 1)) :
    sumBits n R d = Spec.treeStart n R := by
  have h1 := sumBits_spec n R d
  rw [Nat.mod_eq_of_lt hn] at h1
  unfold Spec.treeStart
  rw [Nat.shiftRight_eq_div_pow, Nat.shiftLeft_eq]
  have := Nat.div_add_mod n (2 ^ (R + 1))
  rw [Nat.mul_comm] at this
  omega

theorem two_pow_dvd_sumBits (n R d : Nat) : 2 ^ (R + 1) ∣ sumBits n R d := by
  induction d with
  | zero => exact Nat.dvd_zero _
  | succ d ih =>
    rw [sumBits]
    apply Nat.dvd_add ih
    split
    · exact Nat.pow_dvd_pow 2 (by omega)
    · exact Nat.dvd_zero _

theorem treeRowsFrom_succ (k n : Nat) :
    Spec.treeRowsFrom (k + 1) n =
      (if n.testBit (k + 1) then [k + 1] else []) ++ Spec.treeRowsFrom k n := by
  rw [Spec.treeRowsFrom]; split <;> rfl

/-- the tree on row `R` is preceded in `treeRowsFrom (R + d)` by exactly the trees above it -/
theorem idxOf_treeRowsFrom {n R : Nat} (hb : n.testBit R = true) (d : Nat) :
    (Spec.treeRowsFrom (R + d) n).idxOf R = cntBits n R d := by
  induction d with
  | zero =>
    cases R with
    | zero => rw [Nat.add_zero, Spec.treeRowsFrom, if_pos hb]; rfl
    | succ R => rw [Nat.add_zero, Spec.treeRowsFrom, if_pos hb, List.idxOf_cons]; simp [cntBits]
  | succ d ih =>
    rw [show R + (d + 1) = (R + d) + 1 by omega, treeRowsFrom_succ, cntBits]
    split
    · rw [List.singleton_append, List.idxOf_cons, ih]
      have : (R + d + 1 == R) = false := by simp; omega
      rw [this]; rfl
    · rw [List.nil_append, ih]; rfl

/-! ### evaluation of the loop condition -/

theorem testBit_iff_mod_ge (x t : Nat) : x.testBit t = decide (2 ^ t ≤ x % 2 ^ (t + 1)) := by
  rw [mod_two_pow_succ_testBit]
  have := Nat.mod_lt x (Nat.two_pow_pos t)
  cases h : x.testBit t
  · simp; omega
  · simp

/-- `(1 << t) & n` -/
theorem one_shl_and (n : U64) (t : Nat) :
    shl 1#64 t &&& n = if n.toNat.testBit t then BitVec.twoPow 64 t else 0#64 := by
  rw [one_shl_eq_twoPow, BitVec.and_comm, BitVec.and_twoPow, ← BitVec.testBit_toNat]

/-- subtracting whole trees above row `t` does not change what the condition looks at -/
theorem shifted_mod {h r o t S : Nat} (hh : h ≤ 63) (hr : r ≤ h) (ho : o < 2 ^ (h - r))
    (ht : t ≤ h) (hS : 2 ^ (t + 1) ∣ S) :
    (encU h r o - BitVec.ofNat 64 S).toNat * 2 ^ r % 2 ^ (t + 1) = (o * 2 ^ r) % 2 ^ (t + 1) := by
  have hM64 : 2 ^ (t + 1) ∣ 2 ^ 64 := Nat.pow_dvd_pow 2 (by omega)
  have hMh : 2 ^ (t + 1) ∣ 2 ^ (h + 1) := Nat.pow_dvd_pow 2 (by omega)
  have hd : 2 ^ (t + 1) ∣ 2 ^ 64 - S % 2 ^ 64 :=
    Nat.dvd_sub hM64 ((Nat.dvd_mod_iff hM64).2 hS)
  obtain ⟨c, hc⟩ := hd
  rw [BitVec.toNat_sub, BitVec.toNat_ofNat, toNat_encU hh hr ho, Nat.mul_mod,
    Nat.mod_mod_of_dvd _ hM64, ← Nat.mul_mod, hc, Nat.add_mul, Nat.mul_assoc, Nat.mul_add_mod,
    ← Nat.mod_mod_of_dvd _ hMh, childMany_nat hr (Nat.le_refl r) ho, Nat.sub_self, enc_val,
    Nat.sub_zero, Nat.sub_self, Nat.zero_add]


/-- the loop condition at row `t`: continue unless there is a tree on row `t` and the
position's leftmost leaf has bit `t` clear -/
theorem detectOffset_cond {h r o t S : Nat} (n : U64) (hh : h ≤ 63) (hr : r ≤ h)
    (ho : o < 2 ^ (h - r)) (ht : t ≤ h) (hS : 2 ^ (t + 1) ∣ S) :
    decide ((shl (encU h r o - BitVec.ofNat 64 S) (H8 r).toNat &&&
        Model.maxPosition (ofInt 8 (t : Int))) ≥ (Model.maxLeafCount (ofInt 8 (t : Int)) &&& n)) =
      (!n.toNat.testBit t || (o * 2 ^ r).testBit t) := by
  unfold Model.maxPosition Model.maxLeafCount ofInt
  rw [BitVec.ofInt_natCast, toNat_H8 (by omega), toNat_H8 (by omega)]
  have key : (shl (encU h r o - BitVec.ofNat 64 S) r &&& (shl 2#64 t - 1#64) ≥ shl 1#64 t &&& n) ↔
      (if n.toNat.testBit t then 2 ^ t else 0) ≤ (o * 2 ^ r) % 2 ^ (t + 1) := by
    rw [ge_iff_le, BitVec.le_def, toNat_shl_and_mask (by omega), shifted_mod hh hr ho ht hS,
      one_shl_and]
    cases n.toNat.testBit t
    · simp
    · simp [BitVec.toNat_twoPow_of_lt (show t < 64 by omega)]
  rw [show decide (shl (encU h r o - BitVec.ofNat 64 S) r &&& (shl 2#64 t - 1#64) ≥ shl 1#64 t &&& n) =
      decide ((if n.toNat.testBit t then 2 ^ t else 0) ≤ (o * 2 ^ r) % 2 ^ (t + 1)) from
    decide_eq_decide.2 key, testBit_iff_mod_ge (o * 2 ^ r) t]
  have := Nat.two_pow_pos t
  by_cases hb : n.toNat.testBit t = true
  · simp [hb]
  · simp [hb]

theorem detectOffset_loop {h r o R : Nat} (n : U64) (hh : h ≤ 63) (hr : r ≤ h)
    (ho : o < 2 ^ (h - r)) (hnR : n.toNat.testBit R = true)
    (hLR : (o * 2 ^ r).testBit R = false)
    (habove : ∀ t, R < t → t ≤ h → n.toNat.testBit t = true → (o * 2 ^ r).testBit t = true) :
    ∀ (d fuel S : Nat) (big : U8), d < fuel → R + d ≤ h → 2 ^ (R + d + 1) ∣ S →
      Model.DetectOffset.loop1 n (H8 r) fuel (encU h r o - BitVec.ofNat 64 S)
          ((R + d : Nat) : Int) big =
        .done (encU h r o - BitVec.ofNat 64 (S + sumBits n.toNat R d), ((R : Nat) : Int),
          big + BitVec.ofNat 8 (cntBits n.toNat R d)) := by
  intro d
  induction d with
  | zero =>
    intro fuel S big hf hRh hS
    obtain ⟨f, rfl⟩ : ∃ f, fuel = f + 1 := ⟨fuel - 1, by omega⟩
    simp only [Nat.add_zero] at hRh hS ⊢
    unfold Model.DetectOffset.loop1
    rw [detectOffset_cond n hh hr ho hRh hS, hnR, hLR]
    simp [sumBits, cntBits]
  | succ d ih =>
    intro fuel S big hf hRh hS
    obtain ⟨f, rfl⟩ : ∃ f, fuel = f + 1 := ⟨fuel - 1, by omega⟩
    unfold Model.DetectOffset.loop1
    have hc : (!n.toNat.testBit (R + (d + 1)) || (o * 2 ^ r).testBit (R + (d + 1))) = true := by
      cases hb : n.toNat.testBit (R + (d + 1))
      · rfl
      · rw [habove _ (by omega) hRh hb]; rfl
    rw [detectOffset_cond n hh hr ho hRh hS, hc]
    have hneg : ¬ (((R + (d + 1) : Nat) : Int) < 0) := by omega
    have hsub : ((R + (d + 1) : Nat) : Int) - 1 = ((R + d : Nat) : Int) := by omega
    have hS' : 2 ^ (R + d + 1) ∣ S := Nat.dvd_trans (Nat.pow_dvd_pow 2 (by omega)) hS
    simp only [if_true, hneg, decide_false, Bool.false_eq_true,
      if_false, Int.toNat_natCast, hsub, one_shl_and]
    cases hb : n.toNat.testBit (R + (d + 1))
    · simp only [Bool.false_eq_true, if_false, bne_self_eq_false]
      rw [ih f S big (by omega) (by omega) hS', sumBits, cntBits,
        show R + d + 1 = R + (d + 1) by omega, hb]
      simp
    · have hne : (BitVec.twoPow 64 (R + (d + 1)) != 0#64) = true := by
        rw [bne_iff_ne]
        intro hc
        have := congrArg BitVec.toNat hc
        rw [BitVec.toNat_twoPow_of_lt (by omega)] at this
        have := Nat.two_pow_pos (R + (d + 1))
        simp at *
      simp only [if_true, hne]
      have e : encU h r o - BitVec.ofNat 64 S - BitVec.twoPow 64 (R + (d + 1)) =
          encU h r o - BitVec.ofNat 64 (S + 2 ^ (R + (d + 1))) := by
        rw [BitVec.sub_sub, BitVec.ofNat_add]
        congr 2
        apply BitVec.eq_of_toNat_eq
        rw [BitVec.toNat_twoPow_of_lt (by omega), toNat_ofNat64_of_lt (two_pow_lt_64 (by omega))]
      rw [e, ih f (S + 2 ^ (R + (d + 1))) (big + 1#8) (by omega) (by omega)
        (Nat.dvd_add hS' (Nat.pow_dvd_pow 2 (by omega))), sumBits, cntBits,
        show R + d + 1 = R + (d + 1) by omega, hb]
      simp only [if_true]
      have e1 : S + 2 ^ (R + (d + 1)) + sumBits n.toNat R d =
          S + (sumBits n.toNat R d + 2 ^ (R + (d + 1))) := by omega
      have e2 : big + 1#8 + BitVec.ofNat 8 (cntBits n.toNat R d) =
          big + BitVec.ofNat 8 (cntBits n.toNat R d + 1) := by
        rw [BitVec.ofNat_add, BitVec.add_assoc, BitVec.add_comm 1#8]
      rw [e1, e2]


/-- subtracting a multiple of `2^j` does not change the low `j` bits -/
theorem sub_ofNat_mod (x : U64) {j S : Nat} (hj : j ≤ 64) (hS : 2 ^ j ∣ S) :
    (x - BitVec.ofNat 64 S).toNat % 2 ^ j = x.toNat % 2 ^ j := by
  have hM64 : 2 ^ j ∣ 2 ^ 64 := Nat.pow_dvd_pow 2 hj
  have hd : 2 ^ j ∣ 2 ^ 64 - S % 2 ^ 64 :=
    Nat.dvd_sub hM64 ((Nat.dvd_mod_iff hM64).2 hS)
  obtain ⟨c, hc⟩ := hd
  rw [BitVec.toNat_sub, BitVec.toNat_ofNat, Nat.mod_mod_of_dvd _ hM64, hc, Nat.mul_add_mod]

theorem sub_ofNat_getLsbD (x : U64) {j S k : Nat} (hj : j ≤ 64) (hS : 2 ^ j ∣ S) (hk : k < j) :
    (x - BitVec.ofNat 64 S).getLsbD k = x.getLsbD k := by
  have h1 := congrArg (fun v => Nat.testBit v k) (sub_ofNat_mod x hj hS)
  simp only [Nat.testBit_mod_two_pow, hk, decide_true, Bool.true_and] at h1
  rw [← BitVec.testBit_toNat, h1, BitVec.testBit_toNat]

/-- the leftmost leaf `o * 2^r` of a node below the root of the tree on row `R` agrees with
the leaf count above bit `R` and has bit `R` clear -/
theorem leftmost_leaf_bits {n r o R : Nat} (hr : r ≤ R) (hroot : o / 2 ^ (R - r) = 2 * (n >>> (R + 1))) :
    (o * 2 ^ r).testBit R = false ∧ ∀ t, R < t → (o * 2 ^ r).testBit t = n.testBit t := by
  have hdiv : o * 2 ^ r / 2 ^ R = 2 * (n / 2 ^ (R + 1)) := by
    rw [two_pow_split hr, Nat.mul_div_mul_right _ _ (Nat.two_pow_pos r), hroot,
      Nat.shiftRight_eq_div_pow]
  have key : ∀ i, (o * 2 ^ r).testBit (i + R) = (2 * (n / 2 ^ (R + 1))).testBit i := by
    intro i; rw [← Nat.testBit_div_two_pow, hdiv]
  constructor
  · have := key 0
    rw [Nat.zero_add] at this
    rw [this, Nat.testBit_zero]; simp
  · intro t ht
    obtain ⟨i, rfl⟩ : ∃ i, t = (i + 1) + R := ⟨t - R - 1, by omega⟩
    rw [key, Nat.testBit_succ, Nat.mul_div_cancel_left _ (by decide : 0 < 2),
      Nat.testBit_div_two_pow]
    congr 1
    omega


/-- the loop when no tree "catches" the position: every tree row `t ≤ T` has bit `t` of the
leftmost leaf set; the row counter then falls below 0 and the error is returned -/
theorem detectOffset_loop_err {h r o : Nat} (n : U64) (hh : h ≤ 63) (hr : r ≤ h)
    (ho : o < 2 ^ (h - r)) :
    ∀ (T fuel S : Nat) (big : U8), T + 1 < fuel → T ≤ h → 2 ^ (T + 1) ∣ S →
      (∀ t, t ≤ T → n.toNat.testBit t = true → (o * 2 ^ r).testBit t = true) →
      Model.DetectOffset.loop1 n (H8 r) fuel (encU h r o - BitVec.ofNat 64 S) ((T : Nat) : Int) big =
        .ret (0#8, 0#8, 0#64, true) := by
  have hlast : ∀ (fuel : Nat) (P : U64) (big : U8), 0 < fuel →
      Model.DetectOffset.loop1 n (H8 r) fuel P (-1) big = .ret (0#8, 0#8, 0#64, true) := by
    intro fuel P big hf
    obtain ⟨f, rfl⟩ : ∃ f, fuel = f + 1 := ⟨fuel - 1, by omega⟩
    unfold Model.DetectOffset.loop1
    have e1 : Model.maxLeafCount (ofInt 8 (-1)) = 0#64 := by decide
    have e2 : (0#64 : U64) &&& n = 0#64 := by simp
    have e3 : ∀ x : U64, x ≥ 0#64 := by
      intro x; rw [ge_iff_le, BitVec.le_def]; simp
    simp [e1, e2, e3]
  intro T
  induction T with
  | zero =>
    intro fuel S big hf hTh hS hall
    obtain ⟨f, rfl⟩ : ∃ f, fuel = f + 1 := ⟨fuel - 1, by omega⟩
    unfold Model.DetectOffset.loop1
    have hc : (!n.toNat.testBit 0 || (o * 2 ^ r).testBit 0) = true := by
      cases hb : n.toNat.testBit 0
      · rfl
      · rw [hall 0 (Nat.le_refl _) hb]; rfl
    rw [detectOffset_cond n hh hr ho hTh hS, hc]
    have hneg : ¬ (((0 : Nat) : Int) < 0) := by omega
    have hsub : ((0 : Nat) : Int) - 1 = -1 := by omega
    simp only [if_true, hneg, decide_false, Bool.false_eq_true, if_false, hsub]
    split <;> exact hlast f _ _ (by omega)
  | succ T ih =>
    intro fuel S big hf hTh hS hall
    obtain ⟨f, rfl⟩ : ∃ f, fuel = f + 1 := ⟨fuel - 1, by omega⟩
    unfold Model.DetectOffset.loop1
    have hc : (!n.toNat.testBit (T + 1) || (o * 2 ^ r).testBit (T + 1)) = true := by
      cases hb : n.toNat.testBit (T + 1)
      · rfl
      · rw [hall _ (Nat.le_refl _) hb]; rfl
    rw [detectOffset_cond n hh hr ho hTh hS, hc]
    have hneg : ¬ (((T + 1 : Nat) : Int) < 0) := by omega
    have hsub : ((T + 1 : Nat) : Int) - 1 = ((T : Nat) : Int) := by omega
    have hS' : 2 ^ (T + 1) ∣ S := Nat.dvd_trans (Nat.pow_dvd_pow 2 (by omega)) hS
    simp only [if_true, hneg, decide_false, Bool.false_eq_true,
      if_false, Int.toNat_natCast, hsub, one_shl_and]
    cases hb : n.toNat.testBit (T + 1)
    · simp only [Bool.false_eq_true, if_false, bne_self_eq_false]
      exact ih f S big (by omega) (by omega) hS' (fun t ht => hall t (by omega))
    · have hne : (BitVec.twoPow 64 (T + 1) != 0#64) = true := by
        rw [bne_iff_ne]
        intro hc
        have := congrArg BitVec.toNat hc
        rw [BitVec.toNat_twoPow_of_lt (by omega)] at this
        have := Nat.two_pow_pos (T + 1)
        simp at *
      simp only [if_true, hne]
      have e : encU h r o - BitVec.ofNat 64 S - BitVec.twoPow 64 (T + 1) =
          encU h r o - BitVec.ofNat 64 (S + 2 ^ (T + 1)) := by
        rw [BitVec.sub_sub, BitVec.ofNat_add]
        congr 2
        apply BitVec.eq_of_toNat_eq
        rw [BitVec.toNat_twoPow_of_lt (by omega), toNat_ofNat64_of_lt (two_pow_lt_64 (by omega))]
      rw [e]
      exact ih f _ _ (by omega) (by omega) (Nat.dvd_add hS' (Nat.pow_dvd_pow 2 (by omega)))
        (fun t ht => hall t (by omega))

/-- the highest index `≤ T` satisfying a decidable predicate, if there is one -/
theorem exists_highest {P : Nat → Prop} [DecidablePred P] :
    ∀ T, (∃ t, t ≤ T ∧ P t) → ∃ R, R ≤ T ∧ P R ∧ ∀ t, R < t → t ≤ T → ¬ P t := by
  intro T
  induction T with
  | zero =>
    rintro ⟨t, ht, hp⟩
    have : t = 0 := by omega
    subst this
    exact ⟨0, Nat.le_refl _, hp, fun t h1 h2 => by omega⟩
  | succ T ih =>
    rintro ⟨t, ht, hp⟩
    by_cases hT : P (T + 1)
    · exact ⟨T + 1, Nat.le_refl _, hT, fun t h1 h2 => by omega⟩
    · have : t ≤ T := by
        rcases Nat.lt_or_ge T t with h | h
        · have : t = T + 1 := by omega
          subst this; exact absurd hp hT
        · exact h
      obtain ⟨R, h1, h2, h3⟩ := ih ⟨t, this, hp⟩
      refine ⟨R, by omega, h2, ?_⟩
      intro t' ht1 ht2
      by_cases h' : t' = T + 1
      · subst h'; exact hT
      · exact h3 t' ht1 (by omega)

end UtreexoVerif.Proofs
