/-
  Layer 2 of the map-forest surgery proofs: the storage invariant on the abstract state
  `(A, C)` of `Proofs/MapRep.lean`, relative to a node list `N` with root predicate `R`
  (a placed forest), a virtual cached set `K ⊇ dom C` and a set `E` of positions that are
  exempt from the "nothing unneeded" clause (used while a surgery is in progress).

  `AInv.prune`: `prunePosition` at a non-root node re-establishes "nothing unneeded" at that
  node and its sibling and preserves everything else.
-/
import UtreexoVerif.Proofs.PForest

namespace UtreexoVerif.Proofs.MapAInv
open UtreexoVerif Model Spec Spec.Forest Proofs MapInv MapPrune MapRep MapLiftGeo PForest Hasher
set_option linter.unusedSectionVars false

variable {H : Type} [DecidableEq H] [Hasher H]

/-- `t` is the position of a leaf of the virtual cached set -/
def KLeaf (N : List (Pos × H × Bool)) (K : H → Prop) (t : Pos) : Prop := ∃ x, K x ∧ (t, x, true) ∈ N

/-- the storage invariant on the abstract state -/
structure AInv (A : Pos → Option (Leaf H)) (C : H → Option Pos) (N : List (Pos × H × Bool))
    (R : Pos → Prop) (K : H → Prop) (E : Pos → Prop) : Prop where
  true_hash : ∀ q l, A q = some l → ∃ b, (q, l.hash, b) ∈ N
  cache_sub : ∀ x t, C x = some t → K x
  cached_pos : ∀ x t, C x = some t → (t, x, true) ∈ N
  roots_stored : ∀ ρ, R ρ → A ρ ≠ none
  only_needed : ∀ q l, A q = some l → ¬ R q → ¬ E q → ∃ t, KLeaf N K t ∧ t.1 ≤ q.1 ∧ Anc (parent q) t
  has_needed : ∀ q h b, (q, h, b) ∈ N → ¬ R q → (KLeaf N K q ∨ ∃ t, KLeaf N K t ∧ Anc (sib q) t) → A q ≠ none
  flags : ∀ q l, A q = some l → l.hash ≠ zero → (l.remember = true ↔ KLeaf N K q)

variable {A : Pos → Option (Leaf H)} {C : H → Option Pos} {N : List (Pos × H × Bool)}
  {R : Pos → Prop} {K : H → Prop} {E : Pos → Prop}

/-! ### children -/

theorem child_cases {c p : Pos} (h : parent c = p) :
    p.1 ≠ 0 ∧ (c = (p.1 - 1, 2 * p.2) ∨ c = (p.1 - 1, 2 * p.2 + 1)) := by
  obtain ⟨r, o⟩ := c
  subst h
  show r + 1 ≠ 0 ∧ ((r, o) = (r + 1 - 1, 2 * (o / 2)) ∨ (r, o) = (r + 1 - 1, 2 * (o / 2) + 1))
  refine ⟨by omega, ?_⟩
  rw [Nat.add_sub_cancel]
  by_cases he : o % 2 = 0
  · left; congr 1; omega
  · right; congr 1; omega

theorem kids_of_child {c p : Pos} (h : parent c = p) (hs : A c ≠ none) : kids A p = true := by
  obtain ⟨h0, hc⟩ := child_cases h
  unfold kids
  have : (A c).isSome = true := by cases hA : A c with
    | none => exact absurd hA hs
    | some _ => rfl
  rcases hc with rfl | rfl <;> simp [h0, this]

theorem child_of_kids {p : Pos} (h : kids A p = true) : ∃ c, parent c = p ∧ A c ≠ none := by
  unfold kids at h
  simp only [Bool.and_eq_true, decide_eq_true_eq, Bool.or_eq_true] at h
  obtain ⟨h0, hc⟩ := h
  have hp : ∀ β, β < 2 → parent (p.1 - 1, 2 * p.2 + β) = p := by
    intro β hβ
    show (p.1 - 1 + 1, (2 * p.2 + β) / 2) = p
    rw [Nat.sub_add_cancel (by omega), show (2 * p.2 + β) / 2 = p.2 by omega]
  rcases hc with hc | hc
  · refine ⟨(p.1 - 1, 2 * p.2), hp 0 (by omega), ?_⟩
    intro e; rw [e] at hc; cases hc
  · refine ⟨(p.1 - 1, 2 * p.2 + 1), hp 1 (by omega), ?_⟩
    intro e; rw [e] at hc; cases hc

/-! ### `prunePosition` -/

/-- Go keeps the node `z` of a pruned pair when this holds -/
def keepCond (A : Pos → Option (Leaf H)) (z : Pos) : Prop :=
  remD (A z) = true ∨ remD (A (sib z)) = true ∨ kids A (sib z) = true

instance (A : Pos → Option (Leaf H)) (z : Pos) : Decidable (keepCond A z) := by unfold keepCond; infer_instance

theorem pruneA_self (A : Pos → Option (Leaf H)) (q : Pos) :
    pruneA A q q = if keepCond A q then A q else none := by
  have hne : q ≠ sib q := fun e => sib_ne q e.symm
  by_cases hk : keepCond A q
  · rw [if_pos hk]
    unfold pruneA
    unfold keepCond at hk
    by_cases hc : remD (A q) = false ∧ remD (A (sib q)) = false
    · rw [if_pos hc]
      have h3 : kids A (sib q) = true := by
        rcases hk with h | h | h
        · rw [hc.1] at h; cases h
        · rw [hc.2] at h; cases h
        · exact h
      simp [hne, h3]
    · rw [if_neg hc]
  · rw [if_neg hk]
    unfold pruneA
    unfold keepCond at hk
    have h1 : remD (A q) = false := by cases h : remD (A q) <;> simp_all
    have h2 : remD (A (sib q)) = false := by cases h : remD (A (sib q)) <;> simp_all
    have h3 : kids A (sib q) = false := by cases h : kids A (sib q) <;> simp_all
    simp [h1, h2, h3, hne]

theorem pruneA_sib (A : Pos → Option (Leaf H)) (q : Pos) :
    pruneA A q (sib q) = if keepCond A (sib q) then A (sib q) else none := by
  by_cases hk : keepCond A (sib q)
  · rw [if_pos hk]
    unfold pruneA
    unfold keepCond at hk
    rw [sib_sib] at hk
    by_cases hc : remD (A q) = false ∧ remD (A (sib q)) = false
    · rw [if_pos hc]
      have h3 : kids A q = true := by
        rcases hk with h | h | h
        · rw [hc.2] at h; cases h
        · rw [hc.1] at h; cases h
        · exact h
      simp [h3, sib_ne]
    · rw [if_neg hc]
  · rw [if_neg hk]
    unfold pruneA
    unfold keepCond at hk
    rw [sib_sib] at hk
    have h1 : remD (A q) = false := by cases h : remD (A q) <;> simp_all
    have h2 : remD (A (sib q)) = false := by cases h : remD (A (sib q)) <;> simp_all
    have h3 : kids A q = false := by cases h : kids A q <;> simp_all
    simp [h1, h2, h3]

theorem remD_true {o : Option (Leaf H)} (h : remD o = true) : ∃ l, o = some l ∧ l.remember = true := by
  cases o with
  | none => simp [remD] at h
  | some l => exact ⟨l, rfl, h⟩

/-- (H1) a stored non-root node that Go would keep is allowed -/
theorem allowed_of_keep (L : Laws N R) (inv : AInv A C N R K E) {z : Pos} {h : H} {b : Bool}
    (hz : (z, h, b) ∈ N) (hnr : ¬ R z) (hE : ∀ c, parent c = sib z → ¬ E c) (hk : keepCond A z) :
    ∃ t, KLeaf N K t ∧ t.1 ≤ z.1 ∧ Anc (parent z) t := by
  obtain ⟨hs, bs, hsz⟩ := L.sib_node z h b hz hnr
  rcases hk with hk | hk | hk
  · obtain ⟨l, hl, hr⟩ := remD_true hk
    obtain ⟨b', hb'⟩ := inv.true_hash z l hl
    have hnz : l.hash ≠ zero := L.nonzero_of_nonroot hb' hnr
    exact ⟨z, (inv.flags z l hl hnz).1 hr, Nat.le_refl _, anc_parent_self z⟩
  · obtain ⟨l, hl, hr⟩ := remD_true hk
    obtain ⟨b', hb'⟩ := inv.true_hash (sib z) l hl
    obtain ⟨hp, hpm, _⟩ := L.parent_node z h b hz hnr
    have hnrs : ¬ R (sib z) := L.not_root_of_sunder hpm hsz (by
      rw [sunder_iff_parent, parent_sib]; exact Anc.refl _)
    have hnz : l.hash ≠ zero := L.nonzero_of_nonroot hb' hnrs
    exact ⟨sib z, (inv.flags (sib z) l hl hnz).1 hr, by rw [sib_fst]; exact Nat.le_refl _, anc_parent_sib z⟩
  · obtain ⟨c, hpc, hc⟩ := child_of_kids hk
    cases hAc : A c with
    | none => exact absurd hAc hc
    | some lc =>
      obtain ⟨bc, hcm⟩ := inv.true_hash c lc hAc
      have hsu : SUnder (sib z) c := by rw [sunder_iff_parent, hpc]; exact Anc.refl _
      have hnrc : ¬ R c := L.not_root_of_sunder hsz hcm hsu
      obtain ⟨t, ht, hrow, hanc⟩ := inv.only_needed c lc hAc hnrc (hE c hpc)
      rw [hpc] at hanc
      have hc1 : c.1 < z.1 := by have := hsu.2; rwa [sib_fst] at this
      exact ⟨t, ht, by omega, Anc.trans (anc_parent_sib z) hanc⟩

/-- (H2) a required non-root node is one that Go keeps -/
theorem keep_of_required (L : Laws N R) (inv : AInv A C N R K E) {z : Pos} {h : H} {b : Bool}
    (hz : (z, h, b) ∈ N) (hnr : ¬ R z) (hreq : KLeaf N K z ∨ ∃ t, KLeaf N K t ∧ Anc (sib z) t) :
    keepCond A z := by
  obtain ⟨hs, bs, hsz⟩ := L.sib_node z h b hz hnr
  obtain ⟨hp, hpm, _⟩ := L.parent_node z h b hz hnr
  have hnrs : ¬ R (sib z) := L.not_root_of_sunder hpm hsz (by
    rw [sunder_iff_parent, parent_sib]; exact Anc.refl _)
  -- a K-leaf at a stored non-root node: the flag is set
  have flag : ∀ (w : Pos) (hw : H) (bw : Bool), (w, hw, bw) ∈ N → ¬ R w → KLeaf N K w → remD (A w) = true := by
    intro w hw bw hwm hnrw hkl
    have hst := inv.has_needed w hw bw hwm hnrw (Or.inl hkl)
    cases hA : A w with
    | none => exact absurd hA hst
    | some l =>
      obtain ⟨b', hb'⟩ := inv.true_hash w l hA
      have hnz : l.hash ≠ zero := L.nonzero_of_nonroot hb' hnrw
      exact (inv.flags w l hA hnz).2 hkl
  rcases hreq with hkl | ⟨t, hkl, hanc⟩
  · exact Or.inl (flag z h b hz hnr hkl)
  · by_cases hts : t = sib z
    · subst hts
      exact Or.inr (Or.inl (flag _ hs bs hsz hnrs hkl))
    · right; right
      obtain ⟨x, _, htm⟩ := hkl
      have hsu : SUnder (sib z) t := ⟨hanc, by
        have := hanc.1
        have hne : t.1 ≠ (sib z).1 := fun e => hts (hanc.eq_of_row e.symm).symm
        omega⟩
      obtain ⟨c, hpc, hct, ⟨h1, b1, hcm⟩, ⟨h2, b2, hscm⟩, hnrc, hnrsc⟩ := L.child_nodes hsz htm hsu
      have := inv.has_needed (sib c) h2 b2 hscm hnrsc (Or.inr ⟨t, ⟨x, ‹K x›, htm⟩, by rw [sib_sib]; exact hct⟩)
      exact kids_of_child (by rw [parent_sib]; exact hpc) this

/-- **`prunePosition` at a non-root node**: nothing required is removed, and afterwards the
node and its sibling are stored only if they are allowed -/
theorem AInv.prune (L : Laws N R) (inv : AInv A C N R K E) {q : Pos} {h : H} {b : Bool}
    (hq : (q, h, b) ∈ N) (hnr : ¬ R q) (hE : ∀ c, parent c = q ∨ parent c = sib q → ¬ E c) :
    AInv (pruneA A q) C N R K (fun z => E z ∧ z ≠ q ∧ z ≠ sib q) := by
  obtain ⟨hs, bs, hsq⟩ := L.sib_node q h b hq hnr
  obtain ⟨hp, hpm, _⟩ := L.parent_node q h b hq hnr
  have hnrs : ¬ R (sib q) := L.not_root_of_sunder hpm hsq (by
    rw [sunder_iff_parent, parent_sib]; exact Anc.refl _)
  refine { true_hash := ?_, cache_sub := inv.cache_sub, cached_pos := inv.cached_pos, roots_stored := ?_,
           only_needed := ?_, has_needed := ?_, flags := ?_ }
  · intro z l hl; exact inv.true_hash z l (pruneA_sub hl)
  · intro ρ hρ
    have h1 : ρ ≠ q := fun e => hnr (e ▸ hρ)
    have h2 : ρ ≠ sib q := fun e => hnrs (e ▸ hρ)
    rw [pruneA_other h1 h2]; exact inv.roots_stored ρ hρ
  · intro z l hl hnrz hEz
    by_cases h1 : z = q
    · subst h1
      rw [pruneA_self] at hl
      split at hl
      · rename_i hk
        exact allowed_of_keep L inv hq hnr (fun c hc => hE c (Or.inr hc)) hk
      · cases hl
    · by_cases h2 : z = sib q
      · subst h2
        rw [pruneA_sib] at hl
        split at hl
        · rename_i hk
          exact allowed_of_keep L inv hsq hnrs (fun c hc => hE c (Or.inl (by rw [sib_sib] at hc; exact hc))) hk
        · cases hl
      · exact inv.only_needed z l (pruneA_sub hl) hnrz (fun he => hEz ⟨he, h1, h2⟩)
  · intro z hz bz hzm hnrz hreq
    by_cases h1 : z = q
    · subst h1
      rw [pruneA_self, if_pos (keep_of_required L inv hzm hnrz hreq)]
      exact inv.has_needed z hz bz hzm hnrz hreq
    · by_cases h2 : z = sib q
      · subst h2
        rw [pruneA_sib, if_pos (keep_of_required L inv hzm hnrz hreq)]
        exact inv.has_needed _ hz bz hzm hnrz hreq
      · rw [pruneA_other h1 h2]; exact inv.has_needed z hz bz hzm hnrz hreq
  · intro z l hl hnz
    exact inv.flags z l (pruneA_sub hl) hnz

/-- weakening the exemption set -/
theorem AInv.mono_E {E' : Pos → Prop} (inv : AInv A C N R K E) (h : ∀ z, E z → E' z) : AInv A C N R K E' :=
  { inv with only_needed := fun q l hl hnr hE => inv.only_needed q l hl hnr (fun he => hE (h q he)) }

/-- the exemption set may be replaced when it makes no difference on stored non-root nodes -/
theorem AInv.change_E {E E' : Pos → Prop} (inv : AInv A C N R K E)
    (h : ∀ q l, A q = some l → ¬ R q → ¬ E' q → ¬ E q) : AInv A C N R K E' :=
  { inv with only_needed := fun q l hl hnr hE => inv.only_needed q l hl hnr (h q l hl hnr hE) }


theorem AInv.congr_K {A : Pos → Option (Leaf H)} {C : H → Option Pos} {N : List (Pos × H × Bool)}
    {R : Pos → Prop} {K K' : H → Prop} {E : Pos → Prop} (inv : AInv A C N R K E) (h : ∀ y, K y ↔ K' y) :
    AInv A C N R K' E := by
  have : K = K' := funext fun y => propext (h y)
  rw [← this]; exact inv

theorem AInv.congr_R {A : Pos → Option (Leaf H)} {C : H → Option Pos} {N : List (Pos × H × Bool)}
    {R R' : Pos → Prop} {K : H → Prop} {E : Pos → Prop} (inv : AInv A C N R K E) (h : ∀ z, R z ↔ R' z) :
    AInv A C N R' K E := by
  have : R = R' := funext fun z => propext (h z)
  rw [← this]; exact inv

theorem AInv.congr_AC {A A' : Pos → Option (Leaf H)} {C C' : H → Option Pos} {N : List (Pos × H × Bool)}
    {R : Pos → Prop} {K : H → Prop} {E : Pos → Prop} (inv : AInv A C N R K E)
    (hA : ∀ q, A' q = A q) (hC : ∀ x, C' x = C x) : AInv A' C' N R K E := by
  have e1 : A' = A := funext hA
  have e2 : C' = C := funext hC
  rw [e1, e2]; exact inv


end UtreexoVerif.Proofs.MapAInv
