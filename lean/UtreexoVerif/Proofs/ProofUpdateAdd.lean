/-
  `updateProofAdd` is canonical (property C07, level 4): fed the canonical proof of the cached
  leaves `K'` in `F` (targets ascending), the additions, sorted remember indexes and the addition
  half of the update data (`AddDataSpec`), it returns the canonical proof, in `F.addMany adds`,
  of `K'` plus the remembered additions (targets ascending).
-/
import UtreexoVerif.Proofs.AddPP
import UtreexoVerif.Proofs.ProofUpdateRemove
import UtreexoVerif.Props.C11b
import UtreexoVerif.Proofs.ProofUpdateRemap

namespace UtreexoVerif.Proofs.ProofUpdateAdd
open UtreexoVerif Spec Hasher Model
open UtreexoVerif.Proofs UtreexoVerif.Proofs.SpecNodes UtreexoVerif.Proofs.SpecSubs
open UtreexoVerif.Proofs.SpecPlan UtreexoVerif.Proofs.CalcComplete
open UtreexoVerif.Proofs.CalcGeo UtreexoVerif.Proofs.Movement UtreexoVerif.Proofs.CalcPlan
open UtreexoVerif.Proofs.Sorted UtreexoVerif.Proofs.MovePP UtreexoVerif.Proofs.ProofUpdateHelpers
open UtreexoVerif.Proofs.ProofUpdateLists UtreexoVerif.Proofs.ProofUpdateGnp
open UtreexoVerif.Proofs.MoveFold UtreexoVerif.Proofs.ProofUpdateRemove
open UtreexoVerif.Proofs.AddMove UtreexoVerif.Proofs.AddPP UtreexoVerif.Proofs.FinalPos
open UtreexoVerif.Props.C11 UtreexoVerif.Proofs.ProofUpdateRemap

section
set_option linter.unusedSectionVars false
variable {H : Type} [DecidableEq H] [Hasher H]

/-- the remembered additions: the additions whose index is listed -/
def remAdds (adds : List H) (remembers : List Nat) : List H :=
  ((adds.zipIdx).filter (fun a => decide (a.2 ∈ remembers))).map (·.1)

theorem remAdds_sub {adds : List H} {remembers : List Nat} {a : H} (h : a ∈ remAdds adds remembers) :
    a ∈ adds := by
  unfold remAdds at h
  obtain ⟨z, hz, rfl⟩ := List.mem_map.1 h
  have := (List.mem_filter.1 hz).1
  exact (List.mem_zipIdx this).2.2 ▸ List.getElem_mem _

theorem remAdds_nodup {adds : List H} (h : adds.Nodup) (remembers : List Nat) :
    (remAdds adds remembers).Nodup := by
  unfold remAdds
  have h1 : ((adds.zipIdx).map (·.1)).Nodup := by rw [List.zipIdx_map_fst]; exact h
  have h2 : (((adds.zipIdx).filter (fun a => decide (a.2 ∈ remembers))).map (·.1)).Sublist
      ((adds.zipIdx).map (·.1)) := List.Sublist.map _ List.filter_sublist
  exact List.Nodup.sublist h2 h1

section ctx
variable {F : Forest H} {adds : List H} (nz : NZ H)
  (hN : F.numLeaves + adds.length ≤ 2 ^ 63)
  (hndG : (F.addMany adds).liveLeaves.Nodup)
  (hleaf : ∀ x ∈ (F.addMany adds).liveLeaves, x ≠ (zero : H) ∧ ∀ a b : H, x ≠ ph a b)
include nz hN hndG hleaf

theorem numLeaves_G : (F.addMany adds).numLeaves = F.numLeaves + adds.length := by
  simp [Forest.addMany, Forest.numLeaves]

theorem slots_nonzero : ∀ x : H, some x ∈ F.slots → x ≠ (zero : H) := by
  intro x hx
  apply (hleaf x _).1
  rw [LiveLeaves.liveLeaves_addMany_eq]
  apply List.mem_append_left
  unfold Forest.liveLeaves
  rw [List.mem_filterMap]
  exact ⟨some x, hx, rfl⟩

/-- the rows of the destroyed roots, in the form used by `Proofs/AddMove.lean` -/
theorem destroySpec_of {L : List Nat} (hasc : AscFrom 0 L)
    (hmem : ∀ h, h ∈ L ↔ (F.numLeaves.testBit h = true ∧
      chunkHash F.slots h (2 * (F.numLeaves / 2 ^ (h + 1))) = zero ∧
      (F.numLeaves / 2 ^ (h + 1) + 1) * 2 ^ (h + 1) ≤ F.numLeaves + adds.length)) :
    DestroySpec F.slots adds.length L where
  asc := hasc
  mem := by
    intro h
    rw [hmem h, chunkHash_eq_zero_iff nz.nonzero F.slots (slots_nonzero nz hN hndG hleaf)]
    rfl

theorem G_live_old {x : H} (hx : x ∈ F.liveLeaves) : x ∈ (F.addMany adds).liveLeaves := by
  rw [LiveLeaves.liveLeaves_addMany_eq]; exact List.mem_append_left _ hx

theorem G_live_new {x : H} (hx : x ∈ adds) : x ∈ (F.addMany adds).liveLeaves := by
  rw [LiveLeaves.liveLeaves_addMany_eq]; exact List.mem_append_right _ hx

theorem old_not_new {x : H} (hx : x ∈ F.liveLeaves) (ha : x ∈ adds) : False := by
  have := hndG
  rw [LiveLeaves.liveLeaves_addMany_eq] at this
  exact (List.nodup_append.1 this).2.2 x hx x ha rfl

/-- an old leaf sits in the new forest at the moved position -/
theorem old_leaf_pos {L : List Nat} (hL : DestroySpec F.slots adds.length L) {x : H} {p : Pos}
    (hp : F.posOf x = some p) :
    (F.addMany adds).posOf x = some (addMove F.numLeaves adds.length L p) := by
  obtain ⟨h0, s⟩ := posOf_sub hp
  obtain ⟨T, _, _, _, g⟩ := add_sub hN hL s
  rw [Spec.posOf_eq_some_iff (by rw [numLeaves_G nz hN hndG hleaf]; omega) hndG]
  exact g.node_mem

/-- a node of the new forest that carries the hash of a live leaf is that leaf -/
theorem leaf_hash_pos {a : H} (ha : a ∈ (F.addMany adds).liveLeaves) {q : Pos} {lf : Bool}
    (hq : (q, a, lf) ∈ (F.addMany adds).nodes) : (F.addMany adds).posOf a = some q := by
  have hlt : (F.addMany adds).numLeaves < 2 ^ 64 := by
    rw [numLeaves_G nz hN hndG hleaf]; omega
  obtain ⟨p, hp⟩ := Spec.posOf_isSome_of_live hlt ha
  have hm := Spec.posOf_some_mem hp
  have := (nodes_leaf_hash_unique _ hlt hndG (fun x hx => (hleaf x hx).2) p q a lf
    (hleaf a ha).1 hm hq).1
  rw [← this]
  exact hp

end ctx

/-! ### the moved targets and proof, the merged node list -/

section lists
variable {F : Forest H} {adds : List H} (nz : NZ H)
  (hN : F.numLeaves + adds.length ≤ 2 ^ 63)
  (hndG : (F.addMany adds).liveLeaves.Nodup)
  (hleaf : ∀ x ∈ (F.addMany adds).liveLeaves, x ≠ (zero : H) ∧ ∀ a b : H, x ≠ ph a b)
  {L : List Nat} (hL : DestroySpec F.slots adds.length L)
  {K' : List H} {tgF : List Pos} {hsF : List H} (hcF : F.canon K' = some (tgF, hsF))
  (hK' : K'.Nodup)
include nz hN hndG hleaf hL hcF hK'

/-- the cached targets, moved -/
def movedTargets (F : Forest H) (adds : List H) (L : List Nat) (K' : List H) : HP H :=
  sortHP ((sortedPairs F K').map
    (fun x => (E (F.addMany adds).rows (addMove F.numLeaves adds.length L x.1), x.2)))

/-- the cached proof, moved -/
def movedProof (F : Forest H) (adds : List H) (L : List Nat) (tgF : List Pos) : HP H :=
  sortHP ((ppPairs F tgF).map
    (fun x => (E (F.addMany adds).rows (addMove F.numLeaves adds.length L x.1), x.2)))

theorem hnF : F.numLeaves ≤ 2 ^ 63 := by omega

theorem hndF' : F.liveLeaves.Nodup := by
  have := hndG
  rw [LiveLeaves.liveLeaves_addMany_eq] at this
  exact (List.nodup_append.1 this).1

theorem mem_movedTargets (z : U64 × H) :
    z ∈ movedTargets F adds L K' ↔
      ∃ x ∈ K', z = (E (F.addMany adds).rows (posD (F.addMany adds) x), x) := by
  have hn := hnF nz hN hndG hleaf hL hcF hK'
  unfold movedTargets sortHP
  rw [ProofOps.mem_sortBy, List.mem_map]
  constructor
  · rintro ⟨y, hy, rfl⟩
    obtain ⟨hyK, hy1, _⟩ := sortedPairs_mem hn hcF hK' hy
    obtain ⟨p, hp⟩ := (canon_spec hcF).2.1 y.2 hyK
    have e : y.1 = p := by rw [hy1]; unfold posD; rw [hp]; rfl
    refine ⟨y.2, hyK, ?_⟩
    unfold posD
    rw [old_leaf_pos nz hN hndG hleaf hL hp, e]
    rfl
  · rintro ⟨x, hx, rfl⟩
    refine ⟨(posD F x, x), mem_sortedPairs hn hcF hK' hx, ?_⟩
    obtain ⟨p, hp⟩ := (canon_spec hcF).2.1 x hx
    simp only
    unfold posD
    rw [old_leaf_pos nz hN hndG hleaf hL hp, hp]
    rfl

theorem posG_valid {x : H} (hx : x ∈ (F.addMany adds).liveLeaves) :
    ∃ h, SubAtT (F.addMany adds) h (posD (F.addMany adds) x) (.leaf x) := by
  obtain ⟨p, hp⟩ := Spec.posOf_isSome_of_live (by
    rw [numLeaves_G nz hN hndG hleaf]; omega) hx
  unfold posD
  rw [hp]
  exact posOf_sub hp

theorem hnG : (F.addMany adds).numLeaves ≤ 2 ^ 63 := by
  rw [numLeaves_G nz hN hndG hleaf]; exact hN

theorem K'_live {x : H} (hx : x ∈ K') : x ∈ F.liveLeaves := by
  obtain ⟨h, s⟩ := posD_sub hcF hx
  exact s.leaves_live _ (by simp [CTree.leaves])

theorem movedTargets_sorted : (movedTargets F adds L K').Pairwise (fun a b => a.1 < b.1) := by
  have hn := hnF nz hN hndG hleaf hL hcF hK'
  have hG := hnG nz hN hndG hleaf hL hcF hK'
  unfold movedTargets sortHP
  apply SortBy.sortBy_strict
  rw [List.map_map]
  unfold List.Nodup
  rw [List.pairwise_map]
  have hndKP : (sortedPairs F K').Nodup :=
    (sortedPairs_keys hn hcF hK').imp (fun {a b} hab e => by
      rw [e] at hab; exact ProofOps.u64_lt_irrefl _ hab)
  apply List.Pairwise.imp_of_mem _ hndKP
  intro a b ha hb hab e
  apply hab
  simp only [Function.comp] at e
  obtain ⟨_, _, ha0, sa⟩ := sortedPairs_mem hn hcF hK' ha
  obtain ⟨_, _, hb0, sb⟩ := sortedPairs_mem hn hcF hK' hb
  obtain ⟨T1, _, _, _, g1⟩ := add_sub hN hL sa
  obtain ⟨T2, _, _, _, g2⟩ := add_sub hN hL sb
  have e' := E_inj (rows_le_63 hG) g1.inF.valid g2.inF.valid e
  have e1 := addMove_inj hN hL (hndF' nz hN hndG hleaf hL hcF hK') sa sb e'
  rw [e1] at sa
  have := (sa.unique sb).2
  injection this with this
  exact Prod.ext e1 this

theorem mem_movedProof (z : U64 × H) :
    z ∈ movedProof F adds L tgF ↔
      ∃ q0 ∈ F.proofPositions tgF,
        z = (E (F.addMany adds).rows (addMove F.numLeaves adds.length L q0),
          (F.nodeAt q0).getD zero) := by
  unfold movedProof sortHP ppPairs
  rw [ProofOps.mem_sortBy, List.map_map, List.mem_map]
  constructor
  · rintro ⟨q0, hq0, rfl⟩; exact ⟨q0, hq0, rfl⟩
  · rintro ⟨q0, hq0, rfl⟩; exact ⟨q0, hq0, rfl⟩

theorem movedProof_sorted : (movedProof F adds L tgF).Pairwise (fun a b => a.1 < b.1) := by
  have hG := hnG nz hN hndG hleaf hL hcF hK'
  have tok := canon_targetsOK hcF
  unfold movedProof sortHP ppPairs
  apply SortBy.sortBy_strict
  rw [List.map_map, List.map_map]
  unfold List.Nodup
  rw [List.pairwise_map]
  apply List.Pairwise.imp_of_mem _ ((proofPositions_sorted F tgF).imp (fun h => PLt.ne h))
  intro a b ha hb hab e
  apply hab
  simp only [Function.comp] at e
  obtain ⟨h1, t1, s1⟩ := pp_node tok ha
  obtain ⟨h2, t2, s2⟩ := pp_node tok hb
  obtain ⟨T1, _, _, _, g1⟩ := add_sub hN hL s1
  obtain ⟨T2, _, _, _, g2⟩ := add_sub hN hL s2
  have e' := E_inj (rows_le_63 hG) g1.inF.valid g2.inF.valid e
  exact addMove_inj hN hL (hndF' nz hN hndG hleaf hL hcF hK') s1 s2 e'

/-- every entry of the moved proof is a node of the new forest -/
theorem movedProof_node {z : U64 × H} (hz : z ∈ movedProof F adds L tgF) :
    ∃ q T t, z.1 = E (F.addMany adds).rows q ∧ SubAtT (F.addMany adds) T q t ∧ z.2 = t.hash := by
  obtain ⟨q0, hq0, rfl⟩ := (mem_movedProof nz hN hndG hleaf hL hcF hK' z).1 hz
  obtain ⟨h1, t1, s1⟩ := pp_node (canon_targetsOK hcF) hq0
  obtain ⟨T1, _, _, _, g1⟩ := add_sub hN hL s1
  exact ⟨_, T1, t1, rfl, g1, by rw [s1.nodeAt]; rfl⟩

end lists

/-! ### the merged node list, the remembered additions, the new targets -/

section merged
variable {F : Forest H} {adds : List H} (nz : NZ H)
  (hN : F.numLeaves + adds.length ≤ 2 ^ 63)
  (hndG : (F.addMany adds).liveLeaves.Nodup)
  (hleaf : ∀ x ∈ (F.addMany adds).liveLeaves, x ≠ (zero : H) ∧ ∀ a b : H, x ≠ ph a b)
  {L : List Nat} (hL : DestroySpec F.slots adds.length L)
  {K' : List H} {tgF : List Pos} {hsF : List H} (hcF : F.canon K' = some (tgF, hsF))
  (hK' : K'.Nodup)
  {upd : HP H}
  (hupd1 : ∀ p h, (p, h) ∈ upd ↔ ∃ pos : Pos, p = E (F.addMany adds).rows pos ∧
    NewAddSpec F.numLeaves (F.slots ++ adds.map some) (pos, h))
  (hupd2 : upd.Pairwise (fun a b => a.1 < b.1))
  (remembers : List Nat)
include nz hN hndG hleaf hL hcF hK' hupd1 hupd2

/-- `newNodes` after merging in the moved proof -/
def mergedNodes (F : Forest H) (adds : List H) (L : List Nat) (tgF : List Pos) (upd : HP H) : HP H :=
  mergeHP upd (movedProof F adds L tgF)

theorem mergedNodes_sorted :
    (mergedNodes F adds L tgF upd).Pairwise (fun a b => a.1 < b.1) :=
  mergeHP_sorted _ _ hupd2 (movedProof_sorted nz hN hndG hleaf hL hcF hK')

theorem slen : (F.slots ++ adds.map some).length = F.numLeaves + adds.length := by
  simp [Forest.numLeaves]

theorem upd_node {p : U64} {h : H} (hp : (p, h) ∈ upd) :
    ∃ q lf, p = E (F.addMany adds).rows q ∧ Valid (F.addMany adds).rows q ∧
      (q, h, lf) ∈ (F.addMany adds).nodes := by
  obtain ⟨pos, rfl, hs⟩ := (hupd1 p h).1 hp
  have hlen := slen nz hN hndG hleaf hL hcF hK' hupd1 hupd2
  obtain ⟨lf, hm⟩ := newAddSpec_mem_nodes F.numLeaves (F.slots ++ adds.map some)
    (by rw [hlen]; omega) pos h hs
  have hv := isNode_valid (F.slots ++ adds.map some) (R := (F.addMany adds).rows) (by
    rw [hlen]
    have := SpecView.le_two_pow_forestRows (F.numLeaves + adds.length)
    unfold Forest.rows
    rw [numLeaves_G nz hN hndG hleaf]
    exact this) hs.isNode
  exact ⟨pos, lf, rfl, hv, hm⟩

/-- every entry of the merged list is a node of the new forest -/
theorem merged_node {z : U64 × H} (hz : z ∈ mergedNodes F adds L tgF upd) :
    ∃ q lf, z.1 = E (F.addMany adds).rows q ∧ Valid (F.addMany adds).rows q ∧
      (q, z.2, lf) ∈ (F.addMany adds).nodes := by
  unfold mergedNodes at hz
  rcases ProofOps.mem_mergeHP _ _ _ hz with h | h
  · exact upd_node nz hN hndG hleaf hL hcF hK' hupd1 hupd2 (p := z.1) (h := z.2) h
  · obtain ⟨q, T, t, h1, s, h2⟩ := movedProof_node nz hN hndG hleaf hL hcF hK' h
    exact ⟨q, _, h1, s.inF.valid, by rw [h2]; exact s.node_mem⟩

/-- the remembered additions with their positions -/
theorem mem_remembersWithHash (z : U64 × H) :
    z ∈ hashSubsetHP (mergedNodes F adds L tgF upd) (remAdds adds remembers) ↔
      ∃ a ∈ remAdds adds remembers,
        z = (E (F.addMany adds).rows (posD (F.addMany adds) a), a) := by
  rw [mem_hashSubsetHP]
  constructor
  · rintro ⟨hz, ha⟩
    obtain ⟨q, lf, h1, _, h2⟩ :=
      merged_node nz hN hndG hleaf hL hcF hK' hupd1 hupd2 hz
    have hp := leaf_hash_pos nz hN hndG hleaf
      (G_live_new nz hN hndG hleaf (remAdds_sub ha)) h2
    refine ⟨z.2, ha, ?_⟩
    unfold posD
    rw [hp]
    exact Prod.ext h1 rfl
  · rintro ⟨a, ha, rfl⟩
    refine ⟨?_, ha⟩
    have haa := remAdds_sub ha
    obtain ⟨i, hi, e⟩ := List.getElem_of_mem haa
    obtain ⟨pos, hs⟩ := newAddSpec_added_leaf F adds i hi
    rw [e] at hs
    have hin : (E (F.addMany adds).rows pos, a) ∈ upd := (hupd1 _ _).2 ⟨pos, rfl, hs⟩
    obtain ⟨q, lf, h1, hv, h2⟩ :=
      upd_node nz hN hndG hleaf hL hcF hK' hupd1 hupd2 hin
    have hp := leaf_hash_pos nz hN hndG hleaf (G_live_new nz hN hndG hleaf haa) h2
    unfold posD
    rw [hp]
    simp only [Option.getD_some]
    rw [← h1]
    unfold mergedNodes
    rw [mem_mergeHP_iff _ _ hupd2 (movedProof_sorted nz hN hndG hleaf hL hcF hK')]
    exact Or.inl hin

theorem remembersWithHash_sorted :
    (hashSubsetHP (mergedNodes F adds L tgF upd) (remAdds adds remembers)).Pairwise
      (fun a b => a.1 < b.1) :=
  hashSubsetHP_sorted _ _ (mergedNodes_sorted nz hN hndG hleaf hL hcF hK' hupd1 hupd2)

/-- the new target list: the remembered additions merged with the moved old targets -/
theorem new_targets_eq {tg2 : List Pos} {hs2 : List H}
    (hc2 : (F.addMany adds).canon (K' ++ remAdds adds remembers) = some (tg2, hs2))
    (hnd2 : (K' ++ remAdds adds remembers).Nodup) :
    mergeHP (hashSubsetHP (mergedNodes F adds L tgF upd) (remAdds adds remembers))
        (movedTargets F adds L K') =
      (sortedPairs (F.addMany adds) (K' ++ remAdds adds remembers)).map
        (enc2 (F.addMany adds).rows) := by
  have hG := hnG nz hN hndG hleaf hL hcF hK'
  have hs1 := remembersWithHash_sorted nz hN hndG hleaf hL hcF hK' hupd1 hupd2 remembers
  have hs2' := movedTargets_sorted nz hN hndG hleaf hL hcF hK'
  apply eq_of_keysorted (mergeHP_sorted _ _ hs1 hs2')
  · rw [List.pairwise_map]
    exact sortedPairs_keys hG hc2 hnd2
  intro z
  rw [mem_mergeHP_iff _ _ hs1 hs2',
    mem_remembersWithHash nz hN hndG hleaf hL hcF hK' hupd1 hupd2 remembers,
    mem_movedTargets nz hN hndG hleaf hL hcF hK', List.mem_map]
  constructor
  · rintro (⟨a, ha, rfl⟩ | ⟨⟨x, hx, rfl⟩, _⟩)
    · exact ⟨_, mem_sortedPairs hG hc2 hnd2 (List.mem_append_right _ ha), rfl⟩
    · exact ⟨_, mem_sortedPairs hG hc2 hnd2 (List.mem_append_left _ hx), rfl⟩
  · rintro ⟨y, hy, rfl⟩
    obtain ⟨hy2, hy1, _⟩ := sortedPairs_mem hG hc2 hnd2 hy
    rcases List.mem_append.1 hy2 with hK | hR
    · right
      refine ⟨⟨y.2, hK, by simp only [enc2]; rw [hy1]⟩, ?_⟩
      intro hpos
      obtain ⟨w, hw, hw1⟩ := mem_positions.1 hpos
      obtain ⟨a, ha, rfl⟩ :=
        (mem_remembersWithHash nz hN hndG hleaf hL hcF hK' hupd1 hupd2 remembers w).1 hw
      simp only [enc2] at hw1
      obtain ⟨h1, s1⟩ := posG_valid nz hN hndG hleaf hL hcF hK'
        (G_live_new nz hN hndG hleaf (remAdds_sub ha))
      obtain ⟨h2, s2⟩ := posG_valid nz hN hndG hleaf hL hcF hK'
        (G_live_old nz hN hndG hleaf (K'_live nz hN hndG hleaf hL hcF hK' hK))
      rw [hy1] at hw1
      have e := E_inj (rows_le_63 hG) s1.inF.valid s2.inF.valid hw1
      rw [e] at s1
      have := (s1.unique s2).2
      injection this with this
      rw [this] at ha
      exact old_not_new nz hN hndG hleaf (K'_live nz hN hndG hleaf hL hcF hK' hK) (remAdds_sub ha)
    · left
      exact ⟨y.2, hR, by simp only [enc2]; rw [hy1]⟩

/-- every needed proof hash is found in the merged node list -/
theorem lookup_merged {K'' : List H} {tgG : List Pos} {hsG : List H}
    (hcG : (F.addMany adds).canon K'' = some (tgG, hsG))
    (hmem : ∀ x, x ∈ K'' ↔ x ∈ K' ∨ x ∈ remAdds adds remembers) {q : Pos}
    (hq : q ∈ (F.addMany adds).proofPositions tgG) :
    lookupHP (mergedNodes F adds L tgF upd) (E (F.addMany adds).rows q) =
      some (((F.addMany adds).nodeAt q).getD zero) := by
  have hG := hnG nz hN hndG hleaf hL hcF hK'
  have hsMP := movedProof_sorted nz hN hndG hleaf hL hcF hK'
  unfold mergedNodes
  rw [lookupHP_mergeHP _ _ hupd2 hsMP]
  obtain ⟨hq0, tq, sq⟩ := pp_node (canon_targetsOK hcG) hq
  have hnode : (F.addMany adds).nodeAt q = some tq.hash := sq.nodeAt
  rcases pp_add hN hL hndG hcF hcG (fun a ha => remAdds_sub ha) hmem hq with
    ⟨h, hs, hh⟩ | ⟨q0, hq0m, hqe, hh⟩
  · have hin : (E (F.addMany adds).rows q, h) ∈ upd := (hupd1 _ _).2 ⟨q, rfl, hs⟩
    rw [lookupHP_of_mem hupd2 hin, hh]
    rfl
  · have hin : (E (F.addMany adds).rows q, (F.nodeAt q0).getD zero) ∈ movedProof F adds L tgF := by
      rw [mem_movedProof nz hN hndG hleaf hL hcF hK']
      exact ⟨q0, hq0m, by rw [hqe]⟩
    cases hu : lookupHP upd (E (F.addMany adds).rows q) with
    | none =>
      simp only [Option.orElse_none]
      rw [lookupHP_of_mem hsMP hin, hh]
    | some h' =>
      simp only [Option.orElse_some]
      have hm := lookupHP_eq_some hu
      obtain ⟨q', lf, h1, hv, h2⟩ := upd_node nz hN hndG hleaf hL hcF hK' hupd1 hupd2 hm
      have e := E_inj (rows_le_63 hG) sq.inF.valid hv h1
      rw [← e] at h2
      have := nodeAt_of_mem h2
      simp only at this
      rw [this]
      rfl

end merged

/-! ### `updateProofAdd` -/

theorem valid_mono {r0 R : Nat} (h : r0 ≤ R) {p : Pos} (hp : Valid r0 p) : Valid R p := by
  obtain ⟨h1, h2⟩ := hp
  refine ⟨by omega, Nat.lt_of_lt_of_le h2 (Nat.pow_le_pow_right (by decide) (by omega))⟩

theorem keys_nodup_of_sorted {l : HP H} (h : (sortHP l).Pairwise (fun a b => a.1 < b.1)) :
    (l.map (·.1)).Nodup := by
  have h1 : ((sortHP l).map (·.1)).Nodup := by
    unfold List.Nodup
    rw [List.pairwise_map]
    exact h.imp (fun {a b} hab e => by rw [e] at hab; exact ProofOps.u64_lt_irrefl _ hab)
  exact ((SortBy.sortBy_perm (fun z : U64 × H => z.1) l).map (·.1)).nodup_iff.1 h1

/-- **`updateProofAdd` is canonical.**  `F`: the forest after the block's deletions; the cached
proof is the canonical proof of `K'` in `F` with targets ascending (as `updateProofRemove` leaves
it); `upd`, `td` are `NewAdd`, `ToDestroy` as specified by C11 (`AddDataSpec`); the remember
indexes ascend.  The result is the canonical proof in `F.addMany adds` of `K'` plus the
remembered additions, targets ascending. -/
theorem updateProofAdd_canonical {F : Forest H} {adds : List H} (nz : NZ H)
    (hN : F.numLeaves + adds.length ≤ 2 ^ 63)
    (hndG : (F.addMany adds).liveLeaves.Nodup)
    (hleaf : ∀ x ∈ (F.addMany adds).liveLeaves, x ≠ (zero : H) ∧ ∀ a b : H, x ≠ ph a b)
    {K' : List H} {tgF : List Pos} {hsF : List H} (hcF : F.canon K' = some (tgF, hsF))
    (hsorted : tgF.Pairwise Sorted.PLt)
    {upd : HP H} {td : List U64} (hspec : AddDataSpec F adds upd td)
    (remembers : List Nat) (hrem : remembers.Pairwise (· ≤ ·)) :
    ∃ K'' tgG hsG, K''.Perm (K' ++ remAdds adds remembers) ∧
      (F.addMany adds).canon K'' = some (tgG, hsG) ∧ tgG.Pairwise Sorted.PLt ∧
      updateProofAdd ⟨tgF.map (E F.rows), hsF⟩ adds K' remembers upd
          (BitVec.ofNat 64 F.numLeaves) td =
        .ok (⟨tgG.map (E (F.addMany adds).rows), hsG⟩, K'') := by
  have hn : F.numLeaves ≤ 2 ^ 63 := by omega
  have hnumG := numLeaves_G nz hN hndG hleaf
  have hG : (F.addMany adds).numLeaves ≤ 2 ^ 63 := by rw [hnumG]; exact hN
  have hR : (F.addMany adds).rows = forestRows (F.numLeaves + adds.length) := by
    unfold Forest.rows; rw [hnumG]
  have hr0R : F.rows ≤ (F.addMany adds).rows := by
    rw [hR]; exact forestRows_mono (Nat.le_add_right _ _)
  -- the cached leaves are pairwise different
  have hK' : K'.Nodup := by
    have h1 := hsorted
    rw [canon_targets_eq hcF, List.pairwise_map] at h1
    exact h1.imp (fun {a b} hab e => by rw [e] at hab; exact PLt.irrefl _ hab)
  have hndF : F.liveLeaves.Nodup := by
    have := hndG
    rw [LiveLeaves.liveLeaves_addMany_eq] at this
    exact (List.nodup_append.1 this).1
  -- the update data
  obtain ⟨hupd1, hupd2, _, L, htd, hLasc, hLmem⟩ := hspec
  have hL : DestroySpec F.slots adds.length L := destroySpec_of nz hN hndG hleaf hLasc hLmem
  have hupd1' : ∀ p h, (p, h) ∈ upd ↔ ∃ pos : Pos, p = E (F.addMany adds).rows pos ∧
      NewAddSpec F.numLeaves (F.slots ++ adds.map some) (pos, h) := by
    intro p h
    rw [hupd1 p h, hR]
    rfl
  have htd' : td = (destroyedPos F.numLeaves L).map (E (F.addMany adds).rows) := by
    rw [htd, hR]
    unfold destroyedPos
    rw [List.map_map]
    rfl
  -- the new cached set and its canonical proof
  have hnd2 : (K' ++ remAdds adds remembers).Nodup := by
    rw [List.nodup_append]
    refine ⟨hK', remAdds_nodup ?_ remembers, ?_⟩
    · have := hndG
      rw [LiveLeaves.liveLeaves_addMany_eq] at this
      exact (List.nodup_append.1 this).2.1
    · intro a ha b hb hab
      subst hab
      exact old_not_new nz hN hndG hleaf (K'_live nz hN hndG hleaf hL hcF hK' ha) (remAdds_sub hb)
  have hlive2 : ∀ x ∈ K' ++ remAdds adds remembers, x ∈ (F.addMany adds).liveLeaves := by
    intro x hx
    rcases List.mem_append.1 hx with h | h
    · exact G_live_old nz hN hndG hleaf (K'_live nz hN hndG hleaf hL hcF hK' h)
    · exact G_live_new nz hN hndG hleaf (remAdds_sub h)
  obtain ⟨tg2, hs2, hc2⟩ := CanonTotal.canon_total hG hlive2
  -- the sorted new cached set
  let KP2 := sortedPairs (F.addMany adds) (K' ++ remAdds adds remembers)
  have hKP2perm : (KP2.map (·.2)).Perm (K' ++ remAdds adds remembers) := by
    have := (sortedPairs_perm hG hc2 hnd2).map (·.2)
    rw [List.map_map] at this
    have e : ((fun z : Pos × H => z.2) ∘ fun x => (posD (F.addMany adds) x, x)) = id := rfl
    rw [e, List.map_id] at this
    exact this
  have hlive3 : ∀ x ∈ KP2.map (·.2), x ∈ (F.addMany adds).liveLeaves :=
    fun x hx => hlive2 x (hKP2perm.mem_iff.1 hx)
  obtain ⟨tgG, hsG, hcG⟩ := CanonTotal.canon_total hG hlive3
  have htgG : tgG = KP2.map (·.1) := by
    rw [canon_targets_eq hcG, List.map_map]
    apply List.map_congr_left
    intro z hz
    exact (sortedPairs_mem hG hc2 hnd2 hz).2.1.symm
  have hsortedG : tgG.Pairwise Sorted.PLt := by
    rw [htgG]; exact sortedPairs_sorted hG hc2 hnd2
  have hmemK'' : ∀ x, x ∈ KP2.map (·.2) ↔ x ∈ K' ∨ x ∈ remAdds adds remembers := by
    intro x
    rw [hKP2perm.mem_iff, List.mem_append]
  refine ⟨KP2.map (·.2), tgG, hsG, hKP2perm, hcG, hsortedG, ?_⟩
  -- step 2: the cached proof with positions
  have e1 : (ProofPositions (((sortedPairs F K').map (·.1)).map (E F.rows))
      (BitVec.ofNat 64 F.numLeaves) (H8 F.rows)).1 = (F.proofPositions tgF).map (E F.rows) := by
    rw [proofPositions_model hn (sortedPairs_targetsOK hn hcF hK') (sortedPairs_sorted hn hcF hK'),
      proofPositions_congr F (sortedPairs_fst_mem hn hcF hK')]
  -- step 3: re-encoding
  have e3a := maybeRemap_enc hN (sortedPairs F K') (by
    intro x hx
    obtain ⟨_, _, _, s⟩ := sortedPairs_mem hn hcF hK' hx
    exact s.inF.valid)
  have e3b := maybeRemap_enc hN (ppPairs F tgF) (by
    intro x hx
    unfold ppPairs at hx
    obtain ⟨q, hq, rfl⟩ := List.mem_map.1 hx
    exact pp_valid (canon_targetsOK hcF) hq)
  rw [show forestRows F.numLeaves = F.rows from rfl, ← hR] at e3a e3b
  -- step 4: the destroyed roots
  have hdt := fun R => destroyed_dtOK F.slots adds.length L hL (by
    have : F.slots.length = F.numLeaves := rfl
    omega) R
  have e4a : (destroyedPos F.numLeaves L).foldl
      (fun st d => getNewPositions [E (F.addMany adds).rows d] st
        (BitVec.ofNat 64 (F.numLeaves + adds.length)) true)
      ((sortedPairs F K').map (enc2 (F.addMany adds).rows)) = movedTargets F adds L K' := by
    have := destroy_fold hN (destroyedPos F.numLeaves L) (sortedPairs F K') hdt
      (by
        intro x hx
        obtain ⟨hxK, _, _⟩ := sortedPairs_mem hn hcF hK' hx
        exact (hleaf _ (G_live_old nz hN hndG hleaf (K'_live nz hN hndG hleaf hL hcF hK' hxK))).1)
      (by
        intro x hx
        obtain ⟨_, _, _, s⟩ := sortedPairs_mem hn hcF hK' hx
        obtain ⟨T, h1, h2, _, _⟩ := add_sub hN hL s
        exact ⟨T, h1, h2⟩)
      (by
        rw [← hR, List.pairwise_map]
        apply List.Pairwise.imp_of_mem _ (sortedPairs_sorted hn hcF hK' |> List.pairwise_map.1)
        intro a b ha hb hab
        obtain ⟨_, _, _, sa⟩ := sortedPairs_mem hn hcF hK' ha
        obtain ⟨_, _, _, sb⟩ := sortedPairs_mem hn hcF hK' hb
        exact ProofOps.u64_le_of_lt ((E_lt_iff (rows_le_63 hG) (valid_mono hr0R sa.inF.valid)
          (valid_mono hr0R sb.inF.valid)).2 hab))
      (by
        have h2 := keys_nodup_of_sorted (movedTargets_sorted nz hN hndG hleaf hL hcF hK')
        rw [List.map_map] at h2
        rw [← hR]
        exact h2)
    rw [← hR] at this
    exact this
  have e4b : (destroyedPos F.numLeaves L).foldl
      (fun st d => getNewPositions [E (F.addMany adds).rows d] st
        (BitVec.ofNat 64 (F.numLeaves + adds.length)) true)
      ((ppPairs F tgF).map (enc2 (F.addMany adds).rows)) = movedProof F adds L tgF := by
    have tok := canon_targetsOK hcF
    have := destroy_fold hN (destroyedPos F.numLeaves L) (ppPairs F tgF) hdt
      (by
        intro x hx
        unfold ppPairs at hx
        obtain ⟨q, hq, rfl⟩ := List.mem_map.1 hx
        obtain ⟨h, t, s⟩ := pp_node tok hq
        simp only
        rw [s.nodeAt]
        exact hash_ne_zero nz.nonzero (fun l hl =>
          (hleaf l (G_live_old nz hN hndG hleaf (s.leaves_live l hl))).1))
      (by
        intro x hx
        unfold ppPairs at hx
        obtain ⟨q, hq, rfl⟩ := List.mem_map.1 hx
        obtain ⟨h, t, s⟩ := pp_node tok hq
        obtain ⟨T, h1, h2, _, _⟩ := add_sub hN hL s
        exact ⟨T, h1, h2⟩)
      (by
        rw [← hR]
        have := ppPairs_keys hn tok
        unfold ppPairs at this ⊢
        rw [List.map_map, List.pairwise_map] at this ⊢
        apply List.Pairwise.imp_of_mem _ (proofPositions_sorted F tgF)
        intro a b ha hb hab
        exact ProofOps.u64_le_of_lt ((E_lt_iff (rows_le_63 hG)
          (valid_mono hr0R (pp_valid tok ha)) (valid_mono hr0R (pp_valid tok hb))).2 hab))
      (by
        have h2 := keys_nodup_of_sorted (movedProof_sorted nz hN hndG hleaf hL hcF hK')
        rw [List.map_map] at h2
        rw [← hR]
        exact h2)
    rw [← hR] at this
    exact this
  -- steps 9, 10
  have hNE : BitVec.ofNat 64 F.numLeaves + BitVec.ofNat 64 adds.length =
      BitVec.ofNat 64 (F.numLeaves + adds.length) := (BitVec.ofNat_add _ _).symm
  have hTR : TreeRows (BitVec.ofNat 64 (F.numLeaves + adds.length)) = H8 (F.addMany adds).rows := by
    rw [treeRows_eq' hN, hR]
  have tokG := canon_targetsOK hcG
  have e9 : (ProofPositions (((sortedPairs (F.addMany adds) (K' ++ remAdds adds remembers)).map
      (·.1)).map (E (F.addMany adds).rows))
      (BitVec.ofNat 64 (F.numLeaves + adds.length)) (H8 (F.addMany adds).rows)).1 =
      ((F.addMany adds).proofPositions tgG).map (E (F.addMany adds).rows) := by
    have := proofPositions_model hG tokG hsortedG
    rw [hnumG, htgG] at this
    rw [← htgG] at this ⊢
    rw [htgG] at this ⊢
    exact this
  have e10 : upaCollect (((F.addMany adds).proofPositions tgG).map (E (F.addMany adds).rows))
      (mergedNodes F adds L tgF upd) [] =
      (ppPairs (F.addMany adds) tgG).map (enc2 (F.addMany adds).rows) := by
    rw [upaCollect_spec _ _ _ (pp_keys hG tokG)
      (mergedNodes_sorted nz hN hndG hleaf hL hcF hK' hupd1' hupd2), List.nil_append,
      List.filterMap_map]
    unfold ppPairs
    rw [List.map_map]
    rw [← List.filterMap_eq_map]
    apply filterMap_congr'
    intro q hq
    simp only [Function.comp]
    rw [lookup_merged nz hN hndG hleaf hL hcF hK' hupd1' hupd2 remembers hcG hmemK'' hq]
    rfl
  have hfold := foldl_pair
    (fun (st : HP H) (d : Pos) => getNewPositions [E (F.addMany adds).rows d] st
      (BitVec.ofNat 64 (F.numLeaves + adds.length)) true)
    (fun (st : HP H) (d : Pos) => getNewPositions [E (F.addMany adds).rows d] st
      (BitVec.ofNat 64 (F.numLeaves + adds.length)) true)
    (destroyedPos F.numLeaves L) ((sortedPairs F K').map (enc2 (F.addMany adds).rows))
    ((ppPairs F tgF).map (enc2 (F.addMany adds).rows))
  -- the computation
  unfold updateProofAdd
  simp only [treeRows_eq' hn]
  rw [show H8 (forestRows F.numLeaves) = H8 F.rows from rfl]
  simp only [toHashAndPos_cached hn hcF hK', ok_bind', positions_enc2, e1, oldProofs_eq hn hcF hK',
    e3a, e3b, hNE, htd', List.foldl_map, hfold, e4a, e4b,
    remembered_updateProofAdd adds remembers hrem, hTR]
  rw [show ((adds.zipIdx).filter (fun a => decide (a.2 ∈ remembers))).map (·.1) =
    remAdds adds remembers from rfl,
    show mergeHP upd (movedProof F adds L tgF) = mergedNodes F adds L tgF upd from rfl,
    new_targets_eq nz hN hndG hleaf hL hcF hK' hupd1' hupd2 remembers hc2 hnd2]
  simp only [positions_enc2, e9, e10]
  rw [sortHP_eq_self_of_strict (ppPairs_keys hG tokG)]
  show Out.ok _ = Out.ok _
  congr 2
  · congr 1
    · rw [htgG]
    · rw [(canon_spec hcG).2.2.1]
      simp [HP.hashes, ppPairs, enc2]
  · simp only [HP.hashes, List.map_map]
    rfl

end
end UtreexoVerif.Proofs.ProofUpdateAdd
