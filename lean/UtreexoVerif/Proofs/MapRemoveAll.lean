/-
  `MapPollard.remove` preserves the strong storage invariant: one `removeSingle` (`removeSingle_step`),
  the loop over the detwinned targets (`removeAll_spec`) and `remove` itself (`sinv_remove`).
  During the loop the cache has already lost the deleted leaves, while the store still carries
  them: the invariant is stated for a VIRTUAL cached set `K ⊇ dom CachedLeaves` (`RInv`).
-/
import UtreexoVerif.Proofs.PForestDel
import UtreexoVerif.Proofs.MapAddMerge
import UtreexoVerif.Proofs.MapRemoveLoops
import UtreexoVerif.Proofs.MapDeTwin
open UtreexoVerif Model Spec Spec.Forest Proofs MapAL MapInv MapPrune MapRep MapLiftGeo PForest MapAInv MapLiftCore
open PForestSpec PForestDel MapSInv MapRemoveRep MapRemoveSteps MapRemoveLoops MapDeTwin Hasher

namespace UtreexoVerif.Proofs.MapRemoveAll
set_option linter.unusedSectionVars false
set_option linter.unusedVariables false
variable {H : Type} [DecidableEq H] [Hasher H]

/-! ### deleting leaves twice -/

theorem delLeaves_congr' (F : Forest H) {L L' : List H} (h : ∀ l, l ∈ L' ↔ l ∈ L) :
    F.delLeaves L' = F.delLeaves L := by
  unfold Forest.delLeaves
  congr 1
  apply List.map_congr_left
  intro s _
  cases s with
  | none => rfl
  | some x =>
    by_cases hx : x ∈ L
    · simp [hx, (h x).2 hx]
    · have : x ∉ L' := fun h' => hx ((h x).1 h')
      simp [hx, this]

theorem delLeaves_nil (F : Forest H) : F.delLeaves [] = F := by
  have h : (F.delLeaves []).slots = F.slots := by
    rw [Spec.delLeaves_slots]
    have e : ∀ s : Option H, Spec.kill [] s = s := by
      intro s; cases s <;> simp [Spec.kill]
    have : F.slots.map (Spec.kill []) = F.slots.map id := List.map_congr_left (fun s _ => e s)
    rw [this, List.map_id]
  show (⟨(F.delLeaves []).slots⟩ : Forest H) = ⟨F.slots⟩
  rw [h]

theorem delLeaves_delLeaves (F : Forest H) (R1 R2 : List H) :
    (F.delLeaves R1).delLeaves R2 = F.delLeaves (R1 ++ R2) := by
  unfold Forest.delLeaves
  simp only [List.map_map]
  congr 1
  apply List.map_congr_left
  intro s _
  cases s with
  | none => rfl
  | some x =>
    simp only [Function.comp, List.mem_append]
    by_cases h1 : x ∈ R1
    · simp [h1]
    · by_cases h2 : x ∈ R2 <;> simp [h1, h2]

/-- the leaves of `F` below `d`, as a list -/
def leavesUnder (F : Forest H) (d : Pos) : List H :=
  (F.nodes.filter (fun e => e.2.2 && decide (Anc d e.1))).map (·.2.1)

theorem mem_leavesUnder {F : Forest H} {d : Pos} {x : H} :
    x ∈ leavesUnder F d ↔ ∃ t, (t, x, true) ∈ F.nodes ∧ Anc d t := by
  unfold leavesUnder
  rw [List.mem_map]
  constructor
  · rintro ⟨e, he, rfl⟩
    rw [List.mem_filter] at he
    obtain ⟨⟨t, y, f⟩, hm, hp⟩ := e, he.1, he.2
    simp only [Bool.and_eq_true, decide_eq_true_eq] at hp
    obtain ⟨rfl, ha⟩ := hp
    exact ⟨t, hm, ha⟩
  · rintro ⟨t, hm, ha⟩
    exact ⟨(t, x, true), List.mem_filter.2 ⟨hm, by simp [ha]⟩, rfl⟩

/-! ### `uncacheLeaves` -/

theorem uncache_rep : ∀ (dels : List H) {m : MapPollard H} {T : Nat} {A : Pos → Option (Leaf H)}
    {C : H → Option Pos}, Rep m T A C →
    Rep (m.uncacheLeaves dels) T A (fun x => if x ∈ dels then none else C x) ∧
      (m.uncacheLeaves dels).numLeaves = m.numLeaves ∧ (m.uncacheLeaves dels).full = m.full
  | [], m, T, A, C, rep => by
    refine ⟨rep.congr (fun _ => rfl) (fun x => by simp), rfl, rfl⟩
  | y :: ys, m, T, A, C, rep => by
    have h1 := rep.delCached y
    obtain ⟨h2, h3, h4⟩ := uncache_rep ys h1
    have e : m.uncacheLeaves (y :: ys) = (m.delCached y).uncacheLeaves ys := rfl
    rw [e]
    refine ⟨h2.congr (fun _ => rfl) ?_, h3, h4⟩
    intro x
    simp only [List.mem_cons]
    by_cases hx : x ∈ ys
    · simp [hx]
    · by_cases hxy : x = y
      · simp [hxy, upd_apply]
      · simp [hx, hxy, upd_apply]

theorem allCached_iff {m : MapPollard H} {dels : List H} :
    m.allCached dels = true ↔ ∀ x ∈ dels, m.hasCached x = true := by
  unfold MapPollard.allCached
  rw [List.all_eq_true]

/-! ### the other targets are not affected by one removal -/

/-- a later target `d'` (neither below nor above `parent d`) after removing everything below the
non-root node `d`: still a node, with the same leaves below it -/
theorem persist_nonroot (nz : NZ H) (F : Forest H) (hn : F.numLeaves < 2 ^ 64) (hy : Hyg F) {d : Pos} {h : H} {b : Bool}
    (hd : (d, h, b) ∈ F.nodes) (hnr : isRootPos F.numLeaves d = false) {d' : Pos}
    (h1 : ¬ Anc (parent d) d') (h2 : ¬ Anc d' (parent d)) :
    (∀ h' b', (d', h', b') ∈ F.nodes → (d', h', b') ∈ (F.delLeaves (leavesUnder F d)).nodes) ∧
    (∀ t x, Anc d' t → ((t, x, true) ∈ (F.delLeaves (leavesUnder F d)).nodes ↔ (t, x, true) ∈ F.nodes)) := by
  obtain ⟨D1, D2, D3, D4⟩ := del_nonroot nz F hn hy hd hnr (leavesUnder F d) (fun x => mem_leavesUnder)
  have L := laws_forest nz F hn hy
  obtain ⟨hP, hPN, _⟩ := L.parent_node d h b hd (by unfold FRoot; rw [hnr]; simp)
  refine ⟨fun h' b' hm => D2 _ h1 h2 hm, ?_⟩
  intro t x ha
  have hout : ¬ Anc (parent d) t := by
    intro hu
    by_cases hle : d'.1 ≤ (parent d).1
    · exact h1 (Anc.comparable ha hu hle)
    · exact h2 (Anc.comparable hu ha (by omega))
  constructor
  · intro hm
    rcases D1 _ hm with ⟨_, _, hN⟩ | ⟨c, hc, he, _⟩ | ⟨_, _, hf, _⟩
    · exact hN
    · exfalso
      simp only at he
      apply hout
      rw [he, ← parent_sib]; exact anc_parent_liftP hc
    · simp at hf
  · intro hm
    refine D2 _ hout ?_ hm
    intro hu
    have := L.leaf_below t x (parent d) hP false hm hPN hu
    exact hout (this ▸ Anc.refl _)

/-- the same after emptying the root `d` -/
theorem persist_root (nz : NZ H) (F : Forest H) (hn : F.numLeaves < 2 ^ 64) (hy : Hyg F) {d : Pos}
    (hroot : isRootPos F.numLeaves d = true) {d' : Pos} (h1 : ¬ Anc d d') (h2 : ¬ Anc d' d) :
    (∀ h' b', (d', h', b') ∈ F.nodes → (d', h', b') ∈ (F.delLeaves (leavesUnder F d)).nodes) ∧
    (∀ t x, Anc d' t → ((t, x, true) ∈ (F.delLeaves (leavesUnder F d)).nodes ↔ (t, x, true) ∈ F.nodes)) := by
  have D := del_root nz F hn hy hroot (leavesUnder F d) (fun x => mem_leavesUnder)
  refine ⟨fun h' b' hm => (D _).2 (Or.inl ⟨h1, hm⟩), ?_⟩
  intro t x ha
  have hout : ¬ Anc d t := by
    intro hu
    by_cases hle : d'.1 ≤ d.1
    · exact h1 (Anc.comparable ha hu hle)
    · exact h2 (Anc.comparable hu ha (by omega))
  constructor
  · intro hm
    rcases (D _).1 hm with ⟨_, hN⟩ | e
    · exact hN
    · simp only [Prod.mk.injEq] at e; exact absurd e.2.2 (by simp)
  · intro hm; exact (D _).2 (Or.inl ⟨hout, hm⟩)

/-! ### the invariant with a virtual cached set -/

structure RInv (m : MapPollard H) (F : Forest H) (K : H → Prop) : Prop where
  n_lt : F.numLeaves < 2 ^ 63
  n_eq : m.numLeaves = BitVec.ofNat 64 F.numLeaves
  rows_le : F.rows ≤ m.totalRows.toNat
  total_le : m.totalRows.toNat ≤ 63
  full : m.full = false
  hyg : Hyg F
  abs : ∃ A C, Rep m m.totalRows.toNat A C ∧ AInv A C F.nodes (FRoot F) K (fun _ => False)

theorem RInv.congr {m : MapPollard H} {F F' : Forest H} {K K' : H → Prop} (r : RInv m F K)
    (hF : F' = F) (hK : ∀ x, K' x ↔ K x) : RInv m F' K' := by
  have : K' = K := funext fun x => propext (hK x)
  rw [hF, this]; exact r

theorem froot_del (F : Forest H) (R : List H) : FRoot (F.delLeaves R) = FRoot F := by
  funext q
  unfold FRoot
  rw [numLeaves_delLeaves]

theorem node_valid {F : Forest H} {T : Nat} (hT : F.rows ≤ T) {d : Pos} {h : H} {b : Bool}
    (hd : (d, h, b) ∈ F.nodes) : Valid T d := by
  obtain ⟨R, hb⟩ := belowRoot_of_mem_nodes hd
  exact belowRoot_valid' hT hb

theorem sep_disj {a b : Pos} (h : ¬ Anc (parent a) b ∧ ¬ Anc b (parent a)) : ¬ Anc a b ∧ ¬ Anc b a := by
  constructor
  · intro ha; exact h.1 (Anc.trans (anc_parent_self a) ha)
  · intro ha
    by_cases e : b = a
    · exact h.1 (e ▸ anc_parent_self a)
    · apply h.2
      rw [anc_parentR_iff]
      refine ⟨ha, ?_⟩
      have := ha.1
      have hr : a.1 ≠ b.1 := fun e' => e (ha.eq_of_row e'.symm)
      omega

/-- the cache update of `removeSingle`, pointwise -/
theorem cacheSib_eq {A : Pos → Option (Leaf H)} {C : H → Option Pos} {N : List (Pos × H × Bool)}
    {R : Pos → Prop} {K : H → Prop} {E : Pos → Prop} (L : Laws N R) (inv : AInv A C N R K E)
    {σ P : Pos} {node : Leaf H} {bn : Bool} (hσ : (σ, node.hash, bn) ∈ N) (y : H) :
    cacheSib node P C y = if C y = some σ then some P else C y := by
  unfold cacheSib
  by_cases hs : (C node.hash).isSome = true
  · rw [if_pos hs]
    obtain ⟨t, ht⟩ := Option.isSome_iff_exists.1 hs
    have hm := inv.cached_pos _ t ht
    have hts : σ = t := L.leaf_hash t node.hash σ bn hm hσ
    subst hts
    rw [upd_apply]
    by_cases hy : y = node.hash
    · subst hy; rw [if_pos rfl, if_pos ht]
    · rw [if_neg hy, if_neg]
      intro h
      exact hy (L.func _ _ _ _ _ (inv.cached_pos _ _ h) hσ).1
  · rw [if_neg hs, if_neg]
    intro h
    have := (L.func _ _ _ _ _ (inv.cached_pos _ _ h) hσ).1
    subst this
    rw [h] at hs; exact hs rfl

/-- the store after the sibling has been moved and its subtree lifted is `liftAll` -/
theorem liftAll_eq_remove {A : Pos → Option (Leaf H)} {d : Pos} {node : Leaf H} (hA : A (sib d) = some node)
    (q : Pos) :
    liftA (sib d) (upd (upd (upd (clearBelow d A) d none) (sib d) none) (parent d) (some node)) q =
      liftAll (sib d) A q := by
  have hPσ : parent (sib d) = parent d := parent_sib d
  unfold liftA liftAll
  rw [hPσ]
  by_cases hq : q = parent d
  · have hns : ¬ SUnder (parent d) q := by
      intro hs; have := hs.2; rw [hq] at this; omega
    rw [if_neg hns, if_pos hq, hq, upd_self, hA]
  · rw [if_neg hq]
    by_cases hs : SUnder (parent d) q
    · rw [if_pos hs, if_pos hs]
      by_cases h0 : q.1 = 0
      · rw [if_pos h0, if_pos h0]
      · rw [if_neg h0, if_neg h0]
        have hu := anc_unliftP (σ := sib d) (by rw [hPσ]; exact hs) (by omega)
        have h1 : unliftP (sib d) q ≠ parent d := by
          intro e
          have h2 := hu.2
          rw [e] at h2
          have : (parent d).1 = (sib d).1 + 1 := by rw [sib_fst]; rfl
          omega
        have h2 : unliftP (sib d) q ≠ sib d := by
          intro e; have := hu.2; rw [e] at this; omega
        have h3 : unliftP (sib d) q ≠ d := by
          intro e
          exact not_anc_both (σ := sib d) hu.1 (by rw [sib_sib, e]; exact Anc.refl _)
        have h4 : ¬ SUnder d (unliftP (sib d) q) := by
          intro h
          exact not_anc_both (σ := sib d) hu.1 (by rw [sib_sib]; exact h.1)
        rw [upd_ne _ _ h1, upd_ne _ _ h2, upd_ne _ _ h3]
        unfold clearBelow
        rw [if_neg h4]
    · rw [if_neg hs, if_neg hs, upd_ne _ _ hq]
      have hout : ¬ Anc (parent d) q := by
        intro ha
        apply hs
        refine ⟨ha, ?_⟩
        have := ha.1
        have hr : q.1 ≠ (parent d).1 := fun e => hq (ha.eq_of_row e.symm).symm
        omega
      have h2 : q ≠ sib d := fun e => hout (e ▸ anc_parent_sib d)
      have h3 : q ≠ d := fun e => hout (e ▸ anc_parent_self d)
      have h4 : ¬ SUnder d q := fun h => hout (Anc.trans (anc_parent_self d) h.1)
      rw [upd_ne _ _ h2, upd_ne _ _ h3]
      unfold clearBelow
      rw [if_neg h4]

/-- changing the cache to a sub-cache keeps the invariant (for the same virtual set) -/
theorem AInv.shrink_C {A : Pos → Option (Leaf H)} {C C' : H → Option Pos} {N : List (Pos × H × Bool)}
    {R : Pos → Prop} {K : H → Prop} {E : Pos → Prop} (inv : AInv A C N R K E)
    (h : ∀ x t, C' x = some t → C x = some t) : AInv A C' N R K E :=
  { inv with cache_sub := fun x t hx => inv.cache_sub x t (h x t hx),
             cached_pos := fun x t hx => inv.cached_pos x t (h x t hx) }

/-! ### one `removeSingle` -/

/-- **`removeSingle d` preserves the invariant** (virtual cached set `K`): `d` is a node of `F` all
of whose leaves are in `K` but no longer in the cache; afterwards the state tracks `F` without the
leaves below `d`, and `K` has lost them. -/
theorem removeSingle_step (nz : NZ H) {m : MapPollard H} {F : Forest H} {K : H → Prop} (r : RInv m F K)
    {d : Pos} {h : H} {b : Bool} (hd : (d, h, b) ∈ F.nodes)
    (hpend : ∀ t x, (t, x, true) ∈ F.nodes → Anc d t → K x ∧ m.hasCached x = false) :
    ∃ m', MapPollard.removeSingle (encP m.totalRows.toNat d) m = (m', .ok ()) ∧
      m'.totalRows = m.totalRows ∧
      RInv m' (F.delLeaves (leavesUnder F d)) (fun x => K x ∧ x ∉ leavesUnder F d) ∧
      (∀ y, m'.hasCached y = m.hasCached y) := by
  obtain ⟨A, C, rep, inv⟩ := r.abs
  have hn64 : F.numLeaves < 2 ^ 64 := by have := r.n_lt; omega
  have L := laws_forest nz F hn64 r.hyg
  have hy' := hyg_delLeaves r.hyg (leavesUnder F d)
  have hnl' : (F.delLeaves (leavesUnder F d)).numLeaves = F.numLeaves := numLeaves_delLeaves F _
  have L'' : Laws (F.delLeaves (leavesUnder F d)).nodes (FRoot F) := by
    have := laws_forest nz (F.delLeaves (leavesUnder F d)) (by rw [hnl']; exact hn64) hy'
    rwa [froot_del] at this
  have hdv : Valid m.totalRows.toNat d := node_valid r.rows_le hd
  have hrowsF : forestRows F.numLeaves ≤ m.totalRows.toNat := r.rows_le
  have hCd : ∀ x t, C x = some t → ¬ Anc d t := by
    intro x t hC ha
    have := (hpend t x (inv.cached_pos x t hC) ha).2
    rw [rep.hasCached, hC] at this
    cases this
  have hK' : ∀ x, (K x ∧ x ∉ leavesUnder F d) ↔ K x ∧ ∀ t, (t, x, true) ∈ F.nodes → ¬ Anc d t := by
    intro x
    rw [mem_leavesUnder]
    constructor
    · rintro ⟨hk, hx⟩; exact ⟨hk, fun t ht ha => hx ⟨t, ht, ha⟩⟩
    · rintro ⟨hk, hx⟩; exact ⟨hk, fun ⟨t, ht, ha⟩ => hx t ht ha⟩
  -- the final packaging
  have pack : ∀ (m' : MapPollard H) (A' : Pos → Option (Leaf H)) (C' : H → Option Pos),
      Rep m' m.totalRows.toNat A' C' → m'.numLeaves = m.numLeaves → m'.full = m.full →
      AInv A' C' (F.delLeaves (leavesUnder F d)).nodes (FRoot F) (fun x => K x ∧ x ∉ leavesUnder F d) (fun _ => False) →
      (∀ y, (C' y).isSome = (C y).isSome) →
      m'.totalRows = m.totalRows ∧
      RInv m' (F.delLeaves (leavesUnder F d)) (fun x => K x ∧ x ∉ leavesUnder F d) ∧
      (∀ y, m'.hasCached y = m.hasCached y) := by
    intro m' A' C' rep' hnl hfl inv' hdom
    have hT' : m'.totalRows = m.totalRows := rep'.rows.trans rep.rows.symm
    refine ⟨hT', ?_, ?_⟩
    · refine { n_lt := by rw [hnl']; exact r.n_lt, n_eq := by rw [hnl, hnl']; exact r.n_eq,
               rows_le := ?_, total_le := by rw [hT']; exact r.total_le, full := hfl.trans r.full,
               hyg := hy', abs := ?_ }
      · show forestRows (F.delLeaves (leavesUnder F d)).numLeaves ≤ _
        rw [hnl', hT']; exact r.rows_le
      · rw [hT', froot_del]
        exact ⟨A', C', rep', inv'⟩
    · intro y
      rw [rep'.hasCached, rep.hasCached, hdom]
  by_cases hroot : isRootPos F.numLeaves d = true
  · -- `d` is a root
    obtain ⟨m', hrm, rep', hnl, hfl⟩ := removeSingle_root_rep rep r.n_eq r.n_lt hrowsF r.full hdv hroot
    have hN'' := del_root nz F hn64 r.hyg hroot (leavesUnder F d) (fun x => mem_leavesUnder)
    have inv' := rootCase (K' := fun x => K x ∧ x ∉ leavesUnder F d) L inv (d := d) hroot hCd hN'' hK'
    exact ⟨m', hrm, pack m' _ _ rep' hnl hfl inv' (fun _ => rfl)⟩
  · -- `d` is not a root
    have hnr : isRootPos F.numLeaves d = false := by
      cases hx : isRootPos F.numLeaves d with
      | false => rfl
      | true => exact absurd hx hroot
    have hnrR : ¬ FRoot F d := by unfold FRoot; rw [hnr]; simp
    obtain ⟨ρ, hρ, hρd⟩ := L.under_root d h b hd
    obtain ⟨D1, D2, D3, D4⟩ := del_nonroot nz F hn64 r.hyg hd hnr (leavesUnder F d) (fun x => mem_leavesUnder)
    have hRT : ∀ z, FRoot F z → z.1 ≤ m.totalRows.toNat := by
      intro z hz
      obtain ⟨hz', bz, hzm⟩ := L.root_node z hz
      exact (node_valid r.rows_le hzm).1
    have hKd : ∀ t x, (t, x, true) ∈ F.nodes → Anc d t → K x ∧ C x = none := by
      intro t x ht ha
      obtain ⟨h1, h2⟩ := hpend t x ht ha
      refine ⟨h1, ?_⟩
      rw [rep.hasCached] at h2
      cases hC : C x with
      | none => rfl
      | some _ => rw [hC] at h2; cases h2
    obtain ⟨node, hnode, inv'⟩ := removeSingle_nonroot_inv (K' := fun x => K x ∧ x ∉ leavesUnder F d)
      L L'' F.numLeaves m.totalRows.toNat (fun z => Iff.rfl) hRT inv hd hnrR hρ hρd hKd hK' D1 D2 D3 D4
    obtain ⟨bn, hσN⟩ := inv.true_hash _ _ hnode
    have hcu := cacheSib_eq (P := parent d) L inv hσN
    have hσnode : ∃ h' b', (sib d, h', b') ∈ F.nodes := ⟨_, _, hσN⟩
    have hc : ∀ c v, SUnder (sib d) c → A c = some v →
        ∀ t, cacheSib node (parent d) C v.hash = some t → t = c := by
      intro c v hcs hAc t ht
      obtain ⟨bc, hb⟩ := inv.true_hash c v hAc
      rw [hcu] at ht
      split at ht
      · rename_i hCσ
        have hm := inv.cached_pos _ _ hCσ
        have := L.leaf_hash _ _ c bc hm hb
        have h2 := hcs.2; rw [this] at h2; omega
      · have hm := inv.cached_pos _ _ ht
        exact (L.leaf_hash _ _ c bc hm hb).symm
    have hc2 : ∀ x t, cacheSib node (parent d) C x = some t → SUnder (sib d) t →
        ∃ v, A t = some v ∧ v.hash = x := by
      intro x t ht hts
      rw [hcu] at ht
      split at ht
      · simp only [Option.some.injEq] at ht
        subst ht
        have h2 := hts.2
        have : (parent d).1 = (sib d).1 + 1 := by rw [sib_fst]; rfl
        omega
      · have hm := inv.cached_pos _ _ ht
        have hk := inv.cache_sub _ _ ht
        have hnrt := L.not_root_of_sunder hσN hm hts
        have hst := inv.has_needed t x true hm hnrt (Or.inl ⟨x, hk, hm⟩)
        cases hAt : A t with
        | none => exact absurd hAt hst
        | some v =>
          obtain ⟨bv, hb⟩ := inv.true_hash t v hAt
          exact ⟨v, rfl, (L.func _ _ _ _ _ hb hm).1⟩
    obtain ⟨m', hrm, rep', hnl, hfl⟩ :=
      removeSingle_nonroot_rep rep r.n_eq r.n_lt hrowsF r.full hdv hnr hρ hρd hnode hc hc2
    have e1 : liftA (sib d) (upd (upd (upd (clearBelow d A) d none) (sib d) none) (parent d) (some node)) =
        liftAll (sib d) A := funext (liftAll_eq_remove hnode)
    have e2 : liftC (sib d) (cacheSib node (parent d) C) = liftCAll (sib d) C := by
      funext x
      have : cacheSib node (parent d) C =
          fun y => if C y = some (sib d) then some (parent (sib d)) else C y := by
        funext y; rw [hcu, parent_sib]
      rw [this, MapAddMerge.liftC_eq]
    rw [e1, e2] at rep'
    refine ⟨m', hrm, pack m' _ _ rep' hnl hfl inv' ?_⟩
    intro y
    unfold liftCAll
    cases C y <;> rfl

/-! ### the loop over the detwinned targets -/

theorem removeAll_spec (nz : NZ H) : ∀ (ds : List Pos) {m : MapPollard H} {F : Forest H} {K : H → Prop},
    RInv m F K → (∀ d ∈ ds, ∃ h b, (d, h, b) ∈ F.nodes) →
    (∀ d ∈ ds, ∀ t x, (t, x, true) ∈ F.nodes → Anc d t → K x ∧ m.hasCached x = false) →
    ds.Pairwise (fun a b => ¬ Anc (parent a) b ∧ ¬ Anc b (parent a)) →
    ∃ m', MapPollard.removeAll (ds.map (encP m.totalRows.toNat)) m = m' ∧ m'.totalRows = m.totalRows ∧
      RInv m' (F.delLeaves (ds.flatMap (leavesUnder F))) (fun x => K x ∧ x ∉ ds.flatMap (leavesUnder F)) ∧
      (∀ y, m'.hasCached y = m.hasCached y)
  | [], m, F, K, r, _, _, _ => by
    refine ⟨m, rfl, rfl, ?_, fun _ => rfl⟩
    apply r.congr
    · exact delLeaves_nil F
    · intro x; simp
  | d :: ds, m, F, K, r, hnode, hpend, hsep => by
    obtain ⟨h, b, hd⟩ := hnode d List.mem_cons_self
    obtain ⟨m1, hrm, hT1, r1, hc1⟩ := removeSingle_step nz r hd (hpend d List.mem_cons_self)
    rw [List.pairwise_cons] at hsep
    have hn64 : F.numLeaves < 2 ^ 64 := by have := r.n_lt; omega
    have L := laws_forest nz F hn64 r.hyg
    -- the other targets are untouched
    have pers : ∀ d' ∈ ds,
        (∀ h' b', (d', h', b') ∈ F.nodes → (d', h', b') ∈ (F.delLeaves (leavesUnder F d)).nodes) ∧
        (∀ t x, Anc d' t → ((t, x, true) ∈ (F.delLeaves (leavesUnder F d)).nodes ↔ (t, x, true) ∈ F.nodes)) := by
      intro d' hd'
      have hs := hsep.1 d' hd'
      by_cases hroot : isRootPos F.numLeaves d = true
      · obtain ⟨s1, s2⟩ := sep_disj hs
        exact persist_root nz F hn64 r.hyg hroot s1 s2
      · have hnr : isRootPos F.numLeaves d = false := by
          cases hx : isRootPos F.numLeaves d with
          | false => rfl
          | true => exact absurd hx hroot
        exact persist_nonroot nz F hn64 r.hyg hd hnr hs.1 hs.2
    have hmemLU : ∀ d' ∈ ds, ∀ x, x ∈ leavesUnder (F.delLeaves (leavesUnder F d)) d' ↔ x ∈ leavesUnder F d' := by
      intro d' hd' x
      rw [mem_leavesUnder, mem_leavesUnder]
      constructor
      · rintro ⟨t, ht, ha⟩; exact ⟨t, ((pers d' hd').2 t x ha).1 ht, ha⟩
      · rintro ⟨t, ht, ha⟩; exact ⟨t, ((pers d' hd').2 t x ha).2 ht, ha⟩
    have hnode1 : ∀ d' ∈ ds, ∃ h' b', (d', h', b') ∈ (F.delLeaves (leavesUnder F d)).nodes := by
      intro d' hd'
      obtain ⟨h', b', hm⟩ := hnode d' (List.mem_cons_of_mem _ hd')
      exact ⟨h', b', (pers d' hd').1 h' b' hm⟩
    have hpend1 : ∀ d' ∈ ds, ∀ t x, (t, x, true) ∈ (F.delLeaves (leavesUnder F d)).nodes → Anc d' t →
        (K x ∧ x ∉ leavesUnder F d) ∧ m1.hasCached x = false := by
      intro d' hd' t x ht ha
      have htF := ((pers d' hd').2 t x ha).1 ht
      obtain ⟨g1, g2⟩ := hpend d' (List.mem_cons_of_mem _ hd') t x htF ha
      refine ⟨⟨g1, ?_⟩, by rw [hc1]; exact g2⟩
      rw [mem_leavesUnder]
      rintro ⟨t0, ht0, ha0⟩
      have := L.leaf_hash t0 x t true ht0 htF
      subst this
      obtain ⟨s1, s2⟩ := sep_disj (hsep.1 d' hd')
      by_cases hle : d.1 ≤ d'.1
      · exact s2 (Anc.comparable ha0 ha hle)
      · exact s1 (Anc.comparable ha ha0 (by omega))
    obtain ⟨m2, hrest, hT2, r2, hc2⟩ := removeAll_spec nz ds r1 hnode1 hpend1 hsep.2
    refine ⟨m2, ?_, hT2.trans hT1, ?_, fun y => (hc2 y).trans (hc1 y)⟩
    · show MapPollard.removeAll (ds.map (encP m.totalRows.toNat)) (MapPollard.removeSingle (encP m.totalRows.toNat d) m).1 = m2
      rw [hrm]
      rw [hT1] at hrest
      exact hrest
    · have hmemAll : ∀ x, x ∈ ds.flatMap (leavesUnder (F.delLeaves (leavesUnder F d))) ↔ x ∈ ds.flatMap (leavesUnder F) := by
        intro x
        simp only [List.mem_flatMap]
        constructor
        · rintro ⟨d', hd', hx⟩; exact ⟨d', hd', (hmemLU d' hd' x).1 hx⟩
        · rintro ⟨d', hd', hx⟩; exact ⟨d', hd', (hmemLU d' hd' x).2 hx⟩
      apply r2.congr
      · rw [delLeaves_delLeaves]
        apply delLeaves_congr'
        intro x
        simp only [List.flatMap_cons, List.mem_append]
        rw [hmemAll]
      · intro x
        simp only [List.flatMap_cons, List.mem_append]
        rw [hmemAll]
        constructor
        · rintro ⟨h1, h2⟩; exact ⟨⟨h1, fun h => h2 (Or.inl h)⟩, fun h => h2 (Or.inr h)⟩
        · rintro ⟨⟨h1, h2⟩, h3⟩; exact ⟨h1, fun h => h.elim h2 h3⟩

/-! ### `remove` -/

theorem sinv_to_rinv {m : MapPollard H} {F : Forest H} (s : SInv m F) : RInv m F (fun x => m.hasCached x = true) := by
  obtain ⟨A, C, rep, inv⟩ := s.abs
  exact { n_lt := s.n_lt, n_eq := s.n_eq, rows_le := s.rows_le, total_le := s.total_le, full := s.full,
          hyg := s.hyg, abs := ⟨A, C, rep, inv.congr_K (fun y => by rw [rep.hasCached])⟩ }

theorem rinv_to_sinv {m : MapPollard H} {F : Forest H} {K : H → Prop} (r : RInv m F K)
    (hK : ∀ x, K x ↔ m.hasCached x = true) : SInv m F := by
  obtain ⟨A, C, rep, inv⟩ := r.abs
  exact { n_lt := r.n_lt, n_eq := r.n_eq, rows_le := r.rows_le, total_le := r.total_le, full := r.full,
          hyg := r.hyg, abs := ⟨A, C, rep, inv.congr_K (fun y => by rw [hK, rep.hasCached])⟩ }

/-- **`remove` preserves the strong invariant**: the cached live leaves `L` (given with the targets
of their canonical proof, in any `TotalRows ≥ TreeRows` allocation) are deleted from the
specification forest and from the cache; everything else stays cached. -/
theorem sinv_remove (nz : NZ H) {m : MapPollard H} {F : Forest H} (s : SInv m F) (L : List H) (ts : List Pos)
    (ps : List H) (hnd : L.Nodup) (hc : F.canon L = some (ts, ps)) (hcached : ∀ x ∈ L, m.hasCached x = true) :
    ∃ m', MapPollard.remove (ts.map (encP F.rows)) L m = (m', .ok ()) ∧ SInv m' (F.delLeaves L) ∧
      (∀ y, m'.hasCached y = true ↔ (m.hasCached y = true ∧ y ∉ L)) := by
  obtain ⟨A, C, rep, inv⟩ := s.abs
  have hn64 : F.numLeaves < 2 ^ 64 := by have := s.n_lt; omega
  have Lw := laws_forest nz F hn64 s.hyg
  -- the cache loses the deleted leaves
  obtain ⟨rep1, hnl1, hfl1⟩ := uncache_rep L rep
  have hT1 : (m.uncacheLeaves L).totalRows = m.totalRows := rep1.rows.trans rep.rows.symm
  have r1 : RInv (m.uncacheLeaves L) F (fun x => m.hasCached x = true) := by
    refine { n_lt := s.n_lt, n_eq := hnl1.trans s.n_eq, rows_le := by rw [hT1]; exact s.rows_le,
             total_le := by rw [hT1]; exact s.total_le, full := hfl1.trans s.full, hyg := s.hyg, abs := ?_ }
    rw [hT1]
    refine ⟨A, _, rep1, ?_⟩
    have inv1 : AInv A (fun x => if x ∈ L then none else C x) F.nodes (FRoot F) (fun x => (C x).isSome = true)
        (fun _ => False) := AInv.shrink_C inv (by
      intro x t hx
      split at hx
      · cases hx
      · exact hx)
    exact inv1.congr_K (fun y => by rw [rep.hasCached])
  have hc1 : ∀ y, (m.uncacheLeaves L).hasCached y = true ↔ (m.hasCached y = true ∧ y ∉ L) := by
    intro y
    rw [rep1.hasCached, rep.hasCached]
    by_cases hy : y ∈ L
    · simp [hy]
    · simp [hy]
  -- the detwinned targets
  obtain ⟨ds, hDT, hdt⟩ := deTwin_spec nz F s.n_lt s.hyg hnd hc s.total_le s.rows_le
  have hrowsm : m.totalRows = H8 m.totalRows.toNat := rep.rows
  have htr : TreeRows m.numLeaves = H8 F.rows := by
    rw [s.n_eq]; exact SpecView.treeRows_eq s.n_lt
  obtain ⟨m', hra, hT', r', hc'⟩ := removeAll_spec nz ds r1 hDT.node
    (by
      intro d hd t x ht ha
      have hxL := hDT.sub d hd t x ht ha
      refine ⟨hcached x hxL, ?_⟩
      cases hh : (m.uncacheLeaves L).hasCached x with
      | false => rfl
      | true => exact absurd hxL ((hc1 x).1 hh).2)
    hDT.sep
  have hmem : ∀ x, x ∈ ds.flatMap (leavesUnder F) ↔ x ∈ L := by
    intro x
    simp only [List.mem_flatMap, mem_leavesUnder]
    constructor
    · rintro ⟨d, hd, t, ht, ha⟩; exact hDT.sub d hd t x ht ha
    · intro hx
      obtain ⟨d, hd, t, ht, ha⟩ := hDT.cover x hx
      exact ⟨d, hd, t, ht, ha⟩
  refine ⟨m', ?_, ?_, ?_⟩
  · unfold MapPollard.remove
    have hall : m.allCached L = true := allCached_iff.2 hcached
    simp only [hall, Bool.not_true, Bool.false_eq_true, if_false]
    congr 1
    rw [← hra, hT1]
    congr 1
    rw [hnl1, htr, ← hdt, ← hrowsm]
  · apply rinv_to_sinv (r'.congr (delLeaves_congr' F (fun x => (hmem x).symm)) (fun x => Iff.rfl))
    intro x
    rw [hc', hc1, hmem]
  · intro y
    rw [hc', hc1]

end UtreexoVerif.Proofs.MapRemoveAll
