/-
  `Undo` of a FULL map forest: assembly of the three phases (`undoAdd`, `undoDeletion`,
  `restoreRoots`) into `finv_undo`: if `m` tracks `F.modify dels adds`, then `Undo` with the data
  of that block (number of additions, canonical proof of `dels` in `F`, `dels`, roots of `F`)
  succeeds and the result tracks `F` again (C06 for the full map forest).
-/
import UtreexoVerif.Proofs.MapFullUndoAdd
import UtreexoVerif.Proofs.MapFullUndoDel
import UtreexoVerif.Proofs.MapUndoAll

namespace UtreexoVerif.Proofs.MapFullUndo
open UtreexoVerif Model Spec Spec.Forest Proofs MapAL MapInv MapPrune MapRep MapLiftGeo PForest MapAInv MapLiftCore
open MapUndoDefs MapUndoSteps PForestSpec PForestAdd MapUndoRep MapUndoOrder MapAddMerge Hasher
open MapUndoAdd MapUndoChain MapUndoRoots MapRemoveAll MapDeTwin PForestDel MapSInv MapUndoAll
open MapFull MapFullRemove MapFullUndoAdd MapFullUndoChain MapFullUndoDel

set_option linter.unusedVariables false
set_option linter.unusedSectionVars false

variable {H : Type} [DecidableEq H] [Hasher H]

/-! ### phase 1: `undoAdd` -/

theorem fundoAdd_spec (nz : NZ H) {m : MapPollard H} {T : Nat} {F : Forest H} {dels adds : List H}
    {ts : List Pos} {ps : List H} (hyF : Hyg F) (hnd : dels.Nodup) (hc : F.canon dels = some (ts, ps))
    (hyp : Hyg ((F.delLeaves dels).addMany adds))
    {A : Pos → Option (Leaf H)} {C : H → Option Pos} (rep : Rep m T A C) (hfull : m.full = true)
    (hnl : m.numLeaves = BitVec.ofNat 64 (F.numLeaves + adds.length))
    (hn63 : F.numLeaves + adds.length < 2 ^ 63) (hfit : forestRows (F.numLeaves + adds.length) ≤ T)
    (fa : FA A C ((F.delLeaves dels).addMany adds).nodes (fun _ => False))
    (nonZero : H) (hnz : nonZero ≠ (zero : H)) :
    ∃ m' A' C', MapPollard.undoAdd nonZero (BitVec.ofNat 64 adds.length) (ts.map (encP F.rows)) F.roots m = (m', .ok ()) ∧
      Rep m' T A' C' ∧ m'.numLeaves = BitVec.ofNat 64 F.numLeaves ∧ m'.full = true ∧
      FA A' C' (F.delLeaves dels).nodes (fun _ => False) := by
  have hT := rep.T_le
  have hG : (F.delLeaves dels).numLeaves = F.numLeaves := numLeaves_delLeaves F dels
  have hyG : Hyg (F.delLeaves dels) := hyg_delLeaves hyF dels
  obtain ⟨E, hgw, hEs, hEm⟩ := gwoer_spec nz rep.rows hT F hyF hnd hc adds.length hnl hn63 hfit nonZero hnz
  have hE : E = destroyed (F.delLeaves dels) adds.length := by
    apply sorted_ext hEs (destroyed_sorted _ _)
    intro h
    rw [hEm]
    unfold destroyed
    rw [List.mem_filter, Bool.and_eq_true, decide_eq_true_eq, hG]
    constructor
    · rintro ⟨hb, hd, hr⟩
      exact ⟨CalcComplete.mem_treeRows (by omega) hb,
        (deadB_iff nz _ (by rw [hG]; omega) hyG (by rw [hG]; exact hb)).2 hd, hr⟩
    · rintro ⟨hrow, hd, hr⟩
      have hb := (mem_treeRows.1 hrow).2
      refine ⟨hb, ?_, hr⟩
      exact (deadB_iff nz _ (by rw [hG]; omega) hyG (by rw [hG]; exact hb)).1 hd
  obtain ⟨m', A', C', hrun, rep', hnl', hfl', fa'⟩ := funadd_loop nz (T := T) (F.delLeaves dels) adds
    (by rw [hG]; exact hn63) (by rw [hG]; exact hfit) hyp rep hfull (by rw [hG]; exact hnl) fa
  rw [hG] at hnl'
  refine ⟨m', A', C', ?_, rep', hnl', hfl', fa'⟩
  unfold MapPollard.undoAdd
  rw [hgw]
  simp only
  have hk : (BitVec.ofNat 64 adds.length).toNat = adds.length := by
    rw [BitVec.toNat_ofNat]; exact Nat.mod_eq_of_lt (by omega)
  rw [hk, hE]
  have : (fun h => encP T (rootPos F.numLeaves h)) = encE T (F.delLeaves dels) := by
    funext h; unfold encE; rw [hG]
  rw [this]
  exact hrun

/-! ### phase 2: `undoDeletion` -/

open MapIngest SpecPlan in
theorem fundoDeletion_spec (nz : NZ H) {m : MapPollard H} {T : Nat} {F : Forest H} {dels : List H}
    {ts : List Pos} {ps : List H} (hyF : Hyg F) (hnd : dels.Nodup) (hc : F.canon dels = some (ts, ps))
    (hn63 : F.numLeaves < 2 ^ 63) (hfit : F.rows ≤ T)
    {A : Pos → Option (Leaf H)} {C : H → Option Pos} (rep : Rep m T A C) (hfull : m.full = true)
    (hnl : m.numLeaves = BitVec.ofNat 64 F.numLeaves)
    (fa : FA A C (F.delLeaves dels).nodes (fun _ => False)) :
    ∃ m' A' C', MapPollard.undoDeletion (ts.map (encP F.rows)) ps dels m = (m', .ok ()) ∧
      Rep m' T A' C' ∧ m'.numLeaves = m.numLeaves ∧ m'.full = true ∧
      FA A' C' F.nodes (fun _ => False) := by
  have hT := rep.T_le
  have hn64 : F.numLeaves < 2 ^ 64 := by omega
  have Lw := laws_forest nz F hn64 hyF
  obtain ⟨ds, hDT, hlive, hvalid, hdt⟩ := deTwin_spec_live nz F hn63 hyF hnd hc hT hfit
  have hmem : ∀ x, x ∈ ds.flatMap (leavesUnder F) ↔ x ∈ dels := by
    intro x
    simp only [List.mem_flatMap, mem_leavesUnder]
    constructor
    · rintro ⟨d, hd, t, ht, ha⟩; exact hDT.sub d hd t x ht ha
    · intro hx
      obtain ⟨d, hd, t, ht, ha⟩ := hDT.cover x hx
      exact ⟨d, hd, t, ht, ha⟩
  have hFeq : F.delLeaves (ds.flatMap (leavesUnder F)) = F.delLeaves dels := delLeaves_congr' F hmem
  have fa0 : FAH A C (F.delLeaves (ds.flatMap (leavesUnder F))).nodes (fun x => x ∈ dels) (fun _ => False) := by
    rw [hFeq]
    exact FAH.of_fa fa (fun t x hm => leaf_not_deleted hn64 hm)
  have hPd : ∀ d ∈ ds, ∀ t x, (t, x, true) ∈ F.nodes → Anc d t → x ∈ dels :=
    fun d hd t x ht ha => hDT.sub d hd t x ht ha
  obtain ⟨m2, hmd, rep2, hnl2, hfull2⟩ := funremove_rep nz ds F hn63 hyF hDT.node hDT.sep _ hPd m T A C rep hnl
    hfit hfull fa0
  have inv2 := funremove_chain nz ds F hn64 hyF hDT.node hDT.sep _ hPd A C fa0
  -- the targets
  have hts : ∀ t x, (t, x, true) ∈ F.nodes → x ∈ dels → t ∈ ts :=
    fun t x ht hx => (ts_iff nz hn64 hyF hc t).2 ⟨x, hx, ht⟩
  -- the hole lies in the path set
  have hole_incl : ∀ q, (∃ d ∈ ds, holeOf F.nodes d q) → q ∈ pathSet F ts := by
    rintro q ⟨d, hd, hq, h0, f0, hm⟩
    obtain ⟨t0, x0, ht0, ha0⟩ := hlive d hd
    have ht0' := hts t0 x0 ht0 (hDT.sub d hd t0 x0 ht0 ha0)
    rcases hq with hq | hq
    · by_cases hz : h0 = zero
      · exfalso
        subst hz
        obtain ⟨hRq, hf, hbelow⟩ := Lw.zero_root q f0 hm
        obtain ⟨hd1, bd, hdm⟩ := hDT.node d hd
        obtain ⟨ρ, hρ, haρ⟩ := Lw.under_root d _ _ hdm
        have := Lw.root_disj ρ q q hρ hRq (Anc.trans haρ hq) (Anc.refl q)
        subst this
        have := hbelow t0 x0 true ht0 (Anc.trans haρ ha0)
        subst this
        have := (Lw.func _ _ _ _ _ ht0 hm).2
        rw [hf] at this
        cases this
      · obtain ⟨t1, x1, ht1, ha1⟩ := Lw.has_leaf q h0 f0 hm hz
        exact ps_of_anc hc hm (hts t1 x1 ht1 (hDT.sub d hd t1 x1 ht1 (Anc.trans hq ha1))) ha1
    · exact ps_of_anc hc hm ht0' (Anc.trans hq (Anc.trans (anc_parent_self d) ha0))
  generalize hAC : moveBackAll F.numLeaves ds (A, C) = AC at rep2 inv2
  obtain ⟨A2, C2⟩ := AC
  simp only at rep2 inv2
  -- the model: `placeProof` finds every proof position stored with the hash of the proof
  have vT : ∀ {q : Pos} {h : H} {b : Bool}, (q, h, b) ∈ F.nodes → MapInv.Valid T q :=
    fun hm => MapFull.node_valid hfit hm
  have hps := ps_hashes hc
  have hprf : ∀ j (hj : j < (F.proofPositions ts).length),
      ps[0 + j]? = some (tvF F (F.proofPositions ts)[j]) := by
    intro j hj
    rw [Nat.zero_add]
    subst hps
    rw [List.getElem?_map, List.getElem?_eq_getElem hj]
    rfl
  have h4 : MapPollard.placeProof ((F.proofPositions ts).map (encP T)) 0 ps m2 = (m2, .ok ps) :=
    placeProof_present (tvF F) (F.proofPositions ts) 0 ps m2 rep2
      (fun q hq => by obtain ⟨b, hb⟩ := pp_node hc hq; exact vT hb) hprf
      (fun q hq => by
        obtain ⟨b, hb⟩ := pp_node hc hq
        have hout : ¬ ∃ d ∈ ds, holeOf F.nodes d q := fun hh => ((pp_iff q).1 hq).1 (hole_incl q hh)
        exact ⟨_, inv2.sto q _ b hb hout, rfl⟩)
  have hrun := undoDeletion_run nz rep.rows hT hnl hn63 hfit hyF hnd hc hdt hmd rep2.rows hnl2 h4 rep2.rows rfl
  -- `putCalculated`
  have tsB : ∀ t ∈ ts, ∃ x, (t, x, true) ∈ F.nodes := fun t ht => ts_node hc ht
  have tsPos : ∀ t ∈ ts, F.posOf (tvF F t) = some t := by
    intro t ht
    exact (posOf_iff F hn64 hyF nz).2 (ts_val nz hn64 hyF hc ht).2
  obtain ⟨rep4, hf4, hn4⟩ := putCalculated_full
    (fun p => (ts.map (encP T)).contains p) (fun p => decide (p ∈ ts)) (tvF F) F.posOf
    (pathSet F ts) m2 _ C2 rep2 hfull2
    (fun q hq => by
      obtain ⟨b, hb⟩ := ps_node hc hq
      exact ⟨vT hb, MapUndoDel.contains_eq' hT ts (fun t ht => by obtain ⟨x, hx⟩ := tsB t ht; exact vT hx) (vT hb)⟩)
    (fun q hq ht => tsPos q (of_decide_eq_true ht))
  have tok := canon_targetsOK hc
  have hiff : ∀ x, (∃ t ∈ pathSet F ts, decide (t ∈ ts) = true ∧ tvF F t = x) ↔ x ∈ dels := by
    intro x
    constructor
    · rintro ⟨t, h1, h2, h3⟩
      have := ts_val nz hn64 hyF hc (of_decide_eq_true h2)
      rw [h3] at this
      exact this.1
    · intro h
      obtain ⟨_, hp, _, _⟩ := canon_spec hc
      obtain ⟨p, hpl⟩ := hp x h
      have hm := posOf_mem hpl
      have hpts : p ∈ ts := (ts_iff nz hn64 hyF hc p).2 ⟨x, h, hm⟩
      refine ⟨p, targets_sub_pathSet tok hpts, decide_eq_true hpts, ?_⟩
      unfold tvF
      rw [SpecNodes.nodeAt_of_mem hm]; rfl
  refine ⟨_, _, _, hrun, rep4, by rw [hn4, hnl2], hf4, ?_⟩
  apply ffill Lw inv2 hole_incl (fun q hq => ps_node hc hq)
  · intro x t hx
    by_cases hxd : x ∈ dels
    · rw [if_pos ((hiff x).2 hxd)] at hx
      exact Or.inr ⟨hxd, posOf_mem hx⟩
    · rw [if_neg (fun h => hxd ((hiff x).1 h))] at hx
      exact Or.inl hx
  · intro t x hm
    constructor
    · intro hxd
      rw [if_pos ((hiff x).2 hxd)]
      exact (posOf_iff F hn64 hyF nz).2 hm
    · intro hxd
      rw [if_neg (fun h => hxd ((hiff x).1 h))]

/-! ### phase 3: `restoreRoots` -/

/-- the roots already hold their hashes with the flag set: `restoreRoots` changes no look-up -/
theorem restoreRoots_noop {T : Nat} {A : Pos → Option (Leaf H)} {C : H → Option Pos} (hs : List H) :
    ∀ (rs : List Pos) (i : Nat) {m : MapPollard H},
      Rep m T A C → m.full = true → (∀ q ∈ rs, Valid T q) → rs.length + i = hs.length →
      (∀ e ∈ rs.zip (hs.drop i), A e.1 = some ⟨e.2, true⟩) →
      ∃ m', MapPollard.restoreRoots hs (rs.map (encP T)) i m = (m', .ok ()) ∧
        Rep m' T A C ∧ m'.numLeaves = m.numLeaves ∧ m'.full = m.full
  | [], i, m, rep, hfull, hv, hlen, hval => ⟨m, rfl, rep, rfl, rfl⟩
  | rp :: rest, i, m, rep, hfull, hv, hlen, hval => by
    have hi : i < hs.length := by simp only [List.length_cons] at hlen; omega
    have hget : hs[i]? = some hs[i] := List.getElem?_eq_getElem hi
    have hdrop : hs.drop i = hs[i] :: hs.drop (i + 1) := List.drop_eq_getElem_cons hi
    have hrp : Valid T rp := hv rp (List.mem_cons_self ..)
    rw [hdrop, List.zip_cons_cons] at hval
    have hA : A rp = some ⟨hs[i], true⟩ := hval (rp, hs[i]) List.mem_cons_self
    have rep1 : Rep (m.putNode (encP T rp) ⟨hs[i], true⟩) T A C := by
      refine (rep.putNode hrp ⟨hs[i], true⟩).congr (fun x => ?_) (fun _ => rfl)
      rw [upd_apply]
      split
      · rename_i e; rw [e, hA]
      · rfl
    obtain ⟨m', e', rep', a, b⟩ := restoreRoots_noop hs rest (i + 1) rep1 hfull
      (fun q hq => hv q (List.mem_cons_of_mem _ hq))
      (by simp only [List.length_cons] at hlen; omega)
      (fun e he => hval e (List.mem_cons_of_mem _ he))
    refine ⟨m', ?_, rep', a, b⟩
    rw [List.map_cons]
    unfold MapPollard.restoreRoots
    rw [hget]
    simp only
    rw [hfull, Bool.or_true]
    exact e'

/-! ### the whole of `Undo` -/

/-- **`Undo` on a full forest restores `FInv` of the forest before the `Modify`** (C06 for the full
map forest): `m` tracks `F.modify dels adds`; undoing the additions `adds` and the deletions `dels`
(with the canonical proof of `dels` in `F` and the roots of `F`) gives a state that tracks `F` -/
theorem finv_undo (nz : NZ H) {m : MapPollard H} {F : Forest H} {dels adds : List H} {ts : List Pos} {ps : List H}
    (s : FInv m (F.modify dels adds)) (hyF : Hyg F) (hnd : dels.Nodup) (hc : F.canon dels = some (ts, ps))
    (nonZero : H) (hnz : nonZero ≠ (zero : H)) :
    ∃ m', MapPollard.undo nonZero (BitVec.ofNat 64 adds.length) (ts.map (encP F.rows)) ps dels F.roots m = (m', .ok ()) ∧
      FInv m' F := by
  obtain ⟨A, C, rep, fa⟩ := s.abs
  have hT := rep.T_le
  have hG : (F.delLeaves dels).numLeaves = F.numLeaves := numLeaves_delLeaves F dels
  have hFm : (F.modify dels adds).numLeaves = F.numLeaves + adds.length := by
    show ((F.delLeaves dels).addMany adds).numLeaves = _
    rw [numLeaves_addMany', hG]
  have hn63 : F.numLeaves + adds.length < 2 ^ 63 := by rw [← hFm]; exact s.n_lt
  have hn64 : F.numLeaves < 2 ^ 64 := by omega
  have hfit : forestRows (F.numLeaves + adds.length) ≤ m.totalRows.toNat := by rw [← hFm]; exact s.rows_le
  have hFrows : F.rows ≤ m.totalRows.toNat :=
    Nat.le_trans (SpecView.forestRows_le (Nat.le_trans (Nat.le_add_right _ _) (SpecView.le_two_pow_forestRows _))) hfit
  have hnl : m.numLeaves = BitVec.ofNat 64 (F.numLeaves + adds.length) := by rw [← hFm]; exact s.n_eq
  have Lw := laws_forest nz F hn64 hyF
  -- phase 1
  obtain ⟨m1, A1, C1, hrun1, rep1, hnl1, hfl1, fa1⟩ := fundoAdd_spec nz hyF hnd hc s.hyg rep s.full hnl hn63 hfit
    fa nonZero hnz
  -- phase 2
  obtain ⟨m2, A2, C2, hrun2, rep2, hnl2, hfl2, fa2⟩ := fundoDeletion_spec nz hyF hnd hc (by omega) hFrows rep1 hfl1
    hnl1 fa1
  -- phase 3
  have hnT : F.numLeaves ≤ 2 ^ m.totalRows.toNat := by
    have h1 := SpecView.le_two_pow_forestRows F.numLeaves
    have h2 : 2 ^ forestRows F.numLeaves ≤ 2 ^ m.totalRows.toNat := Nat.pow_le_pow_right (by decide) hFrows
    omega
  have hrps : RootPositions m2.numLeaves m2.totalRows =
      ((treeRows F.numLeaves).map (rootPos F.numLeaves)).map (encP m.totalRows.toNat) := by
    rw [hnl2, hnl1, rep2.rows, Props.C16.rootPositions_spec hT _
      (by rw [BitVec.toNat_ofNat, Nat.mod_eq_of_lt hn64]; exact hnT), BitVec.toNat_ofNat, Nat.mod_eq_of_lt hn64,
      List.map_map]
    rfl
  have hv : ∀ q ∈ (treeRows F.numLeaves).map (rootPos F.numLeaves), Valid m.totalRows.toNat q := by
    intro q hq
    obtain ⟨h, hh, rfl⟩ := List.mem_map.1 hq
    have := MapUndoRoots.rootPos_valid hFrows hh
    exact ⟨this.1, this.2⟩
  obtain ⟨m3, hrun3, rep3, hnl3, hfl3⟩ := restoreRoots_noop F.roots ((treeRows F.numLeaves).map (rootPos F.numLeaves)) 0
    rep2 hfl2 hv (by rw [SpecNodes.roots_eq]; simp)
    (by
      rw [List.drop_zero, SpecNodes.roots_eq, List.zip_map']
      intro e he
      obtain ⟨h, hh, rfl⟩ := List.mem_map.1 he
      obtain ⟨b, hb⟩ := rootNode_mem_nodes F hh
      exact fa2.sto _ _ b hb)
  have hrows3 : m3.totalRows = m.totalRows := rep3.rows.trans rep.rows.symm
  refine ⟨m3, ?_, ?_⟩
  · unfold MapPollard.undo
    rw [hrun1]
    simp only
    rw [hrun2]
    simp only
    show MapPollard.restoreRoots F.roots (RootPositions m2.numLeaves m2.totalRows) 0 m2 = _
    rw [hrps]
    exact hrun3
  · exact FInv.of_abs rep3 fa2 (by omega) (by rw [hnl3, hnl2, hnl1]) hFrows (hfl3.trans hfl2) hyF

end UtreexoVerif.Proofs.MapFullUndo

section Axioms
open UtreexoVerif.Proofs.MapFullUndo
#print axioms finv_undo
end Axioms
