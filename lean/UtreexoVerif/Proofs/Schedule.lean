/-
  Helper lemmas for property C15: the eviction loop of `GenerateCachingSchedule`
  (`Model.scheduleOfTTLs`) and the ttl bookkeeping of `genTTLs`.
  Core Lean only.
-/
import UtreexoVerif.Model.Schedule

namespace UtreexoVerif.Proofs.Schedule
open UtreexoVerif Model

-- ---------------------------------------------------------------- generic list facts

theorem nodup_subset_length_le {α} [DecidableEq α] :
    ∀ (l₁ l₂ : List α), l₁.Nodup → (∀ x ∈ l₁, x ∈ l₂) → l₁.length ≤ l₂.length := by
  intro l₁
  induction l₁ with
  | nil => intro l₂ _ _; simp
  | cons a l ih =>
    intro l₂ hnd hsub
    have ha : a ∈ l₂ := hsub a (by simp)
    have hnd' := List.nodup_cons.mp hnd
    have hsub' : ∀ x ∈ l, x ∈ l₂.erase a := by
      intro x hx
      have hne : x ≠ a := by
        intro h; subst h; exact hnd'.1 hx
      exact (List.mem_erase_of_ne hne).mpr (hsub x (by simp [hx]))
    have := ih (l₂.erase a) hnd'.2 hsub'
    have hlen := List.length_erase_of_mem ha
    have hpos : 0 < l₂.length := List.length_pos_of_mem ha
    simp only [List.length_cons]
    omega

-- ---------------------------------------------------------------- insertion sort on U64

theorem insertBy_perm (x : U64) : ∀ l : List U64, (insertBy id x l).Perm (x :: l) := by
  intro l
  induction l with
  | nil => simp [insertBy]
  | cons y ys ih =>
    unfold insertBy
    split
    · exact List.Perm.refl _
    · exact (List.Perm.cons y ih).trans (List.Perm.swap x y ys)

theorem foldl_insertBy_perm : ∀ (l acc : List U64),
    (l.foldl (fun acc x => insertBy id x acc) acc).Perm (acc ++ l) := by
  intro l
  induction l with
  | nil => intro acc; simp
  | cons x xs ih =>
    intro acc
    simp only [List.foldl_cons]
    refine (ih _).trans ?_
    have h1 : (insertBy id x acc ++ xs).Perm ((x :: acc) ++ xs) :=
      List.Perm.append_right xs (insertBy_perm x acc)
    refine h1.trans ?_
    simpa using (List.perm_middle (a := x) (l₁ := acc) (l₂ := xs)).symm

theorem sortU64_perm (l : List U64) : (sortU64 l).Perm l := by
  unfold sortU64 sortBy
  simpa using foldl_insertBy_perm l []

theorem mem_sortU64 (l : List U64) (x : U64) : x ∈ sortU64 l ↔ x ∈ l :=
  (sortU64_perm l).mem_iff

theorem insertBy_sorted (x : U64) : ∀ l : List U64, l.Pairwise (· ≤ ·) → (insertBy id x l).Pairwise (· ≤ ·) := by
  intro l
  induction l with
  | nil => intro _; simp [insertBy]
  | cons y ys ih =>
    intro h
    have hy := List.pairwise_cons.mp h
    unfold insertBy
    split
    · rename_i hlt
      simp only [id] at hlt
      refine List.pairwise_cons.mpr ⟨?_, h⟩
      intro a ha
      rcases List.mem_cons.mp ha with rfl | ha
      · exact BitVec.le_of_lt hlt
      · exact BitVec.le_trans (BitVec.le_of_lt hlt) (hy.1 a ha)
    · rename_i hnlt
      simp only [id] at hnlt
      refine List.pairwise_cons.mpr ⟨?_, ih hy.2⟩
      intro a ha
      have := ((insertBy_perm x ys).mem_iff).mp ha
      rcases List.mem_cons.mp this with rfl | ha
      · exact BitVec.not_lt.mp hnlt
      · exact hy.1 a ha

theorem foldl_insertBy_sorted : ∀ (l acc : List U64), acc.Pairwise (· ≤ ·) →
    (l.foldl (fun acc x => insertBy id x acc) acc).Pairwise (· ≤ ·) := by
  intro l
  induction l with
  | nil => intro acc h; simpa using h
  | cons x xs ih => intro acc h; exact ih _ (insertBy_sorted x acc h)

theorem sortU64_sorted (l : List U64) : (sortU64 l).Pairwise (· ≤ ·) := by
  unfold sortU64 sortBy
  exact foldl_insertBy_sorted l [] List.Pairwise.nil

-- ---------------------------------------------------------------- HeightMap

theorem HeightMap.get_put_same (m : HeightMap) (k : U64) (v : Int) : (m.put k v).get k = v := by
  unfold HeightMap.put HeightMap.get HeightMap.delete
  rw [List.find?_append]
  have : List.find? (fun e => e.1 == k) (List.filter (fun e => !(e.1 == k)) m) = none := by
    rw [List.find?_eq_none]
    intro x hx
    have := (List.mem_filter.mp hx).2
    simpa using this
  simp [this]

theorem HeightMap.find_delete_ne (m : HeightMap) (k k' : U64) (h : k' ≠ k) :
    List.find? (fun e => e.1 == k') (List.filter (fun e => !(e.1 == k)) m) =
      List.find? (fun e => e.1 == k') m := by
  induction m with
  | nil => rfl
  | cons e m ih =>
    by_cases hk : e.1 = k
    · have hk' : (k == k') = false := beq_false_of_ne (fun h' => h h'.symm)
      simp only [List.filter_cons, hk, beq_self_eq_true, Bool.not_true, Bool.false_eq_true, ↓reduceIte,
        List.find?_cons, hk']
      exact ih
    · have hk2 : (e.1 == k) = false := beq_false_of_ne hk
      simp only [List.filter_cons, hk2, Bool.not_false, ↓reduceIte, List.find?_cons]
      cases hc : (e.1 == k')
      · exact ih
      · rfl

theorem HeightMap.get_delete_ne (m : HeightMap) (k k' : U64) (h : k' ≠ k) :
    (m.delete k).get k' = m.get k' := by
  unfold HeightMap.get HeightMap.delete
  rw [HeightMap.find_delete_ne m k k' h]

theorem HeightMap.get_put_ne (m : HeightMap) (k k' : U64) (v : Int) (h : k' ≠ k) :
    (m.put k v).get k' = m.get k' := by
  have h1 := HeightMap.get_delete_ne m k k' h
  unfold HeightMap.put
  unfold HeightMap.get at h1 ⊢
  rw [List.find?_append]
  have : List.find? (fun e => e.1 == k') [(k, v)] = none := by
    simp only [List.find?_cons, List.find?_nil]
    have : (k == k') = false := by
      apply beq_false_of_ne
      exact fun h' => h h'.symm
    simp [this]
  rw [this, Option.or_none]
  exact h1

-- ---------------------------------------------------------------- the ttl tables

abbrev Sch := List (List U64)

/-- `e` is an entry of the ttl table of block `i` -/
def Ent (T : List (List TTLInfo)) (i : Nat) (e : TTLInfo) : Prop := ∃ l, T[i]? = some l ∧ e ∈ l

/-- hypothesis of the C15 theorems: the positions in the ttl tables are pairwise distinct -/
def Distinct (T : List (List TTLInfo)) : Prop := (T.flatten.map (·.pos)).Nodup

/-- hypothesis of the C15 theorems: every ttl is positive (`genTTLs` guarantees it) -/
def PosTTL (T : List (List TTLInfo)) : Prop := ∀ l ∈ T, ∀ e ∈ l, 0 < e.ttl

theorem Ent.lt {T : List (List TTLInfo)} {i e} (h : Ent T i e) : i < T.length := by
  obtain ⟨l, hl, _⟩ := h
  exact (List.getElem?_eq_some_iff.mp hl).1

theorem Ent.pos {T : List (List TTLInfo)} {i e} (hp : PosTTL T) (h : Ent T i e) : 0 < e.ttl := by
  obtain ⟨l, hl, he⟩ := h
  exact hp l (List.mem_of_getElem? hl) e he

theorem Ent.mem_flatten {T : List (List TTLInfo)} {i e} (h : Ent T i e) : e ∈ T.flatten := by
  obtain ⟨l, hl, he⟩ := h
  exact List.mem_flatten.mpr ⟨l, List.mem_of_getElem? hl, he⟩

theorem distinct_pairwise {T : List (List TTLInfo)} (hd : Distinct T) :
    T.flatten.Pairwise (fun a b => a.pos ≠ b.pos) := by
  unfold Distinct at hd
  rw [List.nodup_iff_pairwise_ne, List.pairwise_map] at hd
  exact hd

/-- entries of different blocks have different positions -/
theorem distinct_block {T : List (List TTLInfo)} (hd : Distinct T) {i i' : Nat} {e e' : TTLInfo}
    (h : Ent T i e) (h' : Ent T i' e') (hpos : e.pos = e'.pos) : i = i' := by
  have hp := (List.pairwise_flatten.mp (distinct_pairwise hd)).2
  rw [List.pairwise_iff_getElem] at hp
  obtain ⟨l, hl, he⟩ := h
  obtain ⟨l', hl', he'⟩ := h'
  obtain ⟨hi, hli⟩ := List.getElem?_eq_some_iff.mp hl
  obtain ⟨hi', hli'⟩ := List.getElem?_eq_some_iff.mp hl'
  rcases Nat.lt_trichotomy i i' with hlt | heq | hgt
  · have := hp i i' hi hi' hlt e (by rw [hli]; exact he) e' (by rw [hli']; exact he')
    exact absurd hpos this
  · exact heq
  · have := hp i' i hi' hi hgt e' (by rw [hli']; exact he') e (by rw [hli]; exact he)
    exact absurd hpos.symm this

/-- within a block the positions are distinct -/
theorem distinct_within {T : List (List TTLInfo)} (hd : Distinct T) {t : Nat} {l : List TTLInfo}
    (hl : T[t]? = some l) : l.Pairwise (fun a b => a.pos ≠ b.pos) :=
  (List.pairwise_flatten.mp (distinct_pairwise hd)).1 l (List.mem_of_getElem? hl)

theorem distinct_split {T : List (List TTLInfo)} (hd : Distinct T) {t : Nat} {pre post : List TTLInfo} {e : TTLInfo}
    (hl : T[t]? = some (pre ++ e :: post)) : ∀ e' ∈ pre, e'.pos ≠ e.pos := by
  have := distinct_within hd hl
  rw [List.pairwise_append] at this
  intro e' he'
  exact this.2.2 e' he' e (by simp)

/-- an entry is determined by its position -/
theorem distinct_entry {T : List (List TTLInfo)} (hd : Distinct T) {i : Nat} {e e' : TTLInfo}
    (h : Ent T i e) (h' : Ent T i e') (hpos : e.pos = e'.pos) : e = e' := by
  obtain ⟨l, hl, he⟩ := h
  obtain ⟨l', hl', he'⟩ := h'
  rw [hl] at hl'
  cases hl'
  have hp := distinct_within hd hl
  rw [List.pairwise_iff_getElem] at hp
  obtain ⟨a, ha, rfl⟩ := List.mem_iff_getElem.mp he
  obtain ⟨b, hb, rfl⟩ := List.mem_iff_getElem.mp he'
  rcases Nat.lt_trichotomy a b with hlt | heq | hgt
  · exact absurd hpos (hp a b ha hb hlt)
  · subst heq; rfl
  · exact absurd hpos.symm (hp b a hb ha hgt)

theorem nodup_eraseIdx_pos {cache : List TTLInfo} (hnd : (cache.map (·.pos)).Nodup) {k : Nat}
    (hk : k < cache.length) : ∀ c ∈ cache.eraseIdx k, c.pos ≠ cache[k].pos := by
  rw [List.nodup_iff_pairwise_ne, List.pairwise_map, List.pairwise_iff_getElem] at hnd
  intro c hc
  obtain ⟨i, hi, hne, rfl⟩ := List.mem_eraseIdx_iff_getElem.mp hc
  rcases Nat.lt_or_gt_of_ne hne with hlt | hgt
  · exact hnd i k hi hk hlt
  · exact fun h => hnd k i hk hi hgt h.symm

-- ---------------------------------------------------------------- schAppend

theorem schAppend_ok (sch : Sch) (h : Int) (p : U64) (l : List U64) (h0 : 0 ≤ h)
    (hl : sch[h.toNat]? = some l) :
    schAppend sch h p = .ok (sch.set h.toNat (sortU64 (l ++ [p]))) := by
  unfold schAppend
  have : ¬ h < 0 := by omega
  simp only [this, ↓reduceIte, hl]

/-- what `sch.set i (sort (l ++ [p]))` contains -/
theorem set_getElem?_cases (sch : Sch) (i : Nat) (x : List U64) (j : Nat) (l' : List U64)
    (h : (sch.set i x)[j]? = some l') : (j = i ∧ l' = x) ∨ (j ≠ i ∧ sch[j]? = some l') := by
  rw [List.getElem?_set] at h
  by_cases hij : i = j
  · subst hij
    simp only [↓reduceIte] at h
    split at h
    · left; exact ⟨rfl, (Option.some.inj h).symm⟩
    · cases h
  · simp only [hij, ↓reduceIte] at h
    right; exact ⟨fun h' => hij h'.symm, h⟩

-- ---------------------------------------------------------------- the invariant of the eviction loop

/-- cache entry `c` stands for the entry `e` of block `i` (`i < t`, or `i = t` and `e` is one of
the entries `pre` of block `t` already inserted); `createHeights` maps its position to `i`;
its ttl has been decremented once per block after `i` up to block `t` (`off = 1`: the
decrement of block `t` is still to come) -/
def CacheEnt (T : List (List TTLInfo)) (t : Nat) (pre : List TTLInfo) (ch : HeightMap) (off : Int)
    (c : TTLInfo) : Prop :=
  0 < c.ttl ∧ ∃ i e, ((i < t ∧ Ent T i e) ∨ (i = t ∧ e ∈ pre)) ∧ e.pos = c.pos ∧
    ch.get c.pos = (i : Int) ∧ c.ttl = e.ttl - ((t : Int) - i) + off

/-- invariant of `GenerateCachingSchedule`'s loops while block `t` is processed; the cache is
`kept ++ rest` where `rest` is the part the expiry loop has not visited yet; `sOff = 1` before
the expiry loop of block `t` has run (everything scheduled so far expired in a block `< t`) -/
structure Inv (T : List (List TTLInfo)) (m : Int) (t : Nat) (sOff : Int) (pre kept rest : List TTLInfo)
    (ch : HeightMap) (sch : Sch) : Prop where
  nodup : ((kept ++ rest).map (·.pos)).Nodup
  entK : ∀ c ∈ kept, CacheEnt T t pre ch 0 c
  entR : ∀ c ∈ rest, CacheEnt T t pre ch 1 c
  len : ((kept ++ rest).length : Int) ≤ m
  schLen : sch.length = T.length
  sorted : ∀ (h : Nat) (l : List U64), sch[h]? = some l → l.Pairwise (· ≤ ·)
  schNodup : ∀ (h : Nat) (l : List U64), sch[h]? = some l → l.Nodup
  schEnt : ∀ (h : Nat) (l : List U64) (p : U64), sch[h]? = some l → p ∈ l → ∃ e, Ent T h e ∧ e.pos = p ∧ (h : Int) + e.ttl + sOff ≤ t
  disj : ∀ (h : Nat) (l : List U64) (p : U64), sch[h]? = some l → p ∈ l → p ∉ (kept ++ rest).map (·.pos)

theorem CacheEnt.ch_congr {T t pre ch ch' off c} (h : CacheEnt T t pre ch off c)
    (hch : ch'.get c.pos = ch.get c.pos) : CacheEnt T t pre ch' off c := by
  obtain ⟨h0, i, e, h1, h2, h3, h4⟩ := h
  exact ⟨h0, i, e, h1, h2, hch.trans h3, h4⟩

/-- the expiry loop (`schExpire`) preserves the invariant, never panics, and moves exactly the
entries whose ttl reaches 0 into the list of their block -/
theorem expire_inv {T : List (List TTLInfo)} {m : Int} {t : Nat} :
    ∀ (rest kept : List TTLInfo) (ch : HeightMap) (sch : Sch), Inv T m t 0 [] kept rest ch sch →
    ∃ kept' ch' sch', schExpire rest kept ch sch = .ok (kept', ch', sch') ∧
      Inv T m t 0 [] kept' [] ch' sch' ∧
      (∀ c' ∈ kept', ∃ c ∈ kept ++ rest, c.pos = c'.pos) ∧
      (∀ (h : Nat) (l' : List U64) (p : U64), sch'[h]? = some l' → p ∈ l' → (∃ l, sch[h]? = some l ∧ p ∈ l) ∨
          (∃ c ∈ rest, c.pos = p ∧ c.ttl = 1 ∧ ch.get p = (h : Int))) ∧
      (∀ (h : Nat) (l : List U64) (p : U64), sch[h]? = some l → p ∈ l → ∃ l', sch'[h]? = some l' ∧ p ∈ l') ∧
      (∀ c ∈ kept, ∃ c' ∈ kept', c'.pos = c.pos) ∧
      (∀ c ∈ rest, c.ttl ≠ 1 → ∃ c' ∈ kept', c'.pos = c.pos) ∧
      (∀ c ∈ rest, c.ttl = 1 → ∃ l', sch'[(ch.get c.pos).toNat]? = some l' ∧ c.pos ∈ l') := by
  intro rest
  induction rest with
  | nil =>
    intro kept ch sch hinv
    refine ⟨kept, ch, sch, rfl, hinv, ?_, ?_, ?_, ?_, ?_, ?_⟩
    · intro c' hc'; exact ⟨c', by simpa using hc', rfl⟩
    · intro h l' p hl' hp; exact Or.inl ⟨l', hl', hp⟩
    · intro h l p hl hp; exact ⟨l, hl, hp⟩
    · intro c hc; exact ⟨c, hc, rfl⟩
    · intro c hc; cases hc
    · intro c hc; cases hc
  | cons c r ih =>
    intro kept ch sch hinv
    have hcR := hinv.entR c (by simp)
    obtain ⟨hc0, i, e, hie, hepos, hchget, hcttl⟩ := hcR
    have hie' : i < t ∧ Ent T i e := by
      rcases hie with h | h
      · exact h
      · exact absurd h.2 (by simp)
    have hnd := hinv.nodup
    -- position of c differs from all others
    have hcne : ∀ c' ∈ kept ++ r, c'.pos ≠ c.pos := by
      intro c' hc'
      have hperm : ((kept ++ c :: r).map (·.pos)).Perm (c.pos :: (kept ++ r).map (·.pos)) := by
        simp
      have := (hperm.nodup_iff.mp hnd)
      have hh := (List.nodup_cons.mp this).1
      intro heq
      exact hh (by rw [← heq]; exact List.mem_map_of_mem hc')
    unfold schExpire
    by_cases hexp : c.ttl - 1 = 0
    · -- the entry is spent in block t
      have hc1 : c.ttl = 1 := by omega
      have hilt : i < sch.length := by rw [hinv.schLen]; exact hie'.2.lt
      obtain ⟨l, hl⟩ : ∃ l, sch[i]? = some l := ⟨sch[i], List.getElem?_eq_getElem hilt⟩
      have htoNat : (ch.get c.pos).toNat = i := by rw [hchget]; simp
      have happ := schAppend_ok sch (ch.get c.pos) c.pos l (by rw [hchget]; omega) (by rw [htoNat]; exact hl)
      rw [htoNat] at happ
      -- invariant for the remaining loop
      have hinv' : Inv T m t 0 [] kept r (ch.delete c.pos) (sch.set i (sortU64 (l ++ [c.pos]))) := by
        refine ⟨?_, ?_, ?_, ?_, ?_, ?_, ?_, ?_, ?_⟩
        · have hsub : (kept ++ r).Sublist (kept ++ c :: r) :=
            List.Sublist.append_left (List.sublist_cons_self c r) kept
          exact List.Nodup.sublist (hsub.map _) hnd
        · intro c' hc'
          exact (hinv.entK c' hc').ch_congr (HeightMap.get_delete_ne _ _ _ (hcne c' (by simp [hc'])))
        · intro c' hc'
          exact (hinv.entR c' (by simp [hc'])).ch_congr (HeightMap.get_delete_ne _ _ _ (hcne c' (by simp [hc'])))
        · have := hinv.len
          simp only [List.length_append, List.length_cons] at this ⊢
          omega
        · rw [List.length_set]; exact hinv.schLen
        · intro h l' hl'
          rcases set_getElem?_cases _ _ _ _ _ hl' with ⟨_, rfl⟩ | ⟨_, hold⟩
          · exact sortU64_sorted _
          · exact hinv.sorted h l' hold
        · intro h l' hl'
          rcases set_getElem?_cases _ _ _ _ _ hl' with ⟨_, rfl⟩ | ⟨_, hold⟩
          · rw [(sortU64_perm _).nodup_iff, List.nodup_append]
            refine ⟨hinv.schNodup i l hl, by simp, ?_⟩
            intro a ha b hb
            simp only [List.mem_singleton] at hb
            intro hab
            rw [hb] at hab
            rw [hab] at ha
            exact hinv.disj i l c.pos hl ha (by simp)
          · exact hinv.schNodup h l' hold
        · intro h l' p hl' hp
          rcases set_getElem?_cases _ _ _ _ _ hl' with ⟨rfl, rfl⟩ | ⟨_, hold⟩
          · rw [mem_sortU64] at hp
            rcases List.mem_append.mp hp with hp | hp
            · exact hinv.schEnt h l p hl hp
            · simp only [List.mem_singleton] at hp
              subst hp
              exact ⟨e, hie'.2, hepos, by omega⟩
          · exact hinv.schEnt h l' p hold hp
        · intro h l' p hl' hp
          rcases set_getElem?_cases _ _ _ _ _ hl' with ⟨rfl, rfl⟩ | ⟨_, hold⟩
          · rw [mem_sortU64] at hp
            rcases List.mem_append.mp hp with hp | hp
            · intro hmem
              apply hinv.disj h l p hl hp
              obtain ⟨c', hc', rfl⟩ := List.mem_map.mp hmem
              exact List.mem_map_of_mem (by
                rcases List.mem_append.mp hc' with h1 | h1
                · exact List.mem_append.mpr (Or.inl h1)
                · exact List.mem_append.mpr (Or.inr (List.mem_cons_of_mem _ h1)))
            · simp only [List.mem_singleton] at hp
              subst hp
              intro hmem
              obtain ⟨c', hc', hpc⟩ := List.mem_map.mp hmem
              exact hcne c' hc' hpc
          · intro hmem
            apply hinv.disj h l' p hold hp
            obtain ⟨c', hc', rfl⟩ := List.mem_map.mp hmem
            exact List.mem_map_of_mem (by
              rcases List.mem_append.mp hc' with h1 | h1
              · exact List.mem_append.mpr (Or.inl h1)
              · exact List.mem_append.mpr (Or.inr (List.mem_cons_of_mem _ h1)))
      obtain ⟨kept', ch', sch', hrun, hI, r1, r2, r3, r4k, r4a, r4b⟩ := ih kept (ch.delete c.pos) _ hinv'
      refine ⟨kept', ch', sch', ?_, hI, ?_, ?_, ?_, r4k, ?_, ?_⟩
      · have hb : ((c.ttl - 1) == 0) = true := by simp [hexp]
        simp only [hb, ↓reduceIte, happ]
        exact hrun
      · intro c' hc'
        obtain ⟨c0, hc0', hpos⟩ := r1 c' hc'
        refine ⟨c0, ?_, hpos⟩
        rcases List.mem_append.mp hc0' with h1 | h1
        · exact List.mem_append.mpr (Or.inl h1)
        · exact List.mem_append.mpr (Or.inr (List.mem_cons_of_mem _ h1))
      · intro h l' p hl' hp
        rcases r2 h l' p hl' hp with ⟨l0, hl0, hp0⟩ | ⟨c0, hc0', hpos, httl, hget⟩
        · rcases set_getElem?_cases _ _ _ _ _ hl0 with ⟨rfl, rfl⟩ | ⟨_, hold⟩
          · rw [mem_sortU64] at hp0
            rcases List.mem_append.mp hp0 with hp0 | hp0
            · exact Or.inl ⟨l, hl, hp0⟩
            · simp only [List.mem_singleton] at hp0
              subst hp0
              exact Or.inr ⟨c, by simp, rfl, hc1, hchget⟩
          · exact Or.inl ⟨l0, hold, hp0⟩
        · right
          refine ⟨c0, List.mem_cons_of_mem _ hc0', hpos, httl, ?_⟩
          rw [← hget, ← hpos]
          exact (HeightMap.get_delete_ne _ _ _ (hcne c0 (by simp [hc0']))).symm
      · intro h l0 p hl0 hp0
        by_cases hhi : h = i
        · subst hhi
          rw [hl] at hl0
          cases hl0
          apply r3 h (sortU64 (l ++ [c.pos])) p (List.getElem?_set_self hilt)
          rw [mem_sortU64]
          exact List.mem_append.mpr (Or.inl hp0)
        · apply r3 h l0 p _ hp0
          rw [List.getElem?_set_ne (fun h' => hhi h'.symm)]
          exact hl0
      · intro c0 hc0' hne
        rcases List.mem_cons.mp hc0' with rfl | h1
        · exact absurd hc1 hne
        · exact r4a c0 h1 hne
      · intro c0 hc0' h1
        rcases List.mem_cons.mp hc0' with rfl | hin
        · rw [htoNat]
          apply r3 i (sortU64 (l ++ [c0.pos])) c0.pos (List.getElem?_set_self hilt)
          rw [mem_sortU64]; simp
        · have := r4b c0 hin h1
          rw [HeightMap.get_delete_ne _ _ _ (hcne c0 (by simp [hin]))] at this
          exact this
    · -- the entry stays
      have hinv' : Inv T m t 0 [] (kept ++ [({ c with ttl := c.ttl - 1 } : TTLInfo)]) r ch sch := by
        refine ⟨?_, ?_, ?_, ?_, hinv.schLen, hinv.sorted, hinv.schNodup, hinv.schEnt, ?_⟩
        · have : ((kept ++ [({ c with ttl := c.ttl - 1 } : TTLInfo)] ++ r).map (·.pos)) = ((kept ++ c :: r).map (·.pos)) := by
            simp
          rw [this]; exact hnd
        · intro c' hc'
          rcases List.mem_append.mp hc' with h1 | h1
          · exact hinv.entK c' h1
          · simp only [List.mem_singleton] at h1
            subst h1
            exact ⟨by simp only; omega, i, e, hie, hepos, hchget, by simp only; omega⟩
        · intro c' hc'
          exact hinv.entR c' (by simp [hc'])
        · have := hinv.len
          simp only [List.length_append, List.length_cons, List.length_nil] at this ⊢
          omega
        · intro h l' p hl' hp
          have := hinv.disj h l' p hl' hp
          simpa using this
      obtain ⟨kept', ch', sch', hrun, hI, r1, r2, r3, r4k, r4a, r4b⟩ := ih _ ch sch hinv'
      refine ⟨kept', ch', sch', ?_, hI, ?_, ?_, r3, ?_, ?_, ?_⟩
      · have hb : ((c.ttl - 1) == 0) = false := by simp [hexp]
        simp only [hb]
        exact hrun
      · intro c' hc'
        obtain ⟨c0, hc0', hpos⟩ := r1 c' hc'
        rcases List.mem_append.mp hc0' with h1 | h1
        · rcases List.mem_append.mp h1 with h2 | h2
          · exact ⟨c0, List.mem_append.mpr (Or.inl h2), hpos⟩
          · simp only [List.mem_singleton] at h2
            subst h2
            exact ⟨c, by simp, hpos⟩
        · exact ⟨c0, List.mem_append.mpr (Or.inr (List.mem_cons_of_mem _ h1)), hpos⟩
      · intro h l' p hl' hp
        rcases r2 h l' p hl' hp with h1 | ⟨c0, hc0', hpos, httl, hget⟩
        · exact Or.inl h1
        · exact Or.inr ⟨c0, List.mem_cons_of_mem _ hc0', hpos, httl, hget⟩
      · intro c0 hc0'
        exact r4k c0 (List.mem_append.mpr (Or.inl hc0'))
      · intro c0 hc0' hne
        rcases List.mem_cons.mp hc0' with rfl | h1
        · obtain ⟨c', hc', hp⟩ := r4k ({ c0 with ttl := c0.ttl - 1 } : TTLInfo) (by simp)
          exact ⟨c', hc', hp⟩
        · exact r4a c0 h1 hne
      · intro c0 hc0' h1
        rcases List.mem_cons.mp hc0' with rfl | hin
        · omega
        · exact r4b c0 hin h1

theorem CacheEnt.mono_pre {T t pre ch off c} (x : List TTLInfo) (h : CacheEnt T t pre ch off c) :
    CacheEnt T t (pre ++ x) ch off c := by
  obtain ⟨h0, i, e, h1, h2, h3, h4⟩ := h
  refine ⟨h0, i, e, ?_, h2, h3, h4⟩
  rcases h1 with h1 | h1
  · exact Or.inl h1
  · exact Or.inr ⟨h1.1, List.mem_append.mpr (Or.inl h1.2)⟩

/-- every position in the cache is the position of an entry of the tables -/
theorem CacheEnt.mem_flatten {T : List (List TTLInfo)} {t pre post ch off c}
    (hT : T[t]? = some (pre ++ post)) (h : CacheEnt T t pre ch off c) :
    c.pos ∈ T.flatten.map (·.pos) := by
  obtain ⟨_, i, e, h1, h2, _, _⟩ := h
  rw [← h2]
  apply List.mem_map_of_mem
  rcases h1 with h1 | h1
  · exact h1.2.mem_flatten
  · exact List.mem_flatten.mpr ⟨_, List.mem_of_getElem? hT, List.mem_append.mpr (Or.inl h1.2)⟩

/-- inserting one entry of block `t` (`schInsert`) preserves the invariant -/
theorem insert_inv {T : List (List TTLInfo)} {m : Int} {t : Nat} (hd : Distinct T) (hp : PosTTL T)
    (pre post : List TTLInfo) (e : TTLInfo) (hT : T[t]? = some (pre ++ e :: post))
    (cache : List TTLInfo) (ch : HeightMap) (sch : Sch) (hinv : Inv T m t 0 pre cache [] ch sch) :
    Inv T m t 0 (pre ++ [e]) (schInsert m t cache ch e).1 [] (schInsert m t cache ch e).2 sch ∧
    (∀ c' ∈ (schInsert m t cache ch e).1, c' ∈ cache ∨ c' = e) ∧
    ((T.flatten.length : Int) ≤ m → (schInsert m t cache ch e).1 = cache ++ [e]) := by
  have hEnt : Ent T t e := ⟨_, hT, by simp⟩
  have hfresh : ∀ c ∈ cache, c.pos ≠ e.pos := by
    intro c hc hpos
    obtain ⟨_, i, e', h1, h2, _, _⟩ := hinv.entK c hc
    rcases h1 with h1 | h1
    · have := distinct_block hd h1.2 hEnt (h2.trans hpos)
      omega
    · exact distinct_split hd hT e' h1.2 (h2.trans hpos)
  have hschfresh : ∀ (h : Nat) (l : List U64) (p : U64), sch[h]? = some l → p ∈ l → p ≠ e.pos := by
    intro h l p hl hpl hpos
    obtain ⟨e', he', h2, h3⟩ := hinv.schEnt h l p hl hpl
    have := distinct_block hd he' hEnt (h2.trans hpos)
    have := he'.pos hp
    omega
  have hnd : (cache.map (·.pos)).Nodup := by simpa using hinv.nodup
  have hepos : 0 < e.ttl := hEnt.pos hp
  have hlen : (cache.length : Int) ≤ m := by simpa using hinv.len
  -- the new entry, once inserted
  have entNew : ∀ ch' : HeightMap, ch'.get e.pos = (t : Int) → CacheEnt T t (pre ++ [e]) ch' 0 e := by
    intro ch' hget
    exact ⟨hepos, t, e, Or.inr ⟨rfl, by simp⟩, rfl, hget, by omega⟩
  -- when the tables fit into the limit the cache is never full
  have hfreeOf : (T.flatten.length : Int) ≤ m → (cache.length : Int) < m := by
    intro htot
    have hT' : T[t]? = some (pre ++ (e :: post)) := hT
    have hsub : ∀ x ∈ e.pos :: cache.map (·.pos), x ∈ T.flatten.map (·.pos) := by
      intro x hx
      rcases List.mem_cons.mp hx with rfl | hx
      · exact List.mem_map_of_mem hEnt.mem_flatten
      · obtain ⟨c, hc, rfl⟩ := List.mem_map.mp hx
        exact (hinv.entK c hc).mem_flatten hT'
    have hnd' : (e.pos :: cache.map (·.pos)).Nodup := by
      refine List.nodup_cons.mpr ⟨?_, hnd⟩
      intro hmem
      obtain ⟨c, hc, hpc⟩ := List.mem_map.mp hmem
      exact hfresh c hc hpc
    have := nodup_subset_length_le _ _ hnd' hsub
    simp only [List.length_cons, List.length_map] at this
    omega
  unfold schInsert
  by_cases hfree : (cache.length : Int) < m
  · simp only [hfree, ↓reduceIte]
    refine ⟨?_, ?_, fun _ => by first | rfl | trivial⟩
    · refine ⟨?_, ?_, ?_, ?_, hinv.schLen, hinv.sorted, hinv.schNodup, hinv.schEnt, ?_⟩
      · simp only [List.append_nil, List.map_append, List.map_cons, List.map_nil]
        rw [List.nodup_append]
        refine ⟨hnd, by simp, ?_⟩
        intro a ha b hb
        simp only [List.mem_singleton] at hb
        obtain ⟨c, hc, rfl⟩ := List.mem_map.mp ha
        rw [hb]
        exact hfresh c hc
      · intro c hc
        rcases List.mem_append.mp hc with h1 | h1
        · exact ((hinv.entK c h1).mono_pre [e]).ch_congr (HeightMap.get_put_ne _ _ _ _ (hfresh c h1))
        · simp only [List.mem_singleton] at h1
          subst h1
          exact entNew _ (HeightMap.get_put_same _ _ _)
      · intro c hc; cases hc
      · simp only [List.append_nil, List.length_append, List.length_cons, List.length_nil]
        omega
      · intro h l p hl hpl hmem
        simp only [List.append_nil, List.map_append, List.map_cons, List.map_nil, List.mem_append,
          List.mem_singleton] at hmem
        rcases hmem with hmem | hmem
        · exact hinv.disj h l p hl hpl (by simpa using hmem)
        · exact hschfresh h l p hl hpl hmem
    · intro c' hc'
      rcases List.mem_append.mp hc' with h1 | h1
      · exact Or.inl h1
      · exact Or.inr (by simpa using h1)
  · simp only [hfree, ↓reduceIte]
    refine ⟨?_, ?_, fun htot => absurd (hfreeOf htot) hfree⟩
    · cases hfind : cache.findIdx? (fun c => c.ttl > e.ttl) with
      | none =>
        simp only
        refine ⟨hinv.nodup, ?_, ?_, hinv.len, hinv.schLen, hinv.sorted, hinv.schNodup, hinv.schEnt, hinv.disj⟩
        · intro c hc; exact (hinv.entK c hc).mono_pre [e]
        · intro c hc; cases hc
      | some k =>
        simp only
        obtain ⟨hk, _, _⟩ := List.findIdx?_eq_some_iff_getElem.mp hfind
        have hvic : cache[k]?.getD default = cache[k] := by
          rw [List.getElem?_eq_getElem hk]; rfl
        rw [hvic]
        have hvne := nodup_eraseIdx_pos hnd hk
        have hsubl : (cache.eraseIdx k).Sublist cache := List.eraseIdx_sublist cache k
        refine ⟨?_, ?_, ?_, ?_, hinv.schLen, hinv.sorted, hinv.schNodup, hinv.schEnt, ?_⟩
        · simp only [List.append_nil, List.map_append, List.map_cons, List.map_nil]
          rw [List.nodup_append]
          refine ⟨List.Nodup.sublist (hsubl.map _) hnd, by simp, ?_⟩
          intro a ha b hb
          simp only [List.mem_singleton] at hb
          obtain ⟨c, hc, rfl⟩ := List.mem_map.mp ha
          rw [hb]
          exact hfresh c (hsubl.subset hc)
        · intro c hc
          rcases List.mem_append.mp hc with h1 | h1
          · have hcin := hsubl.subset h1
            refine ((hinv.entK c hcin).mono_pre [e]).ch_congr ?_
            rw [HeightMap.get_put_ne _ _ _ _ (hfresh c hcin)]
            exact HeightMap.get_delete_ne _ _ _ (hvne c h1)
          · simp only [List.mem_singleton] at h1
            subst h1
            exact entNew _ (HeightMap.get_put_same _ _ _)
        · intro c hc; cases hc
        · simp only [List.append_nil, List.length_append, List.length_cons, List.length_nil,
            List.length_eraseIdx, hk, ↓reduceIte]
          have : 0 < cache.length := by omega
          omega
        · intro h l p hl hpl hmem
          simp only [List.append_nil, List.map_append, List.map_cons, List.map_nil, List.mem_append,
            List.mem_singleton] at hmem
          rcases hmem with hmem | hmem
          · apply hinv.disj h l p hl hpl
            obtain ⟨c, hc, rfl⟩ := List.mem_map.mp hmem
            simpa using List.mem_map_of_mem (hsubl.subset hc)
          · exact hschfresh h l p hl hpl hmem
    · intro c' hc'
      cases hfind : cache.findIdx? (fun c => c.ttl > e.ttl) with
      | none =>
        rw [hfind] at hc'
        exact Or.inl hc'
      | some k =>
        rw [hfind] at hc'
        simp only at hc'
        rcases List.mem_append.mp hc' with h1 | h1
        · exact Or.inl (List.mem_of_mem_eraseIdx h1)
        · exact Or.inr (by simpa using h1)

/-- the insertion loop of block `t` -/
def insertAll (m : Int) (t : Nat) (post : List TTLInfo) (cache : List TTLInfo) (ch : HeightMap) :
    List TTLInfo × HeightMap :=
  post.foldl (fun (acc : List TTLInfo × HeightMap) ttl => schInsert m t acc.1 acc.2 ttl) (cache, ch)

theorem insertAll_inv {T : List (List TTLInfo)} {m : Int} {t : Nat} (hd : Distinct T) (hp : PosTTL T)
    (sch : Sch) : ∀ (post pre cache : List TTLInfo) (ch : HeightMap), T[t]? = some (pre ++ post) →
    Inv T m t 0 pre cache [] ch sch →
    Inv T m t 0 (pre ++ post) (insertAll m t post cache ch).1 [] (insertAll m t post cache ch).2 sch ∧
    (∀ c' ∈ (insertAll m t post cache ch).1, c' ∈ cache ∨ c' ∈ post) ∧
    ((T.flatten.length : Int) ≤ m → ∀ c, (c ∈ cache ∨ c ∈ post) → c ∈ (insertAll m t post cache ch).1) := by
  intro post
  induction post with
  | nil =>
    intro pre cache ch _ hinv
    simp only [insertAll, List.foldl_nil, List.append_nil]
    refine ⟨hinv, fun c' hc' => Or.inl hc', ?_⟩
    intro _ c hc
    rcases hc with hc | hc
    · exact hc
    · cases hc
  | cons e post ih =>
    intro pre cache ch hT hinv
    obtain ⟨hI, h1, h2⟩ := insert_inv hd hp pre post e hT cache ch sch hinv
    have hT' : T[t]? = some ((pre ++ [e]) ++ post) := by simpa using hT
    obtain ⟨hI', h1', h2'⟩ := ih (pre ++ [e]) _ _ hT' hI
    have hfold : insertAll m t (e :: post) cache ch =
        insertAll m t post (schInsert m t cache ch e).1 (schInsert m t cache ch e).2 := by
      simp [insertAll]
    rw [hfold]
    refine ⟨by simpa using hI', ?_, ?_⟩
    · intro c' hc'
      rcases h1' c' hc' with h | h
      · rcases h1 c' h with h | h
        · exact Or.inl h
        · exact Or.inr (by simp [h])
      · exact Or.inr (List.mem_cons_of_mem _ h)
    · intro htot c hc
      apply h2' htot
      rw [h2 htot]
      rcases hc with hc | hc
      · exact Or.inl (List.mem_append.mpr (Or.inl hc))
      · rcases List.mem_cons.mp hc with rfl | hc
        · exact Or.inl (by simp)
        · exact Or.inr hc

theorem Inv.weaken {T m t pre kept rest ch sch} (h : Inv T m t 1 pre kept rest ch sch) :
    Inv T m t 0 pre kept rest ch sch := by
  refine ⟨h.nodup, h.entK, h.entR, h.len, h.schLen, h.sorted, h.schNodup, ?_, h.disj⟩
  intro hh l p hl hpl
  obtain ⟨e, he, h2, h3⟩ := h.schEnt hh l p hl hpl
  exact ⟨e, he, h2, by omega⟩

/-- end of block `t`: the state is a block-start state for `t + 1` -/
theorem Inv.next {T : List (List TTLInfo)} {m t l cache ch sch} (hT : T[t]? = some l)
    (h : Inv T m t 0 l cache [] ch sch) : Inv T m (t + 1) 1 [] [] cache ch sch := by
  refine ⟨by simpa using h.nodup, ?_, ?_, by simpa using h.len, h.schLen, h.sorted, h.schNodup, ?_, ?_⟩
  · intro c hc; cases hc
  · intro c hc
    obtain ⟨h0, i, e, h1, h2, h3, h4⟩ := h.entK c hc
    refine ⟨h0, i, e, Or.inl ?_, h2, h3, by push_cast; omega⟩
    rcases h1 with h1 | h1
    · exact ⟨by omega, h1.2⟩
    · exact ⟨by omega, ⟨l, by rw [h1.1]; exact hT, h1.2⟩⟩
  · intro hh l' p hl hpl
    obtain ⟨e, he, h2, h3⟩ := h.schEnt hh l' p hl hpl
    exact ⟨e, he, h2, by push_cast; omega⟩
  · intro hh l' p hl hpl
    simpa using h.disj hh l' p hl hpl

/-- one block of `GenerateCachingSchedule` (`schBlock`): never panics, preserves the
invariant; what it schedules comes out of the cache with ttl 1, what it caches comes from the
old cache or the block's table -/
theorem block_inv {T : List (List TTLInfo)} {m : Int} {t : Nat} (hd : Distinct T) (hp : PosTTL T)
    {l : List TTLInfo} (hT : T[t]? = some l) (cache : List TTLInfo) (ch : HeightMap) (sch : Sch)
    (hinv : Inv T m t 1 [] [] cache ch sch) :
    ∃ cache' ch' sch', schBlock m t l (cache, ch, sch) = .ok (cache', ch', sch') ∧
      Inv T m (t + 1) 1 [] [] cache' ch' sch' ∧
      (∀ c' ∈ cache', (∃ c ∈ cache, c.pos = c'.pos) ∨ (∃ e ∈ l, e.pos = c'.pos)) ∧
      (∀ (h : Nat) (l' : List U64) (p : U64), sch'[h]? = some l' → p ∈ l' → (∃ l0, sch[h]? = some l0 ∧ p ∈ l0) ∨
          (∃ c ∈ cache, c.pos = p ∧ c.ttl = 1 ∧ ch.get p = (h : Int))) ∧
      (∀ (h : Nat) (l0 : List U64) (p : U64), sch[h]? = some l0 → p ∈ l0 → ∃ l', sch'[h]? = some l' ∧ p ∈ l') ∧
      (∀ c ∈ cache, c.ttl = 1 → ∃ l', sch'[(ch.get c.pos).toNat]? = some l' ∧ c.pos ∈ l') ∧
      ((T.flatten.length : Int) ≤ m →
        (∀ c ∈ cache, c.ttl ≠ 1 → ∃ c' ∈ cache', c'.pos = c.pos) ∧ (∀ e ∈ l, ∃ c' ∈ cache', c'.pos = e.pos)) := by
  have hinv0 : Inv T m t 0 [] [] cache ch sch := hinv.weaken
  obtain ⟨kept, ch1, sch1, hrun, hI, r1, r2, r3, _, r4a, r4b⟩ := expire_inv cache [] ch sch hinv0
  have hT' : T[t]? = some ([] ++ l) := by simpa using hT
  obtain ⟨hI2, i1, i2⟩ := insertAll_inv hd hp sch1 l [] kept ch1 hT' hI
  refine ⟨(insertAll m t l kept ch1).1, (insertAll m t l kept ch1).2, sch1, ?_, ?_, ?_, ?_, r3, ?_, ?_⟩
  · unfold schBlock
    simp only [hrun]
    rfl
  · exact Inv.next hT (by simpa using hI2)
  · intro c' hc'
    rcases i1 c' hc' with h | h
    · obtain ⟨c, hc, hpos⟩ := r1 c' h
      exact Or.inl ⟨c, by simpa using hc, hpos⟩
    · exact Or.inr ⟨c', h, rfl⟩
  · exact r2
  · exact r4b
  · intro htot
    constructor
    · intro c hc hne
      obtain ⟨c', hc', hpos⟩ := r4a c hc hne
      exact ⟨c', i2 htot c' (Or.inl hc'), hpos⟩
    · intro e he
      exact ⟨e, i2 htot e (Or.inr he), rfl⟩

/-- two cache entries for the same position in consecutive block-start states stand for the
same table entry -/
theorem cacheEnt_same {T : List (List TTLInfo)} (hd : Distinct T) {t t' : Nat} {ch ch' : HeightMap}
    {c c' : TTLInfo} (h : CacheEnt T t [] ch 1 c) (h' : CacheEnt T t' [] ch' 1 c') (hpos : c'.pos = c.pos) :
    ch'.get c'.pos = ch.get c.pos ∧ c'.ttl = c.ttl - ((t' : Int) - t) := by
  obtain ⟨_, i, e, h1, h2, h3, h4⟩ := h
  obtain ⟨_, i', e', h1', h2', h3', h4'⟩ := h'
  have hE : i < t ∧ Ent T i e := by
    rcases h1 with h1 | h1
    · exact h1
    · exact absurd h1.2 (by simp)
  have hE' : i' < t' ∧ Ent T i' e' := by
    rcases h1' with h1' | h1'
    · exact h1'
    · exact absurd h1'.2 (by simp)
  have hii : i' = i := distinct_block hd hE'.2 hE.2 (by rw [h2', h2, hpos])
  subst hii
  have hee : e' = e := distinct_entry hd hE'.2 hE.2 (by rw [h2', h2, hpos])
  subst hee
  exact ⟨by rw [h3', h3], by omega⟩

/-- the block loop (`schLoop`) over a stretch `rest` of the tables starting at block `i` -/
theorem loop_inv {T : List (List TTLInfo)} {m : Int} (hd : Distinct T) (hp : PosTTL T) :
    ∀ (rest : List (List TTLInfo)) (i : Nat) (cache : List TTLInfo) (ch : HeightMap) (sch : Sch),
    (∃ more, T.drop i = rest ++ more) → Inv T m i 1 [] [] cache ch sch →
    ∃ cache' ch' sch', schLoop m i rest (cache, ch, sch) = .ok (cache', ch', sch') ∧
      Inv T m (i + rest.length) 1 [] [] cache' ch' sch' ∧
      (∀ (h : Nat) (l' : List U64) (p : U64), sch'[h]? = some l' → p ∈ l' →
          (∃ l, sch[h]? = some l ∧ p ∈ l) ∨ (∃ c ∈ cache, c.pos = p) ∨ i ≤ h) ∧
      (∀ (h : Nat) (l : List U64) (p : U64), sch[h]? = some l → p ∈ l → ∃ l', sch'[h]? = some l' ∧ p ∈ l') ∧
      ((T.flatten.length : Int) ≤ m →
        (∀ c ∈ cache, (i : Int) + c.ttl - 1 < i + rest.length →
            ∃ l', sch'[(ch.get c.pos).toNat]? = some l' ∧ c.pos ∈ l') ∧
        (∀ (j : Nat) (e : TTLInfo), i ≤ j → Ent T j e → (j : Int) + e.ttl < i + rest.length →
            ∃ l', sch'[j]? = some l' ∧ e.pos ∈ l')) := by
  intro rest
  induction rest with
  | nil =>
    intro i cache ch sch _ hinv
    refine ⟨cache, ch, sch, rfl, by simpa using hinv, ?_, ?_, ?_⟩
    · intro h l' p hl' hp'; exact Or.inl ⟨l', hl', hp'⟩
    · intro h l p hl hp'; exact ⟨l, hl, hp'⟩
    · intro _
      constructor
      · intro c hc hlt
        obtain ⟨h0, _⟩ := hinv.entR c hc
        simp only [List.length_nil] at hlt
        omega
      · intro j e hij he hlt
        have := he.pos hp
        simp only [List.length_nil] at hlt
        omega
  | cons l rest ih =>
    intro i cache ch sch hdrop hinv
    obtain ⟨more, hmore⟩ := hdrop
    have hTi : T[i]? = some l := by
      have := List.getElem?_drop (xs := T) (i := i) (j := 0)
      rw [hmore] at this
      simpa using this.symm
    have hdrop' : ∃ more, T.drop (i + 1) = rest ++ more := by
      refine ⟨more, ?_⟩
      have : T.drop (i + 1) = (T.drop i).drop 1 := by rw [List.drop_drop]
      rw [this, hmore]; rfl
    obtain ⟨cache1, ch1, sch1, hrun1, hI1, b1, b2, b3, b4b, b4⟩ := block_inv hd hp hTi cache ch sch hinv
    obtain ⟨cache', ch', sch', hrun, hI, p1, p2, p3⟩ := ih (i + 1) cache1 ch1 sch1 hdrop' hI1
    have hlen : i + 1 + rest.length = i + (l :: rest).length := by simp; omega
    refine ⟨cache', ch', sch', ?_, by rw [← hlen]; exact hI, ?_, ?_, ?_⟩
    · unfold schLoop
      simp only [hrun1]
      exact hrun
    · intro h l' p hl' hpl
      rcases p1 h l' p hl' hpl with ⟨l1, hl1, hp1⟩ | ⟨c1, hc1, hpos1⟩ | hle
      · rcases b2 h l1 p hl1 hp1 with h0 | ⟨c, hc, hpos, _, _⟩
        · exact Or.inl h0
        · exact Or.inr (Or.inl ⟨c, hc, hpos⟩)
      · rcases b1 c1 hc1 with ⟨c, hc, hpos⟩ | ⟨e, he, hpos⟩
        · exact Or.inr (Or.inl ⟨c, hc, hpos.trans hpos1⟩)
        · right; right
          obtain ⟨e', he', hpe', _⟩ := hI.schEnt h l' p hl' hpl
          have hEi : Ent T i e := ⟨l, hTi, he⟩
          have := distinct_block hd he' hEi (by rw [hpe', hpos, hpos1])
          omega
      · right; right; omega
    · intro h l0 p hl0 hp0
      obtain ⟨l1, hl1, hp1⟩ := b3 h l0 p hl0 hp0
      exact p2 h l1 p hl1 hp1
    · intro htot
      obtain ⟨q1, q2⟩ := p3 htot
      obtain ⟨b4a, b4e⟩ := b4 htot
      constructor
      · intro c hc hlt
        by_cases h1 : c.ttl = 1
        · obtain ⟨l1, hl1, hp1⟩ := b4b c hc h1
          exact p2 _ l1 _ hl1 hp1
        · obtain ⟨c1, hc1, hpos1⟩ := b4a c hc h1
          have hsame := cacheEnt_same hd (hinv.entR c hc) (hI1.entR c1 hc1) hpos1
          have := q1 c1 hc1 (by
            rw [hsame.2]
            simp only [List.length_cons] at hlt
            push_cast at hlt ⊢
            omega)
          rw [hsame.1, hpos1] at this
          exact this
      · intro j e hij he hlt
        by_cases hji : j = i
        · subst hji
          have hel : e ∈ l := by
            obtain ⟨l2, hl2, he2⟩ := he
            rw [hTi] at hl2
            cases hl2
            exact he2
          obtain ⟨c1, hc1, hpos1⟩ := b4e e hel
          obtain ⟨_, j1, e1, hj1, hp1, hg1, ht1⟩ := hI1.entR c1 hc1
          have hE1 : j1 < j + 1 ∧ Ent T j1 e1 := by
            rcases hj1 with h | h
            · exact h
            · exact absurd h.2 (by simp)
          have hjj : j1 = j := distinct_block hd hE1.2 he (by rw [hp1, hpos1])
          subst hjj
          have hee : e1 = e := distinct_entry hd hE1.2 he (by rw [hp1, hpos1])
          subst hee
          have := q1 c1 hc1 (by
            rw [ht1]
            simp only [List.length_cons] at hlt
            push_cast at hlt ⊢
            omega)
          rw [hg1, hpos1] at this
          simpa using this
        · exact q2 j e (by omega) he (by
            simp only [List.length_cons] at hlt
            push_cast at hlt ⊢
            omega)

theorem schLoop_append (m : Int) : ∀ (a b : List (List TTLInfo)) (i : Nat)
    (st : List TTLInfo × HeightMap × List (List U64)),
    schLoop m i (a ++ b) st = (schLoop m i a st).bind (fun st' => schLoop m (i + a.length) b st') := by
  intro a
  induction a with
  | nil => intro b i st; simp [schLoop, Out.bind]
  | cons l a ih =>
    intro b i st
    simp only [List.cons_append, schLoop, List.length_cons]
    cases hb : schBlock m i l st with
    | ok st1 =>
      simp only [bind, Out.bind]
      rw [ih b (i + 1) st1]
      have : i + 1 + a.length = i + (a.length + 1) := by omega
      rw [this]
      rfl
    | err => rfl
    | panic => rfl
    | hang => rfl

-- ---------------------------------------------------------------- consequences for `scheduleOfTTLs`

theorem inv_init (T : List (List TTLInfo)) {m : Int} (hm : 0 ≤ m) :
    Inv T m 0 1 [] [] [] [] (List.replicate T.length []) := by
  have hnil : ∀ (h : Nat) (l : List U64), (List.replicate T.length ([] : List U64))[h]? = some l → l = [] := by
    intro h l hl
    rw [List.getElem?_replicate] at hl
    split at hl
    · exact (Option.some.inj hl).symm
    · cases hl
  refine ⟨by simp, ?_, ?_, by simpa using hm, by simp, ?_, ?_, ?_, ?_⟩
  · intro c hc; cases hc
  · intro c hc; cases hc
  · intro h l hl; rw [hnil h l hl]; exact List.Pairwise.nil
  · intro h l hl; rw [hnil h l hl]; exact List.nodup_nil
  · intro h l p hl hp; rw [hnil h l hl] at hp; cases hp
  · intro h l p hl hp; rw [hnil h l hl] at hp; cases hp

theorem scheduleOfTTLs_eq (T : List (List TTLInfo)) (m : Int) (hm : 0 ≤ m) :
    scheduleOfTTLs T T.length m =
      (schLoop m 0 T ([], [], List.replicate T.length [])).bind (fun st => .ok st.2.2) := by
  unfold scheduleOfTTLs
  have : ¬ m < 0 := by omega
  simp only [this, ↓reduceIte]
  rfl

/-- Everything the invariant gives about the final schedule. -/
theorem schedule_main {T : List (List TTLInfo)} {m : Int} (hd : Distinct T) (hp : PosTTL T) (hm : 0 ≤ m) :
    ∃ sch, scheduleOfTTLs T T.length m = .ok sch ∧ sch.length = T.length ∧
      (∀ (h : Nat) (l : List U64), sch[h]? = some l → l.Pairwise (· ≤ ·) ∧ l.Nodup) ∧
      (∀ (h : Nat) (l : List U64) (p : U64), sch[h]? = some l → p ∈ l →
          ∃ e, Ent T h e ∧ e.pos = p ∧ (h : Int) + e.ttl < T.length) ∧
      ((T.flatten.length : Int) ≤ m → ∀ (j : Nat) (e : TTLInfo), Ent T j e → (j : Int) + e.ttl < T.length →
          ∃ l, sch[j]? = some l ∧ e.pos ∈ l) := by
  obtain ⟨cache', ch', sch', hrun, hI, _, _, p3⟩ :=
    loop_inv hd hp T 0 [] [] (List.replicate T.length []) ⟨[], by simp⟩ (inv_init T hm)
  refine ⟨sch', ?_, hI.schLen, ?_, ?_, ?_⟩
  · rw [scheduleOfTTLs_eq T m hm, hrun]; rfl
  · intro h l hl; exact ⟨hI.sorted h l hl, hI.schNodup h l hl⟩
  · intro h l p hl hpl
    obtain ⟨e, he, h2, h3⟩ := hI.schEnt h l p hl hpl
    refine ⟨e, he, h2, ?_⟩
    simp only [Nat.zero_add] at h3
    omega
  · intro htot j e he hlt
    exact (p3 htot).2 j e (Nat.zero_le _) he (by simpa using hlt)

/-- the scheduled entries that exist once block `τ` has been applied: entry `e` of block `i`
whose position is in the list of block `i`, with `i ≤ τ < i + e.ttl` -/
def aliveScheduled (T : List (List TTLInfo)) (sch : Sch) (τ : Nat) : List TTLInfo :=
  T.zipIdx.flatMap fun li => li.1.filter fun e =>
    (sch[li.2]?.getD []).contains e.pos && decide (li.2 ≤ τ) && decide ((τ : Int) < li.2 + e.ttl)

theorem flatMap_filter_sublist (q : Nat → TTLInfo → Bool) : ∀ (T : List (List TTLInfo)) (k : Nat),
    ((T.zipIdx k).flatMap fun li => li.1.filter (q li.2)).Sublist T.flatten := by
  intro T
  induction T with
  | nil => intro k; simp
  | cons l T ih =>
    intro k
    simp only [List.zipIdx_cons, List.flatMap_cons, List.flatten_cons]
    exact List.Sublist.append List.filter_sublist (ih (k + 1))

theorem mem_aliveScheduled {T : List (List TTLInfo)} {sch : Sch} {τ : Nat} {e : TTLInfo}
    (h : e ∈ aliveScheduled T sch τ) :
    ∃ i l, Ent T i e ∧ sch[i]? = some l ∧ e.pos ∈ l ∧ i ≤ τ ∧ (τ : Int) < i + e.ttl := by
  unfold aliveScheduled at h
  obtain ⟨li, hli, he⟩ := List.mem_flatMap.mp h
  have hget := List.mem_zipIdx_iff_getElem?.mp hli
  obtain ⟨hel, hq⟩ := List.mem_filter.mp he
  simp only [Bool.and_eq_true, decide_eq_true_eq] at hq
  obtain ⟨⟨hc, h1⟩, h2⟩ := hq
  cases hs : sch[li.2]? with
  | none =>
    rw [hs] at hc
    simp at hc
  | some l =>
    rw [hs] at hc
    simp only [Option.getD_some, List.contains_eq_mem, decide_eq_true_eq] at hc
    exact ⟨li.2, l, ⟨li.1, hget, hel⟩, hs, hc, h1, h2⟩

/-- **Memory bound.**  At no block do more than `m` scheduled entries exist. -/
theorem memory_bound {T : List (List TTLInfo)} {m : Int} (hd : Distinct T) (hp : PosTTL T) (hm : 0 ≤ m)
    {sch : Sch} (hrun : scheduleOfTTLs T T.length m = .ok sch) (τ : Nat) :
    ((aliveScheduled T sch τ).length : Int) ≤ m := by
  by_cases hτ : τ + 1 ≤ T.length
  · -- split the run after block τ
    have hsplit : T = T.take (τ + 1) ++ T.drop (τ + 1) := (List.take_append_drop _ _).symm
    have hlenTake : (T.take (τ + 1)).length = τ + 1 := by rw [List.length_take]; omega
    obtain ⟨c1, ch1, s1, hrun1, hI1, _, _, _⟩ :=
      loop_inv hd hp (T.take (τ + 1)) 0 [] [] (List.replicate T.length [])
        ⟨T.drop (τ + 1), by simp⟩ (inv_init T hm)
    rw [hlenTake, Nat.zero_add] at hI1
    obtain ⟨c2, ch2, s2, hrun2, hI2, q1, _, _⟩ :=
      loop_inv hd hp (T.drop (τ + 1)) (τ + 1) c1 ch1 s1 ⟨[], by simp⟩ hI1
    have hfinal : sch = s2 := by
      rw [scheduleOfTTLs_eq T m hm] at hrun
      have h0 : schLoop m 0 T ([], [], List.replicate T.length []) = .ok (c2, ch2, s2) := by
        have happ := schLoop_append m (T.take (τ + 1)) (T.drop (τ + 1)) 0 ([], [], List.replicate T.length [])
        rw [List.take_append_drop, hrun1] at happ
        rw [happ]
        simp only [Out.bind, hlenTake, Nat.zero_add]
        exact hrun2
      rw [h0] at hrun
      simp only [Out.bind] at hrun
      exact (Out.ok.inj hrun).symm
    subst hfinal
    -- every alive scheduled entry sits in the cache after block τ
    have hsub : ∀ x ∈ (aliveScheduled T sch τ).map (·.pos), x ∈ c1.map (·.pos) := by
      intro x hx
      obtain ⟨e, he, rfl⟩ := List.mem_map.mp hx
      obtain ⟨i, l, hEnt, hl, hpl, hle, hlt⟩ := mem_aliveScheduled he
      rcases q1 i l e.pos hl hpl with ⟨l0, hl0, hp0⟩ | ⟨c, hc, hpos⟩ | hge
      · obtain ⟨e', he', hpe', hbound⟩ := hI1.schEnt i l0 e.pos hl0 hp0
        have : e' = e := distinct_entry hd he' hEnt hpe'
        subst this
        push_cast at hbound
        omega
      · rw [← hpos]; exact List.mem_map_of_mem hc
      · omega
    have hnd : ((aliveScheduled T sch τ).map (·.pos)).Nodup := by
      have hsl : (aliveScheduled T sch τ).Sublist T.flatten :=
        flatMap_filter_sublist (fun i e => (sch[i]?.getD []).contains e.pos && decide (i ≤ τ) &&
          decide ((τ : Int) < i + e.ttl)) T 0
      exact List.Nodup.sublist (hsl.map _) hd
    have hle := nodup_subset_length_le _ _ hnd hsub
    have hc1 : (c1.length : Int) ≤ m := by simpa using hI1.len
    simp only [List.length_map] at hle
    omega
  · -- after the last recorded block nothing scheduled is alive
    have hempty : aliveScheduled T sch τ = [] := by
      apply List.eq_nil_iff_forall_not_mem.mpr
      intro e he
      obtain ⟨i, l, hEnt, hl, hpl, hle, hlt⟩ := mem_aliveScheduled he
      obtain ⟨sch', hrun', _, _, hent, _⟩ := schedule_main hd hp hm (T := T) (m := m)
      rw [hrun] at hrun'
      cases hrun'
      obtain ⟨e', he', hpe', hbound⟩ := hent i l e.pos hl hpl
      have : e' = e := distinct_entry hd he' hEnt hpe'
      subst this
      omega
    rw [hempty]
    simpa using hm

-- ---------------------------------------------------------------- ordering without hypotheses

/-- every list of the schedule is in ascending order -/
def AllSorted (sch : Sch) : Prop := ∀ (h : Nat) (l : List U64), sch[h]? = some l → l.Pairwise (· ≤ ·)

theorem schAppend_sorted {sch sch' : Sch} {h : Int} {p : U64} (hs : AllSorted sch)
    (hrun : schAppend sch h p = .ok sch') : AllSorted sch' := by
  unfold schAppend at hrun
  split at hrun
  · cases hrun
  · split at hrun
    · cases hrun
      intro j l' hl'
      rcases set_getElem?_cases _ _ _ _ _ hl' with ⟨_, rfl⟩ | ⟨_, hold⟩
      · exact sortU64_sorted _
      · exact hs j l' hold
    · cases hrun

theorem schExpire_sorted : ∀ (rest kept : List TTLInfo) (ch : HeightMap) (sch : Sch) {r},
    AllSorted sch → schExpire rest kept ch sch = .ok r → AllSorted r.2.2 := by
  intro rest
  induction rest with
  | nil => intro kept ch sch r hs hrun; cases hrun; exact hs
  | cons c rest ih =>
    intro kept ch sch r hs hrun
    unfold schExpire at hrun
    by_cases hexp : c.ttl - 1 = 0
    · have hb : ((c.ttl - 1) == 0) = true := by simp [hexp]
      simp only [hb, ↓reduceIte] at hrun
      cases happ : schAppend sch (ch.get c.pos) c.pos with
      | ok sch1 =>
        rw [happ] at hrun
        exact ih _ _ _ (schAppend_sorted hs happ) hrun
      | err => rw [happ] at hrun; cases hrun
      | panic => rw [happ] at hrun; cases hrun
      | hang => rw [happ] at hrun; cases hrun
    · have hb : ((c.ttl - 1) == 0) = false := by simp [hexp]
      simp only [hb] at hrun
      exact ih _ _ _ hs hrun

theorem schBlock_sorted {m : Int} {i : Nat} {l : List TTLInfo} {st r : List TTLInfo × HeightMap × Sch}
    (hs : AllSorted st.2.2) (hrun : schBlock m i l st = .ok r) : AllSorted r.2.2 := by
  unfold schBlock at hrun
  cases hexp : schExpire st.1 [] st.2.1 st.2.2 with
  | ok r1 =>
    rw [hexp] at hrun
    have := schExpire_sorted _ _ _ _ hs hexp
    cases hrun
    exact this
  | err => rw [hexp] at hrun; cases hrun
  | panic => rw [hexp] at hrun; cases hrun
  | hang => rw [hexp] at hrun; cases hrun

theorem schLoop_sorted {m : Int} : ∀ (rest : List (List TTLInfo)) (i : Nat)
    (st r : List TTLInfo × HeightMap × Sch), AllSorted st.2.2 → schLoop m i rest st = .ok r → AllSorted r.2.2 := by
  intro rest
  induction rest with
  | nil => intro i st r hs hrun; cases hrun; exact hs
  | cons l rest ih =>
    intro i st r hs hrun
    unfold schLoop at hrun
    cases hb : schBlock m i l st with
    | ok st1 =>
      rw [hb] at hrun
      exact ih (i + 1) st1 r (schBlock_sorted hs hb) hrun
    | err => rw [hb] at hrun; cases hrun
    | panic => rw [hb] at hrun; cases hrun
    | hang => rw [hb] at hrun; cases hrun

/-- **Ordering, no hypotheses.**  Whatever the ttl tables, the number of blocks and the limit:
every list of a returned schedule is in ascending order. -/
theorem scheduleOfTTLs_sorted {T : List (List TTLInfo)} {n : Nat} {m : Int} {sch : Sch}
    (hrun : scheduleOfTTLs T n m = .ok sch) : AllSorted sch := by
  unfold scheduleOfTTLs at hrun
  split at hrun
  · cases hrun
  · cases hl : schLoop m 0 T ([], [], List.replicate n []) with
    | ok st =>
      rw [hl] at hrun
      cases hrun
      apply schLoop_sorted T 0 _ st _ hl
      intro h l hl'
      rw [List.getElem?_replicate] at hl'
      split at hl'
      · cases hl'; exact List.Pairwise.nil
      · cases hl'
    | err => rw [hl] at hrun; cases hrun
    | panic => rw [hl] at hrun; cases hrun
    | hang => rw [hl] at hrun; cases hrun

-- ---------------------------------------------------------------- genTTLs: ttls are positive

theorem idxInt_mem {α} {l : List α} {i : Int} {a : α} (h : idxInt l i = .ok a) : a ∈ l := by
  unfold idxInt at h
  split at h
  · cases h
  · unfold Out.idx at h
    split at h
    · rename_i hget
      cases h
      exact List.mem_of_getElem? hget
    · cases h

theorem deleteAt_mem {α} {l l' : List α} {i : Int} (h : deleteAt l i = .ok l') : ∀ a ∈ l', a ∈ l := by
  unfold deleteAt at h
  split at h
  · cases h
  · split at h
    · cases h
      intro a ha
      exact List.mem_of_mem_eraseIdx ha
    · cases h

theorem genSetTTLs_spec (i : Nat) (cached : List U64) (xy : List (Int × Int)) :
    ∀ (idxs : List Int) (acc r : List TTLInfo), genSetTTLs i cached xy idxs acc = .ok r →
    ∀ e ∈ r, e ∈ acc ∨ ∃ cords ∈ xy, e.ttl = cords.1 - (i : Int) := by
  intro idxs
  induction idxs with
  | nil => intro acc r h e he; cases h; exact Or.inl he
  | cons idx rest ih =>
    intro acc r h e he
    unfold genSetTTLs at h
    cases hc : idxInt xy idx with
    | ok cords =>
      rw [hc] at h
      cases hp : idxInt cached idx with
      | ok pos =>
        rw [hp] at h
        simp only [bind, Out.bind] at h
        rcases ih _ r h e he with h1 | h1
        · rcases List.mem_append.mp h1 with h2 | h2
          · exact Or.inl h2
          · simp only [List.mem_singleton] at h2
            subst h2
            exact Or.inr ⟨cords, idxInt_mem hc, rfl⟩
        · exact Or.inr h1
      | err => rw [hp] at h; cases h
      | panic => rw [hp] at h; cases h
      | hang => rw [hp] at h; cases h
    | err => rw [hc] at h; cases h
    | panic => rw [hc] at h; cases h
    | hang => rw [hc] at h; cases h

theorem genRemoveCreated_mem : ∀ (idxs : List Int) (k : Int) (cached : List U64) (xy : List (Int × Int))
    {c' : List U64} {xy' : List (Int × Int)}, genRemoveCreated idxs k cached xy = .ok (c', xy') →
    ∀ x ∈ xy', x ∈ xy := by
  intro idxs
  induction idxs with
  | nil => intro k cached xy c' xy' h x hx; cases h; exact hx
  | cons idx rest ih =>
    intro k cached xy c' xy' h x hx
    unfold genRemoveCreated at h
    dsimp only at h
    cases h1 : deleteAt cached (idx - k) with
    | ok c1 =>
      rw [h1] at h
      cases h2 : deleteAt xy (idx - k) with
      | ok xy1 =>
        rw [h2] at h
        simp only [bind, Out.bind] at h
        exact deleteAt_mem h2 x (ih _ _ _ h x hx)
      | err => rw [h2] at h; cases h
      | panic => rw [h2] at h; cases h
      | hang => rw [h2] at h; cases h
    | err => rw [h1] at h; cases h
    | panic => rw [h1] at h; cases h
    | hang => rw [h1] at h; cases h

/-- one backwards step of `genTTLs` (any `getPrevPos`): every ttl it records is the distance
to a later block, and the bookkeeping `xy` keeps pointing at later-or-equal blocks -/
theorem genTTLsStep_spec (gpp : PrevPosFn) (cs : Tracker) (i : Nat) (cached : List U64)
    (xy : List (Int × Int)) (N : Int) (hi : (i : Int) < N)
    (hxy : ∀ x ∈ xy, (i : Int) + 1 ≤ x.1 ∧ x.1 < N)
    {ttls : List TTLInfo} {cached' : List U64} {xy' : List (Int × Int)}
    (h : genTTLsStepWith gpp cs i cached xy = .ok (ttls, cached', xy')) :
    (∀ e ∈ ttls, 0 < e.ttl ∧ (i : Int) + e.ttl < N) ∧ (∀ x ∈ xy', (i : Int) ≤ x.1 ∧ x.1 < N) := by
  unfold genTTLsStepWith at h
  cases h1 : Out.idx cs.deletions i with
  | ok deletions =>
    cases h2 : Out.idx cs.numAdds i with
    | ok numAdds =>
      cases h3 : Out.idx cs.numLeaves i with
      | ok numLeaves =>
        cases h4 : Out.idx cs.toDestroy i with
        | ok toDestroy =>
          simp only [h1, h2, h3, h4, bind, Out.bind] at h
          generalize hg : gpp CSTTotalRows cached deletions toDestroy numAdds numLeaves = g at h
          obtain ⟨cached1, createdIdxs⟩ := g
          simp only at h
          cases h5 : genSetTTLs i cached1 xy createdIdxs.reverse [] with
          | ok tt =>
            rw [h5] at h
            simp only at h
            cases h6 : genRemoveCreated (sortInt createdIdxs) 0 cached1 xy with
            | ok r6 =>
              obtain ⟨cached2, xy2⟩ := r6
              rw [h6] at h
              simp only [pure] at h
              cases h
              constructor
              · intro e he
                rcases genSetTTLs_spec i cached1 xy _ _ _ h5 e he with h7 | ⟨cords, hc, htt⟩
                · cases h7
                · have := hxy cords hc
                  omega
              · intro x hx
                rcases List.mem_append.mp hx with hx | hx
                · have := hxy x (genRemoveCreated_mem _ _ _ _ h6 x hx)
                  omega
                · obtain ⟨j, _, rfl⟩ := List.mem_map.mp hx
                  simp only
                  omega
            | err => rw [h6] at h; cases h
            | panic => rw [h6] at h; cases h
            | hang => rw [h6] at h; cases h
          | err => rw [h5] at h; cases h
          | panic => rw [h5] at h; cases h
          | hang => rw [h5] at h; cases h
        | err => simp only [h1, h2, h3, h4, bind, Out.bind] at h; cases h
        | panic => simp only [h1, h2, h3, h4, bind, Out.bind] at h; cases h
        | hang => simp only [h1, h2, h3, h4, bind, Out.bind] at h; cases h
      | err => simp only [h1, h2, h3, bind, Out.bind] at h; cases h
      | panic => simp only [h1, h2, h3, bind, Out.bind] at h; cases h
      | hang => simp only [h1, h2, h3, bind, Out.bind] at h; cases h
    | err => simp only [h1, h2, bind, Out.bind] at h; cases h
    | panic => simp only [h1, h2, bind, Out.bind] at h; cases h
    | hang => simp only [h1, h2, bind, Out.bind] at h; cases h
  | err => simp only [h1, bind, Out.bind] at h; cases h
  | panic => simp only [h1, bind, Out.bind] at h; cases h
  | hang => simp only [h1, bind, Out.bind] at h; cases h

/-- the ttl tables: entry `e` of table `j` has `0 < e.ttl` and `j + e.ttl < N` -/
def TTLsBounded (N : Int) (k : Nat) (tables : List (List TTLInfo)) : Prop :=
  ∀ (j : Nat) (l : List TTLInfo), tables[j]? = some l → ∀ e ∈ l, 0 < e.ttl ∧ ((k + j : Nat) : Int) + e.ttl < N

theorem genTTLsLoop_spec (gpp : PrevPosFn) (cs : Tracker) (N : Int) :
    ∀ (k : Nat) (cached : List U64) (xy : List (Int × Int)) (acc r : List (List TTLInfo)),
    (k : Int) ≤ N → (∀ x ∈ xy, (k : Int) ≤ x.1 ∧ x.1 < N) → TTLsBounded N k acc →
    genTTLsLoopWith gpp cs k cached xy acc = .ok r → TTLsBounded N 0 r := by
  intro k
  induction k with
  | zero =>
    intro cached xy acc r _ _ hacc h
    cases h
    exact hacc
  | succ i ih =>
    intro cached xy acc r hk hxy hacc h
    unfold genTTLsLoopWith at h
    cases hs : genTTLsStepWith gpp cs i cached xy with
    | ok st =>
      obtain ⟨ttls, cached', xy'⟩ := st
      rw [hs] at h
      simp only [bind, Out.bind] at h
      have hspec := genTTLsStep_spec gpp cs i cached xy N (by omega)
        (fun x hx => by have := hxy x hx; push_cast at this; omega) hs
      apply ih cached' xy' (ttls :: acc) r (by omega) hspec.2 ?_ h
      intro j l hl e he
      cases j with
      | zero =>
        simp only [List.getElem?_cons_zero, Option.some.injEq] at hl
        subst hl
        have := hspec.1 e he
        simp only [Nat.add_zero]
        omega
      | succ j =>
        simp only [List.getElem?_cons_succ] at hl
        have := hacc j l hl e he
        have h2 : i + (j + 1) = i + 1 + j := by omega
        rw [h2]
        exact this
    | err => rw [hs] at h; cases h
    | panic => rw [hs] at h; cases h
    | hang => rw [hs] at h; cases h

/-- **`genTTLs` only records positive ttls that end inside the recorded blocks** (for the
unchanged `getPrevPos`, the repaired one, or any other position-reverting function). -/
theorem genTTLs_posTTL (gpp : PrevPosFn) (cs cs' : Tracker) (h : cs.genTTLsWith gpp = .ok cs') :
    PosTTL cs'.ttls ∧
    ∀ (j : Nat) (l : List TTLInfo), cs'.ttls[j]? = some l → ∀ e ∈ l, (j : Int) + e.ttl < cs.deletions.length := by
  unfold Tracker.genTTLsWith at h
  cases hl : genTTLsLoopWith gpp cs cs.deletions.length [] [] [] with
  | ok tables =>
    rw [hl] at h
    simp only [bind, Out.bind, pure] at h
    cases h
    have hb := genTTLsLoop_spec gpp cs (cs.deletions.length : Int) cs.deletions.length [] [] [] tables
      (Int.le_refl _) (by intro x hx; cases hx) (by intro j l hl; simp at hl) hl
    simp only
    have key : ∀ (j : Nat) (l : List TTLInfo),
        (tables ++ List.replicate (cs.numAdds.length - cs.deletions.length) [])[j]? = some l →
        ∀ e ∈ l, 0 < e.ttl ∧ (j : Int) + e.ttl < cs.deletions.length := by
      intro j l hjl e he
      rw [List.getElem?_append] at hjl
      split at hjl
      · have := hb j l hjl e he
        simpa using this
      · rw [List.getElem?_replicate] at hjl
        split at hjl
        · cases hjl; cases he
        · cases hjl
    constructor
    · intro l hlmem e he
      obtain ⟨j, hj⟩ := List.mem_iff_getElem?.mp hlmem
      exact (key j l hj e he).1
    · intro j l hjl e he
      exact (key j l hjl e he).2
  | err => rw [hl] at h; cases h
  | panic => rw [hl] at h; cases h
  | hang => rw [hl] at h; cases h

-- ---------------------------------------------------------------- trackers built by AddBlockSummary

/-- all per-block slices of the tracker have length `n` -/
def TrackerLen (cs : Tracker) (n : Nat) : Prop :=
  cs.deletions.length = n ∧ cs.numAdds.length = n ∧ cs.numLeaves.length = n ∧
    cs.toDestroy.length = n ∧ cs.roots.length = n

theorem addBlockSummary_len {cs cs' : Tracker} {n : Nat} {d : List U64} {a : U16}
    (hw : TrackerLen cs n) (h : cs.addBlockSummary d a = .ok cs') : TrackerLen cs' (n + 1) := by
  obtain ⟨h1, h2, h3, h4, h5⟩ := hw
  unfold Tracker.addBlockSummary at h
  split at h
  · cases ha : addRootInfo CSTTotalRows [] a 0#64 with
    | ok r =>
      rw [ha] at h
      simp only [bind, Out.bind, pure] at h
      cases h
      simp only [TrackerLen, List.length_append, List.length_cons, List.length_nil]
      omega
    | err => rw [ha] at h; cases h
    | panic => rw [ha] at h; cases h
    | hang => rw [ha] at h; cases h
  · cases hn : cs.numLeaves.getLast? with
    | none => simp only [hn, bind, Out.bind] at h; cases h
    | some numLeaves =>
      cases hr : cs.roots.getLast? with
      | none => simp only [hn, hr, bind, Out.bind] at h; cases h
      | some roots =>
        simp only [hn, hr, bind, Out.bind] at h
        split at h
        · rename_i td htd
          split at h
          · rename_i r har
            simp only [pure] at h
            cases h
            simp only [TrackerLen, List.length_append, List.length_cons, List.length_nil]
            omega
          · cases h
          · cases h
          · cases h
        · cases h
        · cases h
        · cases h

theorem foldlM_addBlockSummary_len : ∀ (blocks : List (List U64 × U16)) (cs tr : Tracker) (n : Nat),
    TrackerLen cs n → blocks.foldlM (fun cs b => cs.addBlockSummary b.1 b.2) cs = .ok tr →
    TrackerLen tr (n + blocks.length) := by
  intro blocks
  induction blocks with
  | nil => intro cs tr n hw h; simp only [List.foldlM_nil, pure] at h; cases h; simpa using hw
  | cons b rest ih =>
    intro cs tr n hw h
    simp only [List.foldlM_cons, bind, Out.bind] at h
    split at h
    · rename_i cs1 h1
      have := ih cs1 tr (n + 1) (addBlockSummary_len hw h1) h
      simp only [List.length_cons]
      have h2 : n + (rest.length + 1) = n + 1 + rest.length := by omega
      rw [h2]; exact this
    · cases h
    · cases h
    · cases h

theorem ofBlocks_len {blocks : List (List U64 × U16)} {tr : Tracker} (h : Tracker.ofBlocks blocks = .ok tr) :
    TrackerLen tr blocks.length := by
  have := foldlM_addBlockSummary_len blocks Tracker.new tr 0 (by simp [TrackerLen, Tracker.new]) h
  simpa using this

theorem genTTLsLoop_length (gpp : PrevPosFn) (cs : Tracker) :
    ∀ (k : Nat) (cached : List U64) (xy : List (Int × Int)) (acc r : List (List TTLInfo)),
    genTTLsLoopWith gpp cs k cached xy acc = .ok r → r.length = k + acc.length := by
  intro k
  induction k with
  | zero => intro cached xy acc r h; cases h; simp
  | succ i ih =>
    intro cached xy acc r h
    unfold genTTLsLoopWith at h
    cases hs : genTTLsStepWith gpp cs i cached xy with
    | ok st =>
      obtain ⟨ttls, cached', xy'⟩ := st
      rw [hs] at h
      simp only [bind, Out.bind] at h
      have := ih cached' xy' (ttls :: acc) r h
      simp only [List.length_cons] at this
      omega
    | err => rw [hs] at h; cases h
    | panic => rw [hs] at h; cases h
    | hang => rw [hs] at h; cases h

/-- `genTTLs` changes nothing but the ttl tables, and makes one table per block -/
theorem genTTLs_shape (gpp : PrevPosFn) {cs cs' : Tracker} {n : Nat} (hw : TrackerLen cs n)
    (h : cs.genTTLsWith gpp = .ok cs') : cs'.numAdds = cs.numAdds ∧ cs'.deletions = cs.deletions ∧ cs'.ttls.length = n := by
  unfold Tracker.genTTLsWith at h
  cases hl : genTTLsLoopWith gpp cs cs.deletions.length [] [] [] with
  | ok tables =>
    rw [hl] at h
    simp only [bind, Out.bind, pure] at h
    cases h
    have := genTTLsLoop_length gpp cs _ _ _ _ _ hl
    obtain ⟨h1, h2, _⟩ := hw
    simp only [List.length_append, List.length_replicate, List.length_nil] at this ⊢
    refine ⟨trivial, trivial, ?_⟩
    omega
  | err => rw [hl] at h; cases h
  | panic => rw [hl] at h; cases h
  | hang => rw [hl] at h; cases h

/-- decomposition of a successful `GenerateCachingSchedule` on a tracker fed by `AddBlockSummary` -/
theorem generate_decomp (gpp : PrevPosFn) {blocks : List (List U64 × U16)} {tr cs : Tracker}
    {limit : Int} {sch : Sch} (hb : Tracker.ofBlocks blocks = .ok tr)
    (h : tr.generateCachingScheduleWith gpp limit = .ok (cs, sch)) :
    tr.genTTLsWith gpp = .ok cs ∧ cs.ttls.length = blocks.length ∧ 0 ≤ limit ∧
      scheduleOfTTLs cs.ttls cs.ttls.length limit = .ok sch := by
  unfold Tracker.generateCachingScheduleWith at h
  cases hg : tr.genTTLsWith gpp with
  | ok cs1 =>
    rw [hg] at h
    simp only [bind, Out.bind] at h
    have hshape := genTTLs_shape gpp (ofBlocks_len hb) hg
    split at h
    · rename_i sch1 hs
      simp only [pure] at h
      cases h
      have hlen : cs.numAdds.length = cs.ttls.length := by
        rw [hshape.1, hshape.2.2]; exact (ofBlocks_len hb).2.1
      rw [hlen] at hs
      refine ⟨rfl, hshape.2.2, ?_, hs⟩
      by_cases hneg : limit < 0
      · unfold scheduleOfTTLs at hs
        simp only [hneg, ↓reduceIte] at hs
        cases hs
      · omega
    · cases h
    · cases h
    · cases h
  | err => rw [hg] at h; cases h
  | panic => rw [hg] at h; cases h
  | hang => rw [hg] at h; cases h

-- ---------------------------------------------------------------- genTTLs: at most one entry per deletion target

theorem genSetTTLs_length (i : Nat) (cached : List U64) (xy : List (Int × Int)) :
    ∀ (idxs : List Int) (acc r : List TTLInfo), genSetTTLs i cached xy idxs acc = .ok r →
    r.length = acc.length + idxs.length := by
  intro idxs
  induction idxs with
  | nil => intro acc r h; cases h; simp
  | cons idx rest ih =>
    intro acc r h
    unfold genSetTTLs at h
    cases hc : idxInt xy idx with
    | ok cords =>
      rw [hc] at h
      cases hp : idxInt cached idx with
      | ok pos =>
        rw [hp] at h
        simp only [bind, Out.bind] at h
        have := ih _ r h
        simp only [List.length_append, List.length_cons, List.length_nil] at this ⊢
        omega
      | err => rw [hp] at h; cases h
      | panic => rw [hp] at h; cases h
      | hang => rw [hp] at h; cases h
    | err => rw [hc] at h; cases h
    | panic => rw [hc] at h; cases h
    | hang => rw [hc] at h; cases h

theorem deleteAt_length {α} {l l' : List α} {i : Int} (h : deleteAt l i = .ok l') : l'.length + 1 = l.length := by
  unfold deleteAt at h
  split at h
  · cases h
  · split at h
    · rename_i hlt
      cases h
      rw [List.length_eraseIdx]
      simp only [hlt, ↓reduceIte]
      omega
    · cases h

theorem genRemoveCreated_length : ∀ (idxs : List Int) (k : Int) (cached : List U64) (xy : List (Int × Int))
    {c' : List U64} {xy' : List (Int × Int)}, genRemoveCreated idxs k cached xy = .ok (c', xy') →
    xy'.length + idxs.length = xy.length := by
  intro idxs
  induction idxs with
  | nil => intro k cached xy c' xy' h; cases h; simp
  | cons idx rest ih =>
    intro k cached xy c' xy' h
    unfold genRemoveCreated at h
    dsimp only at h
    cases h1 : deleteAt cached (idx - k) with
    | ok c1 =>
      rw [h1] at h
      cases h2 : deleteAt xy (idx - k) with
      | ok xy1 =>
        rw [h2] at h
        simp only [bind, Out.bind] at h
        have := ih _ _ _ h
        have := deleteAt_length h2
        simp only [List.length_cons]
        omega
      | err => rw [h2] at h; cases h
      | panic => rw [h2] at h; cases h
      | hang => rw [h2] at h; cases h
    | err => rw [h1] at h; cases h
    | panic => rw [h1] at h; cases h
    | hang => rw [h1] at h; cases h

theorem insertInt_length (x : Int) : ∀ l : List Int, (insertInt x l).length = l.length + 1 := by
  intro l
  induction l with
  | nil => simp [insertInt]
  | cons y ys ih =>
    unfold insertInt
    split
    · simp
    · simp [ih]

theorem sortInt_length (l : List Int) : (sortInt l).length = l.length := by
  unfold sortInt
  have : ∀ (l acc : List Int), (l.foldl (fun acc x => insertInt x acc) acc).length = acc.length + l.length := by
    intro l
    induction l with
    | nil => intro acc; simp
    | cons x xs ih => intro acc; simp only [List.foldl_cons, ih, insertInt_length, List.length_cons]; omega
  simpa using this l []

/-- one backwards step of `genTTLs`: entries recorded + bookkeeping left = bookkeeping before +
this block's deletion targets -/
theorem genTTLsStep_count (gpp : PrevPosFn) (cs : Tracker) (i : Nat) (cached : List U64)
    (xy : List (Int × Int)) {ttls : List TTLInfo} {cached' : List U64} {xy' : List (Int × Int)}
    (h : genTTLsStepWith gpp cs i cached xy = .ok (ttls, cached', xy')) :
    ∃ dels, cs.deletions[i]? = some dels ∧ ttls.length + xy'.length = xy.length + dels.length := by
  unfold genTTLsStepWith at h
  cases h1 : Out.idx cs.deletions i with
  | ok deletions =>
    cases h2 : Out.idx cs.numAdds i with
    | ok numAdds =>
      cases h3 : Out.idx cs.numLeaves i with
      | ok numLeaves =>
        cases h4 : Out.idx cs.toDestroy i with
        | ok toDestroy =>
          simp only [h1, h2, h3, h4, bind, Out.bind] at h
          generalize hg : gpp CSTTotalRows cached deletions toDestroy numAdds numLeaves = g at h
          obtain ⟨cached1, createdIdxs⟩ := g
          simp only at h
          cases h5 : genSetTTLs i cached1 xy createdIdxs.reverse [] with
          | ok tt =>
            rw [h5] at h
            simp only at h
            cases h6 : genRemoveCreated (sortInt createdIdxs) 0 cached1 xy with
            | ok r6 =>
              obtain ⟨cached2, xy2⟩ := r6
              rw [h6] at h
              simp only [pure] at h
              cases h
              have hd : cs.deletions[i]? = some deletions := by
                unfold Out.idx at h1
                split at h1
                · rename_i hget; cases h1; exact hget
                · cases h1
              refine ⟨deletions, hd, ?_⟩
              have e1 := genSetTTLs_length i cached1 xy _ _ _ h5
              have e2 := genRemoveCreated_length _ _ _ _ h6
              rw [sortInt_length] at e2
              simp only [List.length_nil, List.length_reverse, Nat.zero_add] at e1
              simp only [List.length_append, List.length_map, List.length_range]
              omega
            | err => rw [h6] at h; cases h
            | panic => rw [h6] at h; cases h
            | hang => rw [h6] at h; cases h
          | err => rw [h5] at h; cases h
          | panic => rw [h5] at h; cases h
          | hang => rw [h5] at h; cases h
        | err => simp only [h1, h2, h3, h4, bind, Out.bind] at h; cases h
        | panic => simp only [h1, h2, h3, h4, bind, Out.bind] at h; cases h
        | hang => simp only [h1, h2, h3, h4, bind, Out.bind] at h; cases h
      | err => simp only [h1, h2, h3, bind, Out.bind] at h; cases h
      | panic => simp only [h1, h2, h3, bind, Out.bind] at h; cases h
      | hang => simp only [h1, h2, h3, bind, Out.bind] at h; cases h
    | err => simp only [h1, h2, bind, Out.bind] at h; cases h
    | panic => simp only [h1, h2, bind, Out.bind] at h; cases h
    | hang => simp only [h1, h2, bind, Out.bind] at h; cases h
  | err => simp only [h1, bind, Out.bind] at h; cases h
  | panic => simp only [h1, bind, Out.bind] at h; cases h
  | hang => simp only [h1, bind, Out.bind] at h; cases h

theorem genTTLsLoop_count (gpp : PrevPosFn) (cs : Tracker) :
    ∀ (k : Nat) (cached : List U64) (xy : List (Int × Int)) (acc r : List (List TTLInfo)),
    genTTLsLoopWith gpp cs k cached xy acc = .ok r →
    r.flatten.length ≤ acc.flatten.length + xy.length + (cs.deletions.take k).flatten.length := by
  intro k
  induction k with
  | zero => intro cached xy acc r h; cases h; simp
  | succ i ih =>
    intro cached xy acc r h
    unfold genTTLsLoopWith at h
    cases hs : genTTLsStepWith gpp cs i cached xy with
    | ok st =>
      obtain ⟨ttls, cached', xy'⟩ := st
      rw [hs] at h
      simp only [bind, Out.bind] at h
      obtain ⟨dels, hd, hcount⟩ := genTTLsStep_count gpp cs i cached xy hs
      have := ih cached' xy' (ttls :: acc) r h
      have htake : (cs.deletions.take (i + 1)).flatten.length = (cs.deletions.take i).flatten.length + dels.length := by
        rw [List.take_add_one, hd]
        simp
      simp only [List.flatten_cons, List.length_append] at this
      omega
    | err => rw [hs] at h; cases h
    | panic => rw [hs] at h; cases h
    | hang => rw [hs] at h; cases h

/-- **`genTTLs` records at most one entry per recorded deletion target.** -/
theorem genTTLs_entries_le (gpp : PrevPosFn) (cs cs' : Tracker) (h : cs.genTTLsWith gpp = .ok cs') :
    cs'.ttls.flatten.length ≤ cs.deletions.flatten.length := by
  unfold Tracker.genTTLsWith at h
  cases hl : genTTLsLoopWith gpp cs cs.deletions.length [] [] [] with
  | ok tables =>
    rw [hl] at h
    simp only [bind, Out.bind, pure] at h
    cases h
    have := genTTLsLoop_count gpp cs _ _ _ _ _ hl
    simp only [List.flatten_nil, List.length_nil, Nat.zero_add, List.take_length] at this
    have hrep : ∀ n : Nat, (List.replicate n ([] : List TTLInfo)).flatten = [] := by
      intro n; induction n with
      | zero => rfl
      | succ n ih => simp [List.replicate_succ, ih]
    simp only [List.flatten_append, List.length_append, hrep, List.length_nil, Nat.add_zero]
    exact this
  | err => rw [hl] at h; cases h
  | panic => rw [hl] at h; cases h
  | hang => rw [hl] at h; cases h

/-- the tracker records as many deletion targets per block as `AddBlockSummary` was given -/
theorem addBlockSummary_dels {cs cs' : Tracker} {d : List U64} {a : U16}
    (h : cs.addBlockSummary d a = .ok cs') :
    cs'.deletions.flatten.length = cs.deletions.flatten.length + d.length := by
  unfold Tracker.addBlockSummary at h
  split at h
  · cases ha : addRootInfo CSTTotalRows [] a 0#64 with
    | ok r =>
      rw [ha] at h
      simp only [bind, Out.bind, pure] at h
      cases h
      simp
    | err => rw [ha] at h; cases h
    | panic => rw [ha] at h; cases h
    | hang => rw [ha] at h; cases h
  · cases hn : cs.numLeaves.getLast? with
    | none => simp only [hn, bind, Out.bind] at h; cases h
    | some numLeaves =>
      cases hr : cs.roots.getLast? with
      | none => simp only [hn, hr, bind, Out.bind] at h; cases h
      | some roots =>
        simp only [hn, hr, bind, Out.bind] at h
        split at h
        · split at h
          · simp only [pure] at h
            cases h
            simp [translatePositions]
          · cases h
          · cases h
          · cases h
        · cases h
        · cases h
        · cases h

theorem foldlM_addBlockSummary_dels : ∀ (blocks : List (List U64 × U16)) (cs tr : Tracker),
    blocks.foldlM (fun cs b => cs.addBlockSummary b.1 b.2) cs = .ok tr →
    tr.deletions.flatten.length = cs.deletions.flatten.length + (blocks.map (·.1.length)).sum := by
  intro blocks
  induction blocks with
  | nil => intro cs tr h; simp only [List.foldlM_nil, pure] at h; cases h; simp
  | cons b rest ih =>
    intro cs tr h
    simp only [List.foldlM_cons, bind, Out.bind] at h
    split at h
    · rename_i cs1 h1
      have := ih cs1 tr h
      have := addBlockSummary_dels h1
      simp only [List.map_cons, List.sum_cons]
      omega
    · cases h
    · cases h
    · cases h

theorem ofBlocks_dels {blocks : List (List U64 × U16)} {tr : Tracker} (h : Tracker.ofBlocks blocks = .ok tr) :
    tr.deletions.flatten.length = (blocks.map (·.1.length)).sum := by
  have := foldlM_addBlockSummary_dels blocks Tracker.new tr h
  simpa [Tracker.new] using this

end UtreexoVerif.Proofs.Schedule
