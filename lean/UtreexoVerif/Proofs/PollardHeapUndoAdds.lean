/-
  Pointer forest, heap model: `undoSingleAdd` / the `undoSingleAdd` loop of `Undo` at forest
  level.

  Undoing an addition cannot bring back the EMPTY roots the addition skipped (that is the job of
  `undoEmptyRoots`): `AbsE p G` = "`p` represents `G` up to missing empty roots".
-/
import UtreexoVerif.Proofs.PollardHeapUndoAdd
import UtreexoVerif.Props.C16d
set_option linter.unusedSectionVars false
set_option linter.unusedVariables false
set_option linter.unusedSimpArgs false

namespace UtreexoVerif.Proofs.PollardHeap
open UtreexoVerif UtreexoVerif.GoInt UtreexoVerif.Model UtreexoVerif.Model.PollardHeap UtreexoVerif.Spec Hasher
open UtreexoVerif.Model.PollardAbs UtreexoVerif.Proofs.SpecView

variable {H : Type} [DecidableEq H] [Hasher H]

/-- some empty roots dropped -/
inductive DropEmpty : List (Option (CTree H)) → List (Option (CTree H)) → Prop
  | nil : DropEmpty [] []
  | keep (t : Option (CTree H)) {ts ts' : List (Option (CTree H))} :
      DropEmpty ts ts' → DropEmpty (t :: ts) (t :: ts')
  | drop {ts ts' : List (Option (CTree H))} : DropEmpty ts ts' → DropEmpty (none :: ts) ts'

theorem DropEmpty.refl : ∀ ts : List (Option (CTree H)), DropEmpty ts ts
  | [] => .nil
  | t :: ts => .keep t (DropEmpty.refl ts)

theorem DropEmpty.append {a a' b b' : List (Option (CTree H))} (h1 : DropEmpty a a')
    (h2 : DropEmpty b b') : DropEmpty (a ++ b) (a' ++ b') := by
  induction h1 with
  | nil => exact h2
  | keep t _ ih => exact .keep t ih
  | drop _ ih => exact .drop ih

theorem DropEmpty.filter : ∀ ts : List (Option (CTree H)), DropEmpty ts (ts.filter (·.isSome))
  | [] => .nil
  | none :: ts => by simpa using DropEmpty.drop (DropEmpty.filter ts)
  | some t :: ts => by simpa using DropEmpty.keep (some t) (DropEmpty.filter ts)

/-- a present tree at the end is kept -/
theorem DropEmpty.snoc_some_inv : ∀ {a : List (Option (CTree H))} {m : CTree H}
    {c : List (Option (CTree H))}, DropEmpty (a ++ [some m]) c →
    ∃ a', c = a' ++ [some m] ∧ DropEmpty a a' := by
  intro a
  induction a with
  | nil =>
    intro m c h
    cases h with
    | keep _ h' => cases h'; exact ⟨[], rfl, .nil⟩
  | cons t a ih =>
    intro m c h
    cases h with
    | keep _ h' =>
      obtain ⟨a', e, d⟩ := ih h'
      exact ⟨t :: a', by rw [e]; rfl, .keep t d⟩
    | drop h' =>
      obtain ⟨a', e, d⟩ := ih h'
      exact ⟨a', e, .drop d⟩

/-- **`p` represents `G` up to missing empty roots** -/
structure AbsE (p : Pollard H) (G : Forest H) : Prop where
  numLeaves : p.numLeaves.toNat = G.numLeaves
  repr : ∃ ts' owned lv, DropEmpty (G.trees.map (·.2)) ts' ∧
    ReprRoots p.heap p.roots ts' owned lv ∧ owned.Nodup ∧ MapOK p.nodeMap lv

theorem Abs.toAbsE {p : Pollard H} {G : Forest H} (a : Abs p G) : AbsE p G := by
  obtain ⟨h1, owned, lv, h2, h3, h4⟩ := a
  exact ⟨h1, _, owned, lv, DropEmpty.refl _, h2, h3, h4⟩

theorem addMany_snoc (G : Forest H) (adds : List H) (x : H) :
    G.addMany (adds ++ [x]) = (G.addMany adds).add x := by
  unfold Forest.addMany Forest.add
  simp

theorem lowbit_facts (t c : Nat) : (2 ^ (t + 1) * c + 2 ^ t).testBit t = true ∧
    ∀ j, j < t → (2 ^ (t + 1) * c + 2 ^ t).testBit j = false := by
  have e : 2 ^ (t + 1) * c + 2 ^ t = 2 ^ t * (2 * c + 1) := by
    rw [Nat.pow_succ, Nat.mul_add, Nat.mul_one, Nat.mul_assoc]
  rw [e]
  constructor
  · rw [Nat.testBit_two_pow_mul]
    simp [Nat.testBit_zero]
  · intro j hj
    rw [Nat.testBit_two_pow_mul]
    simp; omega

/-- **`undoSingleAdd`** -/
theorem undoSingleAdd_absE {p : Pollard H} {G : Forest H} {x : H} (a : AbsE p (G.add x))
    (hn : G.numLeaves + 1 < 2 ^ 63)
    (hsep : ∀ e ∈ p.nodeMap, ∀ u v : H, e.1 ≠ ph u v) :
    ∃ hp' nm' rs', undoSingleAdd p =
        (.ok (), ⟨hp', nm', rs', BitVec.ofNat 64 G.numLeaves, p.numDels, p.full⟩) ∧
      AbsE ⟨hp', nm', rs', BitVec.ofNat 64 G.numLeaves, p.numDels, p.full⟩ G ∧
      (∀ e ∈ nm', e ∈ p.nodeMap) := by
  obtain ⟨hp, nm, rs, nl, ndl, full⟩ := p
  obtain ⟨hnl, ts', owned, lv, hdrop, hrepr, hnd, hmk, hmm⟩ := a
  simp only at hnl hrepr hmk hmm hsep
  obtain ⟨t, c, hF⟩ := exists_trailing_ones G.numLeaves
  have ht : t ≤ 64 := trailing_le_of_lt hF (by omega)
  have ht63 : t ≤ 63 := by
    rcases Nat.lt_or_ge t 64 with h | h
    · omega
    · exfalso
      have : 2 ^ 64 ≤ 2 ^ t := Nat.pow_le_pow_right (by decide) h
      have := Nat.two_pow_pos t
      omega
  rw [trees_add_decomp G x hF ht, List.map_append] at hdrop
  simp only [List.map_cons, List.map_nil, mergeTrees_eq_mergeC] at hdrop
  obtain ⟨hi', ets, dhi⟩ := hdrop.snoc_some_inv
  rw [ets] at hrepr
  obtain ⟨rsHigh, rsLow, oHigh, oLow, lHigh, lLow, e1, e2, e3, hHigh, hLow⟩ := hrepr.append_inv
  obtain ⟨M, fp, e4, e5, hM⟩ := hLow.single_inv
  subst e1 e2 e3 e4 e5
  have hRM : RootRepr hp M _ fp lLow := hM
  have ndM : (M :: fp).Nodup := by
    rw [List.nodup_append] at hnd; exact hnd.2.1
  -- arithmetic: the lowest root row of `n + 1`
  have hnl1 : nl.toNat = 2 ^ (t + 1) * c + 2 ^ t := by
    rw [hnl, numLeaves_add, hF]
    have := Nat.two_pow_pos t
    omega
  have hN : nl = BitVec.ofNat 64 (G.numLeaves + 1) := by
    rw [← numLeaves_add G x, ← hnl]; simp
  have hT : TreeRows nl = H8 (forestRows (G.numLeaves + 1)) := by rw [hN]; exact treeRows_eq hn
  have hrows : forestRows (G.numLeaves + 1) ≤ 63 := forestRows_le_63 hn
  obtain ⟨hbit, hlow⟩ := lowbit_facts t c
  rw [← hnl1] at hbit hlow
  have htrows : t ≤ forestRows (G.numLeaves + 1) := by
    have := testBit_le_forestRows hbit
    rwa [hnl, numLeaves_add] at this
  have hlowest : getLowestRoot nl (TreeRows nl) = H8 t := by
    rw [hT]; exact Props.C16.getLowestRoot_found nl hrows htrows hbit hlow
  -- the loop
  obtain ⟨hp', rsNew, owned', lv', ks, Mx, g1, g2, g3, g4, g5, g6, g7, g8⟩ :=
    undoAddLoop_spec x ((onesTrees t (G.slots.drop (2 ^ (t + 1) * c))).map (·.2)) hp nm rsHigh nl ndl
      full M fp lLow (t + 1) hRM ndM (by simp [onesTrees_length])
  have hsub : BitVec.ofNat 64 G.numLeaves = nl - 1#64 := by
    rw [hN]
    apply BitVec.eq_of_toNat_eq
    rw [BitVec.toNat_sub, BitVec.toNat_ofNat, BitVec.toNat_ofNat]
    simp
    omega
  refine ⟨hp', (ks ++ [x]).foldl mapDel nm, rsHigh ++ rsNew, ?_, ?_, ?_⟩
  · unfold Model.PollardHeap.undoSingleAdd
    simp only [bind_apply, getNumLeaves_apply, hlowest, toNat_H8 ht63, g1, modifyS_apply, hsub]
  · -- the abstraction
    have hndx := hnd
    rw [List.nodup_append] at hndx
    obtain ⟨ndHigh, _, dHL⟩ := hndx
    have hHigh' : ReprRoots hp' rsHigh hi' oHigh lHigh := by
      apply hHigh.frame
      intro i hi
      apply g7
      intro hm
      exact dHL i hi i hm rfl
    refine ⟨by simp [toNat_ofNat64_of_lt (show G.numLeaves < 2 ^ 64 by omega)],
      hi' ++ ((onesTrees t (G.slots.drop (2 ^ (t + 1) * c))).map (·.2)).filter (·.isSome),
      oHigh ++ owned', lHigh ++ lv', ?_, hHigh'.append g2, ?_, ?_, ?_⟩
    · rw [trees_decomp G hF (by omega), List.map_append]
      exact dhi.append (DropEmpty.filter _)
    · rw [List.nodup_append]
      exact ⟨ndHigh, g3, fun i hi j hj e => dHL i hi j (g4 j hj) e⟩
    · exact foldl_mapDel_keys_nodup _ _ hmk
    · -- the map: the leaf `x` is gone, nothing else
      have hidx : ((lHigh ++ lLow).map (·.2)).Nodup := by
        have := (hHigh.append hLow).leaf_idx hnd
        exact this.1
      have hlvk : ((lHigh ++ lLow).map (·.1)).Nodup :=
        keys_nodup_of_iff hmk hidx (fun e he => (hmm e).2 he)
      intro e
      show e ∈ (ks ++ [x]).foldl mapDel nm ↔ e ∈ lHigh ++ lv'
      rw [mem_foldl_mapDel, hmm e, g5]
      simp only [List.mem_append, List.mem_singleton, not_or, List.mem_cons, List.not_mem_nil,
        or_false]
      rw [g5] at hlvk
      simp only [List.map_append, List.map_cons, List.map_nil, List.nodup_append, List.mem_append,
        List.mem_cons, List.not_mem_nil, or_false, List.mem_map] at hlvk
      constructor
      · rintro ⟨h1, _, h3⟩
        rcases h1 with h | h | h
        · exact Or.inl h
        · exact Or.inr h
        · subst h; exact absurd rfl h3
      · intro h1
        have hmem : e ∈ lHigh ∨ e ∈ lv' ∨ e = (x, Mx) := by
          rcases h1 with h | h
          · exact Or.inl h
          · exact Or.inr (Or.inl h)
        refine ⟨hmem, ?_, ?_⟩
        · intro hk
          obtain ⟨u, v, huv⟩ := g6 e.1 hk
          exact hsep e ((hmm e).2 (by rw [g5]; simpa [List.mem_append] using hmem)) u v huv
        · intro hx
          rcases h1 with h | h
          · exact hlvk.2.2 e.1 ⟨e, h, rfl⟩ x (Or.inr rfl) hx
          · exact hlvk.2.1.2.2 e.1 ⟨e, h, rfl⟩ x rfl hx
  · intro e he
    exact ((mem_foldl_mapDel _ _ _).1 he).1

theorem numLeaves_addMany (G : Forest H) (adds : List H) :
    (G.addMany adds).numLeaves = G.numLeaves + adds.length := by
  unfold Forest.addMany Forest.numLeaves; simp

/-- **the `undoSingleAdd` loop of `Undo`**: all additions of the block undone -/
theorem undoAdds_absE : ∀ (k : Nat) (adds : List H) (G : Forest H) (p : Pollard H),
    adds.length = k → AbsE p (G.addMany adds) → G.numLeaves + adds.length < 2 ^ 63 →
    (∀ e ∈ p.nodeMap, ∀ u v : H, e.1 ≠ ph u v) →
    ∃ hp' nm' rs', undoAdds k p = (.ok (), ⟨hp', nm', rs', p.numLeaves - BitVec.ofNat 64 k,
        p.numDels, p.full⟩) ∧
      AbsE ⟨hp', nm', rs', p.numLeaves - BitVec.ofNat 64 k, p.numDels, p.full⟩ G ∧
      (∀ e ∈ nm', e ∈ p.nodeMap) := by
  intro k
  induction k with
  | zero =>
    intro adds G p hk a hn hsep
    have : adds = [] := List.length_eq_zero_iff.mp hk
    subst this
    refine ⟨p.heap, p.nodeMap, p.roots, ?_, ?_, fun e he => he⟩
    · simp [undoAdds]
    · simpa [addMany_nil] using a
  | succ k ih =>
    intro adds G p hk a hn hsep
    obtain ⟨init, x, rfl⟩ : ∃ init x, adds = init ++ [x] := by
      rcases List.eq_nil_or_concat adds with h | ⟨l', b, h⟩
      · subst h; simp at hk
      · exact ⟨l', b, by rw [h, List.concat_eq_append]⟩
    have hinit : init.length = k := by simp at hk; omega
    rw [addMany_snoc] at a
    simp only [List.length_append, List.length_cons, List.length_nil] at hn
    obtain ⟨hp1, nm1, rs1, e1, a1, s1⟩ := undoSingleAdd_absE a
      (by rw [numLeaves_addMany]; omega) hsep
    have hnl := a.numLeaves
    rw [numLeaves_add, numLeaves_addMany] at hnl
    obtain ⟨hp2, nm2, rs2, e2, a2, s2⟩ := ih init G _ hinit a1 (by omega)
      (fun e he => hsep e (s1 e he))
    simp only at e2 a2 s2
    have hsub : BitVec.ofNat 64 (G.addMany init).numLeaves - BitVec.ofNat 64 k =
        p.numLeaves - BitVec.ofNat 64 (k + 1) := by
      apply BitVec.eq_of_toNat_eq
      rw [numLeaves_addMany, BitVec.toNat_sub, BitVec.toNat_sub, BitVec.toNat_ofNat,
        BitVec.toNat_ofNat, BitVec.toNat_ofNat, hnl, hinit]
      have h1 : (G.numLeaves + k) % 2 ^ 64 = G.numLeaves + k := Nat.mod_eq_of_lt (by omega)
      have h2 : k % 2 ^ 64 = k := Nat.mod_eq_of_lt (by omega)
      have h3 : (k + 1) % 2 ^ 64 = k + 1 := Nat.mod_eq_of_lt (by omega)
      rw [h1, h2, h3]
      omega
    rw [hsub] at e2 a2
    refine ⟨hp2, nm2, rs2, ?_, a2, fun e he => s1 e (s2 e he)⟩
    show (undoSingleAdd >>= fun _ => undoAdds k) p = _
    simp only [bind_apply, e1]
    exact e2

end UtreexoVerif.Proofs.PollardHeap
