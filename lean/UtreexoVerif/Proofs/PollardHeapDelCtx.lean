/-
  Pointer forest, heap model: zippers.

  * `CCtx` — a collapsed tree with a hole (bottom-up zipper), `plug`;
  * `CtxRepr hp root ctx c hc fpc l1 l2` — the heap represents the context `ctx` of the node `c`
    (children hanging off `hc`) below the root `root`: pointer structure of every ancestor, full
    `Sub` of every sibling on the way; the DATA of the ancestors is not constrained (it is stale
    between the surgery of `deleteSingle` and `hashToRoot`);
  * `walkChild` — the node reached from a node by a child path, on the heap;
  * `Sub.zoom` — a represented tree and a child path split into a context and the sub-tree;
  * `CtxRepr.plug` — a context and a represented sub-tree (ancestor data correct) give the tree.
-/
import UtreexoVerif.Proofs.PollardHeap
set_option linter.unusedSectionVars false
set_option linter.unusedVariables false
set_option linter.unusedSimpArgs false

namespace UtreexoVerif.Proofs.PollardHeap
open UtreexoVerif UtreexoVerif.Model UtreexoVerif.Model.PollardHeap UtreexoVerif.Spec Hasher
open UtreexoVerif.Model.PollardAbs

variable {H : Type} [DecidableEq H] [Hasher H]

/-- permutation of lists of naturals built from `::` / `++`: compare counts -/
macro "perm_count" : tactic => `(tactic|
  (rw [List.perm_iff_count]; intro x
   simp only [List.count_append, List.count_cons, List.count_nil]; omega))

/-- a collapsed tree with a hole, bottom-up: `left up s` = the hole is the LEFT child of a node
whose right child is `s`, that node sits in `up` -/
inductive CCtx (H : Type) where
  | top
  | left (up : CCtx H) (sib : CTree H)
  | right (sib : CTree H) (up : CCtx H)

def CCtx.plug : CCtx H → CTree H → CTree H
  | .top, t => t
  | .left up s, t => up.plug (.node t s)
  | .right s up, t => up.plug (.node s t)

def CCtx.depth : CCtx H → Nat
  | .top => 0
  | .left up _ => up.depth + 1
  | .right _ up => up.depth + 1

/-- the child path of the hole, bottom first (`true` = right child) -/
def CCtx.revPath : CCtx H → List Bool
  | .top => []
  | .left up _ => false :: up.revPath
  | .right _ up => true :: up.revPath

/-- the heap represents the context `ctx` of node `c` (children hanging off `hc`) below `root`;
`fpc` = every node of the context except `root` (`c` and its proper ancestors, the siblings on
the way, their footprints), `l1`/`l2` = the leaves to the left / right of the hole -/
inductive CtxRepr (hp : Heap H) (root : Nat) :
    CCtx H → Nat → Nat → List Nat → List (H × Nat) → List (H × Nat) → Prop
  | top {rn : PolNode H} : hp[root]? = some rn → rn.aunt = none →
      CtxRepr hp root .top root root [] [] []
  | left {up : CCtx H} {n h c s : Nat} {hn cn sn : PolNode H} {ts : CTree H} {fs fpu : List Nat}
      {ls l1 l2 : List (H × Nat)} :
      CtxRepr hp root up n h fpu l1 l2 →
      hp[h]? = some hn → hn.lNiece = some c → hn.rNiece = some s →
      hp[c]? = some cn → hp[s]? = some sn → cn.aunt = some h → sn.aunt = some h →
      Sub hp s c ts fs ls →
      CtxRepr hp root (.left up ts) c s (c :: s :: (fs ++ fpu)) l1 (ls ++ l2)
  | right {up : CCtx H} {n h c s : Nat} {hn cn sn : PolNode H} {ts : CTree H} {fs fpu : List Nat}
      {ls l1 l2 : List (H × Nat)} :
      CtxRepr hp root up n h fpu l1 l2 →
      hp[h]? = some hn → hn.lNiece = some s → hn.rNiece = some c →
      hp[c]? = some cn → hp[s]? = some sn → cn.aunt = some h → sn.aunt = some h →
      Sub hp s c ts fs ls →
      CtxRepr hp root (.right ts up) c s (c :: s :: (fs ++ fpu)) (l1 ++ ls) l2

/-- the node (with its niece holder) reached from `n` (children hanging off `h`) along a child
path (`true` = right child) -/
def walkChild (hp : Heap H) : Nat → Nat → List Bool → Option (Nat × Nat)
  | n, h, [] => some (n, h)
  | _, h, d :: rest =>
    match hp[h]? with
    | some hn =>
      match hn.lNiece, hn.rNiece with
      | some l, some r => if d then walkChild hp r l rest else walkChild hp l r rest
      | _, _ => none
    | none => none

theorem walkChild_append (hp : Heap H) : ∀ (p q : List Bool) (n h : Nat),
    walkChild hp n h (p ++ q) = (walkChild hp n h p).bind (fun x => walkChild hp x.1 x.2 q) := by
  intro p
  induction p with
  | nil => intro q n h; rfl
  | cons d p ih =>
    intro q n h
    simp only [List.cons_append, walkChild]
    cases hp[h]? with
    | none => rfl
    | some hn =>
      simp only
      cases hn.lNiece with
      | none => rfl
      | some l =>
        cases hn.rNiece with
        | none => rfl
        | some r =>
          simp only
          cases d
          · simp only [Bool.false_eq_true, if_false]; exact ih q l r
          · simp only [if_true]; exact ih q r l

/-- the simple frame lemma: nothing of the context changed -/
theorem CtxRepr.frame {hp hp' : Heap H} {root : Nat} {ctx : CCtx H} {c hc : Nat} {fpc : List Nat}
    {l1 l2 : List (H × Nat)} (h : CtxRepr hp root ctx c hc fpc l1 l2)
    (e : ∀ i ∈ root :: fpc, hp'[i]? = hp[i]?) : CtxRepr hp' root ctx c hc fpc l1 l2 := by
  induction h with
  | top h1 h2 => exact CtxRepr.top ((e root (by simp)).trans h1) h2
  | @left up n h c s hn cn sn ts fs fpu ls l1 l2 hu h1 h2 h3 h4 h5 h6 h7 hs ih =>
    have hroot_or : ∀ {i}, CtxRepr hp root up n h fpu l1 l2 → i = h → i ∈ root :: fpu := by
      intro i hu' hi
      subst hi
      cases hu' with
      | top => simp
      | left => simp
      | right => simp
    have eh : hp'[h]? = hp[h]? := by
      have := hroot_or hu rfl
      apply e
      simp only [List.mem_cons, List.mem_append] at this ⊢
      rcases this with h | h
      · exact Or.inl h
      · exact Or.inr (Or.inr (Or.inr (Or.inr h)))
    refine CtxRepr.left (ih ?_) (eh.trans h1) h2 h3 ((e c (by simp)).trans h4)
      ((e s (by simp)).trans h5) h6 h7 (hs.frame ?_ ?_ ?_)
    · intro i hi
      apply e
      simp only [List.mem_cons, List.mem_append] at hi ⊢
      rcases hi with h | h
      · exact Or.inl h
      · exact Or.inr (Or.inr (Or.inr (Or.inr h)))
    · intro x hx; exact ⟨x, (e s (by simp)).trans hx, rfl⟩
    · intro x hx; exact ⟨x, (e c (by simp)).trans hx, rfl, rfl⟩
    · intro i hi; exact e i (by simp [hi])
  | @right up n h c s hn cn sn ts fs fpu ls l1 l2 hu h1 h2 h3 h4 h5 h6 h7 hs ih =>
    have hroot_or : ∀ {i}, CtxRepr hp root up n h fpu l1 l2 → i = h → i ∈ root :: fpu := by
      intro i hu' hi
      subst hi
      cases hu' with
      | top => simp
      | left => simp
      | right => simp
    have eh : hp'[h]? = hp[h]? := by
      have := hroot_or hu rfl
      apply e
      simp only [List.mem_cons, List.mem_append] at this ⊢
      rcases this with h | h
      · exact Or.inl h
      · exact Or.inr (Or.inr (Or.inr (Or.inr h)))
    refine CtxRepr.right (ih ?_) (eh.trans h1) h2 h3 ((e c (by simp)).trans h4)
      ((e s (by simp)).trans h5) h6 h7 (hs.frame ?_ ?_ ?_)
    · intro i hi
      apply e
      simp only [List.mem_cons, List.mem_append] at hi ⊢
      rcases hi with h | h
      · exact Or.inl h
      · exact Or.inr (Or.inr (Or.inr (Or.inr h)))
    · intro x hx; exact ⟨x, (e s (by simp)).trans hx, rfl⟩
    · intro x hx; exact ⟨x, (e c (by simp)).trans hx, rfl, rfl⟩
    · intro i hi; exact e i (by simp [hi])

/-- the niece holder of the context node is the root or a node of the context -/
theorem CtxRepr.holder_mem {hp : Heap H} {root : Nat} {ctx : CCtx H} {c hc : Nat} {fpc : List Nat}
    {l1 l2 : List (H × Nat)} (h : CtxRepr hp root ctx c hc fpc l1 l2) : hc ∈ root :: fpc := by
  cases h <;> simp

theorem CtxRepr.node_mem {hp : Heap H} {root : Nat} {ctx : CCtx H} {c hc : Nat} {fpc : List Nat}
    {l1 l2 : List (H × Nat)} (h : CtxRepr hp root ctx c hc fpc l1 l2) : c ∈ root :: fpc := by
  cases h <;> simp

/-- every node of a context exists in the heap -/
theorem CtxRepr.lt {hp : Heap H} {root : Nat} {ctx : CCtx H} {c hc : Nat} {fpc : List Nat}
    {l1 l2 : List (H × Nat)} (h : CtxRepr hp root ctx c hc fpc l1 l2) :
    ∀ i ∈ root :: fpc, i < hp.size := by
  induction h with
  | top h1 h2 => intro i hi; simp at hi; subst hi; exact lt_of_get h1
  | left hu h1 h2 h3 h4 h5 h6 h7 hs ih =>
    intro i hi
    simp only [List.mem_cons, List.mem_append] at hi
    rcases hi with rfl | rfl | rfl | hi | hi
    · exact ih _ (by simp)
    · exact lt_of_get h4
    · exact lt_of_get h5
    · exact hs.fp_lt i hi
    · exact ih _ (by simp [hi])
  | right hu h1 h2 h3 h4 h5 h6 h7 hs ih =>
    intro i hi
    simp only [List.mem_cons, List.mem_append] at hi
    rcases hi with rfl | rfl | rfl | hi | hi
    · exact ih _ (by simp)
    · exact lt_of_get h4
    · exact lt_of_get h5
    · exact hs.fp_lt i hi
    · exact ih _ (by simp [hi])

/-- a represented tree and a child path: the context of the sub-tree and the sub-tree -/
theorem Sub.zoom {hp : Heap H} {root : Nat} : ∀ (π : List Bool) (ctx : CCtx H) (n h : Nat)
    (t : CTree H) (fp : List Nat) (lv : List (H × Nat)) (fpc : List Nat) (l1 l2 : List (H × Nat))
    (t0 : CTree H),
    CtxRepr hp root ctx n h fpc l1 l2 → Sub hp n h t fp lv → childPath t π = some t0 →
    ∃ ctx' c hc fc lc fpc' l1' l2', CtxRepr hp root ctx' c hc fpc' l1' l2' ∧
      Sub hp c hc t0 fc lc ∧ ctx'.plug t0 = ctx.plug t ∧ (fpc' ++ fc).Perm (fpc ++ fp) ∧
      l1' ++ lc ++ l2' = l1 ++ lv ++ l2 ∧ walkChild hp n h π = some (c, hc) ∧
      ctx'.depth = ctx.depth + π.length ∧ ctx'.revPath = π.reverse ++ ctx.revPath := by
  intro π
  induction π with
  | nil =>
    intro ctx n h t fp lv fpc l1 l2 t0 hc hs hp0
    simp only [childPath, Option.some.injEq] at hp0
    subst hp0
    exact ⟨ctx, n, h, fp, lv, fpc, l1, l2, hc, hs, rfl, List.Perm.refl _, rfl, rfl, rfl, by simp⟩
  | cons d π ih =>
    intro ctx n h t fp lv fpc l1 l2 t0 hc hs hp0
    cases hs with
    | leaf => simp [childPath, child] at hp0
    | node h1 h2 h3 h4 h5 h6 h7 h8 h9 sa sb =>
      rename_i l r nn hn0 ln rn a b fa fb la lb
      cases d with
      | false =>
        simp only [childPath, child] at hp0
        have hc' : CtxRepr hp root (.left ctx b) l r (l :: r :: (fb ++ fpc)) l1 (lb ++ l2) :=
          CtxRepr.left hc h3 h4 h5 h6 h7 h8 h9 sb
        obtain ⟨ctx', c, hc0, fc, lc, fpc', l1', l2', g1, g2, g3, g4, g5, g6, g7, g8⟩ :=
          ih (.left ctx b) l r a fa la _ _ _ t0 hc' sa hp0
        refine ⟨ctx', c, hc0, fc, lc, fpc', l1', l2', g1, g2, g3, ?_, ?_, ?_, ?_, ?_⟩
        · refine g4.trans ?_
          perm_count
        · rw [g5]; simp [List.append_assoc]
        · simp only [walkChild, h3, h4, h5, Bool.false_eq_true, if_false]; exact g6
        · rw [g7]; simp [CCtx.depth]; omega
        · rw [g8]; simp [CCtx.revPath]
      | true =>
        simp only [childPath, child] at hp0
        have hc' : CtxRepr hp root (.right a ctx) r l (r :: l :: (fa ++ fpc)) (l1 ++ la) l2 :=
          CtxRepr.right hc h3 h4 h5 h7 h6 h9 h8 sa
        obtain ⟨ctx', c, hc0, fc, lc, fpc', l1', l2', g1, g2, g3, g4, g5, g6, g7, g8⟩ :=
          ih (.right a ctx) r l b fb lb _ _ _ t0 hc' sb hp0
        refine ⟨ctx', c, hc0, fc, lc, fpc', l1', l2', g1, g2, g3, ?_, ?_, ?_, ?_, ?_⟩
        · refine g4.trans ?_
          perm_count
        · rw [g5]; simp [List.append_assoc]
        · simp only [walkChild, h3, h4, h5, if_true]; exact g6
        · rw [g7]; simp [CCtx.depth]; omega
        · rw [g8]; simp [CCtx.revPath]

/-- everything `Sub.node` asks for except the data of the node itself -/
def KidsRepr (hp : Heap H) (c hc : Nat) (a b : CTree H) (fp : List Nat) (lv : List (H × Nat)) : Prop :=
  ∃ (l r : Nat) (hn ln rn : PolNode H) (fa fb : List Nat) (la lb : List (H × Nat)),
    hp[hc]? = some hn ∧ hn.lNiece = some l ∧ hn.rNiece = some r ∧
    hp[l]? = some ln ∧ hp[r]? = some rn ∧ ln.aunt = some hc ∧ rn.aunt = some hc ∧
    Sub hp l r a fa la ∧ Sub hp r l b fb lb ∧ fp = l :: r :: (fa ++ fb) ∧ lv = la ++ lb

end UtreexoVerif.Proofs.PollardHeap
