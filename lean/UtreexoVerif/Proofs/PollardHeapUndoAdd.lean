/-
  Pointer forest, heap model: `undoSingleAdd` — the inverse of one merge step of
  `calculateNewRoot` (`undoAdd_split`), and the loop over the rows.
-/
import UtreexoVerif.Proofs.PollardHeapProve
set_option linter.unusedSectionVars false
set_option linter.unusedVariables false
set_option linter.unusedSimpArgs false

namespace UtreexoVerif.Proofs.PollardHeap
open UtreexoVerif UtreexoVerif.GoInt UtreexoVerif.Model UtreexoVerif.Model.PollardHeap UtreexoVerif.Spec Hasher
open UtreexoVerif.Model.PollardAbs

variable {H : Type} [DecidableEq H] [Hasher H]

theorem getElem?_dnHeap_kid (hp : Heap H) (i : Nat) (n : PolNode H) (j : Nat) (hj : j ≠ i)
    (hk : isKid n j) : (dnHeap hp i n)[j]? = (hp[j]?).map (fun x => { x with aunt := none }) := by
  unfold dnHeap; simp only []
  cases hL : n.lNiece with
  | none =>
    cases hR : n.rNiece with
    | none => rcases hk with k | k <;> simp [hL, hR] at k
    | some r =>
      have : r = j := by rcases hk with k | k <;> simp [hL, hR] at k; exact k
      subst this
      simp [Array.getElem?_modify, Ne.symm hj]
  | some l =>
    cases hR : n.rNiece with
    | none =>
      have : l = j := by rcases hk with k | k <;> simp [hL, hR] at k; exact k
      subst this
      simp [Array.getElem?_modify, Ne.symm hj]
    | some r =>
      by_cases h1 : l = j
      · subst h1
        by_cases h2 : r = l
        · subst h2
          simp [Array.getElem?_modify, Ne.symm hj]
          cases hp[r]? <;> rfl
        · simp [Array.getElem?_modify, Ne.symm hj, h2]
      · have h2 : r = j := by rcases hk with k | k <;> simp [hL, hR] at k; exact absurd k h1; exact k
        subst h2
        simp [Array.getElem?_modify, Ne.symm hj, h1]

/-- **one split**: the lowest root `M` carries `node A B`; one iteration of the loop of
`undoSingleAdd` makes its two children roots again and drops `M` -/
theorem undoAdd_split {hp : Heap H} {nm : List (H × Nat)} {rsHigh : List Nat} {nl ndl : U64}
    {full : Bool} {M : Nat} {A B : CTree H} {fp : List Nat} {lv : List (H × Nat)} (f : Nat)
    (hR : RootRepr hp M (.node A B) fp lv) (nd : (M :: fp).Nodup) :
    ∃ (hp' : Heap H) (l r : Nat) (fa fb : List Nat) (la lb : List (H × Nat)) (mn : PolNode H),
      fp = l :: r :: (fa ++ fb) ∧ lv = la ++ lb ∧ hp[M]? = some mn ∧
      undoSingleAddLoop (f + 1) ⟨hp, nm, rsHigh ++ [M], nl, ndl, full⟩ =
        undoSingleAddLoop f ⟨hp', mapDel nm mn.data, rsHigh ++ [l, r], nl, ndl, full⟩ ∧
      mn.data = (CTree.node A B).hash ∧
      RootRepr hp' l A fa la ∧ RootRepr hp' r B fb lb ∧
      (∀ j, j ∉ M :: fp → hp'[j]? = hp[j]?) ∧ hp'.size = hp.size := by
  obtain ⟨⟨mn, hM, aM⟩, hs⟩ := hR
  cases hs with
  | node h1 h2 h3 h4 h5 h6 h7 h8 h9 sa sb =>
    rename_i l r nn hn0 ln rn fa fb la lb
    rw [hM] at h1 h3; cases h1; cases h3
    have ndx := nd
    simp only [List.nodup_cons, List.mem_cons, List.mem_append, not_or, List.nodup_append] at ndx
    obtain ⟨⟨nMl, nMr, nMfa, nMfb⟩, ⟨nlr, nlfa, nlfb⟩, ⟨nrfa, nrfb⟩, ndfa, ndfb, dab⟩ := ndx
    -- kids: `ln`'s nieces are the children of `r`, `rn`'s nieces the children of `l`
    have kln : ∀ j, isKid ln j → j ∈ fb := fun j k => sb.kid_mem h6 k
    have krn : ∀ j, isKid rn j → j ∈ fa := fun j k => sa.kid_mem h7 k
    have kR : ∀ j, isKid ln j → j ≠ l ∧ j ≠ r ∧ ¬ isKid rn j := fun j k =>
      ⟨fun e => nlfb (e ▸ kln j k), fun e => nrfb (e ▸ kln j k),
        fun k' => dab j (krn j k') j (kln j k) rfl⟩
    have kN : ∀ j, isKid rn j → j ≠ l ∧ j ≠ r := fun j k =>
      ⟨fun e => nlfa (e ▸ krn j k), fun e => nrfa (e ▸ krn j k)⟩
    have eA := getElem?_swapRaw nlr h6 h7
    have eC := getElem?_swapped nlr h6 h7 kR kN
    -- the two `updateAunt` calls of `swapNieces`
    have u1 : Unsettled (swapRaw hp l r ln rn) l := by
      apply sa.unsettled ndfa nlfa (Ne.symm nlr) (x := { ln with lNiece := rn.lNiece, rNiece := rn.rNiece })
      · rw [eA]; simp
      · intro x hx; rw [h7] at hx; cases hx; exact ⟨rfl, rfl⟩
      · intro i hi
        have i1 : i ≠ l := fun e => nlfa (e ▸ hi)
        have i2 : i ≠ r := fun e => nrfa (e ▸ hi)
        rw [eA, if_neg i1, if_neg i2]
    have u2 : Unsettled (setAuntKids (swapRaw hp l r ln rn) l) r := by
      have kB : ∀ j, kidOf (swapRaw hp l r ln rn) l j = decide (isKid rn j) := by
        intro j
        rw [kidOf_eq (x := { ln with lNiece := rn.lNiece, rNiece := rn.rNiece }) (by rw [eA]; simp)]
        simp [isKid]
      apply sb.unsettled ndfb nrfb nlr (x := { rn with lNiece := ln.lNiece, rNiece := ln.rNiece })
      · rw [getElem?_setAuntKids, kB, eA]
        have : ¬ isKid rn r := fun k => (kN r k).2 rfl
        simp [this, Ne.symm nlr]
      · intro x hx; rw [h6] at hx; cases hx; exact ⟨rfl, rfl⟩
      · intro i hi
        have : ¬ isKid rn i := fun k => dab i (krn i k) i hi rfl
        have i1 : i ≠ l := fun e => nlfb (e ▸ hi)
        have i2 : i ≠ r := fun e => nrfb (e ▸ hi)
        rw [getElem?_setAuntKids, kB, eA]
        simp [this, i1, i2]
    have eSwap := swapNieces_exec (⟨hp, nm, rsHigh, nl, ndl, full⟩ : Pollard H) l r ln rn h6 h7 u1 u2
    -- the heap after the swap and `aunt = nil` twice
    obtain ⟨g1, g1_def⟩ : ∃ g1 : Heap H, g1 = ((swapped hp l r ln rn).modify l
        (fun x => { x with aunt := none })).modify r (fun x => { x with aunt := none }) := ⟨_, rfl⟩
    have e1 : ∀ j, g1[j]? =
        if j = l then some { ln with lNiece := rn.lNiece, rNiece := rn.rNiece, aunt := none }
        else if j = r then some { rn with lNiece := ln.lNiece, rNiece := ln.rNiece, aunt := none }
        else if isKid ln j then (hp[j]?).map (fun x => { x with aunt := some r })
        else if isKid rn j then (hp[j]?).map (fun x => { x with aunt := some l })
        else hp[j]? := by
      intro j
      rw [g1_def]
      simp only [Array.getElem?_modify, eC]
      by_cases c1 : j = l
      · subst c1; simp [nlr, Ne.symm nlr]
      · by_cases c2 : j = r
        · subst c2; simp [c1, Ne.symm c1]
        · simp [c1, c2, Ne.symm c1, Ne.symm c2]
    have hM1 : g1[M]? = some mn := by
      have k1 : ¬ isKid ln M := fun k => nMfb (kln M k)
      have k2 : ¬ isKid rn M := fun k => nMfa (krn M k)
      rw [e1, if_neg nMl, if_neg nMr, if_neg k1, if_neg k2]; exact hM
    have selfM : ¬ isKid mn M := by
      rintro (k | k)
      · rw [h4] at k; cases k; exact nMl rfl
      · rw [h5] at k; cases k; exact nMr rfl
    obtain ⟨g2, g2_def⟩ : ∃ g2, g2 = dnHeap g1 M mn := ⟨_, rfl⟩
    have x2 : ∀ nm', delNode (some M) ⟨g1, nm', rsHigh ++ [l, r], nl, ndl, full⟩ =
        (.ok (), ⟨g2, nm', rsHigh ++ [l, r], nl, ndl, full⟩) := by
      intro nm'
      have := delNode_exec (⟨g1, nm', rsHigh ++ [l, r], nl, ndl, full⟩ : Pollard H) M mn hM1
        (by intro a ha; rw [aM] at ha; cases ha) selfM
      rw [← g2_def] at this
      exact this
    have kM : ∀ j, isKid mn j ↔ (j = l ∨ j = r) := by
      intro j
      unfold isKid
      rw [h4, h5]
      constructor
      · rintro (k | k) <;> cases k <;> simp
      · rintro (rfl | rfl) <;> simp
    have e2 : ∀ j, j ≠ M → g2[j]? =
        if j = l then some { ln with lNiece := rn.lNiece, rNiece := rn.rNiece, aunt := none }
        else if j = r then some { rn with lNiece := ln.lNiece, rNiece := ln.rNiece, aunt := none }
        else g1[j]? := by
      intro j hj
      by_cases c1 : j = l
      · rw [g2_def, getElem?_dnHeap_kid g1 M mn j hj ((kM j).2 (Or.inl c1)), e1, if_pos c1, if_pos c1]
        rfl
      · by_cases c2 : j = r
        · rw [g2_def, getElem?_dnHeap_kid g1 M mn j hj ((kM j).2 (Or.inr c2)), e1, if_neg c1,
            if_pos c2, if_neg c1, if_pos c2]
          rfl
        · rw [g2_def, getElem?_dnHeap_frame g1 M mn j hj (fun k => by
            rcases (kM j).1 k with h | h
            · exact c1 h
            · exact c2 h), if_neg c1, if_neg c2]
    have hl2 : g2[l]? = some { ln with lNiece := rn.lNiece, rNiece := rn.rNiece, aunt := none } := by
      rw [e2 l (Ne.symm nMl), if_pos rfl]
    have hr2 : g2[r]? = some { rn with lNiece := ln.lNiece, rNiece := ln.rNiece, aunt := none } := by
      rw [e2 r (Ne.symm nMr), if_neg (Ne.symm nlr), if_pos rfl]
    -- the two new roots
    have subA : Sub g2 l l A fa la := by
      apply sa.rehome ndfa
      · intro x hx; rw [h6] at hx; cases hx; exact ⟨_, hl2, rfl⟩
      · intro x hx; rw [h7] at hx; cases hx; exact ⟨_, hl2, rfl, rfl⟩
      · intro x i old hx k hi
        rw [h7] at hx; cases hx
        have k' : isKid rn i := k
        have hi' := krn i k'
        have i0 : i ≠ M := fun e => nMfa (e ▸ hi')
        have i1 : i ≠ l := (kN i k').1
        have i2 : i ≠ r := (kN i k').2
        have i3 : ¬ isKid ln i := fun k'' => (kR i k'').2.2 k'
        rw [e2 i i0, if_neg i1, if_neg i2, e1, if_neg i1, if_neg i2, if_neg i3, if_pos k', hi]; rfl
      · intro x i hx hi k1 k2
        rw [h7] at hx; cases hx
        have k' : ¬ isKid rn i := by intro k; rcases k with k | k; exact k1 k; exact k2 k
        have i0 : i ≠ M := fun e => nMfa (e ▸ hi)
        have i1 : i ≠ l := fun e => nlfa (e ▸ hi)
        have i2 : i ≠ r := fun e => nrfa (e ▸ hi)
        have i3 : ¬ isKid ln i := fun k'' => dab i hi i (kln i k'') rfl
        rw [e2 i i0, if_neg i1, if_neg i2, e1, if_neg i1, if_neg i2, if_neg i3, if_neg k']
    have subB : Sub g2 r r B fb lb := by
      apply sb.rehome ndfb
      · intro x hx; rw [h7] at hx; cases hx; exact ⟨_, hr2, rfl⟩
      · intro x hx; rw [h6] at hx; cases hx; exact ⟨_, hr2, rfl, rfl⟩
      · intro x i old hx k hi
        rw [h6] at hx; cases hx
        have k' : isKid ln i := k
        have hi' := kln i k'
        have i0 : i ≠ M := fun e => nMfb (e ▸ hi')
        obtain ⟨i1, i2, _⟩ := kR i k'
        rw [e2 i i0, if_neg i1, if_neg i2, e1, if_neg i1, if_neg i2, if_pos k', hi]; rfl
      · intro x i hx hi k1 k2
        rw [h6] at hx; cases hx
        have k' : ¬ isKid ln i := by intro k; rcases k with k | k; exact k1 k; exact k2 k
        have i0 : i ≠ M := fun e => nMfb (e ▸ hi)
        have i1 : i ≠ l := fun e => nlfb (e ▸ hi)
        have i2 : i ≠ r := fun e => nrfb (e ▸ hi)
        have i3 : ¬ isKid rn i := fun k'' => dab i (krn i k'') i hi rfl
        rw [e2 i i0, if_neg i1, if_neg i2, e1, if_neg i1, if_neg i2, if_neg k', if_neg i3]
    refine ⟨g2, l, r, fa, fb, la, lb, mn, rfl, rfl, hM, ?_, h2, ⟨⟨_, hl2, rfl⟩, subA⟩,
      ⟨⟨_, hr2, rfl⟩, subB⟩, ?_, ?_⟩
    · -- execution
      rw [Model.PollardHeap.undoSingleAddLoop]
      simp only [bind_apply, getRoots_apply, List.getLast?_concat, List.dropLast_concat,
        setRoots_apply, node_apply, hM, h4, h5]
      rw [eSwap]
      simp only [deref_some, setNode_apply, modifyS_apply, bind_apply, pure_apply, ← g1_def,
        node_apply, hM1, nodeMapDel_apply, List.append_assoc]
      rw [x2]
      simp
    · intro j hj
      simp only [List.mem_cons, List.mem_append, not_or] at hj
      obtain ⟨j0, j1, j2, j3, j4⟩ := hj
      have k1 : ¬ isKid ln j := fun k => j4 (kln j k)
      have k2 : ¬ isKid rn j := fun k => j3 (krn j k)
      rw [e2 j j0, if_neg j1, if_neg j2, e1, if_neg j1, if_neg j2, if_neg k1, if_neg k2]
    · rw [g2_def, size_dnHeap, g1_def]; simp

/-- the last iteration: the lowest root is the leaf that was added -/
theorem undoAdd_leaf {hp : Heap H} {nm : List (H × Nat)} {rsHigh : List Nat} {nl ndl : U64}
    {full : Bool} {M : Nat} {x : H} {fp : List Nat} {lv : List (H × Nat)} (f : Nat)
    (hR : RootRepr hp M (.leaf x) fp lv) :
    ∃ (hp' : Heap H), fp = [] ∧ lv = [(x, M)] ∧
      undoSingleAddLoop (f + 1) ⟨hp, nm, rsHigh ++ [M], nl, ndl, full⟩ =
        (.ok (), ⟨hp', mapDel nm x, rsHigh, nl, ndl, full⟩) ∧
      (∀ j, j ≠ M → hp'[j]? = hp[j]?) ∧ hp'.size = hp.size := by
  obtain ⟨⟨mn, hM, aM⟩, hs⟩ := hR
  cases hs with
  | leaf h1 h2 h3 h4 h5 =>
    rw [hM] at h1 h3; cases h1; cases h3
    have x2 := delNode_exec (⟨hp, mapDel nm mn.data, rsHigh, nl, ndl, full⟩ : Pollard H) M mn hM
      (by intro a ha; rw [aM] at ha; cases ha)
      (by rintro (k | k) <;> simp [h4, h5] at k)
    refine ⟨dnHeap hp M mn, rfl, rfl, ?_, ?_, by simp⟩
    · rw [Model.PollardHeap.undoSingleAddLoop]
      simp only [bind_apply, getRoots_apply, List.getLast?_concat, List.dropLast_concat,
        setRoots_apply, node_apply, hM, h4, pure_apply, nodeMapDel_apply]
      rw [x2]
      simp [h2]
    · intro j hj
      exact getElem?_dnHeap_frame hp M mn j hj (by rintro (k | k) <;> simp [h4, h5] at k)

/-- keys removed one after the other -/
theorem mem_foldl_mapDel (ks : List H) : ∀ (m : List (H × Nat)) (e : H × Nat),
    e ∈ ks.foldl mapDel m ↔ e ∈ m ∧ e.1 ∉ ks := by
  induction ks with
  | nil => intro m e; simp
  | cons k ks ih =>
    intro m e
    rw [List.foldl_cons, ih, mem_mapDel]
    simp only [List.mem_cons, not_or]
    constructor
    · rintro ⟨⟨h1, h2⟩, h3⟩; exact ⟨h1, h2, h3⟩
    · rintro ⟨h1, h2, h3⟩; exact ⟨⟨h1, h2⟩, h3⟩

theorem foldl_mapDel_keys_nodup (ks : List H) : ∀ (m : List (H × Nat)), (m.map (·.1)).Nodup →
    ((ks.foldl mapDel m).map (·.1)).Nodup := by
  induction ks with
  | nil => intro m h; exact h
  | cons k ks ih => intro m h; exact ih _ (mapDel_keys_nodup k h)

/-- **the loop of `undoSingleAdd`**: the lowest root carries the popped trees `ts` (highest
first, `none` = an empty root that the addition skipped) merged with the new leaf `x`; the loop
makes the present trees roots again and removes the leaf -/
theorem undoAddLoop_spec (x : H) : ∀ (ts : List (Option (CTree H))) (hp : Heap H)
    (nm : List (H × Nat)) (rsHigh : List Nat) (nl ndl : U64) (full : Bool) (M : Nat)
    (fp : List Nat) (lv : List (H × Nat)) (f : Nat),
    RootRepr hp M (mergeC ts (.leaf x)) fp lv → (M :: fp).Nodup → ts.length + 1 ≤ f →
    ∃ (hp' : Heap H) (rsNew owned' : List Nat) (lv' : List (H × Nat)) (ks : List H) (Mx : Nat),
      undoSingleAddLoop f ⟨hp, nm, rsHigh ++ [M], nl, ndl, full⟩ =
        (.ok (), ⟨hp', (ks ++ [x]).foldl mapDel nm, rsHigh ++ rsNew, nl, ndl, full⟩) ∧
      ReprRoots hp' rsNew (ts.filter (·.isSome)) owned' lv' ∧ owned'.Nodup ∧
      (∀ i ∈ owned', i ∈ M :: fp) ∧ lv = lv' ++ [(x, Mx)] ∧
      (∀ k ∈ ks, ∃ u v : H, k = ph u v) ∧
      (∀ j, j ∉ M :: fp → hp'[j]? = hp[j]?) ∧ hp'.size = hp.size := by
  intro ts
  induction ts with
  | nil =>
    intro hp nm rsHigh nl ndl full M fp lv f hR nd hf
    obtain ⟨f', rfl⟩ : ∃ f', f = f' + 1 := ⟨f - 1, by simp at hf; omega⟩
    simp only [mergeC, List.foldr_nil] at hR
    obtain ⟨hp', e1, e2, e3, e4, e5⟩ := undoAdd_leaf (nm := nm) (rsHigh := rsHigh) (nl := nl)
      (ndl := ndl) (full := full) f' hR
    refine ⟨hp', [], [], [], [], M, by simpa using e3, by simpa using ReprRoots.nil, by simp, by simp,
      by simp [e2], by simp, ?_, e5⟩
    intro j hj
    exact e4 j (fun e => hj (by simp [e]))
  | cons t ts ih =>
    intro hp nm rsHigh nl ndl full M fp lv f hR nd hf
    cases t with
    | none =>
      -- an empty root: skipped by the addition, nothing to split
      have : mergeC (none :: ts) (.leaf x) = mergeC ts (.leaf x) := by simp [mergeC]
      rw [this] at hR
      obtain ⟨hp', rsNew, owned', lv', ks, Mx, g1, g2, g3, g4, g5, g6, g7, g8⟩ :=
        ih hp nm rsHigh nl ndl full M fp lv f hR nd (by simp at hf ⊢; omega)
      exact ⟨hp', rsNew, owned', lv', ks, Mx, g1, by simpa using g2, g3, g4, g5, g6, g7, g8⟩
    | some T =>
      obtain ⟨f', rfl⟩ : ∃ f', f = f' + 1 := ⟨f - 1, by simp at hf; omega⟩
      have : mergeC (some T :: ts) (.leaf x) = .node T (mergeC ts (.leaf x)) := by simp [mergeC]
      rw [this] at hR
      obtain ⟨hp1, l, r, fa, fb, la, lb, mn, efp, elv, hM, hstep, hdata, hRl, hRr, hframe1, hsz1⟩ :=
        undoAdd_split (nm := nm) (rsHigh := rsHigh) (nl := nl) (ndl := ndl) (full := full) f' hR nd
      have ndx := nd
      rw [efp] at ndx
      simp only [List.nodup_cons, List.mem_cons, List.mem_append, not_or, List.nodup_append] at ndx
      obtain ⟨⟨nMl, nMr, nMfa, nMfb⟩, ⟨nlr, nlfa, nlfb⟩, ⟨nrfa, nrfb⟩, ndfa, ndfb, dab⟩ := ndx
      have hstep' : undoSingleAddLoop (f' + 1) ⟨hp, nm, rsHigh ++ [M], nl, ndl, full⟩ =
          undoSingleAddLoop f' ⟨hp1, mapDel nm mn.data, (rsHigh ++ [l]) ++ [r], nl, ndl, full⟩ := by
        rw [hstep]; simp
      obtain ⟨hp', rsNew, owned', lv', ks, Mx, g1, g2, g3, g4, g5, g6, g7, g8⟩ :=
        ih hp1 (mapDel nm mn.data) (rsHigh ++ [l]) nl ndl full r fb lb f' hRr
          (List.nodup_cons.2 ⟨nrfb, ndfb⟩) (by simp at hf ⊢; omega)
      -- the left child is untouched by the rest of the loop
      have hRl' : RootRepr hp' l T fa la := by
        obtain ⟨⟨z, ez, az⟩, sl⟩ := hRl
        have e : ∀ i ∈ l :: fa, hp'[i]? = hp1[i]? := by
          intro i hi
          apply g7
          simp only [List.mem_cons] at hi ⊢
          rcases hi with rfl | hi
          · exact fun h => h.elim (fun e => nlr e) (fun e => nlfb e)
          · exact fun h => h.elim (fun e => nrfa (e ▸ hi)) (fun e => dab i hi i e rfl)
        refine ⟨⟨z, (e l (by simp)).trans ez, az⟩, sl.frame ?_ ?_ ?_⟩
        · intro y hy; exact ⟨y, (e l (by simp)).trans hy, rfl⟩
        · intro y hy; exact ⟨y, (e l (by simp)).trans hy, rfl, rfl⟩
        · intro i hi; exact e i (by simp [hi])
      refine ⟨hp', l :: rsNew, (l :: fa) ++ owned', la ++ lv', mn.data :: ks, Mx, ?_, ?_, ?_, ?_, ?_,
        ?_, ?_, by rw [g8, hsz1]⟩
      · rw [hstep', g1]
        simp [List.append_assoc]
      · simp only [List.filter_cons, Option.isSome_some, if_true]
        have := ReprRoots.cons (t := some T) hRl' g2
        simpa using this
      · rw [List.nodup_append]
        refine ⟨List.nodup_cons.2 ⟨nlfa, ndfa⟩, g3, ?_⟩
        intro i hi j hj e
        subst e
        have := g4 i hj
        simp only [List.mem_cons] at hi this
        rcases hi with rfl | hi <;> rcases this with h | h
        · exact nlr h
        · exact nlfb h
        · exact nrfa (h ▸ hi)
        · exact dab i hi i h rfl
      · intro i hi
        rw [efp]
        simp only [List.mem_append, List.mem_cons] at hi ⊢
        rcases hi with (rfl | hi) | hi
        · simp
        · simp [hi]
        · have := g4 i hi
          simp only [List.mem_cons] at this
          rcases this with h | h <;> simp [h]
      · rw [elv, g5]; simp
      · intro k hk
        simp only [List.mem_cons] at hk
        rcases hk with rfl | hk
        · exact ⟨_, _, hdata⟩
        · exact g6 k hk
      · intro j hj
        rw [g7 j (by
          intro hm; apply hj; rw [efp]
          simp only [List.mem_cons, List.mem_append] at hm ⊢
          rcases hm with h | h <;> simp [h])]
        exact hframe1 j hj

end UtreexoVerif.Proofs.PollardHeap
