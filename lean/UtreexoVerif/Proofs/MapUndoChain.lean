/-
  `undoDelMoveDown` on the abstract state, Layer 2: the chain of un-lifts that takes a state
  tracking `F.delLeaves …` back to a state tracking `F` outside a hole (the nodes at or below the
  detwinned targets and the nodes above their parents).
-/
import UtreexoVerif.Proofs.MapUnliftCore
import UtreexoVerif.Proofs.MapRemoveAll
import UtreexoVerif.Proofs.MapPlaceEmpty
import UtreexoVerif.Proofs.MapUndoRep

namespace UtreexoVerif.Proofs.MapUndoChain
open UtreexoVerif Model Spec Spec.Forest Proofs MapInv MapPrune MapRep MapLiftGeo PForest MapAInv MapLiftCore
open MapUndoDefs MapUndoSteps PForestSpec PForestDel MapRemoveAll MapPlaceEmpty MapUndoRep Hasher
set_option linter.unusedSectionVars false
set_option linter.unusedVariables false

variable {H : Type} [DecidableEq H] [Hasher H]

/-- the part of the hole contributed by one target -/
def holeOf (N : List (Pos × H × Bool)) (d q : Pos) : Prop :=
  (Anc d q ∨ Anc q (parent d)) ∧ ∃ h f, (q, h, f) ∈ N

section root
variable {A : Pos → Option (Leaf H)} {C : H → Option Pos} {N N'' : List (Pos × H × Bool)}
  {R : Pos → Prop} {K Kp : H → Prop} {Hole'' : Pos → Prop}

/-- un-deleting a whole tree (root target `d`): nothing moves; the tree becomes part of the hole -/
theorem unrootCore (L : Laws N R) (inv : HInvP A C N'' R K Kp Hole'') {d : Pos} (hdR : R d)
    (hKd : ∀ t x, (t, x, true) ∈ N → Anc d t → ¬ K x)
    (hHd : ∀ q, Hole'' q → ¬ Anc d q)
    (hN'' : ∀ e : Pos × H × Bool, e ∈ N'' ↔ (¬ Anc d e.1 ∧ e ∈ N) ∨ e = (d, zero, false)) :
    HInvP A C N R K Kp (fun q => Hole'' q ∨ (Anc d q ∧ ∃ h0 f, (q, h0, f) ∈ N)) := by
  obtain ⟨hd0, bd0, hdN⟩ := L.root_node d hdR
  have leaf'' : ∀ t x, (t, x, true) ∈ N'' ↔ (¬ Anc d t ∧ (t, x, true) ∈ N) := by
    intro t x
    rw [hN'']
    constructor
    · rintro (h | h)
      · exact h
      · simp only [Prod.mk.injEq] at h; exact absurd h.2.2 (by simp)
    · intro h; exact Or.inl h
  have kleaf_to : ∀ (K' : H → Prop) t, KLeaf N'' K' t → KLeaf N K' t := by
    rintro K' t ⟨x, hk, hm⟩; exact ⟨x, hk, ((leaf'' t x).1 hm).2⟩
  have kleaf_from : ∀ t, KLeaf N K t → KLeaf N'' K t ∧ ¬ Anc d t := by
    rintro t ⟨x, hk, hm⟩
    have hnd : ¬ Anc d t := fun ha => hKd t x hm ha hk
    exact ⟨⟨x, hk, (leaf'' t x).2 ⟨hnd, hm⟩⟩, hnd⟩
  -- a stored position outside the new hole is not below `d`
  have out_of_d : ∀ q l, A q = some l → ¬ (Hole'' q ∨ (Anc d q ∧ ∃ h0 f, (q, h0, f) ∈ N)) →
      ¬ Anc d q ∧ ∃ b, (q, l.hash, b) ∈ N := by
    intro q l hl hh
    have hh'' : ¬ Hole'' q := fun h => hh (Or.inl h)
    obtain ⟨b, hb⟩ := inv.true_hash q l hl hh''
    rcases (hN'' _).1 hb with ⟨h1, h2⟩ | e
    · exact ⟨h1, b, h2⟩
    · simp only [Prod.mk.injEq] at e
      exfalso
      apply hh
      right
      rw [e.1]
      exact ⟨Anc.refl d, hd0, bd0, hdN⟩
  refine { true_hash := ?_, cache_sub := inv.cache_sub, cached_pos := ?_, kleaf_out := ?_, leaf_stored := ?_,
           only_needed := ?_, has_needed := ?_, flags := ?_ }
  · intro q l hl hh; exact (out_of_d q l hl hh).2
  · intro x t hC
    obtain ⟨h1, h2⟩ := inv.cached_pos x t hC
    obtain ⟨h3, h4⟩ := (leaf'' t x).1 h1
    exact ⟨h4, fun h => h.elim h2 (fun h' => h3 h'.1)⟩
  · intro t hk
    obtain ⟨hk'', hnd⟩ := kleaf_from t hk
    exact fun h => h.elim (inv.kleaf_out t hk'') (fun h' => hnd h'.1)
  · intro t hk; exact inv.leaf_stored t (kleaf_from t hk).1
  · intro q l hl hh hnr
    have hh'' : ¬ Hole'' q := fun h => hh (Or.inl h)
    obtain ⟨t, ht, hrow, hanc⟩ := inv.only_needed q l hl hh'' hnr
    exact ⟨t, kleaf_to Kp t ht, hrow, hanc⟩
  · intro q h b hm hh hnr hreq
    have hnd : ¬ Anc d q := fun ha => hh (Or.inr ⟨ha, h, b, hm⟩)
    have hh'' : ¬ Hole'' q := fun h => hh (Or.inl h)
    apply inv.has_needed q h b ((hN'' _).2 (Or.inl ⟨hnd, hm⟩)) hh'' hnr
    rcases hreq with hk | ⟨t, hk, hanc⟩
    · exact Or.inl (kleaf_from q hk).1
    · exact Or.inr ⟨t, (kleaf_from t hk).1, hanc⟩
  · intro q l hl hh hnz
    have hh'' : ¬ Hole'' q := fun h => hh (Or.inl h)
    rw [inv.flags q l hl hh'' hnz]
    constructor
    · exact kleaf_to K q
    · intro hk; exact (kleaf_from q hk).1

end root

/-! ### the chain -/

/-- one un-step of the abstract state -/
def stepBack (n : Nat) (d : Pos) (AC : (Pos → Option (Leaf H)) × (H → Option Pos)) :
    (Pos → Option (Leaf H)) × (H → Option Pos) :=
  if isRootPos n d = true then AC else (unliftAll (sib d) AC.1, unliftCAll (sib d) AC.2)

/-- `undoDelMoveDown` over the reversed list `ds` of detwinned targets (the last target first) -/
def moveBackAll (n : Nat) : List Pos → (Pos → Option (Leaf H)) × (H → Option Pos) →
    (Pos → Option (Leaf H)) × (H → Option Pos)
  | [], AC => AC
  | d :: rest, AC => stepBack n d (moveBackAll n rest AC)

theorem HInvP.congr_N {A : Pos → Option (Leaf H)} {C : H → Option Pos} {N N' : List (Pos × H × Bool)}
    {R : Pos → Prop} {K Kp : H → Prop} {Hole : Pos → Prop} (inv : HInvP A C N R K Kp Hole) (h : N' = N) :
    HInvP A C N' R K Kp Hole := by rw [h]; exact inv

/-- every node position of `F` minus the leaves below `d` that lies at/below a later target `d'` or
above its parent is a node position of `F` -/
theorem nodepos_back (nz : NZ H) (F : Forest H) (hn : F.numLeaves < 2 ^ 64) (hy : Hyg F) {d : Pos} {h : H} {b : Bool}
    (hd : (d, h, b) ∈ F.nodes) {d' : Pos}
    (hs : ¬ Anc (parent d) d' ∧ ¬ Anc d' (parent d)) {q : Pos}
    (hq : Anc d' q ∨ Anc q (parent d'))
    (hm : ∃ h0 f, (q, h0, f) ∈ (F.delLeaves (leavesUnder F d)).nodes) : ∃ h0 f, (q, h0, f) ∈ F.nodes := by
  obtain ⟨h0, f, hm⟩ := hm
  by_cases hroot : isRootPos F.numLeaves d = true
  · have D := del_root nz F hn hy hroot (leavesUnder F d) (fun x => mem_leavesUnder)
    rcases (D _).1 hm with ⟨_, hN⟩ | e
    · exact ⟨h0, f, hN⟩
    · simp only [Prod.mk.injEq] at e
      rw [e.1]; exact ⟨h, b, hd⟩
  · have hnr : isRootPos F.numLeaves d = false := by
      cases hx : isRootPos F.numLeaves d with
      | false => rfl
      | true => exact absurd hx hroot
    obtain ⟨D1, _, _, _⟩ := del_nonroot nz F hn hy hd hnr (leavesUnder F d) (fun x => mem_leavesUnder)
    rcases D1 _ hm with ⟨_, _, hN⟩ | ⟨c, hc, he, _⟩ | ⟨_, _, _, h1, hN⟩
    · exact ⟨h0, f, hN⟩
    · exfalso
      simp only at he
      have hu : Anc (parent d) q := by rw [he, ← parent_sib]; exact anc_parent_liftP hc
      rcases hq with hq | hq
      · by_cases hle : d'.1 ≤ (parent d).1
        · exact hs.1 (Anc.comparable hq hu hle)
        · exact hs.2 (Anc.comparable hu hq (by omega))
      · -- `parent d'` lies below `parent d`, hence so does `d'`
        exact hs.1 (Anc.trans (Anc.trans hu hq) (anc_parent_self d'))
    · exact ⟨h1, false, hN⟩

theorem unremove_chain (nz : NZ H) : ∀ (ds : List Pos) (F : Forest H), F.numLeaves < 2 ^ 64 → Hyg F →
    (∀ d ∈ ds, ∃ h b, (d, h, b) ∈ F.nodes) →
    ds.Pairwise (fun a b => ¬ Anc (parent a) b ∧ ¬ Anc b (parent a)) →
    ∀ (K Kp : H → Prop), (∀ d ∈ ds, ∀ t x, (t, x, true) ∈ F.nodes → Anc d t → ¬ K x) →
    (∀ d ∈ ds, isRootPos F.numLeaves d = false → ∃ t x, (t, x, true) ∈ F.nodes ∧ Anc d t ∧ Kp x) →
    ∀ (A : Pos → Option (Leaf H)) (C : H → Option Pos),
    HInvP A C (F.delLeaves (ds.flatMap (leavesUnder F))).nodes (FRoot F) K Kp (fun _ => False) →
    HInvP (moveBackAll F.numLeaves ds (A, C)).1 (moveBackAll F.numLeaves ds (A, C)).2 F.nodes (FRoot F) K Kp
      (fun q => ∃ d ∈ ds, holeOf F.nodes d q)
  | [], F, hn, hy, hnode, hsep, K, Kp, hKd, hKpd, A, C, inv => by
    have inv' := HInvP.congr_N inv (show F.nodes = (F.delLeaves (([] : List Pos).flatMap (leavesUnder F))).nodes by
      rw [List.flatMap_nil, delLeaves_nil])
    exact inv'.mono_hole (fun q h => h.elim) (fun t _ ⟨d, hd, _⟩ => by cases hd)
  | d :: ds, F, hn, hy, hnode, hsep, K, Kp, hKd, hKpd, A, C, inv => by
    obtain ⟨h, b, hd⟩ := hnode d List.mem_cons_self
    rw [List.pairwise_cons] at hsep
    have L := laws_forest nz F hn hy
    -- the forest after the first removal
    have hy1 := hyg_delLeaves hy (leavesUnder F d)
    have hnl1 : (F.delLeaves (leavesUnder F d)).numLeaves = F.numLeaves := numLeaves_delLeaves F _
    have hn1 : (F.delLeaves (leavesUnder F d)).numLeaves < 2 ^ 64 := by rw [hnl1]; exact hn
    have L1 : Laws (F.delLeaves (leavesUnder F d)).nodes (FRoot F) := by
      have := laws_forest nz (F.delLeaves (leavesUnder F d)) hn1 hy1
      rwa [froot_del] at this
    have pers : ∀ d' ∈ ds,
        (∀ h' b', (d', h', b') ∈ F.nodes → (d', h', b') ∈ (F.delLeaves (leavesUnder F d)).nodes) ∧
        (∀ t x, Anc d' t → ((t, x, true) ∈ (F.delLeaves (leavesUnder F d)).nodes ↔ (t, x, true) ∈ F.nodes)) := by
      intro d' hd'
      have hs := hsep.1 d' hd'
      by_cases hroot : isRootPos F.numLeaves d = true
      · obtain ⟨s1, s2⟩ := sep_disj hs
        exact persist_root nz F hn hy hroot s1 s2
      · have hnr : isRootPos F.numLeaves d = false := by
          cases hx : isRootPos F.numLeaves d with
          | false => rfl
          | true => exact absurd hx hroot
        exact persist_nonroot nz F hn hy hd hnr hs.1 hs.2
    have hmemLU : ∀ d' ∈ ds, ∀ x, x ∈ leavesUnder (F.delLeaves (leavesUnder F d)) d' ↔ x ∈ leavesUnder F d' := by
      intro d' hd' x
      rw [mem_leavesUnder, mem_leavesUnder]
      constructor
      · rintro ⟨t, ht, ha⟩; exact ⟨t, ((pers d' hd').2 t x ha).1 ht, ha⟩
      · rintro ⟨t, ht, ha⟩; exact ⟨t, ((pers d' hd').2 t x ha).2 ht, ha⟩
    have hmemAll : ∀ x, x ∈ ds.flatMap (leavesUnder (F.delLeaves (leavesUnder F d))) ↔ x ∈ ds.flatMap (leavesUnder F) := by
      intro x
      simp only [List.mem_flatMap]
      constructor
      · rintro ⟨d', hd', hx⟩; exact ⟨d', hd', (hmemLU d' hd' x).1 hx⟩
      · rintro ⟨d', hd', hx⟩; exact ⟨d', hd', (hmemLU d' hd' x).2 hx⟩
    have hFall : (F.delLeaves (leavesUnder F d)).delLeaves (ds.flatMap (leavesUnder (F.delLeaves (leavesUnder F d)))) =
        F.delLeaves ((d :: ds).flatMap (leavesUnder F)) := by
      rw [delLeaves_delLeaves]
      apply delLeaves_congr'
      intro x
      simp only [List.flatMap_cons, List.mem_append]
      rw [hmemAll]
    -- the rest of the chain, in the forest after the first removal
    have ih := unremove_chain nz ds (F.delLeaves (leavesUnder F d)) hn1 hy1
      (fun d' hd' => by
        obtain ⟨h', b', hm⟩ := hnode d' (List.mem_cons_of_mem _ hd')
        exact ⟨h', b', (pers d' hd').1 h' b' hm⟩)
      hsep.2 K Kp
      (fun d' hd' t x ht ha => hKd d' (List.mem_cons_of_mem _ hd') t x (((pers d' hd').2 t x ha).1 ht) ha)
      (fun d' hd' hr' => by
        rw [hnl1] at hr'
        obtain ⟨t, x, ht, ha, hk⟩ := hKpd d' (List.mem_cons_of_mem _ hd') hr'
        exact ⟨t, x, ((pers d' hd').2 t x ha).2 ht, ha, hk⟩)
      A C (by rw [froot_del]; exact HInvP.congr_N inv (congrArg Forest.nodes hFall))
    rw [froot_del, hnl1] at ih
    -- the hole of the rest avoids the region of `d`
    have hole_rest_out : ∀ q, (∃ d' ∈ ds, holeOf (F.delLeaves (leavesUnder F d)).nodes d' q) →
        ¬ Anc (parent d) q ∧ ¬ Anc d q := by
      rintro q ⟨d', hd', hq, _⟩
      have hs := hsep.1 d' hd'
      have key : ¬ Anc (parent d) q := by
        intro hu
        rcases hq with hq | hq
        · by_cases hle : d'.1 ≤ (parent d).1
          · exact hs.1 (Anc.comparable hq hu hle)
          · exact hs.2 (Anc.comparable hu hq (by omega))
        · exact hs.1 (Anc.trans (Anc.trans hu hq) (anc_parent_self d'))
      exact ⟨key, fun ha => key (Anc.trans (anc_parent_self d) ha)⟩
    -- the K-leaves stay outside the final hole
    have hkout : ∀ t, KLeaf F.nodes K t → ¬ ∃ d' ∈ d :: ds, holeOf F.nodes d' t := by
      rintro t ⟨x, hk, hm⟩ ⟨d', hd', hq, _⟩
      obtain ⟨h', b', hd'm⟩ := hnode d' hd'
      rcases hq with hq | hq
      · exact hKd d' hd' t x hm hq hk
      · have hq' : Anc t d' := Anc.trans hq (anc_parent_self d')
        have := L.leaf_below t x d' h' b' hm hd'm hq'
        rw [this] at hd'
        exact hKd t hd' t x hm (Anc.refl t) hk
    -- converting the hole of the rest to node positions of `F`
    have conv : ∀ q, (∃ d' ∈ ds, holeOf (F.delLeaves (leavesUnder F d)).nodes d' q) →
        ∃ d' ∈ d :: ds, holeOf F.nodes d' q := by
      rintro q ⟨d', hd', hq, hm⟩
      exact ⟨d', List.mem_cons_of_mem _ hd', hq, nodepos_back nz F hn hy hd (hsep.1 d' hd') hq hm⟩
    show HInvP (stepBack F.numLeaves d (moveBackAll F.numLeaves ds (A, C))).1
      (stepBack F.numLeaves d (moveBackAll F.numLeaves ds (A, C))).2 F.nodes (FRoot F) K Kp _
    unfold stepBack
    by_cases hroot : isRootPos F.numLeaves d = true
    · rw [if_pos hroot]
      have hN'' := del_root nz F hn hy hroot (leavesUnder F d) (fun x => mem_leavesUnder)
      have r := unrootCore L ih (d := d) hroot (hKd d List.mem_cons_self)
        (fun q hq => (hole_rest_out q hq).2) hN''
      refine r.mono_hole ?_ hkout
      rintro q (hq | ⟨ha, hm⟩)
      · exact conv q hq
      · exact ⟨d, List.mem_cons_self, Or.inl ha, hm⟩
    · rw [if_neg hroot]
      have hnr : isRootPos F.numLeaves d = false := by
        cases hx : isRootPos F.numLeaves d with
        | false => rfl
        | true => exact absurd hx hroot
      have hnrR : ¬ FRoot F d := by unfold FRoot; rw [hnr]; simp
      obtain ⟨D1, D2, D3, D4⟩ := del_nonroot nz F hn hy hd hnr (leavesUnder F d) (fun x => mem_leavesUnder)
      have r := unliftCoreP L L1 ih hd hnrR (hKd d List.mem_cons_self) (hKpd d List.mem_cons_self hnr)
        (fun q hq => (hole_rest_out q hq).1) D1 D2 D3 D4
      refine r.mono_hole ?_ hkout
      rintro q (hq | ⟨ha, hm⟩)
      · exact conv q hq
      · exact ⟨d, List.mem_cons_self, ha, hm⟩

/-! ### the model side: `undoDelMoveDown` over the reversed target list -/

theorem undoDelMoveDown_append : ∀ (l1 l2 : List U64) (m m1 : MapPollard H),
    MapPollard.undoDelMoveDown l1 m = (m1, .ok ()) →
    MapPollard.undoDelMoveDown (l1 ++ l2) m = MapPollard.undoDelMoveDown l2 m1
  | [], l2, m, m1, h => by
    have : m = m1 := by
      unfold MapPollard.undoDelMoveDown at h
      exact (Prod.mk.inj h).1
    rw [List.nil_append, this]
  | t :: ts, l2, m, m1, h => by
    rw [List.cons_append, undoDelMoveDown_cons]
    rw [undoDelMoveDown_cons] at h
    generalize (if inForest (sibling t) m.numLeaves m.totalRows then MapPollard.placeEmptyRoot t m else (m, .ok ())) = r at h ⊢
    obtain ⟨m', res⟩ := r
    cases res with
    | error e => simp only at h; cases (Prod.mk.inj h).2
    | ok u =>
      simp only at h ⊢
      exact undoDelMoveDown_append ts l2 _ m1 h

/-- after `placeEmptyRoot d` the move of the node at `parent d` down to `sib d` gives `unliftAll` -/
theorem moveDown_eq {A : Pos → Option (Leaf H)} {C : H → Option Pos} {N : List (Pos × H × Bool)} {R : Pos → Prop}
    {K Kp : H → Prop} {Hole : Pos → Prop} (L : Laws N R) (inv : HInvP A C N R K Kp Hole) {d : Pos}
    (hPout : ¬ Hole (parent d)) :
    (∀ q, (moveDownA d (unliftA (sib d) A) (unliftC (sib d) C)).1 q = unliftAll (sib d) A q) ∧
    (∀ x, (moveDownA d (unliftA (sib d) A) (unliftC (sib d) C)).2 x = unliftCAll (sib d) C x) := by
  have hPσ : parent (sib d) = parent d := parent_sib d
  have hAP : unliftA (sib d) A (parent d) = A (parent d) := by
    unfold unliftA
    have h1 : ¬ SUnder (sib d) (parent d) := by
      intro h; have := h.2; rw [sib_fst] at this
      have : (parent d).1 = d.1 + 1 := rfl
      omega
    have h2 : ¬ SUnder (parent (sib d)) (parent d) := by
      rw [hPσ]; intro h; have := h.2; omega
    rw [if_neg h1, if_neg h2]
  have hne : sib d ≠ parent d := by
    intro e; have := congrArg Prod.fst e; rw [sib_fst] at this
    have : (parent d).1 = d.1 + 1 := rfl
    omega
  have hσP : SUnder (parent d) (sib d) :=
    ⟨anc_parent_sib d, by rw [sib_fst]; show d.1 < d.1 + 1; omega⟩
  unfold moveDownA
  rw [hAP]
  cases hA : A (parent d) with
  | none =>
    simp only
    constructor
    · intro q
      unfold unliftAll unliftA
      rw [hPσ]
      by_cases hq : q = sib d
      · subst hq
        rw [if_pos rfl, if_neg (fun h : SUnder (sib d) (sib d) => by have := h.2; omega), if_pos hσP, hA]
      · rw [if_neg hq]
        by_cases h1 : SUnder (sib d) q
        · rw [if_pos h1, if_pos h1]
        · rw [if_neg h1, if_neg h1]
          by_cases h2 : SUnder (parent d) q
          · rw [if_pos h2, if_pos h2.1]
          · rw [if_neg h2]
            by_cases h3 : Anc (parent d) q
            · have : q = parent d := by
                apply Classical.byContradiction
                intro hne'
                exact h2 ⟨h3, by
                  have := h3.1
                  have hr : q.1 ≠ (parent d).1 := fun e => hne' (h3.eq_of_row e.symm).symm
                  omega⟩
              rw [if_pos h3, this, hA]
            · rw [if_neg h3]
    · intro x
      unfold unliftCAll unliftC
      rw [hPσ]
      cases hC : C x with
      | none => rfl
      | some p =>
        simp only [Option.map_some]
        by_cases hp : p = parent d
        · exfalso
          subst hp
          have hk : KLeaf N K (parent d) := ⟨x, inv.cache_sub x _ hC, (inv.cached_pos x _ hC).1⟩
          exact inv.leaf_stored _ hk hA
        · rw [if_neg hp]
  | some v =>
    simp only
    obtain ⟨bv, hvN⟩ := inv.true_hash _ v hA hPout
    constructor
    · intro q
      unfold unliftAll
      rw [hPσ]
      by_cases hq : q = sib d
      · subst hq; rw [upd_self, if_pos rfl, hA]
      · rw [upd_ne _ _ hq, if_neg hq]
        by_cases hqP : q = parent d
        · subst hqP
          rw [upd_self]
          have h1 : ¬ SUnder (sib d) (parent d) := by
            intro h; have := h.2; rw [sib_fst] at this
            have : (parent d).1 = d.1 + 1 := rfl
            omega
          rw [if_neg h1, if_pos (Anc.refl _)]
        · rw [upd_ne _ _ hqP]
          unfold unliftA
          rw [hPσ]
          by_cases h1 : SUnder (sib d) q
          · rw [if_pos h1, if_pos h1]
          · rw [if_neg h1, if_neg h1]
            by_cases h2 : SUnder (parent d) q
            · rw [if_pos h2, if_pos h2.1]
            · rw [if_neg h2]
              have h3 : ¬ Anc (parent d) q := by
                intro h3
                exact h2 ⟨h3, by
                  have := h3.1
                  have hr : q.1 ≠ (parent d).1 := fun e => hqP (h3.eq_of_row e.symm).symm
                  omega⟩
              rw [if_neg h3]
    · intro x
      -- the cache entry of the moved node
      have hdom : (unliftC (sib d) C v.hash).isSome = (C v.hash).isSome := by
        unfold unliftC; cases C v.hash <;> rfl
      rw [hdom]
      unfold unliftCAll
      by_cases hs : (C v.hash).isSome = true
      · rw [if_pos hs]
        obtain ⟨p, hp⟩ := Option.isSome_iff_exists.1 hs
        have hpP : p = parent d := (L.leaf_hash p v.hash (parent d) bv (inv.cached_pos _ _ hp).1 hvN).symm
        subst hpP
        rw [upd_apply]
        by_cases hx : x = v.hash
        · subst hx; rw [if_pos rfl, hp, hPσ]; simp
        · rw [if_neg hx]
          unfold unliftC
          rw [hPσ]
          cases hC : C x with
          | none => rfl
          | some p' =>
            simp only [Option.map_some]
            have : p' ≠ parent d := by
              rintro rfl
              exact hx (L.func _ _ _ _ _ (inv.cached_pos _ _ hC).1 hvN).1
            rw [if_neg this]
      · rw [if_neg hs]
        unfold unliftC
        rw [hPσ]
        cases hC : C x with
        | none => rfl
        | some p' =>
          simp only [Option.map_some]
          have : p' ≠ parent d := by
            rintro rfl
            have := (L.func _ _ _ _ _ (inv.cached_pos _ _ hC).1 hvN).1
            subst this
            rw [hC] at hs; exact hs rfl
          rw [if_neg this]

/-- **`undoDelMoveDown` over the reversed detwinned targets**, on a state that tracks the forest
after the deletions: the result is represented by `moveBackAll` -/
theorem unremove_rep (nz : NZ H) : ∀ (ds : List Pos) (F : Forest H), F.numLeaves < 2 ^ 63 → Hyg F →
    (∀ d ∈ ds, ∃ h b, (d, h, b) ∈ F.nodes) →
    ds.Pairwise (fun a b => ¬ Anc (parent a) b ∧ ¬ Anc b (parent a)) →
    ∀ (K Kp : H → Prop), (∀ d ∈ ds, ∀ t x, (t, x, true) ∈ F.nodes → Anc d t → ¬ K x) →
    (∀ d ∈ ds, isRootPos F.numLeaves d = false → ∃ t x, (t, x, true) ∈ F.nodes ∧ Anc d t ∧ Kp x) →
    ∀ (m : MapPollard H) (T : Nat) (A : Pos → Option (Leaf H)) (C : H → Option Pos),
    Rep m T A C → m.numLeaves = BitVec.ofNat 64 F.numLeaves → F.rows ≤ T → m.full = false →
    HInvP A C (F.delLeaves (ds.flatMap (leavesUnder F))).nodes (FRoot F) K Kp (fun _ => False) →
    ∃ m2, MapPollard.undoDelMoveDown (ds.map (encP T)).reverse m = (m2, .ok ()) ∧
      Rep m2 T (moveBackAll F.numLeaves ds (A, C)).1 (moveBackAll F.numLeaves ds (A, C)).2 ∧
      m2.numLeaves = m.numLeaves ∧ m2.full = false
  | [], F, hn63, hy, hnode, hsep, K, Kp, hKd, hKpd, m, T, A, C, rep, hnl, hfit, hfull, inv => by
    exact ⟨m, rfl, rep, rfl, hfull⟩
  | d :: ds, F, hn63, hy, hnode, hsep, K, Kp, hKd, hKpd, m, T, A, C, rep, hnl, hfit, hfull, inv => by
    have hn : F.numLeaves < 2 ^ 64 := by omega
    obtain ⟨h, b, hd⟩ := hnode d List.mem_cons_self
    rw [List.pairwise_cons] at hsep
    have L := laws_forest nz F hn hy
    have hy1 := hyg_delLeaves hy (leavesUnder F d)
    have hnl1 : (F.delLeaves (leavesUnder F d)).numLeaves = F.numLeaves := numLeaves_delLeaves F _
    have hn1 : (F.delLeaves (leavesUnder F d)).numLeaves < 2 ^ 64 := by rw [hnl1]; exact hn
    have L1 : Laws (F.delLeaves (leavesUnder F d)).nodes (FRoot F) := by
      have := laws_forest nz (F.delLeaves (leavesUnder F d)) hn1 hy1
      rwa [froot_del] at this
    have pers : ∀ d' ∈ ds,
        (∀ h' b', (d', h', b') ∈ F.nodes → (d', h', b') ∈ (F.delLeaves (leavesUnder F d)).nodes) ∧
        (∀ t x, Anc d' t → ((t, x, true) ∈ (F.delLeaves (leavesUnder F d)).nodes ↔ (t, x, true) ∈ F.nodes)) := by
      intro d' hd'
      have hs := hsep.1 d' hd'
      by_cases hroot : isRootPos F.numLeaves d = true
      · obtain ⟨s1, s2⟩ := sep_disj hs
        exact persist_root nz F hn hy hroot s1 s2
      · have hnr : isRootPos F.numLeaves d = false := by
          cases hx : isRootPos F.numLeaves d with
          | false => rfl
          | true => exact absurd hx hroot
        exact persist_nonroot nz F hn hy hd hnr hs.1 hs.2
    have hmemLU : ∀ d' ∈ ds, ∀ x, x ∈ leavesUnder (F.delLeaves (leavesUnder F d)) d' ↔ x ∈ leavesUnder F d' := by
      intro d' hd' x
      rw [mem_leavesUnder, mem_leavesUnder]
      constructor
      · rintro ⟨t, ht, ha⟩; exact ⟨t, ((pers d' hd').2 t x ha).1 ht, ha⟩
      · rintro ⟨t, ht, ha⟩; exact ⟨t, ((pers d' hd').2 t x ha).2 ht, ha⟩
    have hmemAll : ∀ x, x ∈ ds.flatMap (leavesUnder (F.delLeaves (leavesUnder F d))) ↔ x ∈ ds.flatMap (leavesUnder F) := by
      intro x
      simp only [List.mem_flatMap]
      constructor
      · rintro ⟨d', hd', hx⟩; exact ⟨d', hd', (hmemLU d' hd' x).1 hx⟩
      · rintro ⟨d', hd', hx⟩; exact ⟨d', hd', (hmemLU d' hd' x).2 hx⟩
    have hFall : (F.delLeaves (leavesUnder F d)).delLeaves (ds.flatMap (leavesUnder (F.delLeaves (leavesUnder F d)))) =
        F.delLeaves ((d :: ds).flatMap (leavesUnder F)) := by
      rw [delLeaves_delLeaves]
      apply delLeaves_congr'
      intro x
      simp only [List.flatMap_cons, List.mem_append]
      rw [hmemAll]
    have hnode1 : ∀ d' ∈ ds, ∃ h' b', (d', h', b') ∈ (F.delLeaves (leavesUnder F d)).nodes := by
      intro d' hd'
      obtain ⟨h', b', hm⟩ := hnode d' (List.mem_cons_of_mem _ hd')
      exact ⟨h', b', (pers d' hd').1 h' b' hm⟩
    have hKd1 : ∀ d' ∈ ds, ∀ t x, (t, x, true) ∈ (F.delLeaves (leavesUnder F d)).nodes → Anc d' t → ¬ K x :=
      fun d' hd' t x ht ha => hKd d' (List.mem_cons_of_mem _ hd') t x (((pers d' hd').2 t x ha).1 ht) ha
    have hKpd1 : ∀ d' ∈ ds, isRootPos (F.delLeaves (leavesUnder F d)).numLeaves d' = false →
        ∃ t x, (t, x, true) ∈ (F.delLeaves (leavesUnder F d)).nodes ∧ Anc d' t ∧ Kp x := by
      intro d' hd' hr'
      rw [hnl1] at hr'
      obtain ⟨t, x, ht, ha, hk⟩ := hKpd d' (List.mem_cons_of_mem _ hd') hr'
      exact ⟨t, x, ((pers d' hd').2 t x ha).2 ht, ha, hk⟩
    have inv0 : HInvP A C ((F.delLeaves (leavesUnder F d)).delLeaves
        (ds.flatMap (leavesUnder (F.delLeaves (leavesUnder F d))))).nodes (FRoot (F.delLeaves (leavesUnder F d))) K Kp
        (fun _ => False) := by
      rw [froot_del]; exact HInvP.congr_N inv (congrArg Forest.nodes hFall)
    -- the rest of the list first
    obtain ⟨m1, hmd1, rep1, hnl1', hfull1⟩ := unremove_rep nz ds (F.delLeaves (leavesUnder F d)) (by rw [hnl1]; exact hn63) hy1
      hnode1 hsep.2 K Kp hKd1 hKpd1 m T A C rep (by rw [hnl1]; exact hnl)
      (by show forestRows (F.delLeaves (leavesUnder F d)).numLeaves ≤ T; rw [hnl1]; exact hfit) hfull inv0
    have inv1 := unremove_chain nz ds (F.delLeaves (leavesUnder F d)) hn1 hy1 hnode1 hsep.2 K Kp hKd1 hKpd1 A C inv0
    rw [froot_del, hnl1] at inv1
    rw [hnl1] at rep1
    generalize hAC : moveBackAll F.numLeaves ds (A, C) = AC at rep1 inv1
    obtain ⟨A1, C1⟩ := AC
    simp only at rep1 inv1
    have hlist : ((d :: ds).map (encP T)).reverse = (ds.map (encP T)).reverse ++ [encP T d] := by
      rw [List.map_cons, List.reverse_cons]
    rw [hlist, undoDelMoveDown_append _ _ _ _ hmd1]
    have hole_rest_out : ∀ q, (∃ d' ∈ ds, holeOf (F.delLeaves (leavesUnder F d)).nodes d' q) →
        ¬ Anc (parent d) q := by
      rintro q ⟨d', hd', hq, _⟩ hu
      have hs := hsep.1 d' hd'
      rcases hq with hq | hq
      · by_cases hle : d'.1 ≤ (parent d).1
        · exact hs.1 (Anc.comparable hq hu hle)
        · exact hs.2 (Anc.comparable hu hq (by omega))
      · exact hs.1 (Anc.trans (Anc.trans hu hq) (anc_parent_self d'))
    have hrep_step : moveBackAll F.numLeaves (d :: ds) (A, C) = stepBack F.numLeaves d (A1, C1) := by
      show stepBack F.numLeaves d (moveBackAll F.numLeaves ds (A, C)) = _
      rw [hAC]
    rw [hrep_step]
    have hnm1 : m1.numLeaves = BitVec.ofNat 64 F.numLeaves := hnl1'.trans hnl
    unfold stepBack
    by_cases hroot : isRootPos F.numLeaves d = true
    · rw [if_pos hroot]
      have habove : d.1 < T → A1 (parent d) = none := by
        intro _
        cases hA : A1 (parent d) with
        | none => rfl
        | some l =>
          exfalso
          have hout : ¬ ∃ d' ∈ ds, holeOf (F.delLeaves (leavesUnder F d)).nodes d' (parent d) :=
            fun hh => hole_rest_out _ hh (Anc.refl _)
          obtain ⟨bl, hl⟩ := inv1.true_hash _ l hA hout
          obtain ⟨r, hr, ha⟩ := L1.under_root _ _ bl hl
          have := L1.root_disj r d d hr hroot (Anc.trans ha (anc_parent_self d)) (Anc.refl d)
          subst this
          have h1 := ha.1
          have : (parent r).1 = r.1 + 1 := rfl
          omega
      rw [undoDelMoveDown_root rep1 hnm1 hn63 hfit hroot habove []]
      exact ⟨m1, rfl, rep1, hnl1', hfull1⟩
    · rw [if_neg hroot]
      have hnr : isRootPos F.numLeaves d = false := by
        cases hx : isRootPos F.numLeaves d with
        | false => rfl
        | true => exact absurd hx hroot
      have hnrR : ¬ FRoot F d := by unfold FRoot; rw [hnr]; simp
      obtain ⟨D1, D2, D3, D4⟩ := del_nonroot nz F hn hy hd hnr (leavesUnder F d) (fun x => mem_leavesUnder)
      obtain ⟨ρ, hρ, hρd⟩ := L.under_root d h b hd
      obtain ⟨hσ0, bσ0, hσN⟩ := L.sib_node d h b hd hnrR
      obtain ⟨hρh, bρ, hρN⟩ := L.root_node ρ hρ
      have hdv : Valid F.rows d := node_valid (Nat.le_refl _) hd
      have hρv : Valid F.rows ρ := node_valid (Nat.le_refl _) hρN
      have hdρ : d ≠ ρ := fun e => hnrR (e ▸ hρ)
      have hdlt : d.1 < F.rows := by
        have h1 := hρd.1
        have h2 := hρv.1
        have hr : d.1 ≠ ρ.1 := fun e => hdρ (hρd.eq_of_row e.symm).symm
        omega
      have hdT : Valid T d := hdv.mono hfit
      have hltT : d.1 < T := by omega
      have hσT : Valid T (sib d) := valid_sib hdT hltT
      have hPσ : parent (sib d) = parent d := parent_sib d
      -- the node at `P` in the forest after the removal: the lifted sibling
      have hPN1 : (parent d, hσ0, bσ0) ∈ (F.delLeaves (leavesUnder F d)).nodes := by
        have := D3 (sib d) hσ0 bσ0 (Anc.refl _) hσN
        rwa [liftP_self, hPσ] at this
      -- stored nodes strictly below `P`
      have below : ∀ q l, SUnder (parent d) q → A1 q = some l →
          1 ≤ q.1 ∧ l.hash ≠ zero ∧ ∃ f, (q, l.hash, f) ∈ (F.delLeaves (leavesUnder F d)).nodes := by
        intro q l hq hl
        have hout : ¬ ∃ d' ∈ ds, holeOf (F.delLeaves (leavesUnder F d)).nodes d' q :=
          fun hh => hole_rest_out _ hh hq.1
        obtain ⟨f, hf⟩ := inv1.true_hash q l hl hout
        have hnrq : ¬ FRoot F q := L1.not_root_of_sunder hPN1 hf hq
        refine ⟨?_, L1.nonzero_of_nonroot hf hnrq, f, hf⟩
        rcases D1 _ hf with ⟨h1, _, _⟩ | ⟨c, _, he, _⟩ | ⟨h1, h2, _⟩
        · exact absurd hq.1 h1
        · simp only at he; rw [he]; simp [liftP_fst]
        · exfalso; exact h2 (Anc.antisymm h1 hq.1)
      have hcached : ∀ q l, SUnder (parent d) q → A1 q = some l → ∀ t, C1 l.hash = some t → t = q := by
        intro q l hq hl t ht
        obtain ⟨_, _, f, hf⟩ := below q l hq hl
        exact (L1.leaf_hash t l.hash q f (inv1.cached_pos _ _ ht).1 hf).symm
      rw [← hPσ] at below hcached
      obtain ⟨m1', hpl, rep1', hnl1'', hfull1'⟩ := placeEmptyRoot_rep rep1 hfull1 hσT (by rw [sib_fst]; exact hltT)
        (by
          intro q hq h0
          cases hA : A1 q with
          | none => rfl
          | some l => have := (below q l hq hA).1; omega)
        (fun q v hq hv => (below q v hq hv).2.1)
        (by
          intro q v hq hv hs
          obtain ⟨t, ht⟩ := Option.isSome_iff_exists.1 hs
          have htq := hcached q v hq hv t ht
          subst htq
          have hout : ¬ ∃ d' ∈ ds, holeOf (F.delLeaves (leavesUnder F d)).nodes d' t :=
            fun hh => hole_rest_out _ hh (by rw [← hPσ]; exact hq.1)
          exact (inv1.flags t v hv hout (below t v hq hv).2.1).2
            ⟨v.hash, inv1.cache_sub _ _ ht, (inv1.cached_pos _ _ ht).1⟩)
        hcached
        (by
          intro x t ht hts
          have hk : KLeaf (F.delLeaves (leavesUnder F d)).nodes K t :=
            ⟨x, inv1.cache_sub _ _ ht, (inv1.cached_pos _ _ ht).1⟩
          have hst := inv1.leaf_stored t hk
          cases hA : A1 t with
          | none => exact absurd hA hst
          | some v =>
            obtain ⟨_, _, f, hf⟩ := below t v hts hA
            exact ⟨v, rfl, (L1.func _ _ _ _ _ hf (inv1.cached_pos _ _ ht).1).1⟩)
      rw [sib_sib] at hpl
      have hflP : ∀ v, unliftA (sib d) A1 (parent d) = some v → (unliftC (sib d) C1 v.hash).isSome = true →
          v.remember = true := by
        intro v hv hs
        have hAP : unliftA (sib d) A1 (parent d) = A1 (parent d) := by
          unfold unliftA
          have h1 : ¬ SUnder (sib d) (parent d) := by
            intro h; have := h.2; rw [sib_fst] at this
            have : (parent d).1 = d.1 + 1 := rfl
            omega
          have h2 : ¬ SUnder (parent (sib d)) (parent d) := by
            rw [hPσ]; intro h; have := h.2; omega
          rw [if_neg h1, if_neg h2]
        rw [hAP] at hv
        have hs' : (C1 v.hash).isSome = true := by
          unfold unliftC at hs; cases hC : C1 v.hash with
          | none => rw [hC] at hs; simp at hs
          | some _ => rfl
        obtain ⟨t, ht⟩ := Option.isSome_iff_exists.1 hs'
        have hout : ¬ ∃ d' ∈ ds, holeOf (F.delLeaves (leavesUnder F d)).nodes d' (parent d) :=
          fun hh => hole_rest_out _ hh (Anc.refl _)
        obtain ⟨f, hf⟩ := inv1.true_hash _ v hv hout
        have htP := (L1.leaf_hash t v.hash (parent d) f (inv1.cached_pos _ _ ht).1 hf)
        have hnz : v.hash ≠ zero := by
          intro hz
          rw [hz] at hf
          obtain ⟨_, _, hbelow⟩ := L1.zero_root _ f hf
          -- a leaf entry with hash zero cannot be cached: cached leaves are non-zero
          have := (inv1.cached_pos _ _ ht).1
          rw [hz] at this
          have := (L1.zero_root t true this).2.1
          cases this
        exact (inv1.flags _ v hv hout hnz).2 ⟨v.hash, inv1.cache_sub _ _ ht, by rw [htP]; exact (inv1.cached_pos _ _ ht).1⟩
      have hin : (d.2 + 1) * 2 ^ d.1 ≤ F.numLeaves ∧ ((sib d).2 + 1) * 2 ^ d.1 ≤ F.numLeaves := by
        have h1 := MapAdd.node_lt hd
        have h2 := MapAdd.node_lt hσN
        simp only [sib_fst] at h1 h2
        exact ⟨h1, h2⟩
      obtain ⟨m2, hstep, rep2, hnl2, hfull2⟩ := undoDelMoveDown_step (m := m1) rep1.rows rep1.T_le hnm1 hn63 hfit
        hdv hdlt hin hpl rep1' (hfull1'.trans hfull1) hflP []
      have hout : ¬ ∃ d' ∈ ds, holeOf (F.delLeaves (leavesUnder F d)).nodes d' (parent d) :=
        fun hh => hole_rest_out _ hh (Anc.refl _)
      obtain ⟨e1, e2⟩ := moveDown_eq L1 inv1 (d := d) hout
      refine ⟨m2, hstep, rep2.congr (fun q => (e1 q).symm) (fun x => (e2 x).symm), ?_, hfull2.trans (hfull1'.trans hfull1)⟩
      rw [hnl2, hnl1'', hnl1']

end UtreexoVerif.Proofs.MapUndoChain
