/-
  The specification forest provides the `ForestView` that the soundness proof of
  `calculateHashes`/`Verify` (Props/C03) is stated against.

  * `dec h` inverts the position encoding `Spec.enc h`;
  * `rootPosition`, `rootExistsOnRow`, `rootIdxOfRow`, `maxPositionAtRow`, `TreeRows` of
    utils.go / stump.go in `(row, offset)` terms;
  * `specView F hF hn cr : ForestView H (ofNat F.numLeaves) F.roots` with
    `nodeAt p = F.nodeAt (dec p)`.
-/
import UtreexoVerif.Spec.View
import UtreexoVerif.Proofs.SpecNodes
import UtreexoVerif.Props.C16

namespace UtreexoVerif.Proofs.SpecView
open UtreexoVerif UtreexoVerif.GoInt UtreexoVerif.Proofs Spec Hasher Model
open UtreexoVerif.Proofs.SpecNodes

/-! ### decoding positions -/

/-- inverse of `Spec.enc h`: `none` for values that encode no position of a forest allocated
for `h` rows (`2^(h+1) - 1` and above) -/
def dec : Nat → Nat → Option Pos
  | 0, p => if p = 0 then some (0, 0) else none
  | h+1, p =>
    if p < 2 ^ (h + 1) then some (0, p)
    else (dec h (p - 2 ^ (h + 1))).map (fun q => (q.1 + 1, q.2))

theorem enc_zero_row (h o : Nat) : Spec.enc h (0, o) = o := by
  rw [enc_val]; simp

theorem enc_succ {h r o : Nat} (hr : r ≤ h) :
    Spec.enc (h + 1) (r + 1, o) = 2 ^ (h + 1) + Spec.enc h (r, o) := by
  have f := enc_facts hr
  rw [enc_val, enc_val, show h + 1 + 1 - (r + 1) = h + 1 - r by omega, two_pow_succ' (h + 1)]
  omega

theorem dec_enc : ∀ (h r o : Nat), r ≤ h → o < 2 ^ (h - r) → dec h (Spec.enc h (r, o)) = some (r, o) := by
  intro h
  induction h with
  | zero =>
    intro r o hr ho
    have : r = 0 := by omega
    subst this
    have : o = 0 := by simpa using ho
    subst this
    rfl
  | succ h ih =>
    intro r o hr ho
    cases r with
    | zero =>
      rw [enc_zero_row]
      unfold dec
      rw [if_pos (by simpa using ho)]
    | succ r =>
      have hr' : r ≤ h := by omega
      rw [enc_succ hr']
      unfold dec
      rw [if_neg (by omega), Nat.add_sub_cancel_left,
        ih r o hr' (by rwa [show h + 1 - (r + 1) = h - r by omega] at ho)]
      rfl

theorem dec_some : ∀ (h p r o : Nat), dec h p = some (r, o) →
    r ≤ h ∧ o < 2 ^ (h - r) ∧ Spec.enc h (r, o) = p := by
  intro h
  induction h with
  | zero =>
    intro p r o hd
    unfold dec at hd
    split at hd
    · injection hd with hd
      injection hd with h1 h2
      subst h1 h2
      rename_i hp
      subst hp
      exact ⟨Nat.le_refl _, by simp, rfl⟩
    · simp at hd
  | succ h ih =>
    intro p r o hd
    unfold dec at hd
    split at hd
    · injection hd with hd
      injection hd with h1 h2
      subst h1 h2
      rename_i hp
      exact ⟨Nat.zero_le _, by simpa using hp, enc_zero_row _ _⟩
    · rename_i hp
      cases hq : dec h (p - 2 ^ (h + 1)) with
      | none => rw [hq] at hd; simp at hd
      | some q =>
        rw [hq] at hd
        simp only [Option.map_some, Option.some.injEq, Prod.mk.injEq] at hd
        obtain ⟨h1, h2⟩ := hd
        obtain ⟨a, b, c⟩ := ih _ q.1 q.2 hq
        subst h1 h2
        refine ⟨by omega, by rwa [show h + 1 - (q.1 + 1) = h - q.1 by omega], ?_⟩
        rw [enc_succ a, c]
        omega

theorem dec_isSome : ∀ (h p : Nat), p ≤ 2 ^ (h + 1) - 2 → ∃ q, dec h p = some q := by
  intro h
  induction h with
  | zero =>
    intro p hp
    have : p = 0 := by simpa using hp
    subst this
    exact ⟨(0, 0), rfl⟩
  | succ h ih =>
    intro p hp
    unfold dec
    by_cases hlt : p < 2 ^ (h + 1)
    · exact ⟨(0, p), by rw [if_pos hlt]⟩
    · rw [if_neg hlt]
      have e := two_pow_succ' (h + 1)
      obtain ⟨q, hq⟩ := ih (p - 2 ^ (h + 1)) (by omega)
      exact ⟨(q.1 + 1, q.2), by rw [hq]; rfl⟩

/-- every value up to the top position `2^(h+1) - 2` encodes a valid `(row, offset)` -/
theorem exists_enc {h p : Nat} (hp : p ≤ 2 ^ (h + 1) - 2) :
    ∃ r o, r ≤ h ∧ o < 2 ^ (h - r) ∧ Spec.enc h (r, o) = p := by
  obtain ⟨q, hq⟩ := dec_isSome h p hp
  exact ⟨q.1, q.2, dec_some h p q.1 q.2 hq⟩

/-- the value just above the top position encodes nothing -/
theorem dec_top (h : Nat) : dec h (2 ^ (h + 1) - 1) = none := by
  cases hd : dec h (2 ^ (h + 1) - 1) with
  | none => rfl
  | some q =>
    obtain ⟨a, b, c⟩ := dec_some h _ q.1 q.2 hd
    have := enc_lt_aux a b
    omega

/-! ### `forestRows` -/

theorem le_two_pow_forestRows (n : Nat) : n ≤ 2 ^ forestRows n := by
  unfold forestRows
  split
  · rename_i h
    simp; exact h
  · have := @Nat.lt_log2_self (n - 1)
    omega

theorem forestRows_le {n k : Nat} (h : n ≤ 2 ^ k) : forestRows n ≤ k := by
  unfold forestRows
  split
  · omega
  · have : (n - 1).log2 < k := (Nat.log2_lt (by omega)).2 (by omega)
    omega

theorem forestRows_le_63 {n : Nat} (h : n < 2 ^ 63) : forestRows n ≤ 63 :=
  forestRows_le (Nat.le_of_lt h)

/-- a set bit of the leaf count is a row of the forest -/
theorem testBit_le_forestRows {n h : Nat} (hb : n.testBit h = true) : h ≤ forestRows n := by
  have h1 := le_two_pow_forestRows n
  have h2 : 2 ^ h ≤ n := Nat.ge_two_pow_of_testBit hb
  have : 2 ^ h ≤ 2 ^ forestRows n := Nat.le_trans h2 h1
  exact (Nat.pow_le_pow_iff_right (by decide)).1 this

/-- the root offset on row `h` is inside the row -/
theorem rootOffset_lt {n h : Nat} (hb : n.testBit h = true) :
    2 * (n >>> (h + 1)) < 2 ^ (forestRows n - h) := by
  have hle := testBit_le_forestRows hb
  have h1 := le_two_pow_forestRows n
  rw [Nat.shiftRight_eq_div_pow]
  rcases Nat.lt_or_ge h (forestRows n) with hlt | hge
  · -- `n < 2^rows` as `n` is not a power of two above bit `h`… in fact `n ≤ 2^rows` and bit `h`
    -- set with `h < rows` forces `n < 2^rows`
    have hn : n < 2 ^ forestRows n := by
      rcases Nat.lt_or_ge n (2 ^ forestRows n) with h' | h'
      · exact h'
      · have e : n = 2 ^ forestRows n := by omega
        rw [e, Nat.testBit_two_pow] at hb
        simp at hb
        omega
    have e : forestRows n = (forestRows n - h - 1) + (h + 1) := by omega
    have hd : n / 2 ^ (h + 1) < 2 ^ (forestRows n - h - 1) := by
      rw [Nat.div_lt_iff_lt_mul (Nat.two_pow_pos _), ← Nat.pow_add, ← e]
      exact hn
    have e2 : forestRows n - h = (forestRows n - h - 1) + 1 := by omega
    rw [e2]
    have := two_pow_succ' (forestRows n - h - 1)
    generalize n / 2 ^ (h + 1) = q at hd ⊢
    omega
  · have e : h = forestRows n := by omega
    rw [e, Nat.sub_self]
    have : n / 2 ^ (forestRows n + 1) = 0 := by
      apply Nat.div_eq_of_lt
      have := two_pow_succ' (forestRows n)
      have := Nat.two_pow_pos (forestRows n)
      omega
    rw [this]; decide

/-! ### `rootPosition` -/

theorem toNat_H8_succ {h : Nat} (hh : h ≤ 63) : (H8 h + 1#8).toNat = h + 1 := by
  rw [BitVec.toNat_add, toNat_H8 hh]
  simp only [BitVec.toNat_ofNat, Nat.reducePow, Nat.reduceMod]
  omega

theorem toNat_H8_succ_sub {tr h : Nat} (htr : tr ≤ 63) (hh : h ≤ tr) :
    (H8 tr + 1#8 - H8 h).toNat = tr + 1 - h := by
  rw [BitVec.toNat_sub, toNat_H8_succ htr, toNat_H8 (by omega)]
  omega

/-- clearing the low `h+1` bits of the leaf count and shifting down by `h` -/
theorem before_nat {n tr h : Nat} (htr : tr ≤ 63) (_hh : h ≤ tr) (hn : n < 2 ^ (tr + 1)) :
    (n &&& ((2 ^ (tr + 1) - 1) * 2 ^ (h + 1) % 2 ^ 64)) / 2 ^ h = 2 * (n >>> (h + 1)) := by
  apply Nat.eq_of_testBit_eq
  intro i
  rw [Nat.testBit_div_two_pow, Nat.testBit_and, Nat.testBit_mod_two_pow, Nat.testBit_mul_two_pow,
    Nat.testBit_two_pow_sub_one, Nat.mul_comm 2, ← Nat.pow_one 2, Nat.testBit_mul_two_pow,
    Nat.testBit_shiftRight]
  cases i with
  | zero => simp
  | succ i =>
    have e : h + 1 + (i + 1 - 1) = i + 1 + h := by omega
    rw [e]
    cases hb : n.testBit (i + 1 + h) with
    | false => simp
    | true =>
      have : i + 1 + h < tr + 1 := by
        rcases Nat.lt_or_ge (i + 1 + h) (tr + 1) with h' | h'
        · exact h'
        · have : n < 2 ^ (i + 1 + h) := Nat.lt_of_lt_of_le hn (two_pow_le_of_le h')
          rw [Nat.testBit_lt_two_pow this] at hb
          cases hb
      simp
      omega

theorem rootPosition_enc {n tr h : Nat} (htr : tr ≤ 63) (hh : h ≤ tr) (hn : n < 2 ^ (tr + 1))
    (ho : 2 * (n >>> (h + 1)) < 2 ^ (tr - h)) :
    rootPosition (BitVec.ofNat 64 n) (H8 h) (H8 tr) = encU tr h (2 * (n >>> (h + 1))) := by
  apply BitVec.eq_of_toNat_eq
  have f := enc_facts hh
  have h64 : 2 ^ (tr + 1) ≤ 2 ^ 64 := two_pow_le_64 (by omega)
  simp only [rootPosition]
  rw [toNat_H8_succ (h := h) (by omega), toNat_H8_succ_sub htr hh, toNat_H8 (h := tr) (by omega),
    toNat_H8 (h := h) (by omega),
    toNat_and_mask htr, BitVec.toNat_or, toNat_shr, BitVec.toNat_and, toNat_shl, toNat_shl,
    toNat_mask htr, toNat_ofNat64_of_lt (by omega), before_nat htr hh hn,
    Nat.or_mod_two_pow, mod_64_mod_two_pow _ (by omega),
    pred_mul_mod (Nat.two_pow_pos _) (two_pow_le_of_le (by omega)),
    toNat_encU htr hh ho, enc_mul hh,
    Nat.mod_eq_of_lt (by omega)]
  have e : 2 ^ (tr + 1) - 2 ^ (tr + 1 - h) = 2 ^ (tr + 1 - h) * (2 ^ h - 1) := by
    rw [Nat.mul_sub_one, ← two_pow_split (show h ≤ tr + 1 by omega)]
  rw [e, Nat.or_comm, or_eq_add_of_lt (by omega)]

/-! ### root presence and root index -/

theorem testBit_of_rootExists {n h : Nat} (hn : n < 2 ^ 64) (hh : h ≤ 63)
    (hx : rootExistsOnRow (BitVec.ofNat 64 n) (H8 h) = true) : n.testBit h = true := by
  unfold rootExistsOnRow at hx
  rw [beq_iff_eq] at hx
  have := congrArg BitVec.toNat hx
  rw [BitVec.toNat_and, toNat_shr, toNat_H8 hh, toNat_ofNat64_of_lt hn,
    BitVec.toNat_one (by decide), Nat.and_one_is_mod] at this
  rw [Nat.testBit_eq_decide_div_mod_eq]
  simpa using this

/-- number of set bits of `n` strictly above `h`, up to bit `k` -/
def countAbove (n h k : Nat) : Nat := (List.range (k - h)).countP (fun i => n.testBit (h + 1 + i))

theorem treeRowsFrom_getElem {n h : Nat} (hb : n.testBit h = true) :
    ∀ k, h ≤ k → (treeRowsFrom k n)[countAbove n h k]? = some h := by
  intro k
  induction k with
  | zero =>
    intro hk
    have : h = 0 := by omega
    subst this
    simp [treeRowsFrom, countAbove, hb]
  | succ k ih =>
    intro hk
    rcases Nat.lt_or_ge k h with hlt | hge
    · have : h = k + 1 := by omega
      subst this
      simp [treeRowsFrom, countAbove, hb]
    · have e : k + 1 - h = (k - h) + 1 := by omega
      have e2 : h + 1 + (k - h) = k + 1 := by omega
      have ih' := ih hge
      unfold countAbove at ih' ⊢
      rw [e, List.range_succ, List.countP_append]
      simp only [List.countP_cons, List.countP_nil, e2, Nat.zero_add]
      unfold treeRowsFrom
      cases hk1 : n.testBit (k + 1) with
      | true => simpa using ih'
      | false => simpa using ih'

theorem countP_range_extend {p : Nat → Bool} {a b : Nat} (hab : a ≤ b)
    (hp : ∀ i, a ≤ i → p i = false) :
    (List.range b).countP p = (List.range a).countP p := by
  obtain ⟨d, rfl⟩ : ∃ d, b = a + d := ⟨b - a, by omega⟩
  rw [List.range_add, List.countP_append]
  have : List.countP p (List.map (fun x => a + x) (List.range d)) = 0 := by
    rw [List.countP_eq_zero]
    intro x hx
    rw [List.mem_map] at hx
    obtain ⟨y, _, rfl⟩ := hx
    simp [hp (a + y) (by omega)]
  omega

theorem rootIdxOfRow_eq {n h : Nat} (hn : n < 2 ^ 64) (hh : h ≤ 63) :
    rootIdxOfRow (BitVec.ofNat 64 n) (H8 h) = countAbove n h 64 := by
  unfold rootIdxOfRow onesCount64 countAbove
  rw [Int.toNat_natCast, toNat_H8 hh]
  have hf : (fun i => (BitVec.ofNat 64 n >>> (h + 1)).getLsbD i) =
      (fun i => n.testBit (h + 1 + i)) := by
    funext i
    rw [BitVec.getLsbD_ushiftRight, BitVec.getLsbD_ofNat]
    by_cases hi : h + 1 + i < 64
    · simp [hi]
    · have : n < 2 ^ (h + 1 + i) := Nat.lt_of_lt_of_le hn (two_pow_le_of_le (by omega))
      simp [hi, Nat.testBit_lt_two_pow this]
  rw [hf]
  apply countP_range_extend (by omega)
  intro i hi
  have : n < 2 ^ (h + 1 + i) := Nat.lt_of_lt_of_le hn (two_pow_le_of_le (by omega))
  exact Nat.testBit_lt_two_pow this

/-- the root on row `h` is found in `Roots` at the index computed by `rootIdxOfRow` -/
theorem treeRows_getElem {n h : Nat} (hn : n < 2 ^ 64) (hh : h ≤ 63) (hb : n.testBit h = true) :
    (treeRows n)[rootIdxOfRow (BitVec.ofNat 64 n) (H8 h)]? = some h := by
  rw [rootIdxOfRow_eq hn hh]
  exact treeRowsFrom_getElem hb 64 (by omega)


/-! ### the address range checked by `rowCursor` -/

theorem dec_pred_le {m : U64} {B : Nat} (hm : m.toNat ≤ B + 1) :
    (if (m != 0#64) = true then (m - 1#64, false) else (m, false)).1.toNat ≤ B := by
  split
  · rename_i hne
    have hne' : m.toNat ≠ 0 := by
      intro h0
      have : m = 0#64 := BitVec.eq_of_toNat_eq (by simpa using h0)
      simp [this] at hne
    have hlt := m.isLt
    show (m - 1#64).toNat ≤ B
    rw [BitVec.toNat_sub, BitVec.toNat_one (by decide)]
    omega
  · rename_i hne
    have : m = 0#64 := by simpa using hne
    subst this
    simp

/-- every position admitted by the row cursor is at most the top position `2^(rows+1) - 2` -/
theorem maxPositionAtRow_le {tr : Nat} (htr : tr ≤ 63) (row : U8) (N : U64)
    (hN : N.toNat ≤ 2 ^ tr) :
    (maxPositionAtRow row (H8 tr) N).1.toNat ≤ 2 ^ (tr + 1) - 2 := by
  have f := two_pow_succ' tr
  have g := Nat.two_pow_pos tr
  unfold maxPositionAtRow ParentMany
  by_cases h0 : (row == 0#8) = true
  · simp only [h0, if_true, Bool.false_eq_true, if_false]
    exact dec_pred_le (by omega)
  · simp only [h0, Bool.false_eq_true, if_false]
    by_cases h1 : decide (row > H8 tr) = true
    · simp [h1]
    · simp only [h1, Bool.false_eq_true, if_false]
      apply dec_pred_le
      rw [toNat_H8 htr, toNat_and_mask htr]
      have := Nat.mod_lt (shr N row.toNat |||
        shl (shl 2#64 tr - 1#64) (conv 64 (H8 tr - (row - 1#8))).toNat).toNat
        (Nat.two_pow_pos (tr + 1))
      omega

/-! ### the view -/

theorem treeRows_eq {n : Nat} (hn : n < 2 ^ 63) :
    TreeRows (BitVec.ofNat 64 n) = H8 (forestRows n) := by
  apply BitVec.eq_of_toNat_eq
  rw [Props.C16.treeRows_spec (by omega), toNat_H8 (forestRows_le_63 hn)]

theorem row_eq_H8 {row : U8} {tr : Nat} (htr : tr ≤ 63) (hle : row ≤ H8 tr) :
    row = H8 row.toNat ∧ row.toNat ≤ tr := by
  rw [BitVec.le_def, toNat_H8 htr] at hle
  refine ⟨?_, hle⟩
  apply BitVec.eq_of_toNat_eq
  rw [toNat_H8 (by omega)]

section
set_option linter.unusedSectionVars false
variable {H : Type} [DecidableEq H] [Hasher H]

/-- `nodeAt` of the view: decode the `uint64`, then look the position up in the forest -/
def viewNodeAt (F : Forest H) (p : U64) : Option H := (dec F.rows p.toNat).bind F.nodeAt

theorem viewNodeAt_encU {F : Forest H} (hn : F.numLeaves < 2 ^ 63) {r o : Nat}
    (hr : r ≤ F.rows) (ho : o < 2 ^ (F.rows - r)) :
    viewNodeAt F (encU F.rows r o) = F.nodeAt (r, o) := by
  have htr : F.rows ≤ 63 := forestRows_le_63 hn
  unfold viewNodeAt
  rw [toNat_encU htr hr ho, dec_enc _ _ _ hr ho]
  rfl

/-- a value that decodes to nothing carries no node -/
theorem viewNodeAt_eq_some {F : Forest H} {p : U64} {h : H} (hv : viewNodeAt F p = some h) :
    ∃ r o, r ≤ F.rows ∧ o < 2 ^ (F.rows - r) ∧ p = encU F.rows r o ∧ F.nodeAt (r, o) = some h := by
  unfold viewNodeAt at hv
  cases hd : dec F.rows p.toNat with
  | none => rw [hd] at hv; simp at hv
  | some q =>
    rw [hd] at hv
    obtain ⟨a, b, c⟩ := dec_some _ _ q.1 q.2 hd
    refine ⟨q.1, q.2, a, b, ?_, hv⟩
    apply BitVec.eq_of_toNat_eq
    unfold encU
    rw [c, BitVec.toNat_ofNat, Nat.mod_eq_of_lt p.isLt]

theorem view_root_ok (F : Forest H) (hn : F.numLeaves < 2 ^ 63) :
    let N : U64 := BitVec.ofNat 64 F.numLeaves
    ∀ (row : U8) (h : H), row ≤ TreeRows N → rootExistsOnRow N row = true →
      F.roots[rootIdxOfRow N row]? = some h →
      viewNodeAt F (rootPosition N row (TreeRows N)) = some h := by
  intro N row h hle hex hroot
  have htr : F.rows ≤ 63 := forestRows_le_63 hn
  have hN : TreeRows N = H8 F.rows := treeRows_eq hn
  rw [hN] at hle ⊢
  obtain ⟨hrow, hk⟩ := row_eq_H8 htr hle
  generalize row.toNat = k at hrow hk
  subst hrow
  have hn64 : F.numLeaves < 2 ^ 64 := by omega
  have hb := testBit_of_rootExists hn64 (by omega) hex
  have hidx := treeRows_getElem hn64 (show k ≤ 63 by omega) hb
  rw [roots_eq, List.getElem?_map, hidx] at hroot
  simp only [Option.map_some, Option.some.injEq] at hroot
  subst hroot
  have hle2 : F.numLeaves ≤ 2 ^ F.rows := le_two_pow_forestRows F.numLeaves
  have hlt : F.numLeaves < 2 ^ (F.rows + 1) := by
    have := two_pow_succ' F.rows
    have := Nat.two_pow_pos F.rows
    omega
  rw [rootPosition_enc htr hk hlt (rootOffset_lt hb), viewNodeAt_encU hn hk (rootOffset_lt hb)]
  exact nodeAt_rootPos F (List.mem_of_getElem? hidx)


/-- the parent of the top position is not a position -/
theorem parent_top {tr : Nat} (htr : tr ≤ 63) :
    (Parent (encU tr tr 0) (H8 tr)).toNat = 2 ^ (tr + 1) - 1 := by
  have f := two_pow_succ' tr
  have g := Nat.two_pow_pos tr
  have e : Spec.enc tr (tr, 0) = 2 ^ (tr + 1) - 2 := by
    rw [enc_val, show tr + 1 - tr = 1 by omega]; omega
  unfold Parent
  rw [BitVec.toNat_or, toNat_shr, toNat_H8 htr, toNat_one_shl htr,
    toNat_encU htr (Nat.le_refl _) (by simp), e,
    two_pow_or_eq_add (by omega)]
  omega

theorem view_children_ok (F : Forest H) (hF : LeafOK F) (hn : F.numLeaves < 2 ^ 63) (cr : CR H) :
    let N : U64 := BitVec.ofNat 64 F.numLeaves
    ∀ (p : U64) (row : U8) (a b : H), row ≤ TreeRows N →
      p ≤ (maxPositionAtRow row (TreeRows N) N).1 →
      viewNodeAt F (Parent p (TreeRows N)) = some (ph a b) → a ≠ zero → b ≠ zero →
      viewNodeAt F (leftSib p) = some a ∧ viewNodeAt F (rightSib p) = some b := by
  intro N p row a b _ hp hnode ha hb
  have htr : F.rows ≤ 63 := forestRows_le_63 hn
  have hN : TreeRows N = H8 F.rows := treeRows_eq hn
  rw [hN] at hp hnode
  have hle2 : F.numLeaves ≤ 2 ^ F.rows := le_two_pow_forestRows F.numLeaves
  have hNn : N.toNat ≤ 2 ^ F.rows := by
    show (BitVec.ofNat 64 F.numLeaves).toNat ≤ _
    rw [toNat_ofNat64_of_lt (by omega)]; exact hle2
  have hpmax : p.toNat ≤ 2 ^ (F.rows + 1) - 2 :=
    Nat.le_trans (BitVec.le_def.1 hp) (maxPositionAtRow_le htr row N hNn)
  obtain ⟨r, o, hr, ho, he⟩ := exists_enc hpmax
  have hpe : p = encU F.rows r o := by
    apply BitVec.eq_of_toNat_eq
    rw [toNat_encU htr hr ho, he]
  subst hpe
  rcases Nat.lt_or_ge r F.rows with hlt | hge
  · rw [Props.C16.parent_enc htr hlt ho] at hnode
    have g := enc_facts_succ hlt
    have ho2 : o / 2 < 2 ^ (F.rows - (r + 1)) := by omega
    rw [viewNodeAt_encU hn (by omega) ho2] at hnode
    obtain ⟨h1, h2⟩ := nodeAt_children cr.inj cr.nonzero hF hnode ha hb
    rw [Props.C16.leftSib_enc htr hr ho, Props.C16.rightSib_enc htr hr ho,
      viewNodeAt_encU hn hr (by omega), viewNodeAt_encU hn hr (by omega)]
    exact ⟨h1, h2⟩
  · have hrt : r = F.rows := by omega
    subst hrt
    have ho0 : o = 0 := by simpa using ho
    subst ho0
    unfold viewNodeAt at hnode
    rw [parent_top htr, dec_top] at hnode
    simp at hnode

/-- **The specification forest as a `ForestView`.** -/
def specView (F : Forest H) (hF : LeafOK F) (hn : F.numLeaves < 2 ^ 63) (cr : CR H) :
    ForestView H (BitVec.ofNat 64 F.numLeaves) F.roots where
  nodeAt := viewNodeAt F
  root_ok := view_root_ok F hn
  children_ok := view_children_ok F hF hn cr

theorem specView_nodeAt (F : Forest H) (hF : LeafOK F) (hn : F.numLeaves < 2 ^ 63) (cr : CR H)
    (p : U64) : (specView F hF hn cr).nodeAt p = (dec F.rows p.toNat).bind F.nodeAt := rfl

/-- on encoded positions the view is the forest's `nodeAt` -/
theorem specView_nodeAt_encU (F : Forest H) (hF : LeafOK F) (hn : F.numLeaves < 2 ^ 63)
    (cr : CR H) {r o : Nat} (hr : r ≤ F.rows) (ho : o < 2 ^ (F.rows - r)) :
    (specView F hF hn cr).nodeAt (encU F.rows r o) = F.nodeAt (r, o) :=
  viewNodeAt_encU hn hr ho

/-- values that encode no position carry no node -/
theorem specView_nodeAt_none (F : Forest H) (hF : LeafOK F) (hn : F.numLeaves < 2 ^ 63)
    (cr : CR H) {p : U64} (hp : dec F.rows p.toNat = none) :
    (specView F hF hn cr).nodeAt p = none := by
  rw [specView_nodeAt, hp]; rfl

end
end UtreexoVerif.Proofs.SpecView
